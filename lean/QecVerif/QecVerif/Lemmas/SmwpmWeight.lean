/-
  helper lemmas for Props/C03/Weights.lean (the step counts and the evaluation of `_distance`, `_cluster_distance`)
-/
import QecVerif.Model.SmwpmWeight
namespace Qec.Smwpm.Weight
open Qec Qec.Smwpm

theorem iabs_nonneg (x : Int) : 0 ≤ iabs x := by unfold iabs; split <;> omega

theorem iabs_sub_comm (a b : Int) : iabs (a - b) = iabs (b - a) := by
  unfold iabs; split <;> split <;> omega

theorem iabs_eq_zero (x : Int) : iabs x = 0 ↔ x = 0 := by unfold iabs; split <;> omega

theorem pdist_symm (d a b : Int) : pdist d a b = pdist d b a := by
  unfold pdist; rw [iabs_sub_comm]

theorem pdist_self (d a : Int) (hd : 0 ≤ d) : pdist d a a = 0 := by
  unfold pdist iabs; split <;> omega

/-- on a periodic axis of length `d` with both coordinates in range -/
theorem pdist_bounds (d a b : Int) (ha : 0 ≤ a ∧ a < d) (hb : 0 ≤ b ∧ b < d) :
    0 ≤ pdist d a b ∧ 2 * pdist d a b ≤ d ∧ (pdist d a b = 0 ↔ a = b) := by
  unfold pdist iabs; split <;> omega

theorem pdist_nonneg' (d a b : Int) (h : iabs (a - b) ≤ d) : 0 ≤ pdist d a b := by
  have := iabs_nonneg (a - b); unfold pdist; omega

theorem box_snd (w h : Int) : (box w h).2 = h := by unfold box; split <;> rfl

theorem box_fst_nonneg (w h : Int) : 0 ≤ (box w h).1 := by
  unfold box; split
  · simp only; omega
  · simp only; omega

theorem box_zero_height (w : Int) (hw : 0 ≤ w) : box w 0 = (w, 0) := by
  unfold box; rw [if_pos hw]; simp

theorem box_eq_zero (w h : Int) (hw : 0 ≤ w) (hh : 0 ≤ h) :
    ((box w h).1 = 0 ∧ (box w h).2 = 0) ↔ (w = 0 ∧ h = 0) := by
  unfold box; split
  · simp only; omega
  · simp only; omega

/-! ## minimum of a list -/

theorem foldl_min_le_init (xs : List Int) (x : Int) : xs.foldl min x ≤ x := by
  induction xs generalizing x with
  | nil => simp
  | cons y ys ih => simp only [List.foldl_cons]; exact Int.le_trans (ih _) (Int.min_le_left _ _)

theorem foldl_min_le_mem (xs : List Int) (x y : Int) (hy : y ∈ xs) : xs.foldl min x ≤ y := by
  induction xs generalizing x with
  | nil => cases hy
  | cons z zs ih =>
    simp only [List.foldl_cons]
    rcases List.mem_cons.mp hy with h | h
    · subst h; exact Int.le_trans (foldl_min_le_init _ _) (Int.min_le_right _ _)
    · exact ih _ h

theorem foldl_min_mem (xs : List Int) (x : Int) : xs.foldl min x = x ∨ xs.foldl min x ∈ xs := by
  induction xs generalizing x with
  | nil => simp
  | cons z zs ih =>
    simp only [List.foldl_cons]
    rcases ih (min x z) with h | h
    · rw [h]
      rcases Int.le_total x z with hxz | hxz
      · left; exact Int.min_eq_left hxz
      · right; rw [Int.min_eq_right hxz]; exact List.mem_cons_self
    · right; exact List.mem_cons_of_mem _ h

/-- `minList` returns a member that is a lower bound — and that characterises it -/
theorem minList_spec (l : List Int) (m : Int) :
    minList l = .ok m ↔ (m ∈ l ∧ ∀ x ∈ l, m ≤ x) := by
  cases l with
  | nil => simp [minList]
  | cons x xs =>
    simp only [minList, Except.ok.injEq]
    constructor
    · intro h; subst h
      refine ⟨?_, ?_⟩
      · rcases foldl_min_mem xs x with h | h
        · rw [h]; exact List.mem_cons_self
        · exact List.mem_cons_of_mem _ h
      · intro y hy
        rcases List.mem_cons.mp hy with h | h
        · subst h; exact foldl_min_le_init _ _
        · exact foldl_min_le_mem _ _ _ h
    · rintro ⟨hm, hle⟩
      apply Int.le_antisymm
      · rcases List.mem_cons.mp hm with h | h
        · subst h; exact foldl_min_le_init _ _
        · exact foldl_min_le_mem _ _ _ h
      · apply hle
        rcases foldl_min_mem xs x with h | h
        · rw [h]; exact List.mem_cons_self
        · exact List.mem_cons_of_mem _ h

theorem minList_ne_nil (l : List Int) (h : l ≠ []) : ∃ m, minList l = .ok m := by
  cases l with
  | nil => exact absurd rfl h
  | cons x xs => exact ⟨_, rfl⟩

/-- two lists with the same members have the same minimum -/
theorem minList_congr (l₁ l₂ : List Int) (h : ∀ x, x ∈ l₁ ↔ x ∈ l₂) : minList l₁ = minList l₂ := by
  cases h1 : minList l₁ with
  | error e =>
    cases l₁ with
    | nil =>
      cases l₂ with
      | nil => simp [minList] at h1 ⊢; exact h1.symm
      | cons y ys => exact absurd ((h y).mpr List.mem_cons_self) (by simp)
    | cons x xs => simp [minList] at h1
  | ok m =>
    symm
    rw [minList_spec] at h1 ⊢
    exact ⟨(h m).mp h1.1, fun x hx => h1.2 x ((h x).mpr hx)⟩

theorem mem_product {α β} (as : List α) (bs : List β) (p : α × β) :
    p ∈ product as bs ↔ p.1 ∈ as ∧ p.2 ∈ bs := by
  unfold product
  simp only [List.mem_flatMap, List.mem_map]
  constructor
  · rintro ⟨a, ha, b, hb, rfl⟩; exact ⟨ha, hb⟩
  · rintro ⟨ha, hb⟩; exact ⟨p.1, ha, p.2, hb, rfl⟩

/-! ## `addStep` -/

/-- a step is added when its weight is defined whenever its count is non-zero -/
theorem addStep_ok (d : Rat) (n : Int) (w : Except DErr Rat) (x : Rat) (h : n ≠ 0 → w = .ok x) :
    ∃ d', addStep (.ok d) n w = .ok d' := by
  unfold addStep
  by_cases h0 : n = 0
  · exact ⟨d, by simp [h0]⟩
  · exact ⟨d + n * x, by simp [h0, h h0]⟩

/-- inversion: a successful `addStep` had a successful accumulator and either a zero count or a defined weight -/
theorem addStep_inv (acc : Except DErr Rat) (n : Int) (w : Except DErr Rat) (r : Rat)
    (h : addStep acc n w = .ok r) :
    ∃ d, acc = .ok d ∧ (r = d ∨ ∃ x, n ≠ 0 ∧ w = .ok x ∧ r = d + n * x) := by
  unfold addStep at h
  cases acc with
  | error e => cases h
  | ok d =>
    refine ⟨d, rfl, ?_⟩
    simp only at h
    split at h
    · rename_i hn
      cases w with
      | error e => cases h
      | ok x => right; injection h with h; exact ⟨x, hn, rfl, h.symm⟩
    · left; injection h with h; exact h.symm

theorem add_step_nonneg (d : Rat) (n : Int) (x : Rat) (hd : 0 ≤ d) (hn : 0 ≤ n) (hx : 0 ≤ x) : 0 ≤ d + n * x := by
  have h1 : (0 : Rat) ≤ (n : Rat) := by exact_mod_cast hn
  have h2 : 0 ≤ (n : Rat) * x := Rat.mul_nonneg h1 hx
  exact Rat.add_nonneg hd h2

theorem addStep_nonneg (acc : Except DErr Rat) (n : Int) (w : Except DErr Rat) (r : Rat)
    (h : addStep acc n w = .ok r) (hacc : ∀ d, acc = .ok d → 0 ≤ d) (hn : 0 ≤ n) (hw : ∀ x, w = .ok x → 0 ≤ x) :
    0 ≤ r := by
  obtain ⟨d, hd, h1 | ⟨x, _, hx, h1⟩⟩ := addStep_inv acc n w r h
  · rw [h1]; exact hacc d hd
  · rw [h1]; exact add_step_nonneg d n x (hacc d hd) hn (hw x hx)

theorem stepTime_ok (c : Ctx) (wt x : Rat) (h : stepTime c wt = .ok x) : x = wt := by
  unfold stepTime at h; split at h
  · injection h with h; exact h.symm
  · cases h

theorem stepPar_ok (c : Ctx) (wp x : Rat) (h : stepPar c wp = .ok x) : x = wp := by
  unfold stepPar at h; split at h
  · cases h
  · cases h
  · split at h
    · cases h
    · injection h with h; exact h.symm
  · injection h with h; exact h.symm

theorem stepDiag_ok (c : Ctx) (wd x : Rat) (h : stepDiag c wd = .ok x) : x = wd := by
  unfold stepDiag at h; split at h
  · cases h
  · cases h
  · split at h
    · cases h
    · injection h with h; exact h.symm

theorem manhattanT_symm (T : Int) (a b : TIdx) : manhattanT T a b = manhattanT T b a := by
  unfold manhattanT; rw [pdist_symm, iabs_sub_comm a.2.1, iabs_sub_comm a.2.2]

theorem manhattanTorus_symm (R C T : Int) (a b : TIdx) : manhattanTorus R C T a b = manhattanTorus R C T b a := by
  unfold manhattanTorus; rw [pdist_symm T, pdist_symm C, pdist_symm R]

end Qec.Smwpm.Weight
