/-
  C08 — rotated planar code, all sizes: an operator that commutes with every stabilizer generator and
  anticommutes with the supplied logical X (X on the bottom row) has a Z bit on every one of the `R` rows, hence
  weight ≥ R; one that anticommutes with the supplied logical Z (Z on the last column) has an X bit on every one
  of the `C` columns, hence weight ≥ C.  The X-plaquettes between two neighbouring rows (weight-2 boundary
  plaquettes included) pair up the sites of both rows; likewise the Z-plaquettes between two columns.
-/
import QecVerif.Lemmas.DistanceLower
import QecVerif.Lemmas.Lattice.RotatedPlanarCode
namespace Qec.DistLower.RotatedPlanar
open Qec Qec.RotatedPlanar Qec.Symp Qec.RotatedPlanarCode Qec.Distance Qec.DistLower

/-- the bit of `e` at site `s` that decides commutation with an `opOf z` there; `false` outside the lattice -/
def sbit (R C : Int) (e : BVec) (z : Bool) (s : Int × Int) : Bool :=
  dom R C s && e.getD (off (nq R C) (!z) + fl R C s) false

theorem bsp_siteop (R C : Int) (e : BVec) (he : e.length = 2 * nq R C) (z : Bool) (l : List (Int × Int)) :
    bsp e (sites R C (opOf z) (identity R C) l) = xorSum l (sbit R C e z) := by
  rw [sites_eq_gsites, identity_eq,
    bsp_gsites_right (nq R C) (dom R C) (fl R C) e he z _ (Symp.zeros_length _) l (flatLt_all R C l),
    bsp_zeros_right, Bool.false_xor]
  rfl

theorem sbit_out (R C : Int) (e : BVec) (z : Bool) (s : Int × Int) (h : ¬ SiteIn R C s.1 s.2) :
    sbit R C e z s = false := by
  have : inSiteBounds R C s.1 s.2 = false := by
    rw [Bool.eq_false_iff, Ne, inSiteBounds_iff]; exact h
  simp [sbit, dom, this]

theorem sbit_acts (R C : Int) (e : BVec) (z : Bool) (s : Int × Int) (h : sbit R C e z s = true) :
    fl R C s < nq R C ∧ actsOn (nq R C) e (fl R C s) = true := by
  simp only [sbit, Bool.and_eq_true] at h
  refine ⟨fl_lt R C s h.1, ?_⟩
  unfold actsOn
  cases z
  · simp only [off, Bool.not_false, if_true] at h
    rw [h.2]; simp
  · simp only [off, Bool.not_true, Bool.false_eq_true, if_false, Nat.zero_add] at h
    rw [h.2]; simp

/-- parity of `e` against the generator of an in-lattice plaquette (order SW, NW, NE, SE) -/
theorem stab_parity (R C : Int) (e : BVec) (he : e.length = 2 * nq R C)
    (hcomm : commAll (stabilizers R C) e = true) (p : Int × Int) (hp : PlaqIn R C p) :
    (sbit R C e (decide ((p.1 - p.2) % 2 = 0)) (p.1, p.2) ^^
      (sbit R C e (decide ((p.1 - p.2) % 2 = 0)) (p.1, p.2 + 1) ^^
      (sbit R C e (decide ((p.1 - p.2) % 2 = 0)) (p.1 + 1, p.2 + 1) ^^
       sbit R C e (decide ((p.1 - p.2) % 2 = 0)) (p.1 + 1, p.2)))) = false := by
  have hmem : stabOp R C p ∈ stabilizers R C := by
    rw [stabilizers_eq_map]; exact List.mem_map.mpr ⟨p, (mem_plaquetteIndices R C p).mpr hp, rfl⟩
  have h := (commAll_iff _ _).mp hcomm _ hmem
  unfold stabOp at h
  rw [isZPlaquette_eq_decide, bsp_siteop R C e he, xorSum_plaq] at h
  exact h

theorem fl_inj' (R C : Int) (x y x' y' : Int) (h1 : SiteIn R C x y) (h2 : SiteIn R C x' y')
    (h : fl R C (x, y) = fl R C (x', y')) : x = x' ∧ y = y' := by
  have := fl_inj R C (x', y') (x, y) ((inSiteBounds_iff _ _ _ _).mpr h2) ((inSiteBounds_iff _ _ _ _).mpr h1) h
  simpa using this

/-- anticommuting with the logical X (bottom row): a Z bit in each of the `R` rows -/
theorem wt_ge_rows (R C : Int) (hR : 3 ≤ R) (hC : 3 ≤ C) (e : BVec) (he : e.length = 2 * nq R C)
    (hcomm : commAll (stabilizers R C) e = true) (hanti : bsp e (logicalX R C) = true) :
    R.toNat ≤ wt e := by
  apply wt_ge_of_grid (nq R C) e he R.toNat C.toNat (fun j i => fl R C ((i : Int), (j : Int)))
    (fun j i => sbit R C e false ((i : Int), (j : Int)))
  · intro j i _ _ hb
    exact sbit_acts R C e false _ hb
  · intro j i j' i' hj hi hj' hi' h
    have := fl_inj' R C _ _ _ _ (by unfold SiteIn; omega) (by unfold SiteIn; omega) h
    omega
  · intro j hj
    have e1 : ∀ y : Int, xorSum (List.range C.toNat) (fun i => sbit R C e false ((i : Int), y)) =
        xorSum (List.range C.toNat) (fun x => (fun i : Nat => sbit R C e false ((i : Int) - 1, y)) (x + 1)) := by
      intro y
      apply xorSum_congr
      intro i _
      simp only
      rw [show (((i + 1 : Nat) : Int) - 1) = (i : Int) by push_cast; omega]
    rw [e1, e1]
    refine strip_pairs_pad C.toNat (j % 2) (by omega) (fun i : Nat => sbit R C e false ((i : Int) - 1, (j : Int)))
      (fun i : Nat => sbit R C e false ((i : Int) - 1, ((j + 1 : Nat) : Int))) ?_ ?_ ?_ ?_ ?_
    · exact sbit_out R C e _ _ (by unfold SiteIn; simp only; omega)
    · exact sbit_out R C e _ _ (by unfold SiteIn; simp only; omega)
    · intro i hi; exact sbit_out R C e _ _ (by unfold SiteIn; simp only; omega)
    · intro i hi; exact sbit_out R C e _ _ (by unfold SiteIn; simp only; omega)
    · intro k
      rw [show (((2 * k + j % 2 + 1 : Nat) : Int) - 1) = ((2 * k + j % 2 : Nat) : Int) - 1 + 1 by push_cast; omega]
      by_cases hx : ((2 * k + j % 2 : Nat) : Int) - 1 ≤ C - 1
      · have := stab_parity R C e he hcomm (((2 * k + j % 2 : Nat) : Int) - 1, (j : Int))
          (Or.inr (by simp only; push_cast; omega))
        simp only at this
        rw [show decide ((((2 * k + j % 2 : Nat) : Int) - 1 - (j : Int)) % 2 = 0) = false from by
          apply decide_eq_false; push_cast; omega,
          show ((j : Int) + 1) = ((j + 1 : Nat) : Int) by push_cast; rfl] at this
        exact regroup_rows _ _ _ _ this
      · rw [sbit_out R C e _ (_, (j : Int)) (by unfold SiteIn; simp only; omega),
          sbit_out R C e _ (_, (j : Int)) (by unfold SiteIn; simp only; omega),
          sbit_out R C e _ (_, ((j + 1 : Nat) : Int)) (by unfold SiteIn; simp only; omega),
          sbit_out R C e _ (_, ((j + 1 : Nat) : Int)) (by unfold SiteIn; simp only; omega)]
  · refine ⟨0, by omega, ?_⟩
    rw [logicalX_eq, bsp_siteop R C e he] at hanti
    unfold rowRun at hanti
    rw [xorSum_map] at hanti
    exact hanti

/-- anticommuting with the logical Z (last column): an X bit in each of the `C` columns -/
theorem wt_ge_cols (R C : Int) (hR : 3 ≤ R) (hC : 3 ≤ C) (e : BVec) (he : e.length = 2 * nq R C)
    (hcomm : commAll (stabilizers R C) e = true) (hanti : bsp e (logicalZ R C) = true) :
    C.toNat ≤ wt e := by
  apply wt_ge_of_grid (nq R C) e he C.toNat R.toNat (fun j i => fl R C ((j : Int), (i : Int)))
    (fun j i => sbit R C e true ((j : Int), (i : Int)))
  · intro j i _ _ hb
    exact sbit_acts R C e true _ hb
  · intro j i j' i' hj hi hj' hi' h
    have := fl_inj' R C _ _ _ _ (by unfold SiteIn; omega) (by unfold SiteIn; omega) h
    omega
  · intro j hj
    have e1 : ∀ x : Int, xorSum (List.range R.toNat) (fun i => sbit R C e true (x, (i : Int))) =
        xorSum (List.range R.toNat) (fun y => (fun i : Nat => sbit R C e true (x, (i : Int) - 1)) (y + 1)) := by
      intro x
      apply xorSum_congr
      intro i _
      simp only
      rw [show (((i + 1 : Nat) : Int) - 1) = (i : Int) by push_cast; omega]
    rw [e1, e1]
    refine strip_pairs_pad R.toNat ((j + 1) % 2) (by omega) (fun i : Nat => sbit R C e true ((j : Int), (i : Int) - 1))
      (fun i : Nat => sbit R C e true (((j + 1 : Nat) : Int), (i : Int) - 1)) ?_ ?_ ?_ ?_ ?_
    · exact sbit_out R C e _ _ (by unfold SiteIn; simp only; omega)
    · exact sbit_out R C e _ _ (by unfold SiteIn; simp only; omega)
    · intro i hi; exact sbit_out R C e _ _ (by unfold SiteIn; simp only; omega)
    · intro i hi; exact sbit_out R C e _ _ (by unfold SiteIn; simp only; omega)
    · intro k
      rw [show (((2 * k + (j + 1) % 2 + 1 : Nat) : Int) - 1) = ((2 * k + (j + 1) % 2 : Nat) : Int) - 1 + 1 by
        push_cast; omega]
      by_cases hy : ((2 * k + (j + 1) % 2 : Nat) : Int) - 1 ≤ R - 1
      · have := stab_parity R C e he hcomm ((j : Int), ((2 * k + (j + 1) % 2 : Nat) : Int) - 1)
          (Or.inl (by simp only; push_cast; omega))
        simp only at this
        rw [show decide (((j : Int) - (((2 * k + (j + 1) % 2 : Nat) : Int) - 1)) % 2 = 0) = true from by
          apply decide_eq_true; push_cast; omega,
          show ((j : Int) + 1) = ((j + 1 : Nat) : Int) by push_cast; rfl] at this
        exact regroup_columns _ _ _ _ this
      · rw [sbit_out R C e _ ((j : Int), _) (by unfold SiteIn; simp only; omega),
          sbit_out R C e _ ((j : Int), _) (by unfold SiteIn; simp only; omega),
          sbit_out R C e _ (((j + 1 : Nat) : Int), _) (by unfold SiteIn; simp only; omega),
          sbit_out R C e _ (((j + 1 : Nat) : Int), _) (by unfold SiteIn; simp only; omega)]
  · refine ⟨C.toNat - 1, by omega, ?_⟩
    rw [logicalZ_eq, bsp_siteop R C e he] at hanti
    unfold colRun at hanti
    rw [xorSum_map] at hanti
    refine Eq.trans ?_ hanti
    apply xorSum_congr
    intro i _
    rw [show (((C.toNat - 1 : Nat) : Int)) = C - 1 by omega]

/-- **rotated planar lower bound**: every non-trivial logical has weight at least `min R C` -/
theorem lower (R C : Int) (hR : 3 ≤ R) (hC : 3 ≤ C) (e : BVec) (he : e.length = 2 * (nQubits R C).toNat)
    (h : IsLogical (stabilizers R C) [logicalX R C, logicalZ R C] e) : min R C ≤ (wt e : Int) := by
  obtain ⟨hcomm, l, hl, hanti⟩ := h
  simp only [List.mem_cons, List.not_mem_nil, or_false] at hl
  rcases hl with rfl | rfl
  · have := wt_ge_rows R C hR hC e he hcomm hanti
    omega
  · have := wt_ge_cols R C hR hC e he hcomm hanti
    omega

end Qec.DistLower.RotatedPlanar
