/-
  C10 — the planar MPS decoder's tensor network (`Model/PlanarTn.lean`) contracts to the coset probability:
  helper lemmas for Props/C10/Network.lean.  Route: C11 (`exactValue` = state sum `sumV` over the bond variables) →
  group the bonds by stabilizer cell (`sumV_perm`) → collapse the deltas (`FactorGraph.sumV_stars`) → the product of
  the qubit tensors at the assignment of one bit per stabilizer is the weight of `f · Π Sᵢ^βᵢ`
  (`FactorGraph.sumB_eq_span`).
-/
import QecVerif.Model.PlanarTn
import QecVerif.Lemmas.FactorGraph
import QecVerif.Lemmas.TensorPad
import QecVerif.Lemmas.Lattice.PlanarCode
namespace Qec.PlanarTnLemmas
open Finset Qec Qec.Tensor Qec.TensorAlg Qec.TensorBridge Qec.TensorExact Qec.TensorExact.Bond Qec.Coset
open Qec.FactorGraph Qec.PlanarTn

/-! ### shapes -/

def dn (r : ℕ) : ℕ := if r = 0 then 1 else 2
def ds (m r : ℕ) : ℕ := if r = m then 1 else 2
def dw (c : ℕ) : ℕ := if c = 0 then 1 else 2
def de (n c : ℕ) : ℕ := if c = n then 1 else 2

theorem ds_of_lt (m r : ℕ) (h : r < m) : ds m r = 2 := by unfold ds; rw [if_neg (by omega)]
theorem de_of_lt (n c : ℕ) (h : c < n) : de n c = 2 := by unfold de; rw [if_neg (by omega)]
theorem dn_succ (r : ℕ) : dn (r + 1) = 2 := by unfold dn; rw [if_neg (by omega)]
theorem dw_succ (c : ℕ) : dw (c + 1) = 2 := by unfold dw; rw [if_neg (by omega)]
theorem dn_pos (r : ℕ) (h : 0 < r) : dn r = 2 := by unfold dn; rw [if_neg (by omega)]
theorem dw_pos (c : ℕ) (h : 0 < c) : dw c = 2 := by unfold dw; rw [if_neg (by omega)]

theorem nodeShape_eq (m n r c : ℕ) (hm : 1 ≤ m) (hn : 1 ≤ n) :
    nodeShape (rowDir (m + 1) r) (colDir (n + 1) c) = (dn r, de n c, ds m r, dw c) := by
  simp only [rowDir, colDir, dn, de, ds, dw, Nat.add_sub_cancel]
  split_ifs <;> first | rfl | omega

/-- network height / width minus one -/
def M (R : Int) : ℕ := (2 * R - 2).toNat

theorem M_ge (R : Int) (hR : 2 ≤ R) : 2 ≤ M R := by unfold M; omega

/-- the entry function of the node at `(r, c)` -/
def nodeFn (R C : Int) (d : Dist Int) (f : BVec) (m n r c : ℕ) : ℕ → ℕ → ℕ → ℕ → ℤ :=
  if r % 2 = 0 ∧ c % 2 = 0 then hNodeValue d (Planar.operatorAt R C f r c)
  else if r % 2 = 1 ∧ c % 2 = 1 then vNodeValue d (Planar.operatorAt R C f r c)
  else deltaEntry (dn r, de n c, ds m r, dw c)

theorem node_eq (R C : Int) (d : Dist Int) (f : BVec) (m n r c : ℕ) (hm : 1 ≤ m) (hn : 1 ≤ n) :
    node R C d f (m + 1) (n + 1) r c = T4.ofFn (dn r) (de n c) (ds m r) (dw c) (nodeFn R C d f m n r c) := by
  unfold node nodeFn hNode vNode sNode ofShape
  simp only [nodeShape_eq m n r c hm hn]
  split_ifs <;> rfl

theorem nrows_planarTn (R C : Int) (d : Dist Int) (f : BVec) (hR : 2 ≤ R) : (planarTn R C d f).nrows = M R + 1 := by
  unfold planarTn M; simp only; omega

theorem ncols_planarTn (R C : Int) (d : Dist Int) (f : BVec) (hC : 2 ≤ C) : (planarTn R C d f).ncols = M C + 1 := by
  unfold planarTn M; simp only; omega

theorem site_planarTn (R C : Int) (d : Dist Int) (f : BVec) (hR : 2 ≤ R) (hC : 2 ≤ C) (r c : ℕ) (hr : r ≤ M R)
    (hc : c ≤ M C) :
    (planarTn R C d f).site r c = some (node R C d f (M R + 1) (M C + 1) r c) := by
  have e1 : (2 * R - 1).toNat = M R + 1 := by unfold M; omega
  have e2 : (2 * C - 1).toNat = M C + 1 := by unfold M; omega
  unfold planarTn Net.site
  simp only [e1, e2]
  have hlt : r * (M C + 1) + c < (M R + 1) * (M C + 1) := by
    have : r * (M C + 1) + (M C + 1) ≤ (M R + 1) * (M C + 1) := by
      rw [← Nat.succ_mul]; exact Nat.mul_le_mul_right _ (by omega)
    omega
  simp only [Array.getD, Array.size_ofFn, Array.getInternal_eq_getElem, Array.getElem_ofFn]
  rw [decode_div _ _ _ (by omega), decode_mod _ _ _ (by omega), dif_pos (by rw [e1, e2]; exact hlt)]

theorem netF_planarTn (R C : Int) (d : Dist Int) (f : BVec) (hR : 2 ≤ R) (hC : 2 ≤ C) (r c : ℕ) (hr : r ≤ M R)
    (hc : c ≤ M C) :
    netF (planarTn R C d f) r c
      = toF (T4.ofFn (dn r) (de (M C) c) (ds (M R) r) (dw c) (nodeFn R C d f (M R) (M C) r c)) := by
  unfold netF
  rw [site_planarTn R C d f hR hC r c hr hc, node_eq _ _ _ _ _ _ _ _ (by have := M_ge R hR; omega)
    (by have := M_ge C hC; omega)]
  rfl

theorem netF_dims (R C : Int) (d : Dist Int) (f : BVec) (hR : 2 ≤ R) (hC : 2 ≤ C) (r c : ℕ) (hr : r ≤ M R)
    (hc : c ≤ M C) :
    (netF (planarTn R C d f) r c).n = dn r ∧ (netF (planarTn R C d f) r c).e = de (M C) c ∧
    (netF (planarTn R C d f) r c).s = ds (M R) r ∧ (netF (planarTn R C d f) r c).w = dw c := by
  rw [netF_planarTn R C d f hR hC r c hr hc]
  exact ⟨rfl, rfl, rfl, rfl⟩

theorem compat_planarTn (R C : Int) (d : Dist Int) (f : BVec) (hR : 2 ≤ R) (hC : 2 ≤ C) :
    Compat (planarTn R C d f) (M R) (M C) := by
  have hm := M_ge R hR
  have hn := M_ge C hC
  refine ⟨nrows_planarTn R C d f hR, ncols_planarTn R C d f hC, ⟨fun r c hr hc => ?_, fun r c hr hc => ?_⟩,
    fun r hr => ?_, fun c hc => ?_, fun r hr => ?_, fun c hc => ?_⟩
  · rw [(netF_dims R C d f hR hC r c (by omega) hc).2.2.1, (netF_dims R C d f hR hC (r + 1) c (by omega) hc).1]
    rw [ds_of_lt _ _ hr, dn_succ]
  · rw [(netF_dims R C d f hR hC r c hr (by omega)).2.1, (netF_dims R C d f hR hC r (c + 1) hr (by omega)).2.2.2]
    rw [de_of_lt _ _ hc, dw_succ]
  · rw [(netF_dims R C d f hR hC r 0 hr (by omega)).2.2.2]; rfl
  · rw [(netF_dims R C d f hR hC 0 c (by omega) hc).1]; rfl
  · rw [(netF_dims R C d f hR hC r (M C) hr (le_refl _)).2.1]; simp [de]
  · rw [(netF_dims R C d f hR hC (M R) c (le_refl _) hc).2.2.1]; simp [ds]

theorem noneFree_planarTn (R C : Int) (d : Dist Int) (f : BVec) (hR : 2 ≤ R) (hC : 2 ≤ C) :
    NoneFree (planarTn R C d f) := by
  intro r hr c hc
  rw [nrows_planarTn R C d f hR] at hr
  rw [ncols_planarTn R C d f hC] at hc
  rw [site_planarTn R C d f hR hC r c (by omega) (by omega)]
  rfl

theorem compatible_planarTn (R C : Int) (d : Dist Int) (f : BVec) (hR : 2 ≤ R) (hC : 2 ≤ C) :
    compatible (planarTn R C d f) = true := by
  have hm := M_ge R hR
  have hn := M_ge C hC
  have hnr := nrows_planarTn R C d f hR
  have hnc := ncols_planarTn R C d f hC
  simp only [compatible, Bool.and_eq_true, decide_eq_true_eq, List.all_eq_true, List.mem_range, Bool.or_eq_true,
    beq_iff_eq, hnr, hnc]
  refine ⟨⟨by omega, by omega⟩, fun r hr c hc => ?_⟩
  have key : ∀ r c, r ≤ M R → c ≤ M C →
      (siteT ((planarTn R C d f).site r c)).n = dn r ∧ (siteT ((planarTn R C d f).site r c)).e = de (M C) c ∧
      (siteT ((planarTn R C d f).site r c)).s = ds (M R) r ∧ (siteT ((planarTn R C d f).site r c)).w = dw c :=
    fun r c hr hc => netF_dims R C d f hR hC r c hr hc
  obtain ⟨k1, k2, k3, k4⟩ := key r c (by omega) (by omega)
  refine ⟨⟨⟨?_, ?_⟩, ?_⟩, ?_⟩
  · rw [k4]
    by_cases h0 : c = 0
    · simp [h0, dw]
    · rw [if_neg h0, (key r (c - 1) (by omega) (by omega)).2.1]
      rw [dw_pos c (by omega), de_of_lt _ _ (by omega)]
  · rw [k1]
    by_cases h0 : r = 0
    · simp [h0, dn]
    · rw [if_neg h0, (key (r - 1) c (by omega) (by omega)).2.2.1]
      rw [dn_pos r (by omega), ds_of_lt _ _ (by omega)]
  · rw [k2]; unfold de; by_cases h : c = M C
    · right; simp [h]
    · left; omega
  · rw [k3]; unfold ds; by_cases h : r = M R
    · right; simp [h]
    · left; omega

/-- C11's exact value of a compatible network as the state sum over its bond variables -/
theorem exactValue_eq_sumV (tn : Net) (m n : ℕ) (hc : Compat tn m n) (hcomp : compatible tn = true) :
    exactValue tn = some (sumV (TensorExact.bdim (netF tn)) (gvars m n)
      (fun t => ∏ c ∈ range (n + 1), ∏ r ∈ range (m + 1), cw (netF tn) t r c) (fun _ => 0)) := by
  rw [exactValue_eq_gridT tn m n hc hcomp]
  have := grid_formula n hc.ok (fun _ => 0) (fun _ _ => rfl) (fun _ _ => rfl) (fun _ _ => rfl)
      (fun r hr => by rw [hc.west r hr]; exact Nat.one_pos) (fun r hr => by rw [hc.east r hr]; exact Nat.one_pos)
  rw [← this, enc_zero _ _ _ (fun _ _ => rfl)]
  rfl

/-! ### cells, legs, deltas -/

theorem cw_planarTn (R C : Int) (d : Dist Int) (f : BVec) (hR : 2 ≤ R) (hC : 2 ≤ C) (t : Bond → ℕ) (r c : ℕ)
    (hr : r ≤ M R) (hc : c ≤ M C) (h1 : t (v r c) < dn r) (h2 : t (h r (c + 1)) < de (M C) c)
    (h3 : t (v (r + 1) c) < ds (M R) r) (h4 : t (h r c) < dw c) :
    cw (netF (planarTn R C d f)) t r c
      = nodeFn R C d f (M R) (M C) r c (t (v r c)) (t (h r (c + 1))) (t (v (r + 1) c)) (t (h r c)) := by
  unfold cw
  rw [netF_planarTn R C d f hR hC r c hr hc]
  exact get_ofFn _ _ _ _ _ _ _ _ _ h1 h2 h3 h4

/-- the summed bonds of cell `p`, in the leg order n, e, s, w (exactly the legs `tsr.delta` calls non-dummy) -/
def legs (m n : ℕ) (p : ℕ × ℕ) : List Bond :=
  ([(dn p.1, v p.1 p.2), (de n p.2, h p.1 (p.2 + 1)), (ds m p.1, v (p.1 + 1) p.2), (dw p.2, h p.1 p.2)].filter
    fun q => q.1 != 1).map (·.2)

def deltaList (x : List ℕ) : ℤ :=
  match x with
  | [] => 1
  | a :: _ => if x.any (· != a) then 0 else 1

theorem deltaEntry_eq (m n r c : ℕ) (t : Bond → ℕ) :
    deltaEntry (dn r, de n c, ds m r, dw c) (t (v r c)) (t (h r (c + 1))) (t (v (r + 1) c)) (t (h r c))
      = deltaList ((legs m n (r, c)).map t) := by
  have : (legs m n (r, c)).map t
      = ([(dn r, t (v r c)), (de n c, t (h r (c + 1))), (ds m r, t (v (r + 1) c)), (dw c, t (h r c))].filter
          fun q => q.1 != 1).map (·.2) := by
    unfold legs
    generalize dn r = a1
    generalize de n c = a2
    generalize ds m r = a3
    generalize dw c = a4
    simp only [List.filter_cons, List.filter_nil]
    split_ifs <;> rfl
  rw [this]
  rfl

theorem deltaList_map (l : List Bond) (t : Bond → ℕ) : deltaList (l.map t) = (FactorGraph.star l t : ℤ) := by
  cases l with
  | nil => rfl
  | cons b0 l =>
    simp only [List.map_cons, deltaList, FactorGraph.star]
    by_cases hh : ∀ b ∈ b0 :: l, t b = t b0
    · rw [if_pos hh, if_neg]
      simp only [List.any_eq_true, bne_iff_ne, ne_eq, not_exists, not_and, not_not]
      intro x hx
      rcases List.mem_cons.mp hx with rfl | hx
      · rfl
      · obtain ⟨b, hb, rfl⟩ := List.mem_map.mp hx
        exact hh b (List.mem_cons_of_mem _ hb)
    · rw [if_neg hh, if_pos]
      simp only [List.any_eq_true, bne_iff_ne, ne_eq]
      simp only [not_forall] at hh
      obtain ⟨b, hb, hne⟩ := hh
      refine ⟨t b, ?_, hne⟩
      rcases List.mem_cons.mp hb with rfl | hb
      · exact List.mem_cons_self ..
      · exact List.mem_cons_of_mem _ (List.mem_map.mpr ⟨b, hb, rfl⟩)

theorem mem_filter4 (a1 a2 a3 a4 : ℕ) (b1 b2 b3 b4 b : Bond) :
    b ∈ ([(a1, b1), (a2, b2), (a3, b3), (a4, b4)].filter fun q => q.1 != 1).map (·.2) ↔
      (a1 ≠ 1 ∧ b = b1) ∨ (a2 ≠ 1 ∧ b = b2) ∨ (a3 ≠ 1 ∧ b = b3) ∨ (a4 ≠ 1 ∧ b = b4) := by
  by_cases h1 : a1 = 1 <;> by_cases h2 : a2 = 1 <;> by_cases h3 : a3 = 1 <;> by_cases h4 : a4 = 1 <;>
    simp [List.filter_cons, h1, h2, h3, h4]

theorem dn_ne_one (r : ℕ) : dn r ≠ 1 ↔ r ≠ 0 := by unfold dn; split_ifs <;> simp [*]
theorem dw_ne_one (c : ℕ) : dw c ≠ 1 ↔ c ≠ 0 := by unfold dw; split_ifs <;> simp [*]
theorem ds_ne_one (m r : ℕ) : ds m r ≠ 1 ↔ r ≠ m := by unfold ds; split_ifs <;> simp [*]
theorem de_ne_one (n c : ℕ) : de n c ≠ 1 ↔ c ≠ n := by unfold de; split_ifs <;> simp [*]

theorem mem_legs (m n r c : ℕ) (b : Bond) :
    b ∈ legs m n (r, c) ↔ (r ≠ 0 ∧ b = v r c) ∨ (c ≠ n ∧ b = h r (c + 1)) ∨ (r ≠ m ∧ b = v (r + 1) c) ∨
      (c ≠ 0 ∧ b = h r c) := by
  unfold legs
  rw [mem_filter4, dn_ne_one, de_ne_one, ds_ne_one, dw_ne_one]

theorem legs_nodup (m n : ℕ) (p : ℕ × ℕ) : (legs m n p).Nodup := by
  unfold legs
  refine List.Nodup.sublist (List.Sublist.map _ List.filter_sublist) ?_
  simp

theorem legs_owner (m n : ℕ) (p q : ℕ × ℕ) (b : Bond) (hp : b ∈ legs m n p) (hq : b ∈ legs m n q)
    (h1 : (p.1 + p.2) % 2 = 1) (h2 : (q.1 + q.2) % 2 = 1) : p = q := by
  obtain ⟨r, c⟩ := p
  obtain ⟨r', c'⟩ := q
  rw [mem_legs] at hp hq
  simp only at h1 h2
  rcases hp with ⟨_, rfl⟩ | ⟨_, rfl⟩ | ⟨_, rfl⟩ | ⟨_, rfl⟩ <;>
    rcases hq with ⟨_, hq⟩ | ⟨_, hq⟩ | ⟨_, hq⟩ | ⟨_, hq⟩ <;>
    first
      | (injection hq with e1 e2; rw [Prod.mk.injEq]; omega)
      | (exact absurd hq (by simp))

/-- the stabilizer cells in the order of `Planar.stabilizers` -/
def cells (R C : Int) : List (ℕ × ℕ) := (Planar.plaquetteIndices R C).map fun p => (p.1.toNat, p.2.toNat)

theorem mem_cells (R C : Int) (hR : 2 ≤ R) (hC : 2 ≤ C) (p : ℕ × ℕ) :
    p ∈ cells R C ↔ p.1 ≤ M R ∧ p.2 ≤ M C ∧ (p.1 + p.2) % 2 = 1 := by
  unfold cells M
  simp only [List.mem_map, PlanarCode.mem_plaquetteIndices, PlanarCode.RealP]
  constructor
  · rintro ⟨q, ⟨h1, h2, h3, h4, h5⟩, rfl⟩
    simp only
    omega
  · rintro ⟨h1, h2, h3⟩
    refine ⟨((p.1 : ℤ), (p.2 : ℤ)), ⟨?_, ?_, ?_, ?_, ?_⟩, ?_⟩ <;> simp only <;> try omega
    simp

theorem cells_nodup (R C : Int) : (cells R C).Nodup := by
  unfold cells
  refine List.Nodup.map_on ?_ (PlanarCode.plaquetteIndices_nodup R C)
  intro a ha b hb hab
  rw [PlanarCode.mem_plaquetteIndices] at ha hb
  obtain ⟨a1, a2, a3, a4, _⟩ := ha
  obtain ⟨b1, b2, b3, b4, _⟩ := hb
  simp only [Prod.mk.injEq] at hab
  exact Prod.ext (by omega) (by omega)

/-! ### the bonds grouped by stabilizer cell -/

/-- the list of stars: the legs of every stabilizer cell, in the order of the generators -/
def stars (R C : Int) : List (List Bond) := (cells R C).map (legs (M R) (M C))

theorem stars_nodup (R C : Int) (hR : 2 ≤ R) (hC : 2 ≤ C) : (stars R C).flatten.Nodup := by
  unfold stars
  rw [List.nodup_flatten]
  refine ⟨fun l hl => ?_, ?_⟩
  · obtain ⟨p, _, rfl⟩ := List.mem_map.mp hl
    exact legs_nodup _ _ p
  · rw [List.pairwise_map]
    refine List.Pairwise.imp_of_mem ?_ (cells_nodup R C)
    intro p q hp hq hne
    intro b hb1 hb2
    exact hne (legs_owner _ _ p q b hb1 hb2 ((mem_cells R C hR hC p).mp hp).2.2 ((mem_cells R C hR hC q).mp hq).2.2)

theorem mem_stars (R C : Int) (hR : 2 ≤ R) (hC : 2 ≤ C) (b : Bond) :
    b ∈ (stars R C).flatten ↔ b ∈ gvars (M R) (M C) := by
  unfold stars
  simp only [List.mem_flatten, List.mem_map, exists_exists_and_eq_and, mem_gvars]
  constructor
  · rintro ⟨⟨r, c⟩, hp, hb⟩
    obtain ⟨h1, h2, _⟩ := (mem_cells R C hR hC (r, c)).mp hp
    simp only at h1 h2
    rcases (mem_legs _ _ r c b).mp hb with ⟨h0, rfl⟩ | ⟨h0, rfl⟩ | ⟨h0, rfl⟩ | ⟨h0, rfl⟩
    · exact Or.inr ⟨r, c, by omega, h1, h2, rfl⟩
    · exact Or.inl ⟨r, c + 1, h1, by omega, by omega, rfl⟩
    · exact Or.inr ⟨r + 1, c, by omega, by omega, h2, rfl⟩
    · exact Or.inl ⟨r, c, h1, by omega, h2, rfl⟩
  · rintro (⟨r, c, h1, h2, h3, rfl⟩ | ⟨r, c, h1, h2, h3, rfl⟩)
    · by_cases hpar : (r + c) % 2 = 1
      · exact ⟨(r, c), (mem_cells R C hR hC _).mpr ⟨h1, h3, hpar⟩,
          (mem_legs _ _ r c _).mpr (Or.inr (Or.inr (Or.inr ⟨by omega, rfl⟩)))⟩
      · refine ⟨(r, c - 1), (mem_cells R C hR hC _).mpr ⟨h1, by simp only; omega, by simp only; omega⟩,
          (mem_legs _ _ r (c - 1) _).mpr (Or.inr (Or.inl ⟨by omega, ?_⟩))⟩
        rw [Nat.sub_add_cancel h2]
    · by_cases hpar : (r + c) % 2 = 1
      · exact ⟨(r, c), (mem_cells R C hR hC _).mpr ⟨h2, h3, hpar⟩,
          (mem_legs _ _ r c _).mpr (Or.inl ⟨by omega, rfl⟩)⟩
      · refine ⟨(r - 1, c), (mem_cells R C hR hC _).mpr ⟨by simp only; omega, h3, by simp only; omega⟩,
          (mem_legs _ _ (r - 1) c _).mpr (Or.inr (Or.inr (Or.inl ⟨by omega, ?_⟩)))⟩
        rw [Nat.sub_add_cancel h1]

theorem stars_perm (R C : Int) (hR : 2 ≤ R) (hC : 2 ≤ C) : (stars R C).flatten.Perm (gvars (M R) (M C)) :=
  (List.perm_ext_iff_of_nodup (stars_nodup R C hR hC) (gvars_nodup _ _)).mpr (mem_stars R C hR hC)

theorem stars_ne_nil (R C : Int) (hR : 2 ≤ R) (hC : 2 ≤ C) : ∀ l ∈ stars R C, l ≠ [] := by
  intro l hl
  obtain ⟨⟨r, c⟩, _, rfl⟩ := List.mem_map.mp hl
  have hm := M_ge R hR
  by_cases h0 : r = 0
  · exact List.ne_nil_of_mem ((mem_legs _ _ r c _).mpr (Or.inr (Or.inr (Or.inl ⟨by omega, rfl⟩))))
  · exact List.ne_nil_of_mem ((mem_legs _ _ r c _).mpr (Or.inl ⟨h0, rfl⟩))

theorem bdim_planarTn (R C : Int) (d : Dist Int) (f : BVec) (hR : 2 ≤ R) (hC : 2 ≤ C) (b : Bond)
    (hb : b ∈ gvars (M R) (M C)) : TensorExact.bdim (netF (planarTn R C d f)) b = 2 := by
  rcases (mem_gvars _ _ b).mp hb with ⟨r, c, h1, h2, h3, rfl⟩ | ⟨r, c, h1, h2, h3, rfl⟩
  · obtain ⟨c', rfl⟩ : ∃ c', c = c' + 1 := ⟨c - 1, by omega⟩
    show (netF (planarTn R C d f) r c').e = 2
    rw [(netF_dims R C d f hR hC r c' h1 (by omega)).2.1, de_of_lt _ _ (by omega)]
  · obtain ⟨r', rfl⟩ : ∃ r', r = r' + 1 := ⟨r - 1, by omega⟩
    show (netF (planarTn R C d f) r' c).s = 2
    rw [(netF_dims R C d f hR hC r' c (by omega) h3).2.2.1, ds_of_lt _ _ (by omega)]

/-- on the assignments visited by the state sum every leg index of every cell is in range -/
theorem vis_inRange (m n : ℕ) (t : Bond → ℕ) (hv1 : ∀ b ∈ gvars m n, t b < 2) (hv0 : ∀ b, b ∉ gvars m n → t b = 0)
    (r c : ℕ) (hr : r ≤ m) (hc : c ≤ n) :
    t (v r c) < dn r ∧ t (h r (c + 1)) < de n c ∧ t (v (r + 1) c) < ds m r ∧ t (h r c) < dw c := by
  refine ⟨?_, ?_, ?_, ?_⟩
  · by_cases h0 : r = 0
    · rw [hv0 _ (by rw [mem_gvars]; rintro (⟨_, _, _, _, _, hh⟩ | ⟨_, _, _, _, _, hh⟩) <;> injection hh; omega)]
      simp [dn, h0]
    · rw [dn_pos r (by omega)]
      exact hv1 _ ((mem_gvars _ _ _).mpr (Or.inr ⟨r, c, by omega, hr, hc, rfl⟩))
  · by_cases h0 : c = n
    · rw [hv0 _ (by rw [mem_gvars]; rintro (⟨_, _, _, _, _, hh⟩ | ⟨_, _, _, _, _, hh⟩) <;> injection hh; omega)]
      simp [de, h0]
    · rw [de_of_lt n c (by omega)]
      exact hv1 _ ((mem_gvars _ _ _).mpr (Or.inl ⟨r, c + 1, hr, by omega, by omega, rfl⟩))
  · by_cases h0 : r = m
    · rw [hv0 _ (by rw [mem_gvars]; rintro (⟨_, _, _, _, _, hh⟩ | ⟨_, _, _, _, _, hh⟩) <;> injection hh; omega)]
      simp [ds, h0]
    · rw [ds_of_lt m r (by omega)]
      exact hv1 _ ((mem_gvars _ _ _).mpr (Or.inr ⟨r + 1, c, by omega, by omega, hc, rfl⟩))
  · by_cases h0 : c = 0
    · rw [hv0 _ (by rw [mem_gvars]; rintro (⟨_, _, _, _, _, hh⟩ | ⟨_, _, _, _, _, hh⟩) <;> injection hh; omega)]
      simp [dw, h0]
    · rw [dw_pos c (by omega)]
      exact hv1 _ ((mem_gvars _ _ _).mpr (Or.inl ⟨r, c, hr, by omega, hc, rfl⟩))

/-! ### splitting the product of all cells into deltas and qubit tensors -/

/-- product of the qubit tensors (cells of even parity) under the assignment `t` -/
def qubitProd (R C : Int) (d : Dist Int) (f : BVec) (t : Bond → ℕ) : ℤ :=
  ∏ c ∈ range (M C + 1), ∏ r ∈ range (M R + 1),
    if (r + c) % 2 = 1 then 1 else cw (netF (planarTn R C d f)) t r c

theorem prod_cells (R C : Int) (hR : 2 ≤ R) (hC : 2 ≤ C) (F : ℕ × ℕ → ℤ) :
    ∏ c ∈ range (M C + 1), ∏ r ∈ range (M R + 1), (if (r + c) % 2 = 1 then F (r, c) else 1)
      = ((cells R C).map F).prod := by
  calc ∏ c ∈ range (M C + 1), ∏ r ∈ range (M R + 1), (if (r + c) % 2 = 1 then F (r, c) else 1)
      = ∏ r ∈ range (M R + 1), ∏ c ∈ range (M C + 1), (if (r + c) % 2 = 1 then F (r, c) else 1) := prod_comm
    _ = ∏ x ∈ range (M R + 1) ×ˢ range (M C + 1), (if (x.1 + x.2) % 2 = 1 then F x else 1) :=
        (prod_product' _ _ (fun r c => if (r + c) % 2 = 1 then F (r, c) else 1)).symm
    _ = ∏ x ∈ (range (M R + 1) ×ˢ range (M C + 1)).filter (fun x => (x.1 + x.2) % 2 = 1), F x :=
        (prod_filter _ _).symm
    _ = ∏ x ∈ (cells R C).toFinset, F x := by
        congr 1
        ext x
        simp only [mem_filter, mem_product, mem_range, List.mem_toFinset, mem_cells R C hR hC x, Nat.lt_succ_iff]
        tauto
    _ = ((cells R C).map F).prod := List.prod_toFinset F (cells_nodup R C)

theorem cw_star (R C : Int) (d : Dist Int) (f : BVec) (hR : 2 ≤ R) (hC : 2 ≤ C) (t : Bond → ℕ)
    (hv1 : ∀ b ∈ gvars (M R) (M C), t b < 2) (hv0 : ∀ b, b ∉ gvars (M R) (M C) → t b = 0) (p : ℕ × ℕ)
    (hp : p ∈ cells R C) :
    cw (netF (planarTn R C d f)) t p.1 p.2 = (FactorGraph.star (legs (M R) (M C) p) t : ℤ) := by
  obtain ⟨r, c⟩ := p
  obtain ⟨h1, h2, h3⟩ := (mem_cells R C hR hC (r, c)).mp hp
  simp only at h1 h2 h3 ⊢
  obtain ⟨i1, i2, i3, i4⟩ := vis_inRange _ _ t hv1 hv0 r c h1 h2
  rw [cw_planarTn R C d f hR hC t r c h1 h2 i1 i2 i3 i4, ← deltaList_map, ← deltaEntry_eq]
  unfold nodeFn
  rw [if_neg (by omega), if_neg (by omega)]

theorem prod_split (R C : Int) (d : Dist Int) (f : BVec) (hR : 2 ≤ R) (hC : 2 ≤ C) (t : Bond → ℕ)
    (hv1 : ∀ b ∈ gvars (M R) (M C), t b < 2) (hv0 : ∀ b, b ∉ gvars (M R) (M C) → t b = 0) :
    ∏ c ∈ range (M C + 1), ∏ r ∈ range (M R + 1), cw (netF (planarTn R C d f)) t r c
      = ((stars R C).map fun l => (FactorGraph.star l t : ℤ)).prod * qubitProd R C d f t := by
  have e : ∀ c r, cw (netF (planarTn R C d f)) t r c
      = (if (r + c) % 2 = 1 then cw (netF (planarTn R C d f)) t (r, c).1 (r, c).2 else 1)
        * (if (r + c) % 2 = 1 then 1 else cw (netF (planarTn R C d f)) t r c) := by
    intro c r; split_ifs <;> simp
  rw [prod_congr rfl (fun c _ => prod_congr rfl (fun r _ => e c r))]
  simp only [prod_mul_distrib]
  rw [prod_cells R C hR hC (fun p => cw (netF (planarTn R C d f)) t p.1 p.2)]
  unfold qubitProd stars
  rw [List.map_map]
  congr 2
  apply List.map_congr_left
  intro p hp
  exact cw_star R C d f hR hC t hv1 hv0 p hp

/-- **the exact value of the planar network is the sum over one bit per stabilizer of the product of the qubit
    tensors** -/
theorem exactValue_planarTn (R C : Int) (d : Dist Int) (f : BVec) (hR : 2 ≤ R) (hC : 2 ≤ C) :
    exactValue (planarTn R C d f) = some (sumB (stars R C) (qubitProd R C d f) (fun _ => 0)) := by
  rw [exactValue_eq_sumV _ _ _ (compat_planarTn R C d f hR hC) (compatible_planarTn R C d f hR hC)]
  congr 1
  rw [sumV_congr_mem _ _ _ (fun t => ((stars R C).map fun l => (FactorGraph.star l t : ℤ)).prod * qubitProd R C d f t) _
    (fun t h1 h2 => prod_split R C d f hR hC t
      (fun b hb => by rw [← bdim_planarTn R C d f hR hC b hb]; exact h1 b hb) h2),
    ← sumV_perm _ (stars_perm R C hR hC) (stars_nodup R C hR hC)]
  exact sumV_stars _ (stars R C) (stars_nodup R C hR hC) (stars_ne_nil R C hR hC)
    (fun b hb => bdim_planarTn R C d f hR hC b ((mem_stars R C hR hC b).mp hb)) _ _

/-! ### the qubit tensors at the assignment of one bit per stabilizer -/

open Qec.Symp Qec.PlanarCode in
theorem xorSum_xor {α : Type} (l : List α) (f g : α → Bool) :
    xorSum l (fun x => f x ^^ g x) = (xorSum l f ^^ xorSum l g) := by
  induction l with
  | nil => rfl
  | cons x l ih =>
    simp only [xorSum_cons, ih]
    cases f x <;> cases g x <;> cases xorSum l f <;> cases xorSum l g <;> rfl

open Qec.Symp in
theorem xorSum_one {α : Type} [DecidableEq α] (l : List α) (hl : l.Nodup) (g : α → Bool) (a : α) :
    xorSum l (fun p => g p && decide (p = a)) = (decide (a ∈ l) && g a) := by
  induction l with
  | nil => simp
  | cons x l ih =>
    rw [xorSum_cons, ih (List.nodup_cons.mp hl).2]
    by_cases hxa : x = a
    · subst hxa
      have : x ∉ l := (List.nodup_cons.mp hl).1
      simp [this]
    · have : ¬ a = x := fun h => hxa h.symm
      simp [hxa, this]

open Qec.Symp in
/-- a sum over the (distinct) plaquettes of a term supported on two of them -/
theorem nb_sum {α : Type} [DecidableEq α] (l : List α) (hl : l.Nodup) (g k : α → Bool) (a b : α) (hab : a ≠ b)
    (ma mb : Bool) (hma : ma = true ↔ a ∈ l) (hmb : mb = true ↔ b ∈ l)
    (hk : ∀ p ∈ l, k p = decide (p = a ∨ p = b)) :
    xorSum l (fun p => g p && k p) = ((ma && g a) ^^ (mb && g b)) := by
  have e1 : ma = decide (a ∈ l) := by rw [Bool.eq_iff_iff]; simp [hma]
  have e2 : mb = decide (b ∈ l) := by rw [Bool.eq_iff_iff]; simp [hmb]
  rw [e1, e2, ← xorSum_one l hl g a, ← xorSum_one l hl g b, ← xorSum_xor]
  apply xorSum_congr
  intro p hp
  rw [hk p hp]
  by_cases h1 : p = a
  · subst h1
    simp [hab]
  · simp [h1]

theorem hNodeValue_bits (d : Dist Int) (op : P1) (bn be bs bw : Bool) :
    hNodeValue d op bn.toNat be.toNat bs.toNat bw.toNat = d.at (op.xBit ^^ (be ^^ bw)) (op.zBit ^^ (bn ^^ bs)) := by
  cases op <;> cases bn <;> cases be <;> cases bs <;> cases bw <;> rfl

theorem xBit_ofBits (x z : Bool) : (P1.ofBits x z).xBit = x := by cases x <;> cases z <;> rfl
theorem zBit_ofBits (x z : Bool) : (P1.ofBits x z).zBit = z := by cases x <;> cases z <;> rfl

def toN (p : Int × Int) : ℕ × ℕ := (p.1.toNat, p.2.toNat)

/-- the bit of plaquette `q` (integer lattice coordinates); `false` outside the lattice -/
def Bq (R C : Int) (B : ℕ × ℕ → Bool) (q : Int × Int) : Bool :=
  decide (q ∈ Planar.plaquetteIndices R C) && B (toN q)

/-- the assignment of the bits `B` (one per stabilizer cell) to the bonds -/
def tB (R C : Int) (B : ℕ × ℕ → Bool) : Bond → ℕ := assign (stars R C) ((cells R C).map B) (fun _ => 0)

theorem tB_in (R C : Int) (hR : 2 ≤ R) (hC : 2 ≤ C) (B : ℕ × ℕ → Bool) (b : Bond) (q : Int × Int)
    (hq : q ∈ Planar.plaquetteIndices R C) (hb : b ∈ legs (M R) (M C) (toN q)) :
    tB R C B b = (Bq R C B q).toNat := by
  have hc : toN q ∈ cells R C := List.mem_map.mpr ⟨q, hq, rfl⟩
  unfold tB stars Bq
  rw [assign_map_mem (cells R C) (legs (M R) (M C)) B _ b (toN q) hc hb
    (fun p hp hbp => legs_owner _ _ p (toN q) b hbp hb ((mem_cells R C hR hC p).mp hp).2.2
      ((mem_cells R C hR hC _).mp hc).2.2)]
  simp [hq]

theorem tB_out (R C : Int) (hR : 2 ≤ R) (hC : 2 ≤ C) (B : ℕ × ℕ → Bool) (b : Bond) (q : Int × Int)
    (hq : q ∉ Planar.plaquetteIndices R C) (hb : b ∉ gvars (M R) (M C)) :
    tB R C B b = (Bq R C B q).toNat := by
  unfold tB Bq
  rw [assign_not_mem _ _ _ _ (fun h => hb ((mem_stars R C hR hC b).mp h))]
  simp [hq]

theorem tB_vis (R C : Int) (hR : 2 ≤ R) (hC : 2 ≤ C) (B : ℕ × ℕ → Bool) :
    (∀ b ∈ gvars (M R) (M C), tB R C B b < 2) ∧ (∀ b, b ∉ gvars (M R) (M C) → tB R C B b = 0) := by
  refine ⟨fun b _ => ?_, fun b hb => ?_⟩
  · rcases assign_lt_two (stars R C) ((cells R C).map B) (fun _ => 0) b with h | h
    · unfold tB; rw [h]; exact Nat.zero_lt_two
    · exact h
  · exact assign_not_mem _ _ _ _ (fun h => hb ((mem_stars R C hR hC b).mp h))

/-- the four leg indices of a qubit cell are the bits of its four neighbouring plaquettes -/
theorem tB_legs (R C : Int) (hR : 2 ≤ R) (hC : 2 ≤ C) (B : ℕ × ℕ → Bool) (r c : ℕ) (hr : r ≤ M R) (hc : c ≤ M C)
    (hpar : (r + c) % 2 = 0) :
    tB R C B (v r c) = (Bq R C B ((r : ℤ) - 1, (c : ℤ))).toNat ∧
    tB R C B (h r (c + 1)) = (Bq R C B ((r : ℤ), (c : ℤ) + 1)).toNat ∧
    tB R C B (v (r + 1) c) = (Bq R C B ((r : ℤ) + 1, (c : ℤ))).toNat ∧
    tB R C B (h r c) = (Bq R C B ((r : ℤ), (c : ℤ) - 1)).toNat := by
  have hMR : (M R : ℤ) = 2 * R - 2 := by unfold M; omega
  have hMC : (M C : ℤ) = 2 * C - 2 := by unfold M; omega
  have notin : ∀ b : Bond, (∀ r' c', b = h r' c' → ¬ (r' ≤ M R ∧ 1 ≤ c' ∧ c' ≤ M C)) →
      (∀ r' c', b = v r' c' → ¬ (1 ≤ r' ∧ r' ≤ M R ∧ c' ≤ M C)) → b ∉ gvars (M R) (M C) := by
    intro b h1 h2 hb
    rcases (mem_gvars _ _ b).mp hb with ⟨r', c', a1, a2, a3, rfl⟩ | ⟨r', c', a1, a2, a3, rfl⟩
    · exact h1 r' c' rfl ⟨a1, a2, a3⟩
    · exact h2 r' c' rfl ⟨a1, a2, a3⟩
  refine ⟨?_, ?_, ?_, ?_⟩
  · by_cases hq : ((r : ℤ) - 1, (c : ℤ)) ∈ Planar.plaquetteIndices R C
    · have hq' := (PlanarCode.mem_plaquetteIndices R C _).mp hq
      unfold PlanarCode.RealP at hq'
      simp only at hq'
      apply tB_in R C hR hC B _ _ hq
      have : toN ((r : ℤ) - 1, (c : ℤ)) = (r - 1, c) := by unfold toN; simp only [Prod.mk.injEq]; omega
      rw [this, mem_legs]
      exact Or.inr (Or.inr (Or.inl ⟨by omega, by rw [Nat.sub_add_cancel (by omega)]⟩))
    · apply tB_out R C hR hC B _ _ hq
      apply notin
      · intro r' c' hh; injection hh
      · intro r' c' hh ⟨a1, a2, a3⟩
        injection hh with e1 e2
        apply hq
        rw [PlanarCode.mem_plaquetteIndices]; unfold PlanarCode.RealP; simp only; omega
  · by_cases hq : ((r : ℤ), (c : ℤ) + 1) ∈ Planar.plaquetteIndices R C
    · have hq' := (PlanarCode.mem_plaquetteIndices R C _).mp hq
      unfold PlanarCode.RealP at hq'
      simp only at hq'
      apply tB_in R C hR hC B _ _ hq
      have : toN ((r : ℤ), (c : ℤ) + 1) = (r, c + 1) := by unfold toN; simp only [Prod.mk.injEq]; omega
      rw [this, mem_legs]
      exact Or.inr (Or.inr (Or.inr ⟨by omega, rfl⟩))
    · apply tB_out R C hR hC B _ _ hq
      apply notin
      · intro r' c' hh ⟨a1, a2, a3⟩
        injection hh with e1 e2
        apply hq
        rw [PlanarCode.mem_plaquetteIndices]; unfold PlanarCode.RealP; simp only; omega
      · intro r' c' hh; injection hh
  · by_cases hq : ((r : ℤ) + 1, (c : ℤ)) ∈ Planar.plaquetteIndices R C
    · have hq' := (PlanarCode.mem_plaquetteIndices R C _).mp hq
      unfold PlanarCode.RealP at hq'
      simp only at hq'
      apply tB_in R C hR hC B _ _ hq
      have : toN ((r : ℤ) + 1, (c : ℤ)) = (r + 1, c) := by unfold toN; simp only [Prod.mk.injEq]; omega
      rw [this, mem_legs]
      exact Or.inl ⟨by omega, rfl⟩
    · apply tB_out R C hR hC B _ _ hq
      apply notin
      · intro r' c' hh; injection hh
      · intro r' c' hh ⟨a1, a2, a3⟩
        injection hh with e1 e2
        apply hq
        rw [PlanarCode.mem_plaquetteIndices]; unfold PlanarCode.RealP; simp only; omega
  · by_cases hq : ((r : ℤ), (c : ℤ) - 1) ∈ Planar.plaquetteIndices R C
    · have hq' := (PlanarCode.mem_plaquetteIndices R C _).mp hq
      unfold PlanarCode.RealP at hq'
      simp only at hq'
      apply tB_in R C hR hC B _ _ hq
      have : toN ((r : ℤ), (c : ℤ) - 1) = (r, c - 1) := by unfold toN; simp only [Prod.mk.injEq]; omega
      rw [this, mem_legs]
      exact Or.inr (Or.inl ⟨by omega, by rw [Nat.sub_add_cancel (by omega)]⟩)
    · apply tB_out R C hR hC B _ _ hq
      apply notin
      · intro r' c' hh ⟨a1, a2, a3⟩
        injection hh with e1 e2
        apply hq
        rw [PlanarCode.mem_plaquetteIndices]; unfold PlanarCode.RealP; simp only; omega
      · intro r' c' hh; injection hh

/-- the qubit tensor entry selected by the bits of the four neighbouring plaquettes -/
theorem cw_qubit (R C : Int) (d : Dist Int) (f : BVec) (hR : 2 ≤ R) (hC : 2 ≤ C) (B : ℕ × ℕ → Bool) (r c : ℕ)
    (hr : r ≤ M R) (hc : c ≤ M C) (hpar : (r + c) % 2 = 0) :
    cw (netF (planarTn R C d f)) (tB R C B) r c =
      if r % 2 = 0 then
        d.at (f.getD (PlanarCode.fl R C ((r : ℤ), (c : ℤ))) false
            ^^ (Bq R C B ((r : ℤ), (c : ℤ) + 1) ^^ Bq R C B ((r : ℤ), (c : ℤ) - 1)))
          (f.getD (PlanarCode.nq R C + PlanarCode.fl R C ((r : ℤ), (c : ℤ))) false
            ^^ (Bq R C B ((r : ℤ) - 1, (c : ℤ)) ^^ Bq R C B ((r : ℤ) + 1, (c : ℤ))))
      else
        d.at (f.getD (PlanarCode.fl R C ((r : ℤ), (c : ℤ))) false
            ^^ (Bq R C B ((r : ℤ) + 1, (c : ℤ)) ^^ Bq R C B ((r : ℤ) - 1, (c : ℤ))))
          (f.getD (PlanarCode.nq R C + PlanarCode.fl R C ((r : ℤ), (c : ℤ))) false
            ^^ (Bq R C B ((r : ℤ), (c : ℤ) + 1) ^^ Bq R C B ((r : ℤ), (c : ℤ) - 1))) := by
  obtain ⟨hv1, hv0⟩ := tB_vis R C hR hC B
  obtain ⟨i1, i2, i3, i4⟩ := vis_inRange _ _ _ hv1 hv0 r c hr hc
  obtain ⟨l1, l2, l3, l4⟩ := tB_legs R C hR hC B r c hr hc hpar
  rw [cw_planarTn R C d f hR hC _ r c hr hc i1 i2 i3 i4, l1, l2, l3, l4]
  have hop := PlanarCode.operatorAt_eq R C f ((r : ℤ), (c : ℤ))
  simp only at hop
  unfold nodeFn
  by_cases h2 : r % 2 = 0
  · rw [if_pos ⟨h2, by omega⟩, if_pos h2, hNodeValue_bits, hop, xBit_ofBits, zBit_ofBits]
  · rw [if_neg (fun hh => h2 hh.1), if_pos ⟨by omega, by omega⟩, if_neg h2]
    unfold vNodeValue
    rw [hNodeValue_bits, hop, xBit_ofBits, zBit_ofBits]

open Qec.Symp Qec.PlanarCode in
theorem stabOp_bits (R C : Int) (hR : 2 ≤ R) (hC : 2 ≤ C) (p : Int × Int) (hp : (p.1 + p.2) % 2 = 1)
    (s : Int × Int) (hs : (s.1 + s.2) % 2 = 0) (hb : Planar.inBounds R C s.1 s.2 = true) :
    (stabOp R C p).getD (fl R C s) false = (!decide (p.1 % 2 = 1) && occ (Planar.plaquetteSites p.1 p.2) s) ∧
    (stabOp R C p).getD (nq R C + fl R C s) false
      = (decide (p.1 % 2 = 1) && occ (Planar.plaquetteSites p.1 p.2) s) := by
  unfold stabOp
  rw [isPrimal_plaq _ _ hp]
  have hl := allSites_plaq p.1 p.2 hp
  have h1 := getD_siteop_same R C hR hC (decide (p.1 % 2 = 1)) _ hl s hs hb
  have h0 := getD_siteop_other R C hR hC (decide (p.1 % 2 = 1)) _ hl s hs hb
  cases hz : decide (p.1 % 2 = 1)
  · rw [hz] at h1 h0
    simp only [off, Bool.false_eq_true, if_false, Nat.zero_add, Bool.not_false, if_true] at h1 h0
    rw [h1, h0]; simp
  · rw [hz] at h1 h0
    simp only [off, Bool.false_eq_true, if_false, Nat.zero_add, Bool.not_true, if_true] at h1 h0
    rw [h1, h0]; simp

open Qec.Symp Qec.PlanarCode in
/-- bits of `Π Sᵢ^βᵢ` at a site: the XOR of the bits of the neighbouring plaquettes of the matching type -/
theorem comb_bits (R C : Int) (hR : 2 ≤ R) (hC : 2 ≤ C) (B : ℕ × ℕ → Bool) (r c : ℕ) (hr : r ≤ M R) (hc : c ≤ M C)
    (hpar : (r + c) % 2 = 0) :
    xorSum (Planar.plaquetteIndices R C) (fun p => B (toN p) && (stabOp R C p).getD (fl R C ((r : ℤ), (c : ℤ))) false)
      = (if r % 2 = 0 then (Bq R C B ((r : ℤ), (c : ℤ) + 1) ^^ Bq R C B ((r : ℤ), (c : ℤ) - 1))
          else (Bq R C B ((r : ℤ) + 1, (c : ℤ)) ^^ Bq R C B ((r : ℤ) - 1, (c : ℤ)))) ∧
    xorSum (Planar.plaquetteIndices R C)
        (fun p => B (toN p) && (stabOp R C p).getD (nq R C + fl R C ((r : ℤ), (c : ℤ))) false)
      = (if r % 2 = 0 then (Bq R C B ((r : ℤ) - 1, (c : ℤ)) ^^ Bq R C B ((r : ℤ) + 1, (c : ℤ)))
          else (Bq R C B ((r : ℤ), (c : ℤ) + 1) ^^ Bq R C B ((r : ℤ), (c : ℤ) - 1))) := by
  have hMR : (M R : ℤ) = 2 * R - 2 := by unfold M; omega
  have hMC : (M C : ℤ) = 2 * C - 2 := by unfold M; omega
  have hs : (((r : ℤ), (c : ℤ)).1 + ((r : ℤ), (c : ℤ)).2) % 2 = 0 := by simp only; omega
  have hb : Planar.inBounds R C ((r : ℤ), (c : ℤ)).1 ((r : ℤ), (c : ℤ)).2 = true := by
    rw [inBounds_iff]; simp only; omega
  have hnd := plaquetteIndices_nodup R C
  have hbits : ∀ p ∈ Planar.plaquetteIndices R C, (p.1 + p.2) % 2 = 1 := fun p hp =>
    ((mem_plaquetteIndices R C p).mp hp).2.2.2.2
  unfold Bq
  constructor
  · rw [xorSum_congr _ _ (fun p => B (toN p) && (!decide (p.1 % 2 = 1) && occ (Planar.plaquetteSites p.1 p.2) ((r : ℤ), (c : ℤ))))
      (fun p hp => by rw [(stabOp_bits R C hR hC p (hbits p hp) _ hs hb).1])]
    by_cases h2 : r % 2 = 0
    · rw [if_pos h2]
      apply nb_sum _ hnd (fun p => B (toN p)) _ _ _ (by intro hh; injection hh; omega) _ _ decide_eq_true_iff
        decide_eq_true_iff
      intro p hp
      have := hbits p hp
      rw [occ_plaq, Bool.eq_iff_iff]
      simp only [Bool.and_eq_true, Bool.not_eq_true', decide_eq_false_iff_not, decide_eq_true_eq, Prod.ext_iff]
      omega
    · rw [if_neg h2]
      apply nb_sum _ hnd (fun p => B (toN p)) _ _ _ (by intro hh; injection hh; omega) _ _ decide_eq_true_iff
        decide_eq_true_iff
      intro p hp
      have := hbits p hp
      rw [occ_plaq, Bool.eq_iff_iff]
      simp only [Bool.and_eq_true, Bool.not_eq_true', decide_eq_false_iff_not, decide_eq_true_eq, Prod.ext_iff]
      omega
  · rw [xorSum_congr _ _ (fun p => B (toN p) && (decide (p.1 % 2 = 1) && occ (Planar.plaquetteSites p.1 p.2) ((r : ℤ), (c : ℤ))))
      (fun p hp => by rw [(stabOp_bits R C hR hC p (hbits p hp) _ hs hb).2])]
    by_cases h2 : r % 2 = 0
    · rw [if_pos h2]
      apply nb_sum _ hnd (fun p => B (toN p)) _ _ _ (by intro hh; injection hh; omega) _ _ decide_eq_true_iff
        decide_eq_true_iff
      intro p hp
      have := hbits p hp
      rw [occ_plaq, Bool.eq_iff_iff]
      simp only [Bool.and_eq_true, decide_eq_true_eq, Prod.ext_iff]
      omega
    · rw [if_neg h2]
      apply nb_sum _ hnd (fun p => B (toN p)) _ _ _ (by intro hh; injection hh; omega) _ _ decide_eq_true_iff
        decide_eq_true_iff
      intro p hp
      have := hbits p hp
      rw [occ_plaq, Bool.eq_iff_iff]
      simp only [Bool.and_eq_true, decide_eq_true_eq, Prod.ext_iff]
      omega

/-! ### reindexing the qubit cells by the flat qubit index, and the final identity -/

open Qec.PlanarCode in
theorem prod_sites (R C : Int) (hR : 2 ≤ R) (hC : 2 ≤ C) (φ : ℕ → ℤ) :
    ∏ c ∈ range (M C + 1), ∏ r ∈ range (M R + 1),
        (if (r + c) % 2 = 1 then 1 else φ (fl R C ((r : ℤ), (c : ℤ))))
      = ∏ q ∈ range (nq R C), φ q := by
  have hMR : (M R : ℤ) = 2 * R - 2 := by unfold M; omega
  have hMC : (M C : ℤ) = 2 * C - 2 := by unfold M; omega
  calc ∏ c ∈ range (M C + 1), ∏ r ∈ range (M R + 1),
        (if (r + c) % 2 = 1 then 1 else φ (fl R C ((r : ℤ), (c : ℤ))))
      = ∏ r ∈ range (M R + 1), ∏ c ∈ range (M C + 1),
          (if (r + c) % 2 = 1 then 1 else φ (fl R C ((r : ℤ), (c : ℤ)))) := prod_comm
    _ = ∏ r ∈ range (M R + 1), ∏ c ∈ range (M C + 1),
          (if ¬ (r + c) % 2 = 1 then φ (fl R C ((r : ℤ), (c : ℤ))) else 1) := by
        apply prod_congr rfl; intro r _; apply prod_congr rfl; intro c _; split_ifs <;> rfl
    _ = ∏ x ∈ range (M R + 1) ×ˢ range (M C + 1),
          (if ¬ (x.1 + x.2) % 2 = 1 then φ (fl R C ((x.1 : ℤ), (x.2 : ℤ))) else 1) :=
        (prod_product' _ _ (fun (r c : ℕ) => if ¬ (r + c) % 2 = 1 then φ (fl R C ((r : ℤ), (c : ℤ))) else 1)).symm
    _ = ∏ x ∈ (range (M R + 1) ×ˢ range (M C + 1)).filter (fun x => ¬ (x.1 + x.2) % 2 = 1),
          φ (fl R C ((x.1 : ℤ), (x.2 : ℤ))) := (prod_filter _ _).symm
    _ = ∏ q ∈ range (nq R C), φ q := by
        apply prod_nbij (fun x : ℕ × ℕ => fl R C ((x.1 : ℤ), (x.2 : ℤ)))
        · intro x hx
          simp only [mem_filter, mem_product, mem_range] at hx
          rw [mem_range]
          exact fl_lt R C hR hC _ (by simp only; omega) (by rw [inBounds_iff]; simp only; omega)
        · intro x hx y hy hxy
          simp only [coe_filter, mem_product, mem_range, Set.mem_setOf_eq] at hx hy
          have := fl_inj R C ((y.1 : ℤ), (y.2 : ℤ)) ((x.1 : ℤ), (x.2 : ℤ)) (by simp only; omega)
            (by rw [inBounds_iff]; simp only; omega) (by simp only; omega) (by rw [inBounds_iff]; simp only; omega)
            hxy hR hC
          simp only [Prod.mk.injEq] at this
          exact Prod.ext (by omega) (by omega)
        · intro q hq
          simp only [coe_range, Set.mem_Iio] at hq
          obtain ⟨r, c, hs, he⟩ := flatten_surj R C hR hC (q : ℤ) (by omega) (by unfold nq at hq; omega)
          unfold SiteIn at hs
          refine ⟨(r.toNat, c.toNat), ?_, ?_⟩
          · simp only [coe_filter, mem_product, mem_range, Set.mem_setOf_eq]
            omega
          · show fl R C (((r.toNat : ℕ) : ℤ), ((c.toNat : ℕ) : ℤ)) = q
            unfold fl
            simp only
            rw [Int.toNat_of_nonneg hs.1, Int.toNat_of_nonneg hs.2.2.1, he]
            simp
        · intro x _; rfl

theorem xorComb_eq (m : ℕ) (c : List Bool) (S : List BVec) : Coset.xorComb m c S = Symp.xorComb m c S := by
  induction c generalizing S with
  | nil => cases S <;> rfl
  | cons b c ih =>
    cases S with
    | nil => rfl
    | cons g S => simp only [Coset.xorComb, Symp.xorComb, ih]

open Qec.PlanarCode in
/-- **every qubit tensor entry indexed by the bits of the adjacent stabilizers is `dist((f · Π Sᵢ^βᵢ)_q)`**, hence the
    product of the qubit tensors at the assignment of the bits `β` is the probability of `f · Π Sᵢ^βᵢ` -/
theorem qubitProd_assign (R C : Int) (d : Dist Int) (f : BVec) (hR : 2 ≤ R) (hC : 2 ≤ C)
    (hf : f.length = 2 * nq R C) (β : List Bool) (hβ : β.length = (Planar.stabilizers R C).length) :
    qubitProd R C d f (assign (stars R C) β (fun _ => 0))
      = weight d (xorV f (Coset.xorComb f.length β (Planar.stabilizers R C))) := by
  have hlenc : β.length = (cells R C).length := by
    rw [hβ, stabilizers_eq_map]; unfold cells; simp
  obtain ⟨B, hB⟩ := exists_map_eq (cells R C) (cells_nodup R C) β hlenc
  subst hB
  have hlenS : Symp.AllLen (2 * nq R C) ((Planar.plaquetteIndices R C).map (stabOp R C)) := by
    intro g hg
    obtain ⟨p, _, rfl⟩ := List.mem_map.mp hg
    exact stabOp_length R C p
  have hcomb : Coset.xorComb f.length ((cells R C).map B) (Planar.stabilizers R C)
      = Symp.xorComb (2 * nq R C) ((Planar.plaquetteIndices R C).map fun p => B (toN p))
          ((Planar.plaquetteIndices R C).map (stabOp R C)) := by
    rw [xorComb_eq, hf, stabilizers_eq_map]
    unfold cells
    rw [List.map_map]
    rfl
  rw [hcomb]
  have hcl := Symp.xorComb_length (2 * nq R C) ((Planar.plaquetteIndices R C).map fun p => B (toN p)) _ hlenS
  rw [weight_eq_prod d (nq R C) _ (xorV_len hf hcl), ← prod_sites R C hR hC]
  unfold qubitProd
  apply prod_congr rfl; intro c hc
  apply prod_congr rfl; intro r hr
  have hc := Nat.lt_succ_iff.mp (mem_range.mp hc)
  have hr := Nat.lt_succ_iff.mp (mem_range.mp hr)
  by_cases hpar : (r + c) % 2 = 1
  · rw [if_pos hpar, if_pos hpar]
  · rw [if_neg hpar, if_neg hpar]
    have hpar0 : (r + c) % 2 = 0 := by omega
    have hcw := cw_qubit R C d f hR hC B r c hr hc hpar0
    unfold tB at hcw
    rw [hcw, Symp.getD_xorV _ _ (hf.trans hcl.symm), Symp.getD_xorV _ _ (hf.trans hcl.symm),
      Symp.getD_xorComb_map _ _ _ _ (fun p _ => stabOp_length R C p),
      Symp.getD_xorComb_map _ _ _ _ (fun p _ => stabOp_length R C p),
      (comb_bits R C hR hC B r c hr hc hpar0).1, (comb_bits R C hR hC B r c hr hc hpar0).2]
    split_ifs <;> rfl

/-- **the planar network contracts to the coset probability** (as `exactValue`, the literal index sum) -/
theorem exactValue_planarTn_eq_cosetProb (R C : Int) (d : Dist Int) (f : BVec) (hR : 2 ≤ R) (hC : 2 ≤ C)
    (hf : f.length = 2 * (Planar.nQubits R C).toNat) :
    exactValue (planarTn R C d f) = some (cosetProb d (Planar.stabilizers R C) f) := by
  rw [exactValue_planarTn R C d f hR hC]
  congr 1
  apply sumB_eq_span f.length (stars R C) (Planar.stabilizers R C) _ (qubitProd R C d f)
    (fun g => weight d (xorV f g)) (fun _ => 0)
  · intro β hβ
    exact qubitProd_assign R C d f hR hC hf β hβ
  · rw [PlanarCode.stabilizers_eq_map]; unfold stars cells; simp

end Qec.PlanarTnLemmas
