/-
  Helper lemmas for Props/C02/Smwpm.lean — the cluster construction of the symmetry-matching decoder
  (`Model/Smwpm.lean`): association-list dictionaries, the inner walk and the outer loop of `_clusters`.

  Main results:
  * `walk_spec`: from a "head state" (the column mates are a fixed-point-free involution except for the entry of
    `next`, whose partner has already been removed; the row mates are a fixed-point-free involution on the keys of
    the column mates plus the start index) the inner loop leaves through the LAST `KeyError` with the start index
    appended, and re-establishes the loop invariant `Good`;
  * `loop_spec`: under `Good` (both dictionaries are fixed-point-free involutions with the same key set) `_clusters`
    succeeds, every cluster has even length and every key occurs in exactly one cluster exactly once.
-/
import QecVerif.Model.Smwpm
namespace Qec.SmwpmL
open Qec Qec.Smwpm

/-! ### dictionaries -/

def WF (d : Dict) : Prop := (d.map Prod.fst).Nodup

/-- 1 if `k` is a key -/
def ind (d : Dict) (k : TIdx) : Nat := if (dget d k).isSome then 1 else 0

/-- occurrences -/
def cnt (l : List TIdx) (k : TIdx) : Nat := l.countP fun x => decide (x = k)

theorem cnt_nil (k : TIdx) : cnt [] k = 0 := rfl
theorem cnt_append (l l' : List TIdx) (k : TIdx) : cnt (l ++ l') k = cnt l k + cnt l' k := by
  simp [cnt, List.countP_append]
theorem cnt_single (a k : TIdx) : cnt [a] k = if a = k then 1 else 0 := by
  simp [cnt, List.countP_cons]

theorem dget_cons (e : TIdx × TIdx) (d : Dict) (k : TIdx) :
    dget (e :: d) k = if e.1 = k then some e.2 else dget d k := by
  unfold dget
  rw [List.find?_cons]
  by_cases h : e.1 = k <;> simp [h]

theorem dget_ddel (d : Dict) (k k' : TIdx) : dget (ddel d k) k' = if k' = k then none else dget d k' := by
  induction d with
  | nil => simp [ddel, dget]
  | cons e d ih =>
    have hc : ddel (e :: d) k = if e.1 = k then ddel d k else e :: ddel d k := by
      unfold ddel; rw [List.filter_cons]; by_cases h : e.1 = k <;> simp [h]
    rw [hc]
    by_cases h : e.1 = k
    · rw [if_pos h, ih, dget_cons]
      by_cases h' : k' = k
      · simp [h']
      · have : ¬ e.1 = k' := by rw [h]; exact fun x => h' x.symm
        simp [h', this]
    · rw [if_neg h, dget_cons, dget_cons, ih]
      by_cases h2 : e.1 = k'
      · have : ¬ k' = k := by rw [← h2]; exact h
        simp [h2, this]
      · simp [h2]

theorem ind_ddel (d : Dict) (k k' : TIdx) : ind (ddel d k) k' = if k' = k then 0 else ind d k' := by
  unfold ind; rw [dget_ddel]; by_cases h : k' = k <;> simp [h]

theorem ind_of_some (d : Dict) (k v : TIdx) (h : dget d k = some v) : ind d k = 1 := by
  unfold ind; rw [h]; rfl

theorem ind_of_none (d : Dict) (k : TIdx) (h : dget d k = none) : ind d k = 0 := by
  unfold ind; rw [h]; rfl

theorem wf_ddel (d : Dict) (k : TIdx) (h : WF d) : WF (ddel d k) :=
  List.Nodup.sublist (List.Sublist.map _ List.filter_sublist) h

theorem length_ddel_le (d : Dict) (k : TIdx) : (ddel d k).length ≤ d.length := List.length_filter_le _ _

theorem length_ddel_lt (d : Dict) (k : TIdx) (h : (dget d k).isSome) : (ddel d k).length < d.length := by
  induction d with
  | nil => simp [dget] at h
  | cons e d ih =>
    have hc : ddel (e :: d) k = if e.1 = k then ddel d k else e :: ddel d k := by
      unfold ddel; rw [List.filter_cons]; by_cases h : e.1 = k <;> simp [h]
    rw [hc]
    by_cases h1 : e.1 = k
    · rw [if_pos h1]
      have := length_ddel_le d k
      simp only [List.length_cons]; omega
    · rw [if_neg h1]
      rw [dget_cons, if_neg h1] at h
      have := ih h
      simp only [List.length_cons]; omega

theorem dget_of_mem (d : Dict) (h : WF d) (e : TIdx × TIdx) (he : e ∈ d) : dget d e.1 = some e.2 := by
  induction d with
  | nil => simp at he
  | cons e' d ih =>
    rw [dget_cons]
    rcases List.mem_cons.mp he with rfl | he'
    · simp
    · have hn : (e'.1 :: d.map Prod.fst).Nodup := h
      rw [List.nodup_cons] at hn
      have : ¬ e'.1 = e.1 := by
        intro hh; apply hn.1; rw [hh]; exact List.mem_map.mpr ⟨e, he', rfl⟩
      rw [if_neg this]
      exact ih hn.2 he'

theorem minEntry_mem (d : Dict) (e : TIdx × TIdx) (h : minEntry d = some e) : e ∈ d := by
  induction d generalizing e with
  | nil => simp [minEntry] at h
  | cons e' d ih =>
    unfold minEntry at h
    cases hm : minEntry d with
    | none => rw [hm] at h; simp at h; rw [← h]; simp
    | some m =>
      rw [hm] at h
      by_cases hl : elt m e' = true
      · simp [hl] at h; rw [← h]; exact List.mem_cons_of_mem _ (ih m hm)
      · simp [hl] at h; rw [← h]; simp

theorem minEntry_none (d : Dict) (h : minEntry d = none) : d = [] := by
  cases d with
  | nil => rfl
  | cons e' d =>
    unfold minEntry at h
    cases hm : minEntry d with
    | none => rw [hm] at h; simp at h
    | some m => rw [hm] at h; by_cases hl : elt m e' = true <;> simp [hl] at h

/-! ### invariants -/

/-- symmetric and without fixed points -/
def SymG (d : Dict) : Prop := ∀ a b, dget d a = some b → dget d b = some a ∧ a ≠ b

/-- the invariant of the outer loop of `_clusters` -/
structure Good (col row : Dict) : Prop where
  wfc : WF col
  symc : SymG col
  symr : SymG row
  keys : ∀ k, (dget row k).isSome ↔ (dget col k).isSome

/-- the invariant at the head of the inner loop: `next` still has its column entry (its partner `prev` has
    been removed); `s` is the start index of the cluster -/
structure Head (col row : Dict) (s next : TIdx) : Prop where
  wfc : WF col
  prev : ∃ prev, dget col next = some prev ∧ dget col prev = none
  symc : ∀ a b, a ≠ next → dget col a = some b → dget col b = some a ∧ a ≠ b
  symr : SymG row
  keys : ∀ k, (dget row k).isSome ↔ ((dget col k).isSome ∨ k = s)
  snot : dget col s = none

theorem isSome_iff {α} (o : Option α) : o.isSome = true ↔ ∃ v, o = some v := by
  cases o <;> simp

/-- **the inner loop**: it always leaves through the last `KeyError` (`col_mates.pop(start)`), having appended an
    odd number of indices `vs` and then the start index; what is left satisfies the outer invariant, and the
    removed column keys are exactly `vs` -/
theorem walk_spec (f : Nat) : ∀ (cl : List TIdx) (s next : TIdx) (col row : Dict),
    Head col row s next → col.length ≤ f →
    ∃ vs col' row', walk f cl next col row = (cl ++ vs ++ [s], col', row') ∧ Good col' row' ∧
      vs.length % 2 = 1 ∧ (∀ k, cnt vs k + ind col' k = ind col k) ∧ col'.length ≤ col.length := by
  induction f with
  | zero =>
    intro cl s next col row h hf
    obtain ⟨prev, hp, _⟩ := h.prev
    have : col = [] := List.eq_nil_of_length_eq_zero (by omega)
    rw [this] at hp; simp [dget] at hp
  | succ f ih =>
    intro cl s next col row h hf
    obtain ⟨prev, hp, hpn⟩ := h.prev
    have hnp : next ≠ prev := by intro hh; rw [hh, hpn] at hp; cases hp
    -- the row partner of `next`
    have hrn : (dget row next).isSome := (h.keys next).mpr (Or.inl (by rw [hp]; rfl))
    obtain ⟨m, hm⟩ := (isSome_iff _).mp hrn
    obtain ⟨hmn, hnm⟩ := h.symr next m hm
    have hmn' : m ≠ next := fun hh => hnm hh.symm
    -- `del row_mates[m]` succeeds
    have hrm1 : dget (ddel row next) m = some next := by rw [dget_ddel, if_neg hmn']; exact hmn
    -- the state after the three removals
    have hcol1 : ∀ k, dget (ddel col next) k = if k = next then none else dget col k := dget_ddel col next
    have hrow2 : ∀ k, dget (ddel (ddel row next) m) k = if k = m then none else if k = next then none else dget row k := by
      intro k; rw [dget_ddel, dget_ddel]
    have symr2 : SymG (ddel (ddel row next) m) := by
      intro a b hab
      rw [hrow2] at hab
      by_cases ham : a = m
      · rw [if_pos ham] at hab; cases hab
      · rw [if_neg ham] at hab
        by_cases han : a = next
        · rw [if_pos han] at hab; cases hab
        · rw [if_neg han] at hab
          obtain ⟨hba, hne⟩ := h.symr a b hab
          refine ⟨?_, hne⟩
          rw [hrow2]
          have hbm : b ≠ m := by
            intro hh; rw [hh, hmn] at hba; exact han (Option.some.inj hba).symm
          have hbn : b ≠ next := by
            intro hh; rw [hh, hm] at hba; exact ham (Option.some.inj hba).symm
          rw [if_neg hbm, if_neg hbn]; exact hba
    have symc1 : SymG (ddel col next) := by
      intro a b hab
      rw [hcol1] at hab
      by_cases han : a = next
      · rw [if_pos han] at hab; cases hab
      · rw [if_neg han] at hab
        obtain ⟨hba, hne⟩ := h.symc a b han hab
        refine ⟨?_, hne⟩
        rw [hcol1]
        have hbn : b ≠ next := by
          intro hh; rw [hh, hp] at hba
          have : prev = a := Option.some.inj hba
          rw [← this, hpn] at hab; cases hab
        rw [if_neg hbn]; exact hba
    have hlen1 : (ddel col next).length < col.length := length_ddel_lt col next (by rw [hp]; rfl)
    unfold walk
    simp only [hp, hm, hrm1]
    by_cases hms : m = s
    · -- closed: `col_mates.pop(s)` raises KeyError
      have hcs : dget (ddel col next) m = none := by
        rw [hcol1, hms]; by_cases h' : s = next
        · simp [h']
        · rw [if_neg h']; exact h.snot
      simp only [hcs]
      refine ⟨[next], ddel col next, ddel (ddel row next) m, ?_, ⟨wf_ddel _ _ h.wfc, symc1, symr2, ?_⟩, rfl, ?_,
        Nat.le_of_lt hlen1⟩
      · rw [hms]
      · intro k
        rw [hrow2, hcol1]
        by_cases hkn : k = next
        · simp [hkn]
        · rw [if_neg hkn, if_neg hkn]
          by_cases hkm : k = m
          · rw [if_pos hkm, hkm, hms, h.snot]
          · rw [if_neg hkm, h.keys k]
            constructor
            · rintro (h1 | h1)
              · exact h1
              · exact absurd (h1.trans hms.symm) hkm
            · exact Or.inl
      · intro k
        rw [ind_ddel, cnt_single]
        by_cases hkn : k = next
        · rw [hkn, if_pos rfl, if_pos rfl, ind_of_some col next prev hp]
        · rw [if_neg hkn, if_neg (fun hh : next = k => hkn hh.symm)]; omega
    · -- not closed yet: `m` still has its column entry
      have hmc : (dget col m).isSome := by
        have := (h.keys m).mp (by rw [hmn]; rfl)
        rcases this with h1 | h1
        · exact h1
        · exact absurd h1 hms
      obtain ⟨n2, hn2⟩ := (isSome_iff _).mp hmc
      obtain ⟨hn2m, hmn2⟩ := h.symc m n2 hmn' hn2
      have hn2n : n2 ≠ next := by
        intro hh; rw [hh, hp] at hn2m
        have : prev = m := Option.some.inj hn2m
        rw [← this, hpn] at hn2; cases hn2
      have hcm : dget (ddel col next) m = some n2 := by rw [hcol1, if_neg hmn']; exact hn2
      simp only [hcm]
      have hcol2 : ∀ k, dget (ddel (ddel col next) m) k = if k = m then none else if k = next then none else dget col k := by
        intro k; rw [dget_ddel, dget_ddel]
      have hn2m' : n2 ≠ m := fun hh => hmn2 hh.symm
      have hhead : Head (ddel (ddel col next) m) (ddel (ddel row next) m) s n2 := by
        refine ⟨wf_ddel _ _ (wf_ddel _ _ h.wfc), ⟨m, ?_, ?_⟩, ?_, symr2, ?_, ?_⟩
        · rw [hcol2, if_neg hn2m', if_neg hn2n]; exact hn2m
        · rw [hcol2, if_pos rfl]
        · intro a b han2 hab
          rw [hcol2] at hab
          by_cases ham : a = m
          · rw [if_pos ham] at hab; cases hab
          · rw [if_neg ham] at hab
            by_cases han : a = next
            · rw [if_pos han] at hab; cases hab
            · rw [if_neg han] at hab
              obtain ⟨hba, hne⟩ := h.symc a b han hab
              refine ⟨?_, hne⟩
              rw [hcol2]
              have hbm : b ≠ m := by
                intro hh; rw [hh, hn2] at hba; exact han2 (Option.some.inj hba).symm
              have hbn : b ≠ next := by
                intro hh; rw [hh, hp] at hba
                have : prev = a := Option.some.inj hba
                rw [← this, hpn] at hab; cases hab
              rw [if_neg hbm, if_neg hbn]; exact hba
        · intro k
          rw [hrow2, hcol2]
          by_cases hkm : k = m
          · rw [if_pos hkm, if_pos hkm]; simp [hkm, hms]
          · rw [if_neg hkm, if_neg hkm]
            by_cases hkn : k = next
            · rw [if_pos hkn, if_pos hkn]
              have : next ≠ s := by
                intro hh; rw [hh, h.snot] at hp; cases hp
              simp [hkn, this]
            · rw [if_neg hkn, if_neg hkn]; exact h.keys k
        · rw [hcol2]
          by_cases h1 : s = m
          · rw [if_pos h1]
          · rw [if_neg h1]
            by_cases h2 : s = next
            · rw [if_pos h2]
            · rw [if_neg h2]; exact h.snot
      have hlen2 : (ddel (ddel col next) m).length ≤ f := by
        have := length_ddel_le (ddel col next) m
        omega
      obtain ⟨vs, col', row', hw, hgood, hodd, hcnt, hlen⟩ :=
        ih (cl ++ [next] ++ [m]) s n2 _ _ hhead hlen2
      refine ⟨[next, m] ++ vs, col', row', ?_, hgood, ?_, ?_, ?_⟩
      · rw [hw]; simp
      · simp only [List.length_append, List.length_cons, List.length_nil]; omega
      · intro k
        have := hcnt k
        rw [cnt_append]
        have e2 : cnt [next, m] k = (if next = k then 1 else 0) + (if m = k then 1 else 0) := by
          have : [next, m] = [next] ++ [m] := rfl
          rw [this, cnt_append, cnt_single, cnt_single]
        rw [e2]
        have hm1 : ind col m = 1 := ind_of_some col m n2 hn2
        have hn1 : ind col next = 1 := ind_of_some col next prev hp
        rw [ind_ddel, ind_ddel] at this
        by_cases hkm : k = m
        · rw [hkm] at this ⊢
          rw [if_pos rfl] at this
          rw [if_neg (fun hh : next = m => hmn' hh.symm), if_pos rfl, hm1]; omega
        · rw [if_neg hkm] at this
          by_cases hkn : k = next
          · rw [hkn] at this ⊢
            rw [if_pos rfl] at this
            rw [if_pos rfl, if_neg hmn', hn1]; omega
          · rw [if_neg hkn] at this
            rw [if_neg (fun hh : next = k => hkn hh.symm), if_neg (fun hh : m = k => hkm hh.symm)]; omega
      · have := length_ddel_le (ddel col next) m
        omega

/-- **`_clusters` under the invariant**: the loop succeeds; every cluster has even length; every column key occurs
    in exactly one cluster, exactly once, and nothing else occurs -/
theorem loop_spec (F : Nat) : ∀ (col row : Dict) (acc : List (List TIdx)), Good col row → col.length < F →
    ∃ cls, clustersLoop F col row acc = .ok (acc ++ cls) ∧ (∀ k, cnt cls.flatten k = ind col k) ∧
      (∀ cl ∈ cls, cl.length % 2 = 0) := by
  induction F with
  | zero => intro col row acc _ hF; omega
  | succ F ih =>
    intro col row acc h hF
    unfold clustersLoop
    cases hm : minEntry col with
    | none =>
      have hc : col = [] := minEntry_none col hm
      have hr : row = [] := by
        cases row with
        | nil => rfl
        | cons e r =>
          have := (h.keys e.1).mp (by rw [dget_cons]; simp)
          rw [hc] at this; simp [dget] at this
      refine ⟨[], ?_, ?_, ?_⟩
      · simp [hr]
      · intro k; rw [hc]; simp [cnt, ind, dget]
      · intro cl hcl; simp at hcl
    | some e =>
      have hmem := minEntry_mem col e hm
      have he : dget col e.1 = some e.2 := dget_of_mem col h.wfc e hmem
      obtain ⟨he2, hne⟩ := h.symc e.1 e.2 he
      have hcol1 : ∀ k, dget (ddel col e.1) k = if k = e.1 then none else dget col k := dget_ddel col e.1
      have hhead : Head (ddel col e.1) row e.1 e.2 := by
        refine ⟨wf_ddel _ _ h.wfc, ⟨e.1, ?_, ?_⟩, ?_, h.symr, ?_, ?_⟩
        · rw [hcol1, if_neg (fun hh => hne hh.symm)]; exact he2
        · rw [hcol1, if_pos rfl]
        · intro a b ha2 hab
          rw [hcol1] at hab
          by_cases ha1 : a = e.1
          · rw [if_pos ha1] at hab; cases hab
          · rw [if_neg ha1] at hab
            obtain ⟨hba, hab'⟩ := h.symc a b hab
            refine ⟨?_, hab'⟩
            rw [hcol1]
            have : b ≠ e.1 := by
              intro hh; rw [hh, he] at hba; exact ha2 (Option.some.inj hba).symm
            rw [if_neg this]; exact hba
        · intro k
          rw [h.keys k, hcol1]
          by_cases hk : k = e.1
          · simp [hk, he]
          · simp [hk]
        · rw [hcol1, if_pos rfl]
      obtain ⟨vs, col', row', hw, hgood, hodd, hcnt, hlen⟩ :=
        walk_spec (col.length + 1) [e.1] e.1 e.2 _ _ hhead (by have := length_ddel_le col e.1; omega)
      simp only [hw]
      have hlast : ([e.1] ++ vs ++ [e.1]).getLast? = some e.1 := List.getLast?_concat
      have hdrop : ([e.1] ++ vs ++ [e.1]).dropLast = [e.1] ++ vs := by
        rw [List.dropLast_concat]
      have hlt : col'.length < F := by
        have := length_ddel_lt col e.1 (by rw [he]; rfl)
        omega
      obtain ⟨cls, hcl, hcnt', heven⟩ := ih col' row' (acc ++ [[e.1] ++ vs]) hgood hlt
      have hev : ([e.1] ++ vs).length % 2 = 0 := by
        simp only [List.length_append, List.length_cons, List.length_nil]; omega
      refine ⟨([e.1] ++ vs) :: cls, ?_, ?_, ?_⟩
      · rw [if_neg (by rw [hlast]; simp), hdrop, if_neg (by omega), hcl]
        simp
      · intro k
        rw [List.flatten_cons, cnt_append, cnt_append, hcnt' k, cnt_single]
        have := hcnt k
        rw [ind_ddel] at this
        by_cases hk : k = e.1
        · rw [hk] at this ⊢
          rw [if_pos rfl] at this
          rw [if_pos rfl, ind_of_some col e.1 e.2 he]; omega
        · rw [if_neg hk] at this
          rw [if_neg (fun hh : e.1 = k => hk hh.symm)]; omega
      · intro cl hcl'
        rcases List.mem_cons.mp hcl' with rfl | h'
        · exact hev
        · exact heven cl h'

end Qec.SmwpmL
