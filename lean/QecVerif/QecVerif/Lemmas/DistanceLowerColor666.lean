/-
  C08 — colour 6.6.6 code, all odd sizes: the lower bound `size ≤ wt e` for every non-trivial logical `e`.

  The "disjoint translates" argument of the other families cannot work here: an `n`-qubit code with `L` pairwise
  disjoint representatives of weight `≥ L` needs `n ≥ L²`, but `n = (3L²+1)/4`.  The proof is a different one.

  (A) Combinatorial core.  Let `ψ` be any 0/1 function on the plaquettes of the triangle with `bound = 3m`
      (`L = 2m+1`), `cov ψ s` the parity of the number of selected plaquettes around site `s`.  Then at least
      `2m+1` sites have EVEN coverage (`core`).  Induction on `m`: restricting `ψ` to the rows `≤ 3m` gives a
      configuration of the smaller triangle (same sites, same plaquettes: the lattice of size `L-2` is the top of
      the lattice of size `L`); rows `< 3m` are covered identically, and the last row of the small triangle plus
      the three new rows `3m+1 … 3m+3` contain at least two more evenly covered sites than the last row of the
      small triangle had.  That strip inequality is a transfer-matrix argument along the strip: the strip is cut
      into blocks of three columns, the cost of a block depends on 8 plaquette bits, and an explicit potential
      `phi` on the 3-bit interface makes every block inequality (`block_ineq`, 256 cases) and the closing
      inequality (`final_ineq`) decidable.
  (B) Bridge.  If `e` commutes with all stabilizer generators and anticommutes with the supplied logical of type
      `z`, then `e ⊕ (all-ones of the opposite type) [⊕ all-ones of type z]` commutes with every generator and
      both logicals (plaquettes have even weight, the logical has odd weight `L`), so by normaliser completeness
      (C07: `ValidCode` ⇒ `normaliser_complete_stab`) it is a product of generators: the relevant bit of `e` at
      a site is the complement of the coverage parity of the selected plaquettes.  Hence `wt e ≥` number of
      evenly covered sites `≥ L`.
-/
import QecVerif.Lemmas.DistanceLower
import QecVerif.Lemmas.Lattice.Color666Code
import QecVerif.Lemmas.Normaliser
namespace Qec.DistLower.Color666
open Qec Qec.Color666 Qec.Symp Qec.Color666Code Qec.Distance Qec.DistLower

/-! ### A. the combinatorial core -/

/-- coverage parity of site `s`: XOR of `ψ` over the six index positions whose plaquette would contain `s` -/
def cov (ψ : Int × Int → Bool) (s : Int × Int) : Bool :=
  ψ (s.1 - 1, s.2 - 1) ^^ (ψ (s.1 - 1, s.2) ^^ (ψ (s.1, s.2 - 1) ^^ (ψ (s.1, s.2 + 1) ^^
    (ψ (s.1 + 1, s.2) ^^ ψ (s.1 + 1, s.2 + 1)))))

/-- `ψ` selects only plaquettes of the triangle with bound `b` -/
def Supp (b : Int) (ψ : Int × Int → Bool) : Prop :=
  ∀ q, ψ q = true → 0 ≤ q.2 ∧ q.2 ≤ q.1 ∧ q.1 ≤ b ∧ (q.1 + q.2) % 3 = 2

def tb (b : Bool) : Nat := if b then 0 else 1
/-- 1 if site `s` is evenly covered -/
def t (ψ : Int × Int → Bool) (s : Int × Int) : Nat := tb (cov ψ s)

def sumN (f : Nat → Nat) : Nat → Nat
  | 0 => 0
  | k + 1 => sumN f k + f k

theorem sumN_congr (f g : Nat → Nat) (h : ∀ k, f k = g k) (n : Nat) : sumN f n = sumN g n := by
  induction n with
  | zero => rfl
  | succ n ih => simp only [sumN, ih, h]

/-- evenly covered sites of a row `a ≡ 0 (mod 3)` with `3m+1` columns: sites at columns `3k, 3k+1` and `3m` -/
def row0 (ψ : Int × Int → Bool) (a : Int) (m : Nat) : Nat :=
  sumN (fun k => t ψ (a, 3 * (k : Int)) + t ψ (a, 3 * (k : Int) + 1)) m + t ψ (a, 3 * (m : Int))
/-- row `a ≡ 1`: sites at columns `3k, 3k+2` (k < m) and `3m` -/
def row1 (ψ : Int × Int → Bool) (a : Int) (m : Nat) : Nat :=
  sumN (fun k => t ψ (a, 3 * (k : Int)) + t ψ (a, 3 * (k : Int) + 2)) m + t ψ (a, 3 * (m : Int))
/-- row `a ≡ 2`: sites at columns `3k+1, 3k+2` (k ≤ m) -/
def row2 (ψ : Int × Int → Bool) (a : Int) (m : Nat) : Nat :=
  sumN (fun k => t ψ (a, 3 * (k : Int) + 1) + t ψ (a, 3 * (k : Int) + 2)) (m + 1)

/-- evenly covered sites in rows `< 3m` -/
def inner (ψ : Int × Int → Bool) : Nat → Nat
  | 0 => 0
  | m + 1 => inner ψ m + row0 ψ (3 * (m : Int)) m + row1 ψ (3 * (m : Int) + 1) m + row2 ψ (3 * (m : Int) + 2) m

/-- evenly covered sites of the triangle with bound `3m` -/
def W (ψ : Int × Int → Bool) (m : Nat) : Nat := inner ψ m + row0 ψ (3 * (m : Int)) m

theorem t_congr (ψ ψ' : Int × Int → Bool) (s : Int × Int) (h : ∀ q : Int × Int, q.1 ≤ s.1 + 1 → ψ q = ψ' q) :
    t ψ s = t ψ' s := by
  unfold t cov
  rw [h (s.1 - 1, s.2 - 1) (by dsimp only; omega), h (s.1 - 1, s.2) (by dsimp only; omega),
    h (s.1, s.2 - 1) (by dsimp only; omega), h (s.1, s.2 + 1) (by dsimp only; omega),
    h (s.1 + 1, s.2) (by dsimp only; omega), h (s.1 + 1, s.2 + 1) (by dsimp only; omega)]

theorem inner_congr (ψ ψ' : Int × Int → Bool) (m : Nat) (h : ∀ q : Int × Int, q.1 ≤ 3 * (m : Int) → ψ q = ψ' q) :
    inner ψ m = inner ψ' m := by
  induction m with
  | zero => rfl
  | succ m ih =>
    have hq : ∀ (r c : Int), r ≤ 3 * (m : Int) + 2 → t ψ (r, c) = t ψ' (r, c) := by
      intro r c hr
      apply t_congr
      intro q hq
      apply h
      push_cast
      dsimp only at hq
      omega
    have e0 : row0 ψ (3 * (m : Int)) m = row0 ψ' (3 * (m : Int)) m := by
      unfold row0
      rw [sumN_congr _ (fun k => t ψ' (3 * (m : Int), 3 * (k : Int)) + t ψ' (3 * (m : Int), 3 * (k : Int) + 1))
        (fun k => by rw [hq _ _ (by omega), hq _ _ (by omega)]), hq _ _ (by omega)]
    have e1 : row1 ψ (3 * (m : Int) + 1) m = row1 ψ' (3 * (m : Int) + 1) m := by
      unfold row1
      rw [sumN_congr _ (fun k => t ψ' (3 * (m : Int) + 1, 3 * (k : Int)) + t ψ' (3 * (m : Int) + 1, 3 * (k : Int) + 2))
        (fun k => by rw [hq _ _ (by omega), hq _ _ (by omega)]), hq _ _ (by omega)]
    have e2 : row2 ψ (3 * (m : Int) + 2) m = row2 ψ' (3 * (m : Int) + 2) m := by
      unfold row2
      rw [sumN_congr _ (fun k => t ψ' (3 * (m : Int) + 2, 3 * (k : Int) + 1) + t ψ' (3 * (m : Int) + 2, 3 * (k : Int) + 2))
        (fun k => by rw [hq _ _ (by omega), hq _ _ (by omega)])]
    simp only [inner]
    rw [ih (fun q hq' => h q (by push_cast; omega)), e0, e1, e2]

/-- a site with `(r + c) % 3 = 0` lies in the plaquettes `(r-1,c)`, `(r,c-1)`, `(r+1,c+1)` -/
theorem cov_res0 (ψ : Int × Int → Bool) (hnp : ∀ r c : Int, (r + c) % 3 ≠ 2 → ψ (r, c) = false) (r c : Int)
    (h : (r + c) % 3 = 0) : cov ψ (r, c) = (ψ (r - 1, c) ^^ (ψ (r, c - 1) ^^ ψ (r + 1, c + 1))) := by
  unfold cov
  dsimp only
  rw [hnp (r - 1) (c - 1) (by omega), hnp r (c + 1) (by omega), hnp (r + 1) c (by omega)]
  simp

/-- a site with `(r + c) % 3 = 1` lies in the plaquettes `(r-1,c-1)`, `(r,c+1)`, `(r+1,c)` -/
theorem cov_res1 (ψ : Int × Int → Bool) (hnp : ∀ r c : Int, (r + c) % 3 ≠ 2 → ψ (r, c) = false) (r c : Int)
    (h : (r + c) % 3 = 1) : cov ψ (r, c) = (ψ (r - 1, c - 1) ^^ (ψ (r, c + 1) ^^ ψ (r + 1, c))) := by
  unfold cov
  dsimp only
  rw [hnp (r - 1) c (by omega), hnp r (c - 1) (by omega), hnp (r + 1) (c + 1) (by omega)]
  simp

/-- the potential on the interface `(ψ (a, c-1), ψ (a+3, c-1), ψ (a+2, c))` between two blocks of the strip -/
def phi (γp gp ρ : Bool) : Nat :=
  match γp, gp, ρ with
  | false, false, _ => 0
  | false, true, _ => 1
  | true, false, _ => 1
  | true, true, false => 2
  | true, true, true => 0

/-- **one block of the strip** (8 sites, 8 plaquette bits): new evenly covered sites plus the potential before
    the block is at least the old evenly covered sites plus the potential after it -/
theorem block_ineq (γp gp ρ β ρ' γ g ρn : Bool) :
    tb (ρ' ^^ (γp ^^ false)) + tb (ρ' ^^ (γ ^^ false)) + phi γ g ρn ≤
      tb (ρ' ^^ (γp ^^ β)) + tb (ρ' ^^ (γ ^^ β)) + (tb (γp ^^ (β ^^ ρ)) + tb (γ ^^ (β ^^ ρn))) +
        (tb (β ^^ (ρ ^^ g)) + tb (β ^^ (ρn ^^ g))) + (tb (ρ ^^ (gp ^^ false)) + tb (ρ ^^ (g ^^ false))) +
        phi γp gp ρ := by
  cases γp <;> cases gp <;> cases ρ <;> cases β <;> cases ρ' <;> cases γ <;> cases g <;> cases ρn <;> decide

/-- **the closing block** (the last column block and the corner): at least two more -/
theorem final_ineq (γp gp ρ β g : Bool) :
    tb (false ^^ (γp ^^ false)) + 2 ≤
      tb (false ^^ (γp ^^ β)) + tb (γp ^^ (β ^^ ρ)) + (tb (β ^^ (ρ ^^ g)) + tb (β ^^ (false ^^ g))) +
        (tb (ρ ^^ (gp ^^ false)) + tb (ρ ^^ (g ^^ false))) + tb (false ^^ (g ^^ false)) + phi γp gp ρ := by
  cases γp <;> cases gp <;> cases ρ <;> cases β <;> cases g <;> decide

/-- the restriction of `ψ` to the rows `≤ b` -/
def restrict (b : Int) (ψ : Int × Int → Bool) : Int × Int → Bool := fun q => ψ q && decide (q.1 ≤ b)

theorem supp_restrict (b : Int) (ψ : Int × Int → Bool) (h : Supp (b + 3) ψ) : Supp b (restrict b ψ) := by
  intro q hq
  simp only [restrict, Bool.and_eq_true, decide_eq_true_eq] at hq
  have := h q hq.1
  omega

section Step
variable (ψ : Int × Int → Bool) (a : Int) (ha : a % 3 = 0)
  (hz : ∀ r c : Int, ¬ (0 ≤ c ∧ c ≤ r ∧ r ≤ a + 3 ∧ (r + c) % 3 = 2) → ψ (r, c) = false)
include ha hz

omit ha in
theorem hnp_of_hz : ∀ r c : Int, (r + c) % 3 ≠ 2 → ψ (r, c) = false := fun r c h => hz r c (by omega)

omit ha in
theorem hnp_restrict : ∀ r c : Int, (r + c) % 3 ≠ 2 → restrict a ψ (r, c) = false := fun r c h => by
  simp only [restrict, hz r c (by omega), Bool.false_and]

/-- the interface potential at column `c` -/
def sfun (ψ : Int × Int → Bool) (a c : Int) : Nat := phi (ψ (a, c - 1)) (ψ (a + 3, c - 1)) (ψ (a + 2, c))

theorem block_step (c : Int) (hc : c % 3 = 0) :
    t (restrict a ψ) (a, c) + t (restrict a ψ) (a, c + 1) + sfun ψ a (c + 3) ≤
      t ψ (a, c) + t ψ (a, c + 1) + (t ψ (a + 1, c) + t ψ (a + 1, c + 2)) +
        (t ψ (a + 2, c + 1) + t ψ (a + 2, c + 2)) + (t ψ (a + 3, c) + t ψ (a + 3, c + 1)) + sfun ψ a c := by
  have hnp := hnp_of_hz ψ a hz
  have hnp' := hnp_restrict ψ a hz
  have r1 : restrict a ψ (a - 1, c) = ψ (a - 1, c) := by simp [restrict]
  have r2 : restrict a ψ (a, c - 1) = ψ (a, c - 1) := by simp [restrict]
  have r3 : restrict a ψ (a, c + 2) = ψ (a, c + 2) := by simp [restrict]
  have r4 : ∀ x : Int, restrict a ψ (a + 1, x) = false := by intro x; simp [restrict]
  unfold t sfun
  rw [cov_res0 _ hnp' a c (by omega), cov_res1 _ hnp' a (c + 1) (by omega),
    cov_res0 _ hnp a c (by omega), cov_res1 _ hnp a (c + 1) (by omega),
    cov_res1 _ hnp (a + 1) c (by omega), cov_res0 _ hnp (a + 1) (c + 2) (by omega),
    cov_res0 _ hnp (a + 2) (c + 1) (by omega), cov_res1 _ hnp (a + 2) (c + 2) (by omega),
    cov_res0 _ hnp (a + 3) c (by omega), cov_res1 _ hnp (a + 3) (c + 1) (by omega)]
  have e1 : a + 1 - 1 = a := by omega
  have e2 : c + 1 - 1 = c := by omega
  have e3 : a + 2 - 1 = a + 1 := by omega
  have e4 : a + 3 - 1 = a + 2 := by omega
  have e5 : a + 1 + 1 = a + 2 := by omega
  have e6 : a + 2 + 1 = a + 3 := by omega
  have e7 : c + 2 - 1 = c + 1 := by omega
  have e8 : c + 2 + 1 = c + 3 := by omega
  have e9 : c + 1 + 1 = c + 2 := by omega
  have e10 : c + 3 - 1 = c + 2 := by omega
  simp only [e1, e2, e3, e4, e5, e6, e7, e8, e9, e10]
  rw [r1, r2, r3, r4, hz (a + 3 + 1) (c + 1) (by omega)]
  exact block_ineq (ψ (a, c - 1)) (ψ (a + 3, c - 1)) (ψ (a + 2, c)) (ψ (a + 1, c + 1)) (ψ (a - 1, c))
    (ψ (a, c + 2)) (ψ (a + 3, c + 2)) (ψ (a + 2, c + 3))

/-- the closing block: the last column block of the strip and the corner site `(a+3, a+3)` -/
theorem final_step :
    t (restrict a ψ) (a, a) + 2 ≤
      t ψ (a, a) + t ψ (a + 1, a) + (t ψ (a + 2, a + 1) + t ψ (a + 2, a + 2)) +
        (t ψ (a + 3, a) + t ψ (a + 3, a + 1)) + t ψ (a + 3, a + 3) + sfun ψ a a := by
  have hnp := hnp_of_hz ψ a hz
  have hnp' := hnp_restrict ψ a hz
  have r1 : restrict a ψ (a - 1, a) = false := by simp [restrict, hz (a - 1) a (by omega)]
  have r2 : restrict a ψ (a, a - 1) = ψ (a, a - 1) := by simp [restrict]
  have r4 : ∀ x : Int, restrict a ψ (a + 1, x) = false := by intro x; simp [restrict]
  unfold t sfun
  rw [cov_res0 _ hnp' a a (by omega),
    cov_res0 _ hnp a a (by omega), cov_res1 _ hnp (a + 1) a (by omega),
    cov_res0 _ hnp (a + 2) (a + 1) (by omega), cov_res1 _ hnp (a + 2) (a + 2) (by omega),
    cov_res0 _ hnp (a + 3) a (by omega), cov_res1 _ hnp (a + 3) (a + 1) (by omega),
    cov_res0 _ hnp (a + 3) (a + 3) (by omega)]
  have e1 : a + 1 - 1 = a := by omega
  have e3 : a + 2 - 1 = a + 1 := by omega
  have e4 : a + 3 - 1 = a + 2 := by omega
  have e5 : a + 1 + 1 = a + 2 := by omega
  have e6 : a + 2 + 1 = a + 3 := by omega
  simp only [e1, e3, e4, e5, e6]
  rw [r1, r2, r4, hz (a - 1) a (by omega), hz (a + 2) (a + 3) (by omega), hz (a + 3 + 1) (a + 1) (by omega),
    hz (a + 3 + 1) (a + 3 + 1) (by omega)]
  exact final_ineq (ψ (a, a - 1)) (ψ (a + 3, a - 1)) (ψ (a + 2, a)) (ψ (a + 1, a + 1)) (ψ (a + 3, a + 2))

/-- **the strip inequality**: the last row of the small triangle and the three new rows together contain at
    least two more evenly covered sites than the last row of the small triangle had -/
theorem strip_aux (m : Nat) (ha' : a = 3 * (m : Int)) :
    row0 (restrict a ψ) a m + 2 ≤
      row0 ψ a m + row1 ψ (a + 1) m + row2 ψ (a + 2) m +
        (sumN (fun k => t ψ (a + 3, 3 * (k : Int)) + t ψ (a + 3, 3 * (k : Int) + 1)) (m + 1) + t ψ (a + 3, a + 3)) := by
  have K : ∀ k : Nat,
      sumN (fun k => t (restrict a ψ) (a, 3 * (k : Int)) + t (restrict a ψ) (a, 3 * (k : Int) + 1)) k +
          sfun ψ a (3 * (k : Int)) ≤
        sumN (fun k => t ψ (a, 3 * (k : Int)) + t ψ (a, 3 * (k : Int) + 1)) k +
          sumN (fun k => t ψ (a + 1, 3 * (k : Int)) + t ψ (a + 1, 3 * (k : Int) + 2)) k +
          sumN (fun k => t ψ (a + 2, 3 * (k : Int) + 1) + t ψ (a + 2, 3 * (k : Int) + 2)) k +
          sumN (fun k => t ψ (a + 3, 3 * (k : Int)) + t ψ (a + 3, 3 * (k : Int) + 1)) k := by
    intro k
    induction k with
    | zero =>
      simp only [sumN, sfun]
      rw [hz a (3 * ((0 : Nat) : Int) - 1) (by omega), hz (a + 3) (3 * ((0 : Nat) : Int) - 1) (by omega)]
      simp [phi]
    | succ k ih =>
      have hb := block_step ψ a ha hz (3 * (k : Int)) (by omega)
      have e : (3 * ((k + 1 : Nat) : Int)) = 3 * (k : Int) + 3 := by push_cast; omega
      simp only [sumN]
      rw [e]
      omega
  have hf := final_step ψ a ha hz
  have hK := K m
  unfold row0 row1 row2
  simp only [sumN]
  rw [← ha'] at hK ⊢
  omega

end Step

/-- **one induction step**: a configuration on the triangle with bound `3m+3` has at least two more evenly
    covered sites than its restriction to the triangle with bound `3m` -/
theorem strip (m : Nat) (ψ : Int × Int → Bool) (hs : Supp (3 * (m : Int) + 3) ψ) :
    W (restrict (3 * (m : Int)) ψ) m + 2 ≤ W ψ (m + 1) := by
  have hz : ∀ r c : Int, ¬ (0 ≤ c ∧ c ≤ r ∧ r ≤ 3 * (m : Int) + 3 ∧ (r + c) % 3 = 2) → ψ (r, c) = false := by
    intro r c h
    cases hv : ψ (r, c) with
    | false => rfl
    | true => exact absurd (hs (r, c) hv) h
  have hin : inner (restrict (3 * (m : Int)) ψ) m = inner ψ m :=
    inner_congr _ _ m (fun q hq => by simp [restrict, hq])
  have e3 : (3 * ((m + 1 : Nat) : Int)) = 3 * (m : Int) + 3 := by push_cast; omega
  have h := strip_aux ψ (3 * (m : Int)) (by omega) hz m rfl
  unfold W
  simp only [inner]
  rw [hin, e3]
  unfold row0 at h ⊢
  rw [e3]
  omega

/-- **the combinatorial core**: whichever plaquettes of the triangle with bound `3m` are selected, at least
    `2m+1` sites are covered an even number of times -/
theorem core (m : Nat) : ∀ ψ : Int × Int → Bool, Supp (3 * (m : Int)) ψ → 2 * m + 1 ≤ W ψ m := by
  induction m with
  | zero =>
    intro ψ hs
    have hz : ∀ q : Int × Int, ψ q = false := by
      intro q
      cases hv : ψ q with
      | false => rfl
      | true => have := hs q hv; omega
    simp [W, inner, row0, sumN, t, cov, hz, tb]
  | succ m ih =>
    intro ψ hs
    have hs' : Supp (3 * (m : Int) + 3) ψ := by
      intro q hq
      have := hs q hq
      push_cast at this
      omega
    have h1 := ih (restrict (3 * (m : Int)) ψ) (supp_restrict _ ψ hs')
    have h2 := strip m ψ hs'
    omega

/-! ### B. the site list behind `W`, and the bridge to operators -/

def blocksL (f : Nat → List (Int × Int)) : Nat → List (Int × Int)
  | 0 => []
  | k + 1 => blocksL f k ++ f k

theorem mem_blocksL (f : Nat → List (Int × Int)) (k : Nat) (s : Int × Int) :
    s ∈ blocksL f k ↔ ∃ j, j < k ∧ s ∈ f j := by
  induction k with
  | zero => simp [blocksL]
  | succ k ih =>
    simp only [blocksL, List.mem_append, ih]
    constructor
    · rintro (⟨j, hj, h⟩ | h)
      · exact ⟨j, by omega, h⟩
      · exact ⟨k, by omega, h⟩
    · rintro ⟨j, hj, h⟩
      by_cases hjk : j = k
      · subst hjk; exact Or.inr h
      · exact Or.inl ⟨j, by omega, h⟩

theorem nodup_blocksL (f : Nat → List (Int × Int)) (hnd : ∀ j, (f j).Nodup)
    (hdisj : ∀ i j s, i < j → s ∈ f i → s ∉ f j) (k : Nat) : (blocksL f k).Nodup := by
  induction k with
  | zero => exact List.nodup_nil
  | succ k ih =>
    simp only [blocksL]
    rw [List.nodup_append]
    refine ⟨ih, hnd k, ?_⟩
    intro x hx y hy hxy
    subst hxy
    obtain ⟨j, hj, h⟩ := (mem_blocksL f k x).mp hx
    exact hdisj j k x hj h hy

/-- sum of `t ψ` over a list of sites -/
def cntL (ψ : Int × Int → Bool) (l : List (Int × Int)) : Nat := (l.map (t ψ)).sum

theorem cntL_append (ψ : Int × Int → Bool) (l1 l2 : List (Int × Int)) :
    cntL ψ (l1 ++ l2) = cntL ψ l1 + cntL ψ l2 := by
  simp [cntL]

theorem cntL_blocksL (ψ : Int × Int → Bool) (f : Nat → List (Int × Int)) (k : Nat) :
    cntL ψ (blocksL f k) = sumN (fun j => cntL ψ (f j)) k := by
  induction k with
  | zero => rfl
  | succ k ih => simp only [blocksL, cntL_append, ih, sumN]

/-- two sites `(a, 3j+u)`, `(a, 3j+v)` per block -/
def pairL (a u v : Int) : Nat → List (Int × Int) := fun j => [(a, 3 * (j : Int) + u), (a, 3 * (j : Int) + v)]

theorem nodup_pairL (a u v : Int) (hu : 0 ≤ u) (huv : u < v) (hv : v ≤ 2) (k : Nat) :
    (blocksL (pairL a u v) k).Nodup := by
  apply nodup_blocksL
  · intro j
    simp only [pairL, List.nodup_cons, List.mem_singleton, List.not_mem_nil, not_false_eq_true, List.nodup_nil,
      and_true, Prod.mk.injEq, true_and]
    omega
  · intro i j s hij h1 h2
    simp only [pairL, List.mem_cons, List.not_mem_nil, or_false] at h1 h2
    rcases h1 with rfl | rfl <;> rcases h2 with h2 | h2 <;> simp only [Prod.mk.injEq, true_and] at h2 <;> omega

theorem mem_pairL (a u v : Int) (k : Nat) (s : Int × Int) (h : s ∈ blocksL (pairL a u v) k) :
    s.1 = a ∧ ∃ j : Nat, j < k ∧ (s.2 = 3 * (j : Int) + u ∨ s.2 = 3 * (j : Int) + v) := by
  obtain ⟨j, hj, h⟩ := (mem_blocksL _ k s).mp h
  simp only [pairL, List.mem_cons, List.not_mem_nil, or_false] at h
  rcases h with rfl | rfl
  · exact ⟨rfl, j, hj, Or.inl rfl⟩
  · exact ⟨rfl, j, hj, Or.inr rfl⟩

def row0L (a : Int) (m : Nat) : List (Int × Int) := blocksL (pairL a 0 1) m ++ [(a, 3 * (m : Int))]
def row1L (a : Int) (m : Nat) : List (Int × Int) := blocksL (pairL a 0 2) m ++ [(a, 3 * (m : Int))]
def row2L (a : Int) (m : Nat) : List (Int × Int) := blocksL (pairL a 1 2) (m + 1)

def innerL : Nat → List (Int × Int)
  | 0 => []
  | m + 1 => innerL m ++ row0L (3 * (m : Int)) m ++ row1L (3 * (m : Int) + 1) m ++ row2L (3 * (m : Int) + 2) m

/-- the sites of the triangle with bound `3m`, in the order of `W` -/
def WL (m : Nat) : List (Int × Int) := innerL m ++ row0L (3 * (m : Int)) m

theorem cnt_row0L (ψ : Int × Int → Bool) (a : Int) (m : Nat) : cntL ψ (row0L a m) = row0 ψ a m := by
  simp only [row0L, row0, cntL_append, cntL_blocksL]
  simp [cntL, pairL]

theorem cnt_row1L (ψ : Int × Int → Bool) (a : Int) (m : Nat) : cntL ψ (row1L a m) = row1 ψ a m := by
  simp only [row1L, row1, cntL_append, cntL_blocksL]
  simp [cntL, pairL]

theorem cnt_row2L (ψ : Int × Int → Bool) (a : Int) (m : Nat) : cntL ψ (row2L a m) = row2 ψ a m := by
  simp only [row2L, row2, cntL_blocksL]
  simp [cntL, pairL]

theorem cnt_innerL (ψ : Int × Int → Bool) (m : Nat) : cntL ψ (innerL m) = inner ψ m := by
  induction m with
  | zero => rfl
  | succ m ih => simp only [innerL, inner, cntL_append, ih, cnt_row0L, cnt_row1L, cnt_row2L]

theorem cnt_WL (ψ : Int × Int → Bool) (m : Nat) : cntL ψ (WL m) = W ψ m := by
  simp only [WL, W, cntL_append, cnt_innerL, cnt_row0L]

/-- a site of the triangle with bound `b` -/
def SiteB (b : Int) (s : Int × Int) : Prop := 0 ≤ s.2 ∧ s.2 ≤ s.1 ∧ s.1 ≤ b ∧ (s.1 + s.2) % 3 ≠ 2

theorem mem_row0L (a : Int) (m : Nat) (ha : a = 3 * (m : Int)) (s : Int × Int) (h : s ∈ row0L a m) :
    s.1 = a ∧ SiteB a s := by
  simp only [row0L, List.mem_append, List.mem_singleton] at h
  rcases h with h | rfl
  · obtain ⟨h1, j, hj, h2⟩ := mem_pairL _ _ _ _ _ h
    refine ⟨h1, ?_⟩
    unfold SiteB
    omega
  · refine ⟨rfl, ?_⟩
    unfold SiteB
    simp only
    omega

theorem mem_row1L (a : Int) (m : Nat) (ha : a = 3 * (m : Int) + 1) (s : Int × Int) (h : s ∈ row1L a m) :
    s.1 = a ∧ SiteB a s := by
  simp only [row1L, List.mem_append, List.mem_singleton] at h
  rcases h with h | rfl
  · obtain ⟨h1, j, hj, h2⟩ := mem_pairL _ _ _ _ _ h
    refine ⟨h1, ?_⟩
    unfold SiteB
    omega
  · refine ⟨rfl, ?_⟩
    unfold SiteB
    simp only
    omega

theorem mem_row2L (a : Int) (m : Nat) (ha : a = 3 * (m : Int) + 2) (s : Int × Int) (h : s ∈ row2L a m) :
    s.1 = a ∧ SiteB a s := by
  obtain ⟨h1, j, hj, h2⟩ := mem_pairL _ _ _ _ _ h
  refine ⟨h1, ?_⟩
  unfold SiteB
  omega

theorem nodup_row0L (a : Int) (m : Nat) : (row0L a m).Nodup := by
  unfold row0L
  rw [List.nodup_append]
  refine ⟨nodup_pairL a 0 1 (by omega) (by omega) (by omega) m, List.nodup_singleton _, ?_⟩
  intro x hx y hy hxy
  subst hxy
  obtain ⟨_, j, hj, h2⟩ := mem_pairL _ _ _ _ _ hx
  rw [List.mem_singleton.mp hy] at h2
  simp only at h2
  omega

theorem nodup_row1L (a : Int) (m : Nat) : (row1L a m).Nodup := by
  unfold row1L
  rw [List.nodup_append]
  refine ⟨nodup_pairL a 0 2 (by omega) (by omega) (by omega) m, List.nodup_singleton _, ?_⟩
  intro x hx y hy hxy
  subst hxy
  obtain ⟨_, j, hj, h2⟩ := mem_pairL _ _ _ _ _ hx
  rw [List.mem_singleton.mp hy] at h2
  simp only at h2
  omega

theorem nodup_row2L (a : Int) (m : Nat) : (row2L a m).Nodup :=
  nodup_pairL a 1 2 (by omega) (by omega) (by omega) (m + 1)

theorem mem_innerL (m : Nat) (s : Int × Int) (h : s ∈ innerL m) : s.1 < 3 * (m : Int) ∧ SiteB s.1 s := by
  induction m with
  | zero => simp [innerL] at h
  | succ m ih =>
    simp only [innerL, List.mem_append] at h
    rcases h with ((h | h) | h) | h
    · have := ih h; exact ⟨by push_cast; omega, this.2⟩
    · have := mem_row0L _ m rfl s h; rw [this.1]; exact ⟨by push_cast; omega, this.1 ▸ this.2⟩
    · have := mem_row1L _ m rfl s h; rw [this.1]; exact ⟨by push_cast; omega, this.1 ▸ this.2⟩
    · have := mem_row2L _ m rfl s h; rw [this.1]; exact ⟨by push_cast; omega, this.1 ▸ this.2⟩

theorem nodup_innerL (m : Nat) : (innerL m).Nodup := by
  induction m with
  | zero => exact List.nodup_nil
  | succ m ih =>
    simp only [innerL]
    rw [List.nodup_append, List.nodup_append, List.nodup_append]
    refine ⟨⟨⟨ih, nodup_row0L _ m, ?_⟩, nodup_row1L _ m, ?_⟩, nodup_row2L _ m, ?_⟩
    · intro x hx y hy hxy
      subst hxy
      have h1 := mem_innerL m x hx
      have h2 := mem_row0L _ m rfl x hy
      omega
    · intro x hx y hy hxy
      subst hxy
      have h2 := mem_row1L _ m rfl x hy
      rcases List.mem_append.mp hx with hx | hx
      · have h1 := mem_innerL m x hx; omega
      · have h1 := mem_row0L _ m rfl x hx; omega
    · intro x hx y hy hxy
      subst hxy
      have h2 := mem_row2L _ m rfl x hy
      rcases List.mem_append.mp hx with hx | hx
      · rcases List.mem_append.mp hx with hx | hx
        · have h1 := mem_innerL m x hx; omega
        · have h1 := mem_row0L _ m rfl x hx; omega
      · have h1 := mem_row1L _ m rfl x hx; omega

theorem nodup_WL (m : Nat) : (WL m).Nodup := by
  unfold WL
  rw [List.nodup_append]
  refine ⟨nodup_innerL m, nodup_row0L _ m, ?_⟩
  intro x hx y hy hxy
  subst hxy
  have h1 := mem_innerL m x hx
  have h2 := mem_row0L _ m rfl x hy
  omega

theorem mem_WL (m : Nat) (s : Int × Int) (h : s ∈ WL m) : SiteB (3 * (m : Int)) s := by
  rcases List.mem_append.mp h with h | h
  · have := mem_innerL m s h
    unfold SiteB at this ⊢
    omega
  · exact (mem_row0L _ m rfl s h).2

/-! ### C. from an operator to a plaquette selection -/

/-- the all-ones operator of one type: ones in the X half (`hf = false`) or in the Z half (`hf = true`) -/
def onesH (n : Nat) (hf : Bool) : BVec :=
  if hf then zeros n ++ List.replicate n true else List.replicate n true ++ zeros n

theorem onesH_length (n : Nat) (hf : Bool) : (onesH n hf).length = 2 * n := by
  cases hf <;> simp [onesH, zeros] <;> omega

theorem getD_onesH_same (n : Nat) (hf : Bool) (j : Nat) (hj : j < n) :
    (onesH n hf).getD (off n hf + j) false = true := by
  cases hf
  · simp [onesH, off, zeros, List.getD_eq_getElem?_getD, List.getElem?_append_left, hj]
  · simp [onesH, off, zeros, List.getD_eq_getElem?_getD, hj]

theorem getD_onesH_other (n : Nat) (hf : Bool) (j : Nat) (hj : j < n) :
    (onesH n hf).getD (off n (!hf) + j) false = false := by
  cases hf
  · simp [onesH, off, zeros, List.getD_eq_getElem?_getD, hj]
  · simp [onesH, off, zeros, List.getD_eq_getElem?_getD, List.getElem?_append_left, hj]

/-- `bsp` of an all-ones operator with a site operator: the parity of the in-lattice sites if the types differ -/
theorem bsp_onesH_siteop (L : Int) (h : Odd3 L) (hf z' : Bool) (l : List (Int × Int)) (hl : AllSites l) :
    bsp (onesH (nq L) hf) (sites L (opOf z') (identity L) l) =
      (decide (hf = !z') && xorSum l (fun rc => inBounds L rc.1 rc.2)) := by
  rw [sites_eq_gsites, identity_eq,
    bsp_gsites_right (nq L) (dom L) fl _ (onesH_length _ _) z' _ (Symp.zeros_length _) l
      (flatLt_of_allSites L h l hl), bsp_zeros_right, Bool.false_xor]
  by_cases hh : hf = !z'
  · subst hh
    rw [decide_eq_true rfl, Bool.true_and]
    apply xorSum_congr
    intro rc hrc
    by_cases hb : dom L rc = true
    · rw [getD_onesH_same _ _ _ (fl_lt L h rc (hl rc hrc) hb), Bool.and_true]; rfl
    · have hb' : dom L rc = false := by simpa using hb
      rw [hb', Bool.false_and]; exact hb'.symm
  · have hh' : z' = hf := by cases hf <;> cases z' <;> simp_all
    subst hh'
    rw [decide_eq_false hh, Bool.false_and]
    apply xorSum_false
    intro rc hrc
    by_cases hb : dom L rc = true
    · rw [getD_onesH_other _ _ _ (fl_lt L h rc (hl rc hrc) hb), Bool.and_false]
    · have hb' : dom L rc = false := by simpa using hb
      rw [hb', Bool.false_and]

/-- every in-lattice plaquette has an even number of in-lattice sites -/
theorem par_plaq (L : Int) (p : Int × Int) (hp : RealP L p) :
    xorSum (plaquetteSites p.1 p.2) (fun rc => inBounds L rc.1 rc.2) = false := by
  obtain ⟨pr, pc⟩ := p
  unfold RealP at hp
  simp only at hp
  rw [xorSum_plaq]
  have e1 : inBounds L (pr - 1) (pc - 1) = decide (1 ≤ pc) := by
    rw [inBounds_eq_decide]; apply decide_eq_decide.mpr; omega
  have e2 : inBounds L (pr - 1) pc = decide (pc + 1 ≤ pr) := by
    rw [inBounds_eq_decide]; apply decide_eq_decide.mpr; omega
  have e3 : inBounds L pr (pc - 1) = decide (1 ≤ pc) := by
    rw [inBounds_eq_decide]; apply decide_eq_decide.mpr; omega
  have e4 : inBounds L pr (pc + 1) = decide (pc + 1 ≤ pr) := by
    rw [inBounds_eq_decide]; apply decide_eq_decide.mpr; omega
  have e5 : inBounds L (pr + 1) pc = decide (pr + 1 ≤ bound L) := by
    rw [inBounds_eq_decide]; apply decide_eq_decide.mpr; omega
  have e6 : inBounds L (pr + 1) (pc + 1) = decide (pr + 1 ≤ bound L) := by
    rw [inBounds_eq_decide]; apply decide_eq_decide.mpr; omega
  dsimp only
  rw [e1, e2, e3, e4, e5, e6]
  exact xor6_self _ _ _

/-- the logical column has an odd number of sites, all in the lattice -/
theorem par_logical (L : Int) (h : Odd3 L) :
    xorSum (logicalSites L) (fun rc => inBounds L rc.1 rc.2) = true := by
  have hb := bound_eq L h
  have e : xorSum (logicalSites L) (fun rc => inBounds L rc.1 rc.2) = xorSum (logicalSites L) (fun _ => true) := by
    apply xorSum_congr
    intro rc hrc
    unfold logicalSites at hrc
    rcases List.mem_map.mp (List.mem_filter.mp hrc).1 with ⟨i, hi, rfl⟩
    have hi' := List.mem_range.mp hi
    simp only
    rw [inBounds_eq_decide]
    apply decide_eq_true; unfold Odd3 at h; omega
  rw [e]
  unfold logicalSites
  rw [xorSum_filter_map_range_true]
  simp only
  rw [par_col0]
  apply decide_eq_true; unfold Odd3 at h; omega

/-- a coefficient list along a duplicate-free index list is a coefficient function -/
theorem exists_coeff {ι : Type} [DecidableEq ι] (idx : List ι) (hnd : idx.Nodup) :
    ∀ cs : List Bool, cs.length = idx.length → ∃ χ : ι → Bool, idx.map χ = cs := by
  induction idx with
  | nil => intro cs h; exact ⟨fun _ => false, by cases cs <;> simp_all⟩
  | cons i rest ih =>
    intro cs h
    cases cs with
    | nil => simp at h
    | cons c cs' =>
      obtain ⟨χ', hχ'⟩ := ih (List.nodup_cons.mp hnd).2 cs' (by simpa using h)
      refine ⟨fun x => if x = i then c else χ' x, ?_⟩
      simp only [List.map_cons, if_true]
      congr 1
      rw [← hχ']
      apply List.map_congr_left
      intro x hx
      have : x ≠ i := fun hxi => (List.nodup_cons.mp hnd).1 (hxi ▸ hx)
      simp [this]

theorem xorSum_and_xor {α : Type} (l : List α) (g d d' : α → Bool) :
    xorSum l (fun p => g p && (d p ^^ d' p)) =
      (xorSum l (fun p => g p && d p) ^^ xorSum l (fun p => g p && d' p)) := by
  rw [← xorSum_xor]
  apply xorSum_congr
  intro p _
  cases g p <;> simp

theorem xorSum_pick {α : Type} [DecidableEq α] (l : List α) (hnd : l.Nodup) (g : α → Bool) (a : α) :
    xorSum l (fun p => g p && decide (p = a)) = (decide (a ∈ l) && g a) := by
  induction l with
  | nil => simp
  | cons x l ih =>
    rw [xorSum_cons, ih (List.nodup_cons.mp hnd).2]
    by_cases hx : x = a
    · subst hx
      have : x ∉ l := (List.nodup_cons.mp hnd).1
      simp [this]
    · have hx' : ¬ a = x := fun h => hx h.symm
      simp [hx, hx']

theorem xorSum_targets {α : Type} [DecidableEq α] (l : List α) (hnd : l.Nodup) (g : α → Bool) (A : List α) :
    xorSum l (fun p => g p && xorSum A (fun a => decide (p = a))) =
      xorSum A (fun a => decide (a ∈ l) && g a) := by
  induction A with
  | nil => simp only [xorSum_nil, Bool.and_false]; exact xorSum_false _ _ (fun _ _ => rfl)
  | cons a A ih =>
    simp only [xorSum_cons]
    rw [xorSum_and_xor l g (fun p => decide (p = a)) (fun p => xorSum A (fun a => decide (p = a))), ih,
      xorSum_pick l hnd g a]

/-- the same with any Boolean membership test (independent of the `Decidable` instance in use) -/
theorem xorSum_targets' {α : Type} [DecidableEq α] (l : List α) (hnd : l.Nodup) (g : α → Bool) (A : List α)
    (mem : α → Bool) (hmem : ∀ a, mem a = true ↔ a ∈ l) :
    xorSum l (fun p => g p && xorSum A (fun a => decide (p = a))) = xorSum A (fun a => mem a && g a) := by
  rw [xorSum_targets l hnd g A]
  apply xorSum_congr
  intro a _
  congr 1
  by_cases h : a ∈ l
  · rw [(hmem a).mpr h]; exact decide_eq_true h
  · have : mem a = false := by
      cases hm : mem a with
      | false => rfl
      | true => exact absurd ((hmem a).mp hm) h
    rw [this]; exact decide_eq_false h

/-- the six index positions whose plaquette would contain the site `s`, in the order of `cov` -/
def nbrs (s : Int × Int) : List (Int × Int) :=
  [(s.1 - 1, s.2 - 1), (s.1 - 1, s.2), (s.1, s.2 - 1), (s.1, s.2 + 1), (s.1 + 1, s.2), (s.1 + 1, s.2 + 1)]

theorem cov_eq_nbrs (ψ : Int × Int → Bool) (s : Int × Int) : cov ψ s = xorSum (nbrs s) ψ := by
  simp [cov, nbrs]

theorem occ_eq_nbrs (p s : Int × Int) :
    occ (plaquetteSites p.1 p.2) s = xorSum (nbrs s) (fun a => decide (p = a)) := by
  obtain ⟨pr, pc⟩ := p
  obtain ⟨r, c⟩ := s
  simp only [occ, plaquetteSites, nbrs, xorSum_cons, xorSum_nil, Bool.xor_false, Prod.mk.injEq]
  have e1 : decide (pr - 1 = r ∧ pc - 1 = c) = decide (pr = r + 1 ∧ pc = c + 1) := by
    apply decide_eq_decide.mpr; omega
  have e2 : decide (pr - 1 = r ∧ pc = c) = decide (pr = r + 1 ∧ pc = c) := by
    apply decide_eq_decide.mpr; omega
  have e3 : decide (pr = r ∧ pc - 1 = c) = decide (pr = r ∧ pc = c + 1) := by
    apply decide_eq_decide.mpr; omega
  have e4 : decide (pr = r ∧ pc + 1 = c) = decide (pr = r ∧ pc = c - 1) := by
    apply decide_eq_decide.mpr; omega
  have e5 : decide (pr + 1 = r ∧ pc = c) = decide (pr = r - 1 ∧ pc = c) := by
    apply decide_eq_decide.mpr; omega
  have e6 : decide (pr + 1 = r ∧ pc + 1 = c) = decide (pr = r - 1 ∧ pc = c - 1) := by
    apply decide_eq_decide.mpr; omega
  rw [e1, e2, e3, e4, e5, e6]
  generalize decide (pr = r + 1 ∧ pc = c + 1) = d1
  generalize decide (pr = r + 1 ∧ pc = c) = d2
  generalize decide (pr = r ∧ pc = c + 1) = d3
  generalize decide (pr = r ∧ pc = c - 1) = d4
  generalize decide (pr = r - 1 ∧ pc = c) = d5
  generalize decide (pr = r - 1 ∧ pc = c - 1) = d6
  cases d1 <;> cases d2 <;> cases d3 <;> cases d4 <;> cases d5 <;> cases d6 <;> rfl

theorem cntL_eq_filter (ψ : Int × Int → Bool) (l : List (Int × Int)) :
    cntL ψ l = (l.filter (fun s => !cov ψ s)).length := by
  induction l with
  | nil => rfl
  | cons x l ih =>
    have : cntL ψ (x :: l) = t ψ x + cntL ψ l := by simp [cntL]
    rw [this, ih, List.filter_cons]
    cases hc : cov ψ x <;> simp [t, tb, hc]
    omega

/-- **the lower bound, one type**: an operator that commutes with every stabilizer generator and anticommutes
    with the supplied logical of type `z` has weight at least `L` -/
theorem lower_z (L : Int) (h : Odd3 L)
    (hvalid : ValidCode (nq L) 1 (stabilizers L) [logicalX L] [logicalZ L])
    (e : BVec) (he : e.length = 2 * nq L) (hcomm : commAll (stabilizers L) e = true) (z : Bool)
    (hanti : bsp e (sites L (opOf z) (identity L) (logicalSites L)) = true) : L.toNat ≤ wt e := by
  have hcs : ∀ s ∈ stabilizers L, bsp e s = false := (commAll_iff _ _).mp hcomm
  have hlS := allSites_logical L
  -- the correction in the half that is not looked at
  let w : BVec := if bsp e (sites L (opOf (!z)) (identity L) (logicalSites L)) then onesH (nq L) z else zeros (2 * nq L)
  have hw : w.length = 2 * nq L := by
    show (if _ then _ else _ : BVec).length = _
    split
    · exact onesH_length _ _
    · exact Symp.zeros_length _
  have hwbsp : ∀ (z' : Bool) (l : List (Int × Int)), AllSites l →
      bsp w (sites L (opOf z') (identity L) l) =
        (bsp e (sites L (opOf (!z)) (identity L) (logicalSites L)) &&
          (decide (z = !z') && xorSum l (fun rc => inBounds L rc.1 rc.2))) := by
    intro z' l hl
    show bsp (if _ then _ else _ : BVec) _ = _
    split
    · rename_i hb; rw [hb, Bool.true_and]; exact bsp_onesH_siteop L h z z' l hl
    · rename_i hb
      have hb' : bsp e (sites L (opOf (!z)) (identity L) (logicalSites L)) = false := by simpa using hb
      rw [hb', Bool.false_and, Symp.bsp_zeros_left]
  have hwbit : ∀ j, j < nq L → w.getD (off (nq L) (!z) + j) false = false := by
    intro j hj
    show (if _ then _ else _ : BVec).getD _ false = false
    split
    · exact getD_onesH_other _ _ _ hj
    · exact getD_zeros _ _
  have hl1 : e.length = (onesH (nq L) (!z)).length := by rw [he, onesH_length]
  have hl2 : (xorV e (onesH (nq L) (!z))).length = w.length := by rw [xorV_length _ _ hl1, he, hw]
  let v : BVec := xorV (xorV e (onesH (nq L) (!z))) w
  have hv : v.length = 2 * nq L := by
    show (xorV _ _).length = _
    rw [xorV_length _ _ hl2, xorV_length _ _ hl1, he]
  have hvbsp : ∀ (z' : Bool) (l : List (Int × Int)), AllSites l →
      bsp v (sites L (opOf z') (identity L) l) =
        ((bsp e (sites L (opOf z') (identity L) l) ^^
          (decide ((!z) = !z') && xorSum l (fun rc => inBounds L rc.1 rc.2))) ^^
          (bsp e (sites L (opOf (!z)) (identity L) (logicalSites L)) &&
            (decide (z = !z') && xorSum l (fun rc => inBounds L rc.1 rc.2)))) := by
    intro z' l hl
    show bsp (xorV _ _) _ = _
    rw [bsp_xorV_left _ _ _ hl2, bsp_xorV_left _ _ _ hl1, bsp_onesH_siteop L h _ z' l hl, hwbsp z' l hl]
  -- `v` commutes with every generator and both logicals
  have hvS : ∀ s ∈ stabilizers L, bsp v s = false := by
    intro s hs
    have hes := hcs s hs
    rw [stabilizers_eq_map] at hs
    obtain ⟨x, hx, rfl⟩ := List.mem_map.mp hs
    have hxr := (mem_gens L x).mp hx
    unfold stabOp at hes ⊢
    rw [hvbsp _ _ (allSites_plaq _ _ hxr.2.2.2), hes, par_plaq L x.2 hxr]
    simp
  have hvL : ∀ l ∈ [logicalX L] ++ [logicalZ L], bsp v l = false := by
    have key : ∀ z' : Bool, bsp v (sites L (opOf z') (identity L) (logicalSites L)) = false := by
      intro z'
      rw [hvbsp z' _ hlS, par_logical L h]
      by_cases hz' : z' = z
      · subst hz'
        rw [hanti]
        cases z' <;> simp
      · have : z' = !z := by cases z <;> cases z' <;> simp_all
        subst this
        cases z <;> simp
    intro l hl
    simp only [List.cons_append, List.nil_append, List.mem_cons, List.not_mem_nil, or_false] at hl
    rcases hl with rfl | rfl
    · exact key false
    · exact key true
  -- so it is a product of generators
  obtain ⟨cs, hcsl, hcomb⟩ := normaliser_complete_stab (nq L) 1 _ _ _ hvalid v hv hvS hvL
  rw [stabilizers_eq_map] at hcsl hcomb
  obtain ⟨χ, hχ⟩ := exists_coeff (gens L) (gens_nodup L) cs (by simpa using hcsl)
  rw [← hχ] at hcomb
  -- the selected plaquettes of the type that matters
  let ψ : Int × Int → Bool := fun q => decide (q ∈ plaquetteIndices L) && χ (!z, q)
  have hbit : ∀ s : Int × Int, (s.1 + s.2) % 3 ≠ 2 → inBounds L s.1 s.2 = true →
      e.getD (off (nq L) (!z) + fl s) false = !cov ψ s := by
    intro s h2 b2
    have hfl := fl_lt L h s h2 b2
    have hvb : v.getD (off (nq L) (!z) + fl s) false = !(e.getD (off (nq L) (!z) + fl s) false) := by
      show (xorV _ _).getD _ false = _
      rw [getD_xorV _ _ hl2, getD_xorV _ _ hl1, getD_onesH_same _ _ _ hfl, hwbit _ hfl]
      simp
    have hvc : v.getD (off (nq L) (!z) + fl s) false = cov ψ s := by
      rw [← hcomb, getD_xorComb_map (2 * nq L) (gens L) (stabOp L) χ (fun x _ => stabOp_length L x)]
      have hterm : ∀ (tt : Bool) (p : Int × Int), p ∈ plaquetteIndices L →
          (stabOp L (tt, p)).getD (off (nq L) (!z) + fl s) false =
            (decide (tt = !z) && occ (plaquetteSites p.1 p.2) s) := by
        intro tt p hp
        have hpr := (mem_plaquetteIndices L p).mp hp
        have hsl := allSites_plaq p.1 p.2 hpr.2.2.2
        unfold stabOp
        by_cases ht : tt = !z
        · subst ht
          rw [getD_siteop_same L h _ _ hsl s h2 b2]; simp
        · have : tt = z := by cases z <;> cases tt <;> simp_all
          subst this
          rw [getD_siteop_other L h _ _ hsl s h2 b2, decide_eq_false ht, Bool.false_and]
      unfold gens
      rw [xorSum_append, xorSum_map, xorSum_map]
      rw [xorSum_congr _ _ (fun p => χ (false, p) && (decide (false = !z) && occ (plaquetteSites p.1 p.2) s))
          (fun p hp => by rw [hterm false p hp]),
        xorSum_congr (plaquetteIndices L) (fun p => χ (true, p) && (stabOp L (true, p)).getD (off (nq L) (!z) + fl s) false)
          (fun p => χ (true, p) && (decide (true = !z) && occ (plaquetteSites p.1 p.2) s))
          (fun p hp => by rw [hterm true p hp])]
      have hsel : ∀ tt : Bool, xorSum (plaquetteIndices L)
            (fun p => χ (tt, p) && (decide (tt = !z) && occ (plaquetteSites p.1 p.2) s)) =
          (decide (tt = !z) && cov (fun q => decide (q ∈ plaquetteIndices L) && χ (tt, q)) s) := by
        intro tt
        by_cases ht : tt = !z
        · rw [decide_eq_true ht, Bool.true_and, cov_eq_nbrs]
          refine Eq.trans ?_
            (xorSum_targets' (plaquetteIndices L) (plaquetteIndices_nodup L) (fun p => χ (tt, p)) (nbrs s)
              (fun q => decide (q ∈ plaquetteIndices L)) (fun a => by simp))
          apply xorSum_congr
          intro p _
          rw [Bool.true_and, occ_eq_nbrs]
        · rw [decide_eq_false ht, Bool.false_and]
          apply xorSum_false
          intro p _
          simp
      rw [hsel false, hsel true]
      cases z <;> simp [ψ]
    rw [hvc] at hvb
    rw [hvb]; simp
  -- count
  have hb := bound_eq L h
  have hm0 : 0 ≤ (L - 1) / 2 := by unfold Odd3 at h; omega
  have hbm : bound L = 3 * (((L - 1) / 2).toNat : Int) := by rw [hb]; omega
  have hsupp : Supp (3 * (((L - 1) / 2).toNat : Int)) ψ := by
    intro q hq
    simp only [ψ, Bool.and_eq_true, decide_eq_true_eq] at hq
    have := (mem_plaquetteIndices L q).mp hq.1
    unfold RealP at this
    omega
  have hcore := core ((L - 1) / 2).toNat ψ hsupp
  rw [← cnt_WL, cntL_eq_filter] at hcore
  have hLm : L.toNat = 2 * ((L - 1) / 2).toNat + 1 := by unfold Odd3 at h; omega
  rw [hLm]
  refine Nat.le_trans hcore ?_
  rw [← List.length_map (f := fl)]
  apply length_le_wt (nq L) e he
  · apply List.Nodup.map_on
    · intro x hx y hy hxy
      have sx := mem_WL _ x (List.mem_filter.mp hx).1
      have sy := mem_WL _ y (List.mem_filter.mp hy).1
      unfold SiteB at sx sy
      exact (fl_inj L h x y sx.2.2.2 (by rw [inBounds_iff]; omega) sy.2.2.2 (by rw [inBounds_iff]; omega) hxy.symm).symm
    · exact (nodup_WL _).filter _
  · intro f hf
    obtain ⟨s, hs, rfl⟩ := List.mem_map.mp hf
    have hs' := List.mem_filter.mp hs
    have sx := mem_WL _ s hs'.1
    unfold SiteB at sx
    have b2 : inBounds L s.1 s.2 = true := by rw [inBounds_iff]; omega
    have hbt := hbit s sx.2.2.2 b2
    have hc : cov ψ s = false := by simpa using hs'.2
    rw [hc] at hbt
    refine ⟨fl_lt L h s sx.2.2.2 b2, ?_⟩
    unfold actsOn
    cases z
    · simp only [off, Bool.not_false, if_true] at hbt
      rw [hbt]; simp
    · simp only [off, Bool.not_true, Bool.false_eq_true, if_false, Nat.zero_add] at hbt
      rw [hbt]; simp

/-- **colour 6.6.6, all odd `L ≥ 3`**: every non-trivial logical has weight at least `L` -/
theorem lower (L : Int) (hL : 3 ≤ L) (hodd : L % 2 = 1)
    (hvalid : ValidCode (nq L) 1 (stabilizers L) [logicalX L] [logicalZ L])
    (e : BVec) (he : e.length = 2 * (nQubits L).toNat)
    (hl : IsLogical (stabilizers L) [logicalX L, logicalZ L] e) : L ≤ (wt e : Int) := by
  have h : Odd3 L := ⟨hL, hodd⟩
  obtain ⟨hcomm, l, hmem, hanti⟩ := hl
  simp only [List.mem_cons, List.not_mem_nil, or_false] at hmem
  have : L.toNat ≤ wt e := by
    rcases hmem with rfl | rfl
    · exact lower_z L h hvalid e he hcomm false hanti
    · exact lower_z L h hvalid e he hcomm true hanti
  omega

end Qec.DistLower.Color666
