import QecVerif.Model.GF2
import QecVerif.Model.Pauli
namespace Qec

@[simp] theorem dot_nil_left (b : BVec) : dot [] b = false := by simp [dot]
@[simp] theorem dot_nil_right (a : BVec) : dot a [] = false := by cases a <;> simp [dot]
@[simp] theorem dot_cons (x y : Bool) (xs ys : BVec) : dot (x :: xs) (y :: ys) = xor (x && y) (dot xs ys) := by
  simp [dot]

theorem dot_comm (a b : BVec) : dot a b = dot b a := by
  induction a generalizing b with
  | nil => simp
  | cons x xs ih => cases b with
    | nil => simp
    | cons y ys => simp [ih ys, Bool.and_comm]

theorem dot_append (a b c d : BVec) (h : a.length = c.length) :
    dot (a ++ b) (c ++ d) = xor (dot a c) (dot b d) := by
  induction a generalizing c with
  | nil => cases c with
    | nil => simp
    | cons _ _ => simp at h
  | cons x xs ih => cases c with
    | nil => simp at h
    | cons y ys =>
      simp only [List.length_cons, Nat.add_right_cancel_iff] at h
      simp [ih ys h]

theorem xorV_length (a b : BVec) (h : a.length = b.length) : (xorV a b).length = a.length := by
  simp [xorV, h]

theorem dot_xorV_left (a b c : BVec) (h : a.length = b.length) :
    dot (xorV a b) c = xor (dot a c) (dot b c) := by
  induction a generalizing b c with
  | nil => cases b with
    | nil => simp [xorV]
    | cons _ _ => simp at h
  | cons x xs ih => cases b with
    | nil => simp at h
    | cons y ys =>
      simp only [List.length_cons, Nat.add_right_cancel_iff] at h
      cases c with
      | nil => simp [xorV]
      | cons z zs =>
        have := ih ys zs h
        simp only [xorV] at this
        simp only [xorV, List.zipWith_cons_cons, dot_cons, this]
        cases x <;> cases y <;> cases z <;> cases dot xs zs <;> cases dot ys zs <;> rfl

theorem dot_xorV_right (a b c : BVec) (h : b.length = c.length) :
    dot a (xorV b c) = xor (dot a b) (dot a c) := by
  rw [dot_comm, dot_xorV_left _ _ _ h, dot_comm b, dot_comm c]

theorem xHalf_append (a b : BVec) (h : a.length = b.length) : xHalf (a ++ b) = a := by
  simp [xHalf, h, ← Nat.two_mul]

theorem zHalf_append (a b : BVec) (h : a.length = b.length) : zHalf (a ++ b) = b := by
  simp [zHalf, h, ← Nat.two_mul]

theorem half_append (b : BVec) : xHalf b ++ zHalf b = b := by simp [xHalf, zHalf]

theorem xHalf_length (b : BVec) : (xHalf b).length = b.length / 2 := by
  simp [xHalf]; omega
theorem zHalf_length (b : BVec) : (zHalf b).length = b.length - b.length / 2 := by
  simp [zHalf]
theorem halves_same_length (b : BVec) (h : b.length % 2 = 0) : (xHalf b).length = (zHalf b).length := by
  rw [xHalf_length, zHalf_length]; omega

@[simp] theorem xHalf_toBsf (p : PStr) : xHalf (toBsf p) = p.map P1.xBit := by
  unfold toBsf; apply xHalf_append; simp
@[simp] theorem zHalf_toBsf (p : PStr) : zHalf (toBsf p) = p.map P1.zBit := by
  unfold toBsf; apply zHalf_append; simp

theorem xHalf_xorV (a b : BVec) (h : a.length = b.length) : xHalf (xorV a b) = xorV (xHalf a) (xHalf b) := by
  simp [xHalf, xorV, h, List.take_zipWith]
theorem zHalf_xorV (a b : BVec) (h : a.length = b.length) : zHalf (xorV a b) = xorV (zHalf a) (zHalf b) := by
  simp [zHalf, xorV, h, List.drop_zipWith]

/-- the bsp in "halves" form -/
theorem bsp_halves (a b : BVec) (h : a.length = b.length) (he : a.length % 2 = 0) :
    bsp a b = xor (dot (zHalf a) (xHalf b)) (dot (xHalf a) (zHalf b)) := by
  unfold bsp
  conv => lhs; rw [← half_append b]
  apply dot_append
  rw [zHalf_length, xHalf_length]; omega

end Qec
