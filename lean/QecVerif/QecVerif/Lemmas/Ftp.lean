/-
  Helper lemmas for C03 (`Model/Ftp.lean`): XOR cancellation, the monitor, the reachable-set witness,
  the time-parity decision and the result constructor.
-/
import QecVerif.Model.Ftp
import QecVerif.Lemmas.GF2
import QecVerif.Lemmas.RunOnce
import QecVerif.Props.C09
namespace Qec.Ftp
open Qec

/-! ### XOR cancellation -/

theorem xorV_cancel_left (a b : BVec) (h : a.length = b.length) : xorV a (xorV a b) = b := by
  rw [← xorV_assoc, xorV_self, xorV_zeros_left _ _ h.symm]

theorem xorV_cancel_right (a b : BVec) (h : a.length = b.length) : xorV (xorV a b) b = a := by
  rw [xorV_assoc, xorV_self, xorV_zeros_right _ _ h]

theorem xorV_eq_zeros_iff (a b : BVec) (h : a.length = b.length) :
    xorV a b = zeros a.length ↔ a = b := by
  constructor
  · intro hz
    have := xorV_cancel_left a b h
    rw [hz, xorV_zeros_right _ _ rfl] at this
    exact this
  · intro hab; subst hab; exact xorV_self a

theorem isZero_iff (a : BVec) : isZero a = true ↔ a = zeros a.length := by
  induction a with
  | nil => simp [isZero, zeros]
  | cons x xs ih =>
    simp only [isZero, List.all_cons, Bool.and_eq_true, zeros, List.length_cons, List.replicate_succ,
      List.cons.injEq] at ih ⊢
    rw [ih]; cases x <;> simp

theorem xorV_len (a b : BVec) (h : a.length = b.length) : (xorV a b).length = b.length := by
  rw [xorV_length _ _ h, h]

/-! ### the monitor -/

theorem recoveryOk_iff (S : List BVec) (r s : BVec) : recoveryOk S r s = true ↔ synd S r = s := by
  simp [recoveryOk]

/-- additivity of the syndrome in the form used here -/
theorem synd_xorV (n : Nat) (S : List BVec) (a b : BVec) (ha : a.length = 2 * n) (hb : b.length = 2 * n)
    (hS : ∀ s ∈ S, s.length = 2 * n) : synd S (xorV a b) = xorV (synd S a) (synd S b) :=
  C09.synd_add S a b (by rw [ha, hb]) (by rw [ha]; omega) (by intro r hr; rw [hS r hr, ha])

/-- `r ⊕ e` is in the code space iff `r` and `e` have the same syndrome -/
theorem codespace_iff (n : Nat) (S : List BVec) (r e : BVec) (hr : r.length = 2 * n) (he : e.length = 2 * n)
    (hS : ∀ s ∈ S, s.length = 2 * n) :
    isZero (synd S (xorV r e)) = true ↔ synd S r = synd S e := by
  rw [synd_xorV n S r e hr he hS, isZero_iff,
    xorV_length _ _ (by rw [synd_length, synd_length]), xorV_eq_zeros_iff _ _ (by rw [synd_length, synd_length])]

theorem recoveryOk_sound' (n : Nat) (S : List BVec) (r s : BVec) (hr : r.length = 2 * n)
    (hS : ∀ x ∈ S, x.length = 2 * n) (hs : ∃ e0 : BVec, e0.length = 2 * n ∧ synd S e0 = s) :
    recoveryOk S r s = true ↔ ∀ e : BVec, e.length = 2 * n → synd S e = s → isZero (synd S (xorV r e)) = true := by
  rw [recoveryOk_iff]
  constructor
  · intro h e he hes
    rw [codespace_iff n S r e hr he hS, h, hes]
  · intro h
    obtain ⟨e0, he0, hs0⟩ := hs
    have := h e0 he0 hs0
    rw [codespace_iff n S r e0 hr he0 hS, hs0] at this
    exact this

/-! ### constant measurement flips (q = 0: none, q = 1: all) cancel row by row -/

theorem getD_replicate (T : Nat) (c : BVec) (i : Nat) (h : i < T) : (List.replicate T c).getD i [] = c := by
  simp [List.getD, h]

theorem syndromeRows_const (S es : List BVec) (c : BVec) (hc : c.length = S.length) :
    syndromeRows S es (List.replicate es.length c) = es.map (synd S) := by
  apply List.ext_getElem?
  intro i
  by_cases hi : i < es.length
  · rw [syndromeRows_getElem? S es _ i hi, getD_replicate _ _ _ hi, getD_replicate _ _ _ (prevIdx_lt _ _ hi),
      xorV_right_comm, xorV_self, hc, xorV_zeros_left _ _ (synd_length _ _)]
    simp [List.getD, hi]
  · rw [List.getElem?_eq_none (by simp [syndromeRows_length]; omega),
      List.getElem?_eq_none (by simp; omega)]

theorem ones_length (m : Nat) : (ones m).length = m := by simp [ones]

/-- a list of syndromes has a list of preimages -/
theorem exists_preimages (S : List BVec) (supp : BVec → Prop) (rows : List BVec)
    (h : ∀ r ∈ rows, ∃ e, supp e ∧ synd S e = r) :
    ∃ es : List BVec, es.length = rows.length ∧ (∀ e ∈ es, supp e) ∧ es.map (synd S) = rows := by
  induction rows with
  | nil => exact ⟨[], rfl, by simp, rfl⟩
  | cons r rows ih =>
    obtain ⟨e, he, hr⟩ := h r (by simp)
    obtain ⟨es, hl, hs, hm⟩ := ih (fun r' h' => h r' (by simp [h']))
    refine ⟨e :: es, by simp [hl], ?_, by simp [hr, hm]⟩
    intro e' h'
    rcases List.mem_cons.mp h' with rfl | h''
    · exact he
    · exact hs e' h''

/-- rows produced with constant flips `c` -/
theorem reachable_const_iff (S : List BVec) (supp : BVec → Prop) (T : Nat) (c : BVec) (hc : c.length = S.length)
    (rows : List BVec) :
    (∃ es : List BVec, es.length = T ∧ (∀ e ∈ es, supp e) ∧ rows = syndromeRows S es (List.replicate es.length c)) ↔
      rows.length = T ∧ ∀ r ∈ rows, ∃ e, supp e ∧ synd S e = r := by
  constructor
  · rintro ⟨es, hl, hs, rfl⟩
    rw [syndromeRows_const S es c hc]
    refine ⟨by simp [hl], ?_⟩
    intro r hr
    obtain ⟨e, he, rfl⟩ := List.mem_map.mp hr
    exact ⟨e, hs e he, rfl⟩
  · rintro ⟨hl, h⟩
    obtain ⟨es, hel, hs, hm⟩ := exists_preimages S supp rows h
    refine ⟨es, by rw [hel, hl], hs, ?_⟩
    rw [syndromeRows_const S es c hc, hm]

/-! ### the witness for 0 < q < 1 -/

theorem xorV_four (P s d : BVec) (h1 : P.length = s.length) :
    xorV (xorV P s) (xorV P d) = xorV s d := by
  rw [← xorV_assoc, xorV_right_comm P s P, xorV_self, xorV_zeros_left _ _ h1.symm]

theorem getD_map_range (T : Nat) (f : Nat → BVec) (t : Nat) (h : t < T) :
    ((List.range T).map f).getD t [] = f t := by
  simp [List.getD, h]

theorem residuals_length (S es rows : List BVec) : (residuals S es rows).length = es.length := by
  simp [residuals]

theorem getD_mem_length (l : List BVec) (k t : Nat) (h : ∀ r ∈ l, r.length = k) (ht : t < l.length) :
    (l.getD t []).length = k := by
  have : l.getD t [] = l[t] := by simp [List.getD, ht]
  rw [this]; exact h _ (List.getElem_mem ht)

theorem residuals_mem_length (S es rows : List BVec) (hl : rows.length = es.length)
    (hrl : ∀ r ∈ rows, r.length = S.length) : ∀ d ∈ residuals S es rows, d.length = S.length := by
  intro d hd
  simp only [residuals, List.mem_map, List.mem_range] at hd
  obtain ⟨t, ht, rfl⟩ := hd
  have h1 := getD_mem_length rows S.length t hrl (by omega)
  rw [xorV_length _ _ (by rw [h1, synd_length]), h1]

/-- prefix XOR of the residuals -/
def pre (S es rows : List BVec) (k : Nat) : BVec := xorAll S.length ((residuals S es rows).take k)

theorem pre_zero (S es rows : List BVec) : pre S es rows 0 = zeros S.length := by
  simp [pre, xorAll]

theorem pre_length (S es rows : List BVec) (hl : rows.length = es.length)
    (hrl : ∀ r ∈ rows, r.length = S.length) (k : Nat) : (pre S es rows k).length = S.length := by
  unfold pre xorAll
  apply foldl_xorV_length _ _ _ (zeros_length _)
  intro r hr
  exact residuals_mem_length S es rows hl hrl r (List.mem_of_mem_take hr)

theorem pre_succ (S es rows : List BVec) (t : Nat) (ht : t < es.length) :
    pre S es rows (t + 1) = xorV (pre S es rows t) ((residuals S es rows).getD t []) := by
  have hlen : t < (residuals S es rows).length := by rw [residuals_length]; exact ht
  unfold pre xorAll
  rw [List.take_add_one, List.foldl_append]
  simp [List.getD, hlen]

theorem pre_full (n : Nat) (S es rows : List BVec) (hl : rows.length = es.length)
    (hS : ∀ s ∈ S, s.length = 2 * n) (hE : ∀ e ∈ es, e.length = 2 * n)
    (hx : xorAll S.length rows = synd S (xorAll (2 * n) es)) :
    pre S es rows es.length = zeros S.length := by
  unfold pre
  rw [List.take_of_length_le (by rw [residuals_length])]
  unfold residuals xorAll
  conv => lhs; rw [← zeros_xorV_zeros S.length]
  rw [foldl_xorV_split (fun t => rows.getD t []) (fun t => synd S (es.getD t []))]
  have hB : (List.range es.length).map (fun t => rows.getD t []) = rows := by
    rw [← hl]; exact map_getD_range rows
  have hC : (List.range es.length).map (fun t => synd S (es.getD t [])) = es.map (synd S) := by
    conv => rhs; rw [← map_getD_range es]
    simp [Function.comp_def]
  rw [hB, hC]
  have h1 : (es.map (synd S)).foldl xorV (zeros S.length) = synd S (xorAll (2 * n) es) := by
    rw [← synd_zeros S (2 * n)]
    exact foldl_synd n S es _ (zeros_length _) hS hE
  unfold xorAll at hx h1
  rw [h1, hx]
  have := xorV_self (synd S (List.foldl xorV (zeros (2 * n)) es))
  rw [synd_length] at this
  exact this

theorem witnessMeas_getD (S es rows : List BVec) (t : Nat) (ht : t < es.length) :
    (witnessMeas S es rows).getD t [] = pre S es rows (t + 1) := by
  unfold witnessMeas pre
  exact getD_map_range es.length _ t ht

/-- **the witness reproduces the array** -/
theorem witness_rows (n : Nat) (S es rows : List BVec) (hl : rows.length = es.length)
    (hrl : ∀ r ∈ rows, r.length = S.length) (hS : ∀ s ∈ S, s.length = 2 * n) (hE : ∀ e ∈ es, e.length = 2 * n)
    (hx : xorAll S.length rows = synd S (xorAll (2 * n) es)) :
    syndromeRows S es (witnessMeas S es rows) = rows := by
  apply List.ext_getElem?
  intro t
  by_cases ht : t < es.length
  · rw [syndromeRows_getElem? S es _ t ht, witnessMeas_getD S es rows t ht]
    have hprev : (witnessMeas S es rows).getD (prevIdx es.length t) [] = pre S es rows t := by
      rw [witnessMeas_getD S es rows _ (prevIdx_lt _ _ ht)]
      unfold prevIdx
      split
      · next h0 =>
        subst h0
        have : es.length - 1 + 1 = es.length := by omega
        rw [this, pre_full n S es rows hl hS hE hx, pre_zero]
      · next h0 =>
        have : t - 1 + 1 = t := by omega
        rw [this]
    have hres : (residuals S es rows).getD t [] = xorV (rows.getD t []) (synd S (es.getD t [])) := by
      unfold residuals; exact getD_map_range es.length _ t ht
    have hrt : (rows.getD t []).length = S.length := getD_mem_length rows S.length t hrl (by omega)
    rw [hprev, pre_succ S es rows t ht, hres,
      xorV_four _ _ _ (by rw [pre_length S es rows hl hrl, synd_length]),
      xorV_comm (rows.getD t []), xorV_cancel_left _ _ (by rw [synd_length, hrt])]
    simp [List.getD, hl, ht]
  · rw [List.getElem?_eq_none (by simp [syndromeRows_length]; omega), List.getElem?_eq_none (by omega)]

theorem witnessMeas_length (S es rows : List BVec) : (witnessMeas S es rows).length = es.length := by
  simp [witnessMeas]

theorem witnessMeas_mem_length (S es rows : List BVec) (hl : rows.length = es.length)
    (hrl : ∀ r ∈ rows, r.length = S.length) : ∀ v ∈ witnessMeas S es rows, v.length = S.length := by
  intro v hv
  simp only [witnessMeas, List.mem_map, List.mem_range] at hv
  obtain ⟨t, _, rfl⟩ := hv
  exact pre_length S es rows hl hrl (t + 1)

theorem foldl_xorV_zeros (L k : Nat) (a : BVec) (ha : a.length = L) :
    (List.replicate k (zeros L)).foldl xorV a = a := by
  induction k with
  | zero => rfl
  | succ k ih => rw [List.replicate_succ, List.foldl_cons, xorV_zeros_right _ _ ha, ih]

theorem witnessErrors_length (n T : Nat) (e : BVec) (hT : 1 ≤ T) : (witnessErrors n T e).length = T := by
  simp [witnessErrors]; omega

theorem witnessErrors_xorAll (n T : Nat) (e : BVec) (he : e.length = 2 * n) :
    xorAll (2 * n) (witnessErrors n T e) = e := by
  unfold xorAll witnessErrors
  rw [List.foldl_cons, xorV_zeros_left _ _ he, foldl_xorV_zeros _ _ _ he]

theorem witnessErrors_mem (n T : Nat) (e : BVec) (x : BVec) (hx : x ∈ witnessErrors n T e) :
    x = e ∨ x = zeros (2 * n) := by
  simp only [witnessErrors, List.mem_cons, List.mem_replicate] at hx
  rcases hx with h | ⟨_, h⟩
  · exact Or.inl h
  · exact Or.inr h

/-- the XOR of vectors in a set closed under XOR (and containing 0) stays in the set -/
theorem supp_xorAll (k : Nat) (supp : BVec → Prop) (h0 : supp (zeros k))
    (hx : ∀ a b, supp a → supp b → supp (xorV a b)) (es : List BVec) (hs : ∀ e ∈ es, supp e) :
    supp (xorAll k es) := by
  unfold xorAll
  suffices h : ∀ acc, supp acc → supp (es.foldl xorV acc) from h _ h0
  induction es with
  | nil => intro acc h; exact h
  | cons e es ih =>
    intro acc h
    rw [List.foldl_cons]
    exact ih (fun e' h' => hs e' (by simp [h'])) _ (hx _ _ h (hs e (by simp)))

theorem syndromeRows_mem_length (S es meas : List BVec) (hm : meas.length = es.length)
    (hml : ∀ v ∈ meas, v.length = S.length) : ∀ r ∈ syndromeRows S es meas, r.length = S.length := by
  intro r hr
  simp only [syndromeRows, List.mem_map, List.mem_range] at hr
  obtain ⟨t, ht, rfl⟩ := hr
  have h1 := getD_mem_length meas S.length (prevIdx es.length t) hml (by rw [hm]; exact prevIdx_lt _ _ ht)
  have h2 := getD_mem_length meas S.length t hml (by omega)
  rw [xorV_length _ _ (by rw [xorV_length _ _ (by rw [h1, synd_length]), h1, h2]),
    xorV_length _ _ (by rw [h1, synd_length]), h1]

/-! ### composition of the two stages -/

theorem xorV_eq_iff (a b c : BVec) (hab : a.length = b.length) (hac : a.length = c.length) :
    xorV a b = c ↔ b = xorV c a := by
  constructor
  · intro h; subst h
    rw [xorV_right_comm, xorV_self, xorV_zeros_left _ _ hab.symm]
  · intro h; subst h
    rw [xorV_comm c a, xorV_cancel_left _ _ hac]

theorem xorAll_length (k : Nat) (rows : List BVec) (h : ∀ r ∈ rows, r.length = k) : (xorAll k rows).length = k :=
  foldl_xorV_length k _ rows (zeros_length _) h

theorem compose_ok_iff (n : Nat) (S rows : List BVec) (sym clu : BVec) (hsym : sym.length = 2 * n)
    (hclu : clu.length = 2 * n) (hS : ∀ s ∈ S, s.length = 2 * n) (hrl : ∀ r ∈ rows, r.length = S.length) :
    ftpOk S rows (xorV (xorV (zeros (2 * n)) sym) clu) = true ↔
      synd S clu = xorV (xorAll S.length rows) (synd S sym) := by
  unfold ftpOk
  rw [recoveryOk_iff, xorV_zeros_left _ _ hsym, synd_xorV n S sym clu hsym hclu hS]
  exact xorV_eq_iff _ _ _ (by rw [synd_length, synd_length]) (by rw [synd_length, xorAll_length _ _ hrl])

/-! ### `_tparity` -/

theorem fmod_pos (a T : Int) (hT : 0 < T) : a.fmod T = a % T :=
  Int.fmod_eq_emod_of_nonneg a (Int.le_of_lt hT)

theorem tparity_pos (T a b : Int) (hT : 0 < T) :
    tparity T a b = some (if iabs (b % T - a % T) ≤ T - iabs (b % T - a % T) then 0 else 1) := by
  unfold tparity
  rw [if_neg (by omega), fmod_pos a T hT, fmod_pos b T hT]
  simp only []
  split <;> rfl

theorem iabs_symm (x y : Int) : iabs (x - y) = iabs (y - x) := by
  unfold iabs; split <;> split <;> omega

theorem iabs_nonneg (x : Int) : 0 ≤ iabs x := by unfold iabs; split <;> omega

theorem iabs_lt (T x y : Int) (hx0 : 0 ≤ x) (hx : x < T) (hy0 : 0 ≤ y) (hy : y < T) : iabs (y - x) < T := by
  unfold iabs; split <;> omega

/-! ### `_measurement_error_tparities` -/

theorem filter_partition {α : Type} (p : α → Bool) (l : List α) :
    (l.filter p).length + (l.filter fun a => !p a).length = l.length := by
  induction l with
  | nil => rfl
  | cons a l ih =>
    cases h : p a <;> simp [h] <;> omega

/-! ### the result constructor -/

theorem xor_le_one (a b : Nat) (ha : a ≤ 1) (hb : b ≤ 1) : a ^^^ b ≤ 1 := by
  have h1 : a = 0 ∨ a = 1 := by omega
  have h2 : b = 0 ∨ b = 1 := by omega
  rcases h1 with rfl | rfl <;> rcases h2 with rfl | rfl <;> decide

theorem finalize_skip (R C : Int) (itp : Bool) (T : Int) (rec : BVec) (rx rz : Nat) (sm : Option (List BVec))
    (h : itp = true ∨ T = 1) :
    finalize R C itp T rec rx rz sm = .ok { success := none, recovery := rec, cv := [0, 0] } := by
  unfold finalize
  rw [if_pos]
  rcases h with h | h <;> simp [h]

theorem finalize_tested (R C : Int) (T : Int) (rec : BVec) (rx rz : Nat) (m : BVec) (ms : List BVec)
    (hT : T ≠ 1) :
    finalize R C false T rec rx rz (some (m :: ms)) =
      (let tps := measurementTparities R C ((m :: ms).getLast (by simp))
       let tx := rx ^^^ tps.1
       let tz := rz ^^^ tps.2
       if tx != 0 || tz != 0 then .ok { success := some false, recovery := rec, cv := [tx, tz] }
       else .ok { success := none, recovery := rec, cv := [0, 0] }) := by
  unfold finalize
  rw [if_neg (by simp [hT])]

theorem finalize_shape (R C : Int) (itp : Bool) (T : Int) (rec : BVec) (rx rz : Nat) (sm : Option (List BVec))
    (res : Result) (h : finalize R C itp T rec rx rz sm = .ok res) :
    res.recovery = rec ∧ res.cv.length = 2 ∧ (res.cv ≠ [0, 0] ↔ res.success = some false) ∧
      (res.success = none ∨ res.success = some false) := by
  by_cases hs : itp = true ∨ T = 1
  · rw [finalize_skip R C itp T rec rx rz sm hs] at h
    injection h with h; subst h; simp
  · have hitp : itp = false := by cases itp <;> simp_all
    have hT : T ≠ 1 := fun h' => hs (Or.inr h')
    subst hitp
    match sm, h with
    | none, h => simp [finalize, hT] at h
    | some [], h => simp [finalize, hT] at h
    | some (m :: ms), h =>
      rw [finalize_tested R C T rec rx rz m ms hT] at h
      simp only [] at h
      split at h
      · next hc =>
        injection h with h; subst h
        refine ⟨rfl, rfl, ?_, Or.inr rfl⟩
        simp only [iff_true, ne_eq, List.cons.injEq, and_true, not_and]
        intro h1 h2
        simp [h1, h2] at hc
      · injection h with h; subst h; simp

theorem getLast_mem_length (l : List BVec) (hne : l ≠ []) (k : Nat) (h : ∀ v ∈ l, v.length = k) :
    (l.getLast hne).length = k := h _ (List.getLast_mem hne)

/-! ### the stages as functions of the clusters: parities are bits -/

theorem tparity_le_one (T a b : Int) (v : Nat) (h : tparity T a b = some v) : v ≤ 1 := by
  unfold tparity at h
  split at h
  · cases h
  · simp only [] at h
    split at h <;> (injection h with h; omega)

theorem foldlM_option_invariant {α β : Type} (f : β → α → Option β) (P : β → Prop)
    (hstep : ∀ b a b', P b → f b a = some b' → P b') :
    ∀ (l : List α) (b b' : β), P b → l.foldlM f b = some b' → P b' := by
  intro l
  induction l with
  | nil => intro b b' hb h; simp at h; subst h; exact hb
  | cons a l ih =>
    intro b b' hb h
    rw [List.foldlM_cons] at h
    cases hfa : f b a with
    | none => rw [hfa] at h; simp at h
    | some b1 =>
      rw [hfa] at h
      exact ih b1 b' (hstep b a b1 hb hfa) (by simpa using h)

theorem fusePair_bit (R C T : Int) (acc : BVec × Nat) (ab : TIdx × TIdx) (out : BVec × Nat)
    (hacc : acc.2 ≤ 1) (h : fusePair R C T acc ab = some out) : out.2 ≤ 1 := by
  unfold fusePair at h
  split at h
  · next v tp _ htp =>
    injection h with h; subst h
    exact xor_le_one _ _ hacc (tparity_le_one _ _ _ _ htp)
  · cases h

theorem fusePairs_bit (R C T : Int) (l : List (TIdx × TIdx)) (acc out : BVec × Nat)
    (hacc : acc.2 ≤ 1) (h : l.foldlM (fusePair R C T) acc = some out) : out.2 ≤ 1 :=
  foldlM_option_invariant (fusePair R C T) (fun p => p.2 ≤ 1)
    (fun b a b' hb hf => fusePair_bit R C T b a b' hb hf) l acc out hacc h

theorem recoveryTparities_bits (R C T : Int) (cl : List (List TIdx)) (st : Stage)
    (h : recoveryTparities R C T cl = some st) : st.x ≤ 1 ∧ st.z ≤ 1 := by
  unfold recoveryTparities at h
  refine foldlM_option_invariant _ (fun s : Stage => s.x ≤ 1 ∧ s.z ≤ 1) ?_ cl _ st (by simp) h
  intro b a b' hb hf
  simp only [Option.bind_eq_bind, Option.pure_def] at hf
  cases h1 : clusterToPathsAndDefect a with
  | none => rw [h1] at hf; simp at hf
  | some t =>
    obtain ⟨xp, zp, d⟩ := t
    rw [h1] at hf
    simp only [Option.bind_some] at hf
    cases h2 : (pairUp xp).foldlM (fusePair R C T) (b.op, b.x) with
    | none => rw [h2] at hf; simp at hf
    | some r1 =>
      obtain ⟨v1, tx⟩ := r1
      rw [h2] at hf
      simp only [Option.bind_some] at hf
      cases h3 : (pairUp zp).foldlM (fusePair R C T) (v1, b.z) with
      | none => rw [h3] at hf; simp at hf
      | some r2 =>
        obtain ⟨v2, tz⟩ := r2
        rw [h3] at hf
        simp only [Option.bind_some, Option.some.injEq] at hf
        subst hf
        exact ⟨fusePairs_bit R C T _ _ _ hb.1 h2, fusePairs_bit R C T _ _ _ hb.2 h3⟩

theorem clusterRecoveryTparities_bits (R C T : Int) (ms : List ((TIdx × TIdx) × (TIdx × TIdx))) (st : Stage)
    (h : clusterRecoveryTparities R C T ms = some st) : st.x ≤ 1 ∧ st.z ≤ 1 := by
  unfold clusterRecoveryTparities at h
  refine foldlM_option_invariant _ (fun s : Stage => s.x ≤ 1 ∧ s.z ≤ 1) ?_ ms _ st (by simp) h
  intro b a b' hb hf
  simp only [Option.bind_eq_bind, Option.pure_def] at hf
  cases h2 : fusePair R C T (b.op, b.x) (a.1.1, a.2.1) with
  | none => rw [h2] at hf; simp at hf
  | some r1 =>
    obtain ⟨v1, tx⟩ := r1
    rw [h2] at hf
    simp only [Option.bind_some] at hf
    cases h3 : fusePair R C T (v1, b.z) (a.1.2, a.2.2) with
    | none => rw [h3] at hf; simp at hf
    | some r2 =>
      obtain ⟨v2, tz⟩ := r2
      rw [h3] at hf
      simp only [Option.bind_some, Option.some.injEq] at hf
      subst hf
      exact ⟨fusePair_bit R C T _ _ _ hb.1 h2, fusePair_bit R C T _ _ _ hb.2 h3⟩

end Qec.Ftp
