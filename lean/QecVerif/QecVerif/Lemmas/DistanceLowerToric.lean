/-
  C08 — toric code, all sizes: an operator that commutes with every stabilizer generator and anticommutes with
  one of the four supplied logicals has a set bit on every translate of that logical (a full column of one
  sub-lattice for X̄₁, Z̄₂: `C` translates; a full row for X̄₂, Z̄₁: `R` translates), hence weight ≥ min R C.
-/
import QecVerif.Lemmas.DistanceLower
import QecVerif.Lemmas.Lattice.ToricCode
namespace Qec.DistLower.Toric
open Qec Qec.Toric Qec.Symp Qec.ToricLemmas Qec.ToricCode Qec.Distance Qec.DistLower

/-- the bit of `e` at site `s` that decides commutation with `op` there -/
def tbit (R C : Int) (e : BVec) (op : P1) (s : Idx) : Bool :=
  xor (op.xBit && e.getD (nq R C + flatNat R C s) false) (op.zBit && e.getD (flatNat R C s) false)

theorem tbit_periodic (R C : Int) (hR : 0 < R) (hC : 0 < C) (e : BVec) (op : P1) (s t : Idx)
    (h : norm R C s = norm R C t) : tbit R C e op s = tbit R C e op t := by
  unfold tbit
  rw [(flatNat_inj R C hR hC s t).mpr h]

theorem tbit_acts (R C : Int) (hR : 0 < R) (hC : 0 < C) (e : BVec) (op : P1) (s : Idx)
    (h : tbit R C e op s = true) :
    flatNat R C s < nq R C ∧ actsOn (nq R C) e (flatNat R C s) = true := by
  refine ⟨flatNat_lt R C hR hC s, ?_⟩
  unfold tbit at h
  unfold actsOn
  revert h
  cases e.getD (flatNat R C s) false <;> cases e.getD (nq R C + flatNat R C s) false <;> simp

/-- `bsp e ·` of a site operator is the parity of the relevant bits of `e` over its sites -/
theorem bsp_siteop (R C : Int) (hR : 0 < R) (hC : 0 < C) (e : BVec) (he : e.length = 2 * nq R C) (op : P1)
    (L : List Idx) : bsp e (sites R C op (identity R C) L) = Symp.xorSum L (tbit R C e op) := by
  rw [sites_eq_applyOps, identity_eq_zeros,
    bsp_applyOps_right (nQubits R C).toNat op e _ _ he (by simp [zeros]) (by
      intro f hf
      rcases List.mem_map.mp hf with ⟨s, _, rfl⟩
      exact flatNat_lt R C hR hC s),
    ToricLemmas.bsp_zeros_right, Bool.false_xor, xsum_map]
  rfl

/-- parity of `e` against the generator of an in-lattice plaquette -/
theorem stab_parity (R C : Int) (hR : 0 < R) (hC : 0 < C) (e : BVec) (he : e.length = 2 * nq R C)
    (hcomm : commAll (stabilizers R C) e = true) (p : Idx) (hp : InLattice R C p) :
    (tbit R C e (if p.1 = 0 then P1.Z else P1.X) (p.1, p.2.1, p.2.2) ^^
      (tbit R C e (if p.1 = 0 then P1.Z else P1.X) (p.1, p.2.1 + 1, p.2.2) ^^
      (tbit R C e (if p.1 = 0 then P1.Z else P1.X) (p.1 + 1, p.2.1 + p.1, p.2.2 - p.1) ^^
       tbit R C e (if p.1 = 0 then P1.Z else P1.X) (p.1 + 1, p.2.1 + p.1, p.2.2 - p.1 + 1)))) = false := by
  have hmem : stab R C p ∈ stabilizers R C := by
    rw [ToricCode.stabilizers_eq_map]; exact List.mem_map.mpr ⟨p, (mem_indices R C p).mpr hp, rfl⟩
  have h := (commAll_iff _ _).mp hcomm _ hmem
  rw [stab_eq_sites, bsp_siteop R C hR hC e he, plaquetteSites_of_inLattice R C p hp,
    plaquetteOp_of_inLattice R C p hp] at h
  simpa using h

theorem flat_inj_col (R C : Int) (hR : 0 < R) (hC : 0 < C) (l : Int) (i j i' j' : Nat) (hi : (i : Int) < R)
    (hj : (j : Int) < C) (hi' : (i' : Int) < R) (hj' : (j' : Int) < C)
    (h : flatNat R C (l, (i : Int), (j : Int)) = flatNat R C (l, (i' : Int), (j' : Int))) : i = i' ∧ j = j' := by
  have := (flatNat_inj R C hR hC _ _).mp h
  simp only [norm, Prod.mk.injEq] at this
  rw [Int.emod_eq_of_lt (by omega) hi, Int.emod_eq_of_lt (by omega) hi', Int.emod_eq_of_lt (by omega) hj,
    Int.emod_eq_of_lt (by omega) hj'] at this
  omega

section
variable (R C : Int) (hR : 2 ≤ R) (hC : 2 ≤ C) (e : BVec) (he : e.length = 2 * nq R C)
  (hcomm : commAll (stabilizers R C) e = true)
include hR hC he hcomm

/-- X̄₁ = X on column `C/2` of lattice 0: `C` column translates -/
theorem wt_ge_X1 (hanti : bsp e (logicalX1 R C) = true) : C.toNat ≤ wt e := by
  have hR' : (0 : Int) < R := by omega
  have hC' : (0 : Int) < C := by omega
  apply wt_ge_of_grid (nq R C) e he C.toNat R.toNat (fun j i => flatNat R C (0, (i : Int), (j : Int)))
    (fun j i => tbit R C e P1.X (0, (i : Int), (j : Int)))
  · intro j i _ _ hb
    exact tbit_acts R C hR' hC' e _ _ hb
  · intro j i j' i' hj hi hj' hi' h
    exact (flat_inj_col R C hR' hC' 0 i j i' j' (by omega) (by omega) (by omega) (by omega) h).2
  · intro j hj
    -- dual plaquettes (1, i, j+1): rails are the lattice-0 sites (i+1, j), (i+1, j+1); rungs (1, i, j+1), (1, i+1, j+1)
    have hs := strip_parity R.toNat
      (fun i => tbit R C e P1.X (2, ((i + 1 : Nat) : Int), (j : Int)))
      (fun i => tbit R C e P1.X (2, ((i + 1 : Nat) : Int), ((j + 1 : Nat) : Int)))
      (fun i => tbit R C e P1.X (1, (i : Int), ((j + 1 : Nat) : Int)))
      (by
        intro i hi
        have := stab_parity R C hR' hC' e he hcomm (1, (i : Int), ((j + 1 : Nat) : Int))
          (by unfold InLattice; simp only; omega)
        simp only [show ¬ ((1 : Int) = 0) by omega, if_false] at this
        rw [show ((1 : Int) + 1) = 2 from rfl, show ((i : Int) + 1) = ((i + 1 : Nat) : Int) by push_cast; rfl,
          show (((j + 1 : Nat) : Int) - 1) = (j : Int) by push_cast; omega,
          show ((j : Int) + 1) = ((j + 1 : Nat) : Int) by push_cast; rfl] at this
        exact regroup_rungs_first _ _ _ _ this)
      (tbit_periodic R C hR' hC' e _ _ _ (by
        simp only [norm, Prod.mk.injEq, true_and]
        refine ⟨?_, trivial⟩
        rw [show ((R.toNat : Nat) : Int) = 0 + R by omega, Int.add_emod_right]; rfl))
    have sh : ∀ c : Int, xorSum (List.range R.toNat) (fun i => tbit R C e P1.X (2, ((i + 1 : Nat) : Int), c)) =
        xorSum (List.range R.toNat) (fun i => tbit R C e P1.X (0, (i : Int), c)) := by
      intro c
      rw [xorSum_shift R.toNat (fun i => tbit R C e P1.X (2, (i : Int), c))
        (tbit_periodic R C hR' hC' e _ _ _ (by
          simp only [norm, Prod.mk.injEq, true_and]
          refine ⟨?_, trivial⟩
          rw [show ((R.toNat : Nat) : Int) = 0 + R by omega, Int.add_emod_right]; rfl))]
      apply xorSum_congr
      intro i _
      exact tbit_periodic R C hR' hC' e _ _ _ (by simp [norm])
    rw [sh, sh] at hs
    exact hs
  · refine ⟨(C / 2).toNat, by omega, ?_⟩
    unfold logicalX1 logicalX1Sites at hanti
    rw [bsp_siteop R C hR' hC' e he, xorSum_map] at hanti
    refine Eq.trans ?_ hanti
    apply xorSum_congr
    intro i _
    rw [show (((C / 2).toNat : Nat) : Int) = C / 2 by omega]; rfl

/-- Z̄₂ = Z on column `C/2` of lattice 1: `C` column translates -/
theorem wt_ge_Z2 (hanti : bsp e (logicalZ2 R C) = true) : C.toNat ≤ wt e := by
  have hR' : (0 : Int) < R := by omega
  have hC' : (0 : Int) < C := by omega
  apply wt_ge_of_grid (nq R C) e he C.toNat R.toNat (fun j i => flatNat R C (1, (i : Int), (j : Int)))
    (fun j i => tbit R C e P1.Z (1, (i : Int), (j : Int)))
  · intro j i _ _ hb
    exact tbit_acts R C hR' hC' e _ _ hb
  · intro j i j' i' hj hi hj' hi' h
    exact (flat_inj_col R C hR' hC' 1 i j i' j' (by omega) (by omega) (by omega) (by omega) h).2
  · intro j hj
    -- primal plaquettes (0, i, j): rails (1, i, j), (1, i, j+1); rungs (0, i, j), (0, i+1, j)
    apply strip_parity R.toNat _ _ (fun i => tbit R C e P1.Z (0, (i : Int), (j : Int)))
    · intro i hi
      have := stab_parity R C hR' hC' e he hcomm (0, (i : Int), (j : Int)) (by unfold InLattice; simp only; omega)
      simp only [if_true, Int.add_zero, Int.sub_zero, Int.zero_add] at this
      rw [show ((i : Int) + 1) = ((i + 1 : Nat) : Int) by push_cast; rfl,
        show ((j : Int) + 1) = ((j + 1 : Nat) : Int) by push_cast; rfl] at this
      exact regroup_rungs_first _ _ _ _ this
    · exact tbit_periodic R C hR' hC' e _ _ _ (by
        simp only [norm, Prod.mk.injEq, true_and]
        refine ⟨?_, trivial⟩
        rw [show ((R.toNat : Nat) : Int) = 0 + R by omega, Int.add_emod_right]; rfl)
  · refine ⟨(C / 2).toNat, by omega, ?_⟩
    unfold logicalZ2 logicalZ2Sites at hanti
    rw [bsp_siteop R C hR' hC' e he, xorSum_map] at hanti
    refine Eq.trans ?_ hanti
    apply xorSum_congr
    intro i _
    rw [show (((C / 2).toNat : Nat) : Int) = C / 2 by omega]; rfl

/-- Z̄₁ = Z on row `R/2` of lattice 0: `R` row translates -/
theorem wt_ge_Z1 (hanti : bsp e (logicalZ1 R C) = true) : R.toNat ≤ wt e := by
  have hR' : (0 : Int) < R := by omega
  have hC' : (0 : Int) < C := by omega
  apply wt_ge_of_grid (nq R C) e he R.toNat C.toNat (fun i j => flatNat R C (0, (i : Int), (j : Int)))
    (fun i j => tbit R C e P1.Z (0, (i : Int), (j : Int)))
  · intro i j _ _ hb
    exact tbit_acts R C hR' hC' e _ _ hb
  · intro i j i' j' hi hj hi' hj' h
    exact (flat_inj_col R C hR' hC' 0 i j i' j' (by omega) (by omega) (by omega) (by omega) h).1
  · intro i hi
    -- primal plaquettes (0, i, j): rails (0, i, j), (0, i+1, j); rungs (1, i, j), (1, i, j+1)
    apply strip_parity C.toNat _ _ (fun j => tbit R C e P1.Z (1, (i : Int), (j : Int)))
    · intro j hj
      have := stab_parity R C hR' hC' e he hcomm (0, (i : Int), (j : Int)) (by unfold InLattice; simp only; omega)
      simp only [if_true, Int.add_zero, Int.sub_zero, Int.zero_add] at this
      rw [show ((i : Int) + 1) = ((i + 1 : Nat) : Int) by push_cast; rfl,
        show ((j : Int) + 1) = ((j + 1 : Nat) : Int) by push_cast; rfl] at this
      exact regroup_rails_first _ _ _ _ this
    · exact tbit_periodic R C hR' hC' e _ _ _ (by
        simp only [norm, Prod.mk.injEq, true_and]
        rw [show ((C.toNat : Nat) : Int) = 0 + C by omega, Int.add_emod_right]; rfl)
  · refine ⟨(R / 2).toNat, by omega, ?_⟩
    unfold logicalZ1 logicalZ1Sites at hanti
    rw [bsp_siteop R C hR' hC' e he, xorSum_map] at hanti
    refine Eq.trans ?_ hanti
    apply xorSum_congr
    intro j _
    rw [show (((R / 2).toNat : Nat) : Int) = R / 2 by omega]; rfl

/-- X̄₂ = X on row `R/2` of lattice 1: `R` row translates -/
theorem wt_ge_X2 (hanti : bsp e (logicalX2 R C) = true) : R.toNat ≤ wt e := by
  have hR' : (0 : Int) < R := by omega
  have hC' : (0 : Int) < C := by omega
  apply wt_ge_of_grid (nq R C) e he R.toNat C.toNat (fun i j => flatNat R C (1, (i : Int), (j : Int)))
    (fun i j => tbit R C e P1.X (1, (i : Int), (j : Int)))
  · intro i j _ _ hb
    exact tbit_acts R C hR' hC' e _ _ hb
  · intro i j i' j' hi hj hi' hj' h
    exact (flat_inj_col R C hR' hC' 1 i j i' j' (by omega) (by omega) (by omega) (by omega) h).1
  · intro i hi
    -- dual plaquettes (1, i, j): rails (1, i, j), (1, i+1, j); rungs the lattice-0 sites (i+1, j-1), (i+1, j)
    apply strip_parity C.toNat _ _ (fun j => tbit R C e P1.X (2, ((i + 1 : Nat) : Int), (j : Int) - 1))
    · intro j hj
      have := stab_parity R C hR' hC' e he hcomm (1, (i : Int), (j : Int)) (by unfold InLattice; simp only; omega)
      simp only [show ¬ ((1 : Int) = 0) by omega, if_false] at this
      rw [show ((1 : Int) + 1) = 2 from rfl, show ((i : Int) + 1) = ((i + 1 : Nat) : Int) by push_cast; rfl,
        show ((j : Int) - 1 + 1) = ((j + 1 : Nat) : Int) - 1 by push_cast; omega] at this
      exact regroup_rails_first _ _ _ _ this
    · exact tbit_periodic R C hR' hC' e _ _ _ (by
        simp only [norm, Prod.mk.injEq, true_and]
        rw [show (((0 : Nat) : Int) - 1) = ((C.toNat : Nat) : Int) - 1 - C by omega]
        exact Int.sub_emod_right _ _)
  · refine ⟨(R / 2).toNat, by omega, ?_⟩
    unfold logicalX2 logicalX2Sites at hanti
    rw [bsp_siteop R C hR' hC' e he, xorSum_map] at hanti
    refine Eq.trans ?_ hanti
    apply xorSum_congr
    intro j _
    rw [show (((R / 2).toNat : Nat) : Int) = R / 2 by omega]; rfl

end

/-- **toric lower bound**: every non-trivial logical has weight at least `min R C` -/
theorem lower (R C : Int) (hR : 2 ≤ R) (hC : 2 ≤ C) (e : BVec) (he : e.length = 2 * (nQubits R C).toNat)
    (h : IsLogical (stabilizers R C) (logicalXs R C ++ logicalZs R C) e) : min R C ≤ (wt e : Int) := by
  obtain ⟨hcomm, l, hl, hanti⟩ := h
  simp only [logicalXs, logicalZs, List.cons_append, List.nil_append, List.mem_cons, List.not_mem_nil,
    or_false] at hl
  rcases hl with rfl | rfl | rfl | rfl
  · have := wt_ge_X1 R C hR hC e he hcomm hanti; omega
  · have := wt_ge_X2 R C hR hC e he hcomm hanti; omega
  · have := wt_ge_Z1 R C hR hC e he hcomm hanti; omega
  · have := wt_ge_Z2 R C hR hC e he hcomm hanti; omega

end Qec.DistLower.Toric
