/-
  C10 — `RotatedPlanarRMPSDecoder._coset_probabilities` shares one partially contracted bra between the cosets I / Z̄ and
  one between X̄ / Ȳ (mode 'c'), resp. I / X̄ and Z̄ / Ȳ (mode 'r', transposed networks): helper lemmas for
  Props/C10/RotatedPlanarRmpsShared.lean.

  Route: `RotatedPlanarPauli.logical_z` acts on the sites of the LAST lattice COLUMN `x = max_site_x` only, `logical_x`
  on the sites of the BOTTOM lattice ROW `y = 0` only; the network cell `(r, c)` holds the q-node of the site
  `(x, y) = (c, R - 1 - r)` and reads the sample there only (`node_congr`), so the networks of `g` and `g·Z̄` have the
  same columns `< ncols - 1` and those of `g` and `g·X̄` the same rows `< nrows - 1`; the rest is generic
  (Lemmas/TnShared.lean).
-/
import QecVerif.Lemmas.TnShared
import QecVerif.Lemmas.RotatedPlanarRmpsFactor
namespace Qec.RotatedPlanarRmpsShared
open Qec Qec.Tensor Qec.TensorAlg Qec.TensorExact Qec.TensorPad Qec.Coset Qec.Symp Qec.RotatedPlanar
open Qec.RotatedPlanarCode Qec.RotatedPlanarRmpsTn Qec.RotatedPlanarRmpsFactor Qec.TnShared
open Qec.RotatedPlanarTn (opAt)

/-! ### 1. a site operator does not change the read-back at a site outside its site list -/

theorem opAt_xor_sites (R C : Int) (z : Bool) (l : List (Int × Int)) (f : BVec) (hf : f.length = 2 * nq R C)
    (x y : Int) (hb : inSiteBounds R C x y = true) (hocc : occ l (x, y) = false) :
    opAt R C (xorV f (sites R C (opOf z) (identity R C) l)) x y = opAt R C f x y := by
  have h1 := getD_siteop_same R C z l (x, y) hb
  have h0 := getD_siteop_other R C z l (x, y) hb
  rw [hocc] at h1
  have hlen : f.length = (sites R C (opOf z) (identity R C) l).length := by rw [hf, siteop_length]
  rw [RotatedPlanarTnLemmas.opAt_eq, RotatedPlanarTnLemmas.opAt_eq, getD_xorV _ _ hlen, getD_xorV _ _ hlen]
  cases z
  · simp only [off, Bool.false_eq_true, if_false, Nat.zero_add, Bool.not_false, if_true] at h1 h0
    rw [h1, h0, Bool.xor_false, Bool.xor_false]
  · simp only [off, Bool.false_eq_true, if_false, Nat.zero_add, Bool.not_true, if_true] at h1 h0
    rw [h1, h0, Bool.xor_false, Bool.xor_false]

/-- `logical_z` touches the last lattice column only -/
theorem opAt_xor_logicalZ (R C : Int) (f : BVec) (hf : f.length = 2 * nq R C) (x y : Int)
    (hb : inSiteBounds R C x y = true) (hx : x < C - 1) :
    opAt R C (xorV f (logicalZ R C)) x y = opAt R C f x y := by
  rw [logicalZ_eq]
  apply opAt_xor_sites R C true _ f hf x y hb
  rw [occ_colRun]
  apply decide_eq_false
  omega

/-- `logical_x` touches the bottom lattice row only -/
theorem opAt_xor_logicalX (R C : Int) (f : BVec) (hf : f.length = 2 * nq R C) (x y : Int)
    (hb : inSiteBounds R C x y = true) (hy : 0 < y) :
    opAt R C (xorV f (logicalX R C)) x y = opAt R C f x y := by
  rw [logicalX_eq]
  apply opAt_xor_sites R C false _ f hf x y hb
  rw [occ_rowRun]
  apply decide_eq_false
  omega

/-! ### 2. the cell `(r, c)` reads the sample at the site `(c, R - 1 - r)` only -/

/-- `g` and `f` carry the same operator on the site of the network cell `(r, c)` -/
def SameAt (R C : Int) (f g : BVec) (r c : ℕ) : Prop := opAt R C g (c : Int) (yr R r) = opAt R C f (c : Int) (yr R r)

theorem node_congr (R C : Int) (d : Dist Int) (f g : BVec) (r c : ℕ) (h : SameAt R C f g r c) :
    node R C d g r c = node R C d f r c := by
  unfold node
  have ey : RotatedPlanar.maxSiteY R - (r : Int) = yr R r := rfl
  simp only [ey]
  unfold SameAt at h
  rw [h]

theorem site_congr (R C : Int) (d : Dist Int) (f g : BVec) (hR : 3 ≤ R) (hC : 3 ≤ C) (r c : ℕ) (hr : r ≤ mR R)
    (hc : c ≤ nC C) (h : SameAt R C f g r c) : (rprmpsTn R C d g).site r c = (rprmpsTn R C d f).site r c := by
  rw [site_tn R C d g hR hC r c hr hc, site_tn R C d f hR hC r c hr hc, node_congr R C d f g r c h]

theorem col_congr (R C : Int) (d : Dist Int) (f g : BVec) (hR : 3 ≤ R) (hC : 3 ≤ C) (c : ℕ) (hc : c ≤ nC C)
    (h : ∀ r, r ≤ mR R → SameAt R C f g r c) : (rprmpsTn R C d g).col c = (rprmpsTn R C d f).col c := by
  unfold Net.col
  rw [nrows_tn R C d g hR, nrows_tn R C d f hR]
  apply List.map_congr_left
  intro r hr
  have hr' := List.mem_range.mp hr
  exact site_congr R C d f g hR hC r c (by omega) hc (h r (by omega))

theorem row_congr (R C : Int) (d : Dist Int) (f g : BVec) (hR : 3 ≤ R) (hC : 3 ≤ C) (r : ℕ) (hr : r ≤ mR R)
    (h : ∀ c, c ≤ nC C → SameAt R C f g r c) :
    (rprmpsTn R C d g).transpose.col r = (rprmpsTn R C d f).transpose.col r := by
  apply col_transpose_congr
  · rw [nrows_tn R C d g hR, nrows_tn R C d f hR]
  · rw [ncols_tn R C d g hC, ncols_tn R C d f hC]
  · rw [nrows_tn R C d g hR]; omega
  · intro c hc
    rw [ncols_tn R C d g hC] at hc
    exact site_congr R C d f g hR hC r c hr (by omega) (h c (by omega))

/-! ### 3. the variants -/

theorem inSite_nat (R C : Int) (hR : 3 ≤ R) (hC : 3 ≤ C) (r c : ℕ) (hr : r ≤ mR R) (hc : c ≤ nC C) :
    inSiteBounds R C (c : Int) (yr R r) = true := by
  rw [inSiteBounds_iff]; unfold SiteIn yr; unfold mR at hr; unfold nC at hc; omega

theorem sameAt_logicalZ (R C : Int) (hR : 3 ≤ R) (hC : 3 ≤ C) (f : BVec) (hf : f.length = 2 * nq R C) (r c : ℕ)
    (hr : r ≤ mR R) (hc : c < nC C) : SameAt R C f (xorV f (logicalZ R C)) r c := by
  apply opAt_xor_logicalZ R C f hf _ _ (inSite_nat R C hR hC r c hr (by omega))
  unfold nC at hc; omega

theorem sameAt_logicalX (R C : Int) (hR : 3 ≤ R) (hC : 3 ≤ C) (f : BVec) (hf : f.length = 2 * nq R C) (r c : ℕ)
    (hr : r < mR R) (hc : c ≤ nC C) : SameAt R C f (xorV f (logicalX R C)) r c := by
  apply opAt_xor_logicalX R C f hf _ _ (inSite_nat R C hR hC r c (by omega) hc)
  unfold yr; unfold mR at hr; omega

/-! ### 4. one slot -/

theorem padded (R C : Int) (d : Dist Int) (f : BVec) (hR : 3 ≤ R) (hC : 3 ≤ C) : PaddedRows (rprmpsTn R C d f) :=
  noneFree_padded _ (by rw [nrows_tn R C d f hR]; omega) (by rw [ncols_tn R C d f hC]; omega)
    (noneFree_tn R C d f hR hC)

theorem padded_transpose (R C : Int) (d : Dist Int) (f : BVec) (hR : 3 ≤ R) (hC : 3 ≤ C) :
    PaddedRows (rprmpsTn R C d f).transpose :=
  noneFree_padded _ (by show 0 < (rprmpsTn R C d f).ncols; rw [ncols_tn R C d f hC]; omega)
    (by show 0 < (rprmpsTn R C d f).nrows; rw [nrows_tn R C d f hR]; omega)
    (noneFree_transpose _ (noneFree_tn R C d f hR hC))

theorem grid_scalar (R C : Int) (d : Dist Int) (f : BVec) (hR : 3 ≤ R) (hC : 3 ≤ C)
    (hf : f.length = 2 * (RotatedPlanar.nQubits R C).toNat) :
    scalar (gridT (netF (rprmpsTn R C d f)) (mR R) (nC C)) = cosetProb d (RotatedPlanar.stabilizers R C) f := by
  have h := exactValue_eq_gridT _ _ _ (compat_tn R C d f hR hC) (compatible_tn R C d f hR hC)
  rw [exactValue_tn_eq_cosetProb R C d f hR hC hf] at h
  exact (Option.some.inj h).symm

/-- **mode 'c', one slot**: the bra of the network of `f` with the last column of the network of `g`, when `g` and `f`
    agree outside the last network column -/
theorem slot_col (R C : Int) (d : Dist Int) (f g : BVec) (hR : 3 ≤ R) (hC : 3 ≤ C)
    (hg : g.length = 2 * (RotatedPlanar.nQubits R C).toNat) (h : ∀ r c, r ≤ mR R → c < nC C → SameAt R C f g r c) :
    cosetValue (rprmpsTn R C d f) (rprmpsTn R C d g) = .ok (cosetProb d (RotatedPlanar.stabilizers R C) g) := by
  obtain ⟨n, hn⟩ : ∃ n, nC C = n + 1 := ⟨nC C - 1, by unfold nC; omega⟩
  have hc := compat_tn R C d g hR hC
  rw [← grid_scalar R C d g hR hC hg, hn]
  rw [hn] at hc
  apply cosetValue_grid _ _ _ _ hc (padded R C d g hR hC)
  · rw [ncols_tn R C d f hC, ncols_tn R C d g hC]
  · intro c hcn
    exact (col_congr R C d f g hR hC c (by omega) (fun r hr => h r c hr (by omega))).symm

/-- **mode 'r', one slot**: the same on the transposed networks, when `g` and `f` agree outside the last network row -/
theorem slot_row (R C : Int) (d : Dist Int) (f g : BVec) (hR : 3 ≤ R) (hC : 3 ≤ C)
    (hg : g.length = 2 * (RotatedPlanar.nQubits R C).toNat) (h : ∀ r c, r < mR R → c ≤ nC C → SameAt R C f g r c) :
    cosetValue (rprmpsTn R C d f).transpose (rprmpsTn R C d g).transpose
      = .ok (cosetProb d (RotatedPlanar.stabilizers R C) g) := by
  obtain ⟨n, hn⟩ : ∃ n, mR R = n + 1 := ⟨mR R - 1, by unfold mR; omega⟩
  have hc := compat_tn R C d g hR hC
  have hcT := compat_transpose _ _ _ hc
  rw [← grid_scalar R C d g hR hC hg, ← grid_scalar_transpose _ _ _ hc (padded_transpose R C d g hR hC), hn]
  rw [hn] at hcT
  apply cosetValue_grid _ _ _ _ hcT (padded_transpose R C d g hR hC)
  · show (rprmpsTn R C d f).nrows = (rprmpsTn R C d g).nrows
    rw [nrows_tn R C d f hR, nrows_tn R C d g hR]
  · intro r hrn
    exact (row_congr R C d f g hR hC r (by omega) (fun c hc' => h r c (by omega) hc')).symm

end Qec.RotatedPlanarRmpsShared
