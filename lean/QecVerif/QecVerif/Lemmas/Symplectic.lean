/-
  F6(a) — elementary symplectic linear algebra over `List Bool`, core Lean only.

  * `xorComb m cs rows` : the XOR-combination of the rows selected by the coefficient list `cs`
  * `InSpan`, `Independent` : span / linear independence phrased with `xorComb` (no dimension theory)
  * `ValidCode n k S Lx Lz` : "S, Lx, Lz describe a valid [[n,k]] stabilizer code"
  * tools: bilinearity of `bsp`, independence from destabiliser witnesses, spanning by explicit
    dependencies, logical independence from the pairing, and two constructors of `ValidCode`
    (`valid_of_destab`, `valid_of_destab_sub`) whose hypotheses are all decidable or witnesses.
  * site operators, generic over the lattice families (`gsite`, `gsites`): every family's `site` is
    `if dom i then applyOp n op v (flat i) else v`; bits of an operator built by toggling a site list,
    and `bsp` of two such operators as an overlap parity (`bsp_gsites_same`, `bsp_gsites_diff`).
-/
import QecVerif.Lemmas.GF2
import QecVerif.Model.Lattice.Common
namespace Qec.Symp
open Qec

/-! ### XOR of vectors -/

theorem zeros_length (m : Nat) : (zeros m).length = m := by simp [zeros]

theorem xorV_zeros_right (a : BVec) (m : Nat) (h : a.length = m) : xorV a (zeros m) = a := by
  subst h
  induction a with
  | nil => simp [xorV, zeros]
  | cons x xs ih =>
    simp only [xorV, zeros, List.length_cons, List.replicate_succ, List.zipWith_cons_cons, Bool.xor_false] at ih ⊢
    rw [ih]

theorem xorV_comm (a b : BVec) : xorV a b = xorV b a := by
  induction a generalizing b with
  | nil => cases b <;> simp [xorV]
  | cons x xs ih =>
    cases b with
    | nil => simp [xorV]
    | cons y ys =>
      have := ih ys
      simp only [xorV] at this
      simp only [xorV, List.zipWith_cons_cons, this, Bool.xor_comm]

theorem xorV_zeros_left (a : BVec) (m : Nat) (h : a.length = m) : xorV (zeros m) a = a := by
  rw [xorV_comm, xorV_zeros_right a m h]

theorem xorV_assoc (a b c : BVec) : xorV (xorV a b) c = xorV a (xorV b c) := by
  induction a generalizing b c with
  | nil => simp [xorV]
  | cons x xs ih =>
    cases b with
    | nil => simp [xorV]
    | cons y ys =>
      cases c with
      | nil => simp [xorV]
      | cons z zs =>
        have := ih ys zs
        simp only [xorV] at this
        simp only [xorV, List.zipWith_cons_cons, this, Bool.xor_assoc]

theorem xorV_self (a : BVec) : xorV a a = zeros a.length := by
  induction a with
  | nil => simp [xorV, zeros]
  | cons x xs ih =>
    simp only [xorV, zeros] at ih
    simp only [xorV, zeros, List.zipWith_cons_cons, List.length_cons, List.replicate_succ, Bool.xor_self]
    rw [ih]

/-- `(a ⊕ x) ⊕ (a ⊕ y) = x ⊕ y` for equal lengths -/
theorem xorV_cancel (a x y : BVec) (h1 : a.length = x.length) (h2 : x.length = y.length) :
    xorV (xorV a x) (xorV a y) = xorV x y := by
  rw [xorV_comm a x, xorV_assoc, ← xorV_assoc a a y, xorV_self, xorV_zeros_left y _ (by omega)]

theorem getD_xorV (a b : BVec) (h : a.length = b.length) (i : Nat) :
    (xorV a b).getD i false = (a.getD i false ^^ b.getD i false) := by
  induction a generalizing b i with
  | nil => cases b with
    | nil => simp [xorV]
    | cons _ _ => simp at h
  | cons x xs ih => cases b with
    | nil => simp at h
    | cons y ys =>
      simp only [List.length_cons, Nat.add_right_cancel_iff] at h
      cases i with
      | zero => simp [xorV]
      | succ i =>
        have := ih ys h i
        simp only [xorV] at this
        simpa [xorV] using this

theorem getD_zeros (m i : Nat) : (zeros m).getD i false = false := by
  simp only [zeros, List.getD_eq_getElem?_getD, List.getElem?_replicate]
  split <;> rfl

/-! ### bilinearity of `bsp` -/

theorem swap_xorV (a b : BVec) (h : a.length = b.length) :
    zHalf (xorV a b) ++ xHalf (xorV a b) = xorV (zHalf a ++ xHalf a) (zHalf b ++ xHalf b) := by
  rw [zHalf_xorV a b h, xHalf_xorV a b h]
  have hz : (zHalf a).length = (zHalf b).length := by rw [zHalf_length, zHalf_length, h]
  simp only [xorV]
  rw [List.zipWith_append hz]

theorem bsp_xorV_left (a b c : BVec) (h : a.length = b.length) :
    bsp (xorV a b) c = (bsp a c ^^ bsp b c) := by
  unfold bsp
  rw [swap_xorV a b h]
  apply dot_xorV_left
  simp only [List.length_append, zHalf_length, xHalf_length, h]

theorem bsp_xorV_right (a b c : BVec) (h : b.length = c.length) :
    bsp a (xorV b c) = (bsp a b ^^ bsp a c) := by
  unfold bsp
  exact dot_xorV_right _ _ _ h

theorem dot_zeros_left (m : Nat) (b : BVec) : dot (zeros m) b = false := by
  induction m generalizing b with
  | zero => simp [zeros]
  | succ m ih =>
    cases b with
    | nil => simp
    | cons y ys =>
      have := ih ys
      simp only [zeros] at this
      simp [zeros, List.replicate_succ, this]

theorem dot_zeros_right (m : Nat) (a : BVec) : dot a (zeros m) = false := by
  rw [dot_comm, dot_zeros_left]

theorem bsp_zeros_left (m : Nat) (b : BVec) : bsp (zeros m) b = false := by
  unfold bsp
  have : zHalf (zeros m) ++ xHalf (zeros m) = zeros ((m - m / 2) + min (m / 2) m) := by
    simp [zHalf, xHalf, zeros]
  rw [this, dot_zeros_left]

theorem bsp_zeros_right (m : Nat) (a : BVec) : bsp a (zeros m) = false := by
  unfold bsp; exact dot_zeros_right _ _

/-- `bsp` is symmetric on vectors of the same even length -/
theorem bsp_comm (a b : BVec) (h : a.length = b.length) (he : a.length % 2 = 0) : bsp a b = bsp b a := by
  rw [bsp_halves a b h he, bsp_halves b a h.symm (h ▸ he), dot_comm (zHalf a), dot_comm (xHalf a), Bool.xor_comm]

/-! ### XOR-combinations, span, independence -/

/-- XOR of the rows `rows[i]` with `cs[i] = true`, starting from the zero vector of length `m`
    (the shorter of the two lists decides how many rows are looked at) -/
def xorComb (m : Nat) : List Bool → List BVec → BVec
  | c :: cs, r :: rows => if c then xorV r (xorComb m cs rows) else xorComb m cs rows
  | _, _ => zeros m

/-- `bsp (xorComb m cs rows) d`, computed row by row -/
def combBsp (d : BVec) : List Bool → List BVec → Bool
  | c :: cs, r :: rows => (c && bsp r d) ^^ combBsp d cs rows
  | _, _ => false

/-- every row has length `m` -/
def AllLen (m : Nat) (rows : List BVec) : Prop := ∀ r ∈ rows, r.length = m
instance (m : Nat) (rows : List BVec) : Decidable (AllLen m rows) := by unfold AllLen; infer_instance

/-- every row of `A` commutes with every row of `B` -/
def CommAll (A B : List BVec) : Prop := ∀ a ∈ A, ∀ b ∈ B, bsp a b = false
instance (A B : List BVec) : Decidable (CommAll A B) := by unfold CommAll; infer_instance

/-- `bsp A[i] B[j] = (i = j)` for `i, j < k` -/
def PairingId (A B : List BVec) (k : Nat) : Prop :=
  ∀ i, i < k → ∀ j, j < k → bsp (A.getD i []) (B.getD j []) = decide (i = j)
instance (A B : List BVec) (k : Nat) : Decidable (PairingId A B k) := by unfold PairingId; infer_instance

/-- `v` is a XOR-combination of `rows` -/
def InSpan (m : Nat) (rows : List BVec) (v : BVec) : Prop :=
  ∃ cs : List Bool, cs.length = rows.length ∧ xorComb m cs rows = v

/-- only the trivial XOR-combination of `rows` vanishes -/
def Independent (m : Nat) (rows : List BVec) : Prop :=
  ∀ cs : List Bool, cs.length = rows.length → xorComb m cs rows = zeros m → ∀ c ∈ cs, c = false

@[simp] theorem xorComb_nil_left (m : Nat) (rows : List BVec) : xorComb m [] rows = zeros m := by
  simp [xorComb]
@[simp] theorem xorComb_nil_right (m : Nat) (cs : List Bool) : xorComb m cs [] = zeros m := by
  cases cs <;> simp [xorComb]
@[simp] theorem xorComb_cons (m : Nat) (c : Bool) (cs : List Bool) (r : BVec) (rows : List BVec) :
    xorComb m (c :: cs) (r :: rows) = if c then xorV r (xorComb m cs rows) else xorComb m cs rows := by
  simp [xorComb]
@[simp] theorem combBsp_nil_left (d : BVec) (rows : List BVec) : combBsp d [] rows = false := by
  simp [combBsp]
@[simp] theorem combBsp_nil_right (d : BVec) (cs : List Bool) : combBsp d cs [] = false := by
  cases cs <;> simp [combBsp]
@[simp] theorem combBsp_cons (d : BVec) (c : Bool) (cs : List Bool) (r : BVec) (rows : List BVec) :
    combBsp d (c :: cs) (r :: rows) = ((c && bsp r d) ^^ combBsp d cs rows) := by
  simp [combBsp]

theorem AllLen.tail {m : Nat} {r : BVec} {rows : List BVec} (h : AllLen m (r :: rows)) : AllLen m rows :=
  fun x hx => h x (List.mem_cons_of_mem _ hx)
theorem AllLen.head {m : Nat} {r : BVec} {rows : List BVec} (h : AllLen m (r :: rows)) : r.length = m :=
  h r List.mem_cons_self
theorem AllLen.append {m : Nat} {A B : List BVec} (hA : AllLen m A) (hB : AllLen m B) : AllLen m (A ++ B) := by
  intro r hr
  rcases List.mem_append.mp hr with h | h
  · exact hA r h
  · exact hB r h
theorem AllLen.sublist {m : Nat} {A B : List BVec} (h : A.Sublist B) (hB : AllLen m B) : AllLen m A :=
  fun r hr => hB r (h.subset hr)

theorem xorComb_length (m : Nat) (cs : List Bool) (rows : List BVec) (h : AllLen m rows) :
    (xorComb m cs rows).length = m := by
  induction cs generalizing rows with
  | nil => simp [zeros_length]
  | cons c cs ih =>
    cases rows with
    | nil => simp [zeros_length]
    | cons r rows =>
      simp only [xorComb_cons]
      split
      · rw [xorV_length _ _ (by rw [ih rows h.tail, h.head]), h.head]
      · exact ih rows h.tail

/-- **bilinearity**: `bsp` of a XOR-combination is the XOR of the selected `bsp`s -/
theorem bsp_xorComb_left (m : Nat) (cs : List Bool) (rows : List BVec) (d : BVec) (h : AllLen m rows) :
    bsp (xorComb m cs rows) d = combBsp d cs rows := by
  induction cs generalizing rows with
  | nil => simp [bsp_zeros_left]
  | cons c cs ih =>
    cases rows with
    | nil => simp [bsp_zeros_left]
    | cons r rows =>
      simp only [xorComb_cons, combBsp_cons]
      cases c with
      | true =>
        simp only [if_true, Bool.true_and]
        rw [bsp_xorV_left _ _ _ (by rw [xorComb_length m cs rows h.tail, h.head]), ih rows h.tail]
      | false => simp [ih rows h.tail]

/-- bit `i` of a XOR-combination is the XOR of the selected rows' bits -/
theorem getD_xorComb (m : Nat) (cs : List Bool) (rows : List BVec) (h : AllLen m rows) (i : Nat) :
    (xorComb m cs rows).getD i false =
      (List.zipWith (fun c (r : BVec) => c && r.getD i false) cs rows).foldr xor false := by
  induction cs generalizing rows with
  | nil =>
    simp only [xorComb_nil_left, List.zipWith_nil_left, List.foldr_nil]
    exact getD_zeros m i
  | cons c cs ih =>
    cases rows with
    | nil =>
      simp only [xorComb_nil_right, List.zipWith_nil_right, List.foldr_nil]
      exact getD_zeros m i
    | cons r rows =>
      simp only [xorComb_cons, List.zipWith_cons_cons, List.foldr_cons]
      cases c with
      | true =>
        simp only [if_true, Bool.true_and]
        rw [getD_xorV _ _ (by rw [xorComb_length m cs rows h.tail, h.head]), ih rows h.tail]
      | false =>
        simp only [Bool.false_eq_true, if_false, Bool.false_and, Bool.false_xor]
        exact ih rows h.tail

theorem combBsp_of_comm (d : BVec) (cs : List Bool) (rows : List BVec) (h : ∀ r ∈ rows, bsp r d = false) :
    combBsp d cs rows = false := by
  induction cs generalizing rows with
  | nil => simp
  | cons c cs ih =>
    cases rows with
    | nil => simp
    | cons r rows =>
      simp only [combBsp_cons, h r List.mem_cons_self, Bool.and_false, Bool.false_xor]
      exact ih rows (fun x hx => h x (List.mem_cons_of_mem _ hx))

theorem combBsp_append (d : BVec) (cs : List Bool) (A B : List BVec) :
    combBsp d cs (A ++ B) = (combBsp d (cs.take A.length) A ^^ combBsp d (cs.drop A.length) B) := by
  induction A generalizing cs with
  | nil => simp
  | cons a A ih =>
    cases cs with
    | nil => simp
    | cons c cs => simp [ih cs]

/-! ### independence from destabiliser witnesses -/

/-- index-free form: rows `f p` for `p` in a duplicate-free index list, with witnesses `g q` such that
    `bsp (f p) (g q) = (p = q)`, are independent -/
theorem independent_of_destab {ι : Type} [DecidableEq ι] (m : Nat) (idx : List ι) (f g : ι → BVec)
    (hnd : idx.Nodup) (hlen : ∀ p ∈ idx, (f p).length = m)
    (h : ∀ p ∈ idx, ∀ q ∈ idx, bsp (f p) (g q) = decide (p = q)) :
    Independent m (idx.map f) := by
  induction idx with
  | nil =>
    intro cs hcs _ c hc
    simp only [List.map_nil, List.length_nil, List.length_eq_zero_iff] at hcs
    simp [hcs] at hc
  | cons p rest ih =>
    intro cs hcs hz
    cases cs with
    | nil => simp at hcs
    | cons c cs =>
      simp only [List.map_cons, List.length_cons, Nat.add_right_cancel_iff] at hcs
      have hnd' := List.nodup_cons.mp hnd
      have hall : AllLen m ((p :: rest).map f) := by
        intro r hr
        rcases List.mem_map.mp hr with ⟨q, hq, rfl⟩
        exact hlen q hq
      -- pair the vanishing combination with the witness of `p`
      have hb := bsp_xorComb_left m (c :: cs) ((p :: rest).map f) (g p) hall
      rw [hz, bsp_zeros_left] at hb
      have hrest : combBsp (g p) cs (rest.map f) = false := by
        apply combBsp_of_comm
        intro r hr
        rcases List.mem_map.mp hr with ⟨q, hq, rfl⟩
        rw [h q (List.mem_cons_of_mem _ hq) p List.mem_cons_self]
        have : q ≠ p := fun e => hnd'.1 (e ▸ hq)
        simp [this]
      simp only [List.map_cons, combBsp_cons, hrest, Bool.xor_false,
        h p List.mem_cons_self p List.mem_cons_self, decide_true, Bool.and_true] at hb
      have hc : c = false := hb.symm
      subst hc
      simp only [List.map_cons, xorComb_cons] at hz
      have := ih hnd'.2 (fun q hq => hlen q (List.mem_cons_of_mem _ hq))
        (fun a ha b hb => h a (List.mem_cons_of_mem _ ha) b (List.mem_cons_of_mem _ hb)) cs hcs
        (by simpa using hz)
      intro c hc
      rcases List.mem_cons.mp hc with rfl | hc
      · rfl
      · exact this c hc

theorem map_getD_range (S : List BVec) : (List.range S.length).map (fun i => S.getD i []) = S := by
  apply List.ext_getElem
  · simp
  · intro i h1 h2
    simp [List.getD_eq_getElem?_getD, h2]

/-- list form: a destabiliser list `D` with `bsp S[i] D[j] = (i = j)` makes `S` independent -/
theorem independent_of_pairing (m : Nat) (S D : List BVec) (hlen : AllLen m S)
    (h : PairingId S D S.length) : Independent m S := by
  have := independent_of_destab m (List.range S.length) (fun i => S.getD i []) (fun j => D.getD j [])
    List.nodup_range
    (by
      intro i hi
      have hi' := List.mem_range.mp hi
      apply hlen
      simp [List.getD_eq_getElem?_getD, hi'])
    (by
      intro i hi j hj
      exact h i (List.mem_range.mp hi) j (List.mem_range.mp hj))
  rwa [map_getD_range] at this

/-- with a pairing partner list, pairing a XOR-combination with partner `j` reads off coefficient `j` -/
theorem combBsp_eq_coeff (A B : List BVec) (cs : List Bool) (hcs : cs.length = A.length)
    (h : PairingId A B A.length) (j : Nat) (hj : j < A.length) :
    combBsp (B.getD j []) cs A = cs.getD j false := by
  induction A generalizing B cs j with
  | nil => simp at hj
  | cons a A ih =>
    cases cs with
    | nil => simp at hcs
    | cons c cs =>
      simp only [List.length_cons, Nat.add_right_cancel_iff] at hcs
      simp only [combBsp_cons]
      cases j with
      | zero =>
        have h0 := h 0 (by simp) 0 (by simp)
        simp only [List.getD_cons_zero] at h0
        have hrest : combBsp (B.getD 0 []) cs A = false := by
          apply combBsp_of_comm
          intro r hr
          rcases List.getElem_of_mem hr with ⟨i, hi, rfl⟩
          have := h (i + 1) (by simp; omega) 0 (by simp)
          simpa [List.getD_eq_getElem?_getD, hi] using this
        rw [h0, hrest]; simp
      | succ j =>
        have h0 := h 0 (by simp) (j + 1) (by simpa using hj)
        simp only [List.getD_cons_zero] at h0
        have hj' : j < A.length := by simpa using hj
        have hB : B.getD (j + 1) [] = (B.drop 1).getD j [] := by
          simp [List.getD_eq_getElem?_getD]
        have := ih (B.drop 1) cs hcs (by
          intro i hi k hk
          have := h (i + 1) (by simp; omega) (k + 1) (by simp; omega)
          simpa [List.getD_eq_getElem?_getD, Nat.add_comm] using this) j hj'
        rw [hB, this]
        rw [← hB, h0]
        simp

/-! ### span: explicit dependencies -/

theorem xorComb_replicate_false (m k : Nat) (rows : List BVec) :
    xorComb m (List.replicate k false) rows = zeros m := by
  induction k generalizing rows with
  | zero => simp
  | succ k ih =>
    cases rows with
    | nil => simp
    | cons r rows => simp [List.replicate_succ, ih rows]

theorem inSpan_zero (m : Nat) (rows : List BVec) : InSpan m rows (zeros m) :=
  ⟨List.replicate rows.length false, by simp, xorComb_replicate_false _ _ _⟩

theorem inSpan_cons (m : Nat) (r : BVec) (rows : List BVec) (v : BVec) (h : InSpan m rows v) :
    InSpan m (r :: rows) v := by
  rcases h with ⟨cs, hcs, hv⟩
  exact ⟨false :: cs, by simp [hcs], by simp [hv]⟩

/-- a row lies in the span of its list -/
theorem inSpan_mem (m : Nat) (rows : List BVec) (hlen : AllLen m rows) (r : BVec) (hr : r ∈ rows) :
    InSpan m rows r := by
  induction rows with
  | nil => simp at hr
  | cons x rows ih =>
    rcases List.mem_cons.mp hr with rfl | hr
    · refine ⟨true :: List.replicate rows.length false, by simp, ?_⟩
      simp [xorComb_replicate_false, xorV_zeros_right _ _ hlen.head]
    · exact inSpan_cons m x rows r (ih hlen.tail hr)

/-- the span of a sub-list is contained in the span of the list -/
theorem inSpan_sublist (m : Nat) (A B : List BVec) (h : A.Sublist B) (v : BVec) (hv : InSpan m A v) :
    InSpan m B v := by
  induction h generalizing v with
  | slnil => exact hv
  | cons a _ ih => exact inSpan_cons m a _ v (ih v hv)
  | cons_cons a _ ih =>
    rcases hv with ⟨cs, hcs, hv⟩
    cases cs with
    | nil => simp at hcs
    | cons c cs =>
      simp only [List.length_cons, Nat.add_right_cancel_iff] at hcs
      rcases ih (xorComb m cs _) ⟨cs, hcs, rfl⟩ with ⟨ds, hds, hd⟩
      refine ⟨c :: ds, by simp [hds], ?_⟩
      simp only [xorComb_cons] at hv ⊢
      rw [hd]; exact hv

theorem xorComb_zipWith_xor (m : Nat) (cs ds : List Bool) (rows : List BVec) (hlen : AllLen m rows)
    (h1 : cs.length = rows.length) (h2 : ds.length = rows.length) :
    xorComb m (List.zipWith xor cs ds) rows = xorV (xorComb m cs rows) (xorComb m ds rows) := by
  induction rows generalizing cs ds with
  | nil => simp [xorV_zeros_right _ _ (zeros_length m)]
  | cons r rows ih =>
    cases cs with
    | nil => simp at h1
    | cons c cs =>
      cases ds with
      | nil => simp at h2
      | cons d ds =>
        simp only [List.length_cons, Nat.add_right_cancel_iff] at h1 h2
        have hx := xorComb_length m cs rows hlen.tail
        have hy := xorComb_length m ds rows hlen.tail
        have hr := hlen.head
        simp only [List.zipWith_cons_cons, xorComb_cons, ih cs ds hlen.tail h1 h2]
        cases c <;> cases d <;> simp only [Bool.xor_false, Bool.xor_true, Bool.not_false, Bool.not_true,
          if_true, if_false, Bool.false_eq_true]
        · rw [← xorV_assoc r, xorV_comm r (xorComb m cs rows), xorV_assoc]
        · rw [xorV_assoc]
        · rw [xorV_cancel _ _ _ (by omega) (by omega)]

/-- the span is closed under XOR -/
theorem inSpan_xor (m : Nat) (rows : List BVec) (hlen : AllLen m rows) (a b : BVec)
    (ha : InSpan m rows a) (hb : InSpan m rows b) : InSpan m rows (xorV a b) := by
  rcases ha with ⟨cs, hcs, rfl⟩
  rcases hb with ⟨ds, hds, rfl⟩
  exact ⟨List.zipWith xor cs ds, by simp [hcs, hds], xorComb_zipWith_xor m cs ds rows hlen hcs hds⟩

/-- a XOR-combination of vectors of the span lies in the span -/
theorem inSpan_xorComb (m : Nat) (rows : List BVec) (hlen : AllLen m rows) (cs : List Bool) (vs : List BVec)
    (h : ∀ v ∈ vs, InSpan m rows v) : InSpan m rows (xorComb m cs vs) := by
  induction cs generalizing vs with
  | nil => simpa using inSpan_zero m rows
  | cons c cs ih =>
    cases vs with
    | nil => simpa using inSpan_zero m rows
    | cons v vs =>
      simp only [xorComb_cons]
      have := ih vs (fun x hx => h x (List.mem_cons_of_mem _ hx))
      split
      · exact inSpan_xor m rows hlen _ _ (h v List.mem_cons_self) this
      · exact this

/-- **spanning by explicit dependencies**: if every row of `A` lies in the span of `B`, so does the span of `A` -/
theorem inSpan_trans (m : Nat) (A B : List BVec) (hB : AllLen m B) (h : ∀ a ∈ A, InSpan m B a) (v : BVec)
    (hv : InSpan m A v) : InSpan m B v := by
  rcases hv with ⟨cs, _, rfl⟩
  exact inSpan_xorComb m B hB cs A h


/-! ### site operators, generic over the lattice families

Every family builds its operators by folding `site op · i` over a list of lattice indices into the identity,
where `site op v i = if dom i then applyOp n op v (flat i) else v` (`dom` = in-bounds test, constantly `true`
on the tori; `flat` = flat qubit index, with any index normalisation folded in). -/

/-- XOR of `f` over a list -/
def xorSum {α : Type} (l : List α) (f : α → Bool) : Bool := l.foldr (fun x acc => f x ^^ acc) false
@[simp] theorem xorSum_nil {α : Type} (f : α → Bool) : xorSum [] f = false := rfl
@[simp] theorem xorSum_cons {α : Type} (x : α) (l : List α) (f : α → Bool) :
    xorSum (x :: l) f = (f x ^^ xorSum l f) := rfl
theorem xorSum_append {α : Type} (l1 l2 : List α) (f : α → Bool) :
    xorSum (l1 ++ l2) f = (xorSum l1 f ^^ xorSum l2 f) := by
  induction l1 with
  | nil => simp
  | cons x l ih => simp [ih]
theorem xorSum_congr {α : Type} (l : List α) (f g : α → Bool) (h : ∀ x ∈ l, f x = g x) :
    xorSum l f = xorSum l g := by
  induction l with
  | nil => rfl
  | cons x l ih =>
    simp only [xorSum_cons, h x List.mem_cons_self, ih (fun y hy => h y (List.mem_cons_of_mem _ hy))]
theorem xorSum_false {α : Type} (l : List α) (f : α → Bool) (h : ∀ x ∈ l, f x = false) :
    xorSum l f = false := by
  induction l with
  | nil => rfl
  | cons x l ih =>
    simp only [xorSum_cons, h x List.mem_cons_self, ih (fun y hy => h y (List.mem_cons_of_mem _ hy)), Bool.xor_false]
theorem xorSum_map {α β : Type} (l : List α) (g : α → β) (f : β → Bool) :
    xorSum (l.map g) f = xorSum l (fun x => f (g x)) := by
  induction l with
  | nil => rfl
  | cons x l ih => simp [ih]

/-- XOR of two decided propositions (the work-horse for overlap parities: rewrite every term to a
    `decide (linear arithmetic)`, combine with this lemma, finish with `omega`) -/
theorem xor_decide (p q : Prop) [Decidable p] [Decidable q] : (decide p ^^ decide q) = decide ¬(p ↔ q) := by
  by_cases hp : p <;> by_cases hq : q <;> simp [hp, hq]

theorem xorSum_range_eq (k j : Nat) : xorSum (List.range k) (fun i => decide (i = j)) = decide (j < k) := by
  induction k with
  | zero => simp
  | succ k ih =>
    rw [List.range_succ, xorSum_append, ih]
    simp only [xorSum_cons, xorSum_nil, Bool.xor_false, xor_decide]
    apply decide_eq_decide.mpr; omega

theorem toggle_length (v : BVec) (i : Nat) : (toggle v i).length = v.length := by simp [toggle]

theorem getD_toggle (v : BVec) (i j : Nat) (hi : i < v.length) :
    (toggle v i).getD j false = (v.getD j false ^^ decide (i = j)) := by
  simp only [toggle, List.getD_eq_getElem?_getD, List.getElem?_modify]
  by_cases h : i = j
  · subst h; simp [hi]
  · simp [h]

theorem toggle_cons_zero (y : Bool) (ys : BVec) : toggle (y :: ys) 0 = (!y) :: ys := by
  simp [toggle]
theorem toggle_cons_succ (y : Bool) (ys : BVec) (i : Nat) : toggle (y :: ys) (i + 1) = y :: toggle ys i := by
  simp [toggle]

/-- the *toggle lemma*: `dot w (toggle v i) = dot w v ^^ w[i]` -/
theorem dot_toggle (w v : BVec) (i : Nat) (hi : i < v.length) :
    dot w (toggle v i) = (dot w v ^^ w.getD i false) := by
  induction w generalizing v i with
  | nil => simp
  | cons x xs ih =>
    cases v with
    | nil => simp at hi
    | cons y ys =>
      cases i with
      | zero =>
        rw [toggle_cons_zero]
        simp only [dot_cons, List.getD_cons_zero]
        cases x <;> cases y <;> cases dot xs ys <;> rfl
      | succ i =>
        rw [toggle_cons_succ]
        simp only [dot_cons, List.getD_cons_succ]
        rw [ih ys i (by simpa using hi)]
        cases x <;> cases y <;> cases dot xs ys <;> cases xs.getD i false <;> rfl

theorem swap_getD_lo (a : BVec) (n f : Nat) (ha : a.length = 2 * n) (hf : f < n) :
    (zHalf a ++ xHalf a).getD f false = a.getD (n + f) false := by
  have h2 : a.length / 2 = n := by omega
  simp only [zHalf, xHalf, h2, List.getD_eq_getElem?_getD]
  rw [List.getElem?_append_left (by simp; omega), List.getElem?_drop]

theorem swap_getD_hi (a : BVec) (n f : Nat) (ha : a.length = 2 * n) (hf : f < n) :
    (zHalf a ++ xHalf a).getD (n + f) false = a.getD f false := by
  have h2 : a.length / 2 = n := by omega
  simp only [zHalf, xHalf, h2, List.getD_eq_getElem?_getD]
  rw [List.getElem?_append_right (by simp; omega), List.getElem?_take_of_lt (by simp; omega)]
  congr 2
  simp; omega

/-- X-type (`false`) or Z-type (`true`) operator -/
def opOf (z : Bool) : P1 := if z then P1.Z else P1.X
/-- offset of the toggled half of an n-qubit bsf: X toggles `[0,n)`, Z toggles `[n,2n)` -/
def off (n : Nat) (z : Bool) : Nat := if z then n else 0

section SiteOps
variable {ι : Type}

/-- the common shape of every family's `site(operator, index)` -/
def gsite (n : Nat) (dom : ι → Bool) (flat : ι → Nat) (op : P1) (v : BVec) (i : ι) : BVec :=
  if dom i then applyOp n op v (flat i) else v
/-- the common shape of every family's `site(operator, *indices)` -/
def gsites (n : Nat) (dom : ι → Bool) (flat : ι → Nat) (op : P1) (v : BVec) (l : List ι) : BVec :=
  l.foldl (gsite n dom flat op) v

/-- every in-domain entry of the list has a flat index below `n` -/
def FlatLt (n : Nat) (dom : ι → Bool) (flat : ι → Nat) (l : List ι) : Prop :=
  ∀ i ∈ l, dom i = true → flat i < n

/-- parity of the number of in-domain entries of `l` with flat index `j` -/
def occF (dom : ι → Bool) (flat : ι → Nat) (l : List ι) (j : Nat) : Bool :=
  xorSum l (fun i => dom i && decide (flat i = j))

variable (n : Nat) (dom : ι → Bool) (flat : ι → Nat)

theorem gsite_opOf (z : Bool) (v : BVec) (i : ι) :
    gsite n dom flat (opOf z) v i = if dom i then toggle v (off n z + flat i) else v := by
  cases z <;> simp [gsite, applyOp, opOf, off, P1.xBit, P1.zBit]

theorem gsite_length (op : P1) (v : BVec) (i : ι) : (gsite n dom flat op v i).length = v.length := by
  simp only [gsite, applyOp]
  split
  · split <;> split <;> simp [toggle_length]
  · rfl

theorem gsites_cons (op : P1) (v : BVec) (i : ι) (l : List ι) :
    gsites n dom flat op v (i :: l) = gsites n dom flat op (gsite n dom flat op v i) l := rfl

theorem gsites_length (op : P1) (v : BVec) (l : List ι) : (gsites n dom flat op v l).length = v.length := by
  induction l generalizing v with
  | nil => rfl
  | cons i l ih => rw [gsites_cons, ih, gsite_length]

theorem FlatLt.tail {n : Nat} {dom : ι → Bool} {flat : ι → Nat} {i : ι} {l : List ι}
    (h : FlatLt n dom flat (i :: l)) : FlatLt n dom flat l :=
  fun x hx => h x (List.mem_cons_of_mem _ hx)

theorem off_flat_lt (z : Bool) (j : Nat) (h : j < n) : off n z + j < 2 * n := by
  unfold off; split <;> omega

/-- bit `j` of an operator built by toggling a site list into `v` -/
theorem getD_gsites (z : Bool) (v : BVec) (hv : v.length = 2 * n) (l : List ι) (hl : FlatLt n dom flat l)
    (j : Nat) :
    (gsites n dom flat (opOf z) v l).getD j false =
      (v.getD j false ^^ xorSum l (fun i => dom i && decide (off n z + flat i = j))) := by
  induction l generalizing v with
  | nil => simp [gsites]
  | cons i l ih =>
    rw [gsites_cons, ih _ (by rw [gsite_length]; exact hv) hl.tail, gsite_opOf, xorSum_cons]
    by_cases hb : dom i = true
    · rw [if_pos hb, getD_toggle _ _ _ (by rw [hv]; exact off_flat_lt n z _ (hl i List.mem_cons_self hb))]
      simp [hb]
    · rw [if_neg hb]
      simp [hb]

/-- `bsp a ·` of an operator built by toggling a site list into `v`: each in-domain entry contributes
    the bit of `a` in the opposite half -/
theorem bsp_gsites_right (a : BVec) (ha : a.length = 2 * n) (z : Bool) (v : BVec) (hv : v.length = 2 * n)
    (l : List ι) (hl : FlatLt n dom flat l) :
    bsp a (gsites n dom flat (opOf z) v l) =
      (bsp a v ^^ xorSum l (fun i => dom i && a.getD (off n (!z) + flat i) false)) := by
  induction l generalizing v with
  | nil => simp [gsites]
  | cons i l ih =>
    rw [gsites_cons, ih _ (by rw [gsite_length]; exact hv) hl.tail, gsite_opOf, xorSum_cons]
    by_cases hb : dom i = true
    · have hf := hl i List.mem_cons_self hb
      rw [if_pos hb]
      have : bsp a (toggle v (off n z + flat i)) = (bsp a v ^^ a.getD (off n (!z) + flat i) false) := by
        unfold bsp
        rw [dot_toggle _ _ _ (by rw [hv]; exact off_flat_lt n z _ hf)]
        congr 1
        cases z
        · simp only [off, Bool.false_eq_true, if_false, Nat.zero_add, Bool.not_false, if_true]
          exact swap_getD_lo a _ _ ha hf
        · simp only [off, if_true, Bool.not_true, Bool.false_eq_true, if_false, Nat.zero_add]
          exact swap_getD_hi a _ _ ha hf
      rw [this]
      simp [hb]
    · rw [if_neg hb]
      simp [hb]

/-- bit `j` of the own half of an X- or Z-type site operator: parity of the entries with flat index `j` -/
theorem getD_gsiteop_same (z : Bool) (l : List ι) (hl : FlatLt n dom flat l) (j : Nat) :
    (gsites n dom flat (opOf z) (zeros (2 * n)) l).getD (off n z + j) false = occF dom flat l j := by
  rw [getD_gsites n dom flat z _ (zeros_length _) l hl, getD_zeros, Bool.false_xor]
  unfold occF
  apply xorSum_congr
  intro i _
  congr 1
  apply decide_eq_decide.mpr; omega

/-- the other half of an X- or Z-type site operator is zero -/
theorem getD_gsiteop_other (z : Bool) (l : List ι) (hl : FlatLt n dom flat l) (j : Nat) (hj : j < n) :
    (gsites n dom flat (opOf z) (zeros (2 * n)) l).getD (off n (!z) + j) false = false := by
  rw [getD_gsites n dom flat z _ (zeros_length _) l hl, getD_zeros, Bool.false_xor]
  apply xorSum_false
  intro i hi
  by_cases hb : dom i = true
  · have f := hl i hi hb
    have : ¬ (off n z + flat i = off n (!z) + j) := by
      cases z <;> simp only [off, if_true, if_false, Bool.not_true, Bool.not_false, Bool.false_eq_true] <;> omega
    simp [this]
  · simp [hb]

theorem gsiteop_length (z : Bool) (l : List ι) : (gsites n dom flat (opOf z) (zeros (2 * n)) l).length = 2 * n := by
  rw [gsites_length, zeros_length]

/-- `bsp` of two site operators of the same type (X–X or Z–Z) vanishes -/
theorem bsp_gsites_same (z : Bool) (l1 l2 : List ι) (h1 : FlatLt n dom flat l1) (h2 : FlatLt n dom flat l2) :
    bsp (gsites n dom flat (opOf z) (zeros (2 * n)) l1) (gsites n dom flat (opOf z) (zeros (2 * n)) l2) = false := by
  rw [bsp_gsites_right n dom flat _ (gsiteop_length n dom flat z l1) z _ (zeros_length _) l2 h2,
    bsp_zeros_right, Bool.false_xor]
  apply xorSum_false
  intro i hi
  by_cases hb : dom i = true
  · rw [getD_gsiteop_other n dom flat z l1 h1 _ (h2 i hi hb), Bool.and_false]
  · simp [hb]

/-- `bsp` of an X-type and a Z-type site operator (either order): parity of the number of pairs of in-domain
    entries with equal flat index -/
theorem bsp_gsites_diff (z : Bool) (l1 l2 : List ι) (h1 : FlatLt n dom flat l1) (h2 : FlatLt n dom flat l2) :
    bsp (gsites n dom flat (opOf z) (zeros (2 * n)) l1) (gsites n dom flat (opOf (!z)) (zeros (2 * n)) l2) =
      xorSum l2 (fun i => dom i && occF dom flat l1 (flat i)) := by
  rw [bsp_gsites_right n dom flat _ (gsiteop_length n dom flat z l1) (!z) _ (zeros_length _) l2 h2,
    bsp_zeros_right, Bool.false_xor, Bool.not_not]
  apply xorSum_congr
  intro i _
  rw [getD_gsiteop_same n dom flat z l1 h1]

theorem bsp_gsites_diff' (z z' : Bool) (hz : z' = !z) (l1 l2 : List ι) (h1 : FlatLt n dom flat l1)
    (h2 : FlatLt n dom flat l2) :
    bsp (gsites n dom flat (opOf z) (zeros (2 * n)) l1) (gsites n dom flat (opOf z') (zeros (2 * n)) l2) =
      xorSum l2 (fun i => dom i && occF dom flat l1 (flat i)) := by
  subst hz; exact bsp_gsites_diff n dom flat z l1 l2 h1 h2

/-- site operators may be swapped inside `bsp` -/
theorem bsp_gsites_flip (z z' : Bool) (l l' : List ι) :
    bsp (gsites n dom flat (opOf z) (zeros (2 * n)) l) (gsites n dom flat (opOf z') (zeros (2 * n)) l') =
      bsp (gsites n dom flat (opOf z') (zeros (2 * n)) l') (gsites n dom flat (opOf z) (zeros (2 * n)) l) :=
  bsp_comm _ _ (by rw [gsiteop_length, gsiteop_length]) (by rw [gsiteop_length]; omega)

end SiteOps

/-! ### extensionality helpers for explicit dependencies -/

/-- two vectors of the same length with the same bits are equal -/
theorem bvec_ext (a b : BVec) (h : a.length = b.length)
    (hb : ∀ j, j < a.length → a.getD j false = b.getD j false) : a = b := by
  apply List.ext_getElem h
  intro j h1 h2
  have := hb j h1
  simpa [List.getD_eq_getElem?_getD, h1, h2] using this

/-- bit `j` of the XOR-combination of the rows `f p`, `p ∈ idx`, with coefficients `cs p` -/
theorem getD_xorComb_map {ι : Type} (m : Nat) (idx : List ι) (f : ι → BVec) (cs : ι → Bool)
    (hlen : ∀ p ∈ idx, (f p).length = m) (j : Nat) :
    (xorComb m (idx.map cs) (idx.map f)).getD j false = xorSum idx (fun p => cs p && (f p).getD j false) := by
  induction idx with
  | nil => simp only [List.map_nil, xorComb_nil_left, xorSum_nil]; exact getD_zeros m j
  | cons p rest ih =>
    have ih' := ih (fun q hq => hlen q (List.mem_cons_of_mem _ hq))
    have hall : AllLen m (rest.map f) := by
      intro r hr
      rcases List.mem_map.mp hr with ⟨q, hq, rfl⟩
      exact hlen q (List.mem_cons_of_mem _ hq)
    simp only [List.map_cons, xorComb_cons, xorSum_cons]
    cases h : cs p with
    | true =>
      simp only [if_true, Bool.true_and]
      rw [getD_xorV _ _ (by rw [xorComb_length m _ _ hall, hlen p List.mem_cons_self]), ih']
    | false =>
      simp only [Bool.false_eq_true, if_false, Bool.false_and, Bool.false_xor]
      exact ih'

/-- a vector whose bits are the XOR of the selected rows' bits lies in the span of the rows -/
theorem inSpan_of_bits {ι : Type} (m : Nat) (idx : List ι) (f : ι → BVec) (cs : ι → Bool) (v : BVec)
    (hlen : ∀ p ∈ idx, (f p).length = m) (hv : v.length = m)
    (hbits : ∀ j, j < m → v.getD j false = xorSum idx (fun p => cs p && (f p).getD j false)) :
    InSpan m (idx.map f) v := by
  refine ⟨idx.map cs, by simp, ?_⟩
  have hall : AllLen m (idx.map f) := by
    intro r hr
    rcases List.mem_map.mp hr with ⟨q, hq, rfl⟩
    exact hlen q hq
  apply bvec_ext
  · rw [xorComb_length m _ _ hall, hv]
  · intro j hj
    rw [xorComb_length m _ _ hall] at hj
    rw [getD_xorComb_map m idx f cs hlen j, hbits j hj]

/-! ### valid [[n,k]] codes -/

/-- the logicals are independent of the stabilizers: no non-trivial XOR-combination of `Lx ++ Lz`
    lies in the span of `S` -/
def LogicalIndep (n : Nat) (S Lx Lz : List BVec) : Prop :=
  ∀ cs : List Bool, cs.length = (Lx ++ Lz).length →
    InSpan (2 * n) S (xorComb (2 * n) cs (Lx ++ Lz)) → ∀ c ∈ cs, c = false

/-- rank of `S` is `r`: a sub-list of `r` rows is independent and spans every row of `S` -/
def HasRank (m : Nat) (S : List BVec) (r : Nat) : Prop :=
  ∃ S' : List BVec, S'.Sublist S ∧ S'.length = r ∧ Independent m S' ∧ ∀ s ∈ S, InSpan m S' s

/-- `S` (stabilizer generators), `Lx`, `Lz` (logical operators), all binary symplectic vectors of
    length `2n`, form a valid [[n,k]] stabilizer code -/
structure ValidCode (n k : Nat) (S Lx Lz : List BVec) : Prop where
  len_S : AllLen (2 * n) S
  len_Lx : AllLen (2 * n) Lx
  len_Lz : AllLen (2 * n) Lz
  stab_comm : CommAll S S
  stab_comm_Lx : CommAll S Lx
  stab_comm_Lz : CommAll S Lz
  pairing : PairingId Lx Lz k
  comm_LxLx : CommAll Lx Lx
  comm_LzLz : CommAll Lz Lz
  count_Lx : Lx.length = k
  count_Lz : Lz.length = k
  k_le_n : k ≤ n
  rank : HasRank (2 * n) S (n - k)
  logical_indep : LogicalIndep n S Lx Lz

theorem commAll_symm (m : Nat) (A B : List BVec) (hA : AllLen (2 * m) A) (hB : AllLen (2 * m) B)
    (h : CommAll A B) : CommAll B A := by
  intro b hb a ha
  rw [bsp_comm b a (by rw [hA a ha, hB b hb]) (by rw [hB b hb]; omega)]
  exact h a ha b hb

theorem getD_mem_of_lt (A : List BVec) (i : Nat) (h : i < A.length) : A.getD i [] ∈ A := by
  simp [List.getD_eq_getElem?_getD, h]

/-- **logical independence from the pairing** -/
theorem logicalIndep_of_pairing (n k : Nat) (S Lx Lz : List BVec)
    (hS : AllLen (2 * n) S) (hLx : AllLen (2 * n) Lx) (hLz : AllLen (2 * n) Lz)
    (hSx : CommAll S Lx) (hSz : CommAll S Lz) (hpair : PairingId Lx Lz k)
    (hxx : CommAll Lx Lx) (hzz : CommAll Lz Lz) (kx : Lx.length = k) (kz : Lz.length = k) :
    LogicalIndep n S Lx Lz := by
  intro cs hcs hspan
  rcases hspan with ⟨ds, _, hd⟩
  have hL : AllLen (2 * n) (Lx ++ Lz) := hLx.append hLz
  -- the partner list of `Lx ++ Lz` is `Lz ++ Lx`
  have hP : PairingId (Lx ++ Lz) (Lz ++ Lx) (Lx ++ Lz).length := by
    intro i hi j hj
    simp only [List.length_append] at hi hj
    simp only [List.getD_eq_getElem?_getD]
    by_cases h1 : i < k <;> by_cases h2 : j < k
    · rw [List.getElem?_append_left (by omega), List.getElem?_append_left (by omega)]
      simpa [List.getD_eq_getElem?_getD] using hpair i h1 j h2
    · rw [List.getElem?_append_left (by omega), List.getElem?_append_right (by omega)]
      have hm1 := getD_mem_of_lt Lx i (by omega)
      have hm2 := getD_mem_of_lt Lx (j - Lz.length) (by omega)
      have := hxx _ hm1 _ hm2
      simp only [List.getD_eq_getElem?_getD] at this
      rw [this]; symm; simp; omega
    · rw [List.getElem?_append_right (by omega), List.getElem?_append_left (by omega)]
      have hm1 := getD_mem_of_lt Lz (i - Lx.length) (by omega)
      have hm2 := getD_mem_of_lt Lz j (by omega)
      have := hzz _ hm1 _ hm2
      simp only [List.getD_eq_getElem?_getD] at this
      rw [this]; symm; simp; omega
    · rw [List.getElem?_append_right (by omega), List.getElem?_append_right (by omega)]
      have hm1 := getD_mem_of_lt Lz (i - Lx.length) (by omega)
      have hm2 := getD_mem_of_lt Lx (j - Lz.length) (by omega)
      have := hpair (j - Lz.length) (by omega) (i - Lx.length) (by omega)
      rw [bsp_comm _ _ (by rw [hLx _ hm2, hLz _ hm1]) (by rw [hLx _ hm2]; omega)] at this
      simp only [List.getD_eq_getElem?_getD] at this
      rw [this]
      apply decide_eq_decide.mpr; omega
  intro c hc
  rcases List.getElem_of_mem hc with ⟨j, hj, rfl⟩
  have hj' : j < (Lx ++ Lz).length := by omega
  -- pairing with partner `j` reads off coefficient `j` …
  have h1 := combBsp_eq_coeff (Lx ++ Lz) (Lz ++ Lx) cs hcs hP j hj'
  rw [← bsp_xorComb_left (2 * n) cs (Lx ++ Lz) _ hL] at h1
  -- … but the combination is in the span of `S`, which commutes with every logical
  rw [← hd, bsp_xorComb_left (2 * n) ds S _ hS] at h1
  have hmem : (Lz ++ Lx).getD j [] ∈ Lz ++ Lx := getD_mem_of_lt _ j (by simp at hj' ⊢; omega)
  rw [combBsp_of_comm] at h1
  · simp [List.getD_eq_getElem?_getD, hj] at h1
    exact h1
  · intro r hr
    rcases List.mem_append.mp hmem with h | h
    · exact hSz r hr _ h
    · exact hSx r hr _ h

/-- **constructor 1**: `S` has exactly `n − k` rows and a destabiliser list `D` (`bsp S[i] D[j] = (i=j)`).
    Every hypothesis is decidable. -/
theorem valid_of_destab (n k : Nat) (S Lx Lz D : List BVec)
    (hS : AllLen (2 * n) S) (hLx : AllLen (2 * n) Lx) (hLz : AllLen (2 * n) Lz)
    (hSS : CommAll S S) (hSx : CommAll S Lx) (hSz : CommAll S Lz) (hpair : PairingId Lx Lz k)
    (hxx : CommAll Lx Lx) (hzz : CommAll Lz Lz) (kx : Lx.length = k) (kz : Lz.length = k)
    (hcount : S.length + k = n) (hD : PairingId S D S.length) : ValidCode n k S Lx Lz where
  len_S := hS
  len_Lx := hLx
  len_Lz := hLz
  stab_comm := hSS
  stab_comm_Lx := hSx
  stab_comm_Lz := hSz
  pairing := hpair
  comm_LxLx := hxx
  comm_LzLz := hzz
  count_Lx := kx
  count_Lz := kz
  k_le_n := by omega
  rank := ⟨S, List.Sublist.refl S, by omega, independent_of_pairing _ S D hS hD,
    fun s hs => inSpan_mem _ S hS s hs⟩
  logical_indep := logicalIndep_of_pairing n k S Lx Lz hS hLx hLz hSx hSz hpair hxx hzz kx kz

/-- **constructor 2**: an independent sub-list `S'` of `n − k` rows (independence as a hypothesis, e.g. from
    `independent_of_destab`) that spans every row of `S` (explicit dependencies) -/
theorem valid_of_sub (n k : Nat) (S Lx Lz S' : List BVec)
    (hS : AllLen (2 * n) S) (hLx : AllLen (2 * n) Lx) (hLz : AllLen (2 * n) Lz)
    (hSS : CommAll S S) (hSx : CommAll S Lx) (hSz : CommAll S Lz) (hpair : PairingId Lx Lz k)
    (hxx : CommAll Lx Lx) (hzz : CommAll Lz Lz) (kx : Lx.length = k) (kz : Lz.length = k)
    (hsub : S'.Sublist S) (hcount : S'.length + k = n) (hind : Independent (2 * n) S')
    (hspan : ∀ s ∈ S, InSpan (2 * n) S' s) : ValidCode n k S Lx Lz where
  len_S := hS
  len_Lx := hLx
  len_Lz := hLz
  stab_comm := hSS
  stab_comm_Lx := hSx
  stab_comm_Lz := hSz
  pairing := hpair
  comm_LxLx := hxx
  comm_LzLz := hzz
  count_Lx := kx
  count_Lz := kz
  k_le_n := by omega
  rank := ⟨S', hsub, by omega, hind, hspan⟩
  logical_indep := logicalIndep_of_pairing n k S Lx Lz hS hLx hLz hSx hSz hpair hxx hzz kx kz

/-- decidable spanning certificate: `deps[i]` are the coefficients expressing `S[i]` over `S'` -/
def SpanCert (m : Nat) (S' S : List BVec) (deps : List (List Bool)) : Prop :=
  deps.length = S.length ∧
    ∀ i, i < S.length → (deps.getD i []).length = S'.length ∧ xorComb m (deps.getD i []) S' = S.getD i []
instance (m : Nat) (S' S : List BVec) (deps : List (List Bool)) : Decidable (SpanCert m S' S deps) := by
  unfold SpanCert; infer_instance

theorem span_of_cert (m : Nat) (S' S : List BVec) (deps : List (List Bool)) (h : SpanCert m S' S deps) :
    ∀ s ∈ S, InSpan m S' s := by
  intro s hs
  rcases List.getElem_of_mem hs with ⟨i, hi, rfl⟩
  have := h.2 i hi
  refine ⟨deps.getD i [], this.1, ?_⟩
  rw [this.2]; simp [List.getD_eq_getElem?_getD, hi]

/-- the rows of `S` selected by a Boolean mask -/
def select : List Bool → List BVec → List BVec
  | c :: cs, r :: rows => if c then r :: select cs rows else select cs rows
  | _, _ => []

theorem select_sublist (mask : List Bool) (S : List BVec) : (select mask S).Sublist S := by
  induction mask generalizing S with
  | nil => simp [select]
  | cons c cs ih =>
    cases S with
    | nil => simp [select]
    | cons r rows =>
      simp only [select]
      split
      · exact (ih rows).cons_cons r
      · exact (ih rows).cons r

/-- **constructor 3** (all hypotheses decidable): sub-list chosen by `mask`, destabilisers `D` for it,
    dependency coefficients `deps` for every row of `S` -/
theorem valid_of_destab_sub (n k : Nat) (S Lx Lz : List BVec) (mask : List Bool) (D : List BVec)
    (deps : List (List Bool))
    (hS : AllLen (2 * n) S) (hLx : AllLen (2 * n) Lx) (hLz : AllLen (2 * n) Lz)
    (hSS : CommAll S S) (hSx : CommAll S Lx) (hSz : CommAll S Lz) (hpair : PairingId Lx Lz k)
    (hxx : CommAll Lx Lx) (hzz : CommAll Lz Lz) (kx : Lx.length = k) (kz : Lz.length = k)
    (hcount : (select mask S).length + k = n)
    (hD : PairingId (select mask S) D (select mask S).length)
    (hdeps : SpanCert (2 * n) (select mask S) S deps) : ValidCode n k S Lx Lz :=
  valid_of_sub n k S Lx Lz (select mask S) hS hLx hLz hSS hSx hSz hpair hxx hzz kx kz
    (select_sublist mask S) hcount
    (independent_of_pairing _ _ D (hS.sublist (select_sublist mask S)) hD)
    (span_of_cert _ _ _ deps hdeps)

end Qec.Symp
