/-
  F6(a) — elementary symplectic linear algebra over `List Bool`, core Lean only.

  * `xorComb m cs rows` : the XOR-combination of the rows selected by the coefficient list `cs`
  * `InSpan`, `Independent` : span / linear independence phrased with `xorComb` (no dimension theory)
  * `ValidCode n k S Lx Lz` : "S, Lx, Lz describe a valid [[n,k]] stabilizer code"
  * tools: bilinearity of `bsp`, independence from destabiliser witnesses, spanning by explicit
    dependencies, logical independence from the pairing, and two constructors of `ValidCode`
    (`valid_of_destab`, `valid_of_destab_sub`) whose hypotheses are all decidable or witnesses.
-/
import QecVerif.Lemmas.GF2
namespace Qec.Symp
open Qec

/-! ### XOR of vectors -/

theorem zeros_length (m : Nat) : (zeros m).length = m := by simp [zeros]

theorem xorV_zeros_right (a : BVec) (m : Nat) (h : a.length = m) : xorV a (zeros m) = a := by
  subst h
  induction a with
  | nil => simp [xorV, zeros]
  | cons x xs ih =>
    simp only [xorV, zeros, List.length_cons, List.replicate_succ, List.zipWith_cons_cons, Bool.xor_false] at ih ⊢
    rw [ih]

theorem xorV_comm (a b : BVec) : xorV a b = xorV b a := by
  induction a generalizing b with
  | nil => cases b <;> simp [xorV]
  | cons x xs ih =>
    cases b with
    | nil => simp [xorV]
    | cons y ys =>
      have := ih ys
      simp only [xorV] at this
      simp only [xorV, List.zipWith_cons_cons, this, Bool.xor_comm]

theorem xorV_zeros_left (a : BVec) (m : Nat) (h : a.length = m) : xorV (zeros m) a = a := by
  rw [xorV_comm, xorV_zeros_right a m h]

theorem xorV_assoc (a b c : BVec) : xorV (xorV a b) c = xorV a (xorV b c) := by
  induction a generalizing b c with
  | nil => simp [xorV]
  | cons x xs ih =>
    cases b with
    | nil => simp [xorV]
    | cons y ys =>
      cases c with
      | nil => simp [xorV]
      | cons z zs =>
        have := ih ys zs
        simp only [xorV] at this
        simp only [xorV, List.zipWith_cons_cons, this, Bool.xor_assoc]

theorem xorV_self (a : BVec) : xorV a a = zeros a.length := by
  induction a with
  | nil => simp [xorV, zeros]
  | cons x xs ih =>
    simp only [xorV, zeros] at ih
    simp only [xorV, zeros, List.zipWith_cons_cons, List.length_cons, List.replicate_succ, Bool.xor_self]
    rw [ih]

/-- `(a ⊕ x) ⊕ (a ⊕ y) = x ⊕ y` for equal lengths -/
theorem xorV_cancel (a x y : BVec) (h1 : a.length = x.length) (h2 : x.length = y.length) :
    xorV (xorV a x) (xorV a y) = xorV x y := by
  rw [xorV_comm a x, xorV_assoc, ← xorV_assoc a a y, xorV_self, xorV_zeros_left y _ (by omega)]

theorem getD_xorV (a b : BVec) (h : a.length = b.length) (i : Nat) :
    (xorV a b).getD i false = (a.getD i false ^^ b.getD i false) := by
  induction a generalizing b i with
  | nil => cases b with
    | nil => simp [xorV]
    | cons _ _ => simp at h
  | cons x xs ih => cases b with
    | nil => simp at h
    | cons y ys =>
      simp only [List.length_cons, Nat.add_right_cancel_iff] at h
      cases i with
      | zero => simp [xorV]
      | succ i =>
        have := ih ys h i
        simp only [xorV] at this
        simpa [xorV] using this

theorem getD_zeros (m i : Nat) : (zeros m).getD i false = false := by
  simp only [zeros, List.getD_eq_getElem?_getD, List.getElem?_replicate]
  split <;> rfl

/-! ### bilinearity of `bsp` -/

theorem swap_xorV (a b : BVec) (h : a.length = b.length) :
    zHalf (xorV a b) ++ xHalf (xorV a b) = xorV (zHalf a ++ xHalf a) (zHalf b ++ xHalf b) := by
  rw [zHalf_xorV a b h, xHalf_xorV a b h]
  have hz : (zHalf a).length = (zHalf b).length := by rw [zHalf_length, zHalf_length, h]
  simp only [xorV]
  rw [List.zipWith_append hz]

theorem bsp_xorV_left (a b c : BVec) (h : a.length = b.length) :
    bsp (xorV a b) c = (bsp a c ^^ bsp b c) := by
  unfold bsp
  rw [swap_xorV a b h]
  apply dot_xorV_left
  simp only [List.length_append, zHalf_length, xHalf_length, h]

theorem bsp_xorV_right (a b c : BVec) (h : b.length = c.length) :
    bsp a (xorV b c) = (bsp a b ^^ bsp a c) := by
  unfold bsp
  exact dot_xorV_right _ _ _ h

theorem dot_zeros_left (m : Nat) (b : BVec) : dot (zeros m) b = false := by
  induction m generalizing b with
  | zero => simp [zeros]
  | succ m ih =>
    cases b with
    | nil => simp
    | cons y ys =>
      have := ih ys
      simp only [zeros] at this
      simp [zeros, List.replicate_succ, this]

theorem dot_zeros_right (m : Nat) (a : BVec) : dot a (zeros m) = false := by
  rw [dot_comm, dot_zeros_left]

theorem bsp_zeros_left (m : Nat) (b : BVec) : bsp (zeros m) b = false := by
  unfold bsp
  have : zHalf (zeros m) ++ xHalf (zeros m) = zeros ((m - m / 2) + min (m / 2) m) := by
    simp [zHalf, xHalf, zeros]
  rw [this, dot_zeros_left]

theorem bsp_zeros_right (m : Nat) (a : BVec) : bsp a (zeros m) = false := by
  unfold bsp; exact dot_zeros_right _ _

/-- `bsp` is symmetric on vectors of the same even length -/
theorem bsp_comm (a b : BVec) (h : a.length = b.length) (he : a.length % 2 = 0) : bsp a b = bsp b a := by
  rw [bsp_halves a b h he, bsp_halves b a h.symm (h ▸ he), dot_comm (zHalf a), dot_comm (xHalf a), Bool.xor_comm]

/-! ### XOR-combinations, span, independence -/

/-- XOR of the rows `rows[i]` with `cs[i] = true`, starting from the zero vector of length `m`
    (the shorter of the two lists decides how many rows are looked at) -/
def xorComb (m : Nat) : List Bool → List BVec → BVec
  | c :: cs, r :: rows => if c then xorV r (xorComb m cs rows) else xorComb m cs rows
  | _, _ => zeros m

/-- `bsp (xorComb m cs rows) d`, computed row by row -/
def combBsp (d : BVec) : List Bool → List BVec → Bool
  | c :: cs, r :: rows => (c && bsp r d) ^^ combBsp d cs rows
  | _, _ => false

/-- every row has length `m` -/
def AllLen (m : Nat) (rows : List BVec) : Prop := ∀ r ∈ rows, r.length = m
instance (m : Nat) (rows : List BVec) : Decidable (AllLen m rows) := by unfold AllLen; infer_instance

/-- every row of `A` commutes with every row of `B` -/
def CommAll (A B : List BVec) : Prop := ∀ a ∈ A, ∀ b ∈ B, bsp a b = false
instance (A B : List BVec) : Decidable (CommAll A B) := by unfold CommAll; infer_instance

/-- `bsp A[i] B[j] = (i = j)` for `i, j < k` -/
def PairingId (A B : List BVec) (k : Nat) : Prop :=
  ∀ i, i < k → ∀ j, j < k → bsp (A.getD i []) (B.getD j []) = decide (i = j)
instance (A B : List BVec) (k : Nat) : Decidable (PairingId A B k) := by unfold PairingId; infer_instance

/-- `v` is a XOR-combination of `rows` -/
def InSpan (m : Nat) (rows : List BVec) (v : BVec) : Prop :=
  ∃ cs : List Bool, cs.length = rows.length ∧ xorComb m cs rows = v

/-- only the trivial XOR-combination of `rows` vanishes -/
def Independent (m : Nat) (rows : List BVec) : Prop :=
  ∀ cs : List Bool, cs.length = rows.length → xorComb m cs rows = zeros m → ∀ c ∈ cs, c = false

@[simp] theorem xorComb_nil_left (m : Nat) (rows : List BVec) : xorComb m [] rows = zeros m := by
  simp [xorComb]
@[simp] theorem xorComb_nil_right (m : Nat) (cs : List Bool) : xorComb m cs [] = zeros m := by
  cases cs <;> simp [xorComb]
@[simp] theorem xorComb_cons (m : Nat) (c : Bool) (cs : List Bool) (r : BVec) (rows : List BVec) :
    xorComb m (c :: cs) (r :: rows) = if c then xorV r (xorComb m cs rows) else xorComb m cs rows := by
  simp [xorComb]
@[simp] theorem combBsp_nil_left (d : BVec) (rows : List BVec) : combBsp d [] rows = false := by
  simp [combBsp]
@[simp] theorem combBsp_nil_right (d : BVec) (cs : List Bool) : combBsp d cs [] = false := by
  cases cs <;> simp [combBsp]
@[simp] theorem combBsp_cons (d : BVec) (c : Bool) (cs : List Bool) (r : BVec) (rows : List BVec) :
    combBsp d (c :: cs) (r :: rows) = ((c && bsp r d) ^^ combBsp d cs rows) := by
  simp [combBsp]

theorem AllLen.tail {m : Nat} {r : BVec} {rows : List BVec} (h : AllLen m (r :: rows)) : AllLen m rows :=
  fun x hx => h x (List.mem_cons_of_mem _ hx)
theorem AllLen.head {m : Nat} {r : BVec} {rows : List BVec} (h : AllLen m (r :: rows)) : r.length = m :=
  h r List.mem_cons_self
theorem AllLen.append {m : Nat} {A B : List BVec} (hA : AllLen m A) (hB : AllLen m B) : AllLen m (A ++ B) := by
  intro r hr
  rcases List.mem_append.mp hr with h | h
  · exact hA r h
  · exact hB r h
theorem AllLen.sublist {m : Nat} {A B : List BVec} (h : A.Sublist B) (hB : AllLen m B) : AllLen m A :=
  fun r hr => hB r (h.subset hr)

theorem xorComb_length (m : Nat) (cs : List Bool) (rows : List BVec) (h : AllLen m rows) :
    (xorComb m cs rows).length = m := by
  induction cs generalizing rows with
  | nil => simp [zeros_length]
  | cons c cs ih =>
    cases rows with
    | nil => simp [zeros_length]
    | cons r rows =>
      simp only [xorComb_cons]
      split
      · rw [xorV_length _ _ (by rw [ih rows h.tail, h.head]), h.head]
      · exact ih rows h.tail

/-- **bilinearity**: `bsp` of a XOR-combination is the XOR of the selected `bsp`s -/
theorem bsp_xorComb_left (m : Nat) (cs : List Bool) (rows : List BVec) (d : BVec) (h : AllLen m rows) :
    bsp (xorComb m cs rows) d = combBsp d cs rows := by
  induction cs generalizing rows with
  | nil => simp [bsp_zeros_left]
  | cons c cs ih =>
    cases rows with
    | nil => simp [bsp_zeros_left]
    | cons r rows =>
      simp only [xorComb_cons, combBsp_cons]
      cases c with
      | true =>
        simp only [if_true, Bool.true_and]
        rw [bsp_xorV_left _ _ _ (by rw [xorComb_length m cs rows h.tail, h.head]), ih rows h.tail]
      | false => simp [ih rows h.tail]

/-- bit `i` of a XOR-combination is the XOR of the selected rows' bits -/
theorem getD_xorComb (m : Nat) (cs : List Bool) (rows : List BVec) (h : AllLen m rows) (i : Nat) :
    (xorComb m cs rows).getD i false =
      (List.zipWith (fun c (r : BVec) => c && r.getD i false) cs rows).foldr xor false := by
  induction cs generalizing rows with
  | nil =>
    simp only [xorComb_nil_left, List.zipWith_nil_left, List.foldr_nil]
    exact getD_zeros m i
  | cons c cs ih =>
    cases rows with
    | nil =>
      simp only [xorComb_nil_right, List.zipWith_nil_right, List.foldr_nil]
      exact getD_zeros m i
    | cons r rows =>
      simp only [xorComb_cons, List.zipWith_cons_cons, List.foldr_cons]
      cases c with
      | true =>
        simp only [if_true, Bool.true_and]
        rw [getD_xorV _ _ (by rw [xorComb_length m cs rows h.tail, h.head]), ih rows h.tail]
      | false =>
        simp only [Bool.false_eq_true, if_false, Bool.false_and, Bool.false_xor]
        exact ih rows h.tail

theorem combBsp_of_comm (d : BVec) (cs : List Bool) (rows : List BVec) (h : ∀ r ∈ rows, bsp r d = false) :
    combBsp d cs rows = false := by
  induction cs generalizing rows with
  | nil => simp
  | cons c cs ih =>
    cases rows with
    | nil => simp
    | cons r rows =>
      simp only [combBsp_cons, h r List.mem_cons_self, Bool.and_false, Bool.false_xor]
      exact ih rows (fun x hx => h x (List.mem_cons_of_mem _ hx))

theorem combBsp_append (d : BVec) (cs : List Bool) (A B : List BVec) :
    combBsp d cs (A ++ B) = (combBsp d (cs.take A.length) A ^^ combBsp d (cs.drop A.length) B) := by
  induction A generalizing cs with
  | nil => simp
  | cons a A ih =>
    cases cs with
    | nil => simp
    | cons c cs => simp [ih cs]

/-! ### independence from destabiliser witnesses -/

/-- index-free form: rows `f p` for `p` in a duplicate-free index list, with witnesses `g q` such that
    `bsp (f p) (g q) = (p = q)`, are independent -/
theorem independent_of_destab {ι : Type} [DecidableEq ι] (m : Nat) (idx : List ι) (f g : ι → BVec)
    (hnd : idx.Nodup) (hlen : ∀ p ∈ idx, (f p).length = m)
    (h : ∀ p ∈ idx, ∀ q ∈ idx, bsp (f p) (g q) = decide (p = q)) :
    Independent m (idx.map f) := by
  induction idx with
  | nil =>
    intro cs hcs _ c hc
    simp only [List.map_nil, List.length_nil, List.length_eq_zero_iff] at hcs
    simp [hcs] at hc
  | cons p rest ih =>
    intro cs hcs hz
    cases cs with
    | nil => simp at hcs
    | cons c cs =>
      simp only [List.map_cons, List.length_cons, Nat.add_right_cancel_iff] at hcs
      have hnd' := List.nodup_cons.mp hnd
      have hall : AllLen m ((p :: rest).map f) := by
        intro r hr
        rcases List.mem_map.mp hr with ⟨q, hq, rfl⟩
        exact hlen q hq
      -- pair the vanishing combination with the witness of `p`
      have hb := bsp_xorComb_left m (c :: cs) ((p :: rest).map f) (g p) hall
      rw [hz, bsp_zeros_left] at hb
      have hrest : combBsp (g p) cs (rest.map f) = false := by
        apply combBsp_of_comm
        intro r hr
        rcases List.mem_map.mp hr with ⟨q, hq, rfl⟩
        rw [h q (List.mem_cons_of_mem _ hq) p List.mem_cons_self]
        have : q ≠ p := fun e => hnd'.1 (e ▸ hq)
        simp [this]
      simp only [List.map_cons, combBsp_cons, hrest, Bool.xor_false,
        h p List.mem_cons_self p List.mem_cons_self, decide_true, Bool.and_true] at hb
      have hc : c = false := hb.symm
      subst hc
      simp only [List.map_cons, xorComb_cons] at hz
      have := ih hnd'.2 (fun q hq => hlen q (List.mem_cons_of_mem _ hq))
        (fun a ha b hb => h a (List.mem_cons_of_mem _ ha) b (List.mem_cons_of_mem _ hb)) cs hcs
        (by simpa using hz)
      intro c hc
      rcases List.mem_cons.mp hc with rfl | hc
      · rfl
      · exact this c hc

theorem map_getD_range (S : List BVec) : (List.range S.length).map (fun i => S.getD i []) = S := by
  apply List.ext_getElem
  · simp
  · intro i h1 h2
    simp [List.getD_eq_getElem?_getD, h2]

/-- list form: a destabiliser list `D` with `bsp S[i] D[j] = (i = j)` makes `S` independent -/
theorem independent_of_pairing (m : Nat) (S D : List BVec) (hlen : AllLen m S)
    (h : PairingId S D S.length) : Independent m S := by
  have := independent_of_destab m (List.range S.length) (fun i => S.getD i []) (fun j => D.getD j [])
    List.nodup_range
    (by
      intro i hi
      have hi' := List.mem_range.mp hi
      apply hlen
      simp [List.getD_eq_getElem?_getD, hi'])
    (by
      intro i hi j hj
      exact h i (List.mem_range.mp hi) j (List.mem_range.mp hj))
  rwa [map_getD_range] at this

/-- with a pairing partner list, pairing a XOR-combination with partner `j` reads off coefficient `j` -/
theorem combBsp_eq_coeff (A B : List BVec) (cs : List Bool) (hcs : cs.length = A.length)
    (h : PairingId A B A.length) (j : Nat) (hj : j < A.length) :
    combBsp (B.getD j []) cs A = cs.getD j false := by
  induction A generalizing B cs j with
  | nil => simp at hj
  | cons a A ih =>
    cases cs with
    | nil => simp at hcs
    | cons c cs =>
      simp only [List.length_cons, Nat.add_right_cancel_iff] at hcs
      simp only [combBsp_cons]
      cases j with
      | zero =>
        have h0 := h 0 (by simp) 0 (by simp)
        simp only [List.getD_cons_zero] at h0
        have hrest : combBsp (B.getD 0 []) cs A = false := by
          apply combBsp_of_comm
          intro r hr
          rcases List.getElem_of_mem hr with ⟨i, hi, rfl⟩
          have := h (i + 1) (by simp; omega) 0 (by simp)
          simpa [List.getD_eq_getElem?_getD, hi] using this
        rw [h0, hrest]; simp
      | succ j =>
        have h0 := h 0 (by simp) (j + 1) (by simpa using hj)
        simp only [List.getD_cons_zero] at h0
        have hj' : j < A.length := by simpa using hj
        have hB : B.getD (j + 1) [] = (B.drop 1).getD j [] := by
          simp [List.getD_eq_getElem?_getD]
        have := ih (B.drop 1) cs hcs (by
          intro i hi k hk
          have := h (i + 1) (by simp; omega) (k + 1) (by simp; omega)
          simpa [List.getD_eq_getElem?_getD, Nat.add_comm] using this) j hj'
        rw [hB, this]
        rw [← hB, h0]
        simp

/-! ### span: explicit dependencies -/

theorem xorComb_replicate_false (m k : Nat) (rows : List BVec) :
    xorComb m (List.replicate k false) rows = zeros m := by
  induction k generalizing rows with
  | zero => simp
  | succ k ih =>
    cases rows with
    | nil => simp
    | cons r rows => simp [List.replicate_succ, ih rows]

theorem inSpan_zero (m : Nat) (rows : List BVec) : InSpan m rows (zeros m) :=
  ⟨List.replicate rows.length false, by simp, xorComb_replicate_false _ _ _⟩

theorem inSpan_cons (m : Nat) (r : BVec) (rows : List BVec) (v : BVec) (h : InSpan m rows v) :
    InSpan m (r :: rows) v := by
  rcases h with ⟨cs, hcs, hv⟩
  exact ⟨false :: cs, by simp [hcs], by simp [hv]⟩

/-- a row lies in the span of its list -/
theorem inSpan_mem (m : Nat) (rows : List BVec) (hlen : AllLen m rows) (r : BVec) (hr : r ∈ rows) :
    InSpan m rows r := by
  induction rows with
  | nil => simp at hr
  | cons x rows ih =>
    rcases List.mem_cons.mp hr with rfl | hr
    · refine ⟨true :: List.replicate rows.length false, by simp, ?_⟩
      simp [xorComb_replicate_false, xorV_zeros_right _ _ hlen.head]
    · exact inSpan_cons m x rows r (ih hlen.tail hr)

/-- the span of a sub-list is contained in the span of the list -/
theorem inSpan_sublist (m : Nat) (A B : List BVec) (h : A.Sublist B) (v : BVec) (hv : InSpan m A v) :
    InSpan m B v := by
  induction h generalizing v with
  | slnil => exact hv
  | cons a _ ih => exact inSpan_cons m a _ v (ih v hv)
  | cons_cons a _ ih =>
    rcases hv with ⟨cs, hcs, hv⟩
    cases cs with
    | nil => simp at hcs
    | cons c cs =>
      simp only [List.length_cons, Nat.add_right_cancel_iff] at hcs
      rcases ih (xorComb m cs _) ⟨cs, hcs, rfl⟩ with ⟨ds, hds, hd⟩
      refine ⟨c :: ds, by simp [hds], ?_⟩
      simp only [xorComb_cons] at hv ⊢
      rw [hd]; exact hv

theorem xorComb_zipWith_xor (m : Nat) (cs ds : List Bool) (rows : List BVec) (hlen : AllLen m rows)
    (h1 : cs.length = rows.length) (h2 : ds.length = rows.length) :
    xorComb m (List.zipWith xor cs ds) rows = xorV (xorComb m cs rows) (xorComb m ds rows) := by
  induction rows generalizing cs ds with
  | nil => simp [xorV_zeros_right _ _ (zeros_length m)]
  | cons r rows ih =>
    cases cs with
    | nil => simp at h1
    | cons c cs =>
      cases ds with
      | nil => simp at h2
      | cons d ds =>
        simp only [List.length_cons, Nat.add_right_cancel_iff] at h1 h2
        have hx := xorComb_length m cs rows hlen.tail
        have hy := xorComb_length m ds rows hlen.tail
        have hr := hlen.head
        simp only [List.zipWith_cons_cons, xorComb_cons, ih cs ds hlen.tail h1 h2]
        cases c <;> cases d <;> simp only [Bool.xor_false, Bool.xor_true, Bool.not_false, Bool.not_true,
          if_true, if_false, Bool.false_eq_true]
        · rw [← xorV_assoc r, xorV_comm r (xorComb m cs rows), xorV_assoc]
        · rw [xorV_assoc]
        · rw [xorV_cancel _ _ _ (by omega) (by omega)]

/-- the span is closed under XOR -/
theorem inSpan_xor (m : Nat) (rows : List BVec) (hlen : AllLen m rows) (a b : BVec)
    (ha : InSpan m rows a) (hb : InSpan m rows b) : InSpan m rows (xorV a b) := by
  rcases ha with ⟨cs, hcs, rfl⟩
  rcases hb with ⟨ds, hds, rfl⟩
  exact ⟨List.zipWith xor cs ds, by simp [hcs, hds], xorComb_zipWith_xor m cs ds rows hlen hcs hds⟩

/-- a XOR-combination of vectors of the span lies in the span -/
theorem inSpan_xorComb (m : Nat) (rows : List BVec) (hlen : AllLen m rows) (cs : List Bool) (vs : List BVec)
    (h : ∀ v ∈ vs, InSpan m rows v) : InSpan m rows (xorComb m cs vs) := by
  induction cs generalizing vs with
  | nil => simpa using inSpan_zero m rows
  | cons c cs ih =>
    cases vs with
    | nil => simpa using inSpan_zero m rows
    | cons v vs =>
      simp only [xorComb_cons]
      have := ih vs (fun x hx => h x (List.mem_cons_of_mem _ hx))
      split
      · exact inSpan_xor m rows hlen _ _ (h v List.mem_cons_self) this
      · exact this

/-- **spanning by explicit dependencies**: if every row of `A` lies in the span of `B`, so does the span of `A` -/
theorem inSpan_trans (m : Nat) (A B : List BVec) (hB : AllLen m B) (h : ∀ a ∈ A, InSpan m B a) (v : BVec)
    (hv : InSpan m A v) : InSpan m B v := by
  rcases hv with ⟨cs, _, rfl⟩
  exact inSpan_xorComb m B hB cs A h

/-! ### valid [[n,k]] codes -/

/-- the logicals are independent of the stabilizers: no non-trivial XOR-combination of `Lx ++ Lz`
    lies in the span of `S` -/
def LogicalIndep (n : Nat) (S Lx Lz : List BVec) : Prop :=
  ∀ cs : List Bool, cs.length = (Lx ++ Lz).length →
    InSpan (2 * n) S (xorComb (2 * n) cs (Lx ++ Lz)) → ∀ c ∈ cs, c = false

/-- rank of `S` is `r`: a sub-list of `r` rows is independent and spans every row of `S` -/
def HasRank (m : Nat) (S : List BVec) (r : Nat) : Prop :=
  ∃ S' : List BVec, S'.Sublist S ∧ S'.length = r ∧ Independent m S' ∧ ∀ s ∈ S, InSpan m S' s

/-- `S` (stabilizer generators), `Lx`, `Lz` (logical operators), all binary symplectic vectors of
    length `2n`, form a valid [[n,k]] stabilizer code -/
structure ValidCode (n k : Nat) (S Lx Lz : List BVec) : Prop where
  len_S : AllLen (2 * n) S
  len_Lx : AllLen (2 * n) Lx
  len_Lz : AllLen (2 * n) Lz
  stab_comm : CommAll S S
  stab_comm_Lx : CommAll S Lx
  stab_comm_Lz : CommAll S Lz
  pairing : PairingId Lx Lz k
  comm_LxLx : CommAll Lx Lx
  comm_LzLz : CommAll Lz Lz
  count_Lx : Lx.length = k
  count_Lz : Lz.length = k
  k_le_n : k ≤ n
  rank : HasRank (2 * n) S (n - k)
  logical_indep : LogicalIndep n S Lx Lz

theorem commAll_symm (m : Nat) (A B : List BVec) (hA : AllLen (2 * m) A) (hB : AllLen (2 * m) B)
    (h : CommAll A B) : CommAll B A := by
  intro b hb a ha
  rw [bsp_comm b a (by rw [hA a ha, hB b hb]) (by rw [hB b hb]; omega)]
  exact h a ha b hb

theorem getD_mem_of_lt (A : List BVec) (i : Nat) (h : i < A.length) : A.getD i [] ∈ A := by
  simp [List.getD_eq_getElem?_getD, h]

/-- **logical independence from the pairing** -/
theorem logicalIndep_of_pairing (n k : Nat) (S Lx Lz : List BVec)
    (hS : AllLen (2 * n) S) (hLx : AllLen (2 * n) Lx) (hLz : AllLen (2 * n) Lz)
    (hSx : CommAll S Lx) (hSz : CommAll S Lz) (hpair : PairingId Lx Lz k)
    (hxx : CommAll Lx Lx) (hzz : CommAll Lz Lz) (kx : Lx.length = k) (kz : Lz.length = k) :
    LogicalIndep n S Lx Lz := by
  intro cs hcs hspan
  rcases hspan with ⟨ds, _, hd⟩
  have hL : AllLen (2 * n) (Lx ++ Lz) := hLx.append hLz
  -- the partner list of `Lx ++ Lz` is `Lz ++ Lx`
  have hP : PairingId (Lx ++ Lz) (Lz ++ Lx) (Lx ++ Lz).length := by
    intro i hi j hj
    simp only [List.length_append] at hi hj
    simp only [List.getD_eq_getElem?_getD]
    by_cases h1 : i < k <;> by_cases h2 : j < k
    · rw [List.getElem?_append_left (by omega), List.getElem?_append_left (by omega)]
      simpa [List.getD_eq_getElem?_getD] using hpair i h1 j h2
    · rw [List.getElem?_append_left (by omega), List.getElem?_append_right (by omega)]
      have hm1 := getD_mem_of_lt Lx i (by omega)
      have hm2 := getD_mem_of_lt Lx (j - Lz.length) (by omega)
      have := hxx _ hm1 _ hm2
      simp only [List.getD_eq_getElem?_getD] at this
      rw [this]; symm; simp; omega
    · rw [List.getElem?_append_right (by omega), List.getElem?_append_left (by omega)]
      have hm1 := getD_mem_of_lt Lz (i - Lx.length) (by omega)
      have hm2 := getD_mem_of_lt Lz j (by omega)
      have := hzz _ hm1 _ hm2
      simp only [List.getD_eq_getElem?_getD] at this
      rw [this]; symm; simp; omega
    · rw [List.getElem?_append_right (by omega), List.getElem?_append_right (by omega)]
      have hm1 := getD_mem_of_lt Lz (i - Lx.length) (by omega)
      have hm2 := getD_mem_of_lt Lx (j - Lz.length) (by omega)
      have := hpair (j - Lz.length) (by omega) (i - Lx.length) (by omega)
      rw [bsp_comm _ _ (by rw [hLx _ hm2, hLz _ hm1]) (by rw [hLx _ hm2]; omega)] at this
      simp only [List.getD_eq_getElem?_getD] at this
      rw [this]
      apply decide_eq_decide.mpr; omega
  intro c hc
  rcases List.getElem_of_mem hc with ⟨j, hj, rfl⟩
  have hj' : j < (Lx ++ Lz).length := by omega
  -- pairing with partner `j` reads off coefficient `j` …
  have h1 := combBsp_eq_coeff (Lx ++ Lz) (Lz ++ Lx) cs hcs hP j hj'
  rw [← bsp_xorComb_left (2 * n) cs (Lx ++ Lz) _ hL] at h1
  -- … but the combination is in the span of `S`, which commutes with every logical
  rw [← hd, bsp_xorComb_left (2 * n) ds S _ hS] at h1
  have hmem : (Lz ++ Lx).getD j [] ∈ Lz ++ Lx := getD_mem_of_lt _ j (by simp at hj' ⊢; omega)
  rw [combBsp_of_comm] at h1
  · simp [List.getD_eq_getElem?_getD, hj] at h1
    exact h1
  · intro r hr
    rcases List.mem_append.mp hmem with h | h
    · exact hSz r hr _ h
    · exact hSx r hr _ h

/-- **constructor 1**: `S` has exactly `n − k` rows and a destabiliser list `D` (`bsp S[i] D[j] = (i=j)`).
    Every hypothesis is decidable. -/
theorem valid_of_destab (n k : Nat) (S Lx Lz D : List BVec)
    (hS : AllLen (2 * n) S) (hLx : AllLen (2 * n) Lx) (hLz : AllLen (2 * n) Lz)
    (hSS : CommAll S S) (hSx : CommAll S Lx) (hSz : CommAll S Lz) (hpair : PairingId Lx Lz k)
    (hxx : CommAll Lx Lx) (hzz : CommAll Lz Lz) (kx : Lx.length = k) (kz : Lz.length = k)
    (hcount : S.length + k = n) (hD : PairingId S D S.length) : ValidCode n k S Lx Lz where
  len_S := hS
  len_Lx := hLx
  len_Lz := hLz
  stab_comm := hSS
  stab_comm_Lx := hSx
  stab_comm_Lz := hSz
  pairing := hpair
  comm_LxLx := hxx
  comm_LzLz := hzz
  count_Lx := kx
  count_Lz := kz
  k_le_n := by omega
  rank := ⟨S, List.Sublist.refl S, by omega, independent_of_pairing _ S D hS hD,
    fun s hs => inSpan_mem _ S hS s hs⟩
  logical_indep := logicalIndep_of_pairing n k S Lx Lz hS hLx hLz hSx hSz hpair hxx hzz kx kz

/-- **constructor 2**: an independent sub-list `S'` of `n − k` rows (independence as a hypothesis, e.g. from
    `independent_of_destab`) that spans every row of `S` (explicit dependencies) -/
theorem valid_of_sub (n k : Nat) (S Lx Lz S' : List BVec)
    (hS : AllLen (2 * n) S) (hLx : AllLen (2 * n) Lx) (hLz : AllLen (2 * n) Lz)
    (hSS : CommAll S S) (hSx : CommAll S Lx) (hSz : CommAll S Lz) (hpair : PairingId Lx Lz k)
    (hxx : CommAll Lx Lx) (hzz : CommAll Lz Lz) (kx : Lx.length = k) (kz : Lz.length = k)
    (hsub : S'.Sublist S) (hcount : S'.length + k = n) (hind : Independent (2 * n) S')
    (hspan : ∀ s ∈ S, InSpan (2 * n) S' s) : ValidCode n k S Lx Lz where
  len_S := hS
  len_Lx := hLx
  len_Lz := hLz
  stab_comm := hSS
  stab_comm_Lx := hSx
  stab_comm_Lz := hSz
  pairing := hpair
  comm_LxLx := hxx
  comm_LzLz := hzz
  count_Lx := kx
  count_Lz := kz
  k_le_n := by omega
  rank := ⟨S', hsub, by omega, hind, hspan⟩
  logical_indep := logicalIndep_of_pairing n k S Lx Lz hS hLx hLz hSx hSz hpair hxx hzz kx kz

/-- decidable spanning certificate: `deps[i]` are the coefficients expressing `S[i]` over `S'` -/
def SpanCert (m : Nat) (S' S : List BVec) (deps : List (List Bool)) : Prop :=
  deps.length = S.length ∧
    ∀ i, i < S.length → (deps.getD i []).length = S'.length ∧ xorComb m (deps.getD i []) S' = S.getD i []
instance (m : Nat) (S' S : List BVec) (deps : List (List Bool)) : Decidable (SpanCert m S' S deps) := by
  unfold SpanCert; infer_instance

theorem span_of_cert (m : Nat) (S' S : List BVec) (deps : List (List Bool)) (h : SpanCert m S' S deps) :
    ∀ s ∈ S, InSpan m S' s := by
  intro s hs
  rcases List.getElem_of_mem hs with ⟨i, hi, rfl⟩
  have := h.2 i hi
  refine ⟨deps.getD i [], this.1, ?_⟩
  rw [this.2]; simp [List.getD_eq_getElem?_getD, hi]

/-- the rows of `S` selected by a Boolean mask -/
def select : List Bool → List BVec → List BVec
  | c :: cs, r :: rows => if c then r :: select cs rows else select cs rows
  | _, _ => []

theorem select_sublist (mask : List Bool) (S : List BVec) : (select mask S).Sublist S := by
  induction mask generalizing S with
  | nil => simp [select]
  | cons c cs ih =>
    cases S with
    | nil => simp [select]
    | cons r rows =>
      simp only [select]
      split
      · exact (ih rows).cons_cons r
      · exact (ih rows).cons r

/-- **constructor 3** (all hypotheses decidable): sub-list chosen by `mask`, destabilisers `D` for it,
    dependency coefficients `deps` for every row of `S` -/
theorem valid_of_destab_sub (n k : Nat) (S Lx Lz : List BVec) (mask : List Bool) (D : List BVec)
    (deps : List (List Bool))
    (hS : AllLen (2 * n) S) (hLx : AllLen (2 * n) Lx) (hLz : AllLen (2 * n) Lz)
    (hSS : CommAll S S) (hSx : CommAll S Lx) (hSz : CommAll S Lz) (hpair : PairingId Lx Lz k)
    (hxx : CommAll Lx Lx) (hzz : CommAll Lz Lz) (kx : Lx.length = k) (kz : Lz.length = k)
    (hcount : (select mask S).length + k = n)
    (hD : PairingId (select mask S) D (select mask S).length)
    (hdeps : SpanCert (2 * n) (select mask S) S deps) : ValidCode n k S Lx Lz :=
  valid_of_sub n k S Lx Lz (select mask S) hS hLx hLz hSS hSx hSz hpair hxx hzz kx kz
    (select_sublist mask S) hcount
    (independent_of_pairing _ _ D (hS.sublist (select_sublist mask S)) hD)
    (span_of_cert _ _ _ deps hdeps)

end Qec.Symp
