/-
  Helper lemmas for C16 (error-model distributions).
  Part 1: the biased-Y-X closed form over an arbitrary linearly ordered field `K`, given a value `s` with
  `0 ≤ s`, `s^2 = disc` — instantiated with `K = ℚ` (the executable model, discriminant a rational square)
  and `K = ℝ`, `s = Real.sqrt disc`.
-/
import QecVerif.Model.ErrorModels
import Mathlib.Tactic.Ring
import Mathlib.Tactic.FieldSimp
import Mathlib.Tactic.Linarith
import Mathlib.Tactic.Positivity
import Mathlib.Tactic.LinearCombination
import Mathlib.Algebra.Field.Rat
import Mathlib.Algebra.Order.Field.Basic
import Mathlib.Algebra.Order.Field.Rat
set_option linter.unusedSectionVars false
set_option linter.unusedVariables false
namespace Qec.EM.YX

variable {K : Type*} [Field K] [LinearOrder K] [IsStrictOrderedRing K]

/-- `-4p + (1 + h + p - h p)^2` -/
def disc (h p : K) : K := -4 * p + (1 + h + p - h * p) ^ 2
/-- `_rate_x` (bias ≠ 0 branch) with `s` for the square root -/
def rateX (h p s : K) : K := 1 / 2 * (1 + h + p - h * p - s)
/-- `_rate_y` (bias ≠ 0 branch) with `s` for the square root -/
def rateY (h p s : K) : K := 1 / (2 * h) * (1 + h - p + h * p - s)

theorem disc_factor (h p : K) :
    disc h p = (1 - p) * ((1 - p) * (1 + h ^ 2) + 2 * h * (1 + p)) := by
  unfold disc; ring

theorem disc_nonneg {h p : K} (hh : 0 ≤ h) (hp0 : 0 ≤ p) (hp1 : p ≤ 1) : 0 ≤ disc h p := by
  rw [disc_factor]
  have h1 : 0 ≤ 1 - p := by linarith
  positivity

section
variable {h p s : K} (hh : 0 < h) (hp0 : 0 ≤ p) (hp1 : p ≤ 1) (hs0 : 0 ≤ s) (hs : s ^ 2 = disc h p)
include hh hp0 hp1 hs0 hs

theorem s_le_a : s ≤ 1 + h + p - h * p := by
  have ha : 0 ≤ 1 + h + p - h * p := by nlinarith
  have : s ^ 2 ≤ (1 + h + p - h * p) ^ 2 := by rw [hs]; unfold disc; linarith
  exact (sq_le_sq₀ hs0 ha).mp this

theorem s_le_b : s ≤ 1 + h - p + h * p := by
  have hb : 0 ≤ 1 + h - p + h * p := by nlinarith
  have : s ^ 2 ≤ (1 + h - p + h * p) ^ 2 := by
    rw [hs]; unfold disc
    have : 0 ≤ 4 * p * h ^ 2 := by positivity
    nlinarith
  exact (sq_le_sq₀ hs0 hb).mp this

theorem rateX_nonneg : 0 ≤ rateX h p s := by
  have := s_le_a hh hp0 hp1 hs0 hs
  unfold rateX; linarith

theorem rateX_le_one : rateX h p s ≤ 1 := by
  unfold rateX
  by_cases hc : 1 + h + p - h * p ≤ 2
  · linarith
  · have hc' : 0 ≤ 1 + h + p - h * p - 2 := by linarith [not_le.mp hc]
    have : (1 + h + p - h * p - 2) ^ 2 ≤ s ^ 2 := by
      rw [hs]; unfold disc
      have : 0 ≤ h * (1 - p) := mul_nonneg hh.le (by linarith)
      nlinarith
    have := (sq_le_sq₀ hc' hs0).mp this
    linarith

theorem rateY_nonneg : 0 ≤ rateY h p s := by
  have := s_le_b hh hp0 hp1 hs0 hs
  unfold rateY
  have : 0 ≤ 1 / (2 * h) := by positivity
  exact mul_nonneg this (by linarith)

theorem rateY_le_one : rateY h p s ≤ 1 := by
  unfold rateY
  rw [div_mul_eq_mul_div, one_mul, div_le_one (by positivity)]
  by_cases hc : 1 + h - p + h * p - 2 * h ≤ 0
  · linarith
  · have hc' : 0 ≤ 1 + h - p + h * p - 2 * h := by linarith [not_le.mp hc]
    have : (1 + h - p + h * p - 2 * h) ^ 2 ≤ s ^ 2 := by
      rw [hs]; unfold disc
      have : 0 ≤ h * (1 - p) := mul_nonneg hh.le (by linarith)
      nlinarith
    have := (sq_le_sq₀ hc' hs0).mp this
    linarith

/-- `p_x + p_y + p_z = p` -/
theorem rates_sum :
    rateX h p s * (1 - rateY h p s) + rateY h p s * (1 - rateX h p s) + rateX h p s * rateY h p s = p := by
  unfold rateX rateY
  have hne : h ≠ 0 := hh.ne'
  unfold disc at hs
  field_simp
  linear_combination (-1 : K) * hs

/-- `p_y = bias · p_x` -/
theorem rates_bias :
    rateY h p s * (1 - rateX h p s) = h * (rateX h p s * (1 - rateY h p s)) := by
  unfold rateX rateY
  have hne : h ≠ 0 := hh.ne'
  unfold disc at hs
  field_simp
  linear_combination (h - 1) * hs

end

/-- uniqueness: a non-negative solution of the documented defining equations is the closed form -/
theorem unique {h p s px py pz : K} (hh : 0 < h) (hp0 : 0 ≤ p) (hp1 : p < 1) (hs0 : 0 ≤ s)
    (hs : s ^ 2 = disc h p) (hx : 0 ≤ px) (hy : 0 ≤ py) (hz : 0 ≤ pz)
    (e1 : px + py + pz = p) (e2 : py = h * px) (e3 : pz = (px + pz) * (py + pz)) :
    px + pz = rateX h p s ∧ py + pz = rateY h p s := by
  have hq : (px + pz) ^ 2 - (1 + h + p - h * p) * (px + pz) + p = 0 := by
    subst e1; subst e2
    linear_combination (-h) * e3
  have hprod : ((px + pz) - (1 + h + p - h * p - s) / 2) * ((px + pz) - (1 + h + p - h * p + s) / 2) = 0 := by
    unfold disc at hs
    linear_combination hq - (1 / 4 : K) * hs
  have hrx : px + pz = rateX h p s := by
    rcases mul_eq_zero.mp hprod with h1 | h2
    · unfold rateX; linarith
    · exfalso
      have : 0 ≤ h * (1 - p) := mul_nonneg hh.le (by linarith)
      nlinarith
  refine ⟨hrx, ?_⟩
  have hlin : h * (py + pz) = h * p - py := by rw [← e1, e2]; ring
  have hne : h ≠ 0 := hh.ne'
  unfold rateY
  unfold rateX at hrx
  field_simp
  nlinarith
end Qec.EM.YX

/-! ## Part 2: rational model — basic facts -/
namespace Qec.EM

theorem rabs_of_nonneg {q : Rat} (h : 0 ≤ q) : rabs q = q := by
  unfold rabs; split
  · linarith
  · rfl

theorem rabs_nonneg (q : Rat) : 0 ≤ rabs q := by
  unfold rabs; split <;> linarith

theorem rabs_le_one {q : Rat} (h1 : -1 ≤ q) (h2 : q ≤ 1) : rabs q ≤ 1 := by
  unfold rabs; split <;> linarith

/-- a point of the boundary of the triangle with vertices (1,0,0), (0,1,0), (0,0,1) -/
structure Boundary (L : V3) : Prop where
  x0 : 0 ≤ L.x
  y0 : 0 ≤ L.y
  z0 : 0 ≤ L.z
  sum1 : L.x + L.y + L.z = 1
  zero : L.x = 0 ∨ L.y = 0 ∨ L.z = 0

/-- a point of the (closed) triangle -/
structure InTriangle (L : V3) : Prop where
  x0 : 0 ≤ L.x
  y0 : 0 ≤ L.y
  z0 : 0 ≤ L.z
  sum1 : L.x + L.y + L.z = 1

theorem Boundary.inTriangle {L : V3} (h : Boundary L) : InTriangle L := ⟨h.x0, h.y0, h.z0, h.sum1⟩

/-- the documented domain of the (unnormalised) limit: non-negative components, one or two zeros -/
structure LimOK (l : V3) : Prop where
  x0 : 0 ≤ l.x
  y0 : 0 ≤ l.y
  z0 : 0 ≤ l.z
  nz : l.nonzeros = 1 ∨ l.nonzeros = 2

theorem normalize_of_inTriangle {L : V3} (h : InTriangle L) : normalize L = L := by
  have hn : L.norm1 = 1 := by
    unfold V3.norm1; rw [rabs_of_nonneg h.x0, rabs_of_nonneg h.y0, rabs_of_nonneg h.z0]; exact h.sum1
  unfold normalize; rw [hn]; simp

theorem normalize_boundary {l : V3} (h : LimOK l) : Boundary (normalize l) := by
  have hn : l.norm1 = l.x + l.y + l.z := by
    unfold V3.norm1; rw [rabs_of_nonneg h.x0, rabs_of_nonneg h.y0, rabs_of_nonneg h.z0]
  have hx := h.x0; have hy := h.y0; have hz := h.z0
  have hpos : 0 < l.x + l.y + l.z := by
    rcases h.nz with hnz | hnz <;> unfold V3.nonzeros at hnz
    all_goals
      by_cases h1 : l.x = 0 <;> by_cases h2 : l.y = 0 <;> by_cases h3 : l.z = 0 <;>
        simp [h1, h2, h3] at hnz
      all_goals
        first
          | (have : 0 < l.x := lt_of_le_of_ne hx (Ne.symm h1); linarith)
          | (have : 0 < l.y := lt_of_le_of_ne hy (Ne.symm h2); linarith)
          | (have : 0 < l.z := lt_of_le_of_ne hz (Ne.symm h3); linarith)
  have hzero : l.x = 0 ∨ l.y = 0 ∨ l.z = 0 := by
    rcases h.nz with hnz | hnz <;> unfold V3.nonzeros at hnz
    all_goals
      by_cases h1 : l.x = 0
      · exact Or.inl h1
      by_cases h2 : l.y = 0
      · exact Or.inr (Or.inl h2)
      by_cases h3 : l.z = 0
      · exact Or.inr (Or.inr h3)
      simp [h1, h2, h3] at hnz
  unfold normalize; rw [hn]
  refine ⟨div_nonneg hx hpos.le, div_nonneg hy hpos.le, div_nonneg hz hpos.le, ?_, ?_⟩
  · show l.x / (l.x + l.y + l.z) + l.y / (l.x + l.y + l.z) + l.z / (l.x + l.y + l.z) = 1
    field_simp
  · rcases hzero with h1 | h1 | h1
    · left; show l.x / _ = 0; rw [h1]; simp
    · right; left; show l.y / _ = 0; rw [h1]; simp
    · right; right; show l.z / _ = 0; rw [h1]; simp

/-- the scalar core of the line–plane intersection: `u ≥ 1/2` is the coordinate of the limit along the chosen
    plane normal, `v = 1 - u` the other non-zero coordinate, `s = -u / (1/3 - u)` the line parameter -/
theorem negLim_core {u v : Rat} (hu : 1 / 2 ≤ u) (hv : 0 ≤ v) (huv : u + v = 1) :
    let s := -u / (1 / 3 - u)
    1 < s ∧ u + s * (1 / 3 - u) = 0 ∧ 0 ≤ v + s * (1 / 3 - v) ∧ 0 ≤ s * (1 / 3) ∧
      s * (1 / 3) + (v + s * (1 / 3 - v)) = 1 := by
  intro s
  have hd : (1 / 3 - u) < 0 := by linarith
  have hd' : (1 / 3 - u) ≠ 0 := hd.ne
  have hs : s = u / (u - 1 / 3) := by
    show -u / (1 / 3 - u) = u / (u - 1 / 3)
    rw [show (1 / 3 - u) = -(u - 1 / 3) by ring, neg_div_neg_eq]
  have hpos : 0 < u - 1 / 3 := by linarith
  have hs1 : 1 < s := by rw [hs, lt_div_iff₀ hpos]; linarith
  have e1 : s * (1 / 3 - u) = -u := by
    exact div_mul_cancel₀ _ hd'
  have hv' : v = 1 - u := by linarith
  have e2 : s * (u - 1 / 3) = u := by rw [hs]; exact div_mul_cancel₀ _ hpos.ne'
  refine ⟨hs1, by linarith, ?_, by nlinarith, ?_⟩
  · -- v + s (1/3 - v) = (u - v)/(3u - 1) ≥ 0
    have : (v + s * (1 / 3 - v)) * (u - 1 / 3) = (u - v) / 3 := by
      subst hv'; nlinarith
    have h2 : 0 ≤ (v + s * (1 / 3 - v)) * (u - 1 / 3) := by rw [this]; linarith
    exact nonneg_of_mul_nonneg_left h2 hpos
  · have : (s * (1 / 3) + (v + s * (1 / 3 - v)) - 1) * (u - 1 / 3) = 0 := by
      subst hv'; nlinarith
    rcases mul_eq_zero.mp this with h | h
    · linarith
    · linarith

end Qec.EM

/-! ## Part 3: the negative limit -/
namespace Qec.EM

/-- `N - centre = -k (L - centre)`, `k > 0`: `N` lies on the line through `L` and the centre, on the other side -/
def Opposite (L N : V3) : Prop :=
  ∃ k : Rat, 0 < k ∧ N.x - 1 / 3 = -k * (L.x - 1 / 3) ∧ N.y - 1 / 3 = -k * (L.y - 1 / 3) ∧
    N.z - 1 / 3 = -k * (L.z - 1 / 3)

theorem lpi_eX (L : V3) : linePlaneIntersect eX ⟨0, 0, 0⟩ (center.sub L) L =
    ⟨L.x + -L.x / (1 / 3 - L.x) * (1 / 3 - L.x), L.y + -L.x / (1 / 3 - L.x) * (1 / 3 - L.y),
      L.z + -L.x / (1 / 3 - L.x) * (1 / 3 - L.z)⟩ := by
  simp [linePlaneIntersect, eX, V3.sub, V3.add, V3.smul, V3.dot, center]

theorem lpi_eY (L : V3) : linePlaneIntersect eY ⟨0, 0, 0⟩ (center.sub L) L =
    ⟨L.x + -L.y / (1 / 3 - L.y) * (1 / 3 - L.x), L.y + -L.y / (1 / 3 - L.y) * (1 / 3 - L.y),
      L.z + -L.y / (1 / 3 - L.y) * (1 / 3 - L.z)⟩ := by
  simp [linePlaneIntersect, eY, V3.sub, V3.add, V3.smul, V3.dot, center]

theorem lpi_eZ (L : V3) : linePlaneIntersect eZ ⟨0, 0, 0⟩ (center.sub L) L =
    ⟨L.x + -L.z / (1 / 3 - L.z) * (1 / 3 - L.x), L.y + -L.z / (1 / 3 - L.z) * (1 / 3 - L.y),
      L.z + -L.z / (1 / 3 - L.z) * (1 / 3 - L.z)⟩ := by
  simp [linePlaneIntersect, eZ, V3.sub, V3.add, V3.smul, V3.dot, center]

/-- generic form: the point `L + s (c - L)` with `s = -u/(1/3-u)`, where `u = L_j ≥ 1/2`, one other coordinate is `0`
    and the third is `v = 1 - u` -/
theorem opposite_point_aux {L : V3} (hL : InTriangle L) {u : Rat} (hu : 1 / 2 ≤ u)
    (hj : (u = L.x ∧ (L.y = 0 ∨ L.z = 0)) ∨ (u = L.y ∧ (L.x = 0 ∨ L.z = 0)) ∨ (u = L.z ∧ (L.x = 0 ∨ L.y = 0))) :
    let s := -u / (1 / 3 - u)
    let P : V3 := ⟨L.x + s * (1 / 3 - L.x), L.y + s * (1 / 3 - L.y), L.z + s * (1 / 3 - L.z)⟩
    Boundary P ∧ Opposite L P := by
  intro s P
  have hx := hL.x0; have hy := hL.y0; have hz := hL.z0; have hsum := hL.sum1
  have opp : 1 < s → Opposite L P := fun hs1 =>
    ⟨s - 1, by linarith, by show L.x + s * (1 / 3 - L.x) - 1 / 3 = _; ring,
      by show L.y + s * (1 / 3 - L.y) - 1 / 3 = _; ring, by show L.z + s * (1 / 3 - L.z) - 1 / 3 = _; ring⟩
  rcases hj with ⟨hu', h0 | h0⟩ | ⟨hu', h0 | h0⟩ | ⟨hu', h0 | h0⟩
  · obtain ⟨c1, c2, c3, c4, c5⟩ := negLim_core (u := u) (v := L.z) hu hz (by rw [hu']; linarith)
    refine ⟨⟨?_, ?_, ?_, ?_, ?_⟩, opp c1⟩
    · show 0 ≤ L.x + s * (1 / 3 - L.x); rw [← hu']; exact c2.ge
    · show 0 ≤ L.y + s * (1 / 3 - L.y); rw [h0]; simp only [sub_zero, zero_add]; exact c4
    · exact c3
    · show L.x + s * (1 / 3 - L.x) + (L.y + s * (1 / 3 - L.y)) + (L.z + s * (1 / 3 - L.z)) = 1
      rw [← hu', h0, c2]; simp only [sub_zero, zero_add]; exact c5
    · left; show L.x + s * (1 / 3 - L.x) = 0; rw [← hu']; exact c2
  · obtain ⟨c1, c2, c3, c4, c5⟩ := negLim_core (u := u) (v := L.y) hu hy (by rw [hu']; linarith)
    refine ⟨⟨?_, ?_, ?_, ?_, ?_⟩, opp c1⟩
    · show 0 ≤ L.x + s * (1 / 3 - L.x); rw [← hu']; exact c2.ge
    · exact c3
    · show 0 ≤ L.z + s * (1 / 3 - L.z); rw [h0]; simp only [sub_zero, zero_add]; exact c4
    · show L.x + s * (1 / 3 - L.x) + (L.y + s * (1 / 3 - L.y)) + (L.z + s * (1 / 3 - L.z)) = 1
      rw [← hu', h0, c2]; simp only [sub_zero, zero_add]; linarith
    · left; show L.x + s * (1 / 3 - L.x) = 0; rw [← hu']; exact c2
  · obtain ⟨c1, c2, c3, c4, c5⟩ := negLim_core (u := u) (v := L.z) hu hz (by rw [hu']; linarith)
    refine ⟨⟨?_, ?_, ?_, ?_, ?_⟩, opp c1⟩
    · show 0 ≤ L.x + s * (1 / 3 - L.x); rw [h0]; simp only [sub_zero, zero_add]; exact c4
    · show 0 ≤ L.y + s * (1 / 3 - L.y); rw [← hu']; exact c2.ge
    · exact c3
    · show L.x + s * (1 / 3 - L.x) + (L.y + s * (1 / 3 - L.y)) + (L.z + s * (1 / 3 - L.z)) = 1
      rw [← hu', h0, c2]; simp only [sub_zero, zero_add]; linarith
    · right; left; show L.y + s * (1 / 3 - L.y) = 0; rw [← hu']; exact c2
  · obtain ⟨c1, c2, c3, c4, c5⟩ := negLim_core (u := u) (v := L.x) hu hx (by rw [hu']; linarith)
    refine ⟨⟨?_, ?_, ?_, ?_, ?_⟩, opp c1⟩
    · exact c3
    · show 0 ≤ L.y + s * (1 / 3 - L.y); rw [← hu']; exact c2.ge
    · show 0 ≤ L.z + s * (1 / 3 - L.z); rw [h0]; simp only [sub_zero, zero_add]; exact c4
    · show L.x + s * (1 / 3 - L.x) + (L.y + s * (1 / 3 - L.y)) + (L.z + s * (1 / 3 - L.z)) = 1
      rw [← hu', h0, c2]; simp only [sub_zero, zero_add]; linarith
    · right; left; show L.y + s * (1 / 3 - L.y) = 0; rw [← hu']; exact c2
  · obtain ⟨c1, c2, c3, c4, c5⟩ := negLim_core (u := u) (v := L.y) hu hy (by rw [hu']; linarith)
    refine ⟨⟨?_, ?_, ?_, ?_, ?_⟩, opp c1⟩
    · show 0 ≤ L.x + s * (1 / 3 - L.x); rw [h0]; simp only [sub_zero, zero_add]; exact c4
    · exact c3
    · show 0 ≤ L.z + s * (1 / 3 - L.z); rw [← hu']; exact c2.ge
    · show L.x + s * (1 / 3 - L.x) + (L.y + s * (1 / 3 - L.y)) + (L.z + s * (1 / 3 - L.z)) = 1
      rw [← hu', h0, c2]; simp only [sub_zero, zero_add]; linarith
    · right; right; show L.z + s * (1 / 3 - L.z) = 0; rw [← hu']; exact c2
  · obtain ⟨c1, c2, c3, c4, c5⟩ := negLim_core (u := u) (v := L.x) hu hx (by rw [hu']; linarith)
    refine ⟨⟨?_, ?_, ?_, ?_, ?_⟩, opp c1⟩
    · exact c3
    · show 0 ≤ L.y + s * (1 / 3 - L.y); rw [h0]; simp only [sub_zero, zero_add]; exact c4
    · show 0 ≤ L.z + s * (1 / 3 - L.z); rw [← hu']; exact c2.ge
    · show L.x + s * (1 / 3 - L.x) + (L.y + s * (1 / 3 - L.y)) + (L.z + s * (1 / 3 - L.z)) = 1
      rw [← hu', h0, c2]; simp only [sub_zero, zero_add]; linarith
    · right; right; show L.z + s * (1 / 3 - L.z) = 0; rw [← hu']; exact c2


/-- the point `L + s (c - L)` with `s = -u/(1/3-u)` -/
def oppPt (L : V3) (u : Rat) : V3 :=
  ⟨L.x + -u / (1 / 3 - u) * (1 / 3 - L.x), L.y + -u / (1 / 3 - u) * (1 / 3 - L.y),
    L.z + -u / (1 / 3 - u) * (1 / 3 - L.z)⟩

theorem opposite_point {L : V3} (hL : InTriangle L) {u : Rat} (hu : 1 / 2 ≤ u)
    (hj : (u = L.x ∧ (L.y = 0 ∨ L.z = 0)) ∨ (u = L.y ∧ (L.x = 0 ∨ L.z = 0)) ∨ (u = L.z ∧ (L.x = 0 ∨ L.y = 0))) :
    Boundary (oppPt L u) ∧ Opposite L (oppPt L u) := opposite_point_aux hL hu hj

theorem lpi_eX' (L : V3) : linePlaneIntersect eX ⟨0, 0, 0⟩ (center.sub L) L = oppPt L L.x := lpi_eX L
theorem lpi_eY' (L : V3) : linePlaneIntersect eY ⟨0, 0, 0⟩ (center.sub L) L = oppPt L L.y := lpi_eY L
theorem lpi_eZ' (L : V3) : linePlaneIntersect eZ ⟨0, 0, 0⟩ (center.sub L) L = oppPt L L.z := lpi_eZ L

/-- `_neg_lim` of a boundary point: defined, again a boundary point, on the line through the limit and the centre
    on the other side of the centre -/
theorem negLim_boundary {L : V3} (h : Boundary L) :
    ∃ N, negLim? L = some N ∧ Boundary N ∧ Opposite L N := by
  have hT := h.inTriangle
  have hx := h.x0; have hy := h.y0; have hz := h.z0; have hsum := h.sum1
  by_cases h1 : L.x = 0
  · have hd : L.dot eX = 0 := by simp [V3.dot, eX, h1]
    by_cases hc : (eY.sub L).sq ≤ (eZ.sub L).sq
    · have hu : 1 / 2 ≤ L.y := by
        simp [V3.sq, V3.dot, V3.sub, eY, eZ, h1] at hc; nlinarith
      obtain ⟨hb, ho⟩ := opposite_point hT hu (Or.inr (Or.inl ⟨rfl, Or.inl h1⟩))
      refine ⟨_, ?_, hb, ho⟩
      simp only [negLim?, negLimStep, hd, if_true, hc, lpi_eY']
      rw [normalize_of_inTriangle hb.inTriangle]
    · have hu : 1 / 2 ≤ L.z := by
        simp [V3.sq, V3.dot, V3.sub, eY, eZ, h1] at hc; nlinarith
      obtain ⟨hb, ho⟩ := opposite_point hT hu (Or.inr (Or.inr ⟨rfl, Or.inl h1⟩))
      refine ⟨_, ?_, hb, ho⟩
      simp only [negLim?, negLimStep, hd, if_true, hc, if_false, lpi_eZ']
      rw [normalize_of_inTriangle hb.inTriangle]
  · have hd : ¬ L.dot eX = 0 := by simpa [V3.dot, eX] using h1
    by_cases h2 : L.y = 0
    · have hd2 : L.dot eY = 0 := by simp [V3.dot, eY, h2]
      by_cases hc : (eZ.sub L).sq ≤ (eX.sub L).sq
      · have hu : 1 / 2 ≤ L.z := by
          simp [V3.sq, V3.dot, V3.sub, eX, eZ, h2] at hc; nlinarith
        obtain ⟨hb, ho⟩ := opposite_point hT hu (Or.inr (Or.inr ⟨rfl, Or.inr h2⟩))
        refine ⟨_, ?_, hb, ho⟩
        simp only [negLim?, negLimStep, hd, hd2, if_true, hc, if_false, lpi_eZ']
        rw [normalize_of_inTriangle hb.inTriangle]
      · have hu : 1 / 2 ≤ L.x := by
          simp [V3.sq, V3.dot, V3.sub, eX, eZ, h2] at hc; nlinarith
        obtain ⟨hb, ho⟩ := opposite_point hT hu (Or.inl ⟨rfl, Or.inl h2⟩)
        refine ⟨_, ?_, hb, ho⟩
        simp only [negLim?, negLimStep, hd, hd2, if_true, hc, if_false, lpi_eX']
        rw [normalize_of_inTriangle hb.inTriangle]
    · have hd2 : ¬ L.dot eY = 0 := by simpa [V3.dot, eY] using h2
      have h3 : L.z = 0 := by
        rcases h.zero with h0 | h0 | h0
        · exact absurd h0 h1
        · exact absurd h0 h2
        · exact h0
      have hd3 : L.dot eZ = 0 := by simp [V3.dot, eZ, h3]
      by_cases hc : (eX.sub L).sq ≤ (eY.sub L).sq
      · have hu : 1 / 2 ≤ L.x := by
          simp [V3.sq, V3.dot, V3.sub, eX, eY, h3] at hc; nlinarith
        obtain ⟨hb, ho⟩ := opposite_point hT hu (Or.inl ⟨rfl, Or.inr h3⟩)
        refine ⟨_, ?_, hb, ho⟩
        simp only [negLim?, negLimStep, hd, hd2, hd3, if_true, hc, if_false, lpi_eX']
        rw [normalize_of_inTriangle hb.inTriangle]
      · have hu : 1 / 2 ≤ L.y := by
          simp [V3.sq, V3.dot, V3.sub, eX, eY, h3] at hc; nlinarith
        obtain ⟨hb, ho⟩ := opposite_point hT hu (Or.inr (Or.inl ⟨rfl, Or.inr h3⟩))
        refine ⟨_, ?_, hb, ho⟩
        simp only [negLim?, negLimStep, hd, hd2, hd3, if_true, hc, if_false, lpi_eY']
        rw [normalize_of_inTriangle hb.inTriangle]

/-- convex combinations stay in the triangle -/
theorem convex_inTriangle {A B : V3} (hA : InTriangle A) (hB : InTriangle B) {a : Rat} (h0 : 0 ≤ a) (h1 : a ≤ 1) :
    InTriangle ((V3.smul a A).add (V3.smul (1 - a) B)) := by
  have h1' : 0 ≤ 1 - a := by linarith
  refine ⟨?_, ?_, ?_, ?_⟩
  · exact add_nonneg (mul_nonneg h0 hA.x0) (mul_nonneg h1' hB.x0)
  · exact add_nonneg (mul_nonneg h0 hA.y0) (mul_nonneg h1' hB.y0)
  · exact add_nonneg (mul_nonneg h0 hA.z0) (mul_nonneg h1' hB.z0)
  · show a * A.x + (1 - a) * B.x + (a * A.y + (1 - a) * B.y) + (a * A.z + (1 - a) * B.z) = 1
    have := hA.sum1; have := hB.sum1
    nlinarith

theorem center_inTriangle : InTriangle center := by
  refine ⟨?_, ?_, ?_, ?_⟩ <;> norm_num [center]

/-- `_ratio` of a boundary limit and a position in [-1,1]: defined and a point of the triangle -/
theorem ratio_inTriangle {L : V3} (h : Boundary L) {pos : Rat} (h1 : -1 ≤ pos) (h2 : pos ≤ 1) :
    ∃ r, ratio? L pos = some r ∧ InTriangle r := by
  unfold ratio?
  by_cases hp : pos ≥ 0
  · simp only [hp, if_true]
    exact ⟨_, rfl, convex_inTriangle h.inTriangle center_inTriangle (rabs_nonneg _) (rabs_le_one h1 h2)⟩
  · obtain ⟨N, hN, hb, _⟩ := negLim_boundary h
    simp only [hp, if_false, hN]
    exact ⟨_, rfl, convex_inTriangle hb.inTriangle center_inTriangle (rabs_nonneg _) (rabs_le_one h1 h2)⟩

end Qec.EM

namespace Qec.EM

/-- `ratSqrt?` only answers exact non-negative square roots -/
theorem ratSqrt?_spec {q s : Rat} (h : ratSqrt? q = some s) : 0 ≤ s ∧ s * s = q := by
  unfold ratSqrt? at h
  split at h
  · cases h
  · rename_i hq
    simp only [] at h
    split at h
    · rename_i hc
      obtain ⟨h1, h2⟩ := hc
      cases h
      refine ⟨by positivity, ?_⟩
      have hq0 : 0 ≤ q := not_lt.mp hq
      have hnum : 0 ≤ q.num := Rat.num_nonneg.mpr hq0
      have e1 : ((q.num.toNat : ℕ) : ℚ) = (q.num : ℚ) := by
        have := Int.toNat_of_nonneg hnum
        exact_mod_cast congrArg (fun z : ℤ => (z : ℚ)) this
      rw [div_mul_div_comm, ← Nat.cast_mul, ← Nat.cast_mul, h1, h2, e1]
      exact Rat.num_div_den q
    · cases h

end Qec.EM
