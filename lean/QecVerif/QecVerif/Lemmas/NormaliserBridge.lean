/-
  Bridges from `Qec.Symp.normaliser_complete…` (Lemmas/Normaliser.lean) to the two places where normaliser
  completeness was taken as a hypothesis:

  * `Qec.Distance.NormaliserComplete n S L` (Lemmas/Distance.lean, used by Props/C08.lean
    `isDistanceSpan_of_isDistance`)            — `normaliserComplete_of_valid`;
  * `Qec.Coset.CodeSpec.h_norm` (Lemmas/Coset.lean, used by Props/C10.lean)
                                               — `codeSpec_h_norm_of_valid`, and the whole structure
                                                 `codeSpec_of_valid` when `S` has exactly `n − k` rows.
-/
import QecVerif.Lemmas.Normaliser
import QecVerif.Lemmas.Distance
import QecVerif.Lemmas.Coset
namespace Qec.Symp
open Qec

/-! ### C08: the inductive span of Lemmas/Distance.lean -/

theorem distance_inSpan_cons (n : Nat) (r : BVec) (rows : List BVec) (v : BVec)
    (h : Distance.InSpan n rows v) : Distance.InSpan n (r :: rows) v := by
  induction h with
  | zero => exact Distance.InSpan.zero
  | add s v hs _ ih => exact Distance.InSpan.add s v (List.mem_cons_of_mem _ hs) ih

theorem distance_inSpan_xorComb (n : Nat) (cs : List Bool) (rows : List BVec) :
    Distance.InSpan n rows (xorComb (2 * n) cs rows) := by
  induction cs generalizing rows with
  | nil => rw [xorComb_nil_left]; exact Distance.InSpan.zero
  | cons c cs ih =>
    cases rows with
    | nil => rw [xorComb_nil_right]; exact Distance.InSpan.zero
    | cons r rows =>
      rw [xorComb_cons]
      split
      · exact Distance.InSpan.add r _ List.mem_cons_self (distance_inSpan_cons n r rows _ (ih rows))
      · exact distance_inSpan_cons n r rows _ (ih rows)

/-- a XOR-combination (span of Lemmas/Symplectic.lean) is in the inductive span of Lemmas/Distance.lean -/
theorem distance_inSpan_of_inSpan (n : Nat) (S : List BVec) (e : BVec) (h : InSpan (2 * n) S e) :
    Distance.InSpan n S e := by
  rcases h with ⟨cs, _, rfl⟩
  exact distance_inSpan_xorComb n cs S

/-- **discharges `NormaliserComplete`** (hypothesis `hcomp` of `C08.isDistanceSpan_of_isDistance`) for every
    valid code, with `L := Lx ++ Lz` -/
theorem normaliserComplete_of_valid (n k : Nat) (S Lx Lz : List BVec) (h : ValidCode n k S Lx Lz) :
    Distance.NormaliserComplete n S (Lx ++ Lz) :=
  fun e he hc hl => distance_inSpan_of_inSpan n S e
    (normaliser_complete_stab n k S Lx Lz h e he ((Distance.commAll_iff S e).mp hc) hl)

/-- the same for any list `L` of logicals that contains every row of `Lx` and `Lz` (e.g. `[X̄, Z̄]`, or the
    interleaved `logicals` list of a family) -/
theorem normaliserComplete_of_valid' (n k : Nat) (S Lx Lz L : List BVec) (h : ValidCode n k S Lx Lz)
    (hL : ∀ l ∈ Lx ++ Lz, l ∈ L) : Distance.NormaliserComplete n S L :=
  fun e he hc hl => normaliserComplete_of_valid n k S Lx Lz h e he hc (fun l hm => hl l (hL l hm))

/-! ### C10: `spanEnum` and `CodeSpec` of Lemmas/Coset.lean -/

theorem coset_xorComb_eq (m : Nat) (cs : List Bool) (rows : List BVec) :
    Coset.xorComb m cs rows = xorComb m cs rows := by
  induction cs generalizing rows with
  | nil => simp [Coset.xorComb]
  | cons c cs ih =>
    cases rows with
    | nil => simp [Coset.xorComb]
    | cons r rows => simp [Coset.xorComb, ih rows]

theorem mem_spanEnum_of_inSpan (m : Nat) (rows : List BVec) (e : BVec) (h : InSpan m rows e) :
    e ∈ Coset.spanEnum m rows := by
  rcases h with ⟨cs, hcs, rfl⟩
  exact (Coset.mem_spanEnum_iff m rows _).mpr ⟨cs, hcs, (coset_xorComb_eq m cs rows).symm⟩

theorem inSpan_of_mem_spanEnum (m : Nat) (rows : List BVec) (e : BVec) (h : e ∈ Coset.spanEnum m rows) :
    InSpan m rows e := by
  obtain ⟨cs, hcs, rfl⟩ := (Coset.mem_spanEnum_iff m rows e).mp h
  exact ⟨cs, hcs, (coset_xorComb_eq m cs rows).symm⟩

theorem synd_zero_iff (S : List BVec) (e : BVec) : synd S e = zeros S.length ↔ ∀ s ∈ S, bsp e s = false := by
  induction S with
  | nil => simp [synd, zeros]
  | cons s S ih =>
    simp only [synd, zeros, List.map_cons, List.length_cons, List.replicate_succ, List.cons.injEq,
      List.mem_cons, forall_eq_or_imp] at ih ⊢
    rw [ih]

theorem linIndep_of_independent (m : Nat) (rows : List BVec) (h : Independent m rows) :
    Coset.LinIndep m rows := by
  intro c hc hz
  rw [coset_xorComb_eq] at hz
  have := h c hc hz
  rw [← hc]
  exact List.eq_replicate_iff.mpr ⟨rfl, this⟩

/-- independence does not depend on the order of two blocks -/
theorem independent_append_comm (m : Nat) (A B : List BVec) (hA : AllLen m A) (hB : AllLen m B)
    (h : Independent m (A ++ B)) : Independent m (B ++ A) := by
  intro cs hcs hz
  simp only [List.length_append] at hcs
  have hXl := xorComb_length m (cs.take B.length) B hB
  have hYl := xorComb_length m (cs.drop B.length) A hA
  rw [xorComb_append m cs B A hB hA, xorV_comm] at hz
  have htl : (cs.take B.length).length = B.length := by simp [hcs]
  have hdl : (cs.drop B.length).length = A.length := by simp [hcs]
  have key := h (cs.drop B.length ++ cs.take B.length) (by rw [List.length_append, List.length_append, htl, hdl]) (by
    rw [xorComb_append m _ A B hA hB, ← hdl, List.take_left, List.drop_left]
    rw [hdl] at *
    exact hz)
  intro c hc
  rw [← List.take_append_drop B.length cs] at hc
  apply key c
  rcases List.mem_append.mp hc with h' | h'
  · exact List.mem_append_right _ h'
  · exact List.mem_append_left _ h'

/-- **discharges `CodeSpec.h_norm`** (with `L := Lx ++ Lz`, `m := 2 n`) for every valid code -/
theorem codeSpec_h_norm_of_valid (n k : Nat) (S Lx Lz : List BVec) (h : ValidCode n k S Lx Lz) :
    ∀ e : BVec, e.length = 2 * n → synd S e = zeros S.length →
      e ∈ Coset.spanEnum (2 * n) ((Lx ++ Lz) ++ S) := by
  intro e he hs
  have h1 := normaliser_complete n k S Lx Lz h e he ((synd_zero_iff S e).mp hs)
  have hall : AllLen (2 * n) ((Lx ++ Lz) ++ S) := (h.len_Lx.append h.len_Lz).append h.len_S
  apply mem_spanEnum_of_inSpan
  apply inSpan_trans (2 * n) (S ++ Lx ++ Lz) _ hall _ e h1
  intro a ha
  apply inSpan_mem (2 * n) _ hall a
  simp only [List.mem_append] at ha ⊢
  tauto

/-- `CodeSpec.h_comm` for a valid code -/
theorem codeSpec_h_comm_of_valid (n k : Nat) (S Lx Lz : List BVec) (h : ValidCode n k S Lx Lz) :
    ∀ a ∈ (Lx ++ Lz) ++ S, synd S a = zeros S.length := by
  intro a ha
  rw [synd_zero_iff]
  intro s hs
  rcases List.mem_append.mp ha with ha | ha
  · rcases List.mem_append.mp ha with ha | ha
    · rw [bsp_comm' n _ _ (h.len_Lx a ha) (h.len_S s hs)]; exact h.stab_comm_Lx s hs a ha
    · rw [bsp_comm' n _ _ (h.len_Lz a ha) (h.len_S s hs)]; exact h.stab_comm_Lz s hs a ha
  · exact h.stab_comm a ha s hs

/-- **the whole `CodeSpec`** of Lemmas/Coset.lean for a valid code whose generator list has exactly `n − k` rows
    (planar, rotated planar, colour 6.6.6, five-qubit, Steane; NOT the tori, whose generator lists are dependent) -/
theorem codeSpec_of_valid (n k : Nat) (S Lx Lz : List BVec) (h : ValidCode n k S Lx Lz)
    (hcount : S.length = n - k) : Coset.CodeSpec (2 * n) S (Lx ++ Lz) where
  even := by omega
  lenS := h.len_S
  lenL := h.len_Lx.append h.len_Lz
  h_indep := by
    obtain ⟨S', hsub, hc, hind, _⟩ := h.rank
    have hS' : S' = S := hsub.eq_of_length (by rw [hc, hcount])
    subst hS'
    exact linIndep_of_independent _ _
      (independent_append_comm (2 * n) S' (Lx ++ Lz) h.len_S (h.len_Lx.append h.len_Lz)
        (independent_stab_logicals n k S' Lx Lz S' h (List.Sublist.refl _) hind))
  h_comm := codeSpec_h_comm_of_valid n k S Lx Lz h
  h_norm := codeSpec_h_norm_of_valid n k S Lx Lz h

end Qec.Symp
