/-
  Helper definitions and lemmas for C13 (Model/Matching.lean).
-/
import QecVerif.Model.Matching
import Mathlib.Data.List.Perm.Basic
import Mathlib.Data.List.Perm.Subperm
import Mathlib.Data.List.Nodup
import Mathlib.Algebra.Order.Ring.Rat
import Mathlib.Tactic.Linarith
namespace Qec.Matching

/-! ### specification vocabulary -/

def keys (g : Graph) : List Edge := g.map (·.1)

/-- one `add_edge(a, b, w)` on the abstract dictionary `Edge → Option Rat` -/
def specAdd (f : Edge → Option Rat) (a b : Node) (w : Rat) : Edge → Option Rat :=
  fun k => if k = (a, b) then some w else if k = (b, a) then none else f k

/-- what an insertion sequence MEANS: for every ordered pair the last weight written under it, unless the reversed
    pair was written later -/
def lastWrite (ops : List (Node × Node × Rat)) : Edge → Option Rat :=
  ops.foldl (fun f o => specAdd f o.1 o.2.1 o.2.2) (fun _ => none)

/-- the association list `g` represents the dictionary `f` -/
def Repr (g : Graph) (f : Edge → Option Rat) : Prop :=
  (keys g).Nodup ∧ ∀ k w, (k, w) ∈ g ↔ f k = some w

/-- no unordered pair is present in both orientations -/
def NoRev (f : Edge → Option Rat) : Prop := ∀ a b, a ≠ b → f (a, b) ≠ none → f (b, a) = none

/-- `m` is a perfect matching of the nodes `ns` in the graph with edge weights `w`: every pair is an edge, and the
    endpoints of the pairs are the nodes, each exactly once -/
def IsPM (ns : List Node) (w : Node → Node → Option Rat) (m : List Edge) : Prop :=
  (∀ p ∈ m, (w p.1 p.2).isSome = true) ∧ (endpoints m).Perm ns

/-- a matching: pairs are edges, no node is used twice, all endpoints are nodes -/
def IsMatching (ns : List Node) (w : Node → Node → Option Rat) (m : List Edge) : Prop :=
  (∀ p ∈ m, (w p.1 p.2).isSome = true) ∧ (endpoints m).Nodup ∧ ∀ v ∈ endpoints m, v ∈ ns

def Symm (w : Node → Node → Option Rat) : Prop := ∀ a b, w a b = w b a

/-- weights negated, as the wrapper does before calling networkx -/
def negW (w : Node → Node → Option Rat) : Node → Node → Option Rat := fun a b => (w a b).map (-·)

/-! ### SimpleGraph.add_edge -/

theorem repr_nil : Repr [] (fun _ => none) := by
  simp [Repr, keys]

theorem repr_popKey {g : Graph} {f} (k : Edge) (h : Repr g f) :
    Repr (popKey g k) (fun x => if x = k then none else f x) := by
  obtain ⟨hn, hm⟩ := h
  refine ⟨?_, ?_⟩
  · exact hn.sublist ((List.filter_sublist (l := g)).map _)
  · intro x w
    simp only [popKey, List.mem_filter, bne_iff_ne, ne_eq]
    by_cases hx : x = k
    · simp [hx]
    · simp [hx, hm]

theorem keys_setKey_of_mem {g : Graph} (k : Edge) (w : Rat) :
    keys (g.map (fun e => if e.1 == k then (k, w) else e)) = keys g := by
  unfold keys
  rw [List.map_map]
  apply List.map_congr_left
  intro e _
  by_cases he : e.1 = k <;> simp [he]

theorem repr_setKey {g : Graph} {f} (k : Edge) (w : Rat) (h : Repr g f) :
    Repr (setKey g k w) (fun x => if x = k then some w else f x) := by
  obtain ⟨hn, hm⟩ := h
  unfold setKey
  by_cases hany : (g.any fun e => e.1 == k) = true
  · rw [if_pos hany]
    refine ⟨by rw [keys_setKey_of_mem]; exact hn, ?_⟩
    intro x w'
    obtain ⟨e0, he0, hk0⟩ := List.any_eq_true.mp hany
    have hk0' : e0.1 = k := by simpa using hk0
    simp only [List.mem_map]
    constructor
    · rintro ⟨e, he, heq⟩
      by_cases hek : e.1 = k
      · simp [hek] at heq
        obtain ⟨h1, h2⟩ := heq
        simp [← h1, h2]
      · simp [hek] at heq
        subst heq
        simp only at hek
        simp [hek]
        exact (hm _ _).mp he
    · intro hx
      by_cases hxk : x = k
      · simp [hxk] at hx
        exact ⟨e0, he0, by simp [hk0', hxk, hx]⟩
      · simp [hxk] at hx
        exact ⟨(x, w'), (hm _ _).mpr hx, by simp [hxk]⟩
  · rw [if_neg hany]
    have hnot : k ∉ keys g := by
      intro hk
      apply hany
      obtain ⟨e, he, hek⟩ := List.mem_map.mp hk
      exact List.any_eq_true.mpr ⟨e, he, by simp [hek]⟩
    refine ⟨?_, ?_⟩
    · unfold keys at *
      rw [List.map_append, List.nodup_append]
      refine ⟨hn, by simp, ?_⟩
      intro a ha b hb
      simp at hb
      subst hb
      intro hab
      subst hab
      exact hnot ha
    · intro x w'
      simp only [List.mem_append, List.mem_singleton, Prod.mk.injEq]
      by_cases hxk : x = k
      · subst hxk
        simp only [true_and, if_true, Option.some.injEq]
        constructor
        · rintro (h | h)
          · exact absurd (List.mem_map.mpr ⟨_, h, rfl⟩) hnot
          · exact h.symm
        · intro h; exact Or.inr h.symm
      · simp [hxk, hm]

theorem repr_addEdge {g : Graph} {f} (a b : Node) (w : Rat) (h : Repr g f) :
    Repr (addEdge g a b w) (specAdd f a b w) := by
  have := repr_setKey (a, b) w (repr_popKey (b, a) h)
  exact this

theorem repr_foldl (ops : List (Node × Node × Rat)) : ∀ (g : Graph) (f : Edge → Option Rat), Repr g f →
    Repr (ops.foldl (fun g o => addEdge g o.1 o.2.1 o.2.2) g)
      (ops.foldl (fun f o => specAdd f o.1 o.2.1 o.2.2) f) := by
  induction ops with
  | nil => intro g f h; exact h
  | cons o ops ih => intro g f h; exact ih _ _ (repr_addEdge _ _ _ h)

theorem repr_build (ops : List (Node × Node × Rat)) : Repr (build ops) (lastWrite ops) :=
  repr_foldl ops [] _ repr_nil

theorem noRev_specAdd {f} (a b : Node) (w : Rat) (h : NoRev f) : NoRev (specAdd f a b w) := by
  intro x y hxy hne
  unfold specAdd at *
  simp only [Prod.mk.injEq] at *
  by_cases h1 : y = a ∧ x = b
  · obtain ⟨rfl, rfl⟩ := h1
    simp [hxy] at hne
  · rw [if_neg h1]
    by_cases h2 : y = b ∧ x = a
    · rw [if_pos h2]
    · rw [if_neg h2]
      have h3 : ¬(x = a ∧ y = b) := fun h => h2 ⟨h.2, h.1⟩
      have h4 : ¬(x = b ∧ y = a) := fun h => h1 ⟨h.2, h.1⟩
      rw [if_neg h3, if_neg h4] at hne
      exact h x y hxy hne

theorem noRev_foldl (ops : List (Node × Node × Rat)) : ∀ f, NoRev f →
    NoRev (ops.foldl (fun f o => specAdd f o.1 o.2.1 o.2.2) f) := by
  induction ops with
  | nil => intro f h; exact h
  | cons o ops ih => intro f h; exact ih _ (noRev_specAdd _ _ _ h)

theorem noRev_lastWrite (ops : List (Node × Node × Rat)) : NoRev (lastWrite ops) :=
  noRev_foldl ops _ (by intro a b _ h; simp at h)

theorem lastWrite_snoc (ops : List (Node × Node × Rat)) (a b : Node) (w : Rat) :
    lastWrite (ops ++ [(a, b, w)]) = specAdd (lastWrite ops) a b w := by
  simp [lastWrite, List.foldl_append]

theorem mem_keys_iff {g : Graph} {f} (h : Repr g f) (k : Edge) : k ∈ keys g ↔ f k ≠ none := by
  unfold keys
  constructor
  · intro hk
    obtain ⟨e, he, rfl⟩ := List.mem_map.mp hk
    have := (h.2 e.1 e.2).mp he
    simp [this]
  · intro hk
    obtain ⟨w, hw⟩ := Option.ne_none_iff_exists'.mp hk
    exact List.mem_map.mpr ⟨(k, w), (h.2 k w).mpr hw, rfl⟩

theorem lookup_eq_of_repr {g : Graph} {f} (h : Repr g f) (k : Edge) : lookup g k = f k := by
  unfold lookup
  cases hf : g.find? (fun e => e.1 == k) with
  | none =>
    have hall := List.find?_eq_none.mp hf
    cases hfk : f k with
    | none => rfl
    | some w =>
      have := (h.2 k w).mpr hfk
      have := hall _ this
      simp at this
  | some e =>
    have hmem := List.mem_of_find?_eq_some hf
    have hk := List.find?_some hf
    have hk' : e.1 = k := by simpa using hk
    have := (h.2 e.1 e.2).mp hmem
    simp [← hk', this]

/-! ### weights and permutations -/

theorem endpoints_cons (p : Edge) (m : List Edge) : endpoints (p :: m) = p.1 :: p.2 :: endpoints m := by
  simp [endpoints]

theorem endpoints_perm {m m' : List Edge} (h : m.Perm m') : (endpoints m).Perm (endpoints m') :=
  List.Perm.flatMap_right _ h

theorem length_endpoints (m : List Edge) : (endpoints m).length = 2 * m.length := by
  induction m with
  | nil => rfl
  | cons p m ih => rw [endpoints_cons]; simp [ih]; omega

theorem weightBy_perm (w) {m m' : List Edge} (h : m.Perm m') : weightBy w m = weightBy w m' := by
  induction h with
  | nil => rfl
  | cons p _ ih => simp [weightBy, ih]
  | swap p q l => simp only [weightBy]; linarith
  | trans _ _ ih1 ih2 => exact ih1.trans ih2

theorem pairW_negW (w) (p : Edge) : pairW (negW w) p = - pairW w p := by
  unfold pairW negW
  cases w p.1 p.2 <;> simp

theorem weightBy_negW (w) (m : List Edge) : weightBy (negW w) m = - weightBy w m := by
  induction m with
  | nil => simp [weightBy]
  | cons p m ih => simp only [weightBy, ih, pairW_negW]; rw [neg_add]

theorem isPM_negW (ns w m) : IsPM ns (negW w) m ↔ IsPM ns w m := by
  unfold IsPM negW
  simp

theorem isMatching_negW (ns w m) : IsMatching ns (negW w) m ↔ IsMatching ns w m := by
  unfold IsMatching negW
  simp

theorem IsPM.isMatching {ns w m} (hn : ns.Nodup) (h : IsPM ns w m) : IsMatching ns w m :=
  ⟨h.1, h.2.nodup_iff.mpr hn, fun _ hv => h.2.subset hv⟩

/-! ### the fold of `optMin` -/

theorem foldMin_spec {β} (c : β → Option Rat) (l : List β) : ∀ init : Option Rat,
    ((l.foldl (fun acc b => optMin acc (c b)) init = none ↔ init = none ∧ ∀ b ∈ l, c b = none)) ∧
    ∀ m, l.foldl (fun acc b => optMin acc (c b)) init = some m →
      ((init = some m ∨ ∃ b ∈ l, c b = some m) ∧ (∀ x, init = some x → m ≤ x) ∧
        (∀ b ∈ l, ∀ x, c b = some x → m ≤ x)) := by
  induction l with
  | nil =>
    intro init
    refine ⟨by simp, ?_⟩
    intro m hm
    simp only [List.foldl_nil] at hm
    refine ⟨Or.inl hm, ?_, by simp⟩
    intro x hx; rw [hm] at hx; cases hx; exact le_refl _
  | cons b l ih =>
    intro init
    simp only [List.foldl_cons]
    obtain ⟨ihn, ihs⟩ := ih (optMin init (c b))
    constructor
    · rw [ihn]
      cases init <;> cases hcb : c b <;> simp [optMin, hcb]
    · intro m hm
      obtain ⟨h1, h2, h3⟩ := ihs m hm
      cases hi : init with
      | none =>
        cases hcb : c b with
        | none =>
          simp only [hi, hcb, optMin] at h1 h2
          refine ⟨?_, by simp, ?_⟩
          · rcases h1 with h1 | ⟨b', hb', hc'⟩
            · cases h1
            · exact Or.inr ⟨b', List.mem_cons_of_mem _ hb', hc'⟩
          · intro b' hb' x hx
            rcases List.mem_cons.mp hb' with rfl | hb'
            · rw [hcb] at hx; cases hx
            · exact h3 b' hb' x hx
        | some y =>
          simp only [hi, hcb, optMin] at h1 h2
          refine ⟨?_, by simp, ?_⟩
          · rcases h1 with h1 | ⟨b', hb', hc'⟩
            · exact Or.inr ⟨b, List.mem_cons_self, by rw [hcb]; exact h1⟩
            · exact Or.inr ⟨b', List.mem_cons_of_mem _ hb', hc'⟩
          · intro b' hb' x hx
            rcases List.mem_cons.mp hb' with rfl | hb'
            · rw [hcb] at hx; cases hx; exact h2 _ rfl
            · exact h3 b' hb' x hx
      | some x0 =>
        cases hcb : c b with
        | none =>
          simp only [hi, hcb, optMin] at h1 h2
          refine ⟨?_, ?_, ?_⟩
          · rcases h1 with h1 | ⟨b', hb', hc'⟩
            · exact Or.inl h1
            · exact Or.inr ⟨b', List.mem_cons_of_mem _ hb', hc'⟩
          · intro x hx; exact h2 x hx
          · intro b' hb' x hx
            rcases List.mem_cons.mp hb' with rfl | hb'
            · rw [hcb] at hx; cases hx
            · exact h3 b' hb' x hx
        | some y =>
          simp only [hi, hcb, optMin] at h1 h2
          have hmin := h2 _ rfl
          by_cases hle : x0 ≤ y
          · rw [if_pos hle] at h1 hmin
            refine ⟨?_, ?_, ?_⟩
            · rcases h1 with h1 | ⟨b', hb', hc'⟩
              · exact Or.inl h1
              · exact Or.inr ⟨b', List.mem_cons_of_mem _ hb', hc'⟩
            · intro x hx; cases hx; exact hmin
            · intro b' hb' x hx
              rcases List.mem_cons.mp hb' with rfl | hb'
              · rw [hcb] at hx; cases hx; exact le_trans hmin hle
              · exact h3 b' hb' x hx
          · rw [if_neg hle] at h1 hmin
            refine ⟨?_, ?_, ?_⟩
            · rcases h1 with h1 | ⟨b', hb', hc'⟩
              · exact Or.inr ⟨b, List.mem_cons_self, by rw [hcb]; exact h1⟩
              · exact Or.inr ⟨b', List.mem_cons_of_mem _ hb', hc'⟩
            · intro x hx; cases hx; exact le_trans hmin (le_of_lt (not_le.mp hle))
            · intro b' hb' x hx
              rcases List.mem_cons.mp hb' with rfl | hb'
              · rw [hcb] at hx; cases hx; exact hmin
              · exact h3 b' hb' x hx

/-! ### the verified optimum -/

/-- soundness: a value returned by `minPMAux` is the weight of some perfect matching -/
theorem minPMAux_sound (w) : ∀ (f : Nat) (ns : List Node) (m : Rat), minPMAux w f ns = some m →
    ∃ M, IsPM ns w M ∧ weightBy w M = m := by
  intro f
  induction f with
  | zero =>
    intro ns m h
    cases ns with
    | nil =>
      simp only [minPMAux, Option.some.injEq] at h
      exact ⟨[], ⟨by simp, by simp [endpoints]⟩, by simp [weightBy, h]⟩
    | cons a rest => simp [minPMAux] at h
  | succ f ih =>
    intro ns m h
    cases ns with
    | nil =>
      simp only [minPMAux, Option.some.injEq] at h
      exact ⟨[], ⟨by simp, by simp [endpoints]⟩, by simp [weightBy, h]⟩
    | cons a rest =>
      simp only [minPMAux] at h
      obtain ⟨h1, -, -⟩ := (foldMin_spec (fun b => optAdd (w a b) (minPMAux w f (rest.erase b))) rest none).2 m h
      rcases h1 with h1 | ⟨b, hb, hc⟩
      · cases h1
      · cases hw : w a b with
        | none => simp [hw, optAdd] at hc
        | some c =>
          cases hr : minPMAux w f (rest.erase b) with
          | none => simp [hw, hr, optAdd] at hc
          | some m' =>
            simp only [hw, hr, optAdd, Option.some.injEq] at hc
            obtain ⟨M', hpm, hwt⟩ := ih _ _ hr
            refine ⟨(a, b) :: M', ⟨?_, ?_⟩, ?_⟩
            · intro p hp
              rcases List.mem_cons.mp hp with rfl | hp
              · simp [hw]
              · exact hpm.1 p hp
            · rw [endpoints_cons]
              exact (List.Perm.cons a ((List.Perm.cons b hpm.2).trans (List.perm_cons_erase hb).symm))
            · simp [weightBy, pairW, hw, hwt, hc]

theorem endpoints_eq_nil {M : List Edge} (h : endpoints M = []) : M = [] := by
  cases M with
  | nil => rfl
  | cons p M => rw [endpoints_cons] at h; cases h

/-- completeness / lower bound: with enough fuel, every perfect matching is bounded below by the returned value -/
theorem minPMAux_le (w) (hs : Symm w) : ∀ (f : Nat) (ns : List Node) (M : List Edge), ns.length ≤ f → ns.Nodup →
    IsPM ns w M → ∃ m, minPMAux w f ns = some m ∧ m ≤ weightBy w M := by
  intro f
  induction f with
  | zero =>
    intro ns M hl _ hpm
    have : ns = [] := List.eq_nil_of_length_eq_zero (Nat.le_zero.mp hl)
    subst this
    have hM : M = [] := endpoints_eq_nil (List.Perm.eq_nil hpm.2)
    subst hM
    exact ⟨0, by simp [minPMAux], by simp [weightBy]⟩
  | succ f ih =>
    intro ns M hl hnd hpm
    cases ns with
    | nil =>
      have hM : M = [] := endpoints_eq_nil (List.Perm.eq_nil hpm.2)
      subst hM
      exact ⟨0, by simp [minPMAux], by simp [weightBy]⟩
    | cons a rest =>
      have ha : a ∈ endpoints M := hpm.2.symm.subset List.mem_cons_self
      obtain ⟨p, hp, hap⟩ := List.mem_flatMap.mp ha
      have hperm : M.Perm (p :: M.erase p) := List.perm_cons_erase hp
      have hE : (p.1 :: p.2 :: endpoints (M.erase p)).Perm (a :: rest) := by
        rw [← endpoints_cons]; exact (endpoints_perm hperm).symm.trans hpm.2
      have hedge := hpm.1 p hp
      have hM'edges : ∀ q ∈ M.erase p, (w q.1 q.2).isSome = true :=
        fun q hq => hpm.1 q (List.mem_of_mem_erase hq)
      have hwt : weightBy w M = pairW w p + weightBy w (M.erase p) := by
        rw [weightBy_perm w hperm]; rfl
      -- the partner `b` of `a`, with `b :: E' ~ rest`
      have key : ∃ b, (b :: endpoints (M.erase p)).Perm rest ∧ w a b = w p.1 p.2 := by
        simp only [List.mem_cons, List.not_mem_nil, or_false] at hap
        rcases hap with h1 | h2
        · refine ⟨p.2, ?_, by rw [h1]⟩
          rw [← h1] at hE; exact hE.cons_inv
        · refine ⟨p.1, ?_, by rw [h2]; exact hs _ _⟩
          rw [← h2] at hE
          exact ((List.Perm.swap p.1 a _).trans hE).cons_inv
      obtain ⟨b, hb, hwab⟩ := key
      have hbrest : b ∈ rest := hb.subset List.mem_cons_self
      have hE' : (endpoints (M.erase p)).Perm (rest.erase b) := by
        have := hb.erase b
        simpa using this
      have hnd' : (rest.erase b).Nodup := (List.nodup_cons.mp hnd).2.erase b
      have hl' : (rest.erase b).length ≤ f := by
        rw [List.length_erase_of_mem hbrest]; simp at hl; omega
      obtain ⟨m', hm', hle'⟩ := ih (rest.erase b) (M.erase p) hl' hnd' ⟨hM'edges, hE'⟩
      obtain ⟨c, hc⟩ := Option.isSome_iff_exists.mp hedge
      have hcand : optAdd (w a b) (minPMAux w f (rest.erase b)) = some (c + m') := by
        rw [hwab, hc, hm']; rfl
      have hpw : pairW w p = c := by simp [pairW, hc]
      have spec := foldMin_spec (fun b => optAdd (w a b) (minPMAux w f (rest.erase b))) rest none
      cases hres : rest.foldl (fun acc b => optMin acc (optAdd (w a b) (minPMAux w f (rest.erase b)))) none with
      | none =>
        have := (spec.1.mp hres).2 b hbrest
        rw [hcand] at this; cases this
      | some m =>
        refine ⟨m, by simp only [minPMAux]; exact hres, ?_⟩
        have := (spec.2 m hres).2.2 b hbrest _ hcand
        rw [hwt, hpw]; linarith

/-! ### nodes, edges and the checker -/

theorem mem_nodesOf (g : Graph) (v : Node) : v ∈ nodesOf g ↔ ∃ e ∈ g, v = e.1.1 ∨ v = e.1.2 := by
  induction g with
  | nil => simp [nodesOf]
  | cons e g ih =>
    have : nodesOf (e :: g) = List.insert e.1.1 (List.insert e.1.2 (nodesOf g)) := rfl
    rw [this]
    simp only [List.mem_insert_iff, ih, List.mem_cons]
    constructor
    · rintro (h | h | ⟨e', he', h⟩)
      · exact ⟨e, Or.inl rfl, Or.inl h⟩
      · exact ⟨e, Or.inl rfl, Or.inr h⟩
      · exact ⟨e', Or.inr he', h⟩
    · rintro ⟨e', rfl | he', h⟩
      · rcases h with h | h
        · exact Or.inl h
        · exact Or.inr (Or.inl h)
      · exact Or.inr (Or.inr ⟨e', he', h⟩)

theorem nodup_nodesOf (g : Graph) : (nodesOf g).Nodup := by
  induction g with
  | nil => simp [nodesOf]
  | cons e g ih =>
    have : nodesOf (e :: g) = List.insert e.1.1 (List.insert e.1.2 (nodesOf g)) := rfl
    rw [this]
    exact (ih.insert).insert

theorem mem_of_lookup {g : Graph} {k : Edge} {w : Rat} (h : lookup g k = some w) : (k, w) ∈ g := by
  unfold lookup at h
  cases hf : g.find? (fun e => e.1 == k) with
  | none => simp [hf] at h
  | some e =>
    simp only [hf, Option.map_some, Option.some.injEq] at h
    have hmem := List.mem_of_find?_eq_some hf
    have hk : e.1 = k := by simpa using List.find?_some hf
    rw [← hk, ← h]; exact hmem

theorem edge_nodes {g : Graph} {a b : Node} (h : (edgeW g a b).isSome = true) : a ∈ nodesOf g ∧ b ∈ nodesOf g := by
  unfold edgeW at h
  cases h1 : lookup g (a, b) with
  | some w =>
    have := mem_of_lookup h1
    exact ⟨(mem_nodesOf g a).mpr ⟨_, this, Or.inl rfl⟩, (mem_nodesOf g b).mpr ⟨_, this, Or.inr rfl⟩⟩
  | none =>
    rw [h1] at h
    obtain ⟨w, h2⟩ := Option.isSome_iff_exists.mp h
    have := mem_of_lookup h2
    exact ⟨(mem_nodesOf g a).mpr ⟨_, this, Or.inr rfl⟩, (mem_nodesOf g b).mpr ⟨_, this, Or.inl rfl⟩⟩

theorem lookup_negated (g : Graph) (k : Edge) : lookup (negated g) k = (lookup g k).map (-·) := by
  induction g with
  | nil => rfl
  | cons e g ih =>
    unfold lookup negated at *
    simp only [List.map_cons, List.find?_cons]
    cases hek : (e.1 == k) with
    | true => simp
    | false => simpa using ih

theorem edgeW_negated (g : Graph) : edgeW (negated g) = negW (edgeW g) := by
  funext a b
  unfold edgeW negW
  rw [lookup_negated, lookup_negated]
  cases h : lookup g (a, b) <;> simp [h]

theorem nodesOf_negated (g : Graph) : nodesOf (negated g) = nodesOf g := by
  induction g with
  | nil => rfl
  | cons e g ih =>
    have h1 : nodesOf (e :: g) = List.insert e.1.1 (List.insert e.1.2 (nodesOf g)) := rfl
    have h2 : nodesOf (negated (e :: g)) = List.insert e.1.1 (List.insert e.1.2 (nodesOf (negated g))) := rfl
    rw [h1, h2, ih]

theorem edgeW_symm_of_repr {g : Graph} {f} (h : Repr g f) (hr : NoRev f) : Symm (edgeW g) := by
  intro a b
  unfold edgeW
  rw [lookup_eq_of_repr h, lookup_eq_of_repr h]
  by_cases hab : a = b
  · subst hab; cases f (a, a) <;> rfl
  · cases h1 : f (a, b) with
    | some w =>
      have := hr a b hab (by rw [h1]; simp)
      simp [this]
    | none =>
      cases h2 : f (b, a) <;> simp

end Qec.Matching
