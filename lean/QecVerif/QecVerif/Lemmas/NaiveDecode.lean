/-
  Helper lemmas for C14: the naive decoder's search, the triangle inequality for the Pauli weight,
  zero tests, the distance hypothesis and its enumeration check.
-/
import QecVerif.Model.NaiveDecode
import QecVerif.Props.C09
namespace Qec.NaiveDecode
open Qec

/-! ### the lazy search is the reference search -/

theorem naiveDecode_eq_ref (S : List BVec) (n maxW : Nat) (s : BVec) :
    naiveDecode S n maxW s = naiveDecodeRef S n maxW s := by
  unfold naiveDecode naiveDecodeRef ibsf ipauli
  by_cases h : maxW ≤ n
  · simp [h, List.map_flatMap, List.find?_flatMap]
  · simp [h]

/-! ### `find?` on a sorted list returns a least element -/

theorem find?_pairwise {α} (R : α → α → Prop) (p : α → Bool) (l : List α) (hl : l.Pairwise R)
    (a b : α) (ha : l.find? p = some a) (hb : b ∈ l) (hpb : p b = true) : a = b ∨ R a b := by
  induction l with
  | nil => simp at hb
  | cons x xs ih =>
    rw [List.pairwise_cons] at hl
    rw [List.find?_cons] at ha
    by_cases hx : p x = true
    · simp only [hx, Option.some.injEq] at ha
      subst ha
      rcases List.mem_cons.mp hb with h | h
      · exact Or.inl h.symm
      · exact Or.inr (hl.1 b h)
    · have hx' : p x = false := by simpa using hx
      simp only [hx'] at ha
      rcases List.mem_cons.mp hb with h | h
      · subst h; exact absurd hpb hx
      · exact ih hl.2 ha h

/-! ### lengths and weights -/

theorem ofBsf_length (v : BVec) (n : Nat) (h : v.length = 2 * n) : (ofBsf v).length = n := by
  unfold ofBsf
  rw [List.length_zipWith, xHalf_length, zHalf_length, h]
  omega

theorem pauliWt_ofBsf (v : BVec) (h : v.length % 2 = 0) : pauliWt (ofBsf v) = bsfWt v := by
  rw [← C09.bsfWt_toBsf, C09.toBsf_ofBsf v h]

theorem bsfWt_le (v : BVec) (n : Nat) (h : v.length = 2 * n) : bsfWt v ≤ n := by
  unfold bsfWt
  refine Nat.le_trans (List.countP_le_length) ?_
  rw [List.length_zipWith, xHalf_length, h]
  omega

theorem countP_or_xor_le (xa za xb zb : List Bool) :
    (List.zipWith or (List.zipWith xor xa xb) (List.zipWith xor za zb)).countP id
      ≤ (List.zipWith or xa za).countP id + (List.zipWith or xb zb).countP id := by
  induction xa generalizing za xb zb with
  | nil => simp
  | cons a xa ih =>
    cases za with
    | nil => cases xb <;> simp
    | cons b za =>
      cases xb with
      | nil => simp
      | cons c xb =>
        cases zb with
        | nil => simp
        | cons d zb =>
          have := ih za xb zb
          simp only [List.zipWith_cons_cons, List.countP_cons]
          cases a <;> cases b <;> cases c <;> cases d <;> simp <;> omega

/-- **triangle inequality** for the Pauli weight of binary symplectic vectors -/
theorem wt_xor_le (a b : BVec) (h : a.length = b.length) :
    bsfWt (xorV a b) ≤ bsfWt a + bsfWt b := by
  unfold bsfWt
  rw [xHalf_xorV a b h, zHalf_xorV a b h]
  exact countP_or_xor_le _ _ _ _

/-! ### zero tests -/

theorem isZero_xorV_self (a : BVec) : isZero (xorV a a) = true := by
  induction a with
  | nil => rfl
  | cons x xs ih =>
    simp only [xorV, List.zipWith_cons_cons, isZero, List.all_cons] at ih ⊢
    simp

theorem isZero_xorV (a b : BVec) (ha : isZero a = true) (hb : isZero b = true) :
    isZero (xorV a b) = true := by
  induction a generalizing b with
  | nil => simp [xorV, isZero]
  | cons x xs ih =>
    cases b with
    | nil => simp [xorV, isZero]
    | cons y ys =>
      simp only [isZero, List.all_cons, Bool.and_eq_true, Bool.not_eq_true'] at ha hb
      have := ih ys (by simpa [isZero] using ha.2) (by simpa [isZero] using hb.2)
      simp only [xorV, List.zipWith_cons_cons, isZero, List.all_cons, Bool.and_eq_true] at this ⊢
      exact ⟨by simp [ha.1, hb.1], this⟩

theorem synd_length (M : List BVec) (v : BVec) : (synd M v).length = M.length := by simp [synd]

/-! ### the naive decoder's specification -/

/-- every even-length vector of weight ≤ maxW is in the iterator's list -/
theorem mem_ibsf_list (n maxW : Nat) (l : List PStr)
    (hmem : ∀ p : PStr, p ∈ l ↔ (p.length = n ∧ 0 ≤ pauliWt p ∧ pauliWt p ≤ maxW))
    (v : BVec) (hv : v.length = 2 * n) (hw : bsfWt v ≤ maxW) : v ∈ l.map toBsf := by
  have he : v.length % 2 = 0 := by omega
  refine List.mem_map.mpr ⟨ofBsf v, (hmem _).mpr ⟨ofBsf_length v n hv, Nat.zero_le _, ?_⟩, C09.toBsf_ofBsf v he⟩
  rw [pauliWt_ofBsf v he]; exact hw

theorem naiveDecode_spec (S : List BVec) (n maxW : Nat) (s : BVec) (h : maxW ≤ n) :
    (∀ r, naiveDecode S n maxW s = some r →
        r.length = 2 * n ∧ synd S r = s ∧ bsfWt r ≤ maxW ∧
        ∀ v : BVec, v.length = 2 * n → synd S v = s → bsfWt v ≤ maxW → bsfWt r ≤ bsfWt v) ∧
    (naiveDecode S n maxW s = none ↔
        ∀ v : BVec, v.length = 2 * n → bsfWt v ≤ maxW → synd S v ≠ s) := by
  obtain ⟨l, hl, hmem, _, hsorted⟩ := C09.ipauli_complete_nodup_sorted n 0 maxW ⟨Nat.zero_le _, h⟩
  have href : naiveDecode S n maxW s = (l.map toBsf).find? fun e => synd S e == s := by
    rw [naiveDecode_eq_ref]; unfold naiveDecodeRef ibsf; rw [hl]; rfl
  have hsorted' : (l.map toBsf).Pairwise (fun a b => bsfWt a ≤ bsfWt b) := by
    rw [List.pairwise_map]
    exact hsorted.imp (fun {a b} hab => by rw [C09.bsfWt_toBsf, C09.bsfWt_toBsf]; exact hab)
  rw [href]
  constructor
  · intro r hr
    have hin := List.mem_of_find?_eq_some hr
    have hp := List.find?_some hr
    obtain ⟨p, hpl, rfl⟩ := List.mem_map.mp hin
    have hpp := (hmem p).mp hpl
    refine ⟨by rw [C09.toBsf_length, hpp.1], by simpa using hp, by rw [C09.bsfWt_toBsf]; exact hpp.2.2, ?_⟩
    intro v hv hsv hw
    have hvin := mem_ibsf_list n maxW l hmem v hv hw
    rcases find?_pairwise _ _ _ hsorted' _ v hr hvin (by simpa using hsv) with h1 | h1
    · rw [h1]
    · exact h1
  · rw [List.find?_eq_none]
    constructor
    · intro hnone v hv hw hsv
      exact hnone v (mem_ibsf_list n maxW l hmem v hv hw) (by simpa using hsv)
    · intro hall x hx
      obtain ⟨p, hpl, rfl⟩ := List.mem_map.mp hx
      have hpp := (hmem p).mp hpl
      have := hall (toBsf p) (by rw [C09.toBsf_length, hpp.1]) (by rw [C09.bsfWt_toBsf]; exact hpp.2.2)
      simpa using this

/-! ### the distance hypothesis -/

/-- "every operator of weight `< d` that commutes with all of `S` commutes with all of `L`":
    the lower-bound half of "the code has distance `d`" (C08) in the form C14 uses -/
def DistHyp (S L : List BVec) (n d : Nat) : Prop :=
  ∀ v : BVec, v.length = 2 * n → isZero (synd S v) = true → bsfWt v < d → isZero (synd L v) = true

/-- the enumeration check is sound for the distance hypothesis -/
theorem distCheck_sound (S L : List BVec) (n d : Nat) (h : distCheck S L n d = true) :
    DistHyp S L n d := by
  intro v hv hS hw
  unfold distCheck ibsf at h
  have hle : d - 1 ≤ n := by
    by_contra hc
    have : ipauli n 0 (d - 1) = none := (C09.ipauli_none_iff n 0 (d - 1)).mpr (by omega)
    rw [this] at h; simp at h
  obtain ⟨l, hl, hmem, _, _⟩ := C09.ipauli_complete_nodup_sorted n 0 (d - 1) ⟨Nat.zero_le _, hle⟩
  rw [hl] at h
  simp only [Option.map_some, List.all_eq_true] at h
  have := h v (mem_ibsf_list n (d - 1) l hmem v hv (by omega))
  simpa [hS] using this

/-- the syndrome of `r ⊕ e` vanishes when `r` and `e` have the same syndrome -/
theorem synd_xor_zero (S : List BVec) (n : Nat) (hS : ∀ row ∈ S, row.length = 2 * n) (r e : BVec)
    (hr : r.length = 2 * n) (he : e.length = 2 * n) (hs : synd S r = synd S e) :
    isZero (synd S (xorV r e)) = true := by
  rw [C09.synd_add S r e (by rw [hr, he]) (by omega) (fun row h => by rw [hS row h, hr]), hs]
  exact isZero_xorV_self _

/-- the generic correction argument: same syndrome and `wt r + wt e < d` ⇒ corrected -/
theorem corrected_of_small (S L : List BVec) (n d : Nat) (hS : ∀ row ∈ S, row.length = 2 * n)
    (hd : DistHyp S L n d) (r e : BVec) (hr : r.length = 2 * n) (he : e.length = 2 * n)
    (hs : synd S r = synd S e) (hw : bsfWt r + bsfWt e < d) : corrected S L e r = true := by
  have h1 := synd_xor_zero S n hS r e hr he hs
  have hx : (xorV r e).length = 2 * n := by rw [xorV_length r e (by rw [hr, he]), hr]
  have h2 := hd (xorV r e) hx h1 (Nat.lt_of_le_of_lt (wt_xor_le r e (by rw [hr, he])) hw)
  simp [corrected, h1, h2]

end Qec.NaiveDecode
