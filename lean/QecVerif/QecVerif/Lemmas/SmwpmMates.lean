/-
  Helper lemmas for Props/C02/Smwpm.lean — `buildMates` (the loop of `_clusters` that fills `row_mates` and
  `col_mates`) on a matching whose pairs are twins or same-orientation pairs, whose endpoints are distinct and closed
  under taking the twin: the two dictionaries are fixed-point-free involutions with the same key set (`Good`).
-/
import QecVerif.Lemmas.Smwpm
namespace Qec.SmwpmL
open Qec Qec.Smwpm Qec.Dec

theorem dget_none_not_key (d : Dict) (k : TIdx) (h : dget d k = none) : k ∉ d.map Prod.fst := by
  induction d with
  | nil => simp
  | cons e d ih =>
    rw [dget_cons] at h
    by_cases he : e.1 = k
    · rw [if_pos he] at h; cases h
    · rw [if_neg he] at h
      simp only [List.map_cons, List.mem_cons, not_or]
      exact ⟨fun hh => he hh.symm, ih h⟩

theorem dget_append_single (d : Dict) (k v k' : TIdx) (h : dget d k = none) :
    dget (d ++ [(k, v)]) k' = if k' = k then some v else dget d k' := by
  induction d with
  | nil =>
    simp only [List.nil_append, dget_cons]
    by_cases h1 : k = k'
    · simp [h1]
    · have : ¬ k' = k := fun hh => h1 hh.symm
      simp [h1, this, dget]
  | cons e d ih =>
    rw [dget_cons] at h
    by_cases he : e.1 = k
    · rw [if_pos he] at h; cases h
    · rw [if_neg he] at h
      rw [List.cons_append, dget_cons, dget_cons, ih h]
      by_cases h2 : e.1 = k'
      · have : ¬ k' = k := by rw [← h2]; exact he
        simp [h2, this]
      · simp [h2]

theorem dget_map_replace (d : Dict) (k v k' : TIdx) :
    dget (d.map fun e => if e.1 = k then (k, v) else e) k' =
      if k' = k then (if (dget d k).isSome then some v else none) else dget d k' := by
  induction d with
  | nil => by_cases h : k' = k <;> simp [dget, h]
  | cons e d ih =>
    rw [List.map_cons, dget_cons, ih]
    have hc : ∀ x, dget (e :: d) x = if e.1 = x then some e.2 else dget d x := fun x => dget_cons e d x
    by_cases he : e.1 = k
    · rw [if_pos he]
      by_cases hk : k' = k
      · simp [hk, he, hc]
      · have h1 : ¬ k = k' := fun hh => hk hh.symm
        have h2 : ¬ e.1 = k' := by rw [he]; exact h1
        simp [hk, h1, h2, hc]
    · rw [if_neg he]
      by_cases hk : k' = k
      · have : ¬ e.1 = k' := by rw [hk]; exact he
        simp [hk, he, hc]
      · simp [hk, hc]

/-- `d[k] = v` -/
theorem dget_dset (d : Dict) (k v k' : TIdx) : dget (dset d k v) k' = if k' = k then some v else dget d k' := by
  unfold dset
  by_cases h : (dget d k).isSome = true
  · rw [if_pos h, dget_map_replace, h]; simp
  · rw [if_neg h]
    have : dget d k = none := by
      cases hh : dget d k with
      | none => rfl
      | some _ => rw [hh] at h; simp at h
    exact dget_append_single d k v k' this

theorem wf_dset (d : Dict) (k v : TIdx) (h : WF d) : WF (dset d k v) := by
  unfold dset
  by_cases hs : (dget d k).isSome = true
  · rw [if_pos hs]
    unfold WF
    have : (d.map fun e => if e.1 = k then (k, v) else e).map Prod.fst = d.map Prod.fst := by
      rw [List.map_map]
      apply List.map_congr_left
      intro e _
      by_cases he : e.1 = k <;> simp [he]
    rw [this]; exact h
  · rw [if_neg hs]
    have hn : dget d k = none := by
      cases hh : dget d k with
      | none => rfl
      | some _ => rw [hh] at hs; simp at hs
    unfold WF
    rw [List.map_append, List.nodup_append]
    refine ⟨h, by simp, ?_⟩
    intro a ha b hb
    simp only [List.map_cons, List.map_nil, List.mem_singleton] at hb
    rw [hb]
    intro hab
    exact dget_none_not_key d k hn (hab ▸ ha)

/-! ### the matching -/

/-- pairs of the matching that are not twins, as index pairs of orientation `o`, in either order -/
def P (ms : List (Node × Node)) (o : Bool) (k v : TIdx) : Prop :=
  k ≠ v ∧ (((k, o), (v, o)) ∈ ms ∨ ((v, o), (k, o)) ∈ ms)

theorem ends_cons {α : Type} (m : α × α) (ms : List (α × α)) : ends (m :: ms) = m.1 :: m.2 :: ends ms := by
  simp [ends]

theorem mem_ends {α : Type} (ms : List (α × α)) (v : α) : v ∈ ends ms ↔ ∃ m ∈ ms, v = m.1 ∨ v = m.2 := by
  simp only [ends, List.mem_flatMap, List.mem_cons, List.not_mem_nil, or_false]

/-- `buildMates`, general accumulators -/
theorem build_spec (ms : List (Node × Node)) : ∀ (row col : Dict),
    (∀ m ∈ ms, m.1.2 = m.2.2 ∨ m.1.1 = m.2.1) → (ends ms).Nodup →
    (∀ k, (dget row k).isSome → (k, true) ∉ ends ms) → (∀ k, (dget col k).isSome → (k, false) ∉ ends ms) →
    WF row → WF col →
    ∃ row' col', buildMates ms row col = .ok (row', col') ∧ WF row' ∧ WF col' ∧
      (∀ k v, dget row' k = some v ↔ (dget row k = some v ∨ P ms true k v)) ∧
      (∀ k v, dget col' k = some v ↔ (dget col k = some v ∨ P ms false k v)) := by
  induction ms with
  | nil =>
    intro row col _ _ _ _ hr hc
    exact ⟨row, col, rfl, hr, hc, fun k v => by simp [P], fun k v => by simp [P]⟩
  | cons m ms ih =>
    intro row col hG hN hfr hfc hwr hwc
    obtain ⟨a, b⟩ := m
    rw [ends_cons, List.nodup_cons, List.nodup_cons] at hN
    obtain ⟨hna, hnb, hN'⟩ := hN
    simp only [List.mem_cons, not_or] at hna
    have hG' : ∀ m ∈ ms, m.1.2 = m.2.2 ∨ m.1.1 = m.2.1 := fun m hm => hG m (List.mem_cons_of_mem _ hm)
    have hfr' : ∀ k, (dget row k).isSome → (k, true) ∉ ends ms := fun k hk hm => by
      apply hfr k hk; rw [ends_cons]; exact List.mem_cons_of_mem _ (List.mem_cons_of_mem _ hm)
    have hfc' : ∀ k, (dget col k).isSome → (k, false) ∉ ends ms := fun k hk hm => by
      apply hfc k hk; rw [ends_cons]; exact List.mem_cons_of_mem _ (List.mem_cons_of_mem _ hm)
    have hPcons : ∀ o k v, P ((a, b) :: ms) o k v ↔
        (k ≠ v ∧ ((a = (k, o) ∧ b = (v, o)) ∨ (a = (v, o) ∧ b = (k, o)))) ∨ P ms o k v := by
      intro o k v
      unfold P
      simp only [List.mem_cons, Prod.mk.injEq]
      constructor
      · rintro ⟨h0, (⟨h1, h2⟩ | h) | (⟨h1, h2⟩ | h)⟩
        · exact Or.inl ⟨h0, Or.inl ⟨h1.symm, h2.symm⟩⟩
        · exact Or.inr ⟨h0, Or.inl h⟩
        · exact Or.inl ⟨h0, Or.inr ⟨h1.symm, h2.symm⟩⟩
        · exact Or.inr ⟨h0, Or.inr h⟩
      · rintro (⟨h0, ⟨h1, h2⟩ | ⟨h1, h2⟩⟩ | ⟨h0, h | h⟩)
        · exact ⟨h0, Or.inl (Or.inl ⟨h1.symm, h2.symm⟩)⟩
        · exact ⟨h0, Or.inr (Or.inl ⟨h1.symm, h2.symm⟩)⟩
        · exact ⟨h0, Or.inl (Or.inr h)⟩
        · exact ⟨h0, Or.inr (Or.inr h)⟩
    unfold buildMates
    by_cases hab : a.1 = b.1
    · -- a twin pair: skipped
      rw [if_pos hab]
      obtain ⟨row', col', h1, h2, h3, h4, h5⟩ := ih row col hG' hN' hfr' hfc' hwr hwc
      refine ⟨row', col', h1, h2, h3, ?_, ?_⟩
      · intro k v
        rw [h4, hPcons]
        constructor
        · rintro (h | h)
          · exact Or.inl h
          · exact Or.inr (Or.inr h)
        · rintro (h | ⟨h0, ⟨h6, h7⟩ | ⟨h6, h7⟩⟩ | h)
          · exact Or.inl h
          · rw [h6, h7] at hab; exact absurd hab h0
          · rw [h6, h7] at hab; exact absurd hab.symm h0
          · exact Or.inr h
      · intro k v
        rw [h5, hPcons]
        constructor
        · rintro (h | h)
          · exact Or.inl h
          · exact Or.inr (Or.inr h)
        · rintro (h | ⟨h0, ⟨h6, h7⟩ | ⟨h6, h7⟩⟩ | h)
          · exact Or.inl h
          · rw [h6, h7] at hab; exact absurd hab h0
          · rw [h6, h7] at hab; exact absurd hab.symm h0
          · exact Or.inr h
    · rw [if_neg hab]
      have hor : a.2 = b.2 := by
        rcases hG (a, b) (by simp) with h | h
        · exact h
        · exact absurd h hab
      rw [if_neg (by simpa using hor)]
      have ha_eq : a = (a.1, a.2) := rfl
      have hb_eq : b = (b.1, a.2) := by rw [hor]
      have hba : b.1 ≠ a.1 := fun h => hab h.symm
      -- generic step for the dictionary of orientation `a.2`
      have step : ∀ (d : Dict) (o : Bool), a.2 = o → (∀ k, (dget d k).isSome → (k, o) ∉ ends ((a, b) :: ms)) →
          (∀ k, (dget (dset (dset d a.1 b.1) b.1 a.1) k).isSome → (k, o) ∉ ends ms) ∧
          (∀ k v, (dget (dset (dset d a.1 b.1) b.1 a.1) k = some v ∨ P ms o k v) ↔
            (dget d k = some v ∨ P ((a, b) :: ms) o k v)) := by
        intro d o ho hf
        have hdg : ∀ k, dget (dset (dset d a.1 b.1) b.1 a.1) k =
            if k = b.1 then some a.1 else if k = a.1 then some b.1 else dget d k := by
          intro k; rw [dget_dset, dget_dset]
        have hfa : dget d a.1 = none := by
          cases hh : dget d a.1 with
          | none => rfl
          | some _ =>
            exfalso; apply hf a.1 (by rw [hh]; rfl)
            rw [ends_cons, ← ho]; exact List.mem_cons_self
        have hfb : dget d b.1 = none := by
          cases hh : dget d b.1 with
          | none => rfl
          | some _ =>
            exfalso; apply hf b.1 (by rw [hh]; rfl)
            rw [ends_cons, ← ho, ← hb_eq]; exact List.mem_cons_of_mem _ List.mem_cons_self
        constructor
        · intro k hk hm
          rw [hdg] at hk
          by_cases h1 : k = b.1
          · apply hnb; rw [hb_eq, ho, ← h1]; exact hm
          · rw [if_neg h1] at hk
            by_cases h2 : k = a.1
            · apply hna.2; rw [ha_eq, ho, ← h2]; exact hm
            · rw [if_neg h2] at hk
              apply hf k hk
              rw [ends_cons]; exact List.mem_cons_of_mem _ (List.mem_cons_of_mem _ hm)
        · intro k v
          rw [hPcons, hdg]
          constructor
          · rintro (h | h)
            · by_cases h1 : k = b.1
              · rw [if_pos h1] at h
                have hv : a.1 = v := Option.some.inj h
                right; left
                refine ⟨by rw [h1, ← hv]; exact hba, Or.inr ⟨?_, ?_⟩⟩
                · rw [← hv, ← ho]
                · rw [h1, ← ho, ← hb_eq]
              · rw [if_neg h1] at h
                by_cases h2 : k = a.1
                · rw [if_pos h2] at h
                  have hv : b.1 = v := Option.some.inj h
                  right; left
                  refine ⟨by rw [h2, ← hv]; exact hab, Or.inl ⟨?_, ?_⟩⟩
                  · rw [h2, ← ho]
                  · rw [← hv, ← ho, ← hb_eq]
                · rw [if_neg h2] at h; exact Or.inl h
            · exact Or.inr (Or.inr h)
          · rintro (h | ⟨h0, ⟨h6, h7⟩ | ⟨h6, h7⟩⟩ | h)
            · left
              have h1 : k ≠ b.1 := by intro hh; rw [hh, hfb] at h; cases h
              have h2 : k ≠ a.1 := by intro hh; rw [hh, hfa] at h; cases h
              rw [if_neg h1, if_neg h2]; exact h
            · left
              have hk : k = a.1 := by rw [h6]
              have hv : v = b.1 := by rw [h7]
              rw [if_neg (by rw [hk]; exact hab), if_pos hk, hv]
            · left
              have hk : k = b.1 := by rw [h7]
              have hv : v = a.1 := by rw [h6]
              rw [if_pos hk, hv]
            · exact Or.inr h
      -- the other dictionary is untouched, and its `P` ignores the new pair
      have other : ∀ (o : Bool), a.2 ≠ o → ∀ k v, P ((a, b) :: ms) o k v ↔ P ms o k v := by
        intro o ho k v
        rw [hPcons]
        constructor
        · rintro (⟨_, ⟨h6, _⟩ | ⟨h6, _⟩⟩ | h)
          · rw [h6] at ho; exact absurd rfl ho
          · rw [h6] at ho; exact absurd rfl ho
          · exact h
        · exact Or.inr
      by_cases hat : a.2 = true
      · rw [if_pos hat]
        obtain ⟨s1, s2⟩ := step row true hat hfr
        obtain ⟨row', col', h1, h2, h3, h4, h5⟩ :=
          ih _ col hG' hN' s1 hfc' (wf_dset _ _ _ (wf_dset _ _ _ hwr)) hwc
        refine ⟨row', col', h1, h2, h3, ?_, ?_⟩
        · intro k v; rw [h4]; exact s2 k v
        · intro k v; rw [h5, other false (by rw [hat]; simp) k v]
      · rw [if_neg hat]
        have haf : a.2 = false := by simpa using hat
        obtain ⟨s1, s2⟩ := step col false haf hfc
        obtain ⟨row', col', h1, h2, h3, h4, h5⟩ :=
          ih row _ hG' hN' hfr' s1 hwr (wf_dset _ _ _ (wf_dset _ _ _ hwc))
        refine ⟨row', col', h1, h2, h3, ?_, ?_⟩
        · intro k v; rw [h4, other true (by rw [haf]; simp) k v]
        · intro k v; rw [h5]; exact s2 k v

theorem nodup_ends_ne {α : Type} (ms : List (α × α)) (h : (ends ms).Nodup) (m : α × α) (hm : m ∈ ms) :
    m.1 ≠ m.2 := by
  induction ms with
  | nil => simp at hm
  | cons m' ms ih =>
    rw [ends_cons, List.nodup_cons, List.nodup_cons] at h
    rcases List.mem_cons.mp hm with rfl | h'
    · intro hh; apply h.1; rw [hh]; exact List.mem_cons_self
    · exact ih h.2.2 h'

theorem nodup_ends_unique {α : Type} (ms : List (α × α)) (h : (ends ms).Nodup) (m0 m1 : α × α)
    (h0 : m0 ∈ ms) (h1 : m1 ∈ ms) (v : α) (hv0 : v = m0.1 ∨ v = m0.2) (hv1 : v = m1.1 ∨ v = m1.2) : m0 = m1 := by
  induction ms with
  | nil => simp at h0
  | cons m ms ih =>
    rw [ends_cons, List.nodup_cons, List.nodup_cons] at h
    obtain ⟨ha, hb, hN⟩ := h
    simp only [List.mem_cons, not_or] at ha
    have hin : ∀ m' ∈ ms, ∀ w, (w = m'.1 ∨ w = m'.2) → w ∈ ends ms := fun m' hm' w hw =>
      (mem_ends ms w).mpr ⟨m', hm', hw⟩
    rcases List.mem_cons.mp h0 with e0 | h0'
    · rcases List.mem_cons.mp h1 with e1 | h1'
      · rw [e0, e1]
      · exfalso
        have := hin m1 h1' v hv1
        rw [e0] at hv0
        rcases hv0 with hv | hv
        · rw [hv] at this; exact ha.2 this
        · rw [hv] at this; exact hb this
    · rcases List.mem_cons.mp h1 with e1 | h1'
      · exfalso
        have := hin m0 h0' v hv0
        rw [e1] at hv1
        rcases hv1 with hv | hv
        · rw [hv] at this; exact ha.2 this
        · rw [hv] at this; exact hb this
      · exact ih hN h0' h1'

theorem bool_ne_not (x o : Bool) (h : x ≠ o) : x = !o := by cases x <;> cases o <;> simp_all

/-- a node in a non-twin pair has its twin in a non-twin pair -/
theorem twin_keys (ms : List (Node × Node)) (hG : ∀ m ∈ ms, m.1.2 = m.2.2 ∨ m.1.1 = m.2.1)
    (hN : (ends ms).Nodup) (hT : ∀ k o, (k, o) ∈ ends ms → (k, !o) ∈ ends ms) (o : Bool) (k v : TIdx)
    (h : P ms o k v) : ∃ v', P ms (!o) k v' := by
  obtain ⟨hkv, hm0⟩ := h
  -- the pair `m0` that holds `(k, o)`
  obtain ⟨m0, hm0m, hm0k, hm0o⟩ : ∃ m0 ∈ ms, ((k, o) = m0.1 ∨ (k, o) = m0.2) ∧ m0.1.2 = o ∧ m0.2.2 = o := by
    rcases hm0 with h | h
    · exact ⟨_, h, Or.inl rfl, rfl, rfl⟩
    · exact ⟨_, h, Or.inr rfl, rfl, rfl⟩
  have hk_in : (k, o) ∈ ends ms := (mem_ends ms _).mpr ⟨m0, hm0m, hm0k⟩
  obtain ⟨m1, hm1m, hm1k⟩ := (mem_ends ms _).mp (hT k o hk_in)
  have hne := nodup_ends_ne ms hN m1 hm1m
  have hno : (!o) ≠ o := by cases o <;> simp
  -- `m1` is not `m0`
  have hm01 : m0 ≠ m1 := by
    intro hh
    rw [← hh] at hm1k
    rcases hm1k with h | h
    · have := congrArg Prod.snd h; simp only at this; rw [hm0o.1] at this; exact hno this
    · have := congrArg Prod.snd h; simp only at this; rw [hm0o.2] at this; exact hno this
  obtain ⟨a, b⟩ := m1
  rcases hm1k with h | h
  · -- m1 = ((k, !o), b)
    simp only at h
    by_cases hb1 : b.1 = k
    · exfalso
      by_cases hb2 : b.2 = o
      · have : b = (k, o) := Prod.ext hb1 hb2
        exact hm01 (nodup_ends_unique ms hN m0 (a, b) hm0m hm1m (k, o) hm0k (Or.inr this.symm))
      · have : b.2 = !o := bool_ne_not _ _ hb2
        have : b = (k, !o) := Prod.ext hb1 this
        apply hne; simp only; rw [← h, this]
    · refine ⟨b.1, fun hh => hb1 hh.symm, Or.inl ?_⟩
      have hor : a.2 = b.2 := by
        rcases hG (a, b) hm1m with h' | h'
        · exact h'
        · simp only at h'; rw [← h] at h'; exact absurd h'.symm hb1
      have : b = (b.1, !o) := by
        have e : b.2 = !o := by rw [← hor, ← h]
        rw [← e]
      rw [← this, h]; exact hm1m
  · -- m1 = (a, (k, !o))
    simp only at h
    by_cases ha1 : a.1 = k
    · exfalso
      by_cases ha2 : a.2 = o
      · have : a = (k, o) := Prod.ext ha1 ha2
        exact hm01 (nodup_ends_unique ms hN m0 (a, b) hm0m hm1m (k, o) hm0k (Or.inl this.symm))
      · have : a.2 = !o := bool_ne_not _ _ ha2
        have : a = (k, !o) := Prod.ext ha1 this
        apply hne; simp only; rw [← h, this]
    · refine ⟨a.1, fun hh => ha1 hh.symm, Or.inr ?_⟩
      have hor : a.2 = b.2 := by
        rcases hG (a, b) hm1m with h' | h'
        · exact h'
        · simp only at h'; rw [← h] at h'; exact absurd h' ha1
      have : a = (a.1, !o) := by
        have e : a.2 = !o := by rw [hor, ← h]
        rw [← e]
      rw [← this, h]; exact hm1m

/-- **`buildMates` on a matching of the symmetry graph**: never raises, and the two dictionaries satisfy the
    invariant of the clustering loop -/
theorem mates_good (ms : List (Node × Node)) (hG : ∀ m ∈ ms, m.1.2 = m.2.2 ∨ m.1.1 = m.2.1)
    (hN : (ends ms).Nodup) (hT : ∀ k o, (k, o) ∈ ends ms → (k, !o) ∈ ends ms) :
    ∃ row col, buildMates ms [] [] = .ok (row, col) ∧ Good col row ∧
      (∀ k v, dget col k = some v ↔ P ms false k v) ∧ (∀ k v, dget row k = some v ↔ P ms true k v) := by
  obtain ⟨row, col, h1, h2, h3, h4, h5⟩ := build_spec ms [] [] hG hN (by intro k hk; simp [dget] at hk)
    (by intro k hk; simp [dget] at hk) (by simp [WF]) (by simp [WF])
  have hr : ∀ k v, dget row k = some v ↔ P ms true k v := fun k v => by rw [h4]; simp [dget]
  have hc : ∀ k v, dget col k = some v ↔ P ms false k v := fun k v => by rw [h5]; simp [dget]
  have hsym : ∀ o k v, P ms o k v → P ms o v k := fun o k v h => ⟨fun hh => h.1 hh.symm, h.2.symm⟩
  refine ⟨row, col, h1, ⟨h3, ?_, ?_, ?_⟩, hc, hr⟩
  · intro a b hab
    rw [hc] at hab
    exact ⟨(hc b a).mpr (hsym _ _ _ hab), hab.1⟩
  · intro a b hab
    rw [hr] at hab
    exact ⟨(hr b a).mpr (hsym _ _ _ hab), hab.1⟩
  · intro k
    rw [isSome_iff, isSome_iff]
    constructor
    · rintro ⟨v, hv⟩
      obtain ⟨v', hv'⟩ := twin_keys ms hG hN hT true k v ((hr k v).mp hv)
      exact ⟨v', (hc k v').mpr hv'⟩
    · rintro ⟨v, hv⟩
      obtain ⟨v', hv'⟩ := twin_keys ms hG hN hT false k v ((hc k v).mp hv)
      exact ⟨v', (hr k v').mpr hv'⟩

end Qec.SmwpmL
