/-
  Helper lemmas for Props/C02/Smwpm.lean — what a perfect matching of the modelled symmetry graph (`graphNodes`,
  `graphEdges` of Model/Smwpm.lean) looks like: every pair is a twin pair of a VIRTUAL plaquette or a pair of nodes of
  the same orientation; endpoints are distinct, closed under taking the twin, lie in the `_plaquette_indices` grid
  at a time step `< T`, and are virtual plaquettes or syndrome defects; every syndrome defect is an endpoint.
-/
import QecVerif.Lemmas.SmwpmMates
import QecVerif.Lemmas.Decoders
namespace Qec.SmwpmL
open Qec Qec.Smwpm Qec.Dec

/-- the grid of `_plaquette_indices` -/
def InGrid (R C : Int) (xy : Idx2) : Prop := -1 ≤ xy.1 ∧ xy.1 ≤ C - 1 ∧ -1 ≤ xy.2 ∧ xy.2 ≤ R - 1

theorem nodup_of_count_le {α : Type} [DecidableEq α] (l : List α) (h : ∀ v, l.count v ≤ 1) : l.Nodup :=
  List.nodup_iff_count.mpr h

theorem mem_of_count_eq_one {α : Type} [DecidableEq α] (l : List α) (v : α) (h : l.count v = 1) : v ∈ l :=
  List.count_pos_iff.mp (by omega)

theorem mem_lines (R C : Int) (hR : 0 ≤ R) (hC : 0 ≤ C) (byRow : Bool) (xy : Idx2) :
    (∃ line ∈ planarLines R C byRow, xy ∈ line) ↔ InGrid R C xy := by
  unfold planarLines InGrid
  cases byRow
  · simp only [Bool.false_eq_true, if_false]
    constructor
    · rintro ⟨line, hl, hxy⟩
      rw [List.mem_map] at hl
      obtain ⟨i, hi, rfl⟩ := hl
      rw [List.mem_map] at hxy
      obtain ⟨j, hj, rfl⟩ := hxy
      rw [List.mem_range] at hi hj
      simp only; omega
    · intro h
      refine ⟨_, List.mem_map.mpr ⟨(xy.1 + 1).toNat, List.mem_range.mpr (by omega), rfl⟩,
        List.mem_map.mpr ⟨(R - 1 - xy.2).toNat, List.mem_range.mpr (by omega), ?_⟩⟩
      apply Prod.ext <;> simp only <;> omega
  · simp only [if_true]
    constructor
    · rintro ⟨line, hl, hxy⟩
      rw [List.mem_map] at hl
      obtain ⟨j, hj, rfl⟩ := hl
      rw [List.mem_map] at hxy
      obtain ⟨i, hi, rfl⟩ := hxy
      rw [List.mem_range] at hi hj
      simp only; omega
    · intro h
      refine ⟨_, List.mem_map.mpr ⟨(R - 1 - xy.2).toNat, List.mem_range.mpr (by omega), rfl⟩,
        List.mem_map.mpr ⟨(xy.1 + 1).toNat, List.mem_range.mpr (by omega), ?_⟩⟩
      apply Prod.ext <;> simp only <;> omega

/-- what a node of the graph is -/
def IsNode (R C : Int) (rows : List BVec) (k : TIdx) : Prop :=
  InGrid R C (sp k) ∧ ∃ t : Nat, k.1 = (t : Int) ∧ t < rows.length ∧
    (RotatedPlanar.isVirtualPlaquette R C k.2.1 k.2.2 = true ∨ isDefect R C rows t (sp k) = true)

theorem mem_passNodes (R C : Int) (hR : 0 ≤ R) (hC : 0 ≤ C) (rows : List BVec) (byRow : Bool) (n : Node) :
    n ∈ passNodes R C rows byRow ↔ n.2 = byRow ∧ IsNode R C rows n.1 := by
  unfold passNodes lineNodes
  simp only [List.mem_flatMap, List.mem_filterMap, List.mem_range]
  constructor
  · rintro ⟨line, hl, xy, hxy, t, ht, hn⟩
    by_cases hc : (RotatedPlanar.isVirtualPlaquette R C xy.1 xy.2 || isDefect R C rows t xy) = true
    · rw [if_pos hc] at hn
      have := Option.some.inj hn
      rw [← this]
      refine ⟨rfl, (mem_lines R C hR hC byRow xy).mp ⟨line, hl, hxy⟩, t, rfl, ht, ?_⟩
      rw [Bool.or_eq_true] at hc
      exact hc
    · rw [if_neg hc] at hn; cases hn
  · rintro ⟨ho, hg, t, ht, htl, hc⟩
    obtain ⟨line, hl, hxy⟩ := (mem_lines R C hR hC byRow (sp n.1)).mpr hg
    refine ⟨line, hl, sp n.1, hxy, t, htl, ?_⟩
    have hc' : (RotatedPlanar.isVirtualPlaquette R C (sp n.1).1 (sp n.1).2 || isDefect R C rows t (sp n.1)) = true := by
      rw [Bool.or_eq_true]; exact hc
    rw [if_pos hc']
    congr 1
    apply Prod.ext
    · apply Prod.ext
      · exact ht.symm
      · rfl
    · exact ho.symm

theorem mem_graphNodes (R C : Int) (hR : 0 ≤ R) (hC : 0 ≤ C) (rows : List BVec) (n : Node) :
    n ∈ graphNodes R C rows ↔ IsNode R C rows n.1 := by
  unfold graphNodes
  rw [List.mem_append, mem_passNodes R C hR hC, mem_passNodes R C hR hC]
  constructor
  · rintro (h | h) <;> exact h.2
  · intro h
    cases ho : n.2
    · exact Or.inr ⟨rfl, h⟩
    · exact Or.inl ⟨rfl, h⟩

/-- the shape of an edge: same orientation, or the twin edge of a virtual plaquette -/
def EdgeShape (R C : Int) (e : Node × Node) : Prop :=
  e.1.2 = e.2.2 ∨ (e.1.1 = e.2.1 ∧ RotatedPlanar.isVirtualPlaquette R C e.1.1.2.1 e.1.1.2.2 = true)

theorem mem_pairsOf_filter {α : Type} (l : List α) (q : α × α → Bool) (e : α × α)
    (h : e ∈ (pairsOf l).filter q) : q e = true := (List.mem_filter.mp h).2

theorem passEdges_shape (fl : Flags) (R C : Int) (rows : List BVec) (byRow : Bool) (e : Node × Node)
    (h : e ∈ passEdges fl R C rows byRow) : EdgeShape R C e := by
  unfold passEdges at h
  rcases List.mem_append.mp h with h | h
  · right
    unfold twinEdges at h
    rw [List.mem_map] at h
    obtain ⟨v, hv, rfl⟩ := h
    exact ⟨rfl, (List.mem_filter.mp hv).2⟩
  · left
    have hq : addEdgeOk fl e.1 e.2 = true := by
      by_cases hf : fl.etaNone = true
      · rw [if_pos hf, List.mem_flatMap] at h
        obtain ⟨line, _, hl⟩ := h
        exact mem_pairsOf_filter _ _ e hl
      · rw [if_neg hf] at h
        exact mem_pairsOf_filter _ _ e h
    unfold addEdgeOk at hq
    simp only [Bool.and_eq_true, beq_iff_eq] at hq
    exact hq.1.1.1

theorem graphEdges_shape (fl : Flags) (R C : Int) (rows : List BVec) (e : Node × Node)
    (h : e ∈ graphEdges fl R C rows) : EdgeShape R C e := by
  unfold graphEdges at h
  rcases List.mem_append.mp h with h | h <;> exact passEdges_shape fl R C rows _ e h

/-- everything the cluster construction needs to know about a perfect matching of the symmetry graph -/
structure MatchFacts (R C : Int) (rows : List BVec) (ms : List (Node × Node)) : Prop where
  shape : ∀ m ∈ ms, m.1.2 = m.2.2 ∨ m.1.1 = m.2.1
  nodup : (ends ms).Nodup
  twin : ∀ k o, (k, o) ∈ ends ms → (k, !o) ∈ ends ms
  node : ∀ k o, (k, o) ∈ ends ms ↔ IsNode R C rows k
  twinVirtual : ∀ m ∈ ms, m.1.1 = m.2.1 → RotatedPlanar.isVirtualPlaquette R C m.1.1.2.1 m.1.1.2.2 = true

theorem matchFacts (fl : Flags) (R C : Int) (hR : 0 ≤ R) (hC : 0 ≤ C) (rows : List BVec) (ms : List (Node × Node))
    (hpm : isPerfectMatchingOfGraph (graphNodes R C rows) (graphEdges fl R C rows) ms = true) :
    MatchFacts R C rows ms := by
  have hocc := pm_occ_gen _ _ _ hpm
  have hnd : (ends ms).Nodup := by
    apply nodup_of_count_le
    intro v
    have := hocc v
    unfold occ at this
    rw [this]; split <;> omega
  have hnode : ∀ k o, (k, o) ∈ ends ms ↔ IsNode R C rows k := by
    intro k o
    rw [← mem_graphNodes R C hR hC rows (k, o)]
    constructor
    · exact pm_ends _ _ _ hpm (k, o)
    · intro h
      have := pm_count _ _ _ hpm (k, o) h
      exact mem_of_count_eq_one _ _ this
  have hshape : ∀ m ∈ ms, EdgeShape R C m ∨ EdgeShape R C (m.2, m.1) := by
    intro m hm
    rcases pm_edges _ _ _ hpm m hm with h | h
    · exact Or.inl (graphEdges_shape fl R C rows _ h)
    · exact Or.inr (graphEdges_shape fl R C rows _ h)
  refine ⟨?_, hnd, ?_, hnode, ?_⟩
  · intro m hm
    rcases hshape m hm with h | h
    · rcases h with h | h
      · exact Or.inl h
      · exact Or.inr h.1
    · rcases h with h | h
      · exact Or.inl h.symm
      · exact Or.inr h.1.symm
  · intro k o h
    rw [hnode] at h ⊢; exact h
  · intro m hm hidx
    have hne := nodup_ends_ne ms hnd m hm
    rcases hshape m hm with h | h
    · rcases h with h | h
      · exact absurd (Prod.ext hidx h) hne
      · exact h.2
    · rcases h with h | h
      · exact absurd (Prod.ext hidx h.symm) hne
      · simp only at h; rw [hidx]; exact h.2

end Qec.SmwpmL
