import QecVerif.Model.Pauli
namespace Qec

/-! helper lemmas for `pack` / `unpack` -/

theorem list_length_eight {α} (bs : List α) (h : bs.length = 8) :
    ∃ a b c d e f g k, bs = [a, b, c, d, e, f, g, k] := by
  match bs, h with
  | [a, b, c, d, e, f, g, k], _ => exact ⟨a, b, c, d, e, f, g, k, rfl⟩

theorem byteBits_bitsToNat (bs : List Bool) (h : bs.length = 8) :
    byteBits (bitsToNat bs) = bs := by
  obtain ⟨a, b, c, d, e, f, g, k, rfl⟩ := list_length_eight bs h
  revert a b c d e f g k
  decide

theorem bitsToNat_lt (bs : List Bool) (h : bs.length = 8) : bitsToNat bs < 256 := by
  obtain ⟨a, b, c, d, e, f, g, k, rfl⟩ := list_length_eight bs h
  revert a b c d e f g k
  decide

theorem chunk_length (bs : List Bool) :
    ((bs.take 8) ++ List.replicate (8 - (bs.take 8).length) false).length = 8 := by
  simp only [List.length_append, List.length_take, List.length_replicate]
  omega

theorem packBytes_succ_cons (f : Nat) (b : Bool) (bs : List Bool) :
    packBytes (f + 1) (b :: bs) =
      bitsToNat (((b :: bs).take 8) ++ List.replicate (8 - ((b :: bs).take 8).length) false)
        :: packBytes f ((b :: bs).drop 8) := by
  simp [packBytes]

theorem packBytes_nil (f : Nat) : packBytes f [] = [] := by
  cases f <;> simp [packBytes]

theorem packBytes_lt (f : Nat) (bs : List Bool) : ∀ v ∈ packBytes f bs, v < 256 := by
  induction f generalizing bs with
  | zero => intro v hv; simp [packBytes] at hv
  | succ f ih =>
    cases bs with
    | nil => intro v hv; simp [packBytes_nil] at hv
    | cons b bs =>
      intro v hv
      rw [packBytes_succ_cons] at hv
      rcases List.mem_cons.mp hv with rfl | hv
      · exact bitsToNat_lt _ (chunk_length _)
      · exact ih _ v hv

theorem packBytes_length (f : Nat) (bs : List Bool) (h : bs.length ≤ f) :
    (packBytes f bs).length = (bs.length + 7) / 8 := by
  induction f generalizing bs with
  | zero =>
    have : bs = [] := List.eq_nil_of_length_eq_zero (by omega)
    subst this; simp [packBytes]
  | succ f ih =>
    cases bs with
    | nil => simp [packBytes_nil]
    | cons b bs =>
      rw [packBytes_succ_cons, List.length_cons, ih]
      · simp only [List.length_drop, List.length_cons]
        omega
      · simp only [List.length_drop, List.length_cons] at h ⊢
        omega

theorem packBytes_unpack (f : Nat) (bs : List Bool) (h : bs.length ≤ f) :
    ((packBytes f bs).flatMap byteBits).take bs.length = bs := by
  induction f generalizing bs with
  | zero =>
    have : bs = [] := List.eq_nil_of_length_eq_zero (by omega)
    subst this; simp
  | succ f ih =>
    cases bs with
    | nil => simp
    | cons b bs =>
      rw [packBytes_succ_cons, List.flatMap_cons, byteBits_bitsToNat _ (chunk_length _)]
      generalize hc : b :: bs = cs at *
      by_cases hle : cs.length ≤ 8
      · rw [List.take_of_length_le hle, List.append_assoc, List.take_append_of_le_length (Nat.le_refl _),
          List.take_length]
      · have hlen : (cs.take 8).length = 8 := by simp only [List.length_take]; omega
        have hd : (cs.drop 8).length ≤ f := by
          simp only [List.length_drop]; omega
        have hih := ih (cs.drop 8) hd
        rw [hlen]
        simp only [Nat.sub_self, List.replicate_zero, List.append_nil]
        rw [List.take_append, hlen, List.take_of_length_le (by omega : (cs.take 8).length ≤ cs.length)]
        have : cs.length - 8 = (cs.drop 8).length := by simp
        rw [this, hih, List.take_append_drop]

theorem unpack_pack_spec (b : BVec) : unpack (pack b) = b := by
  exact packBytes_unpack b.length b (Nat.le_refl _)
theorem pack_length_spec (b : BVec) : (pack b).2 = b.length ∧ (pack b).1.length = (b.length + 7) / 8 := by
  exact ⟨rfl, packBytes_length b.length b (Nat.le_refl _)⟩
theorem pack_bytes_lt_spec (b : BVec) : ∀ v ∈ (pack b).1, v < 256 := by
  exact packBytes_lt b.length b

end Qec
