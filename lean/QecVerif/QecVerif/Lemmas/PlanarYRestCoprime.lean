/-
  Helper lemmas for the planar Y decoder, part 6: the co-prime branch.  The NW snake from a site of the last row of
  a co-prime lattice reaches a corner before it loops (Chinese remainder theorem on the 2R × 2C box of the bouncing
  diagonal), so it anticommutes with exactly the plaquette to the right of its start; `_destabilizer` and the sample
  recovery of the co-prime branch.
-/
import QecVerif.Lemmas.PlanarYRestSnake
import Mathlib.Data.Nat.ModEq
import Mathlib.Tactic.Ring
namespace Qec.PlanarYL
open Qec Qec.Planar Qec.Symp Qec.PlanarCode Qec.PlanarY

/-! ### arithmetic -/

/-- Chinese remainder: an odd residue mod 2C and the residue −1 mod 2R are met simultaneously below 2RC -/
theorem crt_corner (Rn Cn t : Nat) (hR : 2 ≤ Rn) (hC : 2 ≤ Cn) (hg : Nat.gcd Rn Cn = 1) (ht : t % 2 = 1)
    (ht2 : t < 2 * Cn) : ∃ m, m % (2 * Rn) = 2 * Rn - 1 ∧ m % (2 * Cn) = t ∧ m < 2 * (Rn * Cn) := by
  have hgcd : Nat.gcd (2 * Rn) (2 * Cn) = 2 := by rw [Nat.gcd_mul_left, hg]
  have hmod : (2 * Rn - 1) ≡ t [MOD Nat.gcd (2 * Rn) (2 * Cn)] := by
    rw [hgcd]; unfold Nat.ModEq; omega
  refine ⟨Nat.chineseRemainder' hmod, ?_, ?_, ?_⟩
  · have := (Nat.chineseRemainder' hmod).2.1
    unfold Nat.ModEq at this
    rw [this]; exact Nat.mod_eq_of_lt (by omega)
  · have := (Nat.chineseRemainder' hmod).2.2
    unfold Nat.ModEq at this
    rw [this]; exact Nat.mod_eq_of_lt ht2
  · have h1 := Nat.chineseRemainder'_lt_lcm hmod (by omega) (by omega)
    have h2 := Nat.gcd_mul_lcm (2 * Rn) (2 * Cn)
    rw [hgcd] at h2
    have e : 2 * Rn * (2 * Cn) = 2 * (2 * (Rn * Cn)) := by ring
    omega

/-- a positive common multiple of 4R and 4C is at least 4RC when R, C are co-prime -/
theorem period_ge (Rn Cn K : Nat) (hg : Nat.gcd Rn Cn = 1) (hK : 1 ≤ K) (h1 : K % (4 * Rn) = 0)
    (h2 : K % (4 * Cn) = 0) : 4 * (Rn * Cn) ≤ K := by
  obtain ⟨a, ha⟩ := Nat.dvd_of_mod_eq_zero h1
  obtain ⟨b, hb⟩ := Nat.dvd_of_mod_eq_zero h2
  have hab : Rn * a = Cn * b := by
    have : 4 * (Rn * a) = 4 * (Cn * b) := by rw [← Nat.mul_assoc, ← Nat.mul_assoc, ← ha, ← hb]
    omega
  have hco : Nat.Coprime Cn Rn := by unfold Nat.Coprime; rw [Nat.gcd_comm]; exact hg
  have hc : Cn ∣ a := hco.dvd_of_dvd_mul_left ⟨b, hab⟩
  obtain ⟨c, rfl⟩ := hc
  have hc0 : 0 < c := by
    rcases Nat.eq_zero_or_pos c with h | h
    · subst h; simp at ha; omega
    · exact h
  have e : K = 4 * (Rn * Cn) * c := by rw [ha]; ring
  rw [e]
  exact Nat.le_mul_of_pos_right _ hc0

theorem mod_double (m N : Nat) (hN : 0 < N) : m % (2 * N) = m % N ∨ m % (2 * N) = m % N + N := by
  have h1 : m % (2 * N) % N = m % N := Nat.mod_mod_of_dvd m ⟨2, by omega⟩
  have h2 := Nat.mod_lt m (by omega : 0 < 2 * N)
  by_cases h : m % (2 * N) < N
  · left; rw [Nat.mod_eq_of_lt h] at h1; exact h1
  · right
    have : m % (2 * N) % N = m % (2 * N) - N := by
      rw [Nat.mod_eq_sub_mod (by omega), Nat.mod_eq_of_lt (by omega)]
    omega

theorem nq_ge (R C : Int) (hR : 2 ≤ R) (hC : 2 ≤ C) : R.toNat * C.toNat ≤ (nQubits R C).toNat := by
  unfold nQubits
  have h0 : 0 ≤ (R - 1) * (C - 1) := Int.mul_nonneg (by omega) (by omega)
  have h1 : ((R.toNat * C.toNat : Nat) : Int) = R * C := by
    push_cast
    rw [Int.toNat_of_nonneg (by omega), Int.toNat_of_nonneg (by omega)]
  omega

/-! ### walls, loops, corners of one coordinate of the NW snake -/

theorem W_wall (s M : Int) (hs : 0 ≤ s) (hM : s ≤ M) (m : Nat) (hm : m % (M + 2).toNat = (s + 1).toNat) :
    W s M m = -1 ∨ W s M m = M + 1 := by
  have h := W_spec s M hs hM m
  have e : (2 * M + 4).toNat = 2 * (M + 2).toNat := by omega
  rw [e] at h
  rcases mod_double m (M + 2).toNat (by omega) with h2 | h2 <;> rw [h2, hm] at h <;> unfold CycVal at h <;> omega

theorem W_loop (s M : Int) (hs : 0 ≤ s) (hM : s ≤ M) (k : Nat) (h1 : W s M (k + 1) = s) (h0 : W s M k = s + 1) :
    (k + 1) % (2 * M + 4).toNat = 0 := by
  have a := W_spec s M hs hM k
  have b := W_spec s M hs hM (k + 1)
  rw [h0] at a; rw [h1] at b
  rw [succ_mod k _ (by omega)] at b ⊢
  have hlt := Nat.mod_lt k (by omega : 0 < (2 * M + 4).toNat)
  generalize k % (2 * M + 4).toNat = i at *
  unfold CycVal at a b
  by_cases e : i + 1 = (2 * M + 4).toNat
  · rw [if_pos e]
  · exfalso; rw [if_neg e] at b; omega

theorem triple_wall (M a b c : Int) (h : Triple M a b c) (hac : a = c) : b = -1 ∨ b = M + 1 := by
  unfold Triple at h; omega

theorem triple_of_wall (M a b c : Int) (h : Triple M a b c) (hb : b = -1 ∨ b = M + 1) : a = c := by
  unfold Triple at h; omega

theorem beq_some_self (x : Int × Int) : (some x == some x) = true := by simp

/-! ### the NW snake from a site of the last row of a co-prime lattice -/

/-- **billiard lemma**: on a co-prime lattice the NW snake from the site `(max_r, c0)` stops in a corner (never loops,
    never trips the infinite-loop guard); the visited indices are sites and, among the in-lattice plaquettes, are
    adjacent an odd number of times to exactly the plaquette to the right of the start -/
theorem snakeDir_nw_corner (R C : Int) (hR : 2 ≤ R) (hC : 2 ≤ C) (hc : coprime R C = true) (c0 : Int) (h0 : 0 ≤ c0)
    (h1 : c0 ≤ maxCol C) (h2 : c0 % 2 = 0) :
    ∃ l, snakeDir R C (maxRow R, c0) false false = .ok (l, false) ∧ AllSites l ∧
      ∀ q, RealP R C q → xorSum l (adjG (maxRow R) (maxCol C) q) = decide (q = (maxRow R, c0 + 1)) := by
  have hg : Nat.gcd R.toNat C.toNat = 1 := by simpa [coprime] using hc
  have Mr0 : 0 ≤ maxRow R := by unfold maxRow; omega
  obtain ⟨m, hm1, hm2, hm3⟩ := crt_corner R.toNat C.toNat (c0 + 1).toNat (by omega) (by omega) hg (by omega)
    (by unfold maxCol at h1; omega)
  have wr : W (maxRow R) (maxRow R) m = -1 ∨ W (maxRow R) (maxRow R) m = maxRow R + 1 :=
    W_wall _ _ Mr0 (Int.le_refl _) m (by
      unfold maxRow; rw [show (2 * R - 2 + 2).toNat = 2 * R.toNat by omega, hm1]; omega)
  have wc : W c0 (maxCol C) m = -1 ∨ W c0 (maxCol C) m = maxCol C + 1 :=
    W_wall c0 (maxCol C) h0 h1 m (by
      unfold maxCol; rw [show (2 * C - 2 + 2).toNat = 2 * C.toNat by omega, hm2])
  have hm0 : 1 ≤ m := by
    have := Nat.mod_le m (2 * R.toNat); omega
  have hstop : stopAt (maxRow R, c0) false (cycDown (maxRow R) (maxRow R)) (cycDown c0 (maxCol C)) (m + 1) = true := by
    unfold stopAt cornerAt prevAt
    rw [if_neg (by omega)]
    have tr := W_triple (maxRow R) (maxRow R) Mr0 (Int.le_refl _) (m - 1)
    have tc := W_triple c0 (maxCol C) h0 h1 (m - 1)
    rw [show m - 1 + 1 = m by omega, show m - 1 + 2 = m + 1 by omega] at tr tc
    have e1 := triple_of_wall _ _ _ _ tr wr
    have e2 := triple_of_wall _ _ _ _ tc wc
    have : posAt (cycDown (maxRow R) (maxRow R)) (cycDown c0 (maxCol C)) (m + 1 - 2) =
        posAt (cycDown (maxRow R) (maxRow R)) (cycDown c0 (maxCol C)) (m + 1) := by
      rw [show m + 1 - 2 = m - 1 by omega]
      exact Prod.ext e1 e2
    rw [this, beq_some_self, Bool.or_true]
  have hbound : m + 1 ≤ (nQubits R C).toNat * 100 := by
    have := nq_ge R C hR hC; omega
  rcases snakeDir_ok R C (maxRow R, c0) false (m + 1) hbound hstop with ⟨K, hKn, hK, hmin, hdir⟩
  simp only [Bool.false_eq_true, if_false] at hK hmin hdir
  -- no loop at the first stop
  have hloop : loopAt (maxRow R, c0) false (cycDown (maxRow R) (maxRow R)) (cycDown c0 (maxCol C)) K = false := by
    cases hl : loopAt (maxRow R, c0) false (cycDown (maxRow R) (maxRow R)) (cycDown c0 (maxCol C)) K with
    | false => rfl
    | true =>
      exfalso
      unfold loopAt curAt at hl
      by_cases hK0 : K = 0
      · subst hK0; simp at hl
      · rw [if_neg hK0] at hl
        simp only [Bool.and_eq_true, beq_iff_eq, Option.some.injEq] at hl
        obtain ⟨e1, e2⟩ := hl
        rw [e1] at e2
        have e1r : W (maxRow R) (maxRow R) (K - 1 + 1) = maxRow R := by
          rw [show K - 1 + 1 = K by omega]; exact congrArg Prod.fst e1
        have e1c : W c0 (maxCol C) (K - 1 + 1) = c0 := by
          rw [show K - 1 + 1 = K by omega]; exact congrArg Prod.snd e1
        have e2r : W (maxRow R) (maxRow R) (K - 1) = maxRow R + 1 := congrArg Prod.fst e2
        have e2c : W c0 (maxCol C) (K - 1) = c0 + 1 := congrArg Prod.snd e2
        have p1 := W_loop _ _ Mr0 (Int.le_refl _) (K - 1) e1r e2r
        have p2 := W_loop _ _ h0 h1 (K - 1) e1c e2c
        rw [show K - 1 + 1 = K by omega] at p1 p2
        have := period_ge R.toNat C.toNat K hg (by omega)
          (by rw [← p1]; unfold maxRow; congr 1; omega) (by rw [← p2]; unfold maxCol; congr 1; omega)
        omega
  have hcorner : cornerAt (cycDown (maxRow R) (maxRow R)) (cycDown c0 (maxCol C)) K = true := by
    unfold stopAt at hK
    rw [hloop, Bool.false_or] at hK
    exact hK
  rw [hloop] at hdir
  refine ⟨_, hdir, ?_, ?_⟩
  · intro rc hrc
    rcases List.mem_map.mp hrc with ⟨j, _, rfl⟩
    have a := W_parity (maxRow R) (maxRow R) Mr0 (Int.le_refl _) j
    have b := W_parity c0 (maxCol C) h0 h1 j
    show (W (maxRow R) (maxRow R) j + W c0 (maxCol C) j) % 2 = 0
    have : maxRow R % 2 = 0 := by unfold maxRow; omega
    omega
  · intro q hq
    unfold cornerAt prevAt at hcorner
    by_cases hK2 : K < 2
    · rw [if_pos hK2] at hcorner; simp at hcorner
    · rw [if_neg hK2] at hcorner
      simp only [beq_iff_eq, Option.some.injEq] at hcorner
      obtain ⟨k, rfl⟩ : ∃ k, K = k + 2 := ⟨K - 2, by omega⟩
      rw [show k + 2 - 2 = k by omega] at hcorner
      have cr : W (maxRow R) (maxRow R) k = W (maxRow R) (maxRow R) (k + 2) := congrArg Prod.fst hcorner
      have cc : W c0 (maxCol C) k = W c0 (maxCol C) (k + 2) := congrArg Prod.snd hcorner
      have wr' := triple_wall _ _ _ _ (W_triple (maxRow R) (maxRow R) Mr0 (Int.le_refl _) k) cr
      have wc' := triple_wall _ _ _ _ (W_triple c0 (maxCol C) h0 h1 k) cc
      unfold RealP at hq
      have tel := snake_telescope (maxRow R) (maxCol C) (U (maxRow R) (maxRow R)) (U c0 (maxCol C))
        (U_triple _ _ Mr0 (Int.le_refl _)) (U_triple _ _ h0 h1) q (by omega) (by unfold maxRow; omega) (by omega)
        (by unfold maxCol; omega) (k + 2)
      refine Eq.trans tel ?_
      have g0 : gT (U (maxRow R) (maxRow R)) (U c0 (maxCol C)) q 0 = decide (q = (maxRow R, c0 + 1)) := by
        unfold gT
        rw [show U (maxRow R) (maxRow R) 0 = maxRow R + 1 from rfl, show U c0 (maxCol C) 0 = c0 + 1 from rfl,
          show U (maxRow R) (maxRow R) (0 + 1) = W (maxRow R) (maxRow R) 0 from rfl,
          show U c0 (maxCol C) (0 + 1) = W c0 (maxCol C) 0 from rfl, W_zero _ _ Mr0 (Int.le_refl _),
          W_zero _ _ h0 h1]
        apply decide_eq_decide.mpr
        obtain ⟨a, b⟩ := q
        simp only [Prod.mk.injEq]
        simp only at hq
        unfold maxRow
        omega
      have gK : gT (U (maxRow R) (maxRow R)) (U c0 (maxCol C)) q (k + 2) = false := by
        unfold gT
        rw [show U (maxRow R) (maxRow R) (k + 2) = W (maxRow R) (maxRow R) (k + 1) from rfl,
          show U c0 (maxCol C) (k + 2) = W c0 (maxCol C) (k + 1) from rfl]
        apply decide_eq_false
        have hMr : maxRow R = 2 * R - 2 := rfl
        have hMc : maxCol C = 2 * C - 2 := rfl
        omega
      rw [g0, gK, Bool.xor_false]

/-- **`_snake(code, (max_r, c0), se=False, full=False)`** on a co-prime lattice: a Y-only operator anticommuting with
    exactly the plaquette `(max_r, c0 + 1)` -/
theorem snake_nw_spec (R C : Int) (hR : 2 ≤ R) (hC : 2 ≤ C) (hc : coprime R C = true) (c0 : Int) (h0 : 0 ≤ c0)
    (h1 : c0 ≤ maxCol C) (h2 : c0 % 2 = 0) :
    ∃ v, snake R C (maxRow R, c0) false false false = .ok v ∧ YSym (nq R C) v ∧
      ∀ q, RealP R C q → bsp (stabOp R C q) v = decide (q = (maxRow R, c0 + 1)) := by
  rcases snakeDir_nw_corner R C hR hC hc c0 h0 h1 h2 with ⟨l, hdir, hl, hsyn⟩
  refine ⟨yop R C l, ?_, ysym_yop R C hR hC l hl, ?_⟩
  · have hb : inBounds R C (maxRow R) c0 = true := by rw [inBounds_iff]; unfold maxRow; unfold maxCol at h1; omega
    unfold snake
    simp only [hb, Bool.not_true, Bool.false_eq_true, if_false, hdir, Bool.false_and]
    rfl
  · intro q hq
    rw [bsp_stab_yop R C hR hC q hq l hl, xorSum_congr _ _ _ (fun s _ => adj_eq_adjG R C q s)]
    exact hsyn q hq

/-! ### `_destabilizer` -/

theorem foldlM_map_ok {ι : Type} (S : ι → BVec) (f : ι → Except String BVec) (l : List ι)
    (h : ∀ q ∈ l, f q = .ok (S q)) (d0 : BVec) :
    l.foldlM (fun d q => (f q).map (xorV d)) d0 = .ok (l.foldl (fun d q => xorV d (S q)) d0) := by
  induction l generalizing d0 with
  | nil => rfl
  | cons q l ih =>
    rw [List.foldlM_cons, List.foldl_cons, h q List.mem_cons_self]
    exact ih (fun q' hq' => h q' (List.mem_cons_of_mem _ hq')) _

theorem foldl_xor_spec_mem {ι : Type} (a : BVec) (k : Nat) (P : ι → BVec) (l : List ι)
    (hP : ∀ p ∈ l, (P p).length = k) (acc : BVec) (hacc : acc.length = k) :
    (l.foldl (fun rec p => xorV rec (P p)) acc).length = k ∧
    bsp a (l.foldl (fun rec p => xorV rec (P p)) acc) = (bsp a acc ^^ xorSum l (fun p => bsp a (P p))) := by
  induction l generalizing acc with
  | nil => simp [hacc]
  | cons p l ih =>
    simp only [List.foldl_cons, xorSum_cons]
    have hp := hP p List.mem_cons_self
    have hl : (xorV acc (P p)).length = k := by rw [xorV_length _ _ (by rw [hacc, hp])]; exact hacc
    rcases ih (fun q hq => hP q (List.mem_cons_of_mem _ hq)) (xorV acc (P p)) hl with ⟨h1, h2⟩
    refine ⟨h1, ?_⟩
    rw [h2, bsp_xorV_right _ _ _ (by rw [hacc, hp]), Bool.xor_assoc]

theorem mem_symmDiff1 (l : List (Int × Int)) (p q : Int × Int) :
    q ∈ symmDiff1 l p ↔ (q ∈ l ∧ q ≠ p) ∨ (q = p ∧ p ∉ l) := by
  unfold symmDiff1
  by_cases hp : p ∈ l
  · simp [hp]
  · simp [hp]
    constructor
    · rintro (h | h)
      · exact Or.inl ⟨h, fun e => hp (e ▸ h)⟩
      · exact Or.inr h
    · rintro (h | h)
      · exact Or.inl h.1
      · exact Or.inr h

theorem symmDiff1_nodup (l : List (Int × Int)) (p : Int × Int) (hl : l.Nodup) : (symmDiff1 l p).Nodup := by
  unfold symmDiff1
  by_cases hp : p ∈ l
  · simp only [List.contains_iff_mem.mpr hp, if_true]
    exact hl.filter _
  · have : l.contains p = false := by
      rw [Bool.eq_false_iff]; intro h; exact hp (List.contains_iff_mem.mp h)
    simp only [this, Bool.false_eq_true, if_false]
    rw [List.nodup_append]
    refine ⟨hl, List.nodup_singleton _, ?_⟩
    intro a ha b hb
    simp only [List.mem_singleton] at hb
    subst hb
    intro e; subst e; exact hp ha

/-- the value of the NW snake of `_destabilizer` for the boundary defect `q` (identity if it raises) -/
def snakeOr (R C : Int) (q : Int × Int) : BVec :=
  match snake R C (q.1, q.2 - 1) false false false with
  | .ok v => v
  | .error _ => identity R C

theorem snakeOr_eq (R C : Int) (q : Int × Int) (v : BVec) (h : snake R C (q.1, q.2 - 1) false false false = .ok v) :
    snakeOr R C q = v := by
  unfold snakeOr; rw [h]

/-- **`_destabilizer(code, p)`** on a co-prime lattice: returned, Y-only, anticommutes with exactly the plaquette `p` -/
theorem destabilizer_spec (R C : Int) (hR : 2 ≤ R) (hC : 2 ≤ C) (hc : coprime R C = true) (p : Int × Int)
    (hp : RealP R C p) :
    ∃ d, destabilizer R C p = .ok d ∧ YSym (nq R C) d ∧ ∀ q, RealP R C q → bsp (stabOp R C q) d = decide (q = p) := by
  have hp' := hp
  unfold RealP at hp'
  have hb : inBounds R C p.1 p.2 = true := by rw [inBounds_iff]; omega
  have hpar : ((p.1 + 1, p.2) : Int × Int).1 + ((p.1 + 1, p.2) : Int × Int).2 = p.1 + 1 + p.2 := rfl
  have hd0 : YSym (nq R C) (snakeFill R C (p.1 + 1, p.2) true) :=
    ysym_yop R C hR hC _ (allSites_snakeFillSites R C _ true (by simp only; omega))
  have hcomm : ∀ q, bsp (snakeFill R C (p.1 + 1, p.2) true) (stabOp R C q) =
      bsp (stabOp R C q) (snakeFill R C (p.1 + 1, p.2) true) := by
    intro q
    exact bsp_comm _ _ (by rw [hd0.1, stabOp_length]) (by rw [hd0.1]; omega)
  have hfill : ∀ q, RealP R C q → q.1 < maxRow R →
      bsp (stabOp R C q) (snakeFill R C (p.1 + 1, p.2) true) = decide (q = p) := by
    intro q hq hlt
    rw [fill_syndrome_down R C hR hC _ q (by simp only; omega) hq hlt]
    apply decide_eq_decide.mpr
    obtain ⟨a, b⟩ := q
    obtain ⟨c, d⟩ := p
    simp only [Prod.mk.injEq]
    omega
  have hD : syndromeToPlaquettes R C (syndrome R C (snakeFill R C (p.1 + 1, p.2) true)) =
      (plaquetteIndices R C).filter (fun q => bsp (snakeFill R C (p.1 + 1, p.2) true) (stabOp R C q)) := by
    rw [syndrome_eq_map]; unfold syndromeToPlaquettes; rw [defects_eq]
  have hDmem : ∀ q, q ∈ (plaquetteIndices R C).filter
      (fun q => bsp (snakeFill R C (p.1 + 1, p.2) true) (stabOp R C q)) ↔
      RealP R C q ∧ bsp (stabOp R C q) (snakeFill R C (p.1 + 1, p.2) true) = true := by
    intro q
    rw [List.mem_filter, mem_plaquetteIndices, hcomm]
  have hrow : ∀ q ∈ symmDiff1 ((plaquetteIndices R C).filter
      (fun q => bsp (snakeFill R C (p.1 + 1, p.2) true) (stabOp R C q))) p, RealP R C q ∧ q.1 = maxRow R := by
    intro q hq
    rcases (mem_symmDiff1 _ _ _).mp hq with ⟨h1, h2⟩ | ⟨h1, h2⟩
    · have hq' := (hDmem q).mp h1
      refine ⟨hq'.1, ?_⟩
      by_cases hlt : q.1 < maxRow R
      · have := hfill q hq'.1 hlt
        rw [hq'.2] at this
        have : q = p := of_decide_eq_true this.symm
        exact absurd this h2
      · have := hq'.1; unfold RealP at this; unfold maxRow at hlt ⊢; omega
    · subst h1
      refine ⟨hp, ?_⟩
      by_cases hlt : q.1 < maxRow R
      · have h3 := hfill q hp hlt
        simp only [decide_true] at h3
        exact absurd ((hDmem q).mpr ⟨hp, h3⟩) h2
      · unfold maxRow at hlt ⊢; omega
  have hS : ∀ q ∈ symmDiff1 ((plaquetteIndices R C).filter
      (fun q => bsp (snakeFill R C (p.1 + 1, p.2) true) (stabOp R C q))) p,
      snake R C (q.1, q.2 - 1) false false false = .ok (snakeOr R C q) ∧ YSym (nq R C) (snakeOr R C q) ∧
        ∀ q', RealP R C q' → bsp (stabOp R C q') (snakeOr R C q) = decide (q' = q) := by
    intro q hq
    rcases hrow q hq with ⟨hqr, hq1⟩
    unfold RealP at hqr
    have hMr : maxRow R = 2 * R - 2 := rfl
    rcases snake_nw_spec R C hR hC hc (q.2 - 1) (by omega) (by unfold maxCol; omega) (by omega) with ⟨v, hv, hy, hsyn⟩
    rw [← hq1] at hv
    rw [snakeOr_eq R C q v hv]
    refine ⟨hv, hy, ?_⟩
    intro q' hq'
    rw [hsyn q' hq']
    apply decide_eq_decide.mpr
    obtain ⟨a, b⟩ := q
    obtain ⟨c, d⟩ := q'
    simp only [Prod.mk.injEq]
    simp only at hq1
    omega
  have hnd := symmDiff1_nodup _ p ((plaquetteIndices_nodup R C).filter
    (fun q => bsp (snakeFill R C (p.1 + 1, p.2) true) (stabOp R C q)))
  have hfold := foldlM_map_ok (snakeOr R C) (fun q => snake R C (q.1, q.2 - 1) false false false) _
    (fun q hq => (hS q hq).1) (snakeFill R C (p.1 + 1, p.2) true)
  have hdest : destabilizer R C p = .ok ((symmDiff1 ((plaquetteIndices R C).filter
      (fun q => bsp (snakeFill R C (p.1 + 1, p.2) true) (stabOp R C q))) p).foldl
        (fun d q => xorV d (snakeOr R C q)) (snakeFill R C (p.1 + 1, p.2) true)) := by
    unfold destabilizer
    simp only [hc, hb, Bool.not_true, Bool.false_eq_true, if_false]
    rw [hD]
    exact hfold
  refine ⟨_, hdest, ?_, ?_⟩
  · exact foldl_ysym _ _ _ (fun q hq => (hS q hq).2.1) _ hd0
  · intro q' hq'
    rw [(foldl_xor_spec_mem (stabOp R C q') (2 * nq R C) (snakeOr R C) _ (fun q hq => (hS q hq).2.1.1) _ hd0.1).2,
      xorSum_congr _ _ _ (fun q hq => (hS q hq).2.2 q' hq'), xorSum_decide_mem _ hnd]
    by_cases hqp : q' = p
    · subst hqp
      cases hx : bsp (stabOp R C q') (snakeFill R C (q'.1 + 1, q'.2) true) with
      | true =>
        have : ¬ q' ∈ symmDiff1 ((plaquetteIndices R C).filter
            (fun q => bsp (snakeFill R C (q'.1 + 1, q'.2) true) (stabOp R C q))) q' := by
          rw [mem_symmDiff1]
          rintro (⟨_, h⟩ | ⟨_, h⟩)
          · exact h rfl
          · exact h ((hDmem q').mpr ⟨hq', hx⟩)
        simp [this]
      | false =>
        have : q' ∈ symmDiff1 ((plaquetteIndices R C).filter
            (fun q => bsp (snakeFill R C (q'.1 + 1, q'.2) true) (stabOp R C q))) q' := by
          rw [mem_symmDiff1]
          right
          refine ⟨rfl, ?_⟩
          intro h
          have := ((hDmem q').mp h).2
          rw [hx] at this
          exact Bool.noConfusion this
        simp [this]
    · cases hx : bsp (stabOp R C q') (snakeFill R C (p.1 + 1, p.2) true) with
      | true =>
        have : q' ∈ symmDiff1 ((plaquetteIndices R C).filter
            (fun q => bsp (snakeFill R C (p.1 + 1, p.2) true) (stabOp R C q))) p := by
          rw [mem_symmDiff1]
          exact Or.inl ⟨(hDmem q').mpr ⟨hq', hx⟩, hqp⟩
        simp [this, hqp]
      | false =>
        have : ¬ q' ∈ symmDiff1 ((plaquetteIndices R C).filter
            (fun q => bsp (snakeFill R C (p.1 + 1, p.2) true) (stabOp R C q))) p := by
          rw [mem_symmDiff1]
          rintro (⟨h, _⟩ | ⟨h, _⟩)
          · have := ((hDmem q').mp h).2
            rw [hx] at this
            exact Bool.noConfusion this
          · exact hqp h
        simp [this, hqp]

/-! ### the sample recovery of the co-prime branch -/

/-- the value of `_destabilizer` (identity if it raises) -/
def destabOr (R C : Int) (p : Int × Int) : BVec :=
  match destabilizer R C p with
  | .ok v => v
  | .error _ => identity R C

theorem destabOr_eq (R C : Int) (p : Int × Int) (v : BVec) (h : destabilizer R C p = .ok v) : destabOr R C p = v := by
  unfold destabOr; rw [h]

theorem exists_map_eq {α : Type} [DecidableEq α] (l : List α) (hn : l.Nodup) (s : List Bool) (h : s.length = l.length) :
    ∃ f : α → Bool, s = l.map f := by
  induction l generalizing s with
  | nil => exact ⟨fun _ => false, by simpa using h⟩
  | cons a l ih =>
    cases s with
    | nil => simp at h
    | cons b s =>
      rcases ih (List.nodup_cons.mp hn).2 s (by simpa using h) with ⟨f, hf⟩
      refine ⟨fun x => if x = a then b else f x, ?_⟩
      simp only [List.map_cons, if_true]
      congr 1
      rw [hf]
      apply List.map_congr_left
      intro x hx
      have : x ≠ a := fun e => (List.nodup_cons.mp hn).1 (e ▸ hx)
      simp [this]

/-- **`_sample_recovery` on a co-prime lattice**: for EVERY syndrome vector the XOR of the destabilizers of its defects
    is returned (no residual, the look-up table is not consulted) and reproduces the syndrome -/
theorem sample_coprime (R C : Int) (hR : 2 ≤ R) (hC : 2 ≤ C) (hc : coprime R C = true) (s : BVec)
    (hs : s.length = (plaquetteIndices R C).length) :
    ∃ r, sampleRecovery R C s = .ok r ∧ r.length = 2 * nq R C ∧ YSym (nq R C) r ∧ syndrome R C r = s ∧
      combinedPartial R C s = .ok r := by
  rcases exists_map_eq _ (plaquetteIndices_nodup R C) s hs with ⟨f, rfl⟩
  have hspec : ∀ p ∈ (plaquetteIndices R C).filter f,
      destabilizer R C p = .ok (destabOr R C p) ∧ YSym (nq R C) (destabOr R C p) ∧
        ∀ q, RealP R C q → bsp (stabOp R C q) (destabOr R C p) = decide (q = p) := by
    intro p hp
    rcases destabilizer_spec R C hR hC hc p ((mem_plaquetteIndices R C p).mp (List.mem_filter.mp hp).1) with
      ⟨d, hd, hy, hsyn⟩
    rw [destabOr_eq R C p d hd]
    exact ⟨hd, hy, hsyn⟩
  have hcp : combinedPartial R C ((plaquetteIndices R C).map f) =
      .ok (((plaquetteIndices R C).filter f).foldl (fun d p => xorV d (destabOr R C p)) (identity R C)) := by
    unfold combinedPartial syndromeToPlaquettes
    rw [defects_eq]
    simp only [hc, if_true]
    exact foldlM_map_ok (destabOr R C) (destabilizer R C) _ (fun p hp => (hspec p hp).1) _
  have hy : YSym (nq R C) (((plaquetteIndices R C).filter f).foldl (fun d p => xorV d (destabOr R C p)) (identity R C)) :=
    foldl_ysym _ _ _ (fun p hp => (hspec p hp).2.1) _ (ysym_zeros _)
  have hsyn : syndrome R C (((plaquetteIndices R C).filter f).foldl (fun d p => xorV d (destabOr R C p)) (identity R C)) =
      (plaquetteIndices R C).map f := by
    rw [syndrome_eq_map]
    apply List.map_congr_left
    intro q hq
    have hq' := (mem_plaquetteIndices R C q).mp hq
    rw [bsp_comm _ _ (by rw [hy.1, stabOp_length]) (by rw [hy.1]; omega),
      (foldl_xor_spec_mem (stabOp R C q) (2 * nq R C) (destabOr R C) _ (fun p hp => (hspec p hp).2.1.1) _
        (identity_length R C)).2,
      identity_eq, bsp_zeros_right, Bool.false_xor,
      xorSum_congr _ _ _ (fun p hp => (hspec p hp).2.2 q hq'),
      xorSum_decide_mem _ ((plaquetteIndices_nodup R C).filter _)]
    cases hf : f q with
    | true => simp [List.mem_filter, hq, hf]
    | false => simp [List.mem_filter, hf]
  rcases sample_of_partial R C _ _ hs hy.1 hcp (by
    intro h
    rw [hsyn, xorV_self, any_zeros] at h
    exact Bool.noConfusion h) with ⟨r, hr, hlen, hrs⟩
  have hrr : r = ((plaquetteIndices R C).filter f).foldl (fun d p => xorV d (destabOr R C p)) (identity R C) := by
    unfold sampleRecovery sampleRecoveryWith at hr
    rw [hcp] at hr
    simp only [hsyn, xorV_self, any_zeros, Bool.false_eq_true, if_false] at hr
    exact (Except.ok.inj hr).symm
  subst hrr
  exact ⟨_, hr, hlen, hy, hrs, hcp⟩

end Qec.PlanarYL
