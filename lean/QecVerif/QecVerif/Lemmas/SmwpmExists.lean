/-
  Helper lemmas for Props/C02/SmwpmExists.lean — EXISTENCE of perfect matchings of the graphs of the two
  symmetry-matching decoders (Model/Smwpm.lean): an explicit matching constructor (`canonicalMatching`,
  `Toric.canonicalMatching`, `clusterMatching`) and the generic facts used to show that it is a perfect matching.
-/
import QecVerif.Lemmas.SmwpmGraph
import QecVerif.Lemmas.SmwpmToric
import QecVerif.Lemmas.SmwpmFinal
import QecVerif.Lemmas.Lattice.RotatedPlanarCode
import QecVerif.Lemmas.Ftp
import Mathlib.Data.List.Nodup
import Mathlib.Data.List.Perm.Subperm
namespace Qec.SmwpmX
open Qec Qec.Smwpm Qec.SmwpmL

/-! ## generic -/

/-- a list of pairs whose endpoints are duplicate-free, are exactly the nodes, and which are all edges is a perfect
    matching (the node list may list a node several times) -/
theorem pm_of_nodup {α : Type} [DecidableEq α] (nodes : List α) (edges m : List (α × α))
    (hnd : (Dec.ends m).Nodup) (hmem : ∀ v, v ∈ Dec.ends m ↔ v ∈ nodes)
    (he : ∀ x ∈ m, (x.1, x.2) ∈ edges ∨ (x.2, x.1) ∈ edges) :
    Dec.isPerfectMatchingOfGraph nodes edges m = true := by
  unfold Dec.isPerfectMatchingOfGraph
  simp only [Bool.and_eq_true, List.all_eq_true]
  refine ⟨⟨?_, ?_⟩, ?_⟩
  · intro x hx; simpa [Dec.isEdge] using he x hx
  · intro v hv
    simpa using List.count_eq_one_of_mem hnd ((hmem v).mpr hv)
  · intro v hv
    simpa using (hmem v).mp hv

theorem ends_map_pair {α : Type} (o : Bool) (l : List (α × α)) :
    Dec.ends (l.map fun x => ((x.1, o), (x.2, o))) = (Dec.ends l).map fun k => (k, o) := by
  induction l with
  | nil => rfl
  | cons x l ih =>
    simp only [Dec.ends, List.map_cons, List.flatMap_cons, List.map_append, List.map_nil] at ih ⊢
    rw [ih]

/-- the matching built from a pairing order of the row nodes, one of the column nodes, and the twin-matched indices -/
def mk {α : Type} (Urow Ucol W : List α) : List ((α × Bool) × (α × Bool)) :=
  (Dec.pairUp Urow).map (fun x => ((x.1, true), (x.2, true))) ++
  (Dec.pairUp Ucol).map (fun x => ((x.1, false), (x.2, false))) ++
  W.map (fun v => ((v, true), (v, false)))

theorem ends_twins {α : Type} (W : List α) :
    Dec.ends (W.map fun v => ((v, true), (v, false))) = W.flatMap fun v => [(v, true), (v, false)] := by
  induction W with
  | nil => rfl
  | cons x l ih =>
    simp only [Dec.ends, List.map_cons, List.flatMap_cons] at ih ⊢
    rw [ih]

theorem ends_mk {α : Type} (Urow Ucol W : List α) (h1 : Urow.length % 2 = 0) (h2 : Ucol.length % 2 = 0) :
    Dec.ends (mk Urow Ucol W) =
      Urow.map (fun k => (k, true)) ++ Ucol.map (fun k => (k, false)) ++ W.flatMap fun v => [(v, true), (v, false)] := by
  unfold mk
  rw [Dec.ends_append, Dec.ends_append, ends_map_pair, ends_map_pair, Dec.ends_pairUp _ h1, Dec.ends_pairUp _ h2,
    ends_twins]

theorem mem_ends_mk {α : Type} (Urow Ucol W : List α) (h1 : Urow.length % 2 = 0) (h2 : Ucol.length % 2 = 0)
    (hm : ∀ k, k ∈ Urow ↔ k ∈ Ucol) (k : α) (o : Bool) :
    (k, o) ∈ Dec.ends (mk Urow Ucol W) ↔ k ∈ Urow ∨ k ∈ W := by
  rw [ends_mk _ _ _ h1 h2]
  simp only [List.mem_append, List.mem_map, List.mem_flatMap, List.mem_cons, List.not_mem_nil, or_false,
    Prod.mk.injEq]
  constructor
  · rintro ((⟨a, ha, rfl, _⟩ | ⟨a, ha, rfl, _⟩) | ⟨a, ha, h⟩)
    · exact Or.inl ha
    · exact Or.inl ((hm _).mpr ha)
    · rcases h with ⟨rfl, _⟩ | ⟨rfl, _⟩ <;> exact Or.inr ha
  · rintro (h | h)
    · cases o
      · exact Or.inl (Or.inr ⟨k, (hm k).mp h, rfl, rfl⟩)
      · exact Or.inl (Or.inl ⟨k, h, rfl, rfl⟩)
    · cases o
      · exact Or.inr ⟨k, h, Or.inr ⟨rfl, rfl⟩⟩
      · exact Or.inr ⟨k, h, Or.inl ⟨rfl, rfl⟩⟩

theorem nodup_ends_mk {α : Type} (Urow Ucol W : List α) (h1 : Urow.length % 2 = 0) (h2 : Ucol.length % 2 = 0)
    (n1 : Urow.Nodup) (n2 : Ucol.Nodup) (nW : W.Nodup) (hm : ∀ k, k ∈ Urow ↔ k ∈ Ucol)
    (hd : ∀ k ∈ Urow, k ∉ W) : (Dec.ends (mk Urow Ucol W)).Nodup := by
  rw [ends_mk _ _ _ h1 h2]
  have inj : ∀ o : Bool, Function.Injective (fun k : α => (k, o)) := fun o a b h => (Prod.mk.inj h).1
  rw [List.nodup_append, List.nodup_append]
  refine ⟨⟨n1.map (inj true), n2.map (inj false), ?_⟩, ?_, ?_⟩
  · intro a ha b hb
    rw [List.mem_map] at ha hb
    obtain ⟨_, _, rfl⟩ := ha
    obtain ⟨_, _, rfl⟩ := hb
    intro h; cases (Prod.mk.inj h).2
  · rw [List.nodup_flatMap]
    refine ⟨fun v _ => by simp, ?_⟩
    apply List.Pairwise.imp _ nW
    intro a b hab
    simp only [Function.onFun, List.disjoint_cons_left, List.mem_cons, List.not_mem_nil, or_false, Prod.mk.injEq,
      List.disjoint_nil_left, and_true, not_or, not_and]
    refine ⟨⟨fun h => absurd h hab, fun h => absurd h hab⟩, ⟨fun h => absurd h hab, fun h => absurd h hab⟩⟩
  · intro a ha b hb
    simp only [List.mem_append, List.mem_map] at ha
    simp only [List.mem_flatMap, List.mem_cons, List.not_mem_nil, or_false] at hb
    obtain ⟨v, hv, hb⟩ := hb
    intro h
    have hk : a.1 ∈ Urow := by
      rcases ha with ⟨k, hk, rfl⟩ | ⟨k, hk, rfl⟩
      · exact hk
      · exact (hm k).mpr hk
    apply hd _ hk
    rcases hb with rfl | rfl <;> rw [h] <;> exact hv

/-- all pairs of `mk` -/
theorem mem_mk {α : Type} (Urow Ucol W : List α) (x : (α × Bool) × (α × Bool)) (h : x ∈ mk Urow Ucol W) :
    (∃ y ∈ Dec.pairUp Urow, x = ((y.1, true), (y.2, true))) ∨
    (∃ y ∈ Dec.pairUp Ucol, x = ((y.1, false), (y.2, false))) ∨
    (∃ v ∈ W, x = ((v, true), (v, false))) := by
  unfold mk at h
  simp only [List.mem_append, List.mem_map] at h
  rcases h with (⟨y, hy, rfl⟩ | ⟨y, hy, rfl⟩) | ⟨v, hv, rfl⟩
  · exact Or.inl ⟨y, hy, rfl⟩
  · exact Or.inr (Or.inl ⟨y, hy, rfl⟩)
  · exact Or.inr (Or.inr ⟨v, hv, rfl⟩)

/-- **grouped matchings**: the groups `g ∈ L` use disjoint sets of indices (told apart by a key) -/
theorem group_spec {α ι : Type} (L : List ι) (hL : L.Nodup) (key : α → ι)
    (Urow Ucol W : ι → List α)
    (h1 : ∀ g ∈ L, (Urow g).length % 2 = 0) (h2 : ∀ g ∈ L, (Ucol g).length % 2 = 0)
    (n1 : ∀ g ∈ L, (Urow g).Nodup) (n2 : ∀ g ∈ L, (Ucol g).Nodup) (nW : ∀ g ∈ L, (W g).Nodup)
    (hm : ∀ g ∈ L, ∀ k, k ∈ Urow g ↔ k ∈ Ucol g) (hd : ∀ g ∈ L, ∀ k ∈ Urow g, k ∉ W g)
    (hk : ∀ g ∈ L, ∀ k, k ∈ Urow g ∨ k ∈ W g → key k = g) :
    (Dec.ends (L.flatMap fun g => mk (Urow g) (Ucol g) (W g))).Nodup ∧
    ∀ k o, (k, o) ∈ Dec.ends (L.flatMap fun g => mk (Urow g) (Ucol g) (W g)) ↔ ∃ g ∈ L, k ∈ Urow g ∨ k ∈ W g := by
  have he : Dec.ends (L.flatMap fun g => mk (Urow g) (Ucol g) (W g)) =
      L.flatMap fun g => Dec.ends (mk (Urow g) (Ucol g) (W g)) := by
    simp only [Dec.ends, List.flatMap_assoc]
  rw [he]
  constructor
  · rw [List.nodup_flatMap]
    refine ⟨fun g hg => nodup_ends_mk _ _ _ (h1 g hg) (h2 g hg) (n1 g hg) (n2 g hg) (nW g hg) (hm g hg) (hd g hg), ?_⟩
    have : ∀ a ∈ L, ∀ b ∈ L, a ≠ b →
        List.Disjoint (Dec.ends (mk (Urow a) (Ucol a) (W a))) (Dec.ends (mk (Urow b) (Ucol b) (W b))) := by
      intro a ha b hb hab x hxa hxb
      obtain ⟨k, o⟩ := x
      rw [mem_ends_mk _ _ _ (h1 a ha) (h2 a ha) (hm a ha)] at hxa
      rw [mem_ends_mk _ _ _ (h1 b hb) (h2 b hb) (hm b hb)] at hxb
      exact hab ((hk a ha k hxa).symm.trans (hk b hb k hxb))
    exact List.Pairwise.imp_of_mem (fun {a b} ha hb hab => this a ha b hb hab) hL
  · intro k o
    rw [List.mem_flatMap]
    constructor
    · rintro ⟨g, hg, h⟩
      exact ⟨g, hg, (mem_ends_mk _ _ _ (h1 g hg) (h2 g hg) (hm g hg) k o).mp h⟩
    · rintro ⟨g, hg, h⟩
      exact ⟨g, hg, (mem_ends_mk _ _ _ (h1 g hg) (h2 g hg) (hm g hg) k o).mpr h⟩


/-! ## rotated planar: the symmetry graph -/

open RotatedPlanar RotatedPlanarCode

def tix (t : Nat) (p : Dec.Idx2) : TIdx := ((t : Int), p.1, p.2)

/-- the grid of `_plaquette_indices` -/
def gridIdx (R C : Int) : List Dec.Idx2 :=
  (allIdx R C).filter fun p => decide (p.1 ≤ C - 1) && decide (p.2 ≤ R - 1)

def virtualPlaqs (R C : Int) : List Dec.Idx2 := (gridIdx R C).filter fun p => isVirtualPlaquette R C p.1 p.2

/-- the south-west corner, a virtual plaquette of every lattice -/
def v0 : Dec.Idx2 := (-1, -1)

def defectsAt (R C : Int) (rows : List BVec) (t : Nat) : List TIdx :=
  (syndromeToPlaquettes R C (rows.getD t [])).map (tix t)

def oddB (n : Nat) : Bool := n % 2 == 1

/-- space-like strategy, time step `t`: the defects in order, plus the corner when their number is odd -/
def usedAt (R C : Int) (rows : List BVec) (t : Nat) : List TIdx :=
  defectsAt R C rows t ++ (if oddB (defectsAt R C rows t).length then [tix t v0] else [])

def twinAt (R C : Int) (rows : List BVec) (t : Nat) : List TIdx :=
  ((virtualPlaqs R C).filter fun v => !(oddB (defectsAt R C rows t).length && decide (v = v0))).map (tix t)

/-- time-like strategy, position `p`: the time steps at which `p` is a defect, in order -/
def usedTimes (R C : Int) (rows : List BVec) (p : Dec.Idx2) : List TIdx :=
  ((List.range rows.length).filter fun t => isDefect R C rows t p).map fun t => tix t p

def twinTimes (R C : Int) (T : Nat) (p : Dec.Idx2) : List TIdx :=
  if isVirtualPlaquette R C p.1 p.2 then (List.range T).map fun t => tix t p else []

/-- **the explicit matching** of the symmetry graph: `error_probability == 0` → pair the defects of every plaquette
    along the time axis; otherwise pair the defects of each time step among themselves (the odd one out with the
    south-west corner); every unused virtual node with its twin.  (Infinite bias with `p ≠ 0` needs different row and
    column pairings and is not covered: `Feasible`.) -/
def canonicalMatching (fl : Flags) (R C : Int) (rows : List BVec) : List (Node × Node) :=
  if fl.pZero then
    (gridIdx R C).flatMap fun p => mk (usedTimes R C rows p) (usedTimes R C rows p) (twinTimes R C rows.length p)
  else
    (List.range rows.length).flatMap fun t => mk (usedAt R C rows t) (usedAt R C rows t) (twinAt R C rows t)

theorem mem_gridIdx (R C : Int) (p : Dec.Idx2) : p ∈ gridIdx R C ↔ InGrid R C p := by
  unfold gridIdx InGrid
  rw [List.mem_filter, mem_allIdx]
  simp only [Bool.and_eq_true, decide_eq_true_eq]
  omega

theorem gridIdx_nodup (R C : Int) : (gridIdx R C).Nodup := (allIdx_nodup R C).filter _

theorem mem_virtualPlaqs (R C : Int) (p : Dec.Idx2) :
    p ∈ virtualPlaqs R C ↔ InGrid R C p ∧ isVirtualPlaquette R C p.1 p.2 = true := by
  unfold virtualPlaqs; rw [List.mem_filter, mem_gridIdx]

theorem v0_virtual (R C : Int) : isVirtualPlaquette R C v0.1 v0.2 = true := by
  have h : inPlaquetteBounds R C (-1) (-1) = false := by
    rw [Bool.eq_false_iff]; intro h
    rw [inPlaquetteBounds_iff] at h
    unfold PlaqIn at h; simp only at h; omega
  simp [isVirtualPlaquette, v0, h]

theorem v0_inGrid (R C : Int) (hR : 0 ≤ R) (hC : 0 ≤ C) : InGrid R C v0 := by
  unfold InGrid v0; simp only; omega

theorem defect_plaqIn (R C : Int) (rows : List BVec) (t : Nat) (p : Dec.Idx2) (h : isDefect R C rows t p = true) :
    PlaqIn R C p := by
  unfold isDefect at h
  have hm : p ∈ syndromeToPlaquettes R C (rows.getD t []) := of_decide_eq_true h
  exact (mem_plaquetteIndices R C p).mp (Pairing.pick_subset _ _ p hm)

theorem plaqIn_inGrid (R C : Int) (p : Dec.Idx2) (h : PlaqIn R C p) : InGrid R C p := by
  unfold PlaqIn at h; unfold InGrid; omega

theorem plaqIn_not_virtual (R C : Int) (p : Dec.Idx2) (h : PlaqIn R C p) : isVirtualPlaquette R C p.1 p.2 = false := by
  unfold isVirtualPlaquette
  rw [(inPlaquetteBounds_iff R C p.1 p.2).mpr h]; simp

theorem tix_sp (k : TIdx) (t : Nat) (h : k.1 = (t : Int)) : tix t (sp k) = k := by
  unfold tix sp
  apply Prod.ext
  · exact h.symm
  · rfl

theorem tix_inj (t : Nat) : Function.Injective (tix t) := by
  intro a b h
  unfold tix at h
  have := (Prod.mk.inj h).2
  exact Prod.ext (Prod.mk.inj this).1 (Prod.mk.inj this).2

theorem tix_inj_t (p : Dec.Idx2) : Function.Injective (fun t : Nat => tix t p) := by
  intro a b h
  unfold tix at h
  have := (Prod.mk.inj h).1
  omega

theorem mem_defectsAt (R C : Int) (rows : List BVec) (t : Nat) (k : TIdx) :
    k ∈ defectsAt R C rows t ↔ k.1 = (t : Int) ∧ isDefect R C rows t (sp k) = true := by
  unfold defectsAt isDefect
  rw [List.mem_map, decide_eq_true_eq]
  constructor
  · rintro ⟨p, hp, rfl⟩
    exact ⟨rfl, hp⟩
  · rintro ⟨h1, h2⟩
    exact ⟨sp k, h2, tix_sp k t h1⟩

theorem defectsAt_nodup (R C : Int) (rows : List BVec) (t : Nat) : (defectsAt R C rows t).Nodup :=
  (Pairing.pick_nodup _ _ (plaquetteIndices_nodup R C)).map (tix_inj t)


/-! ### which pairs are edges -/

theorem mem_lineNodes (R C : Int) (rows : List BVec) (byRow : Bool) (line : List Dec.Idx2) (n : Node) :
    n ∈ lineNodes R C rows byRow line ↔ n.2 = byRow ∧ sp n.1 ∈ line ∧ ∃ t : Nat, n.1.1 = (t : Int) ∧ t < rows.length ∧
      (isVirtualPlaquette R C n.1.2.1 n.1.2.2 = true ∨ isDefect R C rows t (sp n.1) = true) := by
  unfold lineNodes
  simp only [List.mem_flatMap, List.mem_filterMap, List.mem_range]
  constructor
  · rintro ⟨xy, hxy, t, ht, hn⟩
    by_cases hc : (isVirtualPlaquette R C xy.1 xy.2 || isDefect R C rows t xy) = true
    · rw [if_pos hc] at hn
      have := Option.some.inj hn
      rw [← this]
      refine ⟨rfl, hxy, t, rfl, ht, ?_⟩
      rw [Bool.or_eq_true] at hc
      exact hc
    · rw [if_neg hc] at hn; cases hn
  · rintro ⟨ho, hl, t, ht, htl, hc⟩
    refine ⟨sp n.1, hl, t, htl, ?_⟩
    have hc' : (isVirtualPlaquette R C (sp n.1).1 (sp n.1).2 || isDefect R C rows t (sp n.1)) = true := by
      rw [Bool.or_eq_true]; exact hc
    rw [if_pos hc']
    congr 1
    apply Prod.ext
    · apply Prod.ext
      · exact ht.symm
      · rfl
    · exact ho.symm

theorem same_line (R C : Int) (hR : 0 ≤ R) (hC : 0 ≤ C) (o : Bool) (a b : Dec.Idx2) (ha : InGrid R C a)
    (hb : InGrid R C b) (h : if o = true then a.2 = b.2 else a.1 = b.1) :
    ∃ line ∈ planarLines R C o, a ∈ line ∧ b ∈ line := by
  unfold InGrid at ha hb
  unfold planarLines
  cases o
  · simp only [Bool.false_eq_true, if_false] at h ⊢
    refine ⟨_, List.mem_map.mpr ⟨(a.1 + 1).toNat, List.mem_range.mpr (by omega), rfl⟩,
      List.mem_map.mpr ⟨(R - 1 - a.2).toNat, List.mem_range.mpr (by omega), ?_⟩,
      List.mem_map.mpr ⟨(R - 1 - b.2).toNat, List.mem_range.mpr (by omega), ?_⟩⟩
    · apply Prod.ext <;> simp only <;> omega
    · apply Prod.ext <;> simp only <;> omega
  · simp only [if_true] at h ⊢
    refine ⟨_, List.mem_map.mpr ⟨(R - 1 - a.2).toNat, List.mem_range.mpr (by omega), rfl⟩,
      List.mem_map.mpr ⟨(a.1 + 1).toNat, List.mem_range.mpr (by omega), ?_⟩,
      List.mem_map.mpr ⟨(b.1 + 1).toNat, List.mem_range.mpr (by omega), ?_⟩⟩
    · apply Prod.ext <;> simp only <;> omega
    · apply Prod.ext <;> simp only <;> omega

theorem addEdgeOk_of (fl : Flags) (o : Bool) (a b : TIdx)
    (hq : fl.q01 = true → a.1 = b.1) (hp : fl.pZero = true → sp a = sp b)
    (he : fl.etaNone = true → if o = true then a.2.2 = b.2.2 else a.2.1 = b.2.1) :
    addEdgeOk fl (a, o) (b, o) = true := by
  obtain ⟨e, q, p⟩ := fl
  unfold addEdgeOk
  cases e <;> cases q <;> cases p <;> cases o <;> simp_all

/-- two distinct nodes of the same orientation that pass the filters of `_add_edge` are joined by an edge -/
theorem edge_same (fl : Flags) (R C : Int) (hR : 0 ≤ R) (hC : 0 ≤ C) (rows : List BVec) (o : Bool) (a b : TIdx)
    (ha : IsNode R C rows a) (hb : IsNode R C rows b) (hab : a ≠ b)
    (hq : fl.q01 = true → a.1 = b.1) (hp : fl.pZero = true → sp a = sp b)
    (he : fl.etaNone = true → if o = true then a.2.2 = b.2.2 else a.2.1 = b.2.1) :
    ((a, o), (b, o)) ∈ graphEdges fl R C rows ∨ ((b, o), (a, o)) ∈ graphEdges fl R C rows := by
  have ok1 := addEdgeOk_of fl o a b hq hp he
  have ok2 := addEdgeOk_of fl o b a (fun h => (hq h).symm) (fun h => (hp h).symm) (fun h => by
    have := he h; split at this <;> simp_all)
  have hne : ((a, o) : Node) ≠ (b, o) := fun h => hab (Prod.mk.inj h).1
  have key : ((a, o), (b, o)) ∈ passEdges fl R C rows o ∨ ((b, o), (a, o)) ∈ passEdges fl R C rows o := by
    unfold passEdges
    by_cases hf : fl.etaNone = true
    · rw [if_pos hf]
      obtain ⟨line, hl, h1, h2⟩ := same_line R C hR hC o (sp a) (sp b) ha.1 hb.1 (he hf)
      have m1 : ((a, o) : Node) ∈ lineNodes R C rows o line :=
        (mem_lineNodes R C rows o line (a, o)).mpr ⟨rfl, h1, ha.2⟩
      have m2 : ((b, o) : Node) ∈ lineNodes R C rows o line :=
        (mem_lineNodes R C rows o line (b, o)).mpr ⟨rfl, h2, hb.2⟩
      rcases Dec.pairsOf_complete _ _ _ m1 m2 hne with h | h
      · exact Or.inl (List.mem_append_right _ (List.mem_flatMap.mpr ⟨line, hl, List.mem_filter.mpr ⟨h, ok1⟩⟩))
      · exact Or.inr (List.mem_append_right _ (List.mem_flatMap.mpr ⟨line, hl, List.mem_filter.mpr ⟨h, ok2⟩⟩))
    · rw [if_neg hf]
      have m1 : ((a, o) : Node) ∈ passNodes R C rows o := (mem_passNodes R C hR hC rows o (a, o)).mpr ⟨rfl, ha⟩
      have m2 : ((b, o) : Node) ∈ passNodes R C rows o := (mem_passNodes R C hR hC rows o (b, o)).mpr ⟨rfl, hb⟩
      rcases Dec.pairsOf_complete _ _ _ m1 m2 hne with h | h
      · exact Or.inl (List.mem_append_right _ (List.mem_filter.mpr ⟨h, ok1⟩))
      · exact Or.inr (List.mem_append_right _ (List.mem_filter.mpr ⟨h, ok2⟩))
  unfold graphEdges
  cases o
  · rcases key with h | h
    · exact Or.inl (List.mem_append_right _ h)
    · exact Or.inr (List.mem_append_right _ h)
  · rcases key with h | h
    · exact Or.inl (List.mem_append_left _ h)
    · exact Or.inr (List.mem_append_left _ h)

/-- the twin edge of a virtual node -/
theorem edge_twin (fl : Flags) (R C : Int) (hR : 0 ≤ R) (hC : 0 ≤ C) (rows : List BVec) (v : TIdx)
    (hv : IsNode R C rows v) (hvirt : isVirtualPlaquette R C v.2.1 v.2.2 = true) :
    ((v, true), (v, false)) ∈ graphEdges fl R C rows := by
  unfold graphEdges passEdges twinEdges
  apply List.mem_append_left
  apply List.mem_append_left
  rw [List.mem_map]
  exact ⟨(v, true), List.mem_filter.mpr ⟨(mem_passNodes R C hR hC rows true (v, true)).mpr ⟨rfl, hv⟩, hvirt⟩, rfl⟩


/-! ### the space-like strategy (finite bias, `p ≠ 0`) -/

theorem mem_usedAt (R C : Int) (rows : List BVec) (t : Nat) (k : TIdx) :
    k ∈ usedAt R C rows t ↔ (k.1 = (t : Int) ∧ isDefect R C rows t (sp k) = true) ∨
      (oddB (defectsAt R C rows t).length = true ∧ k = tix t v0) := by
  unfold usedAt
  rw [List.mem_append, mem_defectsAt]
  by_cases h : oddB (defectsAt R C rows t).length = true
  · rw [if_pos h]; simp [h]
  · rw [if_neg h]; simp [h]

theorem mem_twinAt (R C : Int) (rows : List BVec) (t : Nat) (k : TIdx) :
    k ∈ twinAt R C rows t ↔ k.1 = (t : Int) ∧ InGrid R C (sp k) ∧ isVirtualPlaquette R C k.2.1 k.2.2 = true ∧
      ¬ (oddB (defectsAt R C rows t).length = true ∧ sp k = v0) := by
  unfold twinAt
  rw [List.mem_map]
  constructor
  · rintro ⟨v, hv, rfl⟩
    rw [List.mem_filter, mem_virtualPlaqs] at hv
    refine ⟨rfl, hv.1.1, hv.1.2, ?_⟩
    have := hv.2
    simp only [Bool.not_eq_true', Bool.and_eq_false_iff, decide_eq_false_iff_not] at this
    rintro ⟨h1, h2⟩
    rcases this with h | h
    · rw [h1] at h; cases h
    · exact h h2
  · rintro ⟨h1, h2, h3, h4⟩
    refine ⟨sp k, ?_, tix_sp k t h1⟩
    rw [List.mem_filter, mem_virtualPlaqs]
    refine ⟨⟨h2, h3⟩, ?_⟩
    simp only [Bool.not_eq_true', Bool.and_eq_false_iff, decide_eq_false_iff_not]
    by_cases h : oddB (defectsAt R C rows t).length = true
    · exact Or.inr fun h' => h4 ⟨h, h'⟩
    · exact Or.inl (by simpa using h)

theorem usedAt_time (R C : Int) (rows : List BVec) (t : Nat) (k : TIdx)
    (h : k ∈ usedAt R C rows t ∨ k ∈ twinAt R C rows t) : k.1 = (t : Int) := by
  rcases h with h | h
  · rcases (mem_usedAt R C rows t k).mp h with h | h
    · exact h.1
    · rw [h.2]; rfl
  · exact ((mem_twinAt R C rows t k).mp h).1

theorem node_iff_space (R C : Int) (hR : 0 ≤ R) (hC : 0 ≤ C) (rows : List BVec) (k : TIdx) :
    (∃ t ∈ List.range rows.length, k ∈ usedAt R C rows t ∨ k ∈ twinAt R C rows t) ↔ IsNode R C rows k := by
  constructor
  · rintro ⟨t, ht, h⟩
    rw [List.mem_range] at ht
    rcases h with h | h
    · rcases (mem_usedAt R C rows t k).mp h with h | h
      · exact ⟨plaqIn_inGrid R C _ (defect_plaqIn R C rows t _ h.2), t, h.1, ht, Or.inr h.2⟩
      · rw [h.2]
        exact ⟨v0_inGrid R C hR hC, t, rfl, ht, Or.inl (v0_virtual R C)⟩
    · obtain ⟨h1, h2, h3, _⟩ := (mem_twinAt R C rows t k).mp h
      exact ⟨h2, t, h1, ht, Or.inl h3⟩
  · rintro ⟨hg, t, h1, ht, h⟩
    refine ⟨t, List.mem_range.mpr ht, ?_⟩
    by_cases hd : isDefect R C rows t (sp k) = true
    · exact Or.inl ((mem_usedAt R C rows t k).mpr (Or.inl ⟨h1, hd⟩))
    · have hv : isVirtualPlaquette R C k.2.1 k.2.2 = true := by
        rcases h with h | h
        · exact h
        · exact absurd h hd
      by_cases hc : oddB (defectsAt R C rows t).length = true ∧ sp k = v0
      · refine Or.inl ((mem_usedAt R C rows t k).mpr (Or.inr ⟨hc.1, ?_⟩))
        rw [← hc.2]; exact (tix_sp k t h1).symm
      · exact Or.inr ((mem_twinAt R C rows t k).mpr ⟨h1, hg, hv, hc⟩)

theorem usedAt_even (R C : Int) (rows : List BVec) (t : Nat) : (usedAt R C rows t).length % 2 = 0 := by
  unfold usedAt oddB
  rw [List.length_append]
  split
  · rename_i h; simp only [beq_iff_eq] at h; simp only [List.length_cons, List.length_nil]; omega
  · rename_i h; simp only [beq_iff_eq] at h; simp only [List.length_nil]; omega

theorem v0_not_defect (R C : Int) (rows : List BVec) (t : Nat) : isDefect R C rows t v0 = false := by
  rw [Bool.eq_false_iff]; intro h
  have := plaqIn_not_virtual R C v0 (defect_plaqIn R C rows t v0 h)
  rw [v0_virtual] at this; cases this

theorem usedAt_nodup (R C : Int) (rows : List BVec) (t : Nat) : (usedAt R C rows t).Nodup := by
  unfold usedAt
  rw [List.nodup_append]
  refine ⟨defectsAt_nodup R C rows t, by split <;> simp, ?_⟩
  intro a ha b hb
  split at hb
  · rw [List.mem_singleton] at hb
    rintro rfl
    rw [hb, mem_defectsAt] at ha
    have := ha.2
    have e : sp (tix t v0) = v0 := rfl
    rw [e, v0_not_defect] at this; cases this
  · cases hb

theorem twinAt_nodup (R C : Int) (rows : List BVec) (t : Nat) : (twinAt R C rows t).Nodup :=
  (((gridIdx_nodup R C).filter _).filter _).map (tix_inj t)

theorem usedAt_disjoint (R C : Int) (rows : List BVec) (t : Nat) (k : TIdx) (h : k ∈ usedAt R C rows t) :
    k ∉ twinAt R C rows t := by
  intro h2
  obtain ⟨_, _, h3, h4⟩ := (mem_twinAt R C rows t k).mp h2
  rcases (mem_usedAt R C rows t k).mp h with h | h
  · have := plaqIn_not_virtual R C _ (defect_plaqIn R C rows t _ h.2)
    have e : isVirtualPlaquette R C (sp k).1 (sp k).2 = isVirtualPlaquette R C k.2.1 k.2.2 := rfl
    rw [e, h3] at this; cases this
  · apply h4
    refine ⟨h.1, ?_⟩
    rw [h.2]; rfl

/-- the space-like strategy is a perfect matching whenever space-like edges exist between all nodes of a time step -/
theorem canonical_space (fl : Flags) (R C : Int) (hR : 0 ≤ R) (hC : 0 ≤ C) (rows : List BVec)
    (hp : fl.pZero = false) (he : fl.etaNone = false) :
    Dec.isPerfectMatchingOfGraph (graphNodes R C rows) (graphEdges fl R C rows) (canonicalMatching fl R C rows) = true := by
  unfold canonicalMatching
  rw [hp]; simp only [Bool.false_eq_true, if_false]
  obtain ⟨g1, g2⟩ := group_spec (List.range rows.length) List.nodup_range (fun k : TIdx => k.1.toNat)
    (usedAt R C rows) (usedAt R C rows) (twinAt R C rows)
    (fun t _ => usedAt_even R C rows t) (fun t _ => usedAt_even R C rows t)
    (fun t _ => usedAt_nodup R C rows t) (fun t _ => usedAt_nodup R C rows t)
    (fun t _ => twinAt_nodup R C rows t) (fun _ _ _ => Iff.rfl) (fun t _ => usedAt_disjoint R C rows t)
    (fun t _ k h => by have := usedAt_time R C rows t k h; omega)
  apply pm_of_nodup _ _ _ g1
  · rintro ⟨k, o⟩
    rw [g2, mem_graphNodes R C hR hC, node_iff_space R C hR hC]
  · intro x hx
    rw [List.mem_flatMap] at hx
    obtain ⟨t, ht, hx⟩ := hx
    have hnode : ∀ k, k ∈ usedAt R C rows t ∨ k ∈ twinAt R C rows t → IsNode R C rows k := fun k hk =>
      (node_iff_space R C hR hC rows k).mp ⟨t, ht, hk⟩
    have hpair : ∀ (o : Bool), ∀ y ∈ Dec.pairUp (usedAt R C rows t),
        ((y.1, o), (y.2, o)) ∈ graphEdges fl R C rows ∨ ((y.2, o), (y.1, o)) ∈ graphEdges fl R C rows := by
      intro o y hy
      obtain ⟨m1, m2, hne⟩ := Dec.pairUp_mem _ (usedAt_nodup R C rows t) y hy
      apply edge_same fl R C hR hC rows o y.1 y.2 (hnode _ (Or.inl m1)) (hnode _ (Or.inl m2)) hne
      · intro _
        rw [usedAt_time R C rows t y.1 (Or.inl m1), usedAt_time R C rows t y.2 (Or.inl m2)]
      · intro h; rw [hp] at h; cases h
      · intro h; rw [he] at h; cases h
    rcases mem_mk _ _ _ x hx with ⟨y, hy, rfl⟩ | ⟨y, hy, rfl⟩ | ⟨v, hv, rfl⟩
    · exact hpair true y hy
    · exact hpair false y hy
    · exact Or.inl (edge_twin fl R C hR hC rows v (hnode v (Or.inr hv)) ((mem_twinAt R C rows t v).mp hv).2.2.1)


/-! ### the time-like strategy (`p = 0`) -/

theorem mem_usedTimes (R C : Int) (rows : List BVec) (p : Dec.Idx2) (k : TIdx) :
    k ∈ usedTimes R C rows p ↔ ∃ t : Nat, t < rows.length ∧ isDefect R C rows t p = true ∧ k = tix t p := by
  unfold usedTimes
  simp only [List.mem_map, List.mem_filter, List.mem_range]
  constructor
  · rintro ⟨t, ⟨h1, h2⟩, rfl⟩; exact ⟨t, h1, h2, rfl⟩
  · rintro ⟨t, h1, h2, rfl⟩; exact ⟨t, ⟨h1, h2⟩, rfl⟩

theorem mem_twinTimes (R C : Int) (T : Nat) (p : Dec.Idx2) (k : TIdx) :
    k ∈ twinTimes R C T p ↔ isVirtualPlaquette R C p.1 p.2 = true ∧ ∃ t : Nat, t < T ∧ k = tix t p := by
  unfold twinTimes
  split
  · rename_i h
    simp only [List.mem_map, List.mem_range, h, true_and]
    constructor
    · rintro ⟨t, h1, rfl⟩; exact ⟨t, h1, rfl⟩
    · rintro ⟨t, h1, rfl⟩; exact ⟨t, h1, rfl⟩
  · rename_i h
    simp [h]

theorem node_iff_time (R C : Int) (rows : List BVec) (k : TIdx) :
    (∃ p ∈ gridIdx R C, k ∈ usedTimes R C rows p ∨ k ∈ twinTimes R C rows.length p) ↔ IsNode R C rows k := by
  constructor
  · rintro ⟨p, hp, h⟩
    rw [mem_gridIdx] at hp
    rcases h with h | h
    · obtain ⟨t, h1, h2, rfl⟩ := (mem_usedTimes R C rows p k).mp h
      exact ⟨hp, t, rfl, h1, Or.inr h2⟩
    · obtain ⟨hv, t, h1, rfl⟩ := (mem_twinTimes R C rows.length p k).mp h
      exact ⟨hp, t, rfl, h1, Or.inl hv⟩
  · rintro ⟨hg, t, h1, ht, h⟩
    refine ⟨sp k, (mem_gridIdx R C _).mpr hg, ?_⟩
    rcases h with h | h
    · exact Or.inr ((mem_twinTimes R C rows.length _ k).mpr ⟨h, t, ht, (tix_sp k t h1).symm⟩)
    · exact Or.inl ((mem_usedTimes R C rows _ k).mpr ⟨t, ht, h, (tix_sp k t h1).symm⟩)

/-- the time-like strategy is a perfect matching when every plaquette is a defect at an even number of time steps
    (and at none when there are no time-like edges either) -/
theorem canonical_time (fl : Flags) (R C : Int) (hR : 0 ≤ R) (hC : 0 ≤ C) (rows : List BVec)
    (hp : fl.pZero = true)
    (hev : ∀ p, ((List.range rows.length).countP fun t => isDefect R C rows t p) % 2 = 0)
    (hq : fl.q01 = true → ∀ t p, isDefect R C rows t p = false) :
    Dec.isPerfectMatchingOfGraph (graphNodes R C rows) (graphEdges fl R C rows) (canonicalMatching fl R C rows) = true := by
  unfold canonicalMatching
  rw [hp]; simp only [if_true]
  have hsp : ∀ p k, k ∈ usedTimes R C rows p ∨ k ∈ twinTimes R C rows.length p → sp k = p := by
    intro p k h
    rcases h with h | h
    · obtain ⟨t, _, _, rfl⟩ := (mem_usedTimes R C rows p k).mp h; rfl
    · obtain ⟨_, t, _, rfl⟩ := (mem_twinTimes R C rows.length p k).mp h; rfl
  have hnd : ∀ p, (usedTimes R C rows p).Nodup := fun p => (List.nodup_range.filter _).map (tix_inj_t p)
  have hevn : ∀ p, (usedTimes R C rows p).length % 2 = 0 := by
    intro p
    unfold usedTimes
    rw [List.length_map, ← List.countP_eq_length_filter]
    exact hev p
  obtain ⟨g1, g2⟩ := group_spec (gridIdx R C) (gridIdx_nodup R C) (fun k : TIdx => sp k)
    (usedTimes R C rows) (usedTimes R C rows) (twinTimes R C rows.length)
    (fun p _ => hevn p) (fun p _ => hevn p) (fun p _ => hnd p) (fun p _ => hnd p)
    (fun p _ => by
      unfold twinTimes
      split
      · exact List.nodup_range.map (tix_inj_t p)
      · exact List.nodup_nil)
    (fun _ _ _ => Iff.rfl)
    (fun p _ k h h2 => by
      obtain ⟨t, _, hd, _⟩ := (mem_usedTimes R C rows p k).mp h
      have := plaqIn_not_virtual R C p (defect_plaqIn R C rows t p hd)
      rw [((mem_twinTimes R C rows.length p k).mp h2).1] at this; cases this)
    (fun p _ k h => hsp p k h)
  apply pm_of_nodup _ _ _ g1
  · rintro ⟨k, o⟩
    rw [g2, mem_graphNodes R C hR hC, node_iff_time R C]
  · intro x hx
    rw [List.mem_flatMap] at hx
    obtain ⟨p, hpg, hx⟩ := hx
    have hnode : ∀ k, k ∈ usedTimes R C rows p ∨ k ∈ twinTimes R C rows.length p → IsNode R C rows k := fun k hk =>
      (node_iff_time R C rows k).mp ⟨p, hpg, hk⟩
    have hpair : ∀ (o : Bool), ∀ y ∈ Dec.pairUp (usedTimes R C rows p),
        ((y.1, o), (y.2, o)) ∈ graphEdges fl R C rows ∨ ((y.2, o), (y.1, o)) ∈ graphEdges fl R C rows := by
      intro o y hy
      obtain ⟨m1, m2, hne⟩ := Dec.pairUp_mem _ (hnd p) y hy
      have e1 := hsp p y.1 (Or.inl m1)
      have e2 := hsp p y.2 (Or.inl m2)
      apply edge_same fl R C hR hC rows o y.1 y.2 (hnode _ (Or.inl m1)) (hnode _ (Or.inl m2)) hne
      · intro h
        obtain ⟨t, _, hd, _⟩ := (mem_usedTimes R C rows p y.1).mp m1
        rw [hq h t p] at hd; cases hd
      · intro _; rw [e1, e2]
      · intro _
        have e : sp y.1 = sp y.2 := by rw [e1, e2]
        unfold sp at e
        have := Prod.mk.inj e
        split
        · exact this.2
        · exact this.1
    rcases mem_mk _ _ _ x hx with ⟨y, hy, rfl⟩ | ⟨y, hy, rfl⟩ | ⟨v, hv, rfl⟩
    · exact hpair true y hy
    · exact hpair false y hy
    · refine Or.inl (edge_twin fl R C hR hC rows v (hnode v (Or.inr hv)) ?_)
      have := ((mem_twinTimes R C rows.length p v).mp hv).1
      have e := hsp p v (Or.inr hv)
      rw [← e] at this
      exact this


/-! ## the cluster graph -/

theorem pairUp_append {α : Type} : ∀ (A B : List α), A.length % 2 = 0 →
    Dec.pairUp (A ++ B) = Dec.pairUp A ++ Dec.pairUp B
  | [], B, _ => rfl
  | [_], _, h => by simp at h
  | x :: y :: r, B, h => by
    have := pairUp_append r B (by simp only [List.length_cons] at h; omega)
    simp only [List.cons_append, Dec.pairUp, this]

/-- the order in which the cluster nodes are paired up: creation order, except that the extra node (index `k`)
    and the first corner node (index `k + 1`) are swapped, so that the last real node is paired with the first corner
    and the extra node with the second -/
def clusterOrder (ns : List ClNode) : List Nat :=
  let k := ns.findIdx fun n => decide (n.kind = .extra)
  if k < ns.length then List.range (k - 1) ++ [k - 1, k + 1, k, k + 2] ++ List.range' (k + 3) (ns.length - (k + 3))
  else List.range ns.length

/-- **the explicit matching of the cluster graph** -/
def clusterMatching (ns : List ClNode) : List (Nat × Nat) := Dec.pairUp (clusterOrder ns)

theorem clusterEdgeOk_of (ns : List ClNode) (i j : Nat) (hi : i < ns.length) (hj : j < ns.length)
    (h1 : ns[i].kind = .extra → ns[j].kind = .corner) (h2 : ns[j].kind = .extra → ns[i].kind = .corner) :
    clusterEdgeOk ns i j = true := by
  unfold clusterEdgeOk
  rw [List.getElem?_eq_getElem hi, List.getElem?_eq_getElem hj]
  simp only
  by_cases ha : ns[i].kind = .extra
  · rw [if_pos ha]; simpa using h1 ha
  · rw [if_neg ha]
    by_cases hb : ns[j].kind = .extra
    · rw [if_pos hb]; simpa using h2 hb
    · rw [if_neg hb]

theorem clusterEdge_of (ns : List ClNode) (i j : Nat) (hi : i < ns.length) (hj : j < ns.length) (hij : i ≠ j)
    (h1 : ns[i].kind = .extra → ns[j].kind = .corner) (h2 : ns[j].kind = .extra → ns[i].kind = .corner) :
    (i, j) ∈ clusterEdges ns ∨ (j, i) ∈ clusterEdges ns := by
  unfold clusterEdges
  rcases Dec.pairsOf_complete (List.range ns.length) i j (List.mem_range.mpr hi) (List.mem_range.mpr hj) hij with h | h
  · exact Or.inl (List.mem_filter.mpr ⟨h, clusterEdgeOk_of ns i j hi hj h1 h2⟩)
  · exact Or.inr (List.mem_filter.mpr ⟨h, clusterEdgeOk_of ns j i hj hi h2 h1⟩)

/-- no extra node, an even number of nodes: pair them up in creation order -/
theorem cluster_pm_plain (ns : List ClNode) (hk : ∀ n ∈ ns, n.kind ≠ .extra) (hev : ns.length % 2 = 0) :
    Dec.isPerfectMatchingOfGraph (List.range ns.length) (clusterEdges ns) (clusterMatching ns) = true := by
  have hidx : (ns.findIdx fun n => decide (n.kind = .extra)) = ns.length := by
    rw [List.findIdx_eq_length]
    intro n hn; simpa using hk n hn
  have hord : clusterOrder ns = List.range ns.length := by
    unfold clusterOrder; simp only [hidx, Nat.lt_irrefl, if_false]
  unfold clusterMatching
  rw [hord]
  have hends := Dec.ends_pairUp (List.range ns.length) (by rw [List.length_range]; exact hev)
  apply pm_of_nodup
  · rw [hends]; exact List.nodup_range
  · intro v; rw [hends]
  · intro x hx
    obtain ⟨m1, m2, hne⟩ := Dec.pairUp_mem _ List.nodup_range x hx
    rw [List.mem_range] at m1 m2
    exact clusterEdge_of ns x.1 x.2 m1 m2 hne (fun h => absurd h (hk _ (List.getElem_mem m1)))
      (fun h => absurd h (hk _ (List.getElem_mem m2)))

/-- an odd number of real nodes, the extra node, then an even number (at least two) of corner nodes -/
theorem cluster_pm_extra (A B : List ClNode) (e : ClNode) (hA : ∀ n ∈ A, n.kind ≠ .extra) (he : e.kind = .extra)
    (hB : ∀ n ∈ B, n.kind = .corner) (hAo : A.length % 2 = 1) (hBe : B.length % 2 = 0) (hB2 : 2 ≤ B.length) :
    Dec.isPerfectMatchingOfGraph (List.range (A ++ [e] ++ B).length) (clusterEdges (A ++ [e] ++ B))
      (clusterMatching (A ++ [e] ++ B)) = true := by
  have hlen : (A ++ [e] ++ B).length = A.length + 1 + B.length := by
    simp only [List.length_append, List.length_cons, List.length_nil]
  have hidx : ((A ++ [e] ++ B).findIdx fun n => decide (n.kind = .extra)) = A.length := by
    rw [List.append_assoc, List.findIdx_append]
    have : (A.findIdx fun n => decide (n.kind = .extra)) = A.length := by
      rw [List.findIdx_eq_length]; intro n hn; simpa using hA n hn
    rw [this, if_neg (Nat.lt_irrefl _), List.singleton_append, List.findIdx_cons]; simp [he]
  -- the kinds by index
  have kA : ∀ i (h : i < (A ++ [e] ++ B).length), i < A.length → (A ++ [e] ++ B)[i].kind ≠ .extra := by
    intro i h hi
    rw [List.getElem_append_left (by simp only [List.length_append, List.length_cons, List.length_nil]; omega),
      List.getElem_append_left hi]
    exact hA _ (List.getElem_mem hi)
  have kB : ∀ i (h : i < (A ++ [e] ++ B).length), A.length < i → (A ++ [e] ++ B)[i].kind = .corner := by
    intro i h hi
    rw [List.getElem_append_right (by simp; omega)]
    exact hB _ (List.getElem_mem _)
  have hord : clusterOrder (A ++ [e] ++ B) =
      List.range (A.length - 1) ++ ([A.length - 1, A.length + 1, A.length, A.length + 2] ++
        List.range' (A.length + 3) (B.length - 2)) := by
    unfold clusterOrder
    simp only [hidx, hlen]
    rw [if_pos (by omega), List.append_assoc]
    congr 3
    omega
  unfold clusterMatching
  rw [hord]
  set k := A.length with hk
  set n := (A ++ [e] ++ B).length with hn
  have hlenO : (List.range (k - 1) ++ ([k - 1, k + 1, k, k + 2] ++ List.range' (k + 3) (B.length - 2))).length % 2 = 0 := by
    simp only [List.length_append, List.length_range, List.length_cons, List.length_nil, List.length_range']
    omega
  have hends := Dec.ends_pairUp _ hlenO
  have hmemO : ∀ v, v ∈ (List.range (k - 1) ++ ([k - 1, k + 1, k, k + 2] ++ List.range' (k + 3) (B.length - 2))) ↔
      v < n := by
    intro v
    simp only [List.mem_append, List.mem_range, List.mem_cons, List.not_mem_nil, or_false, List.mem_range'_1]
    omega
  apply pm_of_nodup
  · rw [hends]
    rw [List.nodup_append]
    refine ⟨List.nodup_range, ?_, ?_⟩
    · rw [List.nodup_append]
      refine ⟨by simp; omega, List.nodup_range', ?_⟩
      intro a ha b hb
      simp only [List.mem_cons, List.not_mem_nil, or_false] at ha
      rw [List.mem_range'_1] at hb
      omega
    · intro a ha b hb
      rw [List.mem_range] at ha
      simp only [List.mem_append, List.mem_cons, List.not_mem_nil, or_false, List.mem_range'_1] at hb
      omega
  · intro v; rw [hends, hmemO, List.mem_range]
  · intro x hx
    rw [pairUp_append _ _ (by rw [List.length_range]; omega)] at hx
    have h4 : Dec.pairUp ([k - 1, k + 1, k, k + 2] ++ List.range' (k + 3) (B.length - 2)) =
        [(k - 1, k + 1), (k, k + 2)] ++ Dec.pairUp (List.range' (k + 3) (B.length - 2)) := by
      simp [Dec.pairUp]
    rw [h4] at hx
    simp only [List.mem_append, List.mem_cons, List.not_mem_nil, or_false] at hx
    rcases hx with hx | (rfl | rfl) | hx
    · obtain ⟨m1, m2, hne⟩ := Dec.pairUp_mem _ List.nodup_range x hx
      rw [List.mem_range] at m1 m2
      exact clusterEdge_of _ x.1 x.2 (by omega) (by omega) hne
        (fun h => absurd h (kA _ _ (by omega))) (fun h => absurd h (kA _ _ (by omega)))
    · exact clusterEdge_of _ (k - 1) (k + 1) (by omega) (by omega) (by omega)
        (fun h => absurd h (kA _ _ (by omega))) (fun h => by rw [kB _ _ (by omega)] at h; cases h)
    · exact clusterEdge_of _ k (k + 2) (by omega) (by omega) (by omega)
        (fun _ => kB _ _ (by omega)) (fun h => by rw [kB _ _ (by omega)] at h; cases h)
    · obtain ⟨m1, m2, hne⟩ := Dec.pairUp_mem _ List.nodup_range' x hx
      rw [List.mem_range'_1] at m1 m2
      exact clusterEdge_of _ x.1 x.2 (by omega) (by omega) hne
        (fun h => by rw [kB _ _ (by omega)] at h; cases h) (fun h => by rw [kB _ _ (by omega)] at h; cases h)


/-! ### the node list `_cluster_graph` creates -/

theorem nodesOfCluster_kinds (cl : List TIdx) (ns : List ClNode) (h : nodesOfCluster cl = .ok ns) :
    (∀ n ∈ ns, n.kind = .defective ∨ n.kind = .neutral) ∧ ns.length % 2 = nDefective ns % 2 := by
  unfold nodesOfCluster at h
  split at h
  · cases h
  · cases h; simp [nDefective]
  · cases h; simp [nDefective]
  · cases h; simp [nDefective]

theorem nDefective_append (a b : List ClNode) : nDefective (a ++ b) = nDefective a + nDefective b := by
  unfold nDefective; rw [List.countP_append]

theorem realNodes_kinds : ∀ (cls : List (List TIdx)) (nsr : List ClNode), realNodes cls = .ok nsr →
    (∀ n ∈ nsr, n.kind = .defective ∨ n.kind = .neutral) ∧ nsr.length % 2 = nDefective nsr % 2
  | [], nsr, h => by
    unfold realNodes at h; cases h; simp [nDefective]
  | cl :: cls, nsr, h => by
    unfold realNodes at h
    cases h1 : nodesOfCluster cl with
    | error e => rw [h1] at h; cases h
    | ok ns =>
      rw [h1] at h; simp only at h
      cases h2 : realNodes cls with
      | error e => rw [h2] at h; cases h
      | ok ms =>
        rw [h2] at h; simp only at h
        cases h
        obtain ⟨a1, a2⟩ := nodesOfCluster_kinds cl ns h1
        obtain ⟨b1, b2⟩ := realNodes_kinds cls ms h2
        refine ⟨?_, ?_⟩
        · intro n hn
          rcases List.mem_append.mp hn with hn | hn
          · exact a1 n hn
          · exact b1 n hn
        · rw [List.length_append, nDefective_append]; omega

theorem cornerNodes_kind (R C : Int) (T : Nat) : ∀ n ∈ cornerNodes R C T, n.kind = .corner := by
  intro n hn
  unfold cornerNodes at hn
  simp only [List.mem_flatMap, List.mem_map] at hn
  obtain ⟨_, _, _, _, rfl⟩ := hn
  rfl

theorem cornerNodes_length (R C : Int) (T : Nat) : (cornerNodes R C T).length = 4 * T := by
  unfold cornerNodes cornerIndices
  simp only [List.flatMap_cons, List.flatMap_nil, List.length_append, List.length_map, List.length_range,
    List.length_nil]
  omega

/-- **the cluster graph always has a perfect matching** (at least one time step): whatever clusters are handed over,
    the node list `_cluster_graph` creates is empty, or has an even number of non-extra nodes, or an odd number of
    real nodes, the extra node and `4 T` corners -/
theorem planar_cluster_pm (R C : Int) (T : Nat) (hT : 1 ≤ T) (cls : List (List TIdx)) (ns : List ClNode)
    (h : clusterNodes R C T cls = .ok ns) :
    Dec.isPerfectMatchingOfGraph (List.range ns.length) (clusterEdges ns) (clusterMatching ns) = true := by
  unfold clusterNodes at h
  cases h1 : realNodes cls with
  | error e => rw [h1] at h; cases h
  | ok nsr =>
    rw [h1] at h; simp only at h
    obtain ⟨k1, k2⟩ := realNodes_kinds cls nsr h1
    have hne : ∀ n ∈ nsr, n.kind ≠ .extra := by
      intro n hn he
      rcases k1 n hn with h' | h' <;> rw [he] at h' <;> cases h'
    by_cases h0 : nDefective nsr = 0
    · rw [if_pos h0] at h; cases h
      exact cluster_pm_plain [] (by simp) rfl
    · rw [if_neg h0] at h
      by_cases hodd : nDefective nsr % 2 = 1
      · rw [if_pos hodd] at h; cases h
        exact cluster_pm_extra nsr (cornerNodes R C T) ⟨.extra, (0, 0, 0), (0, 0, 0)⟩ hne rfl
          (cornerNodes_kind R C T) (by omega) (by rw [cornerNodes_length]; omega) (by rw [cornerNodes_length]; omega)
      · rw [if_neg hodd] at h; cases h
        apply cluster_pm_plain
        · intro n hn
          simp only [List.append_nil, List.mem_append] at hn
          rcases hn with hn | hn
          · exact hne n hn
          · rw [cornerNodes_kind R C T n hn]; intro hh; cases hh
        · simp only [List.append_nil, List.length_append, cornerNodes_length]; omega


/-! ## maximum-cardinality matchings (what `networkx.max_weight_matching(maxcardinality=True)` returns: C13) -/

/-- `m` is a matching of the graph: every pair is an edge (either orientation), no vertex is an endpoint twice,
    every endpoint is a node -/
def isMatchingOfGraph {α : Type} [DecidableEq α] (nodes : List α) (edges m : List (α × α)) : Bool :=
  m.all (fun p => Dec.isEdge edges p.1 p.2) &&
  (Dec.ends m).all (fun v => (Dec.ends m).count v == 1) &&
  (Dec.ends m).all (fun v => nodes.contains v)

/-- a matching with at least as many pairs as any other matching of the graph -/
def IsMaxCardinality {α : Type} [DecidableEq α] (nodes : List α) (edges m : List (α × α)) : Prop :=
  isMatchingOfGraph nodes edges m = true ∧
    ∀ m', isMatchingOfGraph nodes edges m' = true → m'.length ≤ m.length

theorem length_ends {α : Type} (m : List (α × α)) : (Dec.ends m).length = 2 * m.length := by
  induction m with
  | nil => rfl
  | cons x l ih =>
    have : Dec.ends (x :: l) = x.1 :: x.2 :: Dec.ends l := by simp [Dec.ends]
    rw [this]; simp only [List.length_cons, ih]; omega

theorem matching_of_perfect {α : Type} [DecidableEq α] (nodes : List α) (edges m : List (α × α))
    (h : Dec.isPerfectMatchingOfGraph nodes edges m = true) : isMatchingOfGraph nodes edges m = true := by
  unfold Dec.isPerfectMatchingOfGraph at h
  unfold isMatchingOfGraph
  simp only [Bool.and_eq_true, List.all_eq_true] at h ⊢
  refine ⟨⟨h.1.1, ?_⟩, h.2⟩
  intro v hv
  exact h.1.2 v (by simpa using h.2 v hv)

/-- **if the graph has a perfect matching, every maximum-cardinality matching is perfect** -/
theorem max_card_perfect {α : Type} [DecidableEq α] (nodes : List α) (edges pm m : List (α × α))
    (hpm : Dec.isPerfectMatchingOfGraph nodes edges pm = true) (hmax : IsMaxCardinality nodes edges m) :
    Dec.isPerfectMatchingOfGraph nodes edges m = true := by
  have hle := hmax.2 pm (matching_of_perfect nodes edges pm hpm)
  have hm := hmax.1
  unfold isMatchingOfGraph at hm
  simp only [Bool.and_eq_true, List.all_eq_true] at hm
  obtain ⟨⟨e1, e2⟩, e3⟩ := hm
  have ndm : (Dec.ends m).Nodup := by
    rw [List.nodup_iff_count_le_one]
    intro v
    by_cases hv : v ∈ Dec.ends m
    · have := e2 v hv; simp only [beq_iff_eq] at this; omega
    · rw [List.count_eq_zero_of_not_mem hv]; omega
  have ndp : (Dec.ends pm).Nodup := by
    rw [List.nodup_iff_count_le_one]
    intro v
    have := Dec.pm_occ_gen _ _ _ hpm v
    unfold Dec.occ at this
    rw [this]; split <;> omega
  have hsub : Dec.ends m ⊆ Dec.ends pm := by
    intro v hv
    have hn : v ∈ nodes := by simpa using e3 v hv
    exact SmwpmL.mem_of_count_eq_one _ _ (Dec.pm_count _ _ _ hpm v hn)
  have hperm : (Dec.ends m).Perm (Dec.ends pm) :=
    (List.subperm_of_subset ndm hsub).perm_of_length_le (by rw [length_ends, length_ends]; omega)
  unfold Dec.isPerfectMatchingOfGraph
  simp only [Bool.and_eq_true, List.all_eq_true]
  refine ⟨⟨e1, ?_⟩, e3⟩
  intro v hv
  rw [hperm.count_eq]
  simpa using Dec.pm_count _ _ _ hpm v hv


/-! ## rotated toric: the symmetry graph -/

namespace T
open Qec.SmwpmL.T

def defectsAt (R C : Int) (rows : List BVec) (t : Nat) : List TIdx :=
  (RotatedToric.syndromeToPlaquettes R C (rows.getD t [])).map (tix t)

def allDefects (R C : Int) (rows : List BVec) : List TIdx := (List.range rows.length).flatMap (defectsAt R C rows)

def usedTimes (R C : Int) (rows : List BVec) (p : Dec.Idx2) : List TIdx :=
  ((List.range rows.length).filter fun t => Toric.isDefect R C rows t p).map fun t => tix t p

/-- the groups of the space-like strategy: one per time step without time-like edges, else a single one -/
def groupsSpace (q01 : Bool) (T : Nat) : List (Option Nat) := if q01 then (List.range T).map some else [none]

def usedSpace (R C : Int) (rows : List BVec) : Option Nat → List TIdx
  | some t => defectsAt R C rows t
  | none => allDefects R C rows

/-- **the explicit matching** of the rotated toric symmetry graph (no virtual nodes): `p = 0` → pair the defects of
    every plaquette along the time axis; otherwise pair the defects in order — within each time step when there are
    no time-like edges, all together otherwise.  The same pairing serves the row and the column nodes. -/
def canonicalMatching (fl : Flags) (R C : Int) (rows : List BVec) : List (Node × Node) :=
  if fl.pZero then
    (RotatedToric.plaquetteIndices R C).flatMap fun p => mk (usedTimes R C rows p) (usedTimes R C rows p) []
  else
    (groupsSpace fl.q01 rows.length).flatMap fun g => mk (usedSpace R C rows g) (usedSpace R C rows g) []

theorem defect_inB (R C : Int) (rows : List BVec) (t : Nat) (p : Dec.Idx2) (hd : Toric.isDefect R C rows t p = true) :
    p ∈ RotatedToric.plaquetteIndices R C ∧ InB R C p := by
  unfold Toric.isDefect at hd
  have hm : p ∈ RotatedToric.syndromeToPlaquettes R C (rows.getD t []) := of_decide_eq_true hd
  have h1 := Pairing.pick_subset (RotatedToric.plaquetteIndices R C) (rows.getD t []) p hm
  have := (RotatedToric.Lem.inBounds_iff R C p.1 p.2).mp ((RotatedToric.Lem.mem_plaquetteIndices R C p).mp h1)
  exact ⟨h1, by unfold InB; omega⟩

theorem mem_defectsAt (R C : Int) (rows : List BVec) (t : Nat) (k : TIdx) :
    k ∈ defectsAt R C rows t ↔ k.1 = (t : Int) ∧ Toric.isDefect R C rows t (sp k) = true := by
  unfold defectsAt Toric.isDefect
  rw [List.mem_map, decide_eq_true_eq]
  constructor
  · rintro ⟨p, hp, rfl⟩
    exact ⟨rfl, hp⟩
  · rintro ⟨h1, h2⟩
    exact ⟨sp k, h2, tix_sp k t h1⟩

theorem defectsAt_nodup (R C : Int) (rows : List BVec) (t : Nat) : (defectsAt R C rows t).Nodup :=
  (Pairing.pick_nodup _ _ (RotatedToric.Lem.nodup_plaquetteIndices R C)).map (tix_inj t)

theorem mem_allDefects (R C : Int) (rows : List BVec) (k : TIdx) :
    k ∈ allDefects R C rows ↔ ∃ t : Nat, t < rows.length ∧ k ∈ defectsAt R C rows t := by
  unfold allDefects; simp only [List.mem_flatMap, List.mem_range]

theorem allDefects_nodup (R C : Int) (rows : List BVec) : (allDefects R C rows).Nodup := by
  unfold allDefects
  rw [List.nodup_flatMap]
  refine ⟨fun t _ => defectsAt_nodup R C rows t, ?_⟩
  apply List.Pairwise.imp _ List.nodup_range
  intro a b hab x hxa hxb
  have h1 := ((mem_defectsAt R C rows a x).mp hxa).1
  have h2 := ((mem_defectsAt R C rows b x).mp hxb).1
  omega

theorem node_iff_defect (R C : Int) (rows : List BVec) (k : TIdx) :
    (∃ t : Nat, t < rows.length ∧ k ∈ defectsAt R C rows t) ↔ SmwpmL.T.IsNode R C rows k := by
  constructor
  · rintro ⟨t, ht, h⟩
    obtain ⟨h1, h2⟩ := (mem_defectsAt R C rows t k).mp h
    exact ⟨(defect_inB R C rows t _ h2).2, t, h1, ht, h2⟩
  · rintro ⟨_, t, h1, ht, h2⟩
    exact ⟨t, ht, (mem_defectsAt R C rows t k).mpr ⟨h1, h2⟩⟩

theorem mem_lineNodes (R C : Int) (rows : List BVec) (byRow : Bool) (line : List Dec.Idx2) (n : Node) :
    n ∈ Toric.lineNodes R C rows byRow line ↔ n.2 = byRow ∧ sp n.1 ∈ line ∧ ∃ t : Nat, n.1.1 = (t : Int) ∧
      t < rows.length ∧ Toric.isDefect R C rows t (sp n.1) = true := by
  unfold Toric.lineNodes
  simp only [List.mem_flatMap, List.mem_filterMap, List.mem_range]
  constructor
  · rintro ⟨xy, hxy, t, ht, hn⟩
    by_cases hc : Toric.isDefect R C rows t xy = true
    · rw [if_pos hc] at hn
      have := Option.some.inj hn
      rw [← this]
      exact ⟨rfl, hxy, t, rfl, ht, hc⟩
    · rw [if_neg hc] at hn; cases hn
  · rintro ⟨ho, hl, t, ht, htl, hc⟩
    refine ⟨sp n.1, hl, t, htl, ?_⟩
    rw [if_pos hc]
    congr 1
    apply Prod.ext
    · apply Prod.ext
      · exact ht.symm
      · rfl
    · exact ho.symm

theorem same_line (R C : Int) (o : Bool) (a b : Dec.Idx2) (ha : InB R C a)
    (hb : InB R C b) (h : if o = true then a.2 = b.2 else a.1 = b.1) :
    ∃ line ∈ Toric.lines R C o, a ∈ line ∧ b ∈ line := by
  unfold InB at ha hb
  unfold Toric.lines
  cases o
  · simp only [Bool.false_eq_true, if_false] at h ⊢
    refine ⟨_, List.mem_map.mpr ⟨a.1.toNat, List.mem_range.mpr (by omega), rfl⟩,
      List.mem_map.mpr ⟨(R - 1 - a.2).toNat, List.mem_range.mpr (by omega), ?_⟩,
      List.mem_map.mpr ⟨(R - 1 - b.2).toNat, List.mem_range.mpr (by omega), ?_⟩⟩
    · apply Prod.ext <;> simp only <;> omega
    · apply Prod.ext <;> simp only <;> omega
  · simp only [if_true] at h ⊢
    refine ⟨_, List.mem_map.mpr ⟨(R - 1 - a.2).toNat, List.mem_range.mpr (by omega), rfl⟩,
      List.mem_map.mpr ⟨a.1.toNat, List.mem_range.mpr (by omega), ?_⟩,
      List.mem_map.mpr ⟨b.1.toNat, List.mem_range.mpr (by omega), ?_⟩⟩
    · apply Prod.ext <;> simp only <;> omega
    · apply Prod.ext <;> simp only <;> omega

theorem edge_same (fl : Flags) (R C : Int) (rows : List BVec) (o : Bool) (a b : TIdx)
    (ha : SmwpmL.T.IsNode R C rows a) (hb : SmwpmL.T.IsNode R C rows b) (hab : a ≠ b)
    (hq : fl.q01 = true → a.1 = b.1) (hp : fl.pZero = true → sp a = sp b)
    (he : fl.etaNone = true → if o = true then a.2.2 = b.2.2 else a.2.1 = b.2.1) :
    ((a, o), (b, o)) ∈ Toric.graphEdges fl R C rows ∨ ((b, o), (a, o)) ∈ Toric.graphEdges fl R C rows := by
  have ok1 := addEdgeOk_of fl o a b hq hp he
  have ok2 := addEdgeOk_of fl o b a (fun h => (hq h).symm) (fun h => (hp h).symm) (fun h => by
    have := he h; split at this <;> simp_all)
  have hne : ((a, o) : Node) ≠ (b, o) := fun h => hab (Prod.mk.inj h).1
  unfold Toric.graphEdges
  by_cases hf : fl.etaNone = true
  · rw [if_pos hf]
    obtain ⟨line, hl, h1, h2⟩ := same_line R C o (sp a) (sp b) ha.1 hb.1 (he hf)
    have m1 : ((a, o) : Node) ∈ Toric.lineNodes R C rows o line :=
      (mem_lineNodes R C rows o line (a, o)).mpr ⟨rfl, h1, ha.2⟩
    have m2 : ((b, o) : Node) ∈ Toric.lineNodes R C rows o line :=
      (mem_lineNodes R C rows o line (b, o)).mpr ⟨rfl, h2, hb.2⟩
    have ho : o ∈ [true, false] := by cases o <;> simp
    rcases Dec.pairsOf_complete _ _ _ m1 m2 hne with h | h
    · exact Or.inl (List.mem_flatMap.mpr ⟨o, ho, List.mem_flatMap.mpr ⟨line, hl, List.mem_filter.mpr ⟨h, ok1⟩⟩⟩)
    · exact Or.inr (List.mem_flatMap.mpr ⟨o, ho, List.mem_flatMap.mpr ⟨line, hl, List.mem_filter.mpr ⟨h, ok2⟩⟩⟩)
  · rw [if_neg hf]
    have m1 : ((a, o) : Node) ∈ Toric.graphNodes R C rows := (SmwpmL.T.mem_graphNodes R C rows (a, o)).mpr ha
    have m2 : ((b, o) : Node) ∈ Toric.graphNodes R C rows := (SmwpmL.T.mem_graphNodes R C rows (b, o)).mpr hb
    rcases Dec.pairsOf_complete _ _ _ m1 m2 hne with h | h
    · exact Or.inl (List.mem_filter.mpr ⟨h, ok1⟩)
    · exact Or.inr (List.mem_filter.mpr ⟨h, ok2⟩)

theorem usedSpace_nodup (R C : Int) (rows : List BVec) (g : Option Nat) : (usedSpace R C rows g).Nodup := by
  cases g with
  | none => exact allDefects_nodup R C rows
  | some t => exact defectsAt_nodup R C rows t

theorem node_iff_space (q : Bool) (R C : Int) (rows : List BVec) (k : TIdx) :
    (∃ g ∈ groupsSpace q rows.length, k ∈ usedSpace R C rows g ∨ k ∈ ([] : List TIdx)) ↔ SmwpmL.T.IsNode R C rows k := by
  rw [← node_iff_defect]
  unfold groupsSpace
  cases q
  · simp only [Bool.false_eq_true, if_false, List.mem_singleton, List.not_mem_nil, or_false, exists_eq_left,
      usedSpace, mem_allDefects]
  · simp only [if_true, List.mem_map, List.mem_range, List.not_mem_nil, or_false]
    constructor
    · rintro ⟨g, ⟨t, ht, rfl⟩, h⟩; exact ⟨t, ht, h⟩
    · rintro ⟨t, ht, h⟩; exact ⟨some t, ⟨t, ht, rfl⟩, h⟩

/-- the space-like strategy on the torus: a perfect matching when every group has an even number of defects -/
theorem canonical_space (fl : Flags) (R C : Int) (rows : List BVec)
    (hp : fl.pZero = false) (he : fl.etaNone = false)
    (hev : ∀ g ∈ groupsSpace fl.q01 rows.length, (usedSpace R C rows g).length % 2 = 0) :
    Dec.isPerfectMatchingOfGraph (Toric.graphNodes R C rows) (Toric.graphEdges fl R C rows)
      (canonicalMatching fl R C rows) = true := by
  unfold canonicalMatching
  rw [hp]; simp only [Bool.false_eq_true, if_false]
  have hgn : (groupsSpace fl.q01 rows.length).Nodup := by
    unfold groupsSpace
    split
    · exact List.nodup_range.map (fun a b h => Option.some.inj h)
    · simp
  have hkey : ∀ g ∈ groupsSpace fl.q01 rows.length, ∀ k,
      k ∈ usedSpace R C rows g ∨ k ∈ ([] : List TIdx) →
        (fun k : TIdx => if fl.q01 = true then some k.1.toNat else none) k = g := by
    intro g hg k hk
    simp only [List.not_mem_nil, or_false] at hk
    unfold groupsSpace at hg
    by_cases hq : fl.q01 = true
    · rw [if_pos hq] at hg
      simp only [if_pos hq]
      obtain ⟨t, _, rfl⟩ := List.mem_map.mp hg
      have := ((mem_defectsAt R C rows t k).mp hk).1
      congr 1; omega
    · rw [if_neg hq, List.mem_singleton] at hg
      simp only [if_neg hq]; exact hg.symm
  obtain ⟨g1, g2⟩ := group_spec (groupsSpace fl.q01 rows.length) hgn
    (fun k : TIdx => if fl.q01 = true then some k.1.toNat else none)
    (usedSpace R C rows) (usedSpace R C rows) (fun _ => [])
    hev hev (fun g _ => usedSpace_nodup R C rows g) (fun g _ => usedSpace_nodup R C rows g)
    (fun _ _ => List.nodup_nil) (fun _ _ _ => Iff.rfl) (fun _ _ _ _ h => by cases h) hkey
  apply pm_of_nodup _ _ _ g1
  · rintro ⟨k, o⟩
    rw [g2, SmwpmL.T.mem_graphNodes R C rows, node_iff_space fl.q01 R C rows k]
  · intro x hx
    rw [List.mem_flatMap] at hx
    obtain ⟨g, hg, hx⟩ := hx
    have hnode : ∀ k, k ∈ usedSpace R C rows g → SmwpmL.T.IsNode R C rows k := fun k hk =>
      (node_iff_space fl.q01 R C rows k).mp ⟨g, hg, Or.inl hk⟩
    have hpair : ∀ (o : Bool), ∀ y ∈ Dec.pairUp (usedSpace R C rows g),
        ((y.1, o), (y.2, o)) ∈ Toric.graphEdges fl R C rows ∨ ((y.2, o), (y.1, o)) ∈ Toric.graphEdges fl R C rows := by
      intro o y hy
      obtain ⟨m1, m2, hne⟩ := Dec.pairUp_mem _ (usedSpace_nodup R C rows g) y hy
      apply edge_same fl R C rows o y.1 y.2 (hnode _ m1) (hnode _ m2) hne
      · intro hq
        have k1 := hkey g hg y.1 (Or.inl m1)
        have k2 := hkey g hg y.2 (Or.inl m2)
        simp only [if_pos hq] at k1 k2
        have := Option.some.inj (k1.trans k2.symm)
        have t1 := (hnode _ m1).2
        have t2 := (hnode _ m2).2
        obtain ⟨t1, e1, _⟩ := t1
        obtain ⟨t2, e2, _⟩ := t2
        omega
      · intro h; rw [hp] at h; cases h
      · intro h; rw [he] at h; cases h
    rcases mem_mk _ _ _ x hx with ⟨y, hy, rfl⟩ | ⟨y, hy, rfl⟩ | ⟨v, hv, _⟩
    · exact hpair true y hy
    · exact hpair false y hy
    · cases hv

theorem mem_usedTimes (R C : Int) (rows : List BVec) (p : Dec.Idx2) (k : TIdx) :
    k ∈ usedTimes R C rows p ↔ ∃ t : Nat, t < rows.length ∧ Toric.isDefect R C rows t p = true ∧ k = tix t p := by
  unfold usedTimes
  simp only [List.mem_map, List.mem_filter, List.mem_range]
  constructor
  · rintro ⟨t, ⟨h1, h2⟩, rfl⟩; exact ⟨t, h1, h2, rfl⟩
  · rintro ⟨t, h1, h2, rfl⟩; exact ⟨t, ⟨h1, h2⟩, rfl⟩

/-- the time-like strategy on the torus -/
theorem canonical_time (fl : Flags) (R C : Int) (rows : List BVec) (hp : fl.pZero = true)
    (hev : ∀ p, ((List.range rows.length).countP fun t => Toric.isDefect R C rows t p) % 2 = 0)
    (hq : fl.q01 = true → ∀ t p, Toric.isDefect R C rows t p = false) :
    Dec.isPerfectMatchingOfGraph (Toric.graphNodes R C rows) (Toric.graphEdges fl R C rows)
      (canonicalMatching fl R C rows) = true := by
  unfold canonicalMatching
  rw [hp]; simp only [if_true]
  have hsp : ∀ p k, k ∈ usedTimes R C rows p → sp k = p := by
    intro p k h
    obtain ⟨t, _, _, rfl⟩ := (mem_usedTimes R C rows p k).mp h; rfl
  have hnd : ∀ p, (usedTimes R C rows p).Nodup := fun p => (List.nodup_range.filter _).map (tix_inj_t p)
  have hevn : ∀ p, (usedTimes R C rows p).length % 2 = 0 := by
    intro p
    unfold usedTimes
    rw [List.length_map, ← List.countP_eq_length_filter]
    exact hev p
  have hnode : ∀ k, (∃ p ∈ RotatedToric.plaquetteIndices R C, k ∈ usedTimes R C rows p ∨ k ∈ ([] : List TIdx)) ↔
      SmwpmL.T.IsNode R C rows k := by
    intro k
    constructor
    · rintro ⟨p, _, h⟩
      simp only [List.not_mem_nil, or_false] at h
      obtain ⟨t, h1, h2, rfl⟩ := (mem_usedTimes R C rows p k).mp h
      exact ⟨(defect_inB R C rows t p h2).2, t, rfl, h1, h2⟩
    · rintro ⟨_, t, h1, ht, h2⟩
      exact ⟨sp k, (defect_inB R C rows t _ h2).1,
        Or.inl ((mem_usedTimes R C rows _ k).mpr ⟨t, ht, h2, (tix_sp k t h1).symm⟩)⟩
  obtain ⟨g1, g2⟩ := group_spec (RotatedToric.plaquetteIndices R C) (RotatedToric.Lem.nodup_plaquetteIndices R C)
    (fun k : TIdx => sp k) (usedTimes R C rows) (usedTimes R C rows) (fun _ => [])
    (fun p _ => hevn p) (fun p _ => hevn p) (fun p _ => hnd p) (fun p _ => hnd p)
    (fun _ _ => List.nodup_nil) (fun _ _ _ => Iff.rfl) (fun _ _ _ _ h => by cases h)
    (fun p _ k h => by
      simp only [List.not_mem_nil, or_false] at h
      exact hsp p k h)
  apply pm_of_nodup _ _ _ g1
  · rintro ⟨k, o⟩
    rw [g2, SmwpmL.T.mem_graphNodes R C rows, hnode]
  · intro x hx
    rw [List.mem_flatMap] at hx
    obtain ⟨p, hpg, hx⟩ := hx
    have hpair : ∀ (o : Bool), ∀ y ∈ Dec.pairUp (usedTimes R C rows p),
        ((y.1, o), (y.2, o)) ∈ Toric.graphEdges fl R C rows ∨ ((y.2, o), (y.1, o)) ∈ Toric.graphEdges fl R C rows := by
      intro o y hy
      obtain ⟨m1, m2, hne⟩ := Dec.pairUp_mem _ (hnd p) y hy
      have e1 := hsp p y.1 m1
      have e2 := hsp p y.2 m2
      apply edge_same fl R C rows o y.1 y.2 ((hnode _).mp ⟨p, hpg, Or.inl m1⟩) ((hnode _).mp ⟨p, hpg, Or.inl m2⟩) hne
      · intro h
        obtain ⟨t, _, hd, _⟩ := (mem_usedTimes R C rows p y.1).mp m1
        rw [hq h t p] at hd; cases hd
      · intro _; rw [e1, e2]
      · intro _
        have e : sp y.1 = sp y.2 := by rw [e1, e2]
        unfold sp at e
        have := Prod.mk.inj e
        split
        · exact this.2
        · exact this.1
    rcases mem_mk _ _ _ x hx with ⟨y, hy, rfl⟩ | ⟨y, hy, rfl⟩ | ⟨v, hv, _⟩
    · exact hpair true y hy
    · exact hpair false y hy
    · cases hv


/-! ### the cluster stage on the torus -/

theorem nodup_of_cnt_le : ∀ (l : List TIdx), (∀ k, cnt l k ≤ 1) → l.Nodup
  | [], _ => List.nodup_nil
  | a :: l, h => by
    have hc : ∀ k, cnt (a :: l) k = (if a = k then 1 else 0) + cnt l k := by
      intro k
      have := cnt_append [a] l k
      rw [cnt_single] at this
      exact this
    rw [List.nodup_cons]
    constructor
    · intro ha
      have h1 := h a
      rw [hc, if_pos rfl] at h1
      have : 0 < cnt l a := List.countP_pos_iff.mpr ⟨a, ha, by simp⟩
      omega
    · apply nodup_of_cnt_le l
      intro k
      have := h k
      rw [hc] at this
      omega

/-- **the clusters partition the defects**: for a perfect matching of the symmetry graph `_clusters` succeeds, all
    clusters are even, and their concatenation is a permutation of the list of all defects -/
theorem flatten_perm (fl : Flags) (R C : Int) (rows : List BVec) (ms : List (Node × Node))
    (hpm : Dec.isPerfectMatchingOfGraph (Toric.graphNodes R C rows) (Toric.graphEdges fl R C rows) ms = true) :
    ∃ cls, clusters ms = .ok cls ∧ (∀ cl ∈ cls, cl.length % 2 = 0) ∧ cls.flatten.Perm (allDefects R C rows) := by
  have F := SmwpmL.T.matchFacts fl R C rows ms hpm
  obtain ⟨row, col, hb, hgood, hcol, hrow⟩ := mates_good ms F.shape F.nodup F.twin
  obtain ⟨cls, hcl, hcnt, heven⟩ := loop_spec (col.length + 1) col row [] hgood (by omega)
  rw [List.nil_append] at hcl
  have hclusters : clusters ms = .ok cls := by unfold clusters; rw [hb]; exact hcl
  refine ⟨cls, hclusters, heven, ?_⟩
  have hkey : ∀ k v, dget col k = some v → SmwpmL.T.IsNode R C rows k := by
    intro k v hd
    have := (hcol k v).mp hd
    have hin : (k, false) ∈ Dec.ends ms := by
      rcases this.2 with h | h
      · exact (mem_ends ms _).mpr ⟨_, h, Or.inl rfl⟩
      · exact (mem_ends ms _).mpr ⟨_, h, Or.inr rfl⟩
    exact (F.node k false).mp hin
  have hle : ∀ k, cnt cls.flatten k ≤ 1 := by
    intro k; rw [hcnt]; unfold ind; split <;> omega
  rw [List.perm_ext_iff_of_nodup (nodup_of_cnt_le _ hle) (allDefects_nodup R C rows)]
  intro k
  rw [mem_allDefects, node_iff_defect]
  constructor
  · intro hk
    have h1 : 0 < cnt cls.flatten k := List.countP_pos_iff.mpr ⟨k, hk, by simp⟩
    rw [hcnt] at h1
    unfold ind at h1
    cases hd : dget col k with
    | none => rw [hd] at h1; simp at h1
    | some v => exact hkey k v hd
  · intro hnode
    have hin := (F.node k false).mpr hnode
    obtain ⟨m, hm, hmk⟩ := (mem_ends ms _).mp hin
    have hnt := F.noTwin m hm
    have hor : m.1.2 = m.2.2 := by
      rcases F.shape m hm with h | h
      · exact h
      · exact absurd h hnt
    have : ∃ v, P ms false k v := by
      rcases hmk with h | h
      · refine ⟨m.2.1, ?_, Or.inl ?_⟩
        · intro hh; apply hnt; rw [← h]; exact hh
        · have e2 : m.2 = (m.2.1, false) := by
            have : m.2.2 = false := by rw [← hor, ← h]
            rw [← this]
          rw [← e2, h]; exact hm
      · refine ⟨m.1.1, ?_, Or.inr ?_⟩
        · intro hh; apply hnt; rw [← h]; exact hh.symm
        · have e1 : m.1 = (m.1.1, false) := by
            have : m.1.2 = false := by rw [hor, ← h]
            rw [← this]
          rw [← e1, h]; exact hm
    obtain ⟨v, hv⟩ := this
    have h1 : cnt cls.flatten k = 1 := by
      rw [hcnt]; unfold ind; rw [(hcol _ v).mpr hv]; rfl
    have : 0 < cnt cls.flatten k := by omega
    obtain ⟨x, hx, hxe⟩ := List.countP_pos_iff.mp this
    have : x = k := by simpa using hxe
    rw [← this]; exact hx

/-- a cluster gives a defective node exactly when it holds an odd number of X-type indices -/
theorem nodesOfCluster_parity (cl : List TIdx) (ns : List ClNode) (h : nodesOfCluster cl = .ok ns) :
    nDefective ns % 2 = (cl.filter isX).length % 2 := by
  unfold nodesOfCluster at h
  cases hs : splitCluster cl with
  | error e => rw [hs] at h; cases h
  | ok r =>
    have hs0 := hs
    unfold splitCluster at hs
    simp only at hs
    split at hs
    · cases hs
    · split at hs
      · rename_i hodd
        split at hs
        · cases hs
          rw [hs0] at h; simp only at h
          cases h
          simp [nDefective]; omega
        · cases hs
      · rename_i hev
        cases hs
        rw [hs0] at h
        have : nDefective ns = 0 := by
          split at h
          · cases h
          · rename_i heq; cases heq
          · cases h; simp [nDefective]
          · cases h; simp [nDefective]
        omega

theorem realNodes_parity : ∀ (cls : List (List TIdx)) (nsr : List ClNode), realNodes cls = .ok nsr →
    nDefective nsr % 2 = (cls.flatten.filter isX).length % 2
  | [], nsr, h => by
    unfold realNodes at h; cases h; simp [nDefective]
  | cl :: cls, nsr, h => by
    unfold realNodes at h
    cases h1 : nodesOfCluster cl with
    | error e => rw [h1] at h; cases h
    | ok ns =>
      rw [h1] at h; simp only at h
      cases h2 : realNodes cls with
      | error e => rw [h2] at h; cases h
      | ok ms =>
        rw [h2] at h; simp only at h
        cases h
        have a := nodesOfCluster_parity cl ns h1
        have b := realNodes_parity cls ms h2
        rw [nDefective_append, List.flatten_cons, List.filter_append, List.length_append]
        omega

/-- every pair of cluster nodes is an edge on the torus: an even number of nodes can be paired up in order -/
theorem cluster_pm (ns : List ClNode) (hk : ∀ n ∈ ns, n.kind ≠ .extra) (hev : ns.length % 2 = 0) :
    Dec.isPerfectMatchingOfGraph (List.range ns.length) (Toric.clusterEdges ns) (clusterMatching ns) = true := by
  have hidx : (ns.findIdx fun n => decide (n.kind = .extra)) = ns.length := by
    rw [List.findIdx_eq_length]
    intro n hn; simpa using hk n hn
  have hord : clusterOrder ns = List.range ns.length := by
    unfold clusterOrder; simp only [hidx, Nat.lt_irrefl, if_false]
  unfold clusterMatching
  rw [hord]
  have hends := Dec.ends_pairUp (List.range ns.length) (by rw [List.length_range]; exact hev)
  apply pm_of_nodup
  · rw [hends]; exact List.nodup_range
  · intro v; rw [hends]
  · intro x hx
    obtain ⟨m1, m2, hne⟩ := Dec.pairUp_mem _ List.nodup_range x hx
    exact Dec.pairsOf_complete _ _ _ m1 m2 hne

/-- **the cluster graph of the torus exists and has a perfect matching** whenever the clusters are even and hold an
    even number of X-type indices in total -/
theorem toric_cluster_pm (cls : List (List TIdx)) (heven : ∀ cl ∈ cls, cl.length % 2 = 0)
    (hx : (cls.flatten.filter isX).length % 2 = 0) :
    ∃ ns, Toric.clusterNodes cls = .ok ns ∧
      Dec.isPerfectMatchingOfGraph (List.range ns.length) (Toric.clusterEdges ns) (clusterMatching ns) = true := by
  obtain ⟨_, nsr, _, _, hnsr, _, _, _, _, _⟩ := clusters_spec cls heven
  obtain ⟨k1, k2⟩ := realNodes_kinds cls nsr hnsr
  have hpar := realNodes_parity cls nsr hnsr
  unfold Toric.clusterNodes
  rw [hnsr]; simp only
  by_cases h0 : nDefective nsr = 0
  · rw [if_pos h0]
    exact ⟨[], rfl, cluster_pm [] (by simp) rfl⟩
  · rw [if_neg h0, if_neg (by omega)]
    refine ⟨nsr, rfl, cluster_pm nsr ?_ (by omega)⟩
    intro n hn he
    rcases k1 n hn with h' | h' <;> rw [he] at h' <;> cases h'


/-! ### the number of X-type defects: parity is additive under XOR of rows -/

def isXp (p : Dec.Idx2) : Bool := RotatedPlanar.isXPlaquette p.1 p.2

/-- number of selected (e.g. X-type) defects of a syndrome row -/
def wX (sel : Dec.Idx2 → Bool) (plaqs : List Dec.Idx2) (r : BVec) : Nat := ((Pairing.pick plaqs r).filter sel).length

theorem pick_cons (p : Dec.Idx2) (ps : List Dec.Idx2) (x : Bool) (a : BVec) :
    Pairing.pick (p :: ps) (x :: a) = if x then p :: Pairing.pick ps a else Pairing.pick ps a := by
  cases x <;> simp [Pairing.pick]

theorem pick_nil_right (ps : List Dec.Idx2) : Pairing.pick ps [] = [] := by
  cases ps <;> simp [Pairing.pick]

theorem wX_xor (sel : Dec.Idx2 → Bool) : ∀ (plaqs : List Dec.Idx2) (a b : BVec), a.length = plaqs.length → b.length = plaqs.length →
    wX sel plaqs (xorV a b) % 2 = (wX sel plaqs a + wX sel plaqs b) % 2
  | [], a, b, _, _ => by simp [wX, Pairing.pick]
  | p :: ps, [], _, h, _ => by simp at h
  | p :: ps, _ :: _, [], _, h => by simp at h
  | p :: ps, x :: a, y :: b, ha, hb => by
    have ih := wX_xor sel ps a b (by simpa using ha) (by simpa using hb)
    have e : xorV (x :: a) (y :: b) = (x ^^ y) :: xorV a b := by simp [xorV]
    unfold wX at ih ⊢
    rw [e, pick_cons, pick_cons, pick_cons]
    cases x <;> cases y <;> cases hp : sel p <;> (try simp [List.filter_cons, hp]) <;> omega

theorem wX_zeros (sel : Dec.Idx2 → Bool) : ∀ (plaqs : List Dec.Idx2) (n : Nat), wX sel plaqs (zeros n) = 0
  | [], _ => by simp [wX, Pairing.pick]
  | p :: ps, 0 => by simp [wX, zeros, pick_nil_right]
  | p :: ps, n + 1 => by
    have ih := wX_zeros sel ps n
    have e : zeros (n + 1) = false :: zeros n := by simp [zeros, List.replicate_succ]
    unfold wX at ih ⊢
    rw [e, pick_cons]; simpa using ih

theorem wX_foldl (sel : Dec.Idx2 → Bool) (plaqs : List Dec.Idx2) : ∀ (rows : List BVec) (acc : BVec), acc.length = plaqs.length →
    (∀ r ∈ rows, r.length = plaqs.length) →
    wX sel plaqs (rows.foldl xorV acc) % 2 = (wX sel plaqs acc + (rows.map (wX sel plaqs)).sum) % 2
  | [], acc, _, _ => by simp
  | r :: rows, acc, ha, hr => by
    have hl : (xorV acc r).length = plaqs.length := by
      rw [xorV_length _ _ (by rw [ha, hr r (by simp)]), ha]
    have ih := wX_foldl sel plaqs rows (xorV acc r) hl (fun r' h' => hr r' (by simp [h']))
    have hx := wX_xor sel plaqs acc r ha (hr r (by simp))
    rw [List.foldl_cons, ih, List.map_cons, List.sum_cons]
    omega

theorem filter_flatMap_length {α β : Type} (f : α → List β) (q : β → Bool) : ∀ (L : List α),
    ((L.flatMap f).filter q).length = (L.map fun t => ((f t).filter q).length).sum
  | [] => rfl
  | a :: L => by
    rw [List.flatMap_cons, List.filter_append, List.length_append, List.map_cons, List.sum_cons,
      filter_flatMap_length f q L]

theorem defectsAt_wX (sel : Dec.Idx2 → Bool) (R C : Int) (rows : List BVec) (t : Nat) :
    ((defectsAt R C rows t).filter fun k => sel (sp k)).length = wX sel (RotatedToric.plaquetteIndices R C) (rows.getD t []) := by
  unfold defectsAt wX
  rw [List.filter_map, List.length_map]
  rfl

/-- the number of X-type defects of all rows has the parity of the number of X-type defects of their XOR -/
theorem allDefects_wX (sel : Dec.Idx2 → Bool) (R C : Int) (rows : List BVec)
    (hrows : ∀ r ∈ rows, r.length = (RotatedToric.plaquetteIndices R C).length) :
    ((allDefects R C rows).filter fun k => sel (sp k)).length % 2 =
      wX sel (RotatedToric.plaquetteIndices R C) (xorAll (RotatedToric.plaquetteIndices R C).length rows) % 2 := by
  unfold allDefects xorAll
  rw [filter_flatMap_length, wX_foldl sel _ rows _ (by simp [zeros]) hrows, wX_zeros sel, Nat.zero_add]
  congr 2
  have : (List.range rows.length).map (fun t => ((defectsAt R C rows t).filter fun k => sel (sp k)).length) =
      ((List.range rows.length).map fun t => rows.getD t []).map (wX sel (RotatedToric.plaquetteIndices R C)) := by
    rw [List.map_map]
    apply List.map_congr_left
    intro t _
    exact defectsAt_wX sel R C rows t
  rw [this, Qec.map_getD_range]


/-! ### the syndrome of an error has an even number of X-type defects when the X-type generators XOR to zero -/

theorem pick_map (g : Dec.Idx2 → Bool) : ∀ (plaqs : List Dec.Idx2), Pairing.pick plaqs (plaqs.map g) = plaqs.filter g
  | [] => by simp [Pairing.pick]
  | p :: ps => by
    rw [List.map_cons, pick_cons, pick_map g ps, List.filter_cons]

/-- linearity of `bsp`: the parity of the number of selected generators anticommuting with `e` is `bsp` of `e` with
    their XOR -/
theorem count_bsp_parity (sel : Dec.Idx2 → Bool) (m : Nat) (e : BVec) (f : Dec.Idx2 → BVec) : ∀ (plaqs : List Dec.Idx2),
    (∀ p ∈ plaqs, (f p).length = m) →
    (plaqs.countP fun p => sel p && bsp e (f p)) % 2 =
      (if bsp e (xorAll m ((plaqs.filter sel).map f)) = true then 1 else 0)
  | [], _ => by
    have : xorAll m [] = zeros m := rfl
    simp [this, Symp.bsp_zeros_right]
  | p :: ps, hf => by
    have ih := count_bsp_parity sel m e f ps (fun q hq => hf q (by simp [hq]))
    have hl : (xorAll m ((ps.filter sel).map f)).length = m := by
      apply Ftp.xorAll_length
      intro r hr
      obtain ⟨q, hq, rfl⟩ := List.mem_map.mp hr
      exact hf q (by simp [(List.mem_filter.mp hq).1])
    rw [List.countP_cons, List.filter_cons]
    cases hp : sel p
    · simp only [Bool.false_and, Bool.false_eq_true, if_false, Nat.add_zero]
      exact ih
    · simp only [Bool.true_and, if_true, List.map_cons]
      rw [Dec.xorAll_cons, Symp.bsp_xorV_right _ _ _ (by rw [hl, hf p (by simp)])]
      cases h1 : bsp e (f p) <;> cases h2 : bsp e (xorAll m ((ps.filter sel).map f)) <;>
        rw [h2] at ih <;> simp at ih ⊢ <;> omega

/-- if the X-type generators XOR to zero, every syndrome has an even number of X-type defects -/
theorem wX_synd_even (sel : Dec.Idx2 → Bool) (m : Nat) (plaqs : List Dec.Idx2) (f : Dec.Idx2 → BVec) (hf : ∀ p ∈ plaqs, (f p).length = m)
    (hdep : xorAll m ((plaqs.filter sel).map f) = zeros m) (e : BVec) :
    wX sel plaqs (synd (plaqs.map f) e) % 2 = 0 := by
  have h := count_bsp_parity sel m e f plaqs hf
  rw [hdep, Symp.bsp_zeros_right] at h
  unfold wX synd
  rw [List.map_map]
  have e1 : ((fun row => bsp e row) ∘ f) = fun p => bsp e (f p) := rfl
  rw [e1, pick_map, List.filter_filter, ← List.countP_eq_length_filter]
  simpa using h

end T

end Qec.SmwpmX
