/-
  Helper lemmas for C17 (Model/Stream.lean): the inverse-CDF index, cumulative sums, list
  bookkeeping for `draws` / `toBsf`, and the unrolling of the run loop.
-/
import QecVerif.Model.Stream
import Mathlib.Algebra.Order.Ring.Rat
import Mathlib.Algebra.Field.Rat
import Mathlib.Algebra.Order.Field.Basic
import Mathlib.Algebra.BigOperators.Group.List.Basic
import Mathlib.Tactic.Linarith

namespace Qec.Stream

/-! ### cumulative sums -/

theorem cumsumFrom_length (acc : Rat) (ps : List Rat) : (cumsumFrom acc ps).length = ps.length := by
  induction ps generalizing acc with
  | nil => rfl
  | cons p ps ih => simp [cumsumFrom, ih]

theorem cumsumFrom_getLastD (acc d : Rat) (p : Rat) (ps : List Rat) :
    (cumsumFrom acc (p :: ps)).getLastD d = acc + (p :: ps).sum := by
  induction ps generalizing acc p with
  | nil => simp [cumsumFrom]
  | cons p' ps ih =>
      have := ih (acc + p) p'
      simp only [cumsumFrom, List.getLastD_cons, List.sum_cons] at this ⊢
      rw [this]; linarith

theorem sum_nonneg' {ps : List Rat} (h : ∀ x ∈ ps, 0 ≤ x) : 0 ≤ ps.sum := by
  induction ps with
  | nil => simp
  | cons p ps ih =>
      have h1 := h p List.mem_cons_self
      have h2 := ih (fun x hx => h x (List.mem_cons_of_mem _ hx))
      simp only [List.sum_cons]; linarith

theorem sum_take_nonneg {ps : List Rat} (h : ∀ x ∈ ps, 0 ≤ x) (k : Nat) : 0 ≤ (ps.take k).sum :=
  sum_nonneg' (fun x hx => h x (List.mem_of_mem_take hx))

/-- the exact cdf of a distribution that sums to 1 is its cumulative sum -/
theorem cdfOf_eq_cumsum {dist : List Rat} (hs : dist.sum = 1) : cdfOf dist = cumsum dist := by
  cases dist with
  | nil => rfl
  | cons p ps =>
      simp only [cdfOf, cumsum]
      rw [cumsumFrom_getLastD, hs]
      simp

/-! ### the inverse-CDF index -/

theorem choiceIdx_le_length (cdf : List Rat) (u : Rat) : choiceIdx cdf u ≤ cdf.length := by
  induction cdf with
  | nil => simp [choiceIdx]
  | cons c cs ih =>
      simp only [choiceIdx]
      split
      · simp
      · simp; exact ih

/-- dividing all thresholds by `S > 0` is the same as scaling the uniform by `S` -/
theorem choiceIdx_map_div (cdf : List Rat) (u S : Rat) (hS : 0 < S) :
    choiceIdx (cdf.map (· / S)) u = choiceIdx cdf (u * S) := by
  induction cdf with
  | nil => rfl
  | cons c cs ih =>
      simp only [List.map_cons, choiceIdx, ih]
      have : u < c / S ↔ u * S < c := lt_div_iff₀ hS
      by_cases h : u < c / S
      · rw [if_pos h, if_pos (this.mp h)]
      · rw [if_neg h, if_neg (fun h' => h (this.mpr h'))]

/-- **interval characterisation of the index on cumulative sums**: with non-negative weights and
    `acc ≤ u`, the index is `k` exactly when `u` lies in `[acc + Σ_{j<k} p_j, acc + Σ_{j≤k} p_j)`
    (the upper bound is dropped when `k` is the length: index past the end) -/
theorem choiceIdx_cumsumFrom_eq_iff (ps : List Rat) (hnn : ∀ x ∈ ps, 0 ≤ x) (acc u : Rat) (hacc : acc ≤ u)
    (k : Nat) :
    choiceIdx (cumsumFrom acc ps) u = k ↔
      k ≤ ps.length ∧ acc + (ps.take k).sum ≤ u ∧ (k < ps.length → u < acc + (ps.take (k + 1)).sum) := by
  induction ps generalizing acc k with
  | nil =>
      simp only [cumsumFrom, choiceIdx, List.length_nil, List.take_nil, List.sum_nil]
      constructor
      · intro h; subst h; refine ⟨le_refl _, by linarith, fun h => absurd h (by omega)⟩
      · intro h; omega
  | cons p ps ih =>
      have hp : 0 ≤ p := hnn p (List.mem_cons_self)
      have hnn' : ∀ x ∈ ps, 0 ≤ x := fun x hx => hnn x (List.mem_cons_of_mem _ hx)
      simp only [cumsumFrom, choiceIdx]
      by_cases hlt : u < acc + p
      · rw [if_pos hlt]
        cases k with
        | zero =>
            simp only [List.take_zero, List.sum_nil, List.length_cons, true_iff]
            refine ⟨by omega, by linarith, fun _ => ?_⟩
            simp; linarith
        | succ k =>
            constructor
            · intro h; omega
            · rintro ⟨_, h2, _⟩
              have := sum_take_nonneg hnn' k
              simp only [List.take_succ_cons, List.sum_cons] at h2
              linarith
      · rw [if_neg hlt]
        have hle : acc + p ≤ u := not_lt.mp hlt
        cases k with
        | zero =>
            constructor
            · intro h; omega
            · rintro ⟨_, _, h3⟩
              have := h3 (by simp)
              simp at this
              linarith
        | succ k =>
            have := ih hnn' (acc + p) hle k
            simp only [List.take_succ_cons, List.sum_cons, List.length_cons, Nat.add_lt_add_iff_right,
              Nat.add_le_add_iff_right, Nat.add_right_cancel_iff]
            rw [this]
            constructor
            · rintro ⟨h1, h2, h3⟩
              exact ⟨h1, by linarith, fun hk => by have := h3 hk; linarith⟩
            · rintro ⟨h1, h2, h3⟩
              exact ⟨h1, by linarith, fun hk => by have := h3 hk; linarith⟩

/-- `choiceIdx` is numpy's count form `#{j | cdf j ≤ u}` on a non-decreasing cdf -/
theorem choiceIdx_eq_countP (cdf : List Rat) (hs : cdf.Pairwise (· ≤ ·)) (u : Rat) :
    choiceIdx cdf u = cdf.countP (· ≤ u) := by
  induction cdf with
  | nil => rfl
  | cons c cs ih =>
      have hs' := (List.pairwise_cons.mp hs)
      simp only [choiceIdx, List.countP_cons]
      by_cases h : u < c
      · rw [if_pos h]
        have hc : ¬ c ≤ u := not_le.mpr h
        have : cs.countP (· ≤ u) = 0 := by
          rw [List.countP_eq_zero]
          intro x hx
          have := hs'.1 x hx
          simp only [decide_eq_true_eq, not_le]
          linarith
        simp [hc, this]
      · rw [if_neg h]
        have hc : c ≤ u := not_lt.mp h
        simp [hc, ih hs'.2]

/-! ### list bookkeeping -/

theorem draws_length (s : UStream) (pos k : Nat) : (draws s pos k).length = k := by
  simp [draws]

theorem draws_getElem? (s : UStream) (pos k i : Nat) (h : i < k) : (draws s pos k)[i]? = some (s (pos + i)) := by
  simp [draws, h]

theorem draws_congr (s s' : UStream) (pos pos' k : Nat) (h : ∀ i, i < k → s (pos + i) = s' (pos' + i)) :
    draws s pos k = draws s' pos' k := by
  unfold draws
  apply List.map_congr_left
  intro i hi
  exact h i (List.mem_range.mp hi)

theorem toBsf_length (p : PStr) : (toBsf p).length = 2 * p.length := by
  simp [toBsf]; omega

theorem toBsf_getElem?_x (p : PStr) (i : Nat) (h : i < p.length) :
    (toBsf p)[i]? = (p[i]?).map P1.xBit := by
  simp [toBsf, List.getElem?_append_left, h]

theorem toBsf_getElem?_z (p : PStr) (i : Nat) (h : i < p.length) :
    (toBsf p)[p.length + i]? = (p[i]?).map P1.zBit := by
  simp [toBsf, h]

theorem generatePauli_length (n : Nat) (cdf : List Rat) (s : UStream) (pos : Nat) :
    (generatePauli n cdf s pos).length = n := by
  simp [generatePauli, draws_length]

theorem generatePauli_getElem? (n : Nat) (cdf : List Rat) (s : UStream) (pos i : Nat) (h : i < n) :
    (generatePauli n cdf s pos)[i]? = some (pauliOf cdf (s (pos + i))) := by
  simp [generatePauli, draws_getElem? s pos n i h]

/-! ### run loop -/

/-- uniforms one step consumes: `n` for the error, `m` more for the flips unless `q = 0` -/
def stepLen (n m : Nat) (q : Rat) : Nat := n + (if q = 0 then 0 else m)

theorem measFlips_pos (m : Nat) (q : Rat) (cdfM : List Rat) (s : UStream) (pos : Nat) :
    (measFlips m q cdfM s pos).2 = pos + (if q = 0 then 0 else m) := by
  unfold measFlips; split <;> simp

theorem runSteps_spec (n m : Nat) (cdfE : List Rat) (q : Rat) (cdfM : List Rat) (s : UStream) (T pos : Nat) :
    runSteps n m cdfE q cdfM s T pos =
      ((List.range T).map fun t =>
          (generate n cdfE s (pos + t * stepLen n m q),
           (measFlips m q cdfM s (pos + t * stepLen n m q + n)).1),
       pos + T * stepLen n m q) := by
  induction T generalizing pos with
  | zero => simp [runSteps]
  | succ T ih =>
      simp only [runSteps]
      rw [ih, measFlips_pos]
      rw [List.range_succ_eq_map]
      simp only [List.map_cons, List.map_map, Nat.zero_mul, Nat.add_zero]
      refine Prod.ext ?_ ?_
      · simp only
        congr 1
        apply List.map_congr_left
        intro t _
        simp only [Function.comp, stepLen]
        have e : pos + n + (if q = 0 then 0 else m) + t * (n + if q = 0 then 0 else m)
            = pos + (t + 1) * (n + if q = 0 then 0 else m) := by
          rw [Nat.succ_mul]; omega
        rw [e]
      · simp only [stepLen]
        rw [Nat.succ_mul]; omega

theorem runMany_spec (n m : Nat) (cdfE : List Rat) (q : Rat) (cdfM : List Rat) (s : UStream) (T R pos : Nat) :
    runMany n m cdfE q cdfM s T R pos =
      ((List.range R).map fun r => (runSteps n m cdfE q cdfM s T (pos + r * (T * stepLen n m q))).1,
       pos + R * (T * stepLen n m q)) := by
  induction R generalizing pos with
  | zero => simp [runMany]
  | succ R ih =>
      simp only [runMany]
      rw [ih]
      rw [List.range_succ_eq_map]
      simp only [List.map_cons, List.map_map, Nat.zero_mul, Nat.add_zero]
      have hp : (runSteps n m cdfE q cdfM s T pos).2 = pos + T * stepLen n m q := by
        rw [runSteps_spec]
      refine Prod.ext ?_ ?_
      · simp only
        congr 1
        apply List.map_congr_left
        intro r _
        simp only [Function.comp]
        rw [hp]
        have e : pos + T * stepLen n m q + r * (T * stepLen n m q) = pos + (r + 1) * (T * stepLen n m q) := by
          rw [Nat.succ_mul]; omega
        rw [e]
      · simp only
        rw [hp, Nat.succ_mul]; omega

/-! ### the alphabet -/

/-- position of a Pauli in the alphabet `('I','X','Y','Z')` handed to `rng.choice` -/
def letterIdx : P1 → Nat | .I => 0 | .X => 1 | .Y => 2 | .Z => 3

theorem pauliOfIdx_eq_iff (k : Nat) (hk : k < 4) (P : P1) : pauliOfIdx k = P ↔ k = letterIdx P := by
  have : k = 0 ∨ k = 1 ∨ k = 2 ∨ k = 3 := by omega
  rcases this with h | h | h | h <;> subst h <;> cases P <;> simp [pauliOfIdx, letters, letterIdx]

theorem letterIdx_lt (P : P1) : letterIdx P < 4 := by cases P <;> simp [letterIdx]

theorem sum_take_succ' (l : List Rat) (k : Nat) (h : k < l.length) :
    (l.take (k + 1)).sum = (l.take k).sum + l.getD k 0 := by
  induction l generalizing k with
  | nil => simp at h
  | cons a l ih =>
      cases k with
      | zero => simp
      | succ k =>
          have := ih k (by simpa using h)
          simp only [List.take_succ_cons, List.sum_cons, List.getD_cons_succ] at this ⊢
          rw [this]; linarith

theorem take_length_sum (l : List Rat) : (l.take l.length).sum = l.sum := by simp

end Qec.Stream
