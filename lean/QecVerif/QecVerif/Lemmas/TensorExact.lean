/-
  Helper lemmas for property C11: the brute-force `exactValue` (sum over all bond-index assignments of the product
  of entries) equals the scalar of the merged grid tensor `gridT`.

  Part 1: sums over assignments of finitely many variables (`sumV`), with Fubini (`sumV_perm`), factoring
          (`sumV_mul_left/right`) and the merged-index identity (`sum_enc`).
  Part 2: state-sum formula for a column ladder and for the grid tensor.
  Part 3: the executable `exactValue` as a `sumV`.
-/
import QecVerif.Lemmas.TensorBridge
import Mathlib.Logic.Function.Basic

namespace Qec.TensorExact
open Finset Qec.TensorAlg
set_option linter.unusedSectionVars false

variable {R : Type*} [CommSemiring R] {ι : Type*} [DecidableEq ι]

/-! ### Part 1: sums over assignments -/

/-- sum of `F` over all assignments obtained from `τ` by giving every variable `b` of the list (in turn) a value
    below `dim b` -/
def sumV (dim : ι → ℕ) : List ι → ((ι → ℕ) → R) → (ι → ℕ) → R
  | [], F, τ => F τ
  | b :: l, F, τ => ∑ x ∈ range (dim b), sumV dim l F (Function.update τ b x)

theorem sumV_append (dim : ι → ℕ) (l1 l2 : List ι) (F : (ι → ℕ) → R) (τ : ι → ℕ) :
    sumV dim (l1 ++ l2) F τ = sumV dim l1 (sumV dim l2 F) τ := by
  induction l1 generalizing τ with
  | nil => rfl
  | cons b l ih => simp only [List.cons_append, sumV, ih]

/-- congruence under an invariant `P` preserved by in-range updates of the listed variables -/
theorem sumV_congr (dim : ι → ℕ) (P : (ι → ℕ) → Prop) (l : List ι) (F G : (ι → ℕ) → R) (τ : ι → ℕ)
    (hP : P τ) (hstep : ∀ t b x, b ∈ l → x < dim b → P t → P (Function.update t b x))
    (h : ∀ t, P t → F t = G t) : sumV dim l F τ = sumV dim l G τ := by
  induction l generalizing τ with
  | nil => exact h τ hP
  | cons b l ih =>
    simp only [sumV]
    apply sum_congr rfl
    intro x hx
    exact ih _ (hstep τ b x (List.mem_cons_self ..) (mem_range.mp hx) hP)
      (fun t c y hc hy ht => hstep t c y (List.mem_cons_of_mem _ hc) hy ht)

theorem sumV_congr' (dim : ι → ℕ) (l : List ι) (F G : (ι → ℕ) → R) (τ : ι → ℕ) (h : ∀ t, F t = G t) :
    sumV dim l F τ = sumV dim l G τ := by
  have : F = G := funext h
  rw [this]

/-- `F` does not depend on the variables in `l` -/
def Indep (F : (ι → ℕ) → R) (l : List ι) : Prop := ∀ t b x, b ∈ l → F (Function.update t b x) = F t

theorem Indep.mono {F : (ι → ℕ) → R} {l l' : List ι} (h : Indep F l) (hs : ∀ b ∈ l', b ∈ l) : Indep F l' :=
  fun t b x hb => h t b x (hs b hb)

theorem sumV_swap (dim : ι → ℕ) (a b : ι) (hab : a ≠ b) (l : List ι) (F : (ι → ℕ) → R) (τ : ι → ℕ) :
    sumV dim (a :: b :: l) F τ = sumV dim (b :: a :: l) F τ := by
  simp only [sumV]
  rw [sum_comm]
  apply sum_congr rfl; intro y _; apply sum_congr rfl; intro x _
  rw [Function.update_comm hab]

/-- **Fubini**: the order of the (distinct) variables is irrelevant -/
theorem sumV_perm (dim : ι → ℕ) {l1 l2 : List ι} (hp : l1.Perm l2) (hn : l1.Nodup) (F : (ι → ℕ) → R)
    (τ : ι → ℕ) : sumV dim l1 F τ = sumV dim l2 F τ := by
  induction hp generalizing τ with
  | nil => rfl
  | cons a _ ih =>
    simp only [sumV]
    apply sum_congr rfl; intro x _
    exact ih (List.nodup_cons.mp hn).2 _
  | swap a b l =>
    apply sumV_swap
    intro h
    have := (List.nodup_cons.mp hn).1
    simp [h] at this
  | trans h1 _ ih1 ih2 => rw [ih1 hn, ih2 ((h1.nodup_iff).mp hn)]

/-- the sum over `l` of a function that ignores `l'` ignores `l'` -/
theorem sumV_indep (dim : ι → ℕ) (l l' : List ι) (F : (ι → ℕ) → R) (h : Indep F l') :
    Indep (sumV dim l F) l' := by
  induction l with
  | nil => exact h
  | cons a l ih =>
    intro t b x hb
    simp only [sumV]
    apply sum_congr rfl; intro y _
    by_cases hab : a = b
    · subst hab; rw [Function.update_idem]
    · rw [Function.update_comm (Ne.symm hab)]; exact ih _ b x hb

theorem sumV_mul_left (dim : ι → ℕ) (l : List ι) (A B : (ι → ℕ) → R) (hA : Indep A l) (τ : ι → ℕ) :
    sumV dim l (fun t => A t * B t) τ = A τ * sumV dim l B τ := by
  induction l generalizing τ with
  | nil => rfl
  | cons b l ih =>
    simp only [sumV]
    rw [mul_sum]
    apply sum_congr rfl; intro x _
    rw [ih (hA.mono fun c hc => List.mem_cons_of_mem _ hc), hA τ b x (List.mem_cons_self ..)]

theorem sumV_mul_right (dim : ι → ℕ) (l : List ι) (A B : (ι → ℕ) → R) (hB : Indep B l) (τ : ι → ℕ) :
    sumV dim l (fun t => A t * B t) τ = sumV dim l A τ * B τ := by
  rw [sumV_congr' dim l _ (fun t => B t * A t) τ (fun t => mul_comm _ _), sumV_mul_left dim l B A hB, mul_comm]

/-- product of two sums over disjoint variable sets, each summand ignoring the other's variables -/
theorem sumV_mul_sumV (dim : ι → ℕ) (lA lB : List ι) (A B : (ι → ℕ) → R) (hA : Indep A lB) (hB : Indep B lA)
    (τ : ι → ℕ) :
    sumV dim lA A τ * sumV dim lB B τ = sumV dim (lA ++ lB) (fun t => A t * B t) τ := by
  rw [sumV_append, ← sumV_mul_right dim lA A (sumV dim lB B) (sumV_indep dim lB lA B hB)]
  apply sumV_congr'
  intro t
  rw [sumV_mul_left dim lB A B hA]

/-- variables of dimension 1 on which the base assignment is 0 can be dropped -/
theorem sumV_drop_unit (dim : ι → ℕ) (l1 l2 : List ι) (F : (ι → ℕ) → R) (τ : ι → ℕ)
    (h1 : ∀ b ∈ l1, dim b = 1) (h0 : ∀ b ∈ l1, τ b = 0) : sumV dim (l1 ++ l2) F τ = sumV dim l2 F τ := by
  induction l1 with
  | nil => rfl
  | cons b l ih =>
    simp only [List.cons_append, sumV, h1 b (List.mem_cons_self ..), range_one, sum_singleton]
    have : Function.update τ b 0 = τ := by
      rw [← h0 b (List.mem_cons_self ..)]; exact Function.update_eq_self b τ
    rw [this]
    exact ih (fun c hc => h1 c (List.mem_cons_of_mem _ hc)) (fun c hc => h0 c (List.mem_cons_of_mem _ hc))

theorem indep_prod (l : List ι) (s : Finset ℕ) (f : ℕ → (ι → ℕ) → R) (h : ∀ i ∈ s, Indep (f i) l) :
    Indep (fun t => ∏ i ∈ s, f i t) l := by
  intro t b x hb
  apply prod_congr rfl
  intro i hi
  exact h i hi t b x hb

/-! merged (row-major) index of the variables `v 0, …, v k` with radices `d 0, …, d k` -/

/-- `Π_{r ≤ k} d r`, nested as the model nests it -/
def mprod (d : ℕ → ℕ) : ℕ → ℕ
  | 0 => d 0
  | k + 1 => mprod d k * d (k + 1)

/-- row-major encoding of `x 0, …, x k` -/
def enc (d : ℕ → ℕ) (x : ℕ → ℕ) : ℕ → ℕ
  | 0 => x 0
  | k + 1 => enc d x k * d (k + 1) + x (k + 1)

theorem enc_congr (d x y : ℕ → ℕ) (k : ℕ) (h : ∀ r ≤ k, x r = y r) : enc d x k = enc d y k := by
  induction k with
  | zero => exact h 0 (le_refl _)
  | succ k ih => simp only [enc]; rw [ih (fun r hr => h r (by omega)), h (k + 1) (le_refl _)]

theorem enc_zero (d x : ℕ → ℕ) (k : ℕ) (h : ∀ r ≤ k, x r = 0) : enc d x k = 0 := by
  induction k with
  | zero => exact h 0 (le_refl _)
  | succ k ih => simp only [enc]; rw [ih (fun r hr => h r (by omega)), h (k + 1) (le_refl _)]; simp

theorem mprod_one (d : ℕ → ℕ) (k : ℕ) (h : ∀ r ≤ k, d r = 1) : mprod d k = 1 := by
  induction k with
  | zero => exact h 0 (le_refl _)
  | succ k ih => simp only [mprod]; rw [ih (fun r hr => h r (by omega)), h (k + 1) (le_refl _)]

theorem sum_merge' (a b : ℕ) (H : ℕ → R) :
    ∑ i ∈ range (a * b), H i = ∑ x ∈ range a, ∑ y ∈ range b, H (x * b + y) := by
  rw [← sum_merge a b (fun x y => H (x * b + y))]
  apply sum_congr rfl
  intro i _
  rw [Nat.div_add_mod']

/-- the list `[v 0, …, v k]` -/
def vlist (v : ℕ → ι) (k : ℕ) : List ι := (List.range (k + 1)).map v

theorem vlist_succ (v : ℕ → ι) (k : ℕ) : vlist v (k + 1) = vlist v k ++ [v (k + 1)] := by
  unfold vlist; rw [List.range_succ, List.map_append]; rfl

theorem mem_vlist (v : ℕ → ι) (k : ℕ) (b : ι) : b ∈ vlist v k ↔ ∃ r ≤ k, b = v r := by
  unfold vlist
  simp only [List.mem_map, List.mem_range]
  constructor
  · rintro ⟨r, hr, rfl⟩; exact ⟨r, by omega, rfl⟩
  · rintro ⟨r, hr, rfl⟩; exact ⟨r, by omega, rfl⟩

theorem vlist_nodup (v : ℕ → ι) (hv : Function.Injective v) (k : ℕ) : (vlist v k).Nodup :=
  List.Nodup.map hv List.nodup_range

/-- **merged index**: a sum over the merged index of `k+1` bonds is the sum over the bond-index tuples -/
theorem sum_enc (dim : ι → ℕ) (v : ℕ → ι) (hv : Function.Injective v) (k : ℕ) (H : ℕ → R) (τ : ι → ℕ) :
    ∑ x ∈ range (mprod (fun r => dim (v r)) k), H x
      = sumV dim (vlist v k) (fun t => H (enc (fun r => dim (v r)) (fun r => t (v r)) k)) τ := by
  induction k generalizing H τ with
  | zero =>
    simp only [mprod, vlist, Nat.zero_add, List.range_one, List.map_cons, List.map_nil, sumV, enc,
      Function.update_self]
  | succ k ih =>
    rw [vlist_succ, sumV_append, mprod, sum_merge', ih]
    apply sumV_congr'
    intro t
    simp only [sumV, enc, Function.update_self]
    apply sum_congr rfl
    intro y _
    congr 3
    apply enc_congr
    intro r hr
    rw [Function.update_of_ne]
    intro h
    have := hv h
    omega

/-- congruence on the assignments actually visited: listed variables in range, the others as in the base -/
theorem sumV_congr_mem (dim : ι → ℕ) (l : List ι) (F G : (ι → ℕ) → R) (τ : ι → ℕ)
    (h : ∀ t, (∀ b ∈ l, t b < dim b) → (∀ b, b ∉ l → t b = τ b) → F t = G t) :
    sumV dim l F τ = sumV dim l G τ := by
  induction l generalizing τ with
  | nil => exact h τ (fun _ hb => by simp at hb) (fun _ _ => rfl)
  | cons b l ih =>
    simp only [sumV]
    apply sum_congr rfl
    intro x hx
    apply ih
    intro t h1 h2
    apply h t
    · intro c hc
      rcases List.mem_cons.mp hc with rfl | hc
      · by_cases hcl : c ∈ l
        · exact h1 c hcl
        · rw [h2 c hcl, Function.update_self]; exact mem_range.mp hx
      · exact h1 c hc
    · intro c hc
      have hcl : c ∉ l := fun hh => hc (List.mem_cons_of_mem _ hh)
      have hcb : c ≠ b := fun hh => hc (hh ▸ List.mem_cons_self ..)
      rw [h2 c hcl, Function.update_of_ne hcb]

theorem enc_congr_d (d d' x : ℕ → ℕ) (k : ℕ) (h : ∀ r ≤ k, d r = d' r) : enc d x k = enc d' x k := by
  induction k with
  | zero => rfl
  | succ k ih => simp only [enc]; rw [ih (fun r hr => h r (by omega)), h (k + 1) (le_refl _)]

theorem mprod_congr (d d' : ℕ → ℕ) (k : ℕ) (h : ∀ r ≤ k, d r = d' r) : mprod d k = mprod d' k := by
  induction k with
  | zero => exact h 0 (le_refl _)
  | succ k ih => simp only [mprod]; rw [ih (fun r hr => h r (by omega)), h (k + 1) (le_refl _)]

/-! ### Part 2: state-sum formula for a column ladder and for the grid tensor -/

/-- bond variables: `h r c` is the horizontal bond WEST of cell `(r, c)` (so `h r (c+1)` is its east bond),
    `v r c` the vertical bond NORTH of cell `(r, c)` (so `v (r+1) c` is its south bond) -/
inductive Bond where
  | h (r c : ℕ)
  | v (r c : ℕ)
deriving DecidableEq

open Bond

/-- dimension of a bond variable in the grid `g` -/
def bdim (g : ℕ → ℕ → F4 R) : Bond → ℕ
  | h r 0 => (g r 0).w
  | h r (c + 1) => (g r c).e
  | v 0 c => (g 0 c).n
  | v (r + 1) c => (g r c).s

/-- weight of cell `(r, c)` under the assignment `t` -/
def cw (g : ℕ → ℕ → F4 R) (t : Bond → ℕ) (r c : ℕ) : R :=
  (g r c).f (t (v r c)) (t (h r (c + 1))) (t (v (r + 1) c)) (t (h r c))

theorem cw_update (g : ℕ → ℕ → F4 R) (t : Bond → ℕ) (r c : ℕ) (b : Bond) (x : ℕ)
    (h1 : b ≠ v r c) (h2 : b ≠ h r (c + 1)) (h3 : b ≠ v (r + 1) c) (h4 : b ≠ h r c) :
    cw g (Function.update t b x) r c = cw g t r c := by
  unfold cw
  rw [Function.update_of_ne h1.symm, Function.update_of_ne h2.symm, Function.update_of_ne h3.symm,
    Function.update_of_ne h4.symm]

/-- the ladder-contracted column `c` (rows `0..m`) -/
def colT (g : ℕ → ℕ → F4 R) (m c : ℕ) : F4 R := ladderCol (gcol g m c)

theorem colT_zero (g : ℕ → ℕ → F4 R) (c : ℕ) : colT g 0 c = g 0 c := rfl

theorem colT_succ (g : ℕ → ℕ → F4 R) (m c : ℕ) : colT g (m + 1) c = vcomp (colT g m c) (g (m + 1) c) := by
  unfold colT ladderCol ladder gcol
  simp only
  rw [List.range_succ, List.map_append, List.foldl_append]
  rfl

theorem gridT_zero (g : ℕ → ℕ → F4 R) (m : ℕ) : gridT g m 0 = colT g m 0 := rfl

theorem gridT_succ (g : ℕ → ℕ → F4 R) (m n : ℕ) :
    gridT g m (n + 1) = hcomp (gridT g m n) (colT g m (n + 1)) := by
  unfold gridT colT
  rw [List.range'_concat, List.map_append, List.foldl_append, Nat.one_mul, Nat.add_comm 1 n]
  rfl

theorem colT_n (g : ℕ → ℕ → F4 R) (m c : ℕ) : (colT g m c).n = (g 0 c).n := by
  induction m with
  | zero => rfl
  | succ m ih => rw [colT_succ]; exact ih

theorem colT_s (g : ℕ → ℕ → F4 R) (m c : ℕ) : (colT g m c).s = (g m c).s := by
  cases m with
  | zero => rfl
  | succ m => rw [colT_succ]; rfl

theorem colT_e (g : ℕ → ℕ → F4 R) (m c : ℕ) : (colT g m c).e = mprod (fun r => (g r c).e) m := by
  induction m with
  | zero => rfl
  | succ m ih => rw [colT_succ]; show (colT g m c).e * _ = _; rw [ih]; rfl

theorem colT_w (g : ℕ → ℕ → F4 R) (m c : ℕ) : (colT g m c).w = mprod (fun r => (g r c).w) m := by
  induction m with
  | zero => rfl
  | succ m ih => rw [colT_succ]; show (colT g m c).w * _ = _; rw [ih]; rfl

theorem gridT_e (g : ℕ → ℕ → F4 R) (m n : ℕ) : (gridT g m n).e = (colT g m n).e := by
  cases n with
  | zero => rfl
  | succ n => rw [gridT_succ]; rfl

theorem gridT_w (g : ℕ → ℕ → F4 R) (m n : ℕ) : (gridT g m n).w = (colT g m 0).w := by
  induction n with
  | zero => rfl
  | succ n ih => rw [gridT_succ]; exact ih

theorem gridT_n (g : ℕ → ℕ → F4 R) (m n : ℕ) : (gridT g m n).n = mprod (fun c => (g 0 c).n) n := by
  induction n with
  | zero => exact colT_n g m 0
  | succ n ih => rw [gridT_succ]; show (gridT g m n).n * (colT g m (n + 1)).n = _; rw [ih, colT_n]; rfl

theorem gridT_s (g : ℕ → ℕ → F4 R) (m n : ℕ) : (gridT g m n).s = mprod (fun c => (g m c).s) n := by
  induction n with
  | zero => exact colT_s g m 0
  | succ n ih => rw [gridT_succ]; show (gridT g m n).s * (colT g m (n + 1)).s = _; rw [ih, colT_s]; rfl

/-- the interior vertical bonds of column `c`: `v m c, …, v 1 c` -/
def vcol : ℕ → ℕ → List Bond
  | 0, _ => []
  | m + 1, c => v (m + 1) c :: vcol m c

theorem mem_vcol (m c : ℕ) (b : Bond) : b ∈ vcol m c ↔ ∃ r, 1 ≤ r ∧ r ≤ m ∧ b = v r c := by
  induction m with
  | zero => simp only [vcol, List.not_mem_nil, false_iff]; rintro ⟨r, h1, h2, _⟩; omega
  | succ m ih =>
    simp only [vcol, List.mem_cons, ih]
    constructor
    · rintro (rfl | ⟨r, h1, h2, rfl⟩)
      · exact ⟨m + 1, by omega, by omega, rfl⟩
      · exact ⟨r, h1, by omega, rfl⟩
    · rintro ⟨r, h1, h2, rfl⟩
      by_cases hr : r = m + 1
      · left; rw [hr]
      · right; exact ⟨r, h1, by omega, rfl⟩

theorem decode_div (a d x : ℕ) (hx : x < d) : (a * d + x) / d = a := by
  rw [Nat.mul_comm, Nat.mul_add_div (by omega), Nat.div_eq_of_lt hx, Nat.add_zero]

theorem decode_mod (a d x : ℕ) (hx : x < d) : (a * d + x) % d = x := by
  rw [Nat.mul_comm, Nat.mul_add_mod, Nat.mod_eq_of_lt hx]

/-- **column formula**: an entry of the ladder-contracted column is the sum over its interior vertical bonds of the
    product of the cell weights -/
theorem col_formula (g : ℕ → ℕ → F4 R) (c m : ℕ) (t : Bond → ℕ)
    (he : ∀ r ≤ m, t (h r (c + 1)) < (g r c).e) (hw : ∀ r ≤ m, t (h r c) < (g r c).w) :
    (colT g m c).f (t (v 0 c)) (enc (fun r => (g r c).e) (fun r => t (h r (c + 1))) m) (t (v (m + 1) c))
        (enc (fun r => (g r c).w) (fun r => t (h r c)) m)
      = sumV (bdim g) (vcol m c) (fun t' => ∏ r ∈ range (m + 1), cw g t' r c) t := by
  induction m generalizing t with
  | zero => simp [colT_zero, enc, vcol, sumV, cw]
  | succ m ih =>
    rw [colT_succ]
    show ∑ x ∈ range (colT g m c).s, _ = _
    simp only [enc, vcol, sumV]
    rw [colT_s]
    show _ = ∑ x ∈ range (g m c).s, _
    apply sum_congr rfl
    intro x _
    rw [decode_div _ _ _ (he (m + 1) (le_refl _)), decode_mod _ _ _ (he (m + 1) (le_refl _)),
      decode_div _ _ _ (hw (m + 1) (le_refl _)), decode_mod _ _ _ (hw (m + 1) (le_refl _))]
    have hind : Indep (fun t' : Bond → ℕ => cw g t' (m + 1) c) (vcol m c) := by
      intro t' b y hb
      obtain ⟨r, h1, h2, rfl⟩ := (mem_vcol m c b).mp hb
      apply cw_update
      · intro hh; injection hh; omega
      · intro hh; injection hh
      · intro hh; injection hh; omega
      · intro hh; injection hh
    rw [sumV_congr' (bdim g) (vcol m c) _ (fun t' => (∏ r ∈ range (m + 1), cw g t' r c) * cw g t' (m + 1) c) _
      (fun t' => prod_range_succ _ _), sumV_mul_right (bdim g) (vcol m c) _ _ hind]
    have hne1 : ∀ r c', (h r c' : Bond) ≠ v (m + 1) c := fun r c' hh => by injection hh
    rw [← ih (Function.update t (v (m + 1) c) x)
      (fun r hr => by rw [Function.update_of_ne (hne1 _ _)]; exact he r (by omega))
      (fun r hr => by rw [Function.update_of_ne (hne1 _ _)]; exact hw r (by omega))]
    have hv0 : (v 0 c : Bond) ≠ v (m + 1) c := fun hh => by injection hh; omega
    have hv2 : (v (m + 1 + 1) c : Bond) ≠ v (m + 1) c := fun hh => by injection hh; omega
    simp only [cw, Function.update_self, Function.update_of_ne (hne1 _ _), Function.update_of_ne hv0,
      Function.update_of_ne hv2]

/-- the summed bonds of the grid with columns `0..n`: horizontal bonds between columns and the interior vertical
    bonds -/
def gvars (m : ℕ) : ℕ → List Bond
  | 0 => vcol m 0
  | n + 1 => vlist (fun r => h r (n + 1)) m ++ (gvars m n ++ vcol m (n + 1))

theorem mem_gvars (m n : ℕ) (b : Bond) :
    b ∈ gvars m n ↔ (∃ r c, r ≤ m ∧ 1 ≤ c ∧ c ≤ n ∧ b = h r c) ∨ (∃ r c, 1 ≤ r ∧ r ≤ m ∧ c ≤ n ∧ b = v r c) := by
  induction n with
  | zero =>
    simp only [gvars, mem_vcol]
    constructor
    · rintro ⟨r, h1, h2, rfl⟩; exact Or.inr ⟨r, 0, h1, h2, le_refl _, rfl⟩
    · rintro (⟨r, c, _, h1, h2, _⟩ | ⟨r, c, h1, h2, h3, rfl⟩)
      · omega
      · obtain rfl : c = 0 := by omega
        exact ⟨r, h1, h2, rfl⟩
  | succ n ih =>
    simp only [gvars, List.mem_append, mem_vlist, ih, mem_vcol]
    constructor
    · rintro (⟨r, h1, rfl⟩ | (⟨r, c, h1, h2, h3, rfl⟩ | ⟨r, c, h1, h2, h3, rfl⟩) | ⟨r, h1, h2, rfl⟩)
      · exact Or.inl ⟨r, n + 1, h1, by omega, le_refl _, rfl⟩
      · exact Or.inl ⟨r, c, h1, h2, by omega, rfl⟩
      · exact Or.inr ⟨r, c, h1, h2, by omega, rfl⟩
      · exact Or.inr ⟨r, n + 1, h1, h2, le_refl _, rfl⟩
    · rintro (⟨r, c, h1, h2, h3, rfl⟩ | ⟨r, c, h1, h2, h3, rfl⟩)
      · by_cases hc : c = n + 1
        · subst hc; exact Or.inl ⟨r, h1, rfl⟩
        · exact Or.inr (Or.inl (Or.inl ⟨r, c, h1, h2, by omega, rfl⟩))
      · by_cases hc : c = n + 1
        · subst hc; exact Or.inr (Or.inr ⟨r, h1, h2, rfl⟩)
        · exact Or.inr (Or.inl (Or.inr ⟨r, c, h1, h2, by omega, rfl⟩))

theorem h_inj (c : ℕ) : Function.Injective (fun r => h r c) := fun a b hh => by injection hh

/-- **grid formula**: the entry of the merged grid tensor at top = bottom = west = 0 and a given east assignment is
    the sum over all summed bonds of the product of all cell weights -/
theorem grid_formula {g : ℕ → ℕ → F4 R} {m : ℕ} (n : ℕ) (hok : GridOK g m n) (t : Bond → ℕ)
    (htop : ∀ c ≤ n, t (v 0 c) = 0) (hbot : ∀ c ≤ n, t (v (m + 1) c) = 0)
    (hwest : ∀ r ≤ m, t (h r 0) = 0) (hwd : ∀ r ≤ m, 0 < (g r 0).w)
    (heast : ∀ r ≤ m, t (h r (n + 1)) < (g r n).e) :
    (gridT g m n).f 0 (enc (fun r => (g r n).e) (fun r => t (h r (n + 1))) m) 0 0
      = sumV (bdim g) (gvars m n) (fun t' => ∏ c ∈ range (n + 1), ∏ r ∈ range (m + 1), cw g t' r c) t := by
  induction n generalizing t with
  | zero =>
    rw [gridT_zero]
    have := col_formula g 0 m t heast (fun r hr => by rw [hwest r hr]; exact hwd r hr)
    rw [htop 0 (le_refl _), hbot 0 (le_refl _),
      enc_zero (fun r => (g r 0).w) (fun r => t (h r 0)) m hwest] at this
    rw [this]
    simp only [gvars, Nat.zero_add, range_one, prod_singleton]
  | succ n ih =>
    have hok' : GridOK g m n :=
      ⟨fun r c hr hc => hok.vert r c hr (by omega), fun r c hr hc => hok.horiz r c hr (by omega)⟩
    rw [gridT_succ]
    show ∑ x ∈ range (gridT g m n).e, _ = _
    simp only [Nat.zero_div, Nat.zero_mod]
    rw [gridT_e, colT_e]
    have hse := sum_enc (R := R) (bdim g) (fun r => h r (n + 1)) (h_inj (n + 1)) m
    simp only [bdim] at hse
    rw [hse _ t, gvars, sumV_append]
    apply sumV_congr_mem
    intro t' hin hout
    have hnot : ∀ b, (∀ r, b ≠ h r (n + 1)) → t' b = t b := by
      intro b hb
      apply hout
      rw [mem_vlist]
      rintro ⟨r, _, rfl⟩
      exact hb r rfl
    have hin' : ∀ r ≤ m, t' (h r (n + 1)) < (g r n).e := by
      intro r hr
      exact hin (h r (n + 1)) ((mem_vlist _ _ _).mpr ⟨r, hr, rfl⟩)
    have hv : ∀ r c, t' (v r c) = t (v r c) := fun r c => hnot _ (fun r' hh => by injection hh)
    have hh' : ∀ r c, c ≠ n + 1 → t' (h r c) = t (h r c) :=
      fun r c hc => hnot _ (fun r' hh => by injection hh; omega)
    rw [ih hok' t' (fun c hc => by rw [hv]; exact htop c (by omega)) (fun c hc => by rw [hv]; exact hbot c (by omega))
      (fun r hr => by rw [hh' r 0 (by omega)]; exact hwest r hr) hin']
    have hcol := col_formula g (n + 1) m t'
      (fun r hr => by rw [hh' r (n + 1 + 1) (by omega)]; exact heast r hr)
      (fun r hr => by rw [← hok.horiz r n hr (by omega)]; exact hin' r hr)
    rw [hv, hv, htop (n + 1) (le_refl _), hbot (n + 1) (le_refl _)] at hcol
    rw [enc_congr_d (fun r => (g r n).e) (fun r => (g r (n + 1)).w) _ m (fun r hr => hok.horiz r n hr (by omega)),
      enc_congr (fun r => (g r (n + 1)).e) (fun r => t (h r (n + 1 + 1))) (fun r => t' (h r (n + 1 + 1))) m
        (fun r _ => (hh' r (n + 1 + 1) (by omega)).symm), hcol]
    rw [sumV_mul_sumV]
    · apply sumV_congr'
      intro t''
      rw [prod_range_succ _ (n + 1)]
    · apply indep_prod
      intro c hc
      apply indep_prod
      intro r _
      intro t'' b y hb
      obtain ⟨r', h1, h2, rfl⟩ := (mem_vcol m (n + 1) b).mp hb
      have := mem_range.mp hc
      apply cw_update
      · intro hh; injection hh; omega
      · intro hh; injection hh
      · intro hh; injection hh; omega
      · intro hh; injection hh
    · apply indep_prod
      intro r _
      intro t'' b y hb
      rcases (mem_gvars m n b).mp hb with ⟨r', c', h1, h2, h3, rfl⟩ | ⟨r', c', h1, h2, h3, rfl⟩
      · apply cw_update
        · intro hh; injection hh
        · intro hh; injection hh; omega
        · intro hh; injection hh
        · intro hh; injection hh; omega
      · apply cw_update
        · intro hh; injection hh; omega
        · intro hh; injection hh
        · intro hh; injection hh; omega
        · intro hh; injection hh

theorem vcol_nodup (m c : ℕ) : (vcol m c).Nodup := by
  induction m with
  | zero => exact List.nodup_nil
  | succ m ih =>
    refine List.nodup_cons.mpr ⟨?_, ih⟩
    rw [mem_vcol]
    rintro ⟨r, _, h2, hh⟩
    injection hh; omega

theorem gvars_nodup (m n : ℕ) : (gvars m n).Nodup := by
  induction n with
  | zero => exact vcol_nodup m 0
  | succ n ih =>
    refine List.nodup_append.mpr ⟨vlist_nodup _ (h_inj (n + 1)) m, List.nodup_append.mpr ⟨ih, vcol_nodup m (n + 1), ?_⟩, ?_⟩
    · intro a ha b hb
      obtain ⟨r', h1, h2, rfl⟩ := (mem_vcol m (n + 1) b).mp hb
      rcases (mem_gvars m n a).mp ha with ⟨r, c, _, _, _, rfl⟩ | ⟨r, c, _, _, h3, rfl⟩
      · intro hh; injection hh
      · intro hh; injection hh; omega
    · intro a ha b hb
      obtain ⟨r, _, rfl⟩ := (mem_vlist _ m a).mp ha
      rcases List.mem_append.mp hb with hb | hb
      · rcases (mem_gvars m n b).mp hb with ⟨r', c, _, _, _, rfl⟩ | ⟨r', c, _, _, h3, rfl⟩
        · intro hh; injection hh; omega
        · intro hh; injection hh
      · obtain ⟨r', h1, h2, rfl⟩ := (mem_vcol m (n + 1) b).mp hb
        intro hh; injection hh

/-! ### Part 3: the mixed-radix enumeration of the executable `exactValue` -/

theorem foldl_add_eq_sum (N : ℕ) (f : ℕ → ℤ) :
    (List.range N).foldl (fun acc a => acc + f a) 0 = ∑ a ∈ range N, f a := by
  induction N with
  | zero => rfl
  | succ N ih => rw [List.range_succ, List.foldl_append, ih, sum_range_succ]; rfl

theorem prodRange_eq_prod (n : ℕ) (f : ℕ → ℤ) : Qec.Tensor.prodRange n f = ∏ i ∈ range n, f i := by
  induction n with
  | zero => rfl
  | succ n ih => rw [Qec.Tensor.prodRange, ih, prod_range_succ]

/-- product of the radices, nested for `sum_merge` -/
def radProd : List ℕ → ℕ
  | [] => 1
  | d :: ds => radProd ds * d

theorem foldl_mul (l : List ℕ) (a : ℕ) : l.foldl (· * ·) a = a * radProd l := by
  induction l generalizing a with
  | nil => simp [radProd]
  | cons d ds ih => simp only [List.foldl_cons, radProd]; rw [ih]; ring

/-- nested sum over digit lists, first digit outermost -/
def sumL : List ℕ → (List ℕ → R) → R
  | [], F => F []
  | d :: ds, F => ∑ x ∈ range d, sumL ds (fun l => F (x :: l))

/-- the mixed-radix enumeration visits every digit list exactly once -/
theorem sum_digits (rad : List ℕ) (F : List ℕ → R) :
    ∑ a ∈ range (radProd rad), F (Qec.Tensor.digits rad a) = sumL rad F := by
  induction rad generalizing F with
  | nil => simp [radProd, Qec.Tensor.digits, sumL]
  | cons d ds ih =>
    simp only [radProd, Qec.Tensor.digits, sumL]
    rw [sum_merge (radProd ds) d (fun x y => F (y :: Qec.Tensor.digits ds x)), sum_comm]
    apply sum_congr rfl
    intro y _
    exact ih (fun l => F (y :: l))

/-- digit lists as assignments of distinct variables -/
theorem sumL_eq_sumV (dim : ι → ℕ) (vs : List ι) (hn : vs.Nodup) (F : List ℕ → R) (τ : ι → ℕ) :
    sumL (vs.map dim) F = sumV dim vs (fun t => F (vs.map t)) τ := by
  induction vs generalizing F τ with
  | nil => rfl
  | cons b l ih =>
    obtain ⟨hb, hl⟩ := List.nodup_cons.mp hn
    simp only [List.map_cons, sumL, sumV]
    apply sum_congr rfl
    intro x _
    rw [ih hl _ (Function.update τ b x)]
    apply sumV_congr_mem
    intro t _ h2
    rw [h2 b hb, Function.update_self]

theorem getD_pairs {α : Type*} (l : List α) (F G : α → ℕ) (i : ℕ) (hi : i < l.length) :
    (l.flatMap fun p => [F p, G p]).getD (2 * i) 0 = F l[i] ∧
    (l.flatMap fun p => [F p, G p]).getD (2 * i + 1) 0 = G l[i] := by
  induction l generalizing i with
  | nil => simp at hi
  | cons a l ih =>
    cases i with
    | zero => simp
    | succ i =>
      have := ih i (by simpa using hi)
      simp only [List.flatMap_cons, List.cons_append, List.nil_append, show 2 * (i + 1) = 2 * i + 1 + 1 by ring,
        List.getD_cons_succ, List.getElem_cons_succ]
      exact this

theorem getD_pairs_range (K : ℕ) (F G : ℕ → ℕ) (p : ℕ) (hp : p < K) :
    ((List.range K).flatMap fun p => [F p, G p]).getD (2 * p) 0 = F p ∧
    ((List.range K).flatMap fun p => [F p, G p]).getD (2 * p + 1) 0 = G p := by
  have := getD_pairs (List.range K) F G p (by simpa using hp)
  simpa using this

theorem nodup_pairs {α : Type*} (l : List ℕ) (hl : l.Nodup) (F G : ℕ → α) (hF : Function.Injective F)
    (hG : Function.Injective G) (hFG : ∀ p q, F p ≠ G q) : (l.flatMap fun p => [F p, G p]).Nodup := by
  induction l with
  | nil => exact List.nodup_nil
  | cons a l ih =>
    obtain ⟨ha, hl'⟩ := List.nodup_cons.mp hl
    simp only [List.flatMap_cons, List.cons_append, List.nil_append, List.nodup_cons, List.mem_cons,
      List.mem_flatMap, List.not_mem_nil, or_false, not_or, not_exists, not_and]
    refine ⟨⟨hFG a a, fun q hq => ⟨fun hh => ha (hF hh ▸ hq), hFG a q⟩⟩,
      fun q hq => ⟨fun hh => hFG q a hh.symm, fun hh => ha (hG hh ▸ hq)⟩, ih hl'⟩

theorem prod_merge (a b : ℕ) (f : ℕ → ℕ → R) :
    ∏ i ∈ range (a * b), f (i / b) (i % b) = ∏ x ∈ range a, ∏ y ∈ range b, f x y := by
  induction a with
  | zero => simp
  | succ a ih =>
    rw [Nat.succ_mul, prod_range_add, prod_range_succ, ih]
    congr 1
    apply prod_congr rfl
    intro y hy
    have hb : 0 < b := Nat.pos_of_ne_zero (by rintro rfl; simp at hy)
    have hy' : y < b := mem_range.mp hy
    rw [Nat.add_comm (a * b) y, Nat.add_mul_div_right _ _ hb, Nat.add_mul_mod_self_right,
      Nat.div_eq_of_lt hy', Nat.mod_eq_of_lt hy', Nat.zero_add]

open Qec.Tensor Qec.TensorBridge

/-- the function-level grid of a model network (`None` ↦ the scalar tensor 1, as in `exactValue`) -/
def netF (tn : Net) : ℕ → ℕ → F4 ℤ := fun r c => toF (siteT (tn.site r c))

/-- the bond variables in the order in which `radices` enumerates them: cell by cell (row-major), east then south -/
def rmList (m n : ℕ) : List Bond :=
  (List.range ((m + 1) * (n + 1))).flatMap fun p =>
    [h (p / (n + 1)) (p % (n + 1) + 1), v (p / (n + 1) + 1) (p % (n + 1))]

theorem site_div_mod (tn : Net) (C p : ℕ) (hC : tn.ncols = C) : tn.site (p / C) (p % C) = tn.a.getD p none := by
  subst hC
  unfold Net.site
  rw [Nat.div_add_mod']

theorem radices_eq (tn : Net) (m n : ℕ) (hr : tn.nrows = m + 1) (hc : tn.ncols = n + 1) :
    radices tn = (rmList m n).map (bdim (netF tn)) := by
  unfold radices rmList
  rw [List.map_flatMap, hr, hc]
  congr 1
  funext p
  simp only [List.map_cons, List.map_nil, bdim, netF, toF, site_div_mod tn (n + 1) p hc]

theorem pq_inj (C : ℕ) {p q : ℕ} (h1 : p / C = q / C) (h2 : p % C = q % C) : p = q := by
  rw [← Nat.div_add_mod' p C, ← Nat.div_add_mod' q C, h1, h2]

theorem rmList_nodup (m n : ℕ) : (rmList m n).Nodup := by
  apply nodup_pairs _ List.nodup_range
  · intro p q hh
    injection hh with h1 h2
    exact pq_inj (n + 1) h1 (by omega)
  · intro p q hh
    injection hh with h1 h2
    exact pq_inj (n + 1) (by omega) h2
  · intro p q hh
    injection hh

theorem mem_rmList (m n : ℕ) (b : Bond) :
    b ∈ rmList m n ↔ (∃ r c, r ≤ m ∧ c ≤ n ∧ b = h r (c + 1)) ∨ (∃ r c, r ≤ m ∧ c ≤ n ∧ b = v (r + 1) c) := by
  unfold rmList
  simp only [List.mem_flatMap, List.mem_range, List.mem_cons, List.not_mem_nil, or_false]
  constructor
  · rintro ⟨p, hp, rfl | rfl⟩
    · obtain ⟨h1, h2⟩ := div_mod_lt p _ _ hp
      exact Or.inl ⟨_, _, by omega, by omega, rfl⟩
    · obtain ⟨h1, h2⟩ := div_mod_lt p _ _ hp
      exact Or.inr ⟨_, _, by omega, by omega, rfl⟩
  · rintro (⟨r, c, h1, h2, rfl⟩ | ⟨r, c, h1, h2, rfl⟩)
    · refine ⟨r * (n + 1) + c, lt_mul_of _ _ _ _ (by omega) (by omega), Or.inl ?_⟩
      rw [decode_div _ _ _ (by omega), decode_mod _ _ _ (by omega)]
    · refine ⟨r * (n + 1) + c, lt_mul_of _ _ _ _ (by omega) (by omega), Or.inr ?_⟩
      rw [decode_div _ _ _ (by omega), decode_mod _ _ _ (by omega)]

/-- the east bonds of the last column and the south bonds of the last row (dimension 1 in a compatible network) -/
def bdList (m n : ℕ) : List Bond := vlist (fun r => h r (n + 1)) m ++ vlist (fun c => v (m + 1) c) n

theorem v_inj (r : ℕ) : Function.Injective (fun c => v r c) := fun a b hh => by injection hh

theorem rmList_perm (m n : ℕ) : (rmList m n).Perm (bdList m n ++ gvars m n) := by
  have hnd : (bdList m n ++ gvars m n).Nodup := by
    refine List.nodup_append.mpr ⟨List.nodup_append.mpr
      ⟨vlist_nodup _ (h_inj (n + 1)) m, vlist_nodup _ (v_inj (m + 1)) n, ?_⟩, gvars_nodup m n, ?_⟩
    · intro a ha b hb
      obtain ⟨r, _, rfl⟩ := (mem_vlist _ _ a).mp ha
      obtain ⟨c, _, rfl⟩ := (mem_vlist _ _ b).mp hb
      intro hh; injection hh
    · intro a ha b hb
      rcases List.mem_append.mp ha with ha | ha
      · obtain ⟨r, _, rfl⟩ := (mem_vlist _ _ a).mp ha
        rcases (mem_gvars m n b).mp hb with ⟨r', c, _, _, _, rfl⟩ | ⟨r', c, _, _, h3, rfl⟩
        · intro hh; injection hh; omega
        · intro hh; injection hh
      · obtain ⟨c, _, rfl⟩ := (mem_vlist _ _ a).mp ha
        rcases (mem_gvars m n b).mp hb with ⟨r', c', _, _, _, rfl⟩ | ⟨r', c', _, h2, h3, rfl⟩
        · intro hh; injection hh
        · intro hh; injection hh; omega
  rw [List.perm_ext_iff_of_nodup (rmList_nodup m n) hnd]
  intro b
  simp only [mem_rmList, bdList, List.mem_append, mem_vlist, mem_gvars]
  constructor
  · rintro (⟨r, c, h1, h2, rfl⟩ | ⟨r, c, h1, h2, rfl⟩)
    · by_cases hc : c = n
      · subst hc; exact Or.inl (Or.inl ⟨r, h1, rfl⟩)
      · exact Or.inr (Or.inl ⟨r, c + 1, h1, by omega, by omega, rfl⟩)
    · by_cases hr : r = m
      · subst hr; exact Or.inl (Or.inr ⟨c, h2, rfl⟩)
      · exact Or.inr (Or.inr ⟨r + 1, c, by omega, by omega, h2, rfl⟩)
  · rintro ((⟨r, h1, rfl⟩ | ⟨c, h1, rfl⟩) | (⟨r, c, h1, h2, h3, rfl⟩ | ⟨r, c, h1, h2, h3, rfl⟩))
    · exact Or.inl ⟨r, n, h1, le_refl _, rfl⟩
    · exact Or.inr ⟨m, c, le_refl _, h1, rfl⟩
    · exact Or.inl ⟨r, c - 1, h1, by omega, by rw [Nat.sub_add_cancel h2]⟩
    · exact Or.inr ⟨r - 1, c, by omega, h3, by rw [Nat.sub_add_cancel h1]⟩

/-- what `compatible` checks, as propositions about the function-level grid -/
structure Compat (tn : Net) (m n : ℕ) : Prop where
  nrows : tn.nrows = m + 1
  ncols : tn.ncols = n + 1
  ok : GridOK (netF tn) m n
  west : ∀ r ≤ m, (netF tn r 0).w = 1
  north : ∀ c ≤ n, (netF tn 0 c).n = 1
  east : ∀ r ≤ m, (netF tn r n).e = 1
  south : ∀ c ≤ n, (netF tn m c).s = 1

theorem compat_of_compatible (tn : Net) (hc : compatible tn = true) :
    Compat tn (tn.nrows - 1) (tn.ncols - 1) := by
  simp only [compatible, Bool.and_eq_true, decide_eq_true_eq, List.all_eq_true, List.mem_range, Bool.or_eq_true,
    beq_iff_eq] at hc
  obtain ⟨⟨hR, hC⟩, hall⟩ := hc
  refine ⟨by omega, by omega, ⟨fun r c hr hcc => ?_, fun r c hr hcc => ?_⟩, fun r hr => ?_, fun c hcc => ?_,
    fun r hr => ?_, fun c hcc => ?_⟩
  · have := (hall (r + 1) (by omega) c (by omega)).1.1.2
    simp only [Nat.add_eq_zero_iff, one_ne_zero, and_false, if_false, Nat.add_sub_cancel] at this
    exact this.symm
  · have := (hall r (by omega) (c + 1) (by omega)).1.1.1
    simp only [Nat.add_eq_zero_iff, one_ne_zero, and_false, if_false, Nat.add_sub_cancel] at this
    exact this.symm
  · have := (hall r (by omega) 0 (by omega)).1.1.1
    show (siteT (tn.site r 0)).w = 1
    simpa using this
  · have := (hall 0 (by omega) c (by omega)).1.1.2
    show (siteT (tn.site 0 c)).n = 1
    simpa using this
  · have := (hall r (by omega) (tn.ncols - 1) (by omega)).1.2
    rcases this with h1 | h1
    · omega
    · exact h1
  · have := (hall (tn.nrows - 1) (by omega) c (by omega)).2
    rcases this with h1 | h1
    · omega
    · exact h1

/-- the term of `exactValue` as a function of the digit list -/
def termL (tn : Net) (L : List ℕ) : ℤ :=
  prodRange (tn.nrows * tn.ncols) fun p =>
    (siteT (tn.a.getD p none)).get
      (if p / tn.ncols = 0 then 0 else L.toArray.getD (2 * (p - tn.ncols) + 1) 0) (L.toArray.getD (2 * p) 0)
      (L.toArray.getD (2 * p + 1) 0) (if p % tn.ncols = 0 then 0 else L.toArray.getD (2 * (p - 1)) 0)

theorem termOf_eq_termL (tn : Net) (rad : List ℕ) (a : ℕ) : termOf tn rad a = termL tn (digits rad a) := rfl

theorem toArray_getD (l : List ℕ) (i : ℕ) : l.toArray.getD i 0 = l.getD i 0 := by simp

/-- the term of an assignment is the product of the cell weights -/
theorem termL_eq (tn : Net) (m n : ℕ) (hr : tn.nrows = m + 1) (hc : tn.ncols = n + 1) (t : Bond → ℕ)
    (h0 : ∀ b, b ∉ rmList m n → t b = 0) :
    termL tn ((rmList m n).map t) = ∏ c ∈ range (n + 1), ∏ r ∈ range (m + 1), cw (netF tn) t r c := by
  rw [prod_comm, ← prod_merge (m + 1) (n + 1) (fun r c => cw (netF tn) t r c), termL, prodRange_eq_prod, hr, hc]
  apply prod_congr rfl
  intro p hp
  have hp := mem_range.mp hp
  obtain ⟨hr', hc'⟩ := div_mod_lt p _ _ hp
  have hL : (rmList m n).map t = (List.range ((m + 1) * (n + 1))).flatMap fun p =>
      [t (h (p / (n + 1)) (p % (n + 1) + 1)), t (v (p / (n + 1) + 1) (p % (n + 1)))] := by
    unfold rmList; rw [List.map_flatMap]; rfl
  have hget := fun q hq => getD_pairs_range ((m + 1) * (n + 1))
    (fun p => t (h (p / (n + 1)) (p % (n + 1) + 1))) (fun p => t (v (p / (n + 1) + 1) (p % (n + 1)))) q hq
  simp only [toArray_getD, hL]
  rw [(hget p hp).1, (hget p hp).2, ← site_div_mod tn (n + 1) p hc]
  show (netF tn (p / (n + 1)) (p % (n + 1))).f _ _ _ _ = _
  unfold cw
  congr 1
  · split
    · rename_i hz
      rw [hz, h0]
      rw [mem_rmList]
      rintro (⟨_, _, _, _, hh⟩ | ⟨_, _, _, _, hh⟩) <;> injection hh
      omega
    · rename_i hz
      have hge : n + 1 ≤ p := by
        by_contra hlt
        exact hz (Nat.div_eq_of_lt (by omega))
      rw [(hget (p - (n + 1)) (by omega)).2]
      have e1 := Nat.add_div_right (p - (n + 1)) (z := n + 1) (by omega)
      have e2 := Nat.add_mod_right (p - (n + 1)) (n + 1)
      rw [Nat.sub_add_cancel hge] at e1 e2
      rw [← e1, ← e2]
  · split
    · rename_i hz
      rw [hz, h0]
      rw [mem_rmList]
      rintro (⟨_, _, _, _, hh⟩ | ⟨_, _, _, _, hh⟩) <;> injection hh
      omega
    · rename_i hz
      have hp1 : p - 1 = p / (n + 1) * (n + 1) + (p % (n + 1) - 1) := by
        have := Nat.div_add_mod' p (n + 1)
        omega
      rw [(hget (p - 1) (by omega)).1, hp1, decode_div _ _ _ (by omega), decode_mod _ _ _ (by omega),
        Nat.sub_add_cancel (by omega)]

/-- **the brute-force sum over all bond-index assignments equals the scalar of the merged grid tensor** -/
theorem exactValue_eq_gridT (tn : Net) (m n : ℕ) (hc : Compat tn m n) (hcomp : compatible tn = true) :
    exactValue tn = some (scalar (gridT (netF tn) m n)) := by
  unfold exactValue
  rw [if_pos hcomp]
  dsimp only
  congr 1
  rw [foldl_add_eq_sum, nAssignments, foldl_mul, Nat.one_mul]
  simp only [termOf_eq_termL]
  rw [sum_digits (radices tn) (termL tn), radices_eq tn m n hc.nrows hc.ncols,
    sumL_eq_sumV (bdim (netF tn)) (rmList m n) (rmList_nodup m n) (termL tn) (fun _ => 0)]
  rw [sumV_congr_mem (bdim (netF tn)) (rmList m n) _
    (fun t => ∏ c ∈ range (n + 1), ∏ r ∈ range (m + 1), cw (netF tn) t r c) _
    (fun t _ h2 => termL_eq tn m n hc.nrows hc.ncols t h2)]
  rw [sumV_perm _ (rmList_perm m n) (rmList_nodup m n), sumV_drop_unit]
  · have := grid_formula n hc.ok (fun _ => 0) (fun _ _ => rfl) (fun _ _ => rfl) (fun _ _ => rfl)
      (fun r hr => by rw [hc.west r hr]; exact Nat.one_pos) (fun r hr => by rw [hc.east r hr]; exact Nat.one_pos)
    rw [← this, enc_zero _ _ _ (fun _ _ => rfl)]
    rfl
  · intro b hb
    rcases List.mem_append.mp hb with hb | hb
    · obtain ⟨r, hr, rfl⟩ := (mem_vlist _ _ b).mp hb
      exact hc.east r hr
    · obtain ⟨c, hcc, rfl⟩ := (mem_vlist _ _ b).mp hb
      exact hc.south c hcc
  · intro _ _; rfl

/-! ### consequences used by the property theorems -/

/-- no `None` site inside the array bounds -/
def NoneFree (tn : Net) : Prop := ∀ r < tn.nrows, ∀ c < tn.ncols, (tn.site r c).isSome = true

theorem compatible_of_exact (tn : Net) (x : ℤ) (hx : exactValue tn = some x) : compatible tn = true := by
  unfold exactValue at hx
  by_contra hh
  rw [if_neg hh] at hx
  simp at hx

theorem repNet_netF (tn : Net) (m n : ℕ) (hr : tn.nrows = m + 1) (hc : tn.ncols = n + 1) (hnf : NoneFree tn) :
    RepNet tn (netF tn) m n := by
  refine ⟨hr, hc, fun r c hr' hc' => ?_⟩
  have := hnf r (by omega) c (by omega)
  obtain ⟨t, ht⟩ := Option.isSome_iff_exists.mp this
  refine ⟨t, ht, ?_⟩
  unfold netF
  rw [ht]
  exact Eqv.refl _

theorem gridT_dims {tn : Net} {m n : ℕ} (hc : Compat tn m n) :
    (gridT (netF tn) m n).n = 1 ∧ (gridT (netF tn) m n).e = 1 ∧ (gridT (netF tn) m n).s = 1 ∧
    (gridT (netF tn) m n).w = 1 := by
  refine ⟨?_, ?_, ?_, ?_⟩
  · rw [gridT_n]; exact mprod_one _ _ hc.north
  · rw [gridT_e, colT_e]; exact mprod_one _ _ hc.east
  · rw [gridT_s]; exact mprod_one _ _ hc.south
  · rw [gridT_w, colT_w]; exact mprod_one _ _ hc.west

theorem toF_transpose (t : T4) : Eqv (toF t.transpose) (tr (toF t)) := toF_ofFn _ _ _ _ _

theorem getD_ofFn {α : Type*} (N : ℕ) (f : Fin N → α) (i : ℕ) (hi : i < N) (d : α) :
    (Array.ofFn f).getD i d = f ⟨i, hi⟩ := by
  simp [Array.getD, hi]

theorem transpose_site (tn : Net) (r c : ℕ) (hr : r < tn.nrows) (hc : c < tn.ncols) :
    tn.transpose.site c r = (tn.site r c).map T4.transpose := by
  have hlt : c * tn.nrows + r < tn.ncols * tn.nrows := lt_mul_of _ _ _ _ hc hr
  show (Array.ofFn (n := tn.ncols * tn.nrows) _).getD (c * tn.nrows + r) none = _
  rw [getD_ofFn _ _ _ hlt]
  simp only [decode_div _ _ _ hr, decode_mod _ _ _ hr]

/-- `mps2d.transpose` of a None-free network is represented by the transposed grid -/
theorem repNet_transpose {tn : Net} {g : ℕ → ℕ → F4 ℤ} {m n : ℕ} (hrep : RepNet tn g m n) :
    RepNet tn.transpose (trGrid g) n m := by
  refine ⟨hrep.ncols, hrep.nrows, fun c r hc hr => ?_⟩
  obtain ⟨t, ht, et⟩ := hrep.site r c hr hc
  refine ⟨t.transpose, ?_, (toF_transpose t).trans (tr_congr et)⟩
  have hrr : r < tn.nrows := by rw [hrep.nrows]; omega
  have hcc : c < tn.ncols := by rw [hrep.ncols]; omega
  rw [transpose_site tn r c hrr hcc, ht]
  rfl

/-! ### split and recombine at the model level -/

theorem colRange_stop (C k : ℕ) (hk : k ≤ C) : colRange none (some (k:ℤ)) none C = .ok (List.range k) := by
  simp only [colRange, sliceIndices, Option.getD_none, bind, Except.bind, pure, Except.pure]
  simp only [show ¬((1 : ℤ) = 0) by decide, if_false, show ¬((1 : ℤ) < 0) by decide, pyRange,
    show ¬((k:ℤ) < 0) by omega, show ¬((k:ℤ) > (C:ℤ)) by omega, show (1:ℤ) > 0 by decide, if_true]
  congr 1
  have hcnt : (if (0:ℤ) < (k:ℤ) then ((k:ℤ) - 0 + 1 - 1) / 1 else 0) = (k:ℤ) := by
    split <;> omega
  rw [hcnt, List.map_map]
  simp only [Int.toNat_natCast]
  conv_rhs => rw [← List.map_id (List.range k)]
  apply List.map_congr_left
  intro i _
  simp
theorem colRange_rstop (C k : ℕ) (hk1 : 1 ≤ k) (hk : k ≤ C) :
    colRange (some (-1)) (some ((k:ℤ) - 1)) (some (-1)) C = .ok (down k (C - k)) := by
  simp only [colRange, sliceIndices, Option.getD_some, bind, Except.bind, pure, Except.pure]
  simp only [show ¬((-1 : ℤ) = 0) by decide, if_false, show ((-1 : ℤ) < 0) by decide, if_true, pyRange,
    show ¬((k:ℤ) - 1 < 0) by omega, show ¬((k:ℤ) - 1 > (C:ℤ) - 1) by omega, show ¬ ((-1:ℤ) + (C:ℤ) < -1) by omega,
    show ¬((-1 : ℤ) > 0) by decide]
  congr 1
  have hcnt : (if -1 + (C:ℤ) > (k:ℤ) - 1 then (-1 + (C:ℤ) - ((k:ℤ) - 1) + - -1 - 1) / - -1 else 0) = ((C - k : ℕ) : ℤ) := by
    simp only [neg_neg, Int.ediv_one]
    split <;> omega
  rw [hcnt, List.map_map, down_eq]
  simp only [Int.toNat_natCast]
  apply List.ext_getElem
  · simp
  · intro i h1 h2
    simp only [List.length_map, List.length_range] at h1
    simp only [List.getElem_map, List.getElem_range, Function.comp, List.getElem_reverse, List.getElem_range',
      List.length_range']
    omega

theorem forall2_cols {tn : Net} {g : ℕ → ℕ → F4 ℤ} {m n : ℕ} (hrep : RepNet tn g m n) (l : List ℕ)
    (hl : ∀ c ∈ l, c ≤ n) :
    List.Forall₂ (fun (p : MPS × Option (List Bool)) (C : Col ℤ) => RepL p.1 (C.1 :: C.2))
      (l.map fun c => (tn.col c, (none : Option (List Bool)))) (l.map (gcol g m)) := by
  induction l with
  | nil => exact List.Forall₂.nil
  | cons a l ih =>
    exact List.Forall₂.cons (repNet_col hrep a (hl a (List.mem_cons_self ..)))
      (ih fun c hc => hl c (List.mem_cons_of_mem _ hc))

/-- `contract(tn, stop=a+1)`: the partial left-to-right result with multiplier 1 -/
theorem contract_part_lr {tn : Net} {g : ℕ → ℕ → F4 ℤ} {m n : ℕ} (hrep : RepNet tn g m n) (hok : GridOK g m n)
    (a : ℕ) (ha : a < n) :
    ∃ res, contract tn none false none (some ((a + 1 : ℕ) : ℤ)) none none = .ok (.part (some res) 1) ∧
      RepL res ((lrSweep (gcol g m 0) ((List.range' 1 a).map (gcol g m))).1 ::
        (lrSweep (gcol g m 0) ((List.range' 1 a).map (gcol g m))).2) := by
  have hcols := forall2_cols hrep (List.range' 1 a) (fun c hc => by have := List.mem_range'_1.mp hc; omega)
  obtain ⟨res, hsw, hr⟩ := sweep_lr_rep false _ _ hcols (tn.col 0) 1 (gcol g m 0) (repNet_col hrep 0 (by omega))
    (by simpa using lrfull_grid hok a 0 (by omega))
  refine ⟨res, ?_, hr⟩
  have hfull : (n + 1 == (0 :: List.range' (0 + 1) a).length) = false := by
    simp only [List.length_cons, List.length_range', beq_eq_false_iff_ne, ne_eq]; omega
  simp only [contract, maskOK, Bool.not_true, Bool.false_eq_true, if_false, hrep.ncols,
    colRange_stop (n + 1) (a + 1) (by omega), contractCols, List.range_eq_range', List.range'_succ, List.map_cons,
    Option.map_none, hfull]
  simp only [Nat.zero_add] at hsw ⊢
  simp only [hsw, finish, Bool.false_eq_true, if_false]

/-- `contract(tn, start=-1, stop=a, step=-1)`: the partial right-to-left result with multiplier 1 -/
theorem contract_part_rl {tn : Net} {g : ℕ → ℕ → F4 ℤ} {m a b : ℕ} (hrep : RepNet tn g m (a + 1 + b))
    (hok : GridOK g m (a + 1 + b)) :
    ∃ res, contract tn none false (some (-1)) (some (((a + 1 : ℕ) : ℤ) - 1)) (some (-1)) none
        = .ok (.part (some res) 1) ∧
      RepL res ((rlSweep (gcol g m (a + 1 + b)) ((down (a + 1) b).map (gcol g m))).1 ::
        (rlSweep (gcol g m (a + 1 + b)) ((down (a + 1) b).map (gcol g m))).2) := by
  have hcols := forall2_cols hrep (down (a + 1) b) (fun c hc => by
    rw [down_eq] at hc; have := List.mem_range'_1.mp (List.mem_reverse.mp hc); omega)
  obtain ⟨res, hsw, hr⟩ := sweep_rl_rep false _ _ hcols (tn.col (a + 1 + b)) 1 (gcol g m (a + 1 + b))
    (repNet_col hrep (a + 1 + b) (le_refl _)) (rlfull_grid hok b (a + 1) (le_refl _))
  refine ⟨res, ?_, hr⟩
  have hd : down (a + 1) (a + 1 + b + 1 - (a + 1)) = (a + 1 + b) :: down (a + 1) b := by
    rw [show a + 1 + b + 1 - (a + 1) = b + 1 by omega]; rfl
  have hfull : (a + 1 + b + 1 == ((a + 1 + b) :: down (a + 1) b).length) = false := by
    simp only [List.length_cons, down_eq, List.length_reverse, List.length_range', beq_eq_false_iff_ne, ne_eq]; omega
  simp only [contract, maskOK, Bool.not_true, Bool.false_eq_true, if_false, hrep.ncols,
    colRange_rstop (a + 1 + b + 1) (a + 1) (by omega) (by omega), hd, contractCols, List.map_cons,
    Option.map_none, hfull]
  simp only [show decide ((-1 : ℤ) > 0) = false by decide, hsw, finish, Bool.false_eq_true, if_false]

theorem lrSweep_e_full (acc acc' : Col ℤ) (cs : List (Col ℤ))
    (he : (acc.1 :: acc.2).map (·.e) = (acc'.1 :: acc'.2).map (·.e)) (h : LRFull acc cs) :
    ((lrSweep acc cs).1 :: (lrSweep acc cs).2).map (·.e)
      = ((cs.foldl (fun _ c => c) acc').1 :: (cs.foldl (fun _ c => c) acc').2).map (·.e) := by
  induction cs generalizing acc acc' with
  | nil => exact he
  | cons d ds ih =>
    obtain ⟨h1, h2⟩ := h
    have hl : (acc.1 :: acc.2).length = (d.1 :: d.2).length := length_eq_of_map_eq h1
    have hz := hzip_map_e (acc.1 :: acc.2) (d.1 :: d.2) hl
    simp only [lrSweep, List.foldl_cons]
    exact ih (hzipCol acc d) d hz (lrfull_congr d _ ds hz.symm h2)

theorem rlSweep_w_full (acc acc' : Col ℤ) (cs : List (Col ℤ))
    (he : (acc.1 :: acc.2).map (·.w) = (acc'.1 :: acc'.2).map (·.w)) (h : RLFull acc cs) :
    ((rlSweep acc cs).1 :: (rlSweep acc cs).2).map (·.w)
      = ((cs.foldl (fun _ c => c) acc').1 :: (cs.foldl (fun _ c => c) acc').2).map (·.w) := by
  induction cs generalizing acc acc' with
  | nil => exact he
  | cons d ds ih =>
    obtain ⟨h1, h2⟩ := h
    have hl : (d.1 :: d.2).length = (acc.1 :: acc.2).length := length_eq_of_map_eq h1
    have hz := hzip_map_w (d.1 :: d.2) (acc.1 :: acc.2) hl
    simp only [rlSweep, List.foldl_cons]
    exact ih (hzipCol d acc) d hz (rlfull_congr d _ ds hz.symm h2)

/-- **model-level split and recombine**: `inner_product(left, right) * ml * mr` is the scalar of `splitT` -/
theorem splitValue_rep {tn : Net} {g : ℕ → ℕ → F4 ℤ} {m a b : ℕ} (hrep : RepNet tn g m (a + 1 + b))
    (hok : GridOK g m (a + 1 + b)) (hn : (splitT g m a b).n = 1) (he : (splitT g m a b).e = 1)
    (hs : (splitT g m a b).s = 1) (hw : (splitT g m a b).w = 1) :
    splitValue tn (a + 1) none false none = .ok (scalar (splitT g m a b)) := by
  obtain ⟨lm, hl, hlr⟩ := contract_part_lr hrep hok a (by omega)
  obtain ⟨rm, hr, hrr⟩ := contract_part_rl hrep hok
  have hlrfull := lrfull_grid hok a 0 (by omega)
  have hrlfull := rlfull_grid hok b (a + 1) (le_refl _)
  have hlrok := lrok_grid hok a 0 (by omega)
  have hrlok := rlok_grid hok b (a + 1) (le_refl _)
  simp only [Nat.zero_add] at hlrfull hlrok
  have eL := lrSweep_e_full _ (gcol g m 0) _ rfl hlrfull
  have eR := rlSweep_w_full _ (gcol g m (a + 1 + b)) _ rfl hrlfull
  have e1 := foldl_last_up (gcol g m) 0 a
  have e2 := foldl_last_down (gcol g m) (a + 1) b
  simp only [Nat.zero_add] at e1
  rw [e1] at eL
  rw [e2] at eR
  have hfm : FullMatch (gcol g m a) (gcol g m (a + 1)) := by
    have := lrfull_grid hok 1 a (by omega)
    exact this.1
  have hm : ((lrSweep (gcol g m 0) ((List.range' 1 a).map (gcol g m))).1 ::
        (lrSweep (gcol g m 0) ((List.range' 1 a).map (gcol g m))).2).map (·.e)
      = ((rlSweep (gcol g m (a + 1 + b)) ((down (a + 1) b).map (gcol g m))).1 ::
        (rlSweep (gcol g m (a + 1 + b)) ((down (a + 1) b).map (gcol g m))).2).map (·.w) := by
    rw [eL, eR]; exact hfm
  obtain ⟨pm, hp, hpr⟩ := contractPairwise_rep lm rm _ _ hlr hrr hm
  have hLok := lrSweep_ok _ _ (gcol_ok hok 0 (by omega)) hlrok
  have hRok := (rlSweep_w_ok _ (gcol g m (a + 1 + b)) _ rfl (gcol_ok hok (a + 1 + b) (le_refl _)) hrlok).2
  have hlen : (lrSweep (gcol g m 0) ((List.range' 1 a).map (gcol g m))).2.length
      = (rlSweep (gcol g m (a + 1 + b)) ((down (a + 1) b).map (gcol g m))).2.length := by
    have := length_eq_of_map_eq hm
    simpa using this
  have hcok : ColOK (hzipCol (lrSweep (gcol g m 0) ((List.range' 1 a).map (gcol g m)))
      (rlSweep (gcol g m (a + 1 + b)) ((down (a + 1) b).map (gcol g m)))) :=
    vchain_hzip _ _ _ _ hlen hLok hRok
  obtain ⟨t, ht, et⟩ := contractLadder_rep pm (hzipCol (lrSweep (gcol g m 0) ((List.range' 1 a).map (gcol g m)))
      (rlSweep (gcol g m (a + 1 + b)) ((down (a + 1) b).map (gcol g m)))) hpr hcok
  have hsc := asScalar_rep t (splitT g m a b) et hn he hs hw
  simp only [splitValue, hl, hr, bind, Except.bind, innerProduct, hp, ht, hsc, pure, Except.pure, mul_one]

end Qec.TensorExact
