/-
  C05 — Merge is a lossless, order- and partition-insensitive fold of run aggregates.
  Theorems about `Model/Merge.lean` (model of `qecsim.app.merge`).
-/
import QecVerif.Model.Merge
import QecVerif.Lemmas.Merge
namespace Qec.C05
open Qec

def shape (v : Option (List Int)) : Option Nat := v.map List.length

/-- two results are the same up to output order -/
def SameUpToOrder (a b : Except MergeErr (List Group)) : Prop :=
  (∀ e, a = .error e ↔ b = .error e) ∧
  (∀ ga, a = .ok ga → ∃ gb, b = .ok gb ∧ ga.Perm gb)

/-- **grouping key**: two records fall in the same group iff all seven key fields agree (after the
    legacy defaults `time_steps = 1`, `measurement_error_probability = 0`) -/
theorem same_group_iff (r₁ r₂ : RawRec) :
    keyOf r₁ = keyOf r₂ ↔
      r₁.code = r₂.code ∧ r₁.nkd = r₂.nkd ∧ r₁.errorModel = r₂.errorModel ∧ r₁.decoder = r₂.decoder ∧
      r₁.p = r₂.p ∧ r₁.T.getD 1 = r₂.T.getD 1 ∧ r₁.q.getD 0 = r₂.q.getD 0 := by
  simp only [keyOf, Key.mk.injEq]

/-- output keys are exactly the distinct keys of the input, each once -/
theorem merge_keys (ls : List (List RawRec)) (gs : List Group) (h : merge ls = .ok gs) :
    (gs.map (·.key)).Nodup ∧ ∀ k, k ∈ gs.map (·.key) ↔ ∃ r ∈ ls.flatten, keyOf r = k := by
  rw [merge_eq_finish] at h
  have hI := foldRecs_inv (finish_ok h).1
  exact ⟨hI.nodup, hI.keys⟩

/-- **conservation**: per group every scalar is the sum over the group's records -/
theorem merge_conserves (ls : List (List RawRec)) (gs : List Group) (h : merge ls = .ok gs)
    (g : Group) (hg : g ∈ gs) :
    let rs := ls.flatten.filter (fun r => keyOf r = g.key)
    g.sums.nRun = (rs.map (·.nRun)).sum ∧ g.sums.nSuccess = (rs.map (·.nSuccess)).sum ∧
    g.sums.nFail = (rs.map (·.nFail)).sum ∧ g.sums.ewTotal = (rs.map (·.ewTotal)).sum ∧
    g.sums.wall = (rs.map (·.wall)).sum := by
  rw [merge_eq_finish] at h
  have hG := (foldRecs_inv (finish_ok h).1).grp g hg
  intro rs
  exact ⟨hG.nRun, hG.nSuccess, hG.nFail, hG.ewTotal, hG.wall⟩

/-- conservation of the arrays: `None` iff absent in every record of the group, else element-wise
    sums of equal-length arrays -/
theorem merge_conserves_lc (ls : List (List RawRec)) (gs : List Group) (h : merge ls = .ok gs)
    (g : Group) (hg : g ∈ gs) :
    let rs := ls.flatten.filter (fun r => keyOf r = g.key)
    (g.lc = none → ∀ r ∈ rs, arrOf r.lc = none) ∧
    (∀ v, g.lc = some v →
      (∀ r ∈ rs, ∃ w, arrOf r.lc = some w ∧ w.length = v.length) ∧
      ∀ i, i < v.length → v[i]? = some ((rs.map fun r => ((arrOf r.lc).getD []).getD i 0).sum)) := by
  rw [merge_eq_finish] at h
  have hA := ((foldRecs_inv (finish_ok h).1).grp g hg).lc
  intro rs
  refine ⟨fun hn r hr => hA.1 hn _ (List.mem_map.2 ⟨r, hr, rfl⟩), fun v hv => ?_⟩
  obtain ⟨hm, hi⟩ := hA.2 v hv
  refine ⟨fun r hr => hm _ (List.mem_map.2 ⟨r, hr, rfl⟩), fun i hi' => ?_⟩
  rw [hi i hi', List.map_map]
  rfl
theorem merge_conserves_cv (ls : List (List RawRec)) (gs : List Group) (h : merge ls = .ok gs)
    (g : Group) (hg : g ∈ gs) :
    let rs := ls.flatten.filter (fun r => keyOf r = g.key)
    (g.cv = none → ∀ r ∈ rs, arrOf r.cv = none) ∧
    (∀ v, g.cv = some v →
      (∀ r ∈ rs, ∃ w, arrOf r.cv = some w ∧ w.length = v.length) ∧
      ∀ i, i < v.length → v[i]? = some ((rs.map fun r => ((arrOf r.cv).getD []).getD i 0).sum)) := by
  rw [merge_eq_finish] at h
  have hA := ((foldRecs_inv (finish_ok h).1).grp g hg).cv
  intro rs
  refine ⟨fun hn r hr => hA.1 hn _ (List.mem_map.2 ⟨r, hr, rfl⟩), fun v hv => ?_⟩
  obtain ⟨hm, hi⟩ := hA.2 v hv
  refine ⟨fun r hr => hm _ (List.mem_map.2 ⟨r, hr, rfl⟩), fun i hi' => ?_⟩
  rw [hi i hi', List.map_map]
  rfl

/-- rates are recomputed from the sums -/
theorem merge_rates (g : Group) (n : Int) (rest : List (Option Int)) (hn : g.key.nkd = some n :: rest) :
    lfr g = (g.sums.nFail : Rat) / (g.sums.nRun : Rat) ∧
    per g = (g.sums.ewTotal : Rat) / (n : Rat) / (g.key.T : Rat) / (g.sums.nRun : Rat) := by
  refine ⟨rfl, ?_⟩
  unfold per
  rw [hn]

/-- **mismatch ⇒ error, symmetric**: a ValueError is raised iff two records of one group differ in
    the presence or length of an array — a condition that does not depend on order or partition -/
theorem mismatch_iff (ls : List (List RawRec)) :
    merge ls = .error .value ↔
      ∃ r₁ ∈ ls.flatten, ∃ r₂ ∈ ls.flatten, keyOf r₁ = keyOf r₂ ∧
        (shape (arrOf r₁.lc) ≠ shape (arrOf r₂.lc) ∨ shape (arrOf r₁.cv) ≠ shape (arrOf r₂.cv)) := by
  rw [merge_eq_finish, finish_error_value, foldRecs_error_iff]
  rfl

/-- **partition insensitivity**: only the concatenation of the argument lists matters -/
theorem merge_partition (ls : List (List RawRec)) : merge ls = merge [ls.flatten] := by
  simp only [merge, List.flatten_cons, List.flatten_nil, List.append_nil]

/-- **order insensitivity**: permuting the records permutes the output groups, nothing else
    (errors included) -/
theorem merge_perm (l₁ l₂ : List RawRec) (hp : l₁.Perm l₂) : SameUpToOrder (merge [l₁]) (merge [l₂]) := by
  rw [merge_eq_finish, merge_eq_finish]
  simp only [List.flatten_cons, List.flatten_nil, List.append_nil]
  exact (foldRecs_perm hp).finish

/-- **merge of merges**: merging two merge results equals merging all records at once -/
theorem merge_nested (l₁ l₂ : List RawRec) (g₁ g₂ : List Group)
    (h₁ : merge [l₁] = .ok g₁) (h₂ : merge [l₂] = .ok g₂) :
    SameUpToOrder (merge [g₁.map Group.toRaw, g₂.map Group.toRaw]) (merge [l₁ ++ l₂]) := by
  rw [merge_eq_finish] at h₁ h₂
  rw [merge_eq_finish, merge_eq_finish]
  simp only [List.flatten_cons, List.flatten_nil, List.append_nil] at h₁ h₂ ⊢
  exact (foldRecs_nested (finish_ok h₁).1 (finish_ok h₂).1).finish

/-- idempotence: re-merging a merge result returns it unchanged (order included) -/
theorem merge_idempotent (l : List RawRec) (g : List Group) (h : merge [l] = .ok g) :
    merge [g.map Group.toRaw] = .ok g := by
  rw [merge_eq_finish] at h ⊢
  simp only [List.flatten_cons, List.flatten_nil, List.append_nil] at h ⊢
  obtain ⟨hf, hall⟩ := finish_ok h
  rw [foldRecs_toRaw_of_fold hf]
  simp [finish, hall]

/-- **representation independence**: the result depends on a record only through its key (after
    defaults), its five scalars and its two arrays-as-tuples.  Hence lists-for-tuples (JSON round
    trip) and absent-vs-default fields (legacy records) change nothing. -/
theorem merge_repr_independent (f : RawRec → RawRec)
    (hf : ∀ r, keyOf (f r) = keyOf r ∧ sumsOf (f r) = sumsOf r ∧
      arrOf (f r).lc = arrOf r.lc ∧ arrOf (f r).cv = arrOf r.cv)
    (ls : List (List RawRec)) : merge (ls.map (·.map f)) = merge ls := by
  rw [merge_eq_finish, merge_eq_finish, ← List.map_flatten, foldRecs_map_congr f hf]

/-- JSON form of a record: every tuple becomes a list -/
def toJson (r : RawRec) : RawRec :=
  { r with nkdIsList := true
           lc := match r.lc with | .arr _ v => .arr true v | x => x
           cv := match r.cv with | .arr _ v => .arr true v | x => x }
theorem merge_json_roundtrip (ls : List (List RawRec)) : merge (ls.map (·.map toJson)) = merge ls := by
  apply merge_repr_independent
  intro r
  rcases r with ⟨_, _, _, _, _, _, _, _, _, _, _, _, _, lc, cv⟩
  cases lc <;> cases cv <;> exact ⟨rfl, rfl, rfl, rfl⟩

/-- a legacy record (no time_steps / measurement_error_probability / array fields) -/
def fillDefaults (r : RawRec) : RawRec :=
  { r with T := some (r.T.getD 1), q := some (r.q.getD 0)
           lc := match r.lc with | .absent => .null | x => x
           cv := match r.cv with | .absent => .null | x => x }
theorem merge_legacy (ls : List (List RawRec)) : merge (ls.map (·.map fillDefaults)) = merge ls := by
  apply merge_repr_independent
  intro r
  rcases r with ⟨_, _, _, _, _, _, _, _, _, _, _, _, _, lc, cv⟩
  cases lc <;> cases cv <;> exact ⟨rfl, rfl, rfl, rfl⟩

/-! non-vacuity: two groups, arrays, a legacy record -/
def exA : RawRec := ⟨"c", [some 5, some 1, some 3], false, "e", "d", 1/10, some 1, some 0, 10, 7, 3, 12, 1/2,
  .arr false [3, 1], .null⟩
def exB : RawRec := ⟨"c", [some 5, some 1, some 3], true, "e", "d", 1/10, none, none, 5, 5, 0, 2, 1/4,
  .arr true [0, 2], .absent⟩
def exC : RawRec := ⟨"c", [some 5, some 1, some 3], false, "e", "d", 2/10, some 1, some 0, 1, 0, 1, 2, 1/4,
  .null, .null⟩
example : (merge [[exA, exC], [exB]]).toOption.map (·.map fun g => (g.sums.nRun, g.lc)) =
    some [(15, some [3, 3]), (1, none)] := by decide +kernel
example : (merge [[exB, exA, exC]]).toOption.map (·.map fun g => (g.sums.nRun, g.lc)) =
    some [(15, some [3, 3]), (1, none)] := by decide +kernel

end Qec.C05
