/-
  C01 — A run's verdict is exactly what the generated error and decoding imply.
  Theorems about `Model/RunOnce.lean` (the model of `qecsim.app._run_once` and the argument
  validation of `run_once`, `run_once_ftp`, `run`, `run_ftp`).
-/
import QecVerif.Model.RunOnce
import QecVerif.Lemmas.GF2
import QecVerif.Lemmas.RunOnce
namespace Qec.C01
open Qec

/-- Python's `m[t-1]` for `t ∈ range(T)`: the previous step on the periodic time axis -/
theorem prevIdx_periodic (T t : Nat) (h : t < T) : prevIdx T t = (t + T - 1) % T := by
  exact prevIdx_eq_mod T t h

/-- **syndrome hand-off**: row `t` given to the decoder is
    `m[(t−1) mod T] ⊕ synd S e[t] ⊕ m[t]` -/
theorem syndrome_row (S es meas : List BVec) (t : Nat) (ht : t < es.length) :
    (syndromeRows S es meas)[t]? =
      some (xorV (xorV (meas.getD (prevIdx es.length t) []) (synd S (es.getD t []))) (meas.getD t [])) := by
  exact syndromeRows_getElem? S es meas t ht

/-- the decoder gets exactly `T` rows -/
theorem syndrome_rows_length (S es meas : List BVec) : (syndromeRows S es meas).length = es.length := by
  exact syndromeRows_length S es meas

/-- ideal mode (one step, falsy measurement probability): the decoder gets `synd S e`, and the rng
    is never asked for measurement flips -/
theorem ideal_syndrome (n : Nat) (S : List BVec) (e : BVec) (script : List BVec) :
    (decoderInput n S [e] script false).syndrome = [synd S e] ∧
    (decoderInput n S [e] script false).rngChoiceCalls = 0 := by
  exact ⟨ideal_syndrome_eq n S e script, decoderInput_false_calls n S [e] script⟩

/-- falsy measurement probability in fault-tolerant mode: no flips whatever the rng would say, so
    every row is the plain step syndrome -/
theorem ftp_no_measurement_noise (n : Nat) (S es script : List BVec) (t : Nat) (ht : t < es.length) :
    (decoderInput n S es script false).syndrome[t]? = some (synd S (es.getD t [])) ∧
    (decoderInput n S es script false).rngChoiceCalls = 0 := by
  rw [decoderInput_false_syndrome]
  exact ⟨syndromeRows_no_noise S es t ht, decoderInput_false_calls n S es script⟩

/-- **periodic measurement flips cancel**: for every `T ≥ 1`, every list of step errors and every
    flip pattern, the XOR of all syndrome rows is the syndrome of the total error (each flip enters
    exactly two rows of the cyclic time axis — for `T = 1` the same row twice). -/
theorem syndrome_rows_xor (n : Nat) (S es meas : List BVec)
    (hT : 1 ≤ es.length) (hm : meas.length = es.length)
    (hml : ∀ m ∈ meas, m.length = S.length)
    (hS : ∀ s ∈ S, s.length = 2 * n) (hE : ∀ e ∈ es, e.length = 2 * n) :
    xorAll S.length (syndromeRows S es meas) = synd S (xorAll (2 * n) es) := by
  have _ := hT  -- not needed: the identity also holds for the empty time axis
  exact syndromeRows_xorAll n S es meas hm hml hS hE

/-- the total error handed to the decoder (and used for the verdict) is the XOR of the step errors -/
theorem total_error (n : Nat) (S es script : List BVec) (q : Bool) :
    (decoderInput n S es script q).error = xorAll (2 * n) es := by
  rfl

/-- **verdict for a bare recovery**: success iff recovery ⊕ error commutes with every stabilizer and
    every logical; logical_commutations are its commutations with the logicals; no custom values. -/
theorem verdict_bare (S L es : List BVec) (err r : BVec) :
    resolve S L es err (.bare r) = .ok
      { errorWeight := bsfWtMat es
        success := isZero (synd S (xorV r err)) && isZero (synd L (xorV r err))
        lc := some (bvecToInts (synd L (xorV r err))), cv := none } := by
  rfl

theorem success_iff_commutes (S L es : List BVec) (err r : BVec) (o : RunOut)
    (h : resolve S L es err (.bare r) = .ok o) :
    o.success = true ↔ (∀ s ∈ S, bsp (xorV r err) s = false) ∧ (∀ l ∈ L, bsp (xorV r err) l = false) := by
  exact resolve_bare_success_iff S L es err r o h

/-- a recovery that does not return to the code space gives `success = false` -/
theorem not_in_codespace_fails (S L es : List BVec) (err r : BVec) (o : RunOut)
    (h : resolve S L es err (.bare r) = .ok o) (s : BVec) (hs : s ∈ S) (hanti : bsp (xorV r err) s = true) :
    o.success = false := by
  rw [Bool.eq_false_iff]
  intro hsucc
  have := ((resolve_bare_success_iff S L es err r o h).mp hsucc).1 s hs
  rw [hanti] at this; cases this

/-- **override pass-through**, all 2⁴ shapes in one statement: with a decode result, each of
    success / logical_commutations that the decoder set is returned unchanged and each unset one is
    the value resolved from the recovery; custom values are always passed through; with no recovery
    nothing is evaluated. -/
theorem override_passthrough (S L es : List BVec) (err : BVec)
    (su : Option Bool) (lc : Option (List Int)) (rec : Option BVec) (cv : Option (List Int)) :
    resolve S L es err (.result su lc rec cv) = .ok
      { errorWeight := bsfWtMat es
        success := match su, rec with
          | some s, _ => s
          | none, some r => isZero (synd S (xorV r err)) && isZero (synd L (xorV r err))
          | none, none => false
        lc := match lc, rec with
          | some v, _ => some v
          | none, some r => some (bvecToInts (synd L (xorV r err)))
          | none, none => none
        cv := cv } := by
  cases su <;> cases lc <;> cases rec <;> rfl

/-- a decoder that returns a bare `None` is an error, not a verdict -/
theorem bare_none_rejected (S L es : List BVec) (err : BVec) :
    resolve S L es err .bareNone = .error .qecsim := by
  rfl

/-- **error weight** is the sum of the weights of the step errors -/
theorem error_weight (S L es : List BVec) (err : BVec) (a : Answer) (o : RunOut)
    (h : resolve S L es err a = .ok o) : o.errorWeight = (es.map bsfWt).sum := by
  exact resolve_errorWeight S L es err a o h

/-- **validation**: `run_once_ftp` accepts exactly `T ≥ 1`, `0 ≤ p ≤ 1`, `q = None ∨ 0 ≤ q ≤ 1`, and
    then uses the documented measurement-probability default -/
theorem validateOnceFtp_ok_iff (T : Int) (p : Rat) (q : Option Rat) (r : Rat) :
    validateOnceFtp T p q = .ok r ↔
      (1 ≤ T ∧ 0 ≤ p ∧ p ≤ 1 ∧ (∀ q', q = some q' → 0 ≤ q' ∧ q' ≤ 1)) ∧
      r = (match q with | some q' => q' | none => if T = 1 then 0 else p) := by
  exact validateOnceFtp_ok T p q r
theorem validateRunFtp_ok_iff (T : Int) (p : Rat) (q : Option Rat) (r : Rat) :
    validateRunFtp T p q = .ok r ↔
      (1 ≤ T ∧ 0 ≤ p ∧ p ≤ 1 ∧ (∀ q', q = some q' → 0 ≤ q' ∧ q' ≤ 1)) ∧
      r = (match q with | some q' => q' | none => if T = 1 then 0 else p) := by
  exact validateRunFtp_ok T p q r
theorem validateIdeal_ok_iff (p : Rat) (r : Rat) :
    validateIdeal p = .ok r ↔ (0 ≤ p ∧ p ≤ 1) ∧ r = 0 := by
  exact validateIdeal_ok p r
/-- the two entry points accept the same arguments (they differ only in which message comes first) -/
theorem validators_agree (T : Int) (p : Rat) (q : Option Rat) :
    (∃ r, validateOnceFtp T p q = .ok r) ↔ (∃ r, validateRunFtp T p q = .ok r) := by
  simp only [validateOnceFtp_ok, validateRunFtp_ok]

/-! non-vacuity -/
example : (decoderInput 1 [[true, false]] [[false, true], [false, true], [true, true]]
    [[true], [false], [true]] true).syndrome = [[true], [false], [false]] := by decide
example : xorAll 1 [[true], [false], [false]] = synd [[true, false]] (xorAll 2 [[false, true], [false, true], [true, true]]) := by
  decide

end Qec.C01
