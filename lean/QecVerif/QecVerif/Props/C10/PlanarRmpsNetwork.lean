/-
  C10 — the planar ROTATED MPS decoder (`PlanarRMPSDecoder`): its tensor network and its optimised contraction
  `_tn_contract_optimized`, both inside the model (Model/PlanarRmpsTn.lean, compared with the real code on every harness
  run by harness/qv/c10_rmps.py: every tensor of every network, the samples handed to `create_tn`, the column ranges of
  the shared bra / ket contractions, the column layout of the four partially contracted networks, the four values).

  For ALL accepted sizes R, C ≥ 2 (square or not), all distributions (integer numerators), all sample Paulis and both
  contraction modes (`major = true`: by column, logicals on the major diagonal; `false`: by row, transposed networks,
  logicals on the minor diagonal):

  * `planarRmps_tn_contract_exact` — the network `rmpsTn R C d g` is a C11-compatible padded grid: its literal index sum
    `exactValue` is defined, and the model of `mps2d.contract` returns it left to right, right to left and on the
    transposed network;
  * `planarRmps_optimized_exact` — the optimised procedure (`cosetValues` = `optimized` on the four networks of the
    mode: `left_stop = min(R,C) - 1`, `right_stop = ncols - min(R,C) = max(R,C) - 1`, the bra / ket of `tns[0]`
    shared between the four cosets, `column_stack`, right-to-left contraction, multipliers) returns exactly those
    column bounds and, for each of the four samples `f, X f, Z X f, Z f` (diagonal logicals), the `exactValue` — i.e. the
    plain full contraction — of that sample's network.  The two facts that make the sharing sound are proved for all
    sizes: a partial contraction reads only its own columns (`OptContract.contract_congr`), and the diagonal logicals
    touch only cells in the columns (rows) `left_stop … right_stop` (`PlanarRmpsLemmas.siteAt_samples4`);
  * `planarRmps_optimized_plain` — … hence equals the plain contraction `tnValue` of each of the four networks.
-/
import QecVerif.Props.C10.Network
import QecVerif.Lemmas.PlanarRmpsTn
namespace Qec.C10.PlanarRmpsNetwork
open Qec Qec.Coset Qec.Tensor Qec.TensorAlg Qec.TensorExact Qec.TensorPad Qec.PlanarRmpsTn Qec.PlanarRmpsLemmas

/-- the rotated network is a compatible padded grid: the index sum is defined and every plain sweep returns it -/
theorem planarRmps_tn_contract_exact (R C : Int) (d : Dist Int) (g : BVec) (hR : 2 ≤ R) (hC : 2 ≤ C) :
    ∃ v, exactValue (rmpsTn R C d g) = some v ∧
      tnValue R C d g = .ok (.scalar v) ∧
      contract (rmpsTn R C d g) none false none none (some (-1)) none = .ok (.scalar v) ∧
      contract (rmpsTn R C d g).transpose none false none none none none = .ok (.scalar v) := by
  have hc := compat_rmpsTn R C d g hR hC
  have hx := exactValue_eq_gridT _ _ _ hc (compatible_of_compat _ _ _ hc)
  exact ⟨_, hx, contract_lr_pad _ _ _ hc (padded_rmpsTn R C d g hR hC),
    contract_rl_pad _ _ _ hc (padded_rmpsTn R C d g hR hC),
    contract_transpose_pad _ _ _ hc (padded_rmpsTn_transpose R C d g hR hC)⟩

/-- **the optimised contraction returns the four exact network values**, all sizes, both modes -/
theorem planarRmps_optimized_exact (R C : Int) (d : Dist Int) (major : Bool) (f : BVec) (hR : 2 ≤ R) (hC : 2 ≤ C)
    (hf : f.length = 2 * (Planar.nQubits R C).toNat) :
    ∃ vs, cosetValues R C d major f = .ok ((min R C - 1).toNat, (max R C - 1).toNat, vs) ∧
      List.Forall₂ (fun v g => exactValue (rmpsTn R C d g) = some v) vs (samples4 R C major f) := by
  refine ⟨(samples4 R C major f).map fun g => scalar (gridT (netF (rmpsTn R C d g)) (K R C) (K R C)), ?_, ?_⟩
  · rw [cosetValues_grid R C d major f hR hC hf]
    congr 2
    · unfold pa; omega
    · congr 1; unfold pa pw; omega
  · rw [List.forall₂_map_left_iff]
    apply List.forall₂_same.mpr
    intro g _
    have hc := compat_rmpsTn R C d g hR hC
    exact exactValue_eq_gridT _ _ _ hc (compatible_of_compat _ _ _ hc)

/-- … hence the value of each coset is the plain full contraction of that sample's network -/
theorem planarRmps_optimized_plain (R C : Int) (d : Dist Int) (major : Bool) (f : BVec) (hR : 2 ≤ R) (hC : 2 ≤ C)
    (hf : f.length = 2 * (Planar.nQubits R C).toNat) :
    ∃ vs, cosetValues R C d major f = .ok ((min R C - 1).toNat, (max R C - 1).toNat, vs) ∧
      List.Forall₂ (fun v g => tnValue R C d g = .ok (.scalar v)) vs (samples4 R C major f) := by
  obtain ⟨vs, h1, h2⟩ := planarRmps_optimized_exact R C d major f hR hC hf
  refine ⟨vs, h1, h2.imp ?_⟩
  intro v g hv
  obtain ⟨v', hv', ht, -, -⟩ := planarRmps_tn_contract_exact R C d g hR hC
  rw [hv] at hv'
  rw [ht, Option.some.inj hv']

end Qec.C10.PlanarRmpsNetwork
