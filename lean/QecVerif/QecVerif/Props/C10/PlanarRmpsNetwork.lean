/-
  C10 — the planar ROTATED MPS decoder (`PlanarRMPSDecoder`): its tensor network and its optimised contraction
  `_tn_contract_optimized`, both inside the model (Model/PlanarRmpsTn.lean, compared with the real code on every harness
  run by harness/qv/c10_rmps.py: every tensor of every network, the samples handed to `create_tn`, the column ranges of
  the shared bra / ket contractions, the column layout of the four partially contracted networks, the four values).

  For ALL accepted sizes R, C ≥ 2 (square or not), all distributions (integer numerators), all sample Paulis and both
  contraction modes (`major = true`: by column, logicals on the major diagonal; `false`: by row, transposed networks,
  logicals on the minor diagonal):

  * `planarRmps_tn_contract_exact` — the network `rmpsTn R C d g` is a C11-compatible padded grid: its literal index sum
    `exactValue` is defined, and the model of `mps2d.contract` returns it left to right, right to left and on the
    transposed network;
  * `planarRmps_optimized_exact` — the optimised procedure (`cosetValues` = `optimized` on the four networks of the
    mode: `left_stop = min(R,C) - 1`, `right_stop = ncols - min(R,C) = max(R,C) - 1`, the bra / ket of `tns[0]`
    shared between the four cosets, `column_stack`, right-to-left contraction, multipliers) returns exactly those
    column bounds and, for each of the four samples `f, X f, Z X f, Z f` (diagonal logicals), the `exactValue` — i.e. the
    plain full contraction — of that sample's network.  The two facts that make the sharing sound are proved for all
    sizes: a partial contraction reads only its own columns (`OptContract.contract_congr`), and the diagonal logicals
    touch only cells in the columns (rows) `left_stop … right_stop` (`PlanarRmpsLemmas.siteAt_samples4`);
  * `planarRmps_optimized_plain` — … hence equals the plain contraction `tnValue` of each of the four networks;
  * `planarRmps_tn_exact_value`, `planarRmps_tn_value`, `_rl`, `_transposed` — the literal index sum of the rotated
    network, and the model of `mps2d.contract` applied to it (left to right, right to left, transposed), equal
    `cosetProb dist (Planar.stabilizers R C) sample`.  Route (Lemmas/PlanarRmpsFactor.lean): every dimension-4 bond is
    split into its two bits; in the rotated network a bond is an edge of the cell grid carrying the bits of the two
    plaquettes at its end points, a qubit tensor is (all copies of its four corner bits agree) × (bare
    `h_node_value` / `v_node_value` of the corner bits) — the einsum with `tsr.delta`, evaluated (`hEntry`, `vEntry`) —,
    the agreement constraints of all cells are exactly the delta stars of the plaquettes (ring of four bonds in the
    bulk, two bonds at the boundary), and `Network.factor_graph_identity`'s two halves (`sumV_stars`, `sumB_eq_span`)
    finish as for the un-rotated network;
  * `planarRmps_optimized_value` — **the optimised procedure returns the four exact coset probabilities**:
    `cosetValues R C d major f = ok (min(R,C)-1, max(R,C)-1, [cosetProb f, cosetProb (X f), cosetProb (Z X f),
    cosetProb (Z f)])` with the diagonal logicals `_logical_x / _logical_z` of the mode.

  What is NOT a theorem here: that the real float / mpf contraction equals the exact value (explored within 1e-11 by the
  harness).  NOT IN THIS FILE, but proved in Props/C10/PlanarRmpsLogicals.lean for all R, C ≥ 2 and both diagonals: the
  diagonal logicals lie in the cosets of the code's `logical_x / logical_z` (`planarRmps_diag_logical_x`, `_z`), hence
  the four values are `cosetProbs4` of the code's logicals (`planarRmps_samples_cosets`, `planarRmps_coset_values`).
-/
import QecVerif.Props.C10.Network
import QecVerif.Lemmas.PlanarRmpsFactor
namespace Qec.C10.PlanarRmpsNetwork
open Qec Qec.Coset Qec.Tensor Qec.TensorAlg Qec.TensorExact Qec.TensorPad Qec.PlanarRmpsTn Qec.PlanarRmpsLemmas

/-- the rotated network is a compatible padded grid: the index sum is defined and every plain sweep returns it -/
theorem planarRmps_tn_contract_exact (R C : Int) (d : Dist Int) (g : BVec) (hR : 2 ≤ R) (hC : 2 ≤ C) :
    ∃ v, exactValue (rmpsTn R C d g) = some v ∧
      tnValue R C d g = .ok (.scalar v) ∧
      contract (rmpsTn R C d g) none false none none (some (-1)) none = .ok (.scalar v) ∧
      contract (rmpsTn R C d g).transpose none false none none none none = .ok (.scalar v) := by
  have hc := compat_rmpsTn R C d g hR hC
  have hx := exactValue_eq_gridT _ _ _ hc (compatible_of_compat _ _ _ hc)
  exact ⟨_, hx, contract_lr_pad _ _ _ hc (padded_rmpsTn R C d g hR hC),
    contract_rl_pad _ _ _ hc (padded_rmpsTn R C d g hR hC),
    contract_transpose_pad _ _ _ hc (padded_rmpsTn_transpose R C d g hR hC)⟩

/-- **the optimised contraction returns the four exact network values**, all sizes, both modes -/
theorem planarRmps_optimized_exact (R C : Int) (d : Dist Int) (major : Bool) (f : BVec) (hR : 2 ≤ R) (hC : 2 ≤ C)
    (hf : f.length = 2 * (Planar.nQubits R C).toNat) :
    ∃ vs, cosetValues R C d major f = .ok ((min R C - 1).toNat, (max R C - 1).toNat, vs) ∧
      List.Forall₂ (fun v g => exactValue (rmpsTn R C d g) = some v) vs (samples4 R C major f) := by
  refine ⟨(samples4 R C major f).map fun g => scalar (gridT (netF (rmpsTn R C d g)) (K R C) (K R C)), ?_, ?_⟩
  · rw [cosetValues_grid R C d major f hR hC hf]
    congr 2
    · unfold pa; omega
    · congr 1; unfold pa pw; omega
  · rw [List.forall₂_map_left_iff]
    apply List.forall₂_same.mpr
    intro g _
    have hc := compat_rmpsTn R C d g hR hC
    exact exactValue_eq_gridT _ _ _ hc (compatible_of_compat _ _ _ hc)

/-- … hence the value of each coset is the plain full contraction of that sample's network -/
theorem planarRmps_optimized_plain (R C : Int) (d : Dist Int) (major : Bool) (f : BVec) (hR : 2 ≤ R) (hC : 2 ≤ C)
    (hf : f.length = 2 * (Planar.nQubits R C).toNat) :
    ∃ vs, cosetValues R C d major f = .ok ((min R C - 1).toNat, (max R C - 1).toNat, vs) ∧
      List.Forall₂ (fun v g => tnValue R C d g = .ok (.scalar v)) vs (samples4 R C major f) := by
  obtain ⟨vs, h1, h2⟩ := planarRmps_optimized_exact R C d major f hR hC hf
  refine ⟨vs, h1, h2.imp ?_⟩
  intro v g hv
  obtain ⟨v', hv', ht, -, -⟩ := planarRmps_tn_contract_exact R C d g hR hC
  rw [hv] at hv'
  rw [ht, Option.some.inj hv']

/-- **the rotated network's index sum is the coset probability**, all sizes -/
theorem planarRmps_tn_exact_value (R C : Int) (d : Dist Int) (sample : BVec) (hR : 2 ≤ R) (hC : 2 ≤ C)
    (hs : sample.length = 2 * (Planar.nQubits R C).toNat) :
    exactValue (rmpsTn R C d sample) = some (cosetProb d (Planar.stabilizers R C) sample) :=
  PlanarRmpsFactor.exactValue_rmpsTn_eq_cosetProb R C d sample hR hC hs

/-- **`planarRmps_tn_value`**: the model of `mps2d.contract(tn)` (default arguments, no truncation) applied to the
    rotated network returns the coset probability, for all R, C ≥ 2, all distributions and all samples -/
theorem planarRmps_tn_value (R C : Int) (d : Dist Int) (sample : BVec) (hR : 2 ≤ R) (hC : 2 ≤ C)
    (hs : sample.length = 2 * (Planar.nQubits R C).toNat) :
    tnValue R C d sample = .ok (.scalar (cosetProb d (Planar.stabilizers R C) sample)) := by
  obtain ⟨v, hv, ht, -, -⟩ := planarRmps_tn_contract_exact R C d sample hR hC
  rw [planarRmps_tn_exact_value R C d sample hR hC hs] at hv
  rw [ht, ← Option.some.inj hv]

/-- … and right to left (`step = -1`) -/
theorem planarRmps_tn_value_rl (R C : Int) (d : Dist Int) (sample : BVec) (hR : 2 ≤ R) (hC : 2 ≤ C)
    (hs : sample.length = 2 * (Planar.nQubits R C).toNat) :
    contract (rmpsTn R C d sample) none false none none (some (-1)) none
      = .ok (.scalar (cosetProb d (Planar.stabilizers R C) sample)) := by
  obtain ⟨v, hv, -, ht, -⟩ := planarRmps_tn_contract_exact R C d sample hR hC
  rw [planarRmps_tn_exact_value R C d sample hR hC hs] at hv
  rw [ht, ← Option.some.inj hv]

/-- … and row by row: the contraction of `mps2d.transpose(tn)` -/
theorem planarRmps_tn_value_transposed (R C : Int) (d : Dist Int) (sample : BVec) (hR : 2 ≤ R) (hC : 2 ≤ C)
    (hs : sample.length = 2 * (Planar.nQubits R C).toNat) :
    contract (rmpsTn R C d sample).transpose none false none none none none
      = .ok (.scalar (cosetProb d (Planar.stabilizers R C) sample)) := by
  obtain ⟨v, hv, -, -, ht⟩ := planarRmps_tn_contract_exact R C d sample hR hC
  rw [planarRmps_tn_exact_value R C d sample hR hC hs] at hv
  rw [ht, ← Option.some.inj hv]

/-- **the optimised contraction `_tn_contract_optimized` returns the four exact coset probabilities**, for all
    R, C ≥ 2 (square or not), all distributions, all samples, both modes: the column bounds are
    `left_stop = min(R,C) - 1`, `right_stop = max(R,C) - 1`, and the four values are `cosetProb` of
    `f, X f, Z X f, Z f` (diagonal logicals of the mode) -/
theorem planarRmps_optimized_value (R C : Int) (d : Dist Int) (major : Bool) (f : BVec) (hR : 2 ≤ R) (hC : 2 ≤ C)
    (hf : f.length = 2 * (Planar.nQubits R C).toNat) :
    cosetValues R C d major f = .ok ((min R C - 1).toNat, (max R C - 1).toNat,
      (samples4 R C major f).map (cosetProb d (Planar.stabilizers R C))) := by
  obtain ⟨vs, h1, h2⟩ := planarRmps_optimized_exact R C d major f hR hC hf
  rw [h1]
  congr 3
  have hlen : ∀ g ∈ samples4 R C major f, g.length = f.length := by
    intro g hg
    unfold samples4 applyLogicalX applyLogicalZ at hg
    simp only [List.mem_cons, List.not_mem_nil, or_false] at hg
    rcases hg with rfl | rfl | rfl | rfl <;> simp only [PlanarCode.sites_length]
  have key : ∀ (vs : List Int) (gs : List BVec),
      List.Forall₂ (fun v g => exactValue (rmpsTn R C d g) = some v) vs gs → (∀ g ∈ gs, g.length = f.length) →
      vs = gs.map (cosetProb d (Planar.stabilizers R C)) := by
    intro vs gs h
    induction h with
    | nil => intro _; rfl
    | @cons v g vs gs hv _ ih =>
      intro hl
      rw [List.map_cons, ← ih (fun g' hg' => hl g' (List.mem_cons_of_mem _ hg'))]
      congr 1
      rw [planarRmps_tn_exact_value R C d g hR hC ((hl g (List.mem_cons_self ..)).trans hf)] at hv
      exact (Option.some.inj hv).symm
  exact key vs _ h2 hlen

/-! ### non-vacuity: the hypotheses hold for the 2 x 4 code (sides differing by 2), a sample with a non-zero
    syndrome and a biased distribution (numerators over 2^16) -/

def exSample : BVec :=
  [true, false, false, false, false, true, false, false, false, false, false,
   false, false, true, false, false, false, false, false, false, true, false]

example : (2 : Int) ≤ 2 ∧ (2 : Int) ≤ 4 ∧ exSample.length = 2 * (Planar.nQubits 2 4).toNat := by decide

example : synd (Planar.stabilizers 2 4) exSample ≠ zeros (Planar.stabilizers 2 4).length := by decide

example : cosetValues 2 4 ⟨58982, 2185, 1092, 3277⟩ true exSample
    = .ok (1, 3, (samples4 2 4 true exSample).map (cosetProb ⟨58982, 2185, 1092, 3277⟩ (Planar.stabilizers 2 4))) :=
  planarRmps_optimized_value 2 4 _ true exSample (by decide) (by decide) (by decide)

end Qec.C10.PlanarRmpsNetwork
