/-
  C10 — the PROCEDURE of `RotatedPlanarRMPSDecoder._coset_probabilities` is exact.

  `Props/C10/RotatedPlanarRmpsNetwork.lean` proves that each coset's own network, evaluated by `contract(tn, stop=-1)` +
  `inner_product(bra, tn[:, -1])`, gives its `cosetProb`, and says: "that the bra shared between the I/Z (X/Y) variants
  may be shared" is not a theorem.  It is one now.  The real decoder builds
  `tns = [create_tn(prob_dist, p) for p in (f, f·X̄, f·X̄·Z̄, f·Z̄)]` and

    mode 'c':  bra, mult = mps2d.contract(tns[0], stop=-1)  →  slot I = inner_product(bra, tns[0][:, -1]) · mult,
                                                                slot Z = inner_product(bra, tns[3][:, -1]) · mult
               bra, mult = mps2d.contract(tns[1], stop=-1)  →  slot X (ket tns[1]), slot Y (ket tns[2])
    mode 'r':  tns = [mps2d.transpose(tn) for tn in tns], then
               bra from tns[0] → slots I (ket tns[0]) and X (ket tns[1]);  bra from tns[3] → slots Z (ket tns[3]) and
               Y (ket tns[2])
    mode 'a':  both, then the averages `(col + row) / 2`.

  The procedure is modelled literally (Model/PlanarTn.lean `runPlan`; Model/RotatedPlanarRmpsTn.lean `planCols`,
  `planRows`, `cosetValuesC / R / A`; the harness records the real `mps2d.contract` / `mps2d.transpose` /
  `mps.inner_product` calls and compares them and the four values with the model, harness/qv/c10_shared.py).  For ALL
  R, C ≥ 3 (odd, even, non-square in both orientations), all distributions and all samples:

  * `rotated_planar_rmps_shared_columns` / `_shared_rows` — WHY the sharing is sound: `logical_z` acts on the last
    lattice column `x = C - 1` only, `logical_x` on the bottom lattice row `y = 0` only (proved from the model's logical
    site lists); the network cell `(r, c)` holds the q-node of the site `(c, R - 1 - r)` and reads the sample there
    only; hence the networks of `g` and `g·Z̄` have the same columns `< ncols - 1`, and the transposed networks of `g`
    and `g·X̄` have the same columns `< ncols - 1` (= rows of the originals);
  * `rotated_planar_rmps_coset_values_c`, `_r`, `_a` — the modelled procedure returns exactly `cosetProbs4` (order
    I, X̄, Ȳ, Z̄), in every mode (route as in Props/C10/PlanarShared.lean: `contract_congr`, `splitValue_pad`,
    `rotated_planar_rmps_tn_exact_value`).

  What is NOT a theorem: that the real float / mpf contraction equals these exact values (explored numerically by the
  harness); truncation (`chi`, `tol`); the `except` fall-back to 0.0 (never reached by the model).
-/
import QecVerif.Lemmas.RotatedPlanarRmpsShared
import QecVerif.Props.C10.RotatedPlanarRmpsNetwork
namespace Qec.C10.RotatedPlanarRmpsShared
open Qec Qec.Coset Qec.Tensor Qec.TensorAlg Qec.TensorExact Qec.TensorPad Qec.RotatedPlanarRmpsTn
open Qec.RotatedPlanarRmpsFactor Qec.RotatedPlanarRmpsShared Qec.TnShared
open Qec.PlanarTn (runPlan averageValues emptyNet)

/-- **why the column bra may be shared**: the networks of a sample `g` and of `g·Z̄` have the same columns except the
    last one -/
theorem rotated_planar_rmps_shared_columns (R C : Int) (d : Dist Int) (g : BVec) (hR : 3 ≤ R) (hC : 3 ≤ C)
    (hg : g.length = 2 * (RotatedPlanar.nQubits R C).toNat) (c : ℕ) (hc : c + 1 < (rprmpsTn R C d g).ncols) :
    (rprmpsTn R C d (xorV g (RotatedPlanar.logicalZ R C))).col c = (rprmpsTn R C d g).col c := by
  rw [ncols_tn R C d g hC] at hc
  exact col_congr R C d g _ hR hC c (by omega) (fun r hr => sameAt_logicalZ R C hR hC g hg r c hr (by omega))

/-- **why the row bra may be shared**: the TRANSPOSED networks of a sample `g` and of `g·X̄` have the same columns (=
    rows of the networks) except the last one -/
theorem rotated_planar_rmps_shared_rows (R C : Int) (d : Dist Int) (g : BVec) (hR : 3 ≤ R) (hC : 3 ≤ C)
    (hg : g.length = 2 * (RotatedPlanar.nQubits R C).toNat) (r : ℕ)
    (hr : r + 1 < (rprmpsTn R C d g).transpose.ncols) :
    (rprmpsTn R C d (xorV g (RotatedPlanar.logicalX R C))).transpose.col r = (rprmpsTn R C d g).transpose.col r := by
  have hr' : r + 1 < (rprmpsTn R C d g).nrows := hr
  rw [nrows_tn R C d g hR] at hr'
  exact row_congr R C d g _ hR hC r (by omega) (fun c hc => sameAt_logicalX R C hR hC g hg r c (by omega) hc)

private theorem sameAt_refl (R C : Int) (f : BVec) (r c : ℕ) : SameAt R C f f r c := rfl

/-- **`rotated_planar_rmps_coset_values_c`**: the procedure of `RotatedPlanarRMPSDecoder._coset_probabilities` in mode
    'c' (bra of `tns[0]` shared by the cosets I and Z̄, bra of `tns[1]` shared by X̄ and Ȳ; `chi = tol = None`) returns
    the four exact coset probabilities, for all R, C ≥ 3, all distributions and all samples -/
theorem rotated_planar_rmps_coset_values_c (R C : Int) (d : Dist Int) (f : BVec) (hR : 3 ≤ R) (hC : 3 ≤ C)
    (hf : f.length = 2 * (RotatedPlanar.nQubits R C).toNat) :
    cosetValuesC R C d f = .ok (cosetProbs4 d (RotatedPlanar.stabilizers R C) (RotatedPlanar.logicalX R C)
      (RotatedPlanar.logicalZ R C) f) := by
  obtain ⟨_, _, hx, hz⟩ := C07.RotatedPlanar.stabilizer_count R C hR hC
  have h1 := xorV_len hf hx
  have h2 := xorV_len h1 hz
  have h3 := xorV_len hf hz
  have s0 := slot_col R C d f f hR hC hf (fun r c _ _ => sameAt_refl R C f r c)
  have s3 := slot_col R C d f (xorV f (RotatedPlanar.logicalZ R C)) hR hC h3
    (fun r c hr hc => sameAt_logicalZ R C hR hC f hf r c hr hc)
  have s1 := slot_col R C d (xorV f (RotatedPlanar.logicalX R C)) (xorV f (RotatedPlanar.logicalX R C)) hR hC h1
    (fun r c _ _ => sameAt_refl R C _ r c)
  have s2 := slot_col R C d (xorV f (RotatedPlanar.logicalX R C))
    (xorV (xorV f (RotatedPlanar.logicalX R C)) (RotatedPlanar.logicalZ R C)) hR hC h2
    (fun r c hr hc => sameAt_logicalZ R C hR hC _ h1 r c hr hc)
  unfold cosetValuesC planCols tnsOf recoveries4
  simp only [List.map_cons, List.map_nil]
  generalize rprmpsTn R C d f = t0 at s0 s3 ⊢
  generalize rprmpsTn R C d (xorV f (RotatedPlanar.logicalX R C)) = t1 at s1 s2 ⊢
  generalize rprmpsTn R C d (xorV (xorV f (RotatedPlanar.logicalX R C)) (RotatedPlanar.logicalZ R C)) = t2 at s2 ⊢
  generalize rprmpsTn R C d (xorV f (RotatedPlanar.logicalZ R C)) = t3 at s3 ⊢
  rw [runPlan_two4 t0 t1 t2 t3 0 1 0 0 3 3 1 1 2 2 _ _ _ _ _ _ _ _ _ _ rfl rfl rfl rfl rfl rfl s0 s3 s1 s2]
  rfl

/-- **`rotated_planar_rmps_coset_values_r`**: … in mode 'r' (transposed networks; bra of `tns[0]` shared by the cosets I
    and X̄, bra of `tns[3]` shared by Z̄ and Ȳ) -/
theorem rotated_planar_rmps_coset_values_r (R C : Int) (d : Dist Int) (f : BVec) (hR : 3 ≤ R) (hC : 3 ≤ C)
    (hf : f.length = 2 * (RotatedPlanar.nQubits R C).toNat) :
    cosetValuesR R C d f = .ok (cosetProbs4 d (RotatedPlanar.stabilizers R C) (RotatedPlanar.logicalX R C)
      (RotatedPlanar.logicalZ R C) f) := by
  obtain ⟨_, _, hx, hz⟩ := C07.RotatedPlanar.stabilizer_count R C hR hC
  have h1 := xorV_len hf hx
  have h2 := xorV_len h1 hz
  have h3 := xorV_len hf hz
  have e2 : xorV (xorV f (RotatedPlanar.logicalX R C)) (RotatedPlanar.logicalZ R C)
      = xorV (xorV f (RotatedPlanar.logicalZ R C)) (RotatedPlanar.logicalX R C) := by
    rw [Symp.xorV_assoc, Symp.xorV_comm (RotatedPlanar.logicalX R C), ← Symp.xorV_assoc]
  have s0 := slot_row R C d f f hR hC hf (fun r c _ _ => sameAt_refl R C f r c)
  have s1 := slot_row R C d f (xorV f (RotatedPlanar.logicalX R C)) hR hC h1
    (fun r c hr hc => sameAt_logicalX R C hR hC f hf r c hr hc)
  have s3 := slot_row R C d (xorV f (RotatedPlanar.logicalZ R C)) (xorV f (RotatedPlanar.logicalZ R C)) hR hC h3
    (fun r c _ _ => sameAt_refl R C _ r c)
  have s2 := slot_row R C d (xorV f (RotatedPlanar.logicalZ R C))
    (xorV (xorV f (RotatedPlanar.logicalX R C)) (RotatedPlanar.logicalZ R C)) hR hC h2
    (fun r c hr hc => by rw [e2]; exact sameAt_logicalX R C hR hC _ h3 r c hr hc)
  unfold cosetValuesR planRows tnsOf recoveries4
  simp only [List.map_cons, List.map_nil]
  generalize (rprmpsTn R C d f).transpose = t0 at s0 s1 ⊢
  generalize (rprmpsTn R C d (xorV f (RotatedPlanar.logicalX R C))).transpose = t1 at s1 ⊢
  generalize (rprmpsTn R C d (xorV (xorV f (RotatedPlanar.logicalX R C)) (RotatedPlanar.logicalZ R C))).transpose
    = t2 at s2 ⊢
  generalize (rprmpsTn R C d (xorV f (RotatedPlanar.logicalZ R C))).transpose = t3 at s2 s3 ⊢
  rw [runPlan_two4 t0 t1 t2 t3 0 3 0 0 1 1 3 3 2 2 _ _ _ _ _ _ _ _ _ _ rfl rfl rfl rfl rfl rfl s0 s1 s3 s2]
  rfl

/-- **`rotated_planar_rmps_coset_values_a`**: … in mode 'a' (by column, by row, then `(col + row) / 2` per coset) -/
theorem rotated_planar_rmps_coset_values_a (R C : Int) (d : Dist Int) (f : BVec) (hR : 3 ≤ R) (hC : 3 ≤ C)
    (hf : f.length = 2 * (RotatedPlanar.nQubits R C).toNat) :
    cosetValuesA R C d f = .ok ((cosetProbs4 d (RotatedPlanar.stabilizers R C) (RotatedPlanar.logicalX R C)
      (RotatedPlanar.logicalZ R C) f).map fun (v : ℤ) => (v : Rat)) := by
  unfold cosetValuesA
  rw [rotated_planar_rmps_coset_values_c R C d f hR hC hf, rotated_planar_rmps_coset_values_r R C d f hR hC hf]
  simp only [averageValues_self]

/-! ### non-vacuity: the 3 x 4 and 4 x 3 codes, a sample with a non-zero syndrome, a biased distribution -/

example : cosetValuesC 3 4 ⟨58982, 2185, 1092, 3277⟩ RotatedPlanarRmpsNetwork.exSample
    = .ok (cosetProbs4 ⟨58982, 2185, 1092, 3277⟩ (RotatedPlanar.stabilizers 3 4) (RotatedPlanar.logicalX 3 4)
        (RotatedPlanar.logicalZ 3 4) RotatedPlanarRmpsNetwork.exSample) :=
  rotated_planar_rmps_coset_values_c 3 4 _ _ (by decide) (by decide) (by decide)

example : cosetValuesR 4 3 ⟨58982, 2185, 1092, 3277⟩ RotatedPlanarRmpsNetwork.exSample
    = .ok (cosetProbs4 ⟨58982, 2185, 1092, 3277⟩ (RotatedPlanar.stabilizers 4 3) (RotatedPlanar.logicalX 4 3)
        (RotatedPlanar.logicalZ 4 3) RotatedPlanarRmpsNetwork.exSample) :=
  rotated_planar_rmps_coset_values_r 4 3 _ _ (by decide) (by decide) (by decide)

end Qec.C10.RotatedPlanarRmpsShared
