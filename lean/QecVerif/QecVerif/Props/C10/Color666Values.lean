/-
  C10 — the FOUR values of the colour 6.6.6 MPS decoder.  `Color666MPSDecoder._coset_probabilities` builds the networks
  of the sample `f` and of its three logical variants `f·X̄, f·X̄·Z̄, f·Z̄`, contracts ONLY the sample's network from the
  right down to column 1 (`bra = None; ket, mult = mps2d.contract(tns[0], start=-1, stop=0, step=-1)`) and evaluates
  every coset as `inner_product(tn[:, 0], ket) * mult` with that one ket (`Color666Tn.tnValues`).  This file proves that
  the shortcut is exact, for ALL accepted sizes (odd `L ≥ 3`), all distributions (integer numerators), all samples:

  * `color666_variant_columns` — the networks of the sample and of a variant agree in every column `c ≥ 1`: the logical
    operators act on the sites of lattice column 0 only (`Color666.logicalSites`; C07 `occ_logical`), and network cell
    `(i, c)` reads the sample only at lattice sites of column `c` (`Color666Tn.cellKind`: network column = lattice column).
  * `color666_shared_ket` — hence the sample's ket is the variant's own ket (a partial contraction reads only the columns
    of its range, `OptContract.contract_congr`, the lemma written for the shared bra / ket of the rotated MPS decoders).
  * `color666_tn_variant_value` — the value computed for a variant with the sample's ket is the variant's coset
    probability (`color666_tn_value` of Props/C10/Color666Network.lean for the variant).
  * `color666_tn_values` — `tnValues L d f = [Pr(fG), Pr(fX̄G), Pr(fX̄Z̄G), Pr(fZ̄G)]` (all `.ok`), i.e. the spec
    `Coset.cosetProbs4` in the decoder's order I, X̄, Ȳ, Z̄.

  STATED, NOT PROVED: nothing in this file.  What is NOT a theorem: that the real float / mpf contraction (with or without
  truncation `chi`, `tol`) equals the exact value (explored numerically by the harness, `tnvalues`).
-/
import QecVerif.Lemmas.Color666Values
import QecVerif.Props.C10.Color666Network
namespace Qec.C10.Color666Values
open Qec Qec.Coset Qec.Tensor Qec.Symp
open Qec.Color666Tn Qec.Color666 Qec.Color666Code Qec.Color666TnLemmas Qec.Color666Values

private theorem size_eq (L : Int) (hL : 3 ≤ L) (hodd : L % 2 = 1) : ∃ m : ℕ, 1 ≤ m ∧ L = LL m :=
  ⟨((L - 1) / 2).toNat, by omega, by unfold LL; omega⟩

/-- the three logical variants agree with the sample on every in-lattice site outside lattice column 0 -/
private theorem variants_agree (m : ℕ) (hm : 1 ≤ m) (f : BVec) (hf : f.length = 2 * nq (LL m)) :
    ∀ g ∈ variants (LL m) f, g.length = 2 * nq (LL m) ∧ ∀ c : ℕ, 1 ≤ c → AgreeCol (LL m) f g (c : ℤ) := by
  have hx : (logicalX (LL m)).length = 2 * nq (LL m) := siteop_length _ false _
  have hz : (logicalZ (LL m)).length = 2 * nq (LL m) := siteop_length _ true _
  have hfx : (xorV f (logicalX (LL m))).length = 2 * nq (LL m) := Coset.xorV_len hf hx
  have ax : ∀ c : ℕ, 1 ≤ c → AgreeCol (LL m) f (xorV f (logicalX (LL m))) (c : ℤ) :=
    fun c hc => agreeCol_logical m hm false f hf c (by omega)
  have az : ∀ c : ℕ, 1 ≤ c → AgreeCol (LL m) f (xorV f (logicalZ (LL m))) (c : ℤ) :=
    fun c hc => agreeCol_logical m hm true f hf c (by omega)
  have axz : ∀ c : ℕ, 1 ≤ c →
      AgreeCol (LL m) (xorV f (logicalX (LL m))) (xorV (xorV f (logicalX (LL m))) (logicalZ (LL m))) (c : ℤ) :=
    fun c hc => agreeCol_logical m hm true _ hfx c (by omega)
  intro g hg
  unfold variants recoveries4 at hg
  simp only [List.mem_cons, List.not_mem_nil, or_false] at hg
  rcases hg with rfl | rfl | rfl | rfl
  · exact ⟨hf, fun c _ => agreeCol_refl _ _ _⟩
  · exact ⟨hfx, ax⟩
  · exact ⟨Coset.xorV_len hfx hz, fun c hc => agreeCol_trans _ _ _ _ _ (ax c hc) (axz c hc)⟩
  · exact ⟨Coset.xorV_len hf hz, az⟩

/-- **the variant networks differ from the sample's network in column 0 only**: for each of the four sample Paulis `g`
    of `_coset_probabilities` (`f, f·X̄, f·X̄·Z̄, f·Z̄`), every column `c ≥ 1` of `create_tn(prob_dist, g)` is the column
    `c` of `create_tn(prob_dist, f)` -/
theorem color666_variant_columns (L : Int) (d : Dist Int) (f : BVec) (hL : 3 ≤ L) (hodd : L % 2 = 1)
    (hf : f.length = 2 * (nQubits L).toNat) :
    ∀ g ∈ variants L f, (colorTn L d g).ncols = (colorTn L d f).ncols ∧
      ∀ c, 1 ≤ c → c < (colorTn L d f).ncols → (colorTn L d g).col c = (colorTn L d f).col c := by
  obtain ⟨m, hm, rfl⟩ := size_eq L hL hodd
  intro g hg
  obtain ⟨-, ha⟩ := variants_agree m hm f hf g hg
  refine ⟨by rw [ncols_colorTn, ncols_colorTn], fun c h1 h2 => ?_⟩
  rw [ncols_colorTn] at h2
  exact col_congr m d f g c (by omega) (ha c h1)

/-- **the shared ket**: the partial contraction `mps2d.contract(tn, start=-1, stop=0, step=-1)` of the sample's network
    is the one of every variant's network -/
theorem color666_shared_ket (L : Int) (d : Dist Int) (f : BVec) (hL : 3 ≤ L) (hodd : L % 2 = 1)
    (hf : f.length = 2 * (nQubits L).toNat) :
    ∀ g ∈ variants L f,
      contract (colorTn L d f) none false (some (-1)) (some 0) (some (-1)) none
        = contract (colorTn L d g) none false (some (-1)) (some 0) (some (-1)) none := by
  intro g hg
  obtain ⟨hn, hcols⟩ := color666_variant_columns L d f hL hodd hf g hg
  obtain ⟨m, hm, rfl⟩ := size_eq L hL hodd
  apply ket_congr _ _ hn.symm (by rw [ncols_colorTn]; omega)
  intro c h1 h2
  exact (hcols c h1 h2).symm

/-- **one variant**: the value `inner_product(tns[k][:, 0], ket) * mult` computed with the ket of the SAMPLE's network is
    the coset probability of the variant -/
theorem color666_tn_variant_value (L : Int) (d : Dist Int) (f : BVec) (hL : 3 ≤ L) (hodd : L % 2 = 1)
    (hf : f.length = 2 * (nQubits L).toNat) :
    ∀ g ∈ variants L f,
      cosetValue (colorTn L d f) (colorTn L d g) = .ok (cosetProb d (stabilizers L) g) := by
  intro g hg
  have hg' : g.length = 2 * (nQubits L).toNat := by
    obtain ⟨m, hm, rfl⟩ := size_eq L hL hodd
    exact (variants_agree m hm f hf g hg).1
  have hk := color666_shared_ket L d f hL hodd hf g hg
  have hv := C10.Color666Network.color666_tn_value L d g hL hodd hg'
  unfold tnValue cosetValue at hv
  unfold cosetValue
  rw [hk]
  exact hv

/-- **`color666_tn_values`**: the four values `Color666MPSDecoder._coset_probabilities` computes (one shared ket, four
    first columns) are the four coset probabilities of the spec, in the decoder's order I, X̄, Ȳ, Z̄ — for all accepted
    sizes, all distributions, all samples -/
theorem color666_tn_values (L : Int) (d : Dist Int) (f : BVec) (hL : 3 ≤ L) (hodd : L % 2 = 1)
    (hf : f.length = 2 * (nQubits L).toNat) :
    tnValues L d f = (cosetProbs4 d (stabilizers L) (logicalX L) (logicalZ L) f).map .ok := by
  unfold tnValues cosetProbs4
  rw [List.map_map]
  apply List.map_congr_left
  intro g hg
  exact color666_tn_variant_value L d f hL hodd hf g hg

/-- … spelled out -/
theorem color666_tn_values_list (L : Int) (d : Dist Int) (f : BVec) (hL : 3 ≤ L) (hodd : L % 2 = 1)
    (hf : f.length = 2 * (nQubits L).toNat) :
    tnValues L d f =
      [.ok (cosetProb d (stabilizers L) f),
       .ok (cosetProb d (stabilizers L) (xorV f (logicalX L))),
       .ok (cosetProb d (stabilizers L) (xorV (xorV f (logicalX L)) (logicalZ L))),
       .ok (cosetProb d (stabilizers L) (xorV f (logicalZ L)))] := by
  rw [color666_tn_values L d f hL hodd hf]
  rfl

/-! ### non-vacuity: size 3 (the Steane code), the sample of Props/C10/Color666Network.lean (non-zero syndrome, biased
    distribution); the variants are different Paulis -/

open C10.Color666Network in
example : tnValues 3 ⟨58982, 2185, 1092, 3277⟩ exSample
    = (cosetProbs4 ⟨58982, 2185, 1092, 3277⟩ (stabilizers 3) (logicalX 3) (logicalZ 3) exSample).map .ok :=
  color666_tn_values 3 _ exSample (by decide) (by decide) (by decide)

open C10.Color666Network in
example : xorV exSample (logicalX 3) ≠ exSample := by decide

end Qec.C10.Color666Values
