/-
  C10 — the DIAGONAL logicals of `PlanarRMPSDecoder._coset_probabilities` name the right cosets.

  `Props/C10/PlanarRmpsNetwork.lean` proves that the optimised contraction returns `cosetProb` of the four samples
  `f, X f, Z X f, Z f`, where `X` / `Z` are the decoder's OWN logical operators `_logical_x(pauli, major)` /
  `_logical_z(pauli, major)`: X (Z) on the major diagonal `(i, i)`, continued down the rightmost column (along the bottom
  row) when the lattice is tall (wide); mirrored `r ↦ max_row - r` for the contraction by row ("for optimization we
  choose cosets to differ only on the major / minor diagonal").  It lists as NOT a theorem that these operators lie in
  the cosets of the code's `logical_x` / `logical_z`.  This file proves it, for ALL R, C ≥ 2 (square, tall, wide) and both
  diagonals, and concludes that the decoder's four values are the four coset probabilities `cosetProbs4` of the code's
  logicals — the list the maximum-likelihood theorems of Props/C10.lean / Props/C10/Instances.lean are about:

  * `planarRmps_diag_logical_x`, `planarRmps_diag_logical_z` — `_logical_x(g, major) = g · X̄ · s` (resp. `g · Z̄ · s`)
    for a product `s` of stabilizer generators.  Route (Lemmas/PlanarRmpsDiag.lean): closed form of the site lists;
    every plaquette of the opposite type meets the list in an even number of in-lattice sites; the list meets the
    support of the conjugate code logical in exactly one site; hence `X̄ · D` commutes with all stabilizers and both
    logicals and `Symp.normaliser_complete_stab` (for the code C07 `planar_valid` proves valid) applies.
  * `planarRmps_samples_cosets` — hence `cosetProb` of the four samples `samples4` is `cosetProbs4` (any commutative
    semiring of scalars).
  * `planarRmps_coset_values` — **`_tn_contract_optimized` on the four diagonal networks returns
    `(min(R,C)-1, max(R,C)-1, cosetProbs4 d stabilizers logical_x logical_z f)`**, in both modes.

  What is NOT a theorem: that the real float / mpf contraction equals these exact values (explored numerically).
-/
import QecVerif.Lemmas.PlanarRmpsDiag
import QecVerif.Props.C10.PlanarRmpsNetwork
import QecVerif.Props.C10.Instances
namespace Qec.C10.PlanarRmpsLogicals
open Qec Qec.Coset Qec.PlanarRmpsTn Qec.PlanarRmpsDiag

/-- **the diagonal X logical is the code's `logical_x` up to stabilizers**: all R, C ≥ 2, both diagonals, any Pauli `g` -/
theorem planarRmps_diag_logical_x (R C : Int) (hR : 2 ≤ R) (hC : 2 ≤ C) (major : Bool) (g : BVec)
    (hg : g.length = 2 * (Planar.nQubits R C).toNat) :
    ∃ s ∈ spanEnum (2 * (Planar.nQubits R C).toNat) (Planar.stabilizers R C),
      applyLogicalX R C major g = xorV (xorV g (Planar.logicalX R C)) s := by
  have hx := (C07.Planar.stabilizer_count R C hR hC).2.2.1
  refine ⟨_, Symp.mem_spanEnum_of_inSpan _ _ _ (diagX_equiv R C hR hC major (C07.Planar.planar_valid R C hR hC)), ?_⟩
  rw [applyLogicalX_eq R C hR hC major g hg, Symp.xorV_assoc, Coset.xorV_cancel_left hx (diagX_length R C major)]

/-- **the diagonal Z logical is the code's `logical_z` up to stabilizers** -/
theorem planarRmps_diag_logical_z (R C : Int) (hR : 2 ≤ R) (hC : 2 ≤ C) (major : Bool) (g : BVec)
    (hg : g.length = 2 * (Planar.nQubits R C).toNat) :
    ∃ s ∈ spanEnum (2 * (Planar.nQubits R C).toNat) (Planar.stabilizers R C),
      applyLogicalZ R C major g = xorV (xorV g (Planar.logicalZ R C)) s := by
  have hz := (C07.Planar.stabilizer_count R C hR hC).2.2.2
  refine ⟨_, Symp.mem_spanEnum_of_inSpan _ _ _ (diagZ_equiv R C hR hC major (C07.Planar.planar_valid R C hR hC)), ?_⟩
  rw [applyLogicalZ_eq R C hR hC major g hg, Symp.xorV_assoc, Coset.xorV_cancel_left hz (diagZ_length R C major)]

/-- **the four samples of the decoder lie in the four cosets of the code's logicals** (order I, X̄, Ȳ, Z̄) -/
theorem planarRmps_samples_cosets {α : Type} [CommSemiring α] (d : Dist α) (R C : Int) (hR : 2 ≤ R) (hC : 2 ≤ C)
    (major : Bool) (f : BVec) (hf : f.length = 2 * (Planar.nQubits R C).toNat) :
    (samples4 R C major f).map (cosetProb d (Planar.stabilizers R C))
      = cosetProbs4 d (Planar.stabilizers R C) (Planar.logicalX R C) (Planar.logicalZ R C) f := by
  have hv := C07.Planar.planar_valid R C hR hC
  have hS := Instances.planar_codeSpec R C hR hC
  obtain ⟨_, _, hx, hz⟩ := C07.Planar.stabilizer_count R C hR hC
  have hdx := diagX_length R C major
  have hdz := diagZ_length R C major
  have sx := diagX_equiv R C hR hC major hv
  have sz := diagZ_equiv R C hR hC major hv
  have swX : ∀ g : BVec, g.length = 2 * (Planar.nQubits R C).toNat →
      cosetProb d (Planar.stabilizers R C) (xorV g (diagX R C major))
        = cosetProb d (Planar.stabilizers R C) (xorV g (Planar.logicalX R C)) :=
    fun g hg => cosetProb_swap d hS g _ _ hg hx hdx sx
  have swZ : ∀ g : BVec, g.length = 2 * (Planar.nQubits R C).toNat →
      cosetProb d (Planar.stabilizers R C) (xorV g (diagZ R C major))
        = cosetProb d (Planar.stabilizers R C) (xorV g (Planar.logicalZ R C)) :=
    fun g hg => cosetProb_swap d hS g _ _ hg hz hdz sz
  have hfx : (xorV f (diagX R C major)).length = 2 * (Planar.nQubits R C).toNat := xorV_len hf hdx
  have e2 : xorV (xorV f (diagX R C major)) (Planar.logicalZ R C)
      = xorV (xorV f (Planar.logicalZ R C)) (diagX R C major) := by
    rw [Symp.xorV_assoc, Symp.xorV_comm (diagX R C major), ← Symp.xorV_assoc]
  have e3 : xorV (xorV f (Planar.logicalZ R C)) (Planar.logicalX R C)
      = xorV (xorV f (Planar.logicalX R C)) (Planar.logicalZ R C) := by
    rw [Symp.xorV_assoc, Symp.xorV_comm (Planar.logicalZ R C), ← Symp.xorV_assoc]
  unfold samples4 cosetProbs4 recoveries4
  simp only [List.map_cons, List.map_nil]
  rw [applyLogicalX_eq R C hR hC major f hf, applyLogicalZ_eq R C hR hC major _ hfx,
    applyLogicalZ_eq R C hR hC major f hf, swX f hf, swZ _ hfx, swZ f hf, e2, swX _ (xorV_len hf hz), e3]

/-- **`planarRmps_coset_values`**: the optimised procedure of `PlanarRMPSDecoder._coset_probabilities`
    (`_tn_contract_optimized` on the four networks of the diagonal logicals of the mode) returns the column bounds
    `min(R,C) - 1`, `max(R,C) - 1` and the four exact coset probabilities of the CODE's logical cosets, for all
    R, C ≥ 2 (square or not), all distributions, all samples, both modes -/
theorem planarRmps_coset_values (R C : Int) (d : Dist Int) (major : Bool) (f : BVec) (hR : 2 ≤ R) (hC : 2 ≤ C)
    (hf : f.length = 2 * (Planar.nQubits R C).toNat) :
    cosetValues R C d major f = .ok ((min R C - 1).toNat, (max R C - 1).toNat,
      cosetProbs4 d (Planar.stabilizers R C) (Planar.logicalX R C) (Planar.logicalZ R C) f) := by
  rw [PlanarRmpsNetwork.planarRmps_optimized_value R C d major f hR hC hf,
    planarRmps_samples_cosets d R C hR hC major f hf]

/-! ### non-vacuity: the wide 2 x 4 and the tall 4 x 2 code (diagonal + tail along the last row / column); the diagonal
    operators differ from the code's logicals, the sample has a non-zero syndrome, the distribution is biased -/

example : cosetValues 2 4 ⟨58982, 2185, 1092, 3277⟩ true PlanarRmpsNetwork.exSample
    = .ok (1, 3, cosetProbs4 ⟨58982, 2185, 1092, 3277⟩ (Planar.stabilizers 2 4) (Planar.logicalX 2 4)
        (Planar.logicalZ 2 4) PlanarRmpsNetwork.exSample) :=
  planarRmps_coset_values 2 4 _ true PlanarRmpsNetwork.exSample (by decide) (by decide) (by decide)

example : cosetValues 2 4 ⟨58982, 2185, 1092, 3277⟩ false PlanarRmpsNetwork.exSample
    = .ok (1, 3, cosetProbs4 ⟨58982, 2185, 1092, 3277⟩ (Planar.stabilizers 2 4) (Planar.logicalX 2 4)
        (Planar.logicalZ 2 4) PlanarRmpsNetwork.exSample) :=
  planarRmps_coset_values 2 4 _ false PlanarRmpsNetwork.exSample (by decide) (by decide) (by decide)

/-- the statements are not trivial: the decoder's operators are NOT the code's logicals (wide and tall lattice, both
    diagonals), and the tails are really there (`_logical_z` on 2 x 4 has 5 sites, `_logical_x` on 4 x 2 has 5 sites) -/
example : diagX 2 4 true ≠ Planar.logicalX 2 4 ∧ diagZ 2 4 true ≠ Planar.logicalZ 2 4 ∧
    diagX 4 2 false ≠ Planar.logicalX 4 2 ∧ diagZ 4 2 false ≠ Planar.logicalZ 4 2 ∧
    (logicalZSites 2 4 true).length = 5 ∧ (logicalXSites 4 2 true).length = 5 := by decide

example : ∃ s ∈ spanEnum (2 * (Planar.nQubits 4 2).toNat) (Planar.stabilizers 4 2),
    applyLogicalX 4 2 false (Planar.identity 4 2) = xorV (xorV (Planar.identity 4 2) (Planar.logicalX 4 2)) s :=
  planarRmps_diag_logical_x 4 2 (by decide) (by decide) false _ (by decide)

end Qec.C10.PlanarRmpsLogicals
