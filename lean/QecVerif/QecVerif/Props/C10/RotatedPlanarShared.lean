/-
  C10 — the PROCEDURE of `RotatedPlanarMPSDecoder._coset_probabilities` is exact.

  Unlike `PlanarMPSDecoder` and `RotatedPlanarRMPSDecoder` (Props/C10/PlanarShared.lean,
  Props/C10/RotatedPlanarRmpsShared.lean), this decoder shares NOTHING between cosets: read off
  /repo/src/qecsim/models/rotatedplanar/_rotatedplanarmpsdecoder.py, `_coset_probabilities` builds
  `tns = [create_tn(prob_dist, sp) for sp in (f, f·X̄, f·X̄·Z̄, f·Z̄)]` and runs, per mode, four plain
  `coset_ps[i] = mps2d.contract(tns[i])` calls (mode 'r': on `mps2d.transpose(tn)`; mode 'a': both, then the averages
  `(col + row) / 2`).  The harness checks exactly that from outside on every run (four full contractions per mode, one
  per network object, no `inner_product` call of the decoder's own: harness/qv/c10_shared.py), so that a future
  optimisation of this decoder would show up as a bookkeeping mismatch rather than silently leave the model.

  The procedure as a whole (Model/RotatedPlanarTn.lean `fullValue`, `tnsOf`, `cosetValuesC / R / A`) returns the four
  exact coset probabilities `cosetProbs4`, for all R, C ≥ 3, all distributions, all samples, every mode:
  `rotated_planar_tn_coset_values_c`, `_r`, `_a` (from `rotated_planar_tn_value` / `_transposed`).
-/
import QecVerif.Lemmas.TnShared
import QecVerif.Props.C10.RotatedPlanarNetwork
namespace Qec.C10.RotatedPlanarShared
open Qec Qec.Coset Qec.Tensor Qec.RotatedPlanarTn Qec.C10.RotatedPlanarNetwork
open Qec.PlanarTn (averageValues)

private theorem fullValue_of (tn : Net) (v : ℤ) (h : contract tn none false none none none none = .ok (.scalar v)) :
    fullValue tn = .ok v := by
  unfold fullValue; rw [h]

private theorem mapM4 (t0 t1 t2 t3 : Net) (v0 v1 v2 v3 : ℤ) (h0 : fullValue t0 = .ok v0) (h1 : fullValue t1 = .ok v1)
    (h2 : fullValue t2 = .ok v2) (h3 : fullValue t3 = .ok v3) :
    [t0, t1, t2, t3].mapM fullValue = .ok [v0, v1, v2, v3] := by
  simp only [List.mapM_cons, List.mapM_nil, h0, h1, h2, h3, bind, Except.bind, pure, Except.pure]

/-- **`rotated_planar_tn_coset_values_c`**: the procedure of `RotatedPlanarMPSDecoder._coset_probabilities` in mode 'c'
    (four plain contractions) returns the four exact coset probabilities -/
theorem rotated_planar_tn_coset_values_c (R C : Int) (d : Dist Int) (f : BVec) (hR : 3 ≤ R) (hC : 3 ≤ C)
    (hf : f.length = 2 * (RotatedPlanar.nQubits R C).toNat) :
    cosetValuesC R C d f = .ok (cosetProbs4 d (RotatedPlanar.stabilizers R C) (RotatedPlanar.logicalX R C)
      (RotatedPlanar.logicalZ R C) f) := by
  obtain ⟨_, _, hx, hz⟩ := C07.RotatedPlanar.stabilizer_count R C hR hC
  have h1 := xorV_len hf hx
  have h2 := xorV_len h1 hz
  have h3 := xorV_len hf hz
  unfold cosetValuesC tnsOf cosetProbs4 recoveries4
  simp only [List.map_cons, List.map_nil]
  exact mapM4 _ _ _ _ _ _ _ _ (fullValue_of _ _ (rotated_planar_tn_value R C d _ hR hC hf))
    (fullValue_of _ _ (rotated_planar_tn_value R C d _ hR hC h1))
    (fullValue_of _ _ (rotated_planar_tn_value R C d _ hR hC h2))
    (fullValue_of _ _ (rotated_planar_tn_value R C d _ hR hC h3))

/-- **`rotated_planar_tn_coset_values_r`**: … in mode 'r' (the four transposed networks) -/
theorem rotated_planar_tn_coset_values_r (R C : Int) (d : Dist Int) (f : BVec) (hR : 3 ≤ R) (hC : 3 ≤ C)
    (hf : f.length = 2 * (RotatedPlanar.nQubits R C).toNat) :
    cosetValuesR R C d f = .ok (cosetProbs4 d (RotatedPlanar.stabilizers R C) (RotatedPlanar.logicalX R C)
      (RotatedPlanar.logicalZ R C) f) := by
  obtain ⟨_, _, hx, hz⟩ := C07.RotatedPlanar.stabilizer_count R C hR hC
  have h1 := xorV_len hf hx
  have h2 := xorV_len h1 hz
  have h3 := xorV_len hf hz
  unfold cosetValuesR tnsOf cosetProbs4 recoveries4
  simp only [List.map_cons, List.map_nil]
  exact mapM4 _ _ _ _ _ _ _ _ (fullValue_of _ _ (rotated_planar_tn_value_transposed R C d _ hR hC hf))
    (fullValue_of _ _ (rotated_planar_tn_value_transposed R C d _ hR hC h1))
    (fullValue_of _ _ (rotated_planar_tn_value_transposed R C d _ hR hC h2))
    (fullValue_of _ _ (rotated_planar_tn_value_transposed R C d _ hR hC h3))

/-- **`rotated_planar_tn_coset_values_a`**: … in mode 'a' (by column, by row, then `(col + row) / 2` per coset) -/
theorem rotated_planar_tn_coset_values_a (R C : Int) (d : Dist Int) (f : BVec) (hR : 3 ≤ R) (hC : 3 ≤ C)
    (hf : f.length = 2 * (RotatedPlanar.nQubits R C).toNat) :
    cosetValuesA R C d f = .ok ((cosetProbs4 d (RotatedPlanar.stabilizers R C) (RotatedPlanar.logicalX R C)
      (RotatedPlanar.logicalZ R C) f).map fun (v : ℤ) => (v : Rat)) := by
  unfold cosetValuesA
  rw [rotated_planar_tn_coset_values_c R C d f hR hC hf, rotated_planar_tn_coset_values_r R C d f hR hC hf]
  simp only [TnShared.averageValues_self]

/-! ### non-vacuity (3 x 4, the sample of Props/C10/RotatedPlanarNetwork.lean) -/

example : cosetValuesA 3 4 ⟨58982, 2185, 1092, 3277⟩ RotatedPlanarNetwork.exSample
    = .ok ((cosetProbs4 ⟨58982, 2185, 1092, 3277⟩ (RotatedPlanar.stabilizers 3 4) (RotatedPlanar.logicalX 3 4)
        (RotatedPlanar.logicalZ 3 4) RotatedPlanarNetwork.exSample).map fun (v : ℤ) => (v : Rat)) :=
  rotated_planar_tn_coset_values_a 3 4 _ _ (by decide) (by decide) (by decide)

end Qec.C10.RotatedPlanarShared
