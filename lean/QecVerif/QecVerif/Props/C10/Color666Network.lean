/-
  C10 — the NETWORK of the colour 6.6.6 MPS decoder: the tensor network `colorTn L dist sample`
  (Model/Color666Tn.lean, mirroring `Color666MPSDecoder.TNC.create_tn`, compared tensor by tensor with the real code on
  every harness run — harness/qv/c10_color.py) contracts, in exact arithmetic, to the coset probability of the spec
  (Model/Coset.lean) for the stabilizers of `Color666Code(L)` (Model/Lattice/Color666.lean; a valid code by C07
  `color666_valid`), for ALL accepted sizes (odd `L ≥ 3`), all distributions (integer numerators), all sample Paulis.

  * `factor_graph_identity4` — the generic identity for stabilizer tensors that carry TWO generators per delta (legs of
    dimension 4, index 0, 1, 2, 3 = I, X, Y, Z): `Lemmas/FactorGraph4.lean` generalises `Lemmas/FactorGraph.lean`
    (whose statements are unchanged); as for `factor_graph_identity` no independence of the generators is needed.
  * `color666_tn_exact_value` — the literal index sum (`exactValue`, C11) of the network is `cosetProb`.
  * `color666_tn_full_value`, `_rl` — the model of the default `mps2d.contract(tn)` (and of `step = -1`) returns that
    value (C11, `None`-padded columns).
  * `color666_tn_value` — the evaluation the decoder actually performs for the coset of the sample
    (`mps2d.contract(tn, start=-1, stop=0, step=-1)`, then `inner_product(tn[:, 0], ket) * mult`; `Color666Tn.tnValue`)
    returns that value.

  STATED, NOT PROVED: nothing in this file.  (Audit note: an earlier version listed here the statement about the three
  logical variants `g ∈ {f·X̄, f·X̄·Z̄, f·Z̄}`, for which the decoder reuses the ket of the sample's own network,
  `cosetValue (colorTn L d f) (colorTn L d g) = .ok (cosetProb d (stabilizers L) g)`.  It is PROVED for all odd `L ≥ 3` in
  Props/C10/Color666Values.lean: `color666_variant_columns` (the networks agree in every column `≥ 1`; the logical
  operators act on lattice column 0 only), `color666_shared_ket`, `color666_tn_variant_value` (exactly the statement
  above) and `color666_tn_values` / `color666_tn_values_list` (the four values are `cosetProbs4`).)
  What is NOT a theorem: that the real float / mpf contraction equals the exact value (explored numerically).
-/
import QecVerif.Lemmas.Color666Tn
import QecVerif.Props.C11
namespace Qec.C10.Color666Network
open Finset Qec Qec.Coset Qec.Tensor Qec.TensorAlg Qec.TensorExact Qec.TensorPad Qec.FactorGraph Qec.FactorGraph4
open Qec.Color666Tn Qec.Color666 Qec.Color666TnLemmas

/-- **factor-graph identity, two generators per delta.**  `L` lists, per plaquette, the bond variables of its delta
    tensor (pairwise disjoint, non-empty, dimension 4); `SX`, `SZ` are the two generator lists (same length as `L`).  If,
    for all bit lists `βx, βz`, the entry of every qubit tensor at the assignment "every leg of plaquette `i` carries the
    Pauli index `pidx βxᵢ βzᵢ`" is `d((f ⊕ (βx ++ βz)·(SX ++ SZ))_q)`, then the sum over all bond assignments of the
    product of all tensors is `cosetProb d (SX ++ SZ) f`. -/
theorem factor_graph_identity4 {α : Type} [CommSemiring α] {ι : Type} [DecidableEq ι] (dim : ι → ℕ)
    (L : List (List ι)) (d : Dist α) (SX SZ : List BVec) (f : BVec) (n : ℕ)
    (hx : L.length = SX.length) (hz : L.length = SZ.length) (hn : L.flatten.Nodup) (hne : ∀ l ∈ L, l ≠ [])
    (hd : ∀ b ∈ L.flatten, dim b = 4) (hf : f.length = 2 * n) (hS : AllLen (2 * n) (SX ++ SZ))
    (Q : ℕ → (ι → ℕ) → α) (τ : ι → ℕ)
    (hQ : ∀ βx βz : List Bool, βx.length = L.length → βz.length = L.length → ∀ q < n,
      Q q (assignN L (List.zipWith pidx βx βz) τ)
        = d.at ((xorV f (xorComb (2 * n) (βx ++ βz) (SX ++ SZ))).getD q false)
            ((xorV f (xorComb (2 * n) (βx ++ βz) (SX ++ SZ))).getD (n + q) false)) :
    sumV dim L.flatten (fun t => (L.map fun l => FactorGraph.star l t).prod * ∏ q ∈ range n, Q q t) τ
      = cosetProb d (SX ++ SZ) f := by
  rw [sumV_starsK 4 dim L hn hne hd]
  apply sumB4_eq_span f.length L SX SZ hx hz _ (fun g => weight d (xorV f g))
  intro βx βz h1 h2
  have hc : (xorComb (2 * n) (βx ++ βz) (SX ++ SZ)).length = 2 * n :=
    spanEnum_len hS _ ((mem_spanEnum_iff (2 * n) (SX ++ SZ) _).mpr
      ⟨βx ++ βz, by rw [List.length_append, List.length_append, h1, h2, ← hx, ← hz], rfl⟩)
  rw [hf, weight_eq_prod d n _ (xorV_len hf hc)]
  exact prod_congr rfl (fun q hq => hQ βx βz h1 h2 q (mem_range.mp hq))

private theorem size_eq (L : Int) (hL : 3 ≤ L) (hodd : L % 2 = 1) : ∃ m : ℕ, 1 ≤ m ∧ L = LL m :=
  ⟨((L - 1) / 2).toNat, by omega, by unfold LL; omega⟩

/-- **the colour network's index sum is the coset probability**, all accepted sizes: C11's `exactValue` (the literal sum
    over all bond-index assignments of the product of all tensor entries, `None` cells = scalar 1) of the decoder's
    network is `cosetProb` of the code's stabilizers -/
theorem color666_tn_exact_value (L : Int) (d : Dist Int) (sample : BVec) (hL : 3 ≤ L) (hodd : L % 2 = 1)
    (hs : sample.length = 2 * (nQubits L).toNat) :
    exactValue (colorTn L d sample) = some (cosetProb d (stabilizers L) sample) := by
  obtain ⟨m, hm, rfl⟩ := size_eq L hL hodd
  exact exactValue_colorTn_eq_cosetProb m hm d sample hs

/-- the model of the default full contraction `mps2d.contract(tn)` (column by column, left to right, no truncation;
    columns padded with `None`) applied to the colour network returns the coset probability -/
theorem color666_tn_full_value (L : Int) (d : Dist Int) (sample : BVec) (hL : 3 ≤ L) (hodd : L % 2 = 1)
    (hs : sample.length = 2 * (nQubits L).toNat) :
    tnFull L d sample = .ok (.scalar (cosetProb d (stabilizers L) sample)) := by
  obtain ⟨m, hm, rfl⟩ := size_eq L hL hodd
  exact C11.contract_lr_exact _ (padded_colorTn m hm d sample) _ (exactValue_colorTn_eq_cosetProb m hm d sample hs)

/-- … and right to left (`step = -1`) -/
theorem color666_tn_full_value_rl (L : Int) (d : Dist Int) (sample : BVec) (hL : 3 ≤ L) (hodd : L % 2 = 1)
    (hs : sample.length = 2 * (nQubits L).toNat) :
    contract (colorTn L d sample) none false none none (some (-1)) none
      = .ok (.scalar (cosetProb d (stabilizers L) sample)) := by
  obtain ⟨m, hm, rfl⟩ := size_eq L hL hodd
  exact C11.contract_rl_exact _ (padded_colorTn m hm d sample) _ (exactValue_colorTn_eq_cosetProb m hm d sample hs)

/-- **`color666_tn_value`**: the evaluation the decoder performs for the coset of the sample —
    `ket, mult = mps2d.contract(tn, start=-1, stop=0, step=-1)` (right to left over all columns but the first, no
    truncation), then `inner_product(tn[:, 0], ket) * mult` (`Color666Tn.tnValue`, C11's model of `contract` and
    `inner_product`) — returns the coset probability, for all accepted sizes, all distributions, all samples -/
theorem color666_tn_value (L : Int) (d : Dist Int) (sample : BVec) (hL : 3 ≤ L) (hodd : L % 2 = 1)
    (hs : sample.length = 2 * (nQubits L).toNat) :
    tnValue L d sample = .ok (cosetProb d (stabilizers L) sample) := by
  obtain ⟨m, hm, rfl⟩ := size_eq L hL hodd
  have hnc : 2 ≤ (colorTn (LL m) d sample).ncols := by rw [ncols_colorTn]; omega
  exact cosetValue_self _ hnc _ (C11.contract_split _ (padded_colorTn m hm d sample) _
    (exactValue_colorTn_eq_cosetProb m hm d sample hs) 1 (by decide) (by omega))

/-! ### non-vacuity: size 3 (the Steane code), a sample with a non-zero syndrome, a biased distribution -/

def exSample : BVec :=
  [true, false, false, true, false, false, false, false, false, true, false, false, false, true]

example : (3 : Int) ≤ 3 ∧ (3 : Int) % 2 = 1 ∧ exSample.length = 2 * (nQubits 3).toNat := by decide

example : synd (stabilizers 3) exSample ≠ zeros (stabilizers 3).length := by decide

example : tnValue 3 ⟨58982, 2185, 1092, 3277⟩ exSample
    = .ok (cosetProb ⟨58982, 2185, 1092, 3277⟩ (stabilizers 3) exSample) :=
  color666_tn_value 3 _ exSample (by decide) (by decide) (by decide)

example : tnFull 3 ⟨58982, 2185, 1092, 3277⟩ exSample
    = .ok (.scalar (cosetProb ⟨58982, 2185, 1092, 3277⟩ (stabilizers 3) exSample)) :=
  color666_tn_full_value 3 _ exSample (by decide) (by decide) (by decide)

end Qec.C10.Color666Network
