/-
  C10, last sentence of the property — "independently constructed networks for the same code (standard vs rotated, by
  column vs by row) agree with each other" — as theorems about the modelled decoder procedures, in exact arithmetic, for
  ALL accepted sizes, all distributions (integer numerators), all samples.  Every statement is a corollary of the
  per-decoder theorems "the procedure returns `cosetProbs4` of the code's stabilizers and logicals":

  * `planar_rmps_modes_agree` — `PlanarRMPSDecoder`: the contraction by column (cosets chosen to differ on the major
    diagonal) and by row (minor diagonal) return the same column bounds and the same four values
    (Props/C10/PlanarRmpsLogicals.lean `planarRmps_coset_values`: the two sets of diagonal logicals name the same cosets);
  * `planar_mps_rmps_agree` — the four values of `PlanarRMPSDecoder` (either mode) are the four values of
    `PlanarMPSDecoder` in mode 'c', in mode 'r' and (as rationals) in mode 'a' (Props/C10/PlanarShared.lean);
  * `rotated_planar_mps_rmps_agree` — `RotatedPlanarMPSDecoder` and `RotatedPlanarRMPSDecoder` return the same four
    values in mode 'c', 'r' and 'a', and each decoder's modes agree with each other
    (Props/C10/RotatedPlanarShared.lean, Props/C10/RotatedPlanarRmpsShared.lean).

  What is NOT a theorem: agreement of the real float / mpf results (explored numerically by the harness).
-/
import QecVerif.Props.C10.PlanarRmpsLogicals
import QecVerif.Props.C10.PlanarShared
import QecVerif.Props.C10.RotatedPlanarShared
import QecVerif.Props.C10.RotatedPlanarRmpsShared
namespace Qec.C10.Agreement
open Qec Qec.Coset

/-- `PlanarRMPSDecoder`: by column (major diagonal) and by row (minor diagonal) give the same result -/
theorem planar_rmps_modes_agree (R C : Int) (d : Dist Int) (f : BVec) (hR : 2 ≤ R) (hC : 2 ≤ C)
    (hf : f.length = 2 * (Planar.nQubits R C).toNat) :
    PlanarRmpsTn.cosetValues R C d true f = PlanarRmpsTn.cosetValues R C d false f := by
  rw [PlanarRmpsLogicals.planarRmps_coset_values R C d true f hR hC hf,
    PlanarRmpsLogicals.planarRmps_coset_values R C d false f hR hC hf]

/-- standard vs rotated network of the planar code: the four values of `PlanarRMPSDecoder` (either mode) are those of
    `PlanarMPSDecoder` in every mode -/
theorem planar_mps_rmps_agree (R C : Int) (d : Dist Int) (major : Bool) (f : BVec) (hR : 2 ≤ R) (hC : 2 ≤ C)
    (hf : f.length = 2 * (Planar.nQubits R C).toNat) :
    (PlanarRmpsTn.cosetValues R C d major f).map (fun t => t.2.2) = PlanarTn.cosetValuesC R C d f ∧
    (PlanarRmpsTn.cosetValues R C d major f).map (fun t => t.2.2) = PlanarTn.cosetValuesR R C d f ∧
    (PlanarRmpsTn.cosetValues R C d major f).map (fun t => t.2.2.map fun (v : ℤ) => (v : Rat))
      = PlanarTn.cosetValuesA R C d f := by
  rw [PlanarRmpsLogicals.planarRmps_coset_values R C d major f hR hC hf,
    PlanarShared.planar_tn_coset_values_c R C d f hR hC hf, PlanarShared.planar_tn_coset_values_r R C d f hR hC hf,
    PlanarShared.planar_tn_coset_values_a R C d f hR hC hf]
  exact ⟨rfl, rfl, rfl⟩

/-- standard vs rotated network of the rotated planar code, and by column vs by row: all four procedures return the same
    four values, and the two 'a' modes the same rationals -/
theorem rotated_planar_mps_rmps_agree (R C : Int) (d : Dist Int) (f : BVec) (hR : 3 ≤ R) (hC : 3 ≤ C)
    (hf : f.length = 2 * (RotatedPlanar.nQubits R C).toNat) :
    RotatedPlanarTn.cosetValuesC R C d f = RotatedPlanarRmpsTn.cosetValuesC R C d f ∧
    RotatedPlanarTn.cosetValuesR R C d f = RotatedPlanarRmpsTn.cosetValuesR R C d f ∧
    RotatedPlanarTn.cosetValuesC R C d f = RotatedPlanarTn.cosetValuesR R C d f ∧
    RotatedPlanarTn.cosetValuesA R C d f = RotatedPlanarRmpsTn.cosetValuesA R C d f := by
  rw [RotatedPlanarShared.rotated_planar_tn_coset_values_c R C d f hR hC hf,
    RotatedPlanarShared.rotated_planar_tn_coset_values_r R C d f hR hC hf,
    RotatedPlanarShared.rotated_planar_tn_coset_values_a R C d f hR hC hf,
    RotatedPlanarRmpsShared.rotated_planar_rmps_coset_values_c R C d f hR hC hf,
    RotatedPlanarRmpsShared.rotated_planar_rmps_coset_values_r R C d f hR hC hf,
    RotatedPlanarRmpsShared.rotated_planar_rmps_coset_values_a R C d f hR hC hf]
  exact ⟨rfl, rfl, rfl, rfl⟩

/-! ### non-vacuity: the 2 x 4 planar and the 3 x 4 rotated planar code, samples with non-zero syndromes (see
    Props/C10/PlanarRmpsNetwork.lean, Props/C10/RotatedPlanarNetwork.lean), a biased distribution -/

example : PlanarRmpsTn.cosetValues 2 4 ⟨58982, 2185, 1092, 3277⟩ true PlanarRmpsNetwork.exSample
    = PlanarRmpsTn.cosetValues 2 4 ⟨58982, 2185, 1092, 3277⟩ false PlanarRmpsNetwork.exSample :=
  planar_rmps_modes_agree 2 4 _ _ (by decide) (by decide) (by decide)

example : (PlanarRmpsTn.cosetValues 2 4 ⟨58982, 2185, 1092, 3277⟩ false PlanarRmpsNetwork.exSample).map (fun t => t.2.2)
    = PlanarTn.cosetValuesC 2 4 ⟨58982, 2185, 1092, 3277⟩ PlanarRmpsNetwork.exSample :=
  (planar_mps_rmps_agree 2 4 _ false _ (by decide) (by decide) (by decide)).1

example : RotatedPlanarTn.cosetValuesC 3 4 ⟨58982, 2185, 1092, 3277⟩ RotatedPlanarNetwork.exSample
    = RotatedPlanarRmpsTn.cosetValuesR 3 4 ⟨58982, 2185, 1092, 3277⟩ RotatedPlanarNetwork.exSample := by
  obtain ⟨h1, h2, h3, -⟩ := rotated_planar_mps_rmps_agree 3 4 ⟨58982, 2185, 1092, 3277⟩ RotatedPlanarNetwork.exSample
    (by decide) (by decide) (by decide)
  rw [h3, h2]

end Qec.C10.Agreement
