/-
  C10 — the NETWORK side for the rotated planar ROTATED MPS decoder (`RotatedPlanarRMPSDecoder`), the last tensor-network
  decoder whose network was outside the model: the tensor network of `TNC.create_tn` (Model/RotatedPlanarRmpsTn.lean: an
  `R x C` array with ONE tensor per qubit, no `None`, no stabilizer tensors; every stabilizer delta split into 3-leg
  deltas — a horseshoe open at the top for even, at the bottom for odd plaquette columns — absorbed into the qubit
  tensors by `einsum('nesw,nIj,eJk,sKl,wLi->iIjJKkLl', …).reshape(…)`, bonds of dimension 1, 2 or 4; the 2 x 10
  hand-written shape cases of `create_q_node`; compared tensor by tensor with the real code on every harness run,
  harness/qv/c10_rprmps.py) contracts, in exact arithmetic, to the coset probability of the spec (Model/Coset.lean) for
  the model's `RotatedPlanar.stabilizers R C` (the matrix C07 proves valid).

  For ALL R, C ≥ 3 (the sizes `RotatedPlanarCode` accepts: odd, even, non-square), all distributions (integer
  numerators, as the driver uses) and all sample Paulis:
  * `rotated_planar_rmps_shapes` — the shape table of `create_q_node` (h/v-node, even/odd column, nine compass
    directions) at the site `(x, y)` IS the closed form `shapesOf`: the leg towards a plaquette has dimension 2 iff the
    plaquette is in the lattice, and the link along a side of a plaquette has dimension 2 iff `On` (both end points are
    sites and, for a 4-site plaquette, the side is not the open side of its horseshoe); in particular the
    `raise ValueError` branch (v-node in the SW corner) is never taken: `rotated_planar_rmps_no_none`;
  * `rotated_planar_rmps_qnode_entry` — the einsum + reshape of `create_q_node`, evaluated: at the leg indices made of the
    link values the entry is (the two links of each of the four corner plaquettes agree) × (the bare
    `h_node_value` / `v_node_value` at the four corner bits);
  * `rotated_planar_rmps_tn_exact_value` — C11's `exactValue` (the literal sum over all bond-index assignments of the
    product of all tensor entries) of `rprmpsTn R C dist sample` is `cosetProb dist stabilizers sample`: every bond is
    split into its two links (`sumV_split2`), the agreement constraints of all cells are the delta stars of the
    plaquettes (the ≤ 3 links of each horseshoe), then `C10.factor_graph_identity`'s ingredients
    `sumV_stars` / `sumB_eq_span`;
  * `rotated_planar_rmps_tn_value`, `_rl`, `_transposed` — the model of `mps2d.contract` applied to the network (left to
    right, right to left) and to `mps2d.transpose(tn)` returns that value;
  * `rotated_planar_rmps_tn_decoder_value` — so does the evaluation `_coset_probabilities` performs
    (`bra, mult = mps2d.contract(tn, stop=-1)`, then `inner_product(bra, tn[:, -1]) * mult`), in mode 'c' and, on the
    transposed network, in mode 'r';
  * `rotated_planar_rmps_tn_coset_values` — hence the four values for the sample Paulis `f, f·X̄, f·X̄·Z̄, f·Z̄` are
    `cosetProbs4` (the list the C10 maximum-likelihood theorems are about), in both modes.

  What is NOT a theorem: that the real float / mpf contraction equals this exact value (explored numerically by the
  harness).  NOT IN THIS FILE, but proved in Props/C10/RotatedPlanarRmpsShared.lean
  (`rotated_planar_rmps_shared_columns` / `_shared_rows`, `rotated_planar_rmps_coset_values_c` / `_r` / `_a`): that the
  bra shared between the I/Z (X/Y) variants in `_coset_probabilities` may be shared (the variants differ only in the last
  column; in this file each variant is evaluated with its own network).
-/
import QecVerif.Lemmas.RotatedPlanarRmpsFactor
import QecVerif.Props.C10.Network
import QecVerif.Props.C11
import QecVerif.Props.C07.RotatedPlanar
namespace Qec.C10.RotatedPlanarRmpsNetwork
open Finset Qec Qec.Coset Qec.Tensor Qec.TensorAlg Qec.TensorExact Qec.TensorPad Qec.RotatedPlanarRmpsTn
open Qec.RotatedPlanarRmpsLemmas Qec.RotatedPlanarRmpsFactor

/-- **the shape table of `create_q_node` in closed form**, for every site of every accepted lattice -/
theorem rotated_planar_rmps_shapes (R C x y : Int) (hR : 3 ≤ R) (hC : 3 ≤ C)
    (hs : RotatedPlanar.inSiteBounds R C x y = true) :
    qShapes (RotatedPlanar.isZPlaquette x y) (decide (x % 2 = 0)) (RotatedPlanarTn.qRowDir R y)
      (RotatedPlanarTn.qColDir C x) = some (shapesOf R C x y) :=
  qShapes_eq R C x y hR hC ((RotatedPlanarCode.inSiteBounds_iff R C x y).mp hs) _ (by simp)

/-- **`create_q_node` never raises**: the network has no `None` site (the v-node 'sw' case does not occur) -/
theorem rotated_planar_rmps_no_none (R C : Int) (d : Dist Int) (sample : BVec) (hR : 3 ≤ R) (hC : 3 ≤ C) :
    NoneFree (rprmpsTn R C d sample) := noneFree_tn R C d sample hR hC

/-- **the einsum of `create_q_node`, evaluated**: the entry of the q-node of the site `(x, y)` at the leg indices
    `(i·|I| + I, j·|J| + J, K·|k| + k, L·|l| + l)` -/
theorem rotated_planar_rmps_qnode_entry (R C x y : Int) (hs : RotatedPlanarCode.SiteIn R C x y)
    (bare : ℕ → ℕ → ℕ → ℕ → ℤ) (i I j J K k L l : ℕ)
    (hI : I < ld R C x y .W) (hj : j < ld R C x y .S) (hJ : J < ld R C x (y - 1) .N) (hk : k < ld R C x (y - 1) .W)
    (hK : K < ld R C (x - 1) (y - 1) .E) (hl : l < ld R C (x - 1) (y - 1) .N) (hL : L < ld R C (x - 1) y .S)
    (hi : i < ld R C (x - 1) y .E) :
    qEntry (shapesOf R C x y) bare (i * ld R C x y .W + I) (j * ld R C x (y - 1) .N + J)
        (K * ld R C x (y - 1) .W + k) (L * ld R C (x - 1) (y - 1) .N + l)
      = (if (ld R C x y .W = 2 ∧ ld R C x y .S = 2 → I = j) then 1 else 0)
        * (if (ld R C x (y - 1) .N = 2 ∧ ld R C x (y - 1) .W = 2 → J = k) then 1 else 0)
        * (if (ld R C (x - 1) (y - 1) .E = 2 ∧ ld R C (x - 1) (y - 1) .N = 2 → K = l) then 1 else 0)
        * (if (ld R C (x - 1) y .S = 2 ∧ ld R C (x - 1) y .E = 2 → L = i) then 1 else 0)
        * bare (if ld R C x y .W = 2 then I else if ld R C x y .S = 2 then j else 0)
            (if ld R C x (y - 1) .N = 2 then J else if ld R C x (y - 1) .W = 2 then k else 0)
            (if ld R C (x - 1) (y - 1) .E = 2 then K else if ld R C (x - 1) (y - 1) .N = 2 then l else 0)
            (if ld R C (x - 1) y .S = 2 then L else if ld R C (x - 1) y .E = 2 then i else 0) :=
  qEntry_collapse R C x y hs bare i I j J K k L l hI hj hJ hk hK hl hL hi

/-- **the rotated planar RMPS network's index sum is the coset probability**, all sizes -/
theorem rotated_planar_rmps_tn_exact_value (R C : Int) (d : Dist Int) (sample : BVec) (hR : 3 ≤ R) (hC : 3 ≤ C)
    (hs : sample.length = 2 * (RotatedPlanar.nQubits R C).toNat) :
    exactValue (rprmpsTn R C d sample) = some (cosetProb d (RotatedPlanar.stabilizers R C) sample) :=
  exactValue_tn_eq_cosetProb R C d sample hR hC hs

private theorem padded (R C : Int) (d : Dist Int) (sample : BVec) (hR : 3 ≤ R) (hC : 3 ≤ C) :
    PaddedRows (rprmpsTn R C d sample) :=
  noneFree_padded _ (by rw [nrows_tn R C d sample hR]; omega) (by rw [ncols_tn R C d sample hC]; omega)
    (noneFree_tn R C d sample hR hC)

private theorem padded_transpose (R C : Int) (d : Dist Int) (sample : BVec) (hR : 3 ≤ R) (hC : 3 ≤ C) :
    PaddedRows (rprmpsTn R C d sample).transpose :=
  noneFree_padded _ (by show 0 < (rprmpsTn R C d sample).ncols; rw [ncols_tn R C d sample hC]; omega)
    (by show 0 < (rprmpsTn R C d sample).nrows; rw [nrows_tn R C d sample hR]; omega)
    (noneFree_transpose _ (noneFree_tn R C d sample hR hC))

private theorem grid_scalar (R C : Int) (d : Dist Int) (sample : BVec) (hR : 3 ≤ R) (hC : 3 ≤ C)
    (hs : sample.length = 2 * (RotatedPlanar.nQubits R C).toNat) :
    TensorAlg.scalar (gridT (netF (rprmpsTn R C d sample)) (mR R) (nC C))
      = cosetProb d (RotatedPlanar.stabilizers R C) sample := by
  have h := exactValue_eq_gridT _ _ _ (compat_tn R C d sample hR hC) (compatible_tn R C d sample hR hC)
  rw [exactValue_tn_eq_cosetProb R C d sample hR hC hs] at h
  exact (Option.some.inj h).symm

/-- **`rotated_planar_rmps_tn_value`**: the model of `mps2d.contract(tn)` (default arguments: column by column, left
    to right, no truncation) applied to the network returns the coset probability, for all R, C ≥ 3, all distributions
    and all samples -/
theorem rotated_planar_rmps_tn_value (R C : Int) (d : Dist Int) (sample : BVec) (hR : 3 ≤ R) (hC : 3 ≤ C)
    (hs : sample.length = 2 * (RotatedPlanar.nQubits R C).toNat) :
    tnValue R C d sample = .ok (.scalar (cosetProb d (RotatedPlanar.stabilizers R C) sample)) := by
  unfold tnValue
  rw [contract_lr_pad _ _ _ (compat_tn R C d sample hR hC) (padded R C d sample hR hC),
    grid_scalar R C d sample hR hC hs]

/-- … and right to left (`step = -1`) -/
theorem rotated_planar_rmps_tn_value_rl (R C : Int) (d : Dist Int) (sample : BVec) (hR : 3 ≤ R) (hC : 3 ≤ C)
    (hs : sample.length = 2 * (RotatedPlanar.nQubits R C).toNat) :
    contract (rprmpsTn R C d sample) none false none none (some (-1)) none
      = .ok (.scalar (cosetProb d (RotatedPlanar.stabilizers R C) sample)) := by
  rw [contract_rl_pad _ _ _ (compat_tn R C d sample hR hC) (padded R C d sample hR hC),
    grid_scalar R C d sample hR hC hs]

/-- … and row by row: the contraction of `mps2d.transpose(tn)` -/
theorem rotated_planar_rmps_tn_value_transposed (R C : Int) (d : Dist Int) (sample : BVec) (hR : 3 ≤ R) (hC : 3 ≤ C)
    (hs : sample.length = 2 * (RotatedPlanar.nQubits R C).toNat) :
    tnValueR R C d sample = .ok (.scalar (cosetProb d (RotatedPlanar.stabilizers R C) sample)) := by
  unfold tnValueR
  rw [contract_transpose_pad _ _ _ (compat_tn R C d sample hR hC) (padded_transpose R C d sample hR hC),
    grid_scalar R C d sample hR hC hs]

/-- the index sum of the TRANSPOSED network is the same coset probability -/
theorem rotated_planar_rmps_tn_exact_value_transposed (R C : Int) (d : Dist Int) (sample : BVec) (hR : 3 ≤ R)
    (hC : 3 ≤ C) (hs : sample.length = 2 * (RotatedPlanar.nQubits R C).toNat) :
    exactValue (rprmpsTn R C d sample).transpose = some (cosetProb d (RotatedPlanar.stabilizers R C) sample) := by
  have hc := compat_tn R C d sample hR hC
  have hcT := compat_transpose _ _ _ hc
  have hpT := padded_transpose R C d sample hR hC
  rw [exactValue_eq_gridT _ _ _ hcT (PlanarRmpsLemmas.compatible_of_compat _ _ _ hcT)]
  have h1 := contract_lr_pad _ _ _ hcT hpT
  have h2 := rotated_planar_rmps_tn_value_transposed R C d sample hR hC hs
  unfold tnValueR at h2
  rw [h1] at h2
  injection h2 with h2
  injection h2 with h2
  rw [h2]

/-- **`rotated_planar_rmps_tn_decoder_value`**: the evaluation `_coset_probabilities` performs for the coset of the
    sample — `bra, mult = mps2d.contract(tn, stop=-1)` (all columns but the last, left to right, no truncation), then
    `inner_product(bra, tn[:, -1]) * mult`; in mode 'r' on `mps2d.transpose(tn)` — returns the coset probability, for
    all R, C ≥ 3, all distributions, all samples, both modes -/
theorem rotated_planar_rmps_tn_decoder_value (R C : Int) (d : Dist Int) (byRow : Bool) (sample : BVec) (hR : 3 ≤ R)
    (hC : 3 ≤ C) (hs : sample.length = 2 * (RotatedPlanar.nQubits R C).toNat) :
    tnValueD R C d byRow sample = .ok (cosetProb d (RotatedPlanar.stabilizers R C) sample) := by
  unfold tnValueD
  cases byRow
  · simp only [Bool.false_eq_true, if_false]
    have hnc : 2 ≤ (rprmpsTn R C d sample).ncols := by rw [ncols_tn R C d sample hC]; unfold nC; omega
    exact cosetValue_self _ hnc _ (C11.contract_split _ (padded R C d sample hR hC) _
      (rotated_planar_rmps_tn_exact_value R C d sample hR hC hs) _ (by omega) (by omega))
  · simp only [if_true]
    have hnc : 2 ≤ (rprmpsTn R C d sample).transpose.ncols := by
      show 2 ≤ (rprmpsTn R C d sample).nrows; rw [nrows_tn R C d sample hR]; unfold mR; omega
    exact cosetValue_self _ hnc _ (C11.contract_split _ (padded_transpose R C d sample hR hC) _
      (rotated_planar_rmps_tn_exact_value_transposed R C d sample hR hC hs) _ (by omega) (by omega))

/-- **the four values of `_coset_probabilities`**: for the sample Paulis `f, f·X̄, f·X̄·Z̄, f·Z̄` (the model's
    `recoveries4` with the code's logicals) the plain contractions of the network and of its transpose, and the
    decoder's own evaluation in both modes, return `cosetProbs4`, the list of exact coset probabilities in the decoders'
    order I, X̄, Ȳ, Z̄ -/
theorem rotated_planar_rmps_tn_coset_values (R C : Int) (d : Dist Int) (f : BVec) (hR : 3 ≤ R) (hC : 3 ≤ C)
    (hf : f.length = 2 * (RotatedPlanar.nQubits R C).toNat) :
    (recoveries4 (RotatedPlanar.logicalX R C) (RotatedPlanar.logicalZ R C) f).map (tnValue R C d)
      = (cosetProbs4 d (RotatedPlanar.stabilizers R C) (RotatedPlanar.logicalX R C) (RotatedPlanar.logicalZ R C) f).map
          (fun v => .ok (.scalar v)) ∧
    (recoveries4 (RotatedPlanar.logicalX R C) (RotatedPlanar.logicalZ R C) f).map (tnValueR R C d)
      = (cosetProbs4 d (RotatedPlanar.stabilizers R C) (RotatedPlanar.logicalX R C) (RotatedPlanar.logicalZ R C) f).map
          (fun v => .ok (.scalar v)) ∧
    ∀ byRow, (recoveries4 (RotatedPlanar.logicalX R C) (RotatedPlanar.logicalZ R C) f).map (tnValueD R C d byRow)
      = (cosetProbs4 d (RotatedPlanar.stabilizers R C) (RotatedPlanar.logicalX R C) (RotatedPlanar.logicalZ R C) f).map
          (fun v => .ok v) := by
  obtain ⟨_, _, hx, hz⟩ := C07.RotatedPlanar.stabilizer_count R C hR hC
  have h1 := xorV_len hf hx
  have h2 := xorV_len h1 hz
  have h3 := xorV_len hf hz
  unfold cosetProbs4 recoveries4
  simp only [List.map_cons, List.map_nil]
  rw [rotated_planar_rmps_tn_value R C d _ hR hC hf, rotated_planar_rmps_tn_value R C d _ hR hC h1,
    rotated_planar_rmps_tn_value R C d _ hR hC h2, rotated_planar_rmps_tn_value R C d _ hR hC h3,
    rotated_planar_rmps_tn_value_transposed R C d _ hR hC hf, rotated_planar_rmps_tn_value_transposed R C d _ hR hC h1,
    rotated_planar_rmps_tn_value_transposed R C d _ hR hC h2, rotated_planar_rmps_tn_value_transposed R C d _ hR hC h3]
  refine ⟨rfl, rfl, fun byRow => ?_⟩
  rw [rotated_planar_rmps_tn_decoder_value R C d byRow _ hR hC hf,
    rotated_planar_rmps_tn_decoder_value R C d byRow _ hR hC h1,
    rotated_planar_rmps_tn_decoder_value R C d byRow _ hR hC h2,
    rotated_planar_rmps_tn_decoder_value R C d byRow _ hR hC h3]

/-! ### non-vacuity: the hypotheses hold for the 3 x 4 code (rows + cols odd, non-square), a sample with a non-zero
    syndrome and a biased distribution (numerators over 2^16) -/

def exSample : BVec :=
  [true, false, false, false, false, true, false, false, false, false, false, true,
   false, false, false, true, false, false, false, false, false, false, true, false]

example : (3 : Int) ≤ 3 ∧ (3 : Int) ≤ 4 ∧ exSample.length = 2 * (RotatedPlanar.nQubits 3 4).toNat := by decide

example : synd (RotatedPlanar.stabilizers 3 4) exSample ≠ zeros (RotatedPlanar.stabilizers 3 4).length := by
  decide +kernel

example : tnValue 3 4 ⟨58982, 2185, 1092, 3277⟩ exSample
    = .ok (.scalar (cosetProb ⟨58982, 2185, 1092, 3277⟩ (RotatedPlanar.stabilizers 3 4) exSample)) :=
  rotated_planar_rmps_tn_value 3 4 _ exSample (by decide) (by decide) (by decide)

example : tnValueD 3 4 ⟨58982, 2185, 1092, 3277⟩ false exSample
    = .ok (cosetProb ⟨58982, 2185, 1092, 3277⟩ (RotatedPlanar.stabilizers 3 4) exSample) :=
  rotated_planar_rmps_tn_decoder_value 3 4 _ false exSample (by decide) (by decide) (by decide)

/-- the network really has the mixed bond dimensions: the 3 x 4 code's shapes (n.e.s.w), row-major -/
example : (rprmpsTn 3 4 ⟨58982, 2185, 1092, 3277⟩ exSample).a.toList.map (fun s => (siteT s).n * 1000 +
    (siteT s).e * 100 + (siteT s).s * 10 + (siteT s).w)
    = [1221, 1242, 1242, 1122, 2241, 4242, 4242, 2142, 4211, 4212, 4212, 4112] := by
  decide +kernel

end Qec.C10.RotatedPlanarRmpsNetwork
