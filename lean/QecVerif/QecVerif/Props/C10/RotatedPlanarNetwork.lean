/-
  C10 — the NETWORK side for the ROTATED PLANAR MPS decoder: the tensor network of
  `RotatedPlanarMPSDecoder.TNC.create_tn` (Model/RotatedPlanarTn.lean: the lattice rotated by 45 degrees into an
  `(R+C-1) x (R+C-1)` array padded with `None`, three shape dictionaries, compass directions; compared cell by cell
  with the real code on every harness run, harness/qv/c10_rplanar.py) contracts, in exact arithmetic, to the coset
  probability of the spec (Model/Coset.lean) for the model's `RotatedPlanar.stabilizers R C` (the matrix C07 proves
  valid: `C07.RotatedPlanar.rotated_planar_valid`).

  For ALL R, C ≥ 3 (the sizes `RotatedPlanarCode` accepts: odd, even, non-square), all distributions (integer
  numerators, as the driver uses) and all sample Paulis:
  * `rotated_planar_tn_exact_value` — C11's `exactValue` (the literal sum over all bond-index assignments of the product
    of all tensor entries, `None` ↦ scalar 1) of `rplanarTn R C dist sample` is `cosetProb dist stabilizers sample`
    (via `C10.factor_graph_identity`'s ingredients `sumV_stars` / `sumB_eq_span`; the dummy bonds towards `None`
    cells are dropped first);
  * `rotated_planar_tn_value` — the model of `mps2d.contract(tn)` (the decoder's mode 'c', `chi = tol = None`) returns
    that value; `rotated_planar_tn_value_transposed` — so does the contraction of `mps2d.transpose(tn)` (mode 'r');
    `rotated_planar_tn_value_rl` — and the right-to-left sweep (not used by the decoder);
  * `rotated_planar_tn_coset_values` — hence the four values `_coset_probabilities` computes for the sample Paulis
    `f, f·X̄, f·X̄·Z̄, f·Z̄` are `cosetProbs4` (the list the C10 maximum-likelihood theorems are about), in both modes
    (mode 'a' averages two equal lists).

  What is NOT a theorem: that the real float / mpf contraction equals this exact value (explored numerically by the
  harness).  The network of `RotatedPlanarRMPSDecoder` is NOT in this file: it is modelled in
  Model/RotatedPlanarRmpsTn.lean and proved in Props/C10/RotatedPlanarRmpsNetwork.lean (see the note at the end of this
  file).
-/
import QecVerif.Lemmas.RotatedPlanarTnQubit
import QecVerif.Props.C10.Network
import QecVerif.Props.C07.RotatedPlanar
namespace Qec.C10.RotatedPlanarNetwork
open Finset Qec Qec.Coset Qec.Tensor Qec.TensorAlg Qec.TensorExact Qec.TensorPad Qec.RotatedPlanarTn
open Qec.RotatedPlanarTnLemmas

/-- **the rotated planar network's index sum is the coset probability**, all sizes -/
theorem rotated_planar_tn_exact_value (R C : Int) (d : Dist Int) (sample : BVec) (hR : 3 ≤ R) (hC : 3 ≤ C)
    (hs : sample.length = 2 * (RotatedPlanar.nQubits R C).toNat) :
    exactValue (rplanarTn R C d sample) = some (cosetProb d (RotatedPlanar.stabilizers R C) sample) :=
  exactValue_rplanarTn_eq_cosetProb R C d sample hR hC hs

private theorem rplanar_grid_scalar (R C : Int) (d : Dist Int) (sample : BVec) (hR : 3 ≤ R) (hC : 3 ≤ C)
    (hs : sample.length = 2 * (RotatedPlanar.nQubits R C).toNat) :
    TensorAlg.scalar (gridT (netF (rplanarTn R C d sample)) (N R C) (N R C))
      = cosetProb d (RotatedPlanar.stabilizers R C) sample := by
  have h := exactValue_eq_gridT _ _ _ (compat_rplanarTn R C d sample hR hC) (compatible_rplanarTn R C d sample hR hC)
  rw [exactValue_rplanarTn_eq_cosetProb R C d sample hR hC hs] at h
  exact (Option.some.inj h).symm

/-- **`rotated_planar_tn_value`**: the model of `mps2d.contract(tn)` (default arguments: column by column, left to
    right, no truncation — the decoder's mode 'c' with `chi = tol = None`) applied to the rotated planar network
    (`None` padding included) returns the coset probability, for all R, C ≥ 3, all distributions and all samples -/
theorem rotated_planar_tn_value (R C : Int) (d : Dist Int) (sample : BVec) (hR : 3 ≤ R) (hC : 3 ≤ C)
    (hs : sample.length = 2 * (RotatedPlanar.nQubits R C).toNat) :
    tnValue R C d sample = .ok (.scalar (cosetProb d (RotatedPlanar.stabilizers R C) sample)) := by
  unfold tnValue
  rw [contract_lr_pad _ _ _ (compat_rplanarTn R C d sample hR hC) (padded_rplanarTn R C d sample hR hC),
    rplanar_grid_scalar R C d sample hR hC hs]

/-- … and right to left (`step = -1`) -/
theorem rotated_planar_tn_value_rl (R C : Int) (d : Dist Int) (sample : BVec) (hR : 3 ≤ R) (hC : 3 ≤ C)
    (hs : sample.length = 2 * (RotatedPlanar.nQubits R C).toNat) :
    contract (rplanarTn R C d sample) none false none none (some (-1)) none
      = .ok (.scalar (cosetProb d (RotatedPlanar.stabilizers R C) sample)) := by
  rw [contract_rl_pad _ _ _ (compat_rplanarTn R C d sample hR hC) (padded_rplanarTn R C d sample hR hC),
    rplanar_grid_scalar R C d sample hR hC hs]

/-- … and row by row: the contraction of `mps2d.transpose(tn)` (the decoder's mode 'r') -/
theorem rotated_planar_tn_value_transposed (R C : Int) (d : Dist Int) (sample : BVec) (hR : 3 ≤ R) (hC : 3 ≤ C)
    (hs : sample.length = 2 * (RotatedPlanar.nQubits R C).toNat) :
    tnValueR R C d sample = .ok (.scalar (cosetProb d (RotatedPlanar.stabilizers R C) sample)) := by
  unfold tnValueR
  rw [contract_transpose_pad _ _ _ (compat_rplanarTn R C d sample hR hC)
    (padded_transpose_rplanarTn R C d sample hR hC), rplanar_grid_scalar R C d sample hR hC hs]

/-- **the four values of `_coset_probabilities`**: for the sample Paulis `f, f·X̄, f·X̄·Z̄, f·Z̄` (the model's
    `recoveries4` with the code's logicals) both contraction modes return `cosetProbs4`, the list of exact coset
    probabilities in the decoders' order I, X̄, Ȳ, Z̄ -/
theorem rotated_planar_tn_coset_values (R C : Int) (d : Dist Int) (f : BVec) (hR : 3 ≤ R) (hC : 3 ≤ C)
    (hf : f.length = 2 * (RotatedPlanar.nQubits R C).toNat) :
    (recoveries4 (RotatedPlanar.logicalX R C) (RotatedPlanar.logicalZ R C) f).map (tnValue R C d)
      = (cosetProbs4 d (RotatedPlanar.stabilizers R C) (RotatedPlanar.logicalX R C) (RotatedPlanar.logicalZ R C) f).map
          (fun v => .ok (.scalar v)) ∧
    (recoveries4 (RotatedPlanar.logicalX R C) (RotatedPlanar.logicalZ R C) f).map (tnValueR R C d)
      = (cosetProbs4 d (RotatedPlanar.stabilizers R C) (RotatedPlanar.logicalX R C) (RotatedPlanar.logicalZ R C) f).map
          (fun v => .ok (.scalar v)) := by
  obtain ⟨_, _, hx, hz⟩ := C07.RotatedPlanar.stabilizer_count R C hR hC
  have h1 := xorV_len hf hx
  have h2 := xorV_len h1 hz
  have h3 := xorV_len hf hz
  unfold cosetProbs4 recoveries4
  simp only [List.map_cons, List.map_nil]
  rw [rotated_planar_tn_value R C d _ hR hC hf, rotated_planar_tn_value R C d _ hR hC h1,
    rotated_planar_tn_value R C d _ hR hC h2, rotated_planar_tn_value R C d _ hR hC h3,
    rotated_planar_tn_value_transposed R C d _ hR hC hf, rotated_planar_tn_value_transposed R C d _ hR hC h1,
    rotated_planar_tn_value_transposed R C d _ hR hC h2, rotated_planar_tn_value_transposed R C d _ hR hC h3]
  exact ⟨rfl, rfl⟩

/-! ### non-vacuity: the hypotheses hold for the 3 x 4 code (even width, non-square), a sample with a non-zero
    syndrome and a biased distribution (numerators over 2^16) -/

def exSample : BVec :=
  [true, false, false, false, false, true, false, false, false, false, false, true,
   false, false, false, true, false, false, false, false, false, false, true, false]

example : (3 : Int) ≤ 3 ∧ (3 : Int) ≤ 4 ∧ exSample.length = 2 * (RotatedPlanar.nQubits 3 4).toNat := by decide

example : synd (RotatedPlanar.stabilizers 3 4) exSample ≠ zeros (RotatedPlanar.stabilizers 3 4).length := by
  decide +kernel

example : tnValue 3 4 ⟨58982, 2185, 1092, 3277⟩ exSample
    = .ok (.scalar (cosetProb ⟨58982, 2185, 1092, 3277⟩ (RotatedPlanar.stabilizers 3 4) exSample)) :=
  rotated_planar_tn_value 3 4 _ exSample (by decide) (by decide) (by decide)

/-- the network really is padded: 13 of the 36 cells (12 qubit + 11 stabilizer tensors) of the 3 x 4 code's network are `None` -/
example : ((rplanarTn 3 4 ⟨58982, 2185, 1092, 3277⟩ exSample).a.toList.filter Option.isNone).length = 13 := by
  decide +kernel

/-
  NOT IN THIS FILE (but PROVED elsewhere) — `RotatedPlanarRMPSDecoder` (`_rotatedplanarrmpsdecoder.py`).  Its network is
  NOT a re-indexing of `rplanarTn`: `TNC.create_tn` builds an `R x C` array with ONE tensor per qubit at
  `(r, c) = (R-1-y, x)`, no `None`, and NO stabilizer tensors.  Every stabilizer delta is split into (up to) four 3-leg
  deltas (`tsr.delta(n_shape)` … `w_shape`, a "horseshoe": open at the top for even columns, at the bottom for odd ones)
  which `create_q_node` absorbs into the neighbouring qubit tensors:
  `einsum('nesw,nIj,eJk,sKl,wLi->iIjJKkLl', q, δn, δe, δs, δw).reshape(|i||I|, |j||J|, |K||k|, |L||l|)`, so the bonds
  of the network are the horseshoe links, merged pairwise (row-major) into bonds of dimension 1, 2 or 4
  (e.g. 3 x 3: shapes `1221 1242 1142 / 2241 4242 4122 / 4211 4212 2112`), with 2 x 10 hand-written shape cases.

  Audit note: an earlier version of this file listed `exactValue (rplanarRTn R C d f) = some (cosetProb d
  (RotatedPlanar.stabilizers R C) f)` and the corresponding `contract` statements as STATED, NOT PROVED, with a five-step
  plan (model of `create_q_node`; bond splitting; collapse of the inner einsum; horseshoe stars; `sumB_eq_span`).  That
  plan has been carried out — the model is called `rprmpsTn` (Model/RotatedPlanarRmpsTn.lean), not `rplanarRTn`:
    * `C10.RotatedPlanarRmpsNetwork.rotated_planar_rmps_tn_exact_value` — `exactValue (rprmpsTn R C d f) = some (cosetProb …)`,
      all R, C ≥ 3 (steps (1)–(5): `rotated_planar_rmps_shapes`, `rotated_planar_rmps_qnode_entry`,
      Lemmas/RotatedPlanarRmpsTn.lean, Lemmas/RotatedPlanarRmpsFactor.lean);
    * `rotated_planar_rmps_tn_value`, `_rl`, `_transposed`, `rotated_planar_rmps_tn_decoder_value`,
      `rotated_planar_rmps_tn_coset_values` — the `contract` statements;
    * `C10.RotatedPlanarRmpsShared.rotated_planar_rmps_coset_values_c / _r / _a` — the decoder's shared-bra procedure.
  Nothing about that decoder remains open on the exact-arithmetic side.
-/

end Qec.C10.RotatedPlanarNetwork
