/-
  C10 — the NETWORK side: the planar MPS decoder's tensor network (Model/PlanarTn.lean, mirroring
  `PlanarMPSDecoder.TNC.create_tn`, compared tensor by tensor with the real code on every harness run) contracts, in
  exact arithmetic, to the coset probability of the spec (Model/Coset.lean).

  * `factor_graph_identity` — generic, any commutative semiring, any index type for the bonds: a state sum in which
    the stabilizer tensors are deltas on disjoint non-empty sets of 2-dimensional legs and every qubit tensor,
    evaluated at the assignment "each leg of stabilizer i carries the bit βᵢ", is `dist((f · Π Sᵢ^βᵢ)_q)`, equals
    `cosetProb dist S f`.  NOTE (deviation from DESIGN.md §7): independence of the generators is NOT needed for this
    identity — `cosetProb` is by definition the sum over the `2^|S|` XOR-combinations (the fold `spanEnum`), and the
    collapsed state sum is literally that sum; independence (C07 `planar_valid`) is what makes those combinations
    pairwise distinct, i.e. makes `cosetProb` the probability of the coset as a SET (`C10.spanEnum_spec`).
  * `planar_tn_exact_value`, `planar_tn_value`, `planar_tn_value_rl`, `planar_tn_value_transposed` — for ALL
    R, C ≥ 2 (the sizes `PlanarCode` allows), all distributions (integer numerators, as the driver uses), all sample
    Paulis: the literal index sum (`exactValue`, C11) of `planarTn R C dist sample`, and the model of
    `mps2d.contract` applied to it left-to-right, right-to-left and to the transposed network (the decoder's modes
    'c' and 'r'), all equal `cosetProb dist (Planar.stabilizers R C) sample`.

  What is NOT a theorem: that the real float / mpf contraction equals this exact value (explored numerically by
  harness/qv/props/c10.py).  The networks of the other decoders are modelled and proved in their own files:
  Props/C10/PlanarRmpsNetwork.lean (`planarRmps_tn_exact_value`, `planarRmps_optimized_value`),
  Props/C10/RotatedPlanarNetwork.lean (`rotated_planar_tn_exact_value`), Props/C10/RotatedPlanarRmpsNetwork.lean
  (`rotated_planar_rmps_tn_exact_value`), Props/C10/Color666Network.lean (`color666_tn_exact_value`); the decoders'
  shared-bra / shared-ket procedures in Props/C10/PlanarShared.lean, RotatedPlanarShared.lean,
  RotatedPlanarRmpsShared.lean, Color666Values.lean.
-/
import QecVerif.Lemmas.PlanarTn
namespace Qec.C10
open Finset Qec Qec.Coset Qec.Tensor Qec.TensorAlg Qec.TensorExact Qec.TensorPad Qec.FactorGraph Qec.PlanarTn
open Qec.PlanarTnLemmas

/-- **factor-graph identity.**  `L` lists, per stabilizer generator `Sᵢ`, the bond variables of its delta tensor
    (pairwise disjoint, non-empty, dimension 2); `star l t` is the delta tensor of one stabilizer as a function of the
    bond assignment `t`; `Q q t` is the entry of qubit `q`'s tensor selected by `t`.  If, for every bit list `β`, the
    entry of every qubit tensor at the assignment `assign L β τ` (every leg of stabilizer `i` carries `βᵢ`) is
    `d((f ⊕ β·S)_q)`, then the sum over all bond assignments of the product of all tensors is `cosetProb d S f`. -/
theorem factor_graph_identity {α : Type} [CommSemiring α] {ι : Type} [DecidableEq ι] (dim : ι → ℕ)
    (L : List (List ι)) (d : Dist α) (S : List BVec) (f : BVec) (n : ℕ)
    (hlen : L.length = S.length) (hn : L.flatten.Nodup) (hne : ∀ l ∈ L, l ≠ []) (hd : ∀ b ∈ L.flatten, dim b = 2)
    (hf : f.length = 2 * n) (hS : AllLen (2 * n) S) (Q : ℕ → (ι → ℕ) → α) (τ : ι → ℕ)
    (hQ : ∀ β : List Bool, β.length = S.length → ∀ q < n,
      Q q (assign L β τ) = d.at ((xorV f (xorComb (2 * n) β S)).getD q false)
        ((xorV f (xorComb (2 * n) β S)).getD (n + q) false)) :
    sumV dim L.flatten (fun t => (L.map fun l => star l t).prod * ∏ q ∈ range n, Q q t) τ = cosetProb d S f := by
  rw [sumV_stars dim L hn hne hd]
  apply sumB_eq_span f.length L S hlen _ (fun g => weight d (xorV f g))
  intro β hβ
  have hc : (xorComb (2 * n) β S).length = 2 * n :=
    spanEnum_len hS _ ((mem_spanEnum_iff (2 * n) S _).mpr ⟨β, hβ, rfl⟩)
  rw [hf, weight_eq_prod d n _ (xorV_len hf hc)]
  exact prod_congr rfl (fun q hq => hQ β hβ q (mem_range.mp hq))

/-- **the planar network's index sum is the coset probability**, all sizes: C11's `exactValue` (the literal sum over all
    bond-index assignments of the product of all tensor entries) of the decoder's network is `cosetProb` -/
theorem planar_tn_exact_value (R C : Int) (d : Dist Int) (sample : BVec) (hR : 2 ≤ R) (hC : 2 ≤ C)
    (hs : sample.length = 2 * (Planar.nQubits R C).toNat) :
    exactValue (planarTn R C d sample) = some (cosetProb d (Planar.stabilizers R C) sample) :=
  exactValue_planarTn_eq_cosetProb R C d sample hR hC hs

private theorem planar_grid_scalar (R C : Int) (d : Dist Int) (sample : BVec) (hR : 2 ≤ R) (hC : 2 ≤ C)
    (hs : sample.length = 2 * (Planar.nQubits R C).toNat) :
    TensorAlg.scalar (gridT (netF (planarTn R C d sample)) (M R) (M C))
      = cosetProb d (Planar.stabilizers R C) sample := by
  have h := exactValue_eq_gridT _ _ _ (compat_planarTn R C d sample hR hC) (compatible_planarTn R C d sample hR hC)
  rw [exactValue_planarTn_eq_cosetProb R C d sample hR hC hs] at h
  exact (Option.some.inj h).symm

/-- **`planar_tn_value`**: the model of `mps2d.contract(tn)` (default arguments: column by column, left to right, no
    truncation — the decoder's mode 'c' with `chi = tol = None`) applied to the planar network returns the coset
    probability, for all R, C ≥ 2, all distributions and all samples -/
theorem planar_tn_value (R C : Int) (d : Dist Int) (sample : BVec) (hR : 2 ≤ R) (hC : 2 ≤ C)
    (hs : sample.length = 2 * (Planar.nQubits R C).toNat) :
    tnValue R C d sample = .ok (.scalar (cosetProb d (Planar.stabilizers R C) sample)) := by
  have hp := noneFree_padded _ (by rw [nrows_planarTn R C d sample hR]; omega)
    (by rw [ncols_planarTn R C d sample hC]; omega) (noneFree_planarTn R C d sample hR hC)
  unfold tnValue
  rw [contract_lr_pad _ _ _ (compat_planarTn R C d sample hR hC) hp, planar_grid_scalar R C d sample hR hC hs]

/-- … and right to left (`step = -1`) -/
theorem planar_tn_value_rl (R C : Int) (d : Dist Int) (sample : BVec) (hR : 2 ≤ R) (hC : 2 ≤ C)
    (hs : sample.length = 2 * (Planar.nQubits R C).toNat) :
    contract (planarTn R C d sample) none false none none (some (-1)) none
      = .ok (.scalar (cosetProb d (Planar.stabilizers R C) sample)) := by
  have hp := noneFree_padded _ (by rw [nrows_planarTn R C d sample hR]; omega)
    (by rw [ncols_planarTn R C d sample hC]; omega) (noneFree_planarTn R C d sample hR hC)
  rw [contract_rl_pad _ _ _ (compat_planarTn R C d sample hR hC) hp, planar_grid_scalar R C d sample hR hC hs]

/-- … and row by row: the contraction of `mps2d.transpose(tn)` (the decoder's mode 'r') -/
theorem planar_tn_value_transposed (R C : Int) (d : Dist Int) (sample : BVec) (hR : 2 ≤ R) (hC : 2 ≤ C)
    (hs : sample.length = 2 * (Planar.nQubits R C).toNat) :
    contract (planarTn R C d sample).transpose none false none none none none
      = .ok (.scalar (cosetProb d (Planar.stabilizers R C) sample)) := by
  have hp := noneFree_padded (planarTn R C d sample).transpose
    (by show 0 < (planarTn R C d sample).ncols; rw [ncols_planarTn R C d sample hC]; omega)
    (by show 0 < (planarTn R C d sample).nrows; rw [nrows_planarTn R C d sample hR]; omega)
    (noneFree_transpose _ (noneFree_planarTn R C d sample hR hC))
  rw [contract_transpose_pad _ _ _ (compat_planarTn R C d sample hR hC) hp,
    planar_grid_scalar R C d sample hR hC hs]

/-! ### non-vacuity: the hypotheses hold for the 2 x 3 code, a sample with a non-zero syndrome and a biased
    distribution (numerators over 2^16) -/

def exSample : BVec :=
  [true, false, false, false, false, true, false, false, false, false, false, true, false, false, false, false]

example : (2 : Int) ≤ 2 ∧ (2 : Int) ≤ 3 ∧ exSample.length = 2 * (Planar.nQubits 2 3).toNat := by decide

example : synd (Planar.stabilizers 2 3) exSample ≠ zeros (Planar.stabilizers 2 3).length := by decide

example : tnValue 2 3 ⟨58982, 2185, 1092, 3277⟩ exSample
    = .ok (.scalar (cosetProb ⟨58982, 2185, 1092, 3277⟩ (Planar.stabilizers 2 3) exSample)) :=
  planar_tn_value 2 3 _ exSample (by decide) (by decide) (by decide)

end Qec.C10
