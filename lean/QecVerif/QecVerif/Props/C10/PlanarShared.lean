/-
  C10 — the PROCEDURE of `PlanarMPSDecoder._coset_probabilities` is exact.

  `Props/C10/Network.lean` proves that the plain contraction of each coset's own network returns its `cosetProb`.  The
  real decoder does not do that: it builds `tns = [create_tn(prob_dist, p) for p in (f, f·X̄, f·X̄·Z̄, f·Z̄)]` and

    mode 'c':  bra_i, mult = mps2d.contract(tns[0], stop=-1)   →  slot I = inner_product(bra_i, tns[0][:, -1]) · mult,
                                                                   slot X = inner_product(bra_i, tns[1][:, -1]) · mult
               bra_z, mult = mps2d.contract(tns[3], stop=-1)   →  slot Y = inner_product(bra_z, tns[2][:, -1]) · mult,
                                                                   slot Z = inner_product(bra_z, tns[3][:, -1]) · mult
    mode 'r':  tns = [mps2d.transpose(tn) for tn in tns], then
               bra_i from tns[0] → slots I (ket tns[0]) and Z (ket tns[3]);  bra_x from tns[1] → slots X (ket tns[1]) and
               Y (ket tns[2])
    mode 'a':  both, then the averages `(col + row) / 2`.

  That procedure is modelled literally (Model/PlanarTn.lean: `sharedBra`, `ketValue`, `runGroup`, `runPlan`, the plans
  `planC` / `planR`, `cosetValuesC / R / A`; the harness records the real `mps2d.contract` / `mps2d.transpose` /
  `mps.inner_product` calls of `_coset_probabilities` — network object, start / stop / step, ket column — and compares
  them and the four values with the model, harness/qv/c10_shared.py).  For ALL R, C ≥ 2 (square, tall `R > C`, wide
  `R < C`), all distributions (integer numerators) and all samples:

  * `planar_tn_shared_columns` / `planar_tn_shared_rows` — WHY the sharing is sound: `logical_x` acts on the last lattice
    column only and `logical_z` on the last lattice row only (proved from the model's logical site lists), the network
    node at `(r, c)` reads the sample at the site `(r, c)` only, hence the networks of `g` and `g·X̄` have the same
    columns `< ncols - 1` and the transposed networks of `g` and `g·Z̄` the same columns `< ncols - 1` (= rows of the
    originals);
  * `planar_tn_coset_values_c`, `_r`, `_a` — the modelled procedure returns exactly the four exact coset probabilities
    `cosetProbs4` (order I, X̄, Ȳ, Z̄), in every mode.  Route: a partial contraction reads only the columns of its range
    (`OptContract.contract_congr`), so the shared bra IS the bra of the paired variant; the recombination is C11's
    split-and-recombine at the last column (`TensorPad.splitValue_pad`, the lemma behind `C11.contract_split`); the merged
    grid tensor is `cosetProb` by `planar_tn_exact_value`.

  What is NOT a theorem: that the real float / mpf contraction equals these exact values (explored numerically by the
  harness); truncation (`chi`, `tol`) and the `stp` mask; the `except` fall-back to 0.0 (never reached by the model:
  the theorems show it returns `ok`).
-/
import QecVerif.Lemmas.PlanarShared
import QecVerif.Props.C10.Network
import QecVerif.Props.C11
import QecVerif.Props.C07.Planar
namespace Qec.C10.PlanarShared
open Qec Qec.Coset Qec.Tensor Qec.TensorAlg Qec.TensorExact Qec.TensorPad Qec.PlanarTn Qec.PlanarTnLemmas
open Qec.PlanarShared Qec.TnShared
open Qec.RotatedPlanarRmpsTn (cosetValue)

/-- **why the column bra may be shared**: the networks of a sample `g` and of `g·X̄` have the same columns except the
    last one -/
theorem planar_tn_shared_columns (R C : Int) (d : Dist Int) (g : BVec) (hR : 2 ≤ R) (hC : 2 ≤ C)
    (hg : g.length = 2 * (Planar.nQubits R C).toNat) (c : ℕ)
    (hc : c + 1 < (planarTn R C d g).ncols) :
    (planarTn R C d (xorV g (Planar.logicalX R C))).col c = (planarTn R C d g).col c := by
  rw [ncols_planarTn R C d g hC] at hc
  exact col_congr R C d g _ hR hC c (by omega) (fun r hr => sameAt_logicalX R C hR hC g hg r c hr (by omega))

/-- **why the row bra may be shared**: the TRANSPOSED networks of a sample `g` and of `g·Z̄` have the same columns (=
    rows of the networks) except the last one -/
theorem planar_tn_shared_rows (R C : Int) (d : Dist Int) (g : BVec) (hR : 2 ≤ R) (hC : 2 ≤ C)
    (hg : g.length = 2 * (Planar.nQubits R C).toNat) (r : ℕ)
    (hr : r + 1 < (planarTn R C d g).transpose.ncols) :
    (planarTn R C d (xorV g (Planar.logicalZ R C))).transpose.col r = (planarTn R C d g).transpose.col r := by
  have hr' : r + 1 < (planarTn R C d g).nrows := hr
  rw [nrows_planarTn R C d g hR] at hr'
  exact row_congr R C d g _ hR hC r (by omega) (fun c hc => sameAt_logicalZ R C hR hC g hg r c (by omega) hc)

private theorem sameAt_refl (R C : Int) (f : BVec) (r c : ℕ) : SameAt R C f f r c := fun _ => rfl

/-- **`planar_tn_coset_values_c`**: the procedure of `PlanarMPSDecoder._coset_probabilities` in mode 'c' (bra of
    `tns[0]` shared by the cosets I and X̄, bra of `tns[3]` shared by Ȳ and Z̄; `chi = tol = stp = None`) returns the
    four exact coset probabilities, for all R, C ≥ 2, all distributions and all samples -/
theorem planar_tn_coset_values_c (R C : Int) (d : Dist Int) (f : BVec) (hR : 2 ≤ R) (hC : 2 ≤ C)
    (hf : f.length = 2 * (Planar.nQubits R C).toNat) :
    cosetValuesC R C d f
      = .ok (cosetProbs4 d (Planar.stabilizers R C) (Planar.logicalX R C) (Planar.logicalZ R C) f) := by
  obtain ⟨_, _, hx, hz⟩ := C07.Planar.stabilizer_count R C hR hC
  have h1 := xorV_len hf hx
  have h2 := xorV_len h1 hz
  have h3 := xorV_len hf hz
  have e2 : xorV (xorV f (Planar.logicalX R C)) (Planar.logicalZ R C)
      = xorV (xorV f (Planar.logicalZ R C)) (Planar.logicalX R C) := by
    rw [Symp.xorV_assoc, Symp.xorV_comm (Planar.logicalX R C), ← Symp.xorV_assoc]
  have s0 := slot_col R C d f f hR hC hf (fun r c _ _ => sameAt_refl R C f r c)
  have s1 := slot_col R C d f (xorV f (Planar.logicalX R C)) hR hC h1
    (fun r c hr hc => sameAt_logicalX R C hR hC f hf r c hr hc)
  have s2 := slot_col R C d (xorV f (Planar.logicalZ R C))
    (xorV (xorV f (Planar.logicalX R C)) (Planar.logicalZ R C)) hR hC h2
    (fun r c hr hc => by rw [e2]; exact sameAt_logicalX R C hR hC _ h3 r c hr hc)
  have s3 := slot_col R C d (xorV f (Planar.logicalZ R C)) (xorV f (Planar.logicalZ R C)) hR hC h3
    (fun r c _ _ => sameAt_refl R C _ r c)
  unfold cosetValuesC planC tns4 recoveries4
  simp only [List.map_cons, List.map_nil]
  generalize planarTn R C d f = t0 at s0 s1 ⊢
  generalize planarTn R C d (xorV f (Planar.logicalX R C)) = t1 at s1 ⊢
  generalize planarTn R C d (xorV (xorV f (Planar.logicalX R C)) (Planar.logicalZ R C)) = t2 at s2 ⊢
  generalize planarTn R C d (xorV f (Planar.logicalZ R C)) = t3 at s2 s3 ⊢
  rw [runPlan_two4 t0 t1 t2 t3 0 3 0 0 1 1 2 2 3 3 _ _ _ _ _ _ _ _ _ _ rfl rfl rfl rfl rfl rfl s0 s1 s2 s3]
  rfl

/-- **`planar_tn_coset_values_r`**: … in mode 'r' (transposed networks; bra of `tns[0]` shared by the cosets I and Z̄,
    bra of `tns[1]` shared by X̄ and Ȳ) -/
theorem planar_tn_coset_values_r (R C : Int) (d : Dist Int) (f : BVec) (hR : 2 ≤ R) (hC : 2 ≤ C)
    (hf : f.length = 2 * (Planar.nQubits R C).toNat) :
    cosetValuesR R C d f
      = .ok (cosetProbs4 d (Planar.stabilizers R C) (Planar.logicalX R C) (Planar.logicalZ R C) f) := by
  obtain ⟨_, _, hx, hz⟩ := C07.Planar.stabilizer_count R C hR hC
  have h1 := xorV_len hf hx
  have h2 := xorV_len h1 hz
  have h3 := xorV_len hf hz
  have s0 := slot_row R C d f f hR hC hf (fun r c _ _ => sameAt_refl R C f r c)
  have s3 := slot_row R C d f (xorV f (Planar.logicalZ R C)) hR hC h3
    (fun r c hr hc => sameAt_logicalZ R C hR hC f hf r c hr hc)
  have s1 := slot_row R C d (xorV f (Planar.logicalX R C)) (xorV f (Planar.logicalX R C)) hR hC h1
    (fun r c _ _ => sameAt_refl R C _ r c)
  have s2 := slot_row R C d (xorV f (Planar.logicalX R C))
    (xorV (xorV f (Planar.logicalX R C)) (Planar.logicalZ R C)) hR hC h2
    (fun r c hr hc => sameAt_logicalZ R C hR hC _ h1 r c hr hc)
  unfold cosetValuesR planR tns4 recoveries4
  simp only [List.map_cons, List.map_nil]
  generalize (planarTn R C d f).transpose = t0 at s0 s3 ⊢
  generalize (planarTn R C d (xorV f (Planar.logicalX R C))).transpose = t1 at s1 s2 ⊢
  generalize (planarTn R C d (xorV (xorV f (Planar.logicalX R C)) (Planar.logicalZ R C))).transpose = t2 at s2 ⊢
  generalize (planarTn R C d (xorV f (Planar.logicalZ R C))).transpose = t3 at s3 ⊢
  rw [runPlan_two4 t0 t1 t2 t3 0 1 0 0 3 3 1 1 2 2 _ _ _ _ _ _ _ _ _ _ rfl rfl rfl rfl rfl rfl s0 s3 s1 s2]
  rfl

/-- **`planar_tn_coset_values_a`**: … in mode 'a' (by column, by row, then `(col + row) / 2` per coset): the averages are
    the exact coset probabilities (as rationals; numerators over `D^n` like everything else) -/
theorem planar_tn_coset_values_a (R C : Int) (d : Dist Int) (f : BVec) (hR : 2 ≤ R) (hC : 2 ≤ C)
    (hf : f.length = 2 * (Planar.nQubits R C).toNat) :
    cosetValuesA R C d f
      = .ok ((cosetProbs4 d (Planar.stabilizers R C) (Planar.logicalX R C) (Planar.logicalZ R C) f).map
          fun (v : ℤ) => (v : Rat)) := by
  unfold cosetValuesA
  rw [planar_tn_coset_values_c R C d f hR hC hf, planar_tn_coset_values_r R C d f hR hC hf]
  simp only [averageValues_self]

/-! ### non-vacuity: a TALL (3 x 2) and a WIDE (2 x 3) code, samples with a non-zero syndrome, a biased distribution
    (numerators over 2^16) -/

def exTall : BVec := [true, false, false, false, false, true, false, false, false, false, false, true, false, false,
  false, false]

example : (2 : Int) ≤ 3 ∧ (2 : Int) ≤ 2 ∧ exTall.length = 2 * (Planar.nQubits 3 2).toNat := by decide

example : synd (Planar.stabilizers 3 2) exTall ≠ zeros (Planar.stabilizers 3 2).length := by decide

example : cosetValuesC 3 2 ⟨58982, 2185, 1092, 3277⟩ exTall
    = .ok (cosetProbs4 ⟨58982, 2185, 1092, 3277⟩ (Planar.stabilizers 3 2) (Planar.logicalX 3 2) (Planar.logicalZ 3 2)
        exTall) :=
  planar_tn_coset_values_c 3 2 _ exTall (by decide) (by decide) (by decide)

example : cosetValuesR 2 3 ⟨58982, 2185, 1092, 3277⟩ Qec.C10.exSample
    = .ok (cosetProbs4 ⟨58982, 2185, 1092, 3277⟩ (Planar.stabilizers 2 3) (Planar.logicalX 2 3) (Planar.logicalZ 2 3)
        Qec.C10.exSample) :=
  planar_tn_coset_values_r 2 3 _ _ (by decide) (by decide) (by decide)

end Qec.C10.PlanarShared
