/-
  C10, instances — the `CodeSpec` hypothesis of Props/C10.lean (independence of generators and logicals,
  commutation, normaliser = ⟨S, L⟩) DISCHARGED for the concrete code families the tensor-network decoders
  exist for, for ALL sizes:

      planar (R, C ≥ 2), rotated planar (R, C ≥ 3), colour 6.6.6 (odd L ≥ 3), five-qubit, Steane.

  Source of the facts: Props/C07 (`planar_valid`, `rotated_planar_valid`, `color666_valid`, `five_qubit_valid`,
  `steane_valid` : `ValidCode …`, and `stabilizer_count` : exactly n − k generators) through
  Lemmas/NormaliserBridge.lean (`codeSpec_of_valid`, which uses `normaliser_complete` of Lemmas/Normaliser.lean).
  The corollaries `*_cosets_partition`, `*_coset_indep_of_sample`, `*_ml_optimal` are the C10 theorems
  (`cosets_partition`, `coset_indep_of_sample`, `ml_optimal_of_argmax` of Props/C10.lean) with no hypothesis about
  the code left (only the size constraints of the constructors).

  The toric and rotated toric codes are NOT covered: their generator lists are linearly dependent (the product of
  all generators of one type is the identity — C07 `dropped_dependent`, `dropped_generators_dependent`), so
  `CodeSpec.h_indep` is false for them and the sum over `spanEnum S` would count every group element four times.
  No tensor-network decoder exists for those families, so C10 makes no claim about them.
-/
import QecVerif.Props.C10
import QecVerif.Lemmas.NormaliserBridge
import QecVerif.Props.C07.Basic
import QecVerif.Props.C07.Planar
import QecVerif.Props.C07.RotatedPlanar
import QecVerif.Props.C07.Color666
namespace Qec.C10.Instances
open Qec Qec.Coset Qec.C10

/-! ### `CodeSpec` for every size -/

/-- planar code, all R, C ≥ 2 -/
theorem planar_codeSpec (R C : Int) (hR : 2 ≤ R) (hC : 2 ≤ C) :
    CodeSpec (2 * (Planar.nQubits R C).toNat) (Planar.stabilizers R C)
      [Planar.logicalX R C, Planar.logicalZ R C] :=
  Symp.codeSpec_of_valid _ 1 _ _ _ (C07.Planar.planar_valid R C hR hC)
    (by have := (C07.Planar.stabilizer_count R C hR hC).1; show _ = C07.Planar.n R C - 1; omega)

/-- rotated planar code, all R, C ≥ 3 -/
theorem rotated_planar_codeSpec (R C : Int) (hR : 3 ≤ R) (hC : 3 ≤ C) :
    CodeSpec (2 * (RotatedPlanar.nQubits R C).toNat) (RotatedPlanar.stabilizers R C)
      [RotatedPlanar.logicalX R C, RotatedPlanar.logicalZ R C] :=
  Symp.codeSpec_of_valid _ 1 _ _ _ (C07.RotatedPlanar.rotated_planar_valid R C hR hC)
    (by have := (C07.RotatedPlanar.stabilizer_count R C hR hC).1; show _ = C07.RotatedPlanar.n R C - 1; omega)

/-- colour 6.6.6 code, all odd L ≥ 3 -/
theorem color666_codeSpec (L : Int) (hL : 3 ≤ L) (hodd : L % 2 = 1) :
    CodeSpec (2 * (Color666.nQubits L).toNat) (Color666.stabilizers L)
      [Color666.logicalX L, Color666.logicalZ L] :=
  Symp.codeSpec_of_valid _ 1 _ _ _ (C07.Color666.color666_valid L hL hodd)
    (by have := (C07.Color666.stabilizer_count L hL hodd).1; show _ = C07.Color666.n L - 1; omega)

/-- five-qubit code -/
theorem five_qubit_codeSpec :
    CodeSpec 10 Basic.fiveQubit.stabilizers (Basic.fiveQubit.logicalXs ++ Basic.fiveQubit.logicalZs) :=
  Symp.codeSpec_of_valid 5 1 _ _ _ C07.Basic.five_qubit_valid (by decide)

/-- Steane code -/
theorem steane_codeSpec :
    CodeSpec 14 Basic.steane.stabilizers (Basic.steane.logicalXs ++ Basic.steane.logicalZs) :=
  Symp.codeSpec_of_valid 7 1 _ _ _ C07.Basic.steane_valid (by decide)

/-! ### the C10 theorems without code hypotheses

  `d` is any single-qubit distribution over any commutative semiring (ordered where optimality is claimed);
  `f` any recovery of the right length. -/

section partition
variable {α : Type} [CommSemiring α] (d : Dist α)

/-- planar: the four coset probabilities consistent with the syndrome of `f` sum to `Pr(syndrome)` -/
theorem planar_cosets_partition (R C : Int) (hR : 2 ≤ R) (hC : 2 ≤ C) {f : BVec}
    (hf : f.length = 2 * (Planar.nQubits R C).toNat) :
    (cosetProbsAll d (Planar.stabilizers R C) [Planar.logicalX R C, Planar.logicalZ R C] f).sum =
      syndProb d (Planar.stabilizers R C) (2 * (Planar.nQubits R C).toNat) (synd (Planar.stabilizers R C) f) :=
  cosets_partition d (planar_codeSpec R C hR hC) hf

theorem rotated_planar_cosets_partition (R C : Int) (hR : 3 ≤ R) (hC : 3 ≤ C) {f : BVec}
    (hf : f.length = 2 * (RotatedPlanar.nQubits R C).toNat) :
    (cosetProbsAll d (RotatedPlanar.stabilizers R C)
        [RotatedPlanar.logicalX R C, RotatedPlanar.logicalZ R C] f).sum =
      syndProb d (RotatedPlanar.stabilizers R C) (2 * (RotatedPlanar.nQubits R C).toNat)
        (synd (RotatedPlanar.stabilizers R C) f) :=
  cosets_partition d (rotated_planar_codeSpec R C hR hC) hf

theorem color666_cosets_partition (L : Int) (hL : 3 ≤ L) (hodd : L % 2 = 1) {f : BVec}
    (hf : f.length = 2 * (Color666.nQubits L).toNat) :
    (cosetProbsAll d (Color666.stabilizers L) [Color666.logicalX L, Color666.logicalZ L] f).sum =
      syndProb d (Color666.stabilizers L) (2 * (Color666.nQubits L).toNat) (synd (Color666.stabilizers L) f) :=
  cosets_partition d (color666_codeSpec L hL hodd) hf

theorem five_qubit_cosets_partition {f : BVec} (hf : f.length = 10) :
    (cosetProbsAll d Basic.fiveQubit.stabilizers (Basic.fiveQubit.logicalXs ++ Basic.fiveQubit.logicalZs) f).sum =
      syndProb d Basic.fiveQubit.stabilizers 10 (synd Basic.fiveQubit.stabilizers f) :=
  cosets_partition d five_qubit_codeSpec hf

theorem steane_cosets_partition {f : BVec} (hf : f.length = 14) :
    (cosetProbsAll d Basic.steane.stabilizers (Basic.steane.logicalXs ++ Basic.steane.logicalZs) f).sum =
      syndProb d Basic.steane.stabilizers 14 (synd Basic.steane.stabilizers f) :=
  cosets_partition d steane_codeSpec hf

/-- planar: another sample recovery with the same syndrome only permutes the four cosets -/
theorem planar_coset_indep_of_sample (R C : Int) (hR : 2 ≤ R) (hC : 2 ≤ C) {f f' : BVec}
    (hf : f.length = 2 * (Planar.nQubits R C).toNat) (hf' : f'.length = 2 * (Planar.nQubits R C).toNat)
    (hs : synd (Planar.stabilizers R C) f' = synd (Planar.stabilizers R C) f) :
    ∃ l0 ∈ spanEnum (2 * (Planar.nQubits R C).toNat) [Planar.logicalX R C, Planar.logicalZ R C],
      ∀ l : BVec, l.length = 2 * (Planar.nQubits R C).toNat →
        cosetProb d (Planar.stabilizers R C) (xorV f' l) =
          cosetProb d (Planar.stabilizers R C) (xorV f (xorV l0 l)) :=
  coset_indep_of_sample d (planar_codeSpec R C hR hC) hf hf' hs

theorem rotated_planar_coset_indep_of_sample (R C : Int) (hR : 3 ≤ R) (hC : 3 ≤ C) {f f' : BVec}
    (hf : f.length = 2 * (RotatedPlanar.nQubits R C).toNat)
    (hf' : f'.length = 2 * (RotatedPlanar.nQubits R C).toNat)
    (hs : synd (RotatedPlanar.stabilizers R C) f' = synd (RotatedPlanar.stabilizers R C) f) :
    ∃ l0 ∈ spanEnum (2 * (RotatedPlanar.nQubits R C).toNat)
        [RotatedPlanar.logicalX R C, RotatedPlanar.logicalZ R C],
      ∀ l : BVec, l.length = 2 * (RotatedPlanar.nQubits R C).toNat →
        cosetProb d (RotatedPlanar.stabilizers R C) (xorV f' l) =
          cosetProb d (RotatedPlanar.stabilizers R C) (xorV f (xorV l0 l)) :=
  coset_indep_of_sample d (rotated_planar_codeSpec R C hR hC) hf hf' hs

theorem color666_coset_indep_of_sample (L : Int) (hL : 3 ≤ L) (hodd : L % 2 = 1) {f f' : BVec}
    (hf : f.length = 2 * (Color666.nQubits L).toNat) (hf' : f'.length = 2 * (Color666.nQubits L).toNat)
    (hs : synd (Color666.stabilizers L) f' = synd (Color666.stabilizers L) f) :
    ∃ l0 ∈ spanEnum (2 * (Color666.nQubits L).toNat) [Color666.logicalX L, Color666.logicalZ L],
      ∀ l : BVec, l.length = 2 * (Color666.nQubits L).toNat →
        cosetProb d (Color666.stabilizers L) (xorV f' l) =
          cosetProb d (Color666.stabilizers L) (xorV f (xorV l0 l)) :=
  coset_indep_of_sample d (color666_codeSpec L hL hodd) hf hf' hs

theorem five_qubit_coset_indep_of_sample {f f' : BVec} (hf : f.length = 10) (hf' : f'.length = 10)
    (hs : synd Basic.fiveQubit.stabilizers f' = synd Basic.fiveQubit.stabilizers f) :
    ∃ l0 ∈ spanEnum 10 (Basic.fiveQubit.logicalXs ++ Basic.fiveQubit.logicalZs),
      ∀ l : BVec, l.length = 10 →
        cosetProb d Basic.fiveQubit.stabilizers (xorV f' l) =
          cosetProb d Basic.fiveQubit.stabilizers (xorV f (xorV l0 l)) :=
  coset_indep_of_sample d five_qubit_codeSpec hf hf' hs

theorem steane_coset_indep_of_sample {f f' : BVec} (hf : f.length = 14) (hf' : f'.length = 14)
    (hs : synd Basic.steane.stabilizers f' = synd Basic.steane.stabilizers f) :
    ∃ l0 ∈ spanEnum 14 (Basic.steane.logicalXs ++ Basic.steane.logicalZs),
      ∀ l : BVec, l.length = 14 →
        cosetProb d Basic.steane.stabilizers (xorV f' l) =
          cosetProb d Basic.steane.stabilizers (xorV f (xorV l0 l)) :=
  coset_indep_of_sample d steane_codeSpec hf hf' hs

end partition

section optimal
variable {α : Type} [CommSemiring α] [PartialOrder α] [IsOrderedRing α] {d : Dist α} (hd : d.Nonneg)
include hd

/-- planar: the decoders' rule — any sample recovery `sample s` carrying the syndrome, multiplied by a logical
    `lstar s` whose coset is the most probable of the four — succeeds at least as often as ANY decoder `dec` -/
theorem planar_ml_optimal (R C : Int) (hR : 2 ≤ R) (hC : 2 ≤ C)
    (sample lstar : BVec → BVec) (hsl : ∀ s, (sample s).length = 2 * (Planar.nQubits R C).toNat)
    (hss : ∀ e : BVec, e.length = 2 * (Planar.nQubits R C).toNat →
      synd (Planar.stabilizers R C) (sample (synd (Planar.stabilizers R C) e)) = synd (Planar.stabilizers R C) e)
    (hstar : ∀ s, lstar s ∈ spanEnum (2 * (Planar.nQubits R C).toNat) [Planar.logicalX R C, Planar.logicalZ R C])
    (hmax : ∀ s, ∀ l ∈ spanEnum (2 * (Planar.nQubits R C).toNat) [Planar.logicalX R C, Planar.logicalZ R C],
      cosetProb d (Planar.stabilizers R C) (xorV (sample s) l) ≤
        cosetProb d (Planar.stabilizers R C) (xorV (sample s) (lstar s)))
    (dec : BVec → BVec) (hdec : ∀ s, (dec s).length = 2 * (Planar.nQubits R C).toNat) :
    successProb d (Planar.stabilizers R C) (2 * (Planar.nQubits R C).toNat) dec ≤
      successProb d (Planar.stabilizers R C) (2 * (Planar.nQubits R C).toNat)
        (fun s => xorV (sample s) (lstar s)) :=
  ml_optimal_of_argmax hd (planar_codeSpec R C hR hC) sample lstar hsl hss hstar hmax dec hdec

theorem rotated_planar_ml_optimal (R C : Int) (hR : 3 ≤ R) (hC : 3 ≤ C)
    (sample lstar : BVec → BVec) (hsl : ∀ s, (sample s).length = 2 * (RotatedPlanar.nQubits R C).toNat)
    (hss : ∀ e : BVec, e.length = 2 * (RotatedPlanar.nQubits R C).toNat →
      synd (RotatedPlanar.stabilizers R C) (sample (synd (RotatedPlanar.stabilizers R C) e)) =
        synd (RotatedPlanar.stabilizers R C) e)
    (hstar : ∀ s, lstar s ∈ spanEnum (2 * (RotatedPlanar.nQubits R C).toNat)
      [RotatedPlanar.logicalX R C, RotatedPlanar.logicalZ R C])
    (hmax : ∀ s, ∀ l ∈ spanEnum (2 * (RotatedPlanar.nQubits R C).toNat)
        [RotatedPlanar.logicalX R C, RotatedPlanar.logicalZ R C],
      cosetProb d (RotatedPlanar.stabilizers R C) (xorV (sample s) l) ≤
        cosetProb d (RotatedPlanar.stabilizers R C) (xorV (sample s) (lstar s)))
    (dec : BVec → BVec) (hdec : ∀ s, (dec s).length = 2 * (RotatedPlanar.nQubits R C).toNat) :
    successProb d (RotatedPlanar.stabilizers R C) (2 * (RotatedPlanar.nQubits R C).toNat) dec ≤
      successProb d (RotatedPlanar.stabilizers R C) (2 * (RotatedPlanar.nQubits R C).toNat)
        (fun s => xorV (sample s) (lstar s)) :=
  ml_optimal_of_argmax hd (rotated_planar_codeSpec R C hR hC) sample lstar hsl hss hstar hmax dec hdec

theorem color666_ml_optimal (L : Int) (hL : 3 ≤ L) (hodd : L % 2 = 1)
    (sample lstar : BVec → BVec) (hsl : ∀ s, (sample s).length = 2 * (Color666.nQubits L).toNat)
    (hss : ∀ e : BVec, e.length = 2 * (Color666.nQubits L).toNat →
      synd (Color666.stabilizers L) (sample (synd (Color666.stabilizers L) e)) = synd (Color666.stabilizers L) e)
    (hstar : ∀ s, lstar s ∈ spanEnum (2 * (Color666.nQubits L).toNat) [Color666.logicalX L, Color666.logicalZ L])
    (hmax : ∀ s, ∀ l ∈ spanEnum (2 * (Color666.nQubits L).toNat) [Color666.logicalX L, Color666.logicalZ L],
      cosetProb d (Color666.stabilizers L) (xorV (sample s) l) ≤
        cosetProb d (Color666.stabilizers L) (xorV (sample s) (lstar s)))
    (dec : BVec → BVec) (hdec : ∀ s, (dec s).length = 2 * (Color666.nQubits L).toNat) :
    successProb d (Color666.stabilizers L) (2 * (Color666.nQubits L).toNat) dec ≤
      successProb d (Color666.stabilizers L) (2 * (Color666.nQubits L).toNat)
        (fun s => xorV (sample s) (lstar s)) :=
  ml_optimal_of_argmax hd (color666_codeSpec L hL hodd) sample lstar hsl hss hstar hmax dec hdec

theorem five_qubit_ml_optimal
    (sample lstar : BVec → BVec) (hsl : ∀ s, (sample s).length = 10)
    (hss : ∀ e : BVec, e.length = 10 →
      synd Basic.fiveQubit.stabilizers (sample (synd Basic.fiveQubit.stabilizers e)) =
        synd Basic.fiveQubit.stabilizers e)
    (hstar : ∀ s, lstar s ∈ spanEnum 10 (Basic.fiveQubit.logicalXs ++ Basic.fiveQubit.logicalZs))
    (hmax : ∀ s, ∀ l ∈ spanEnum 10 (Basic.fiveQubit.logicalXs ++ Basic.fiveQubit.logicalZs),
      cosetProb d Basic.fiveQubit.stabilizers (xorV (sample s) l) ≤
        cosetProb d Basic.fiveQubit.stabilizers (xorV (sample s) (lstar s)))
    (dec : BVec → BVec) (hdec : ∀ s, (dec s).length = 10) :
    successProb d Basic.fiveQubit.stabilizers 10 dec ≤
      successProb d Basic.fiveQubit.stabilizers 10 (fun s => xorV (sample s) (lstar s)) :=
  ml_optimal_of_argmax hd five_qubit_codeSpec sample lstar hsl hss hstar hmax dec hdec

theorem steane_ml_optimal
    (sample lstar : BVec → BVec) (hsl : ∀ s, (sample s).length = 14)
    (hss : ∀ e : BVec, e.length = 14 →
      synd Basic.steane.stabilizers (sample (synd Basic.steane.stabilizers e)) = synd Basic.steane.stabilizers e)
    (hstar : ∀ s, lstar s ∈ spanEnum 14 (Basic.steane.logicalXs ++ Basic.steane.logicalZs))
    (hmax : ∀ s, ∀ l ∈ spanEnum 14 (Basic.steane.logicalXs ++ Basic.steane.logicalZs),
      cosetProb d Basic.steane.stabilizers (xorV (sample s) l) ≤
        cosetProb d Basic.steane.stabilizers (xorV (sample s) (lstar s)))
    (dec : BVec → BVec) (hdec : ∀ s, (dec s).length = 14) :
    successProb d Basic.steane.stabilizers 14 dec ≤
      successProb d Basic.steane.stabilizers 14 (fun s => xorV (sample s) (lstar s)) :=
  ml_optimal_of_argmax hd steane_codeSpec sample lstar hsl hss hstar hmax dec hdec

end optimal

/-! ### non-vacuity: the size constraints are satisfiable, the instantiated statements are about non-trivial data -/

/-- the 2×2 planar code (5 qubits), the distribution `exD3` of Props/C10.lean, a recovery with non-zero syndrome -/
example : (cosetProbsAll exD3 (Planar.stabilizers 2 2) [Planar.logicalX 2 2, Planar.logicalZ 2 2]
      [true, false, false, false, false, false, false, false, false, true]).sum
    = syndProb exD3 (Planar.stabilizers 2 2) 10
        (synd (Planar.stabilizers 2 2) [true, false, false, false, false, false, false, false, false, true]) :=
  planar_cosets_partition exD3 2 2 (by decide) (by decide) (by decide)

example : synd (Planar.stabilizers 2 2) [true, false, false, false, false, false, false, false, false, true]
    ≠ zeros (Planar.stabilizers 2 2).length := by decide +kernel

example : (spanEnum 10 [Planar.logicalX 2 2, Planar.logicalZ 2 2]).length = 4 ∧
    (Planar.stabilizers 2 2).length = 4 ∧ (Color666.stabilizers 3).length = 6 ∧
    (RotatedPlanar.stabilizers 3 3).length = 8 := by decide +kernel

end Qec.C10.Instances
