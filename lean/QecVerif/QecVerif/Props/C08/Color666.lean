/-
  C08 — colour 6.6.6 code: the advertised distance `d = size` is the true minimum distance, for EVERY odd size ≥ 3.

  `distance_lower_color666`: every operator of length `2 n` that commutes with all stabilizer generators and
  anticommutes with the supplied logical X or logical Z has weight ≥ `size` (mixed X/Y/Z operators included; no
  CSS split is needed — the proof reads the X half or the Z half of the operator directly).
  `color666_isDistance`: with attainment (the supplied logical X has weight `size`, commutes with the generators
  and anticommutes with logical Z — C07: `color666_valid`, `logical_pairing`), `IsDistance n S [X̄, Z̄] size`.
  No hypotheses are left.

  Proof (Lemmas/DistanceLowerColor666.lean).  The disjoint-translates argument of the other families is impossible
  here (`n = (3L²+1)/4 < L²`: there are no `L` pairwise disjoint representatives, nor `L` pairwise disjoint
  regions that every logical must hit).  Instead:
  * by normaliser completeness (C07: valid code ⇒ `normaliser_complete_stab`), the relevant half of `e` is the
    COMPLEMENT of a sum of plaquettes, so `wt e ≥` the number of sites covered an even number of times by a
    selection `ψ` of plaquettes;
  * `core`: for every selection `ψ` of plaquettes of the triangle with bound `3m` at least `2m+1 = L` sites are
    evenly covered.  Induction on `m`: the lattice of size `L−2` is the top of the lattice of size `L`, the
    restriction of `ψ` is a selection there, and the three new rows add at least two evenly covered sites
    (`strip`: a transfer-matrix inequality along the strip with an explicit potential on the 3-bit interface;
    256 + 32 Boolean cases decided by the kernel, independent of the size).

  STATED, NOT PROVED: nothing for the colour code.  (The kernel-evaluated `distance_color666_small_bounded` of
  Props/C08.lean, size 3, stays as an independent cross-check of the same statement.)
-/
import QecVerif.Lemmas.Distance
import QecVerif.Lemmas.DistanceWeights
import QecVerif.Lemmas.DistanceLower
import QecVerif.Lemmas.DistanceLowerColor666
import QecVerif.Props.C07.Color666
namespace Qec.C08
open Qec Qec.Distance

/-- **colour 6.6.6, all odd sizes L ≥ 3**: every operator that commutes with all stabilizer generators and
    anticommutes with a supplied logical has weight at least `L` -/
theorem distance_lower_color666 (L : Int) (hL : 3 ≤ L) (hodd : L % 2 = 1) (e : BVec)
    (he : e.length = 2 * (Color666.nQubits L).toNat)
    (h : IsLogical (Color666.stabilizers L) [Color666.logicalX L, Color666.logicalZ L] e) :
    L ≤ (wt e : Int) :=
  DistLower.Color666.lower L hL hodd (C07.Color666.color666_valid L hL hodd) e he h

/-- **the combinatorial core, in its own words**: whichever plaquettes of the triangular lattice with
    `bound = 3m` (size `2m+1`) are selected, at least `2m+1` sites lie in an even number of selected plaquettes -/
theorem color666_even_cover (m : Nat) (ψ : Int × Int → Bool)
    (hψ : ∀ q : Int × Int, ψ q = true → 0 ≤ q.2 ∧ q.2 ≤ q.1 ∧ q.1 ≤ 3 * (m : Int) ∧ (q.1 + q.2) % 3 = 2) :
    ∃ l : List (Int × Int), l.Nodup ∧ 2 * m + 1 ≤ l.length ∧
      ∀ s ∈ l, (0 ≤ s.2 ∧ s.2 ≤ s.1 ∧ s.1 ≤ 3 * (m : Int) ∧ (s.1 + s.2) % 3 ≠ 2) ∧
        DistLower.Color666.cov ψ s = false := by
  refine ⟨(DistLower.Color666.WL m).filter (fun s => !DistLower.Color666.cov ψ s),
    (DistLower.Color666.nodup_WL m).filter _, ?_, ?_⟩
  · have := DistLower.Color666.core m ψ hψ
    rwa [← DistLower.Color666.cnt_WL, DistLower.Color666.cntL_eq_filter] at this
  · intro s hs
    have hs' := List.mem_filter.mp hs
    exact ⟨DistLower.Color666.mem_WL m s hs'.1, by simpa using hs'.2⟩

/-- **the advertised distance of the colour 6.6.6 code is its true minimum distance, for every odd size ≥ 3**
    (no hypotheses left: C07's commutation and pairing facts are taken from Props/C07/Color666.lean) -/
theorem color666_isDistance (L : Int) (hL : 3 ≤ L) (hodd : L % 2 = 1) :
    IsDistance (Color666.nQubits L).toNat (Color666.stabilizers L) [Color666.logicalX L, Color666.logicalZ L]
      (Color666.nkd L).2.2.toNat ∧ (Color666.nkd L).2.2 = L := by
  have v := C07.Color666.color666_valid L hL hodd
  have hlen := Distance.Weights.color666_logicalX_len L hL hodd
  have hcX := DistLower.commAll_of_rows _ _ _ v.len_S hlen
    (fun s hs => v.stab_comm_Lx s hs _ (List.mem_singleton.mpr rfl))
  have hw : wt (Color666.logicalX L) = L.toNat := Distance.Weights.color666_logicalX_wt L hL hodd
  refine ⟨⟨⟨Color666.logicalX L, hlen, ?_, hcX, Color666.logicalZ L, by simp,
    (C07.Color666.logical_pairing L hL hodd).1⟩, fun e' he' hl' => ?_⟩, rfl⟩
  · rw [hw]; rfl
  · have := distance_lower_color666 L hL hodd e' he' hl'
    simp only [Color666.nkd]
    omega

/-! ### non-vacuity -/

-- the hypotheses of the lower bound hold for a concrete operator of the size-5 code (its logical Z)
example : IsLogical (Color666.stabilizers 5) [Color666.logicalX 5, Color666.logicalZ 5] (Color666.logicalZ 5) :=
  (isLogicalCert_iff _ _ _).mp (by decide +kernel)
-- …and of the size-7 code (a mixed operator: X̄·Z̄ = Ȳ up to phase)
example : IsLogical (Color666.stabilizers 7) [Color666.logicalX 7, Color666.logicalZ 7]
    (xorV (Color666.logicalX 7) (Color666.logicalZ 7)) :=
  (isLogicalCert_iff _ _ _).mp (by decide +kernel)
-- the bound is tight: size 5, weight exactly 5
example : wt (Color666.logicalZ 5) = 5 := by decide +kernel
-- the core on a concrete selection (size 5, `m = 2`; two plaquettes selected): coverage parities of two sites
example : DistLower.Color666.cov (fun q => decide (q = (2, 0)) || decide (q = (4, 1))) (3, 0) = false ∧
    DistLower.Color666.cov (fun q => decide (q = (2, 0)) || decide (q = (4, 1))) (1, 0) = true := by decide

end Qec.C08
