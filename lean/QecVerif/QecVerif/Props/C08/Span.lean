/-
  C08, the property in its own wording, hypothesis-free, for ALL sizes:

      the advertised d of `n_k_d` is the MINIMUM WEIGHT OF AN OPERATOR THAT COMMUTES WITH ALL STABILIZERS AND IS
      NOT A PRODUCT OF STABILIZERS  (`Qec.Distance.IsDistanceSpan n S d`; the logical operators do not occur in
      the statement),

  for the planar (R, C ≥ 2), toric (R, C ≥ 2), rotated planar (R, C ≥ 3), rotated toric (even R, C ≥ 2) and
  colour 6.6.6 (odd L ≥ 3) codes, and for the five-qubit and Steane codes — every code family of the package.

  Ingredients, all proved elsewhere and only instantiated here:
    * Props/C08.lean: `planar_isDistance`, `toric_isDistance`, `rotatedplanar_isDistance`, `rotatedtoric_isDistance`,
      `color666_isDistance` (Props/C08/Color666.lean), `distance_basic_five`, `distance_basic_steane` (distance w.r.t. the supplied logicals) and
      `isDistanceSpan_of_isDistance` (the bridge, with normaliser completeness `hcomp` and `hLn` as hypotheses);
    * C07 `planar_valid`, `toric_valid`, `rotated_planar_valid`, `rtoric_valid`, `color666_valid`,
      `five_qubit_valid`, `steane_valid` : `ValidCode …`;
    * normaliser completeness for every valid code: Lemmas/Normaliser.lean via
      Lemmas/NormaliserBridge.lean `normaliserComplete_of_valid` — this discharges `hcomp`; `hLn` (the supplied
      logicals commute with the stabilizers) is part of `ValidCode`.
-/
import QecVerif.Props.C08
import QecVerif.Lemmas.NormaliserBridge
import QecVerif.Props.C07.Basic
namespace Qec.C08.Span
open Qec Qec.Distance

/-- the supplied logicals of a valid code lie in the normaliser (hypothesis `hLn` of
    `isDistanceSpan_of_isDistance`) -/
theorem inNormaliser_of_valid (n k : Nat) (S Lx Lz : List BVec) (v : Symp.ValidCode n k S Lx Lz) :
    inNormaliser S (Lx ++ Lz) = true := by
  simp only [inNormaliser, List.all_eq_true, List.mem_append]
  rintro l (h | h)
  · exact DistLower.commAll_of_rows n S l v.len_S (v.len_Lx l h) (fun s hs => v.stab_comm_Lx s hs l h)
  · exact DistLower.commAll_of_rows n S l v.len_S (v.len_Lz l h) (fun s hs => v.stab_comm_Lz s hs l h)

/-- generic: for every valid code (C07) the distance w.r.t. the supplied logicals is the distance in the
    property's own wording — `isDistanceSpan_of_isDistance` with `hS`, `hL`, `hLn`, `hcomp` discharged -/
theorem isDistanceSpan_of_valid (n k : Nat) (S Lx Lz : List BVec) (v : Symp.ValidCode n k S Lx Lz)
    (d : Nat) (h : IsDistance n S (Lx ++ Lz) d) : IsDistanceSpan n S d :=
  isDistanceSpan_of_isDistance n S (Lx ++ Lz) d v.len_S
    (fun l hl => (List.mem_append.mp hl).elim (v.len_Lx l) (v.len_Lz l))
    (inNormaliser_of_valid n k S Lx Lz v) (Symp.normaliserComplete_of_valid n k S Lx Lz v) h

/-- **planar code, all R, C ≥ 2**: `d = min R C` is the minimum weight of an operator commuting with every
    stabilizer generator that is not a product of stabilizer generators -/
theorem planar_isDistanceSpan (R C : Int) (hR : 2 ≤ R) (hC : 2 ≤ C) :
    IsDistanceSpan (Planar.nQubits R C).toNat (Planar.stabilizers R C) (Planar.nkd R C).2.2.toNat ∧
    (Planar.nkd R C).2.2 = min R C :=
  ⟨isDistanceSpan_of_valid _ 1 _ _ _ (C07.Planar.planar_valid R C hR hC) _ (planar_isDistance R C hR hC).1, rfl⟩

/-- **toric code, all R, C ≥ 2** -/
theorem toric_isDistanceSpan (R C : Int) (hR : 2 ≤ R) (hC : 2 ≤ C) :
    IsDistanceSpan (Toric.nQubits R C).toNat (Toric.stabilizers R C) (Toric.nkd R C).2.2.toNat ∧
    (Toric.nkd R C).2.2 = min R C :=
  ⟨isDistanceSpan_of_valid _ 2 _ _ _ (C07.Toric.toric_valid R C hR hC) _ (toric_isDistance R C hR hC).1, rfl⟩

/-- **rotated planar code, all R, C ≥ 3** -/
theorem rotatedplanar_isDistanceSpan (R C : Int) (hR : 3 ≤ R) (hC : 3 ≤ C) :
    IsDistanceSpan (RotatedPlanar.nQubits R C).toNat (RotatedPlanar.stabilizers R C)
      (RotatedPlanar.nkd R C).2.2.toNat ∧
    (RotatedPlanar.nkd R C).2.2 = min R C :=
  ⟨isDistanceSpan_of_valid _ 1 _ _ _ (C07.RotatedPlanar.rotated_planar_valid R C hR hC) _
    (rotatedplanar_isDistance R C hR hC).1, rfl⟩

/-- **rotated toric code, all even R, C ≥ 2** (the constructible sizes) -/
theorem rotatedtoric_isDistanceSpan (R C : Int) (hR : 2 ≤ R) (hC : 2 ≤ C) (hRe : R % 2 = 0) (hCe : C % 2 = 0) :
    IsDistanceSpan (RotatedToric.nQubits R C).toNat (RotatedToric.stabilizers R C)
      (RotatedToric.nkd R C).2.2.toNat ∧
    (RotatedToric.nkd R C).2.2 = min R C :=
  ⟨isDistanceSpan_of_valid _ 2 _ _ _ (C07.RotatedToric.rtoric_valid R C ⟨hR, hC, hRe, hCe⟩) _
    (rotatedtoric_isDistance R C hR hC hRe hCe).1, rfl⟩

/-- **colour 6.6.6 code, all odd L ≥ 3** (`d = L`) -/
theorem color666_isDistanceSpan (L : Int) (hL : 3 ≤ L) (hodd : L % 2 = 1) :
    IsDistanceSpan (Color666.nQubits L).toNat (Color666.stabilizers L) (Color666.nkd L).2.2.toNat ∧
    (Color666.nkd L).2.2 = L :=
  ⟨isDistanceSpan_of_valid _ 1 _ _ _ (C07.Color666.color666_valid L hL hodd) _
    (color666_isDistance L hL hodd).1, rfl⟩

/-- **five-qubit code**: 3 is the minimum weight of an operator commuting with the four generators that is not a
    product of them -/
theorem five_qubit_isDistanceSpan :
    Basic.fiveQubit.d = some 3 ∧ IsDistanceSpan 5 Basic.fiveQubit.stabilizers 3 :=
  ⟨rfl, isDistanceSpan_of_valid 5 1 _ _ _ C07.Basic.five_qubit_valid 3 distance_basic_five.2⟩

/-- **Steane code** -/
theorem steane_isDistanceSpan :
    Basic.steane.d = some 3 ∧ IsDistanceSpan 7 Basic.steane.stabilizers 3 :=
  ⟨rfl, isDistanceSpan_of_valid 7 1 _ _ _ C07.Basic.steane_valid 3 distance_basic_steane.2⟩

/-! ### non-vacuity: a concrete minimum-weight operator of the kind the statement quantifies over -/

/-- on the 3×5 planar code X̄ (weight 3 = min 3 5) commutes with all generators and anticommutes with Z̄, so it is
    not a product of generators; and a stabilizer generator IS in the span (the excluded class is inhabited) -/
example : commAll (Planar.stabilizers 3 5) (Planar.logicalX 3 5) = true ∧ wt (Planar.logicalX 3 5) = 3 ∧
    (Planar.nkd 3 5).2.2.toNat = 3 ∧ bsp (Planar.logicalX 3 5) (Planar.logicalZ 3 5) = true := by decide +kernel

example : ¬ InSpan (Planar.nQubits 3 5).toNat (Planar.stabilizers 3 5) (Planar.logicalX 3 5) :=
  cert_not_in_span_lemma _ _ _ (Planar.logicalZ 3 5)
    (C07.Planar.planar_valid 3 5 (by decide) (by decide)).len_S (by decide +kernel) (by decide +kernel)
    (by decide +kernel)

example : ∃ s ∈ Planar.stabilizers 3 5, InSpan (Planar.nQubits 3 5).toNat (Planar.stabilizers 3 5)
    (xorV s (zeros (2 * (Planar.nQubits 3 5).toNat))) :=
  ⟨_, List.head_mem (by decide), InSpan.add _ _ (List.head_mem (by decide)) InSpan.zero⟩

end Qec.C08.Span
