/-
  C13 — Matching is perfect and of minimum total weight.

  Theorems about `Model/Matching.lean` (model of `qecsim.graphtools`), for ALL finite graphs and ALL rational weights.

  PROVED here: the `SimpleGraph.add_edge` invariant, the specification of the checker `isPerfectMatching` (which the
  driver evaluates on the real `gt.mwpm` output), the optimality of the oracle `minPM` (against which the real output's
  weight is compared), and the wrapper reduction: negating the weights and asking for a maximum-cardinality
  maximum-weight matching yields a minimum-weight perfect matching whenever one exists.

  NOT MODELLED, NOT PROVED: Edmonds' blossom algorithm inside networkx (`max_weight_matching`, outside /repo).  It
  appears only as the parameter `oracle` of `mwpmNetworkx`, with its documented contract `NxContract` as an explicit
  hypothesis of `mwpmNetworkx_min_weight_perfect`.  That the real routine meets the contract is TESTED on every run
  against the proved oracle `minPM` (harness/qv/props/c13.py, reported under `coverage.explored`), not proved.
  The Blossom V backend (C library) is likewise a parameter (`mwpmBlossom5`, `mwpm`); the pure part of that path
  (`weight_to_int_fn`: rounding within 1/2, monotone scaling, what an optimum for the integer weights means for the
  original weights under the scaled and the identity rule, no C-int overflow) is in Props/C13/Blossom.lean.
-/
import QecVerif.Model.Matching
import QecVerif.Lemmas.Matching
import QecVerif.Props.C13.Blossom
namespace Qec.C13
open Qec Qec.Matching

/-- **addEdge_no_reversed_dupes**: after ANY insertion sequence into an empty `SimpleGraph` (either orientation,
    overwrites, reversed re-insertions, self loops) (1) no key is stored twice, (2) no pair is stored in both
    orientations, (3) the entries are exactly the last writes: `(a,b) ↦ w` is stored iff `lastWrite ops (a,b) = some w`,
    (4) hence the weight of the undirected edge {a,b} seen by the matching is symmetric.  `lastWrite_last` below says
    what `lastWrite` is. -/
theorem addEdge_no_reversed_dupes (ops : List (Node × Node × Rat)) :
    (keys (build ops)).Nodup ∧
    (∀ a b, a ≠ b → (a, b) ∈ keys (build ops) → (b, a) ∉ keys (build ops)) ∧
    (∀ a b w, ((a, b), w) ∈ build ops ↔ lastWrite ops (a, b) = some w) ∧
    (∀ a b, edgeW (build ops) a b = edgeW (build ops) b a) := by
  have hr := repr_build ops
  have hn := noRev_lastWrite ops
  refine ⟨hr.1, ?_, fun a b w => hr.2 (a, b) w, edgeW_symm_of_repr hr hn⟩
  intro a b hab h1 h2
  have h1' := (mem_keys_iff hr _).mp h1
  have h2' := (mem_keys_iff hr _).mp h2
  exact h2' (hn a b hab h1')

/-- **lastWrite_last** (last write wins): nothing is stored in the empty graph; after one more `add_edge(a, b, w)` the
    pair `(a,b)` carries `w`, the reversed pair `(b,a)` is gone, every other pair is untouched. -/
theorem lastWrite_last (ops : List (Node × Node × Rat)) (a b : Node) (w : Rat) :
    lastWrite [] = (fun _ => none) ∧
    lastWrite (ops ++ [(a, b, w)]) (a, b) = some w ∧
    (a ≠ b → lastWrite (ops ++ [(a, b, w)]) (b, a) = none) ∧
    (∀ k, k ≠ (a, b) → k ≠ (b, a) → lastWrite (ops ++ [(a, b, w)]) k = lastWrite ops k) := by
  refine ⟨rfl, ?_, ?_, ?_⟩
  · rw [lastWrite_snoc]; simp [specAdd]
  · intro hab
    rw [lastWrite_snoc]
    have : (b, a) ≠ (a, b) := by intro h; exact hab (Prod.mk.inj h).2
    simp [specAdd, this]
  · intro k h1 h2
    rw [lastWrite_snoc]; simp [specAdd, h1, h2]

/-- the edge weight the matching sees after an insertion sequence is the last weight written for the unordered pair -/
theorem edgeW_build (ops : List (Node × Node × Rat)) (a b : Node) :
    edgeW (build ops) a b = (match lastWrite ops (a, b) with | some w => some w | none => lastWrite ops (b, a)) := by
  unfold edgeW
  rw [lookup_eq_of_repr (repr_build ops), lookup_eq_of_repr (repr_build ops)]
  cases lastWrite ops (a, b) <;> rfl

/-- **isPerfectMatching_spec**: the checker returns true iff every pair is a graph edge and every node of the graph
    occurs exactly once among the endpoints of the pairs. -/
theorem isPerfectMatching_spec (g : Graph) (m : List Edge) :
    isPerfectMatching g m = true ↔
      (∀ p ∈ m, ∃ w, edgeW g p.1 p.2 = some w) ∧ (∀ v ∈ nodesOf g, (endpoints m).count v = 1) := by
  unfold isPerfectMatching
  simp only [Bool.and_eq_true, List.all_eq_true, beq_iff_eq, Option.isSome_iff_exists]

/-- the checker decides `IsPM`: the endpoints of the pairs are a permutation of the node list (so no pair touches a
    non-node, no node is missed, none is used twice) -/
theorem isPerfectMatching_iff_isPM (g : Graph) (m : List Edge) :
    isPerfectMatching g m = true ↔ IsPM (nodesOf g) (edgeW g) m := by
  rw [isPerfectMatching_spec]
  unfold IsPM
  constructor
  · rintro ⟨he, hc⟩
    have he' : ∀ p ∈ m, (edgeW g p.1 p.2).isSome = true :=
      fun p hp => Option.isSome_iff_exists.mpr (he p hp)
    refine ⟨he', List.perm_iff_count.mpr ?_⟩
    intro v
    by_cases hv : v ∈ nodesOf g
    · rw [hc v hv, List.count_eq_one_of_mem (nodup_nodesOf g) hv]
    · rw [List.count_eq_zero_of_not_mem hv, List.count_eq_zero_of_not_mem]
      intro hmem
      obtain ⟨p, hp, hvp⟩ := List.mem_flatMap.mp hmem
      have := edge_nodes (he' p hp)
      simp only [List.mem_cons, List.not_mem_nil, or_false] at hvp
      rcases hvp with rfl | rfl
      · exact hv this.1
      · exact hv this.2
  · rintro ⟨he, hp⟩
    refine ⟨fun p hpm => Option.isSome_iff_exists.mp (he p hpm), ?_⟩
    intro v hv
    rw [List.perm_iff_count.mp hp v, List.count_eq_one_of_mem (nodup_nodesOf g) hv]

/-- `m` is the minimum of the total weights of the perfect matchings of `ns` (and one exists) -/
def IsMinPMWeight (ns : List Node) (w : Node → Node → Option Rat) (m : Rat) : Prop :=
  (∃ M, IsPM ns w M ∧ weightBy w M = m) ∧ ∀ M, IsPM ns w M → m ≤ weightBy w M

/-- **minPM_spec**: for every duplicate-free node list and every symmetric edge-weight function, `minPM = some m` iff a
    perfect matching exists and `m` is the minimum of their total weights; `minPM = none` iff there is no perfect
    matching.  (Induction on the node count.) -/
theorem minPM_spec (ns : List Node) (w : Node → Node → Option Rat) (hn : ns.Nodup) (hs : Symm w) :
    (∀ m, minPM ns w = some m ↔ IsMinPMWeight ns w m) ∧
    (minPM ns w = none ↔ ¬ ∃ M, IsPM ns w M) := by
  unfold minPM
  have hle := minPMAux_le w hs ns.length ns
  have hsound := minPMAux_sound w ns.length ns
  constructor
  · intro m
    constructor
    · intro h
      refine ⟨hsound m h, ?_⟩
      intro M hM
      obtain ⟨m', hm', hle'⟩ := hle M (le_refl _) hn hM
      rw [h] at hm'; cases hm'; exact hle'
    · rintro ⟨⟨M, hM, hwM⟩, hmin⟩
      obtain ⟨m', hm', hle'⟩ := hle M (le_refl _) hn hM
      obtain ⟨M', hM', hwM'⟩ := hsound m' hm'
      have h1 := hmin M' hM'
      rw [hm']
      congr 1
      rw [hwM] at hle'; rw [hwM'] at h1
      exact le_antisymm hle' h1
  · constructor
    · intro h ⟨M, hM⟩
      obtain ⟨m', hm', -⟩ := hle M (le_refl _) hn hM
      rw [h] at hm'; cases hm'
    · intro h
      cases hres : minPMAux w ns.length ns with
      | none => rfl
      | some m => exact absurd (let ⟨M, hM, _⟩ := hsound m hres; ⟨M, hM⟩) h

/-- `minPM_spec` for the graph produced by any insertion sequence (the oracle op of the driver): its hypotheses
    (duplicate-free nodes, symmetric weights) hold there. -/
theorem minPMGraph_build_spec (ops : List (Node × Node × Rat)) :
    (∀ m, minPMGraph (build ops) = some m ↔ IsMinPMWeight (nodesOf (build ops)) (edgeW (build ops)) m) ∧
    (minPMGraph (build ops) = none ↔ ¬ ∃ M, IsPM (nodesOf (build ops)) (edgeW (build ops)) M) :=
  minPM_spec _ _ (nodup_nodesOf _) (edgeW_symm_of_repr (repr_build ops) (noRev_lastWrite ops))

/-- **negation_reduces**: (1) perfect matchings of the negated graph are those of the graph, with negated total
    weight; (2) hence among perfect matchings, maximising Σ(−w) is minimising Σ w; (3) if a perfect matching exists,
    every maximum-cardinality matching is perfect. -/
theorem negation_reduces (ns : List Node) (w : Node → Node → Option Rat) (hn : ns.Nodup) :
    (∀ M, (IsPM ns (negW w) M ↔ IsPM ns w M) ∧ weightBy (negW w) M = - weightBy w M) ∧
    (∀ M, IsPM ns w M →
      ((∀ M', IsPM ns (negW w) M' → weightBy (negW w) M' ≤ weightBy (negW w) M) ↔
       (∀ M', IsPM ns w M' → weightBy w M ≤ weightBy w M'))) ∧
    ((∃ P, IsPM ns w P) → ∀ M, IsMatching ns w M → (∀ M', IsMatching ns w M' → M'.length ≤ M.length) →
      IsPM ns w M) := by
  refine ⟨fun M => ⟨isPM_negW ns w M, weightBy_negW w M⟩, ?_, ?_⟩
  · intro M _
    constructor
    · intro h M' hM'
      have := h M' ((isPM_negW ns w M').mpr hM')
      rw [weightBy_negW, weightBy_negW] at this
      linarith
    · intro h M' hM'
      have := h M' ((isPM_negW ns w M').mp hM')
      rw [weightBy_negW, weightBy_negW]
      linarith
  · rintro ⟨P, hP⟩ M hM hmax
    have hPM := hmax P (hP.isMatching hn)
    have hlen : ns.length ≤ (endpoints M).length := by
      rw [← hP.2.length_eq, length_endpoints, length_endpoints]; omega
    exact ⟨hM.1, (List.subperm_of_subset hM.2.1 hM.2.2).perm_of_length_le hlen⟩

/-- documented contract of `networkx.max_weight_matching(G, maxcardinality=True)` on the edge list it is given:
    a matching of maximum cardinality and, among those, of maximum total weight.  EXTERNAL — tested, not proved. -/
def NxContract (oracle : Graph → Bool → List Edge) : Prop :=
  ∀ es : Graph,
    IsMatching (nodesOf es) (edgeW es) (oracle es true) ∧
    (∀ M', IsMatching (nodesOf es) (edgeW es) M' → M'.length ≤ (oracle es true).length) ∧
    (∀ M', IsMatching (nodesOf es) (edgeW es) M' → M'.length = (oracle es true).length →
      weightBy (edgeW es) M' ≤ weightBy (edgeW es) (oracle es true))

/-- **wrapper theorem**: if the networkx routine meets its contract then for every graph that admits a perfect
    matching `mwpm_networkx` returns a perfect matching (every node exactly once, only graph edges) whose total weight
    is the minimum over all perfect matchings, equal to the verified oracle `minPM` when the graph stores no pair in
    both orientations (as every `SimpleGraph` does); the empty graph yields the empty matching without consulting the
    routine. -/
theorem mwpmNetworkx_min_weight_perfect (oracle : Graph → Bool → List Edge) (hc : NxContract oracle) (g : Graph)
    (hpm : ∃ P, IsPM (nodesOf g) (edgeW g) P) :
    IsPM (nodesOf g) (edgeW g) (mwpmNetworkx oracle g) ∧
    (∀ P, IsPM (nodesOf g) (edgeW g) P → matchingWeight g (mwpmNetworkx oracle g) ≤ matchingWeight g P) ∧
    (Symm (edgeW g) → minPMGraph g = some (matchingWeight g (mwpmNetworkx oracle g))) := by
  have hn := nodup_nodesOf g
  have core : IsPM (nodesOf g) (edgeW g) (mwpmNetworkx oracle g) ∧
      (∀ P, IsPM (nodesOf g) (edgeW g) P → matchingWeight g (mwpmNetworkx oracle g) ≤ matchingWeight g P) := by
    unfold mwpmNetworkx matchingWeight
    by_cases hg : g.isEmpty = true
    · rw [if_pos hg]
      have : g = [] := List.isEmpty_iff.mp hg
      subst this
      refine ⟨⟨by simp, by simp [endpoints, nodesOf]⟩, ?_⟩
      intro P hP
      have : P = [] := endpoints_eq_nil (List.Perm.eq_nil (by simpa [nodesOf] using hP.2))
      subst this
      exact le_refl _
    · rw [if_neg hg]
      simp only [nxInput]
      obtain ⟨h1, h2, h3⟩ := hc (negated g)
      rw [nodesOf_negated, edgeW_negated] at h1 h2 h3
      set R := oracle (negated g) true with hR
      have h1' := (isMatching_negW _ _ _).mp h1
      have hmax : ∀ M', IsMatching (nodesOf g) (edgeW g) M' → M'.length ≤ R.length :=
        fun M' hM' => h2 M' ((isMatching_negW _ _ _).mpr hM')
      have hRpm : IsPM (nodesOf g) (edgeW g) R := (negation_reduces _ _ hn).2.2 hpm R h1' hmax
      refine ⟨hRpm, ?_⟩
      intro P hP
      have hlen : P.length = R.length := by
        have a := length_endpoints P
        have b := length_endpoints R
        rw [hP.2.length_eq] at a
        rw [hRpm.2.length_eq] at b
        omega
      have := h3 P ((isMatching_negW _ _ _).mpr (hP.isMatching hn)) hlen
      rw [weightBy_negW, weightBy_negW] at this
      linarith
  refine ⟨core.1, core.2, ?_⟩
  intro hs
  exact ((minPM_spec _ _ hn hs).1 _).mpr ⟨⟨_, core.1, rfl⟩, core.2⟩

/-- the empty graph yields the empty matching, whatever the backends do -/
theorem mwpm_empty (oracle : Graph → Bool → List Edge) (toInt : Rat → Int) (clib : List (Edge × Int) → List Edge)
    (available : Bool) :
    mwpm available (mwpmBlossom5 toInt clib) (mwpmNetworkx oracle) [] = [] := by
  cases available <;> rfl

/-! ### non-vacuity: a concrete 4-cycle with a chord, inserted with a reversed re-insertion -/

/-- insertion sequence: {0,1}:5 first written as (1,0):9 then re-inserted reversed; {1,2}:1; {2,3}:-2; {3,0}:1/2;
    {0,2}:0 -/
def exOps : List (Node × Node × Rat) := [(1, 0, 9), (1, 2, 1), (0, 1, 5), (2, 3, -2), (3, 0, 1/2), (0, 2, 0)]

example : build exOps = [((1, 2), 1), ((0, 1), 5), ((2, 3), -2), ((3, 0), 1/2), ((0, 2), 0)] := by decide +kernel
example : isPerfectMatching (build exOps) [(2, 1), (0, 3)] = true := by decide +kernel
example : isPerfectMatching (build exOps) [(0, 2), (1, 3)] = false := by decide +kernel
example : minPMGraph (build exOps) = some (3/2) := by decide +kernel
example : matchingWeight (build exOps) [(2, 1), (0, 3)] = 3/2 := by decide +kernel
example : matchingWeight (build exOps) [(0, 1), (2, 3)] = 3 := by decide +kernel
example : ∃ P, IsPM (nodesOf (build exOps)) (edgeW (build exOps)) P :=
  ⟨[(2, 1), (0, 3)], (isPerfectMatching_iff_isPM _ _).mp (by decide +kernel)⟩
example : minPMGraph [((0, 1), 1), ((1, 2), 1)] = none := by decide +kernel

end Qec.C13
