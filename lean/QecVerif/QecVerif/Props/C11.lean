/-
  Property C11 — 2-D tensor-network contraction is exact without truncation and sweep-independent.

  Objects.
  * `Qec.Tensor.*` (Model/Tensor.lean) is the executable model run by `qvdriver` and compared with
    qecsim.tensortools on every check: tensors are shape + flat `Array Int` (numpy C order), `contract`
    mirrors the column loop of `mps2d.contract`.
  * `Qec.TensorAlg.*` (Lemmas/Tensor.lean) is the function-level algebra over an arbitrary commutative semiring:
    `hcomp` = one `contract_pairwise` cell (row-major bond merging), `vcomp` = one `contract_ladder` step,
    `lrT / rlT / splitT` = the tensors produced by the three sweeps on a grid `g` of `(m+1) × (n+1)` tensors,
    `gridT` = the grid merged columns first, `rowsT` = merged rows first, `trGrid` = the transposed network.
  * `Qec.TensorBridge.*` (Lemmas/TensorBridge.lean) connects the two: `(T4.ofFn … f).get i j k l = f i j k l`
    in range, hence `cell ≈ hcomp`, `ladderStep ≈ vcomp` (`Eqv` = same shape, same in-range entries), and the
    executed `contract` on a None-free network returns the scalar of the function-level sweep tensor.

  * `Qec.TensorExact.*` (Lemmas/TensorExact.lean): sums over bond-index assignments (`sumV`, Fubini), the state-sum
    formula of a ladder-contracted column and of the merged grid tensor, and the mixed-radix enumeration of the
    executable `exactValue` as such a sum; `netF tn` is the function-level grid of a network (`None` ↦ scalar 1).
  * `Qec.TensorPad.*` (Lemmas/TensorPad.lean): `None` sites in `contract_pairwise` / `contract_ladder` behave as the
    scalar tensor 1 (unit of `hcomp` / `vcomp` up to in-range agreement), presence tracking through the sweeps.

  Proved here: sweep independence at full generality (any commutative semiring, any grid shape, any compatible
  bond dimensions): LR = RL = every split = rows-first = columns-first, transposed network = transpose of the
  result; `exactValue_eq_grid`: the executable brute-force `exactValue` (the definition the harness compares with the
  real contraction on every run) equals the scalar of the merged grid tensor for every compatible network (any shape,
  any bond dimensions, None sites included); hence for the executed model over `Int`: `contract_lr_exact`,
  `contract_rl_exact`, `contract_transpose_exact`, `contract_split` (every split column), all with `exactValue` on
  the right-hand side and with columns possibly padded with `None` at their ends (`PaddedRows`); `noop_truncation` for `chi` None / 0 / ≥ every bond that occurs during the
  sweep, falsy `tol`, or an all-false mask (any start/stop/step); error cases.

  STATED, NOT PROVED:
  * (none of the statements of DESIGN.md §7 C11 is left unproved.)  Scope notes: the theorems about the
    executed model are over `Int` entries (what `qvdriver` runs; the algebra — `*_partial`, interchange, state sums —
    is over any commutative semiring); `None` padding is covered under `PaddedRows` (the rows that hold a tensor form
    an interval — the documented domain of `contract_ladder`; `None` ↦ scalar 1); truncation that is not a no-op
    (QR/SVD, LAPACK) is outside the model and outside the property.
-/
import QecVerif.Lemmas.TensorPad

namespace Qec.C11
open Qec.Tensor Qec.TensorAlg Qec.TensorBridge Qec.TensorModel Qec.TensorExact Qec.TensorPad

section Algebra
variable {R : Type*} [CommSemiring R]

/-- interchange law of the double category of 4-leg tensors (row-major bond merging) -/
theorem interchange_law (A B C D : F4 R) (h1 : B.s = D.n) (h2 : C.e = D.w) :
    vcomp (hcomp A B) (hcomp C D) = hcomp (vcomp A C) (vcomp B D) := interchange A B C D h1 h2

/-- the pairwise cell is associative, for every index tuple (no side conditions) -/
theorem hcomp_associative (A B C : F4 R) : hcomp (hcomp A B) C = hcomp A (hcomp B C) := hcomp_assoc A B C

/-- column fold: ladder of a pairwise-contracted column = cell of the ladders -/
theorem ladder_of_pairwise (l r : Col R) (hr : ColOK r) (hm : ColMatch l r) :
    ladderCol (hzipCol l r) = hcomp (ladderCol l) (ladderCol r) := ladderCol_hzipCol l r hr hm

/-- left-to-right sweep = grid merged columns first = grid merged rows first -/
theorem sweep_lr_exact_partial {g : ℕ → ℕ → F4 R} {m n : ℕ} (h : GridOK g m n) :
    lrT g m n = gridT g m n ∧ rowsT g m n = gridT g m n := ⟨lrT_eq_gridT h, rowsT_eq_gridT h⟩

/-- right-to-left sweep = left-to-right sweep (= grid tensor) -/
theorem sweep_rl_exact_partial {g : ℕ → ℕ → F4 R} {m n : ℕ} (h : GridOK g m n) :
    rlT g m n = gridT g m n ∧ rlT g m n = lrT g m n := ⟨rlT_eq_gridT h, by rw [rlT_eq_gridT h, lrT_eq_gridT h]⟩

/-- split at any column (`a+1` columns on the left, `b+1` on the right), recombined as `inner_product` does -/
theorem split_exact_partial {g : ℕ → ℕ → F4 R} {m a b : ℕ} (h : GridOK g m (a + 1 + b)) :
    splitT g m a b = gridT g m (a + 1 + b) := splitT_eq_gridT h

/-- contracting the transposed network column by column gives the transpose of the grid tensor, hence the same
    scalar -/
theorem transpose_exact_partial {g : ℕ → ℕ → F4 R} {m n : ℕ} (h : GridOK g m n) :
    lrT (trGrid g) n m = tr (gridT g m n) ∧ scalar (lrT (trGrid g) n m) = scalar (gridT g m n) := by
  have := lrT_trGrid h
  rw [lrT_eq_gridT h] at this
  exact ⟨this, by rw [this, scalar_tr]⟩

end Algebra

/-- the executed cell agrees with `hcomp` on every in-range entry -/
theorem cell_agrees_hcomp (a b : T4) (h : a.e = b.w) :
    ∃ t, cell a b = .ok t ∧ Eqv (toF t) (hcomp (toF a) (toF b)) := cell_bridge a b h

/-- the executed ladder step agrees with `vcomp` on every in-range entry -/
theorem ladderStep_agrees_vcomp (v t : T4) (h : v.s = t.n) :
    ∃ u, ladderStep v t = .ok u ∧ Eqv (toF u) (vcomp (toF v) (toF t)) := ladderStep_bridge v t h

/-- executed model, default arguments (left to right): the value is the scalar of the grid tensor.
    `RepNet tn g m n`: `tn` has shape `(m+1, n+1)`, no `None`, and `g r c` agrees with the tensor at `(r, c)`. -/
theorem contract_lr_exact_partial {tn : Net} {g : ℕ → ℕ → F4 ℤ} {m n : ℕ} (h : RepNet tn g m n)
    (hok : GridOK g m n) (hn : (gridT g m n).n = 1) (he : (gridT g m n).e = 1) (hs : (gridT g m n).s = 1)
    (hw : (gridT g m n).w = 1) :
    contract tn none false none none none none = .ok (.scalar (scalar (gridT g m n))) := by
  have e := lrT_eq_gridT hok
  have := contract_lr h hok (by rw [e]; exact hn) (by rw [e]; exact he) (by rw [e]; exact hs) (by rw [e]; exact hw)
  rwa [e] at this

/-- executed model, `step = -1` (right to left): the same value -/
theorem contract_rl_exact_partial {tn : Net} {g : ℕ → ℕ → F4 ℤ} {m n : ℕ} (h : RepNet tn g m n)
    (hok : GridOK g m n) (hn : (gridT g m n).n = 1) (he : (gridT g m n).e = 1) (hs : (gridT g m n).s = 1)
    (hw : (gridT g m n).w = 1) :
    contract tn none false none none (some (-1)) none = .ok (.scalar (scalar (gridT g m n))) := by
  have e := rlT_eq_gridT hok
  have := contract_rl h hok (by rw [e]; exact hn) (by rw [e]; exact he) (by rw [e]; exact hs) (by rw [e]; exact hw)
  rwa [e] at this

/-- sweep independence of the executed model -/
theorem contract_lr_eq_rl {tn : Net} {g : ℕ → ℕ → F4 ℤ} {m n : ℕ} (h : RepNet tn g m n)
    (hok : GridOK g m n) (hn : (gridT g m n).n = 1) (he : (gridT g m n).e = 1) (hs : (gridT g m n).s = 1)
    (hw : (gridT g m n).w = 1) :
    contract tn none false none none (some (-1)) none = contract tn none false none none none none := by
  rw [contract_lr_exact_partial h hok hn he hs hw, contract_rl_exact_partial h hok hn he hs hw]

/-! ### the exact value: brute-force sum over all bond-index assignments -/

/-- **exact value = merged grid tensor.**  Whenever the model's `exactValue` (the literal mixed-radix sum over all
    bond-index assignments of the product of the entries; `None` sites count as the scalar tensor 1) is defined —
    i.e. for every compatible network, any shape, any bond dimensions — it is the scalar of the merged grid tensor of
    the network's function-level grid `netF tn`. -/
theorem exactValue_eq_grid (tn : Net) (x : ℤ) (hx : exactValue tn = some x) :
    x = scalar (gridT (netF tn) (tn.nrows - 1) (tn.ncols - 1)) := by
  have hc := compatible_of_exact tn x hx
  have := exactValue_eq_gridT tn _ _ (compat_of_compatible tn hc) hc
  rw [hx] at this
  exact Option.some.inj this

/-- `exactValue` is defined exactly on the compatible networks -/
theorem exactValue_defined (tn : Net) : (exactValue tn).isSome = compatible tn := by
  unfold exactValue
  cases compatible tn <;> rfl

/-- **left-to-right contraction is exact** (default arguments), columns possibly padded with `None` at their ends
    (`PaddedRows`: the rows holding at least one tensor form a non-empty interval, which is what keeps the swept
    MPS contiguous for `contract_ladder`): `contract` returns the brute-force exact value -/
theorem contract_lr_exact (tn : Net) (hp : PaddedRows tn) (x : ℤ) (hx : exactValue tn = some x) :
    contract tn none false none none none none = .ok (.scalar x) := by
  have hcp := compat_of_compatible tn (compatible_of_exact tn x hx)
  rw [exactValue_eq_grid tn x hx]
  exact contract_lr_pad tn _ _ hcp hp

/-- **right-to-left contraction is exact** (`step = -1`), columns possibly padded with `None` -/
theorem contract_rl_exact (tn : Net) (hp : PaddedRows tn) (x : ℤ) (hx : exactValue tn = some x) :
    contract tn none false none none (some (-1)) none = .ok (.scalar x) := by
  have hcp := compat_of_compatible tn (compatible_of_exact tn x hx)
  rw [exactValue_eq_grid tn x hx]
  exact contract_rl_pad tn _ _ hcp hp

/-- a None-free network (of non-zero shape) is in particular padded -/
theorem noneFree_paddedRows (tn : Net) (hR : 0 < tn.nrows) (hC : 0 < tn.ncols) (h : NoneFree tn) : PaddedRows tn :=
  noneFree_padded tn hR hC h

/-- a None-free network (of non-zero shape) has a None-free, hence padded, transpose -/
theorem noneFree_paddedRows_transpose (tn : Net) (hR : 0 < tn.nrows) (hC : 0 < tn.ncols) (h : NoneFree tn) :
    PaddedRows tn.transpose :=
  noneFree_padded tn.transpose hC hR (noneFree_transpose tn h)

/-- **contraction of the transposed network is exact**: `contract (mps2d.transpose tn)` returns the exact value
    of `tn` (the transposed network may be padded with `None` at its column ends) -/
theorem contract_transpose_exact (tn : Net) (hp : PaddedRows tn.transpose) (x : ℤ) (hx : exactValue tn = some x) :
    contract tn.transpose none false none none none none = .ok (.scalar x) := by
  have hcp := compat_of_compatible tn (compatible_of_exact tn x hx)
  rw [exactValue_eq_grid tn x hx]
  exact contract_transpose_pad tn _ _ hcp hp

/-- **split and recombine is exact**: for every split column `0 < k < ncols`, contracting columns `< k` left to
    right, columns `≥ k` right to left (`start=-1, stop=k-1, step=-1`) and recombining with
    `inner_product(left, right) * mult_left * mult_right` gives the exact value (columns possibly padded with
    `None`) -/
theorem contract_split (tn : Net) (hp : PaddedRows tn) (x : ℤ) (hx : exactValue tn = some x) (k : ℕ) (hk0 : 0 < k)
    (hk : k < tn.ncols) : splitValue tn k none false none = .ok x := by
  have hcp := compat_of_compatible tn (compatible_of_exact tn x hx)
  obtain ⟨a, rfl⟩ : ∃ a, k = a + 1 := ⟨k - 1, by omega⟩
  obtain ⟨b, hb⟩ : ∃ b, tn.ncols - 1 = a + 1 + b := ⟨tn.ncols - 1 - (a + 1), by omega⟩
  have hx' := exactValue_eq_grid tn x hx
  rw [hb] at hcp hx'
  rw [hx']
  exact splitValue_pad tn _ a b hcp hp

/-! ### no-op truncation -/

/-- one call of `truncate`: falsy `tol` and (`chi` None, 0, or at least the bond dimension), or an all-false mask,
    or an empty MPS: the MPS is returned unchanged with norm 1 -/
theorem truncate_noop (mps : MPS) (chi : Option Int) (tol : Bool) (mask : Option (List Bool))
    (h : (tol = false ∧ (chi = none ∨ chi = some 0 ∨ ∃ c, chi = some c ∧ (bondDimension mps : Int) ≤ c)) ∨
         (∃ m, mask = some m ∧ m.any id = false) ∨ mps = []) :
    truncate mps chi tol mask = .ok (mps, 1) := by
  apply truncate_of_guard_false
  rcases h with ⟨rfl, h⟩ | ⟨m, rfl, hm⟩ | rfl
  · rcases h with rfl | rfl | ⟨c, rfl, hc⟩
    · simp [truncateGuard]
    · simp [truncateGuard]
    · have : ¬ (c < (bondDimension mps : Int)) := by omega
      simp [truncateGuard, this]
  · simp [truncateGuard, hm]
  · simp [truncateGuard]

/-- **whole contraction, no-op truncation settings**: with a falsy `tol` and a `chi` that is None, 0, or at least
    every bond dimension that occurs during the sweep (`contractBonds`: `bond_dimension` of every intermediate
    result of `contract_pairwise` for this `start/stop/step`), or with an all-false mask of the right shape,
    `contract` returns exactly what it returns without any truncation argument -/
theorem noop_truncation (tn : Net) (chi : Option Int) (tol : Bool) (start stop step : Option Int)
    (mask : Option Mask)
    (hshape : ∀ m, mask = some m → m.nrows = tn.nrows ∧ m.ncols = tn.ncols)
    (h : (tol = false ∧ (chi = none ∨ chi = some 0 ∨
            ∃ c, chi = some c ∧ ∀ b ∈ contractBonds tn start stop step, (b : Int) ≤ c)) ∨
         (∃ m, mask = some m ∧ ∀ i, m.a.getD i false = false)) :
    contract tn chi tol start stop step mask = contract tn none false start stop step none := by
  have hchk : maskOK tn mask = true := by
    cases mask with
    | none => rfl
    | some m => obtain ⟨a, b⟩ := hshape m rfl; simp [maskOK, a, b]
  have hnone : maskOK tn none = true := rfl
  rw [contract_unfold, contract_unfold]
  simp only [hchk, hnone, Bool.not_true, Bool.false_eq_true, if_false]
  cases hcr : colRange start stop step tn.ncols with
  | error e => rfl
  | ok cr =>
    rw [contractBonds_eq tn start stop step cr hcr] at h
    exact contractCols_noop tn chi tol _ mask cr h

/-- **no-op truncation settings leave the exact value unchanged**: a full left-to-right or right-to-left contraction
    with a falsy `tol` and `chi` None / 0 / at least every bond that occurs, or with an all-false mask, still returns
    the exact value -/
theorem contract_noop_exact (tn : Net) (hp : PaddedRows tn) (x : ℤ) (hx : exactValue tn = some x)
    (chi : Option Int) (tol : Bool) (step : Option Int) (hstep : step = none ∨ step = some (-1)) (mask : Option Mask)
    (hshape : ∀ m, mask = some m → m.nrows = tn.nrows ∧ m.ncols = tn.ncols)
    (h : (tol = false ∧ (chi = none ∨ chi = some 0 ∨
            ∃ c, chi = some c ∧ ∀ b ∈ contractBonds tn none none step, (b : Int) ≤ c)) ∨
         (∃ m, mask = some m ∧ ∀ i, m.a.getD i false = false)) :
    contract tn chi tol none none step mask = .ok (.scalar x) := by
  rw [noop_truncation tn chi tol none none step mask hshape h]
  rcases hstep with rfl | rfl
  · exact contract_lr_exact tn hp x hx
  · exact contract_rl_exact tn hp x hx

/-! ### error cases -/

/-- `as_scalar` raises ValueError exactly on tensors whose size is not 1 -/
theorem not_scalar_raises (t : T4) : asScalar t = .error .value ↔ t.size ≠ 1 := by
  unfold asScalar
  by_cases h : t.size = 1 <;> simp [h, pure, Except.pure, throw, throwThe, MonadExceptOf.throw]

/-- an inner product whose ladder-contracted tensor is not a scalar raises ValueError -/
theorem inner_not_scalar_raises (bra ket m : MPS) (t : T4) (h1 : contractPairwise bra ket = .ok m)
    (h2 : contractLadder m = .ok t) (h3 : t.size ≠ 1) : innerProduct bra ket = .error .value := by
  simp only [innerProduct, h1, h2, bind, Except.bind, (not_scalar_raises t).mpr h3]

/-- a tensor, then a None, then a tensor again: `_mps_start_stop_indices` (hence `contract_ladder`) raises
    ValueError -/
theorem noncontiguous_raises (l1 l2 l3 l4 : MPS) (s t : T4) :
    startStop (l1 ++ some s :: (l2 ++ none :: (l3 ++ some t :: l4))) = .error .value ∧
    contractLadder (l1 ++ some s :: (l2 ++ none :: (l3 ++ some t :: l4))) = .error .value := by
  have h := aux_fresh l1 l2 l3 l4 s t 0
  constructor
  · simp only [startStop, h, bind, Except.bind]
  · simp only [contractLadder, startStop, h, bind, Except.bind]

/-! ### non-vacuity: the hypotheses are satisfiable on concrete non-trivial inputs -/

/-- a 1×2 network with a bond of dimension 2 -/
def t0 : T4 := { n := 1, e := 2, s := 1, w := 1, d := #[3, 4] }
def t1 : T4 := { n := 1, e := 1, s := 1, w := 2, d := #[5, 6] }
def tnEx : Net := { nrows := 1, ncols := 2, a := #[some t0, some t1] }
def gEx : ℕ → ℕ → F4 ℤ := fun _ c => if c = 0 then toF t0 else toF t1

example : RepNet tnEx gEx 0 1 := by
  refine ⟨rfl, rfl, fun r c hr hc => ?_⟩
  obtain rfl : r = 0 := by omega
  rcases (by omega : c = 0 ∨ c = 1) with rfl | rfl
  · exact ⟨t0, rfl, Eqv.refl _⟩
  · exact ⟨t1, rfl, Eqv.refl _⟩

example : GridOK gEx 0 1 := by
  refine ⟨fun r c hr _ => by omega, fun r c _ hc => ?_⟩
  obtain rfl : c = 0 := by omega
  rfl

example : (gridT gEx 0 1).n = 1 ∧ (gridT gEx 0 1).e = 1 ∧ (gridT gEx 0 1).s = 1 ∧ (gridT gEx 0 1).w = 1 :=
  ⟨rfl, rfl, rfl, rfl⟩

/-- the hypotheses of the `…_exact` theorems hold for that network: it is None-free and its exact value is
    `3*5 + 4*6` -/
example : NoneFree tnEx := by
  intro r hr c hc
  obtain rfl : r = 0 := by simp only [tnEx] at hr; omega
  rcases (by simp only [tnEx] at hc; omega : c = 0 ∨ c = 1) with rfl | rfl <;> rfl

example : exactValue tnEx = some 39 := by decide

/-- a padded 2×2 network (`None` at the top of column 0, facing bonds 1, vertical bond 2 in column 1, horizontal
    bond 2 in row 1) satisfies the hypotheses of `contract_lr_exact` / `contract_rl_exact` -/
def pa : T4 := { n := 1, e := 1, s := 2, w := 1, d := #[2, 3] }
def pb : T4 := { n := 1, e := 2, s := 1, w := 1, d := #[5, 7] }
def pc : T4 := { n := 2, e := 1, s := 1, w := 2, d := #[1, 2, 3, 4] }
def tnPad : Net := { nrows := 2, ncols := 2, a := #[none, some pa, some pb, some pc] }

example : PaddedRows tnPad := by
  refine ⟨0, 2, by decide, le_refl _, fun r hr => ?_⟩
  rcases (by simp only [tnPad] at hr; omega : r = 0 ∨ r = 1) with rfl | rfl
  · exact ⟨fun _ => ⟨le_refl _, by decide⟩, fun _ => ⟨1, by decide, rfl⟩⟩
  · exact ⟨fun _ => ⟨by decide, by decide⟩, fun _ => ⟨0, by decide, rfl⟩⟩

example : PaddedRows tnPad.transpose := by
  refine ⟨0, 2, by decide, le_refl _, fun r hr => ?_⟩
  rcases (by simp only [tnPad, Net.transpose] at hr; omega : r = 0 ∨ r = 1) with rfl | rfl
  · exact ⟨fun _ => ⟨le_refl _, by decide⟩, fun _ => ⟨1, by decide, by decide⟩⟩
  · exact ⟨fun _ => ⟨by decide, by decide⟩, fun _ => ⟨0, by decide, by decide⟩⟩

/-- `chi = 2` bounds every bond that occurs in the left-to-right sweep of that network -/
example : ∀ b ∈ contractBonds tnPad none none none, (b : Int) ≤ 2 := by decide

example : exactValue tnPad = some (2 * (5 * 1 + 7 * 2) + 3 * (5 * 3 + 7 * 4)) := by decide

/-- a 2×2 grid with vertical bonds 2 and horizontal bonds 3 satisfies `GridOK` -/
def gEx2 : ℕ → ℕ → F4 ℤ := fun r c =>
  { n := if r = 0 then 1 else 2, e := if c = 0 then 3 else 1, s := if r = 0 then 2 else 1,
    w := if c = 0 then 1 else 3, f := fun i j k l => (i + 2 * j + 3 * k + 5 * l + r + c : ℕ) }

example : GridOK gEx2 1 1 := by
  refine ⟨fun r c hr _ => ?_, fun r c _ hc => ?_⟩
  · obtain rfl : r = 0 := by omega
    rfl
  · obtain rfl : c = 0 := by omega
    rfl

/-- the interchange hypotheses hold, e.g., for the four tensors of that grid -/
example : (gEx2 0 1).s = (gEx2 1 1).n ∧ (gEx2 1 0).e = (gEx2 1 1).w := ⟨rfl, rfl⟩

/-- a non-contiguous MPS and a non-scalar tensor exist -/
example : startStop [some t0, none, some t1] = .error .value := (noncontiguous_raises [] [] [] [] t0 t1).1
example : asScalar t0 = .error .value := (not_scalar_raises t0).mpr (by decide)

end Qec.C11
