/-
  C02 — every decoder's recovery reproduces the syndrome.
  Property theorems about `Model/Decoders.lean`, for ALL lattice sizes, ALL syndromes and ANY matching.
  Cross-property facts enter as explicit hypotheses:
    * `PlanarL.Spec R C`   — C15 (`plaquetteIndices_spec`, `path_syndrome_vector`, `virtualPlaquette_spec`
                              of Props/C15/Planar.lean, statements copied verbatim),
    * `ToricL.Spec R C`    — C15 toric path/endpoint lemma,
    * `RunSpec`            — the run-to-boundary lemma of the rotated planar / colour lattices,
    * commutation of logicals with stabilizers (C07) in `times_logical_keeps_syndrome`.
  Helper lemmas: Lemmas/Pairing.lean (the pairing theorem, generic), Lemmas/Decoders.lean.
-/
import QecVerif.Lemmas.Pairing
import QecVerif.Lemmas.Decoders
namespace Qec.C02
open Qec Qec.Dec Qec.Pairing

/-! ### the pairing theorem (F5), generic over a lattice interface -/

/-- **pairing theorem**: for any lattice with a `path` satisfying the endpoint lemma (`PathSpec`) and any list
    of admissible pairs in which every defect occurs exactly once as an endpoint and every other endpoint is
    virtual / out of lattice (no in-lattice non-defect occurs), the XOR-fold of the paths has syndrome exactly
    the defect set. -/
theorem pairing_theorem {ι : Type} [DecidableEq ι] (L : PathSpec ι) (pairs : List (ι × ι)) (defects : List ι)
    (hok : ∀ x ∈ pairs, L.ok x.1 x.2)
    (hocc : ∀ p ∈ L.plaqs, (ends pairs).count p = if p ∈ defects then 1 else 0) :
    synd L.S (xorAll (2 * L.n) (pairs.map fun x => L.path x.1 x.2)) =
      L.plaqs.map fun p => decide (p ∈ defects) :=
  pairing_defects L pairs defects hok hocc

/-- parity form, no assumption on the pairs beyond admissibility: syndrome bit of `p` = parity of the number of
    occurrences of `p` among the endpoints -/
theorem pairing_parity {ι : Type} [DecidableEq ι] (L : PathSpec ι) (pairs : List (ι × ι))
    (hok : ∀ x ∈ pairs, L.ok x.1 x.2) :
    synd L.S (xorAll (2 * L.n) (pairs.map fun x => L.path x.1 x.2)) =
      L.plaqs.map fun p => decide ((ends pairs).count p % 2 = 1) :=
  pairing L pairs hok

/-! ### the monitor -/

/-- **recoveryOk_sound**: for a syndrome `s` that is the syndrome of some error, one evaluation of the monitor
    decides the property for ALL errors with that syndrome: `recovery ⊕ error` commutes with every stabilizer -/
theorem recoveryOk_sound (n : Nat) (S : List BVec) (s r : BVec)
    (hS : ∀ x ∈ S, x.length = 2 * n) (hr : r.length = 2 * n)
    (hs : ∃ e0 : BVec, e0.length = 2 * n ∧ synd S e0 = s) :
    recoveryOk S s r = true ↔
      ∀ e : BVec, e.length = 2 * n → synd S e = s → synd S (xorV r e) = zeros S.length := by
  have hadd : ∀ e : BVec, e.length = 2 * n → synd S (xorV r e) = xorV (synd S r) (synd S e) := by
    intro e he
    exact C09.synd_add S r e (by rw [hr, he]) (by rw [hr]; omega) (by intro x hx; rw [hS x hx, hr])
  unfold recoveryOk
  rw [beq_iff_eq]
  constructor
  · intro h e he hes
    rw [hadd e he, h, hes, xorV_self, ← hes, synd_length]
  · intro h
    obtain ⟨e0, he0, hs0⟩ := hs
    have := h e0 he0 hs0
    rw [hadd e0 he0, hs0] at this
    apply xorV_eq_zeros
    · rw [synd_length, ← hs0, synd_length]
    · rw [this, synd_length]

/-- the length-checking monitor used by the driver: additionally a vector of the right length -/
theorem recoveryOkN_iff (n : Nat) (S : List BVec) (s r : BVec) :
    recoveryOkN n S s r = true ↔ r.length = 2 * n ∧ synd S r = s := by
  simp [recoveryOkN, recoveryOk]

/-! ### multiplying by logicals / stabilizers -/

/-- **times_logical_keeps_syndrome**: multiplying a recovery by any product of operators that commute with all
    stabilizers (logicals, stabilizers — C07) keeps its syndrome; so whichever coset the tensor-network stage
    picks, the answer has the syndrome of the sample -/
theorem times_logical_keeps_syndrome (n : Nat) (S : List BVec) (r : BVec) (ls : List BVec)
    (hS : ∀ x ∈ S, x.length = 2 * n) (hr : r.length = 2 * n)
    (hl : ∀ l ∈ ls, l.length = 2 * n ∧ synd S l = zeros S.length) :
    synd S (timesLogical r ls) = synd S r ∧ (timesLogical r ls).length = 2 * n := by
  unfold timesLogical
  induction ls generalizing r with
  | nil => exact ⟨rfl, hr⟩
  | cons l ls ih =>
    have hll := hl l (by simp)
    have hlen : (xorV r l).length = 2 * n := by rw [xorV_length _ _ (by rw [hr, hll.1]), hr]
    have := ih (xorV r l) hlen (fun x hx => hl x (by simp [hx]))
    rw [List.foldl_cons]
    refine ⟨?_, this.2⟩
    rw [this.1, C09.synd_add S r l (by rw [hr, hll.1]) (by rw [hr]; omega) (by intro x hx; rw [hS x hx, hr]),
      hll.2, ← synd_length S r, xorV_zeros_right _ _ rfl]

/-! ### the naive decoder -/

/-- **naive_syndrome** (soundness): whatever the naive decoder returns has the requested syndrome and length 2n -/
theorem naive_syndrome (n : Nat) (S : List BVec) (s r : BVec) (h : naiveDecode n S s = some r) :
    synd S r = s ∧ r.length = 2 * n := by
  unfold naiveDecode at h
  obtain ⟨l, hl, hmem, _, _⟩ := ipauli_spec n 0 n ⟨Nat.zero_le _, Nat.le_refl _⟩
  have hi : ibsf n 0 n = some (l.map toBsf) := by simp [ibsf, hl]
  rw [hi] at h
  simp only [Option.bind_some] at h
  have h1 := List.find?_some h
  have h2 := List.mem_of_find?_eq_some h
  rw [List.mem_map] at h2
  obtain ⟨p, hp, rfl⟩ := h2
  refine ⟨by simpa using h1, ?_⟩
  rw [C09.toBsf_length, ((hmem p).mp hp).1]

/-- **naive_syndrome** (never returns nothing): it is `some` whenever `s` is the syndrome of some error —
    completeness of `ibsf` (C09) -/
theorem naive_complete (n : Nat) (S : List BVec) (s e : BVec) (he : e.length = 2 * n) (hs : synd S e = s) :
    ∃ r, naiveDecode n S s = some r := by
  unfold naiveDecode
  obtain ⟨l, hl, hmem, _, _⟩ := ipauli_spec n 0 n ⟨Nat.zero_le _, Nat.le_refl _⟩
  have hi : ibsf n 0 n = some (l.map toBsf) := by simp [ibsf, hl]
  rw [hi]
  simp only [Option.bind_some]
  have hp : ofBsf e ∈ l := by
    rw [hmem]
    have hlen := ofBsf_length e n he
    exact ⟨hlen, Nat.zero_le _, hlen ▸ pauliWt_le _⟩
  have hin : e ∈ l.map toBsf := by
    rw [List.mem_map]
    exact ⟨ofBsf e, hp, C09.toBsf_ofBsf e (by rw [he]; omega)⟩
  have : (List.find? (fun e => synd S e == s) (l.map toBsf)).isSome = true := by
    rw [List.find?_isSome]
    exact ⟨e, hin, by simp [hs]⟩
  exact Option.isSome_iff_exists.mp this

/-- with the `max_qubits` guard: inside the stated domain (`n ≤ max_qubits` or the guard disabled) the decoder
    neither raises nor returns `None` on the syndrome of an error -/
theorem naive_full (mq : Option Nat) (n : Nat) (S : List BVec) (s e : BVec)
    (hmq : ∀ m, mq = some m → m = 0 ∨ n ≤ m) (he : e.length = 2 * n) (hs : synd S e = s) :
    ∃ r, naiveDecodeFull mq n S s = .recovery r ∧ synd S r = s ∧ r.length = 2 * n := by
  obtain ⟨r, hr⟩ := naive_complete n S s e he hs
  refine ⟨r, ?_, naive_syndrome n S s r hr⟩
  unfold naiveDecodeFull
  cases mq with
  | none => simp [hr]
  | some m =>
    have := hmq m rfl
    have hg : ¬ (m ≠ 0 ∧ n > m) := by omega
    simp [hg, hr]

/-- the batched evaluation used by the exhaustive comparison (all syndromes of a code in one driver call) is literally
    the single-syndrome model mapped over the list -/
theorem naive_all_eq (n : Nat) (S : List BVec) (ss : List BVec) :
    naiveDecodeAll n S ss = ss.map (naiveDecode n S) := rfl

theorem naive_full_all_eq (mq : Option Nat) (n : Nat) (S : List BVec) (ss : List BVec) :
    naiveDecodeFullAll mq n S ss = ss.map (naiveDecodeFull mq n S) := by
  unfold naiveDecodeFullAll naiveDecodeFull
  rw [naive_all_eq]
  cases mq with
  | none => simp [List.map_map, Function.comp_def]
  | some m =>
    by_cases hg : m ≠ 0 ∧ n > m
    · simp [hg]
    · simp only [hg, if_false, List.map_map, Function.comp_def]
      simp

/-! ### planar lattice: `sample_recovery` and MWPM -/

/-- **planar_sample_syndrome** (planar MPS / RMPS `sample_recovery`): a path from every defect to its virtual
    plaquette reproduces the syndrome — for every lattice size and every syndrome vector -/
theorem planar_sample_syndrome (R C : Int) (H : PlanarL.Spec R C) (s : BVec)
    (hs : s.length = (Planar.plaquetteIndices R C).length) :
    ∃ r, planarSampleRecovery R C s = .ok r ∧ r.length = 2 * PlanarL.nq R C ∧
      synd (Planar.stabilizers R C) r = s := by
  let L := PlanarL.pathSpec R C H
  have hnd := H.plaquetteIndices_spec.1
  have hreal : ∀ d ∈ pick (Planar.plaquetteIndices R C) s, PlanarL.Real R C d :=
    fun d hd => (H.plaquetteIndices_spec.2 d).mp (pick_subset _ _ d hd)
  have hok : ∀ x ∈ planarSamplePairs R C s, PlanarL.Ok R C x.1 x.2 := by
    intro x hx
    unfold planarSamplePairs at hx
    rw [List.mem_map] at hx
    obtain ⟨d, hd, rfl⟩ := hx
    have hv := PlanarL.vpT_spec R C H d (hreal d hd)
    exact ⟨hv.2.symm, .inl ⟨.inl (hreal d hd), .inr hv.1⟩⟩
  have happ := PlanarL.applyMates_eq R C (planarSamplePairs R C s)
    (fun x hx => (PlanarL.ok_path R C H _ _ (hok x hx)).imp fun w hw => hw.1)
  refine ⟨_, happ, ?_, ?_⟩
  · unfold xorAll
    apply foldl_xorV_length _ _ _ (zeros_length _)
    intro r hr
    rw [List.mem_map] at hr
    obtain ⟨x, _, rfl⟩ := hr
    exact PlanarL.pathT_length R C _ _
  · have := pairing_defects L (planarSamplePairs R C s) (pick (Planar.plaquetteIndices R C) s) hok (by
      intro p hp
      have hpr : PlanarL.Real R C p := (H.plaquetteIndices_spec.2 p).mp hp
      have := occ_map (pick (Planar.plaquetteIndices R C) s) (vpT R C) p (pick_nodup _ _ hnd) (by
        intro d hd e
        have hv := (PlanarL.virtual_out R C _ (PlanarL.vpT_spec R C H d (hreal d hd)).1).2
        rw [e, hpr.2] at hv; cases hv)
      exact this)
    exact this.trans (map_mem_pick _ s hnd hs)

/-- **planar_mwpm_syndrome**: for EVERY pair of perfect matchings of the two modelled graphs (primal, dual) that
    use their edges — i.e. whatever `gt.mwpm` returns, by C13 — the recovery exists and has the syndrome -/
theorem planar_mwpm_syndrome (R C : Int) (H : PlanarL.Spec R C) (s : BVec)
    (hs : s.length = (Planar.plaquetteIndices R C).length)
    (mP mD : List ((Int × Int) × (Int × Int)))
    (hP : isPerfectMatchingOfGraph (planarNodes R C true (planarDefects R C s true))
      (planarEdges R C true (planarDefects R C s true)) mP = true)
    (hD : isPerfectMatchingOfGraph (planarNodes R C false (planarDefects R C s false))
      (planarEdges R C false (planarDefects R C s false)) mD = true) :
    ∃ r, planarMwpmRecovery R C mP mD = .ok r ∧ r.length = 2 * PlanarL.nq R C ∧
      synd (Planar.stabilizers R C) r = s := by
  let L := PlanarL.pathSpec R C H
  have hnd := H.plaquetteIndices_spec.1
  have hok : ∀ x ∈ mP ++ mD, PlanarL.Ok R C x.1 x.2 := by
    intro x hx
    rw [List.mem_append] at hx
    rcases hx with hx | hx
    · exact PlanarL.pm_ok R C H s true mP hP x hx
    · exact PlanarL.pm_ok R C H s false mD hD x hx
  have happ := PlanarL.applyMates_eq R C (mP ++ mD)
    (fun x hx => (PlanarL.ok_path R C H _ _ (hok x hx)).imp fun w hw => hw.1)
  refine ⟨_, happ, ?_, ?_⟩
  · unfold xorAll
    apply foldl_xorV_length _ _ _ (zeros_length _)
    intro r hr
    rw [List.mem_map] at hr
    obtain ⟨x, _, rfl⟩ := hr
    exact PlanarL.pathT_length R C _ _
  · have := pairing_defects L (mP ++ mD) (pick (Planar.plaquetteIndices R C) s) hok (by
      intro p hp
      have hpr : PlanarL.Real R C p := (H.plaquetteIndices_spec.2 p).mp hp
      have h1 := PlanarL.pm_occ R C H s true mP hP p hpr
      have h2 := PlanarL.pm_occ R C H s false mD hD p hpr
      have := occ_append mP mD p
      unfold occ at this h1 h2
      rw [this, h1, h2]
      simp only [PlanarL.mem_planarDefects]
      by_cases hm : p ∈ pick (Planar.plaquetteIndices R C) s <;>
        cases hpp : Planar.isPrimal p.1 p.2 <;> simp [hm, hpp])
    exact this.trans (map_mem_pick _ s hnd hs)

/-- **planar_graph_has_pm**: the modelled graph (defects, their nearest virtual plaquettes as a set, the extra
    virtual node on odd totals) admits a perfect matching for every lattice size, syndrome and type — so a
    perfect-matching routine always has something to return, and by `planar_mwpm_syndrome` decoding never comes
    back without a recovery of the right syndrome -/
theorem planar_graph_has_pm (R C : Int) (H : PlanarL.Spec R C) (s : BVec) (t : Bool) :
    ∃ m, isPerfectMatchingOfGraph (planarNodes R C t (planarDefects R C s t))
      (planarEdges R C t (planarDefects R C s t)) m = true :=
  PlanarL.graph_has_pm R C H s t

/-- existence and correctness together: some perfect matchings exist, and with any of them the decoder's
    construction yields a recovery with the syndrome -/
theorem planar_mwpm_total (R C : Int) (H : PlanarL.Spec R C) (s : BVec)
    (hs : s.length = (Planar.plaquetteIndices R C).length) :
    ∃ mP mD r, planarMwpmRecovery R C mP mD = .ok r ∧ synd (Planar.stabilizers R C) r = s := by
  obtain ⟨mP, hP⟩ := planar_graph_has_pm R C H s true
  obtain ⟨mD, hD⟩ := planar_graph_has_pm R C H s false
  obtain ⟨r, h1, _, h3⟩ := planar_mwpm_syndrome R C H s hs mP mD hP hD
  exact ⟨mP, mD, r, h1, h3⟩

/-- **planar_cmwpm_syndrome** (`max_iterations ≥ 1`): for EVERY pair of perfect matchings of the two graphs of
    identity-hashed nodes handed to `gt.mwpm` in the last iteration, the post-processed match sets (virtual–virtual
    pairs dropped, pairs sorted, collected in a `frozenset`) yield a recovery with the syndrome.  For
    `max_iterations = 0` the statement is false (`planarCmwpmNull` is the identity): known finding D2. -/
theorem planar_cmwpm_syndrome (R C : Int) (H : PlanarL.Spec R C) (s : BVec)
    (hs : s.length = (Planar.plaquetteIndices R C).length)
    (mP mD : List (CNode × CNode))
    (hP : isPerfectMatchingOfGraph (cmwpmNodes (planarDefects R C s true))
      (cmwpmEdges (planarDefects R C s true)) mP = true)
    (hD : isPerfectMatchingOfGraph (cmwpmNodes (planarDefects R C s false))
      (cmwpmEdges (planarDefects R C s false)) mD = true) :
    ∃ r, planarCmwpmRecovery R C mP mD = .ok r ∧ r.length = 2 * PlanarL.nq R C ∧
      synd (Planar.stabilizers R C) r = s := by
  let L := PlanarL.pathSpec R C H
  have hnd := H.plaquetteIndices_spec.1
  have hok : ∀ x ∈ cmwpmMatches R C mP ++ cmwpmMatches R C mD, PlanarL.Ok R C x.1 x.2 := by
    intro x hx
    rw [List.mem_append] at hx
    rcases hx with hx | hx
    · exact PlanarL.cm_ok R C H s true mP hP x hx
    · exact PlanarL.cm_ok R C H s false mD hD x hx
  have happ := PlanarL.applyMates_eq R C (cmwpmMatches R C mP ++ cmwpmMatches R C mD)
    (fun x hx => (PlanarL.ok_path R C H _ _ (hok x hx)).imp fun w hw => hw.1)
  refine ⟨_, happ, ?_, ?_⟩
  · unfold xorAll
    apply foldl_xorV_length _ _ _ (zeros_length _)
    intro r hr
    rw [List.mem_map] at hr
    obtain ⟨x, _, rfl⟩ := hr
    exact PlanarL.pathT_length R C _ _
  · have := pairing_defects L (cmwpmMatches R C mP ++ cmwpmMatches R C mD)
      (pick (Planar.plaquetteIndices R C) s) hok (by
      intro p hp
      have hpr : PlanarL.Real R C p := (H.plaquetteIndices_spec.2 p).mp hp
      have h1 := PlanarL.cm_occ R C H s true mP hP p hpr
      have h2 := PlanarL.cm_occ R C H s false mD hD p hpr
      have := occ_append (cmwpmMatches R C mP) (cmwpmMatches R C mD) p
      unfold occ at this h1 h2
      rw [this, h1, h2]
      simp only [PlanarL.mem_planarDefects]
      by_cases hm : p ∈ pick (Planar.plaquetteIndices R C) s <;>
        cases hpp : Planar.isPrimal p.1 p.2 <;> simp [hm, hpp])
    exact this.trans (map_mem_pick _ s hnd hs)

/-! ### toric lattice: MWPM -/

/-- **toric_mwpm_syndrome**: the syndrome of an error has an even number of defects on each of the two lattices
    (hypothesis `toric_syndrome_even`); then for EVERY pair of perfect matchings of the two complete graphs on
    the defects the recovery exists and has the syndrome -/
theorem toric_mwpm_syndrome (R C : Int) (H : ToricL.Spec R C) (s : BVec)
    (hs : s.length = (Toric.indices R C).length)
    (toric_syndrome_even : (toricDefects R C s 0).length % 2 = 0 ∧ (toricDefects R C s 1).length % 2 = 0)
    (m0 m1 : List (Toric.Idx × Toric.Idx))
    (h0 : isPerfectMatchingOfGraph (toricNodes (toricDefects R C s 0)) (toricEdges (toricDefects R C s 0)) m0 = true)
    (h1 : isPerfectMatchingOfGraph (toricNodes (toricDefects R C s 1)) (toricEdges (toricDefects R C s 1)) m1 = true) :
    ∃ r, toricMwpmRecovery R C m0 m1 = .ok r ∧ r.length = 2 * ToricL.nq R C ∧
      synd (Toric.stabilizers R C) r = s := by
  let L := ToricL.pathSpec R C H
  have hnd := H.indices_nodup
  have hok : ∀ x ∈ m0 ++ m1, ToricL.Ok R C x.1 x.2 := by
    intro x hx
    rw [List.mem_append] at hx
    rcases hx with hx | hx
    · exact ToricL.pm_ok R C s 0 m0 h0 x hx
    · exact ToricL.pm_ok R C s 1 m1 h1 x hx
  have happ := ToricL.applyMates_eq R C (m0 ++ m1) (fun x hx => by
    obtain ⟨w, hw, _⟩ := H.path_syndrome_vector x.1 (hok x hx).1 x.2 (hok x hx).2.1 (hok x hx).2.2
    exact ⟨w, hw⟩)
  refine ⟨_, happ, ?_, ?_⟩
  · unfold xorAll
    apply foldl_xorV_length _ _ _ (zeros_length _)
    intro r hr
    rw [List.mem_map] at hr
    obtain ⟨x, _, rfl⟩ := hr
    exact ToricL.pathT_length R C _ _
  · have := pairing_defects L (m0 ++ m1) (pick (Toric.indices R C) s) hok (by
      intro p hp
      have e0 := pm_occ_gen _ _ _ h0 p
      have e1 := pm_occ_gen _ _ _ h1 p
      rw [ToricL.toricNodes_even _ toric_syndrome_even.1] at e0
      rw [ToricL.toricNodes_even _ toric_syndrome_even.2] at e1
      have := occ_append m0 m1 p
      unfold occ at this e0 e1
      rw [this, e0, e1]
      simp only [ToricL.mem_toricDefects]
      rcases ToricL.indices_lattice R C p hp with hl | hl <;>
        by_cases hm : p ∈ pick (Toric.indices R C) s <;> simp [hm, hl])
    exact this.trans (map_mem_pick _ s hnd hs)

/-- **toric_graph_has_pm**: with an even number of defects on the lattice the complete graph on them has a
    perfect matching -/
theorem toric_graph_has_pm (R C : Int) (H : ToricL.Spec R C) (s : BVec) (l : Int)
    (toric_syndrome_even : (toricDefects R C s l).length % 2 = 0) :
    ∃ m, isPerfectMatchingOfGraph (toricNodes (toricDefects R C s l)) (toricEdges (toricDefects R C s l)) m = true :=
  ToricL.graph_has_pm R C H s l toric_syndrome_even

/-! ### rotated planar lattice: `sample_recovery` -/

/-- **rotated_planar_sample_syndrome** (rotated planar MPS / RMPS `sample_recovery`), given the run-to-boundary
    lemma: the XOR of the runs from every defect reproduces the syndrome, for every size and syndrome vector -/
theorem rotated_planar_sample_syndrome (R C : Int) (H : RotatedPlanarL.Spec R C) (s : BVec)
    (hs : s.length = (RotatedPlanar.plaquetteIndices R C).length) :
    synd (RotatedPlanar.stabilizers R C) (rotatedPlanarSampleRecovery R C s) = s ∧
      (rotatedPlanarSampleRecovery R C s).length = 2 * RotatedPlanarL.nq R C := by
  rw [RotatedPlanarL.sample_eq]
  have hsub := pick_subset (RotatedPlanar.plaquetteIndices R C) s
  have hlen : ∀ a ∈ pick (RotatedPlanar.plaquetteIndices R C) s,
      (rpRunApply R C (RotatedPlanar.identity R C) a).length = 2 * RotatedPlanarL.nq R C :=
    fun a _ => RotatedPlanarL.run_length R C _ a (RotatedPlanarL.identity_length R C)
  constructor
  · rw [runs_defects (RotatedPlanarL.nq R C) (RotatedPlanar.stabilizers R C) (RotatedPlanar.plaquetteIndices R C)
      (rpRunApply R C (RotatedPlanar.identity R C)) (pick (RotatedPlanar.plaquetteIndices R C) s)
      (RotatedPlanarL.stabilizers_plaqs R C) (RotatedPlanarL.stabilizers_length R C) hlen
      (fun a ha => H.run_syndrome a (hsub a ha)) (pick_nodup _ _ H.plaquetteIndices_nodup)]
    exact map_mem_pick _ s H.plaquetteIndices_nodup hs
  · unfold xorAll
    apply foldl_xorV_length _ _ _ (zeros_length _)
    intro r hr
    rw [List.mem_map] at hr
    obtain ⟨x, hx, rfl⟩ := hr
    exact hlen x hx

/-! ### colour 6.6.6 lattice: `sample_recovery` -/

/-- **color666_sample_syndrome** (colour MPS `sample_recovery`), given the run-to-boundary lemma: Z-runs from the
    X-type defects and X-runs from the Z-type defects, each to the boundary of the plaquette's colour, reproduce
    the syndrome — for every size and every syndrome vector -/
theorem color666_sample_syndrome (L : Int) (H : Color666L.Spec L) (s : BVec)
    (hs : s.length = 2 * (Color666.plaquetteIndices L).length) :
    synd (Color666.stabilizers L) (color666SampleRecovery L s) = s ∧
      (color666SampleRecovery L s).length = 2 * Color666L.nq L := by
  rw [Color666L.sample_eq]
  have hlen : ∀ a ∈ Color666L.cdefects L s,
      (Color666L.crunApply L (Color666.identity L) a).length = 2 * Color666L.nq L :=
    fun a _ => Color666L.run_length L _ a (Color666L.identity_length L)
  constructor
  · rw [runs_defects (Color666L.nq L) (Color666.stabilizers L) (Color666L.cplaqs L)
      (Color666L.crunApply L (Color666.identity L)) (Color666L.cdefects L s)
      (Color666L.stabilizers_plaqs L) (Color666L.stabilizers_length L) hlen
      (fun a ha => H.run_syndrome a (Color666L.cdefects_subset L s a ha))
      (Color666L.cdefects_nodup L s H.plaquetteIndices_nodup)]
    refine Eq.trans (List.map_congr_left fun q _ => ?_)
      (Color666L.map_mem_cdefects L s H.plaquetteIndices_nodup hs)
    exact decide_eq_decide.mpr Iff.rfl
  · unfold xorAll
    apply foldl_xorV_length _ _ _ (zeros_length _)
    intro r hr
    rw [List.mem_map] at hr
    obtain ⟨x, hx, rfl⟩ := hr
    exact hlen x hx

/-! ### non-vacuity: the hypotheses are satisfiable on concrete non-trivial inputs -/

/-- syndrome of `X(0,0) Z(2,2) Y(1,3)` on the 3×3 planar code: three primal and two dual defects -/
private def s33 : BVec := [true, true, true, false, false, false, false, true, true, false, false, false]

-- what networkx returned for it (recorded by the harness): odd primal total ⇒ the extra rule is not needed here,
-- virtual–virtual pairs occur on both lattices
example : isPerfectMatchingOfGraph (planarNodes 3 3 true (planarDefects 3 3 s33 true))
    (planarEdges 3 3 true (planarDefects 3 3 s33 true))
    [((-1, 4), (1, 4)), ((1, 2), (1, 0)), ((-1, 0), (-1, 2))] = true := by decide +kernel
example : isPerfectMatchingOfGraph (planarNodes 3 3 false (planarDefects 3 3 s33 false))
    (planarEdges 3 3 false (planarDefects 3 3 s33 false))
    [((0, 5), (2, -1)), ((2, 1), (0, 3))] = true := by decide +kernel
example : (planarMwpmRecovery 3 3 [((-1, 4), (1, 4)), ((1, 2), (1, 0)), ((-1, 0), (-1, 2))]
    [((0, 5), (2, -1)), ((2, 1), (0, 3))]).toOption.map (synd (Planar.stabilizers 3 3)) = some s33 := by
  decide +kernel
example : (planarSampleRecovery 3 3 s33).toOption.map (synd (Planar.stabilizers 3 3)) = some s33 := by
  decide +kernel
-- a single primal defect: odd total, the extra virtual node (-9,-10) is a node of the graph
example : planarNodes 2 2 true (planarDefects 2 2 [true, false, false, false] true) = [(1, 0), (-1, 0)] ∧
    planarNodes 3 3 true (planarDefects 3 3 s33 true) = [(1, 0), (1, 2), (1, 4), (-1, 0), (-1, 2), (-1, 4)] ∧
    planarVNodes 3 3 true [(1, 0), (3, 0)] = [(-1, 0), (5, 0)] ∧
    planarVNodes 4 3 true [(1, 0), (3, 0), (5, 2)] = [(-1, 0), (7, 2), (-9, -10)] := by decide +kernel
-- toric 3×3, syndrome of X(0,0,0) Z(1,1,1) Y(0,2,1): four defects on lattice 0, two on lattice 1
private def t33 : BVec :=
  [true, false, false, false, true, false, true, true, false, false, true, false, false, false, true, false, false, false]
example : isPerfectMatchingOfGraph (toricNodes (toricDefects 3 3 t33 0)) (toricEdges (toricDefects 3 3 t33 0))
    [((0, 2, 0), (0, 0, 0)), ((0, 2, 1), (0, 1, 1))] = true ∧
    (toricDefects 3 3 t33 0).length % 2 = 0 ∧ (toricDefects 3 3 t33 1).length % 2 = 0 := by decide +kernel
example : (toricMwpmRecovery 3 3 [((0, 2, 0), (0, 0, 0)), ((0, 2, 1), (0, 1, 1))]
    [((1, 0, 1), (1, 1, 2))]).toOption.map (synd (Toric.stabilizers 3 3)) = some t33 := by decide +kernel
example : synd (RotatedPlanar.stabilizers 3 4) (rotatedPlanarSampleRecovery 3 4
    [true, false, true, true, false, false, true, false, true, false, true]) =
    [true, false, true, true, false, false, true, false, true, false, true] := by decide +kernel
example : synd (Color666.stabilizers 5) (color666SampleRecovery 5
    [true, false, true, true, false, false, true, false, true, false, true, true, false, false, false, true, true, true]) =
    [true, false, true, true, false, false, true, false, true, false, true, true, false, false, false, true, true, true] := by
  decide +kernel
-- the run-to-boundary hypotheses (`RotatedPlanarL.Spec.run_syndrome`, `Color666L.Spec.run_syndrome`) and the toric
-- path hypothesis hold on concrete lattices (bounded kernel evaluation; the general statements are C15's)
example : ((RotatedPlanar.plaquetteIndices 4 5).all fun p =>
    synd (RotatedPlanar.stabilizers 4 5) (rpRunApply 4 5 (RotatedPlanar.identity 4 5) p) ==
      (RotatedPlanar.plaquetteIndices 4 5).map fun q => decide (q = p)) = true := by decide +kernel
example : ((Color666L.cplaqs 5).all fun x =>
    synd (Color666.stabilizers 5) (Color666L.crunApply 5 (Color666.identity 5) x) ==
      (Color666L.cplaqs 5).map fun q => decide (q = x)) = true := by decide +kernel
example : ((Toric.indices 2 3).all fun a => (Toric.indices 2 3).all fun b => a.1 != b.1 ||
    ((Toric.path 2 3 (Toric.identity 2 3) a b).toOption.map (synd (Toric.stabilizers 2 3)) ==
      some ((Toric.indices 2 3).map fun p => (decide (p = a) != decide (p = b))))) = true := by decide +kernel
example : naiveDecode 2 [toBsf [.X, .X], toBsf [.Z, .Z]] [true, false] = some (toBsf [.Z, .I]) := by decide +kernel
example : recoveryOk (Planar.stabilizers 3 3) s33 (Planar.identity 3 3) = false := by decide +kernel
-- D2: the documented null decoder (max_iterations = 0) returns the identity, which fails the monitor on s33
example : planarCmwpmNull 3 3 = .ok (Planar.identity 3 3) := by decide +kernel

/-
  STATED, NOT PROVED (in this file): (cross-property obligations that the theorems above take as hypotheses; they
  belong to C15 / C07 and are discharged there, not here)

  AUDIT: every item is NOW PROVED for all sizes; the theorem that discharges it is named after the arrow.

  * `∀ R C, 2 ≤ R → 2 ≤ C → PlanarL.Spec R C`            — Props/C15/Planar.lean: plaquetteIndices_spec,
                                                            path_syndrome_vector, virtualPlaquette_spec
      → Props/C02/Instances.lean `planarL_spec`
  * `∀ R C, 2 ≤ R → 2 ≤ C → ToricL.Spec R C`             — C15 (toric) path/endpoint lemma, indices duplicate-free
      → Props/C02/Instances.lean `toricL_spec` (Props/C15/Toric.lean `plaquetteIndices_spec`,
        `path_syndrome_vector_real`)
  * `∀ R C, 3 ≤ R → 3 ≤ C → RotatedPlanarL.Spec R C`     — run-to-boundary lemma (checked above on 4×5 by the kernel)
      → Props/C02/Instances.lean `rotatedPlanarL_spec` (Props/C07/RotatedPlanar.lean `plaquette_indices_spec`,
        `sample_run_destabiliser`)
  * `∀ L odd, 3 ≤ L → Color666L.Spec L`                  — run-to-boundary lemma (checked above on size 5)
      → Props/C02/Instances.lean `color666L_spec` (Props/C07/Color666.lean `plaquette_indices_spec`, `run_syndrome`)
    and with them, hypothesis-free: Props/C02/Instances.lean `planar_sample_syndrome`, `planar_mwpm_syndrome`,
    `planar_graph_has_pm`, `planar_mwpm_total`, `planar_cmwpm_syndrome`, `toric_mwpm_syndrome`, `toric_graph_has_pm`,
    `rotated_planar_sample_syndrome`, `color666_sample_syndrome`
  * `toric_syndrome_even`: for every error `e`, `(toricDefects R C (synd (Toric.stabilizers R C) e) l).length % 2 = 0`
    (the product of all plaquettes of one lattice is the identity — a C07 fact)
      → Props/C14/Chain.lean `chain_induces_matching_toric` (third conjunct; with `toricL_spec` for its `Spec`
        hypothesis).  It is a fact about syndromes of errors, not about arbitrary bit vectors `s`, so in
        Props/C02/Instances.lean `toric_mwpm_syndrome` / `toric_graph_has_pm` it stays a hypothesis on `s`.
  * nothing is claimed about the internals of RotatedPlanarSMWPM / RotatedToricSMWPM / PlanarY: they are explored
    through `recoveryOk` (sound by `recoveryOk_sound`), see harness/qv/props/c02.py part (b)
      → SUPERSEDED: all three are now modelled and proved for all sizes — Props/C02/Smwpm.lean
        `smwpm_planar_syndrome`, Props/C02/SmwpmToric.lean `smwpm_toric_syndrome` (ANY perfect matchings; existence:
        Props/C02/SmwpmExists.lean, SmwpmExists2.lean, SmwpmEven.lean), Props/C02/PlanarY.lean /
        Props/C02/PlanarYRest.lean `planary_sample_syndrome_all`, `planary_decode_syndrome`,
        `planary_decode_cosets_exhaustive`.
  Genuinely open: none of the above.
-/

end Qec.C02
