/-
  C07 (rotated-toric family) — `RotatedToricCode(R, C)` is a valid [[R·C, 2]] stabilizer code for ALL accepted
  sizes: R, C even and ≥ 2, non-square included.  Theorems about `Model/Lattice/RotatedToric.lean`; "valid
  code" is `Qec.Symp.ValidCode` (Lemmas/Symplectic.lean): shapes, commutation, pairing of the two logical
  pairs, rank n − 2 and logical independence.

  The stabilizer matrix has R·C = n − k + 2 rows (every plaquette of the torus), so it is NOT independent:
  the generators of each plaquette type XOR to the identity.  `rank_eq` uses the sub-list without the two
  reference plaquettes `(0,0)` (z-type) and `(1,0)` (x-type); the dropped rows are the XOR of the remaining
  rows of their type (`dropped_generators_dependent`: every site lies in exactly two plaquettes of a type) and
  the remaining rows are independent by destabiliser witnesses — the model's own `path` from a plaquette to
  the reference plaquette of its type (`destabiliser_witness`, an instance of C15's path/endpoint lemma
  `bsp_path_stab`, imported from `Lemmas/Lattice/RotatedToric.lean`, not re-proved).

  Every statement below is proved for all sizes (no `STATED, NOT PROVED` block, no bounded substitutes); the
  `example`s at the end are kernel-evaluated non-vacuity checks.
-/
import QecVerif.Model.Lattice.RotatedToric
import QecVerif.Lemmas.Symplectic
import QecVerif.Lemmas.Lattice.RotatedToric
import QecVerif.Lemmas.Lattice.RotatedToricCode
namespace Qec.C07.RotatedToric
open Qec Qec.RotatedToric Qec.Symp Qec.RotatedToric.Lem Qec.RotatedToricCode

/-- number of physical qubits as a natural number -/
abbrev n (R C : Int) : Nat := (nQubits R C).toNat

/-- **ctor_domain**: the constructor accepts exactly pairs of index-like values (int / numpy int / bool) that
    are both ≥ 2 and even, and returns them; a non-index `rows`, or an acceptable-minimum `rows` with a
    non-index `columns`, raises TypeError; otherwise (an index below 2 — which includes every bool — or an
    odd size) ValueError.  The accepted sizes are exactly `Size R C`. -/
theorem ctor_domain (rows cols : PyVal) :
    (∀ r c, ctor rows cols = .ok (r, c) ↔ rows.index? = some r ∧ cols.index? = some c ∧ Size r c) ∧
    (ctor rows cols = .error .type ↔
      rows.index? = none ∨ (∃ r, rows.index? = some r ∧ 2 ≤ r ∧ cols.index? = none)) ∧
    (ctor rows cols = .error .value ↔
      ∃ r, rows.index? = some r ∧ (r < 2 ∨ ∃ c, cols.index? = some c ∧ (c < 2 ∨ r % 2 ≠ 0 ∨ c % 2 ≠ 0))) := by
  unfold ctor Size
  cases hr : rows.index? with
  | none => simp
  | some r =>
    by_cases h2 : r < 2
    · simp only [h2, if_true]
      refine ⟨?_, ?_, ?_⟩
      · intro r' c'; simp; omega
      · simp; omega
      · simp [h2]
    · simp only [h2, if_false]
      cases hc : cols.index? with
      | none => simp; omega
      | some c =>
        by_cases h3 : c < 2
        · simp only [h3, if_true]
          refine ⟨?_, ?_, ?_⟩
          · intro r' c'; simp; omega
          · simp
          · simp [h3]
        · simp only [h3, if_false]
          by_cases h4 : (r % 2 != 0 || c % 2 != 0) = true
          · simp only [h4, if_true]
            simp only [Bool.or_eq_true, bne_iff_ne, ne_eq] at h4
            refine ⟨?_, ?_, ?_⟩
            · intro r' c'; simp; omega
            · simp
            · simp; omega
          · simp only [h4]
            simp only [Bool.or_eq_true, bne_iff_ne, ne_eq, not_or, Decidable.not_not] at h4
            refine ⟨?_, ?_, ?_⟩
            · intro r' c'; simp; omega
            · simp
            · simp; omega

/-- bools are indices with value < 2, floats / str / None are not indices; odd sizes are rejected -/
theorem ctor_domain_kinds (v w : PyVal) (b : Bool) (num : Int) (den : Nat) :
    ctor (.bool b) w = .error .value ∧ ctor (.float num den) w = .error .type ∧ ctor .str w = .error .type ∧
    ctor .pynone w = .error .type ∧
    ctor (.int 2) (.bool b) = .error .value ∧ ctor (.int 2) (.float num den) = .error .type ∧
    ctor (.int 2) .str = .error .type ∧ ctor (.int 2) .pynone = .error .type ∧
    ctor (.int 3) (.int 4) = .error .value ∧ ctor (.int 4) (.int 3) = .error .value ∧
    ctor (.int 3) .str = .error .type ∧ ctor (.int 2) (.int 6) = .ok (2, 6) ∧
    (v.index? = none → ctor v w = .error .type) := by
  refine ⟨?_, rfl, rfl, rfl, ?_, rfl, rfl, rfl, rfl, rfl, rfl, rfl, ?_⟩
  · cases b <;> rfl
  · cases b <;> rfl
  · intro h; simp [ctor, h]

/-- **flat_bijective**: `n_k_d` reports n = R·C, k = 2; `flatten` is a bijection from the in-bounds site
    indices onto `[0, n)`; and the index normalisation `_mod_index` (which `site` applies to every index)
    lands in bounds and fixes in-bounds indices -/
theorem flat_bijective (R C : Int) (hS : Size R C) :
    (nkd R C).1 = R * C ∧ (nkd R C).2.1 = 2 ∧
    (∀ x y, inBounds R C x y = true → 0 ≤ flatten R C x y ∧ flatten R C x y < nQubits R C) ∧
    (∀ x y x' y', inBounds R C x y = true → inBounds R C x' y' = true →
      flatten R C x y = flatten R C x' y' → x = x' ∧ y = y') ∧
    (∀ i, 0 ≤ i → i < nQubits R C → ∃ x y, inBounds R C x y = true ∧ flatten R C x y = i) ∧
    (∀ i : Int × Int, inBounds R C (modIndex R C i).1 (modIndex R C i).2 = true) ∧
    (∀ i : Int × Int, inBounds R C i.1 i.2 = true → modIndex R C i = i) := by
  obtain ⟨hR, hC, _, _⟩ := hS
  refine ⟨rfl, rfl, ?_, ?_, ?_, ?_, ?_⟩
  · intro x y hb
    rw [inBounds_iff] at hb
    rw [flatten_eq]
    exact flat_bound R C x y hb.1 hb.2.1 hb.2.2.1 hb.2.2.2
  · intro x y x' y' hb hb' h
    rw [inBounds_iff] at hb hb'
    rw [flatten_eq, flatten_eq] at h
    exact flat_inj C x y x' y' hb.1 hb.2.1 hb'.1 hb'.2.1 h
  · intro i h0 h1
    have h := flat_surj R C (by omega) i h0 h1
    refine ⟨i % C, i / C, ?_, ?_⟩
    · rw [inBounds_iff]; omega
    · rw [flatten_eq]; exact h.2.2.2.2
  · intro i
    exact inBounds_modIndex R C (by omega) (by omega) i
  · intro i hb
    rw [inBounds_iff] at hb
    rw [modIndex_eq, Int.emod_eq_of_lt hb.1 hb.2.1, Int.emod_eq_of_lt hb.2.2.1 hb.2.2.2]

/-- the code's plaquette index list is exactly the in-bounds indices (every one is a plaquette), each once,
    and row `i` of the stabilizer matrix is the generator of the `i`-th index: Z on the four corner sites of
    a z-plaquette, X on those of an x-plaquette -/
theorem plaquette_indices_spec (R C : Int) :
    (plaquetteIndices R C).Nodup ∧
    (∀ p, p ∈ plaquetteIndices R C ↔ inBounds R C p.1 p.2 = true) ∧
    stabilizers R C = (plaquetteIndices R C).map fun p =>
      sites R C (if isZPlaquette p.1 p.2 then P1.Z else P1.X) (identity R C) (plaquetteSites p.1 p.2) :=
  ⟨nodup_plaquetteIndices R C, mem_plaquetteIndices R C, rfl⟩

/-- **stabilizer_count**: the stabilizer matrix has n = (n − k) + 2 rows (one per plaquette of the torus; two
    of them are dependent, see `rank_eq`), there are k = 2 logical X and 2 logical Z operators, and every row
    has length 2n -/
theorem stabilizer_count (R C : Int) (hS : Size R C) :
    (stabilizers R C).length = n R C ∧ (n R C : Int) = R * C ∧
    (logicalXs R C).length = 2 ∧ (logicalZs R C).length = 2 ∧
    AllLen (2 * n R C) (stabilizers R C) ∧ AllLen (2 * n R C) (logicalXs R C) ∧
    AllLen (2 * n R C) (logicalZs R C) := by
  obtain ⟨hR, hC, _, _⟩ := hS
  refine ⟨?_, ?_, rfl, rfl, ?_, ?_, ?_⟩
  · rw [stabilizers_eq_map, List.length_map]
    exact plaquetteIndices_length R C (by omega) (by omega)
  · have : 0 ≤ R * C := Int.mul_nonneg (by omega) (by omega)
    unfold n nQubits; omega
  · intro s hs
    rw [stabilizers_eq_map] at hs
    rcases List.mem_map.mp hs with ⟨p, _, rfl⟩
    exact stabOf_length R C p
  · intro l hl
    simp only [logicalXs, List.mem_cons, List.not_mem_nil, or_false] at hl
    rcases hl with rfl | rfl
    · rw [logicalX1_eq]; exact siteop_length _ _ _ _
    · rw [logicalX2_eq]; exact siteop_length _ _ _ _
  · intro l hl
    simp only [logicalZs, List.mem_cons, List.not_mem_nil, or_false] at hl
    rcases hl with rfl | rfl
    · rw [logicalZ1_eq]; exact siteop_length _ _ _ _
    · rw [logicalZ2_eq]; exact siteop_length _ _ _ _

/-- **stabilizers_commute** -/
theorem stabilizers_commute (R C : Int) (hS : Size R C) :
    CommAll (stabilizers R C) (stabilizers R C) := by
  obtain ⟨hR, hC, hRe, hCe⟩ := hS
  intro s hs t ht
  rw [stabilizers_eq_map] at hs ht
  rcases List.mem_map.mp hs with ⟨p, _, rfl⟩
  rcases List.mem_map.mp ht with ⟨q, _, rfl⟩
  exact bsp_stab_stab R C (by omega) (by omega) hRe hCe p q

/-- **stabilizers_commute_logicals**: every generator commutes with both logical X and both logical Z
    operators (each logical is a full column or a full row of the torus) -/
theorem stabilizers_commute_logicals (R C : Int) (hS : Size R C) :
    CommAll (stabilizers R C) (logicalXs R C) ∧ CommAll (stabilizers R C) (logicalZs R C) := by
  obtain ⟨hR, hC, _, _⟩ := hS
  have hR0 : 0 < R := by omega
  have hC0 : 0 < C := by omega
  constructor
  · intro s hs l hl
    rw [stabilizers_eq_map] at hs
    rcases List.mem_map.mp hs with ⟨p, _, rfl⟩
    simp only [logicalXs, List.mem_cons, List.not_mem_nil, or_false] at hl
    rcases hl with rfl | rfl
    · rw [logicalX1_eq]; exact bsp_stab_col R C hR0 hC0 _ p
    · rw [logicalX2_eq]; exact bsp_stab_row R C hR0 hC0 _ p
  · intro s hs l hl
    rw [stabilizers_eq_map] at hs
    rcases List.mem_map.mp hs with ⟨p, _, rfl⟩
    simp only [logicalZs, List.mem_cons, List.not_mem_nil, or_false] at hl
    rcases hl with rfl | rfl
    · rw [logicalZ1_eq]; exact bsp_stab_row R C hR0 hC0 _ p
    · rw [logicalZ2_eq]; exact bsp_stab_col R C hR0 hC0 _ p

/-- **logical_pairing**: in the code's order (X̄₁ = X on the west column, X̄₂ = X on the south row,
    Z̄₁ = Z on the south row, Z̄₂ = Z on the west column) `bsp X̄ᵢ Z̄ⱼ = (i = j)` in either order, and the
    logical X (Z) operators commute among themselves -/
theorem logical_pairing (R C : Int) (hS : Size R C) :
    PairingId (logicalXs R C) (logicalZs R C) 2 ∧ PairingId (logicalZs R C) (logicalXs R C) 2 ∧
    CommAll (logicalXs R C) (logicalXs R C) ∧ CommAll (logicalZs R C) (logicalZs R C) := by
  obtain ⟨hR, hC, hRe, hCe⟩ := hS
  have hR0 : 0 < R := by omega
  have hC0 : 0 < C := by omega
  have h11 := bsp_X1_Z1 R C hR0 hC0
  have h22 := bsp_X2_Z2 R C hR0 hC0
  have h12 := bsp_X1_Z2 R C hR0 hC0 hRe
  have h21 := bsp_X2_Z1 R C hR0 hC0 hCe
  have flipXZ : ∀ a ∈ logicalXs R C, ∀ b ∈ logicalZs R C, bsp b a = bsp a b := by
    intro a ha b hb
    have la := (stabilizer_count R C ⟨hR, hC, hRe, hCe⟩).2.2.2.2.2.1 a ha
    have lb := (stabilizer_count R C ⟨hR, hC, hRe, hCe⟩).2.2.2.2.2.2 b hb
    exact bsp_comm b a (by rw [la, lb]) (by rw [lb]; omega)
  refine ⟨?_, ?_, ?_, ?_⟩
  · intro i hi j hj
    have hi' : i = 0 ∨ i = 1 := by omega
    have hj' : j = 0 ∨ j = 1 := by omega
    rcases hi' with rfl | rfl <;> rcases hj' with rfl | rfl <;>
      simp only [logicalXs, logicalZs, List.getD_cons_zero, List.getD_cons_succ]
    · rw [h11]; rfl
    · rw [h12]; rfl
    · rw [h21]; rfl
    · rw [h22]; rfl
  · intro i hi j hj
    have hi' : i = 0 ∨ i = 1 := by omega
    have hj' : j = 0 ∨ j = 1 := by omega
    have m1 : logicalX1 R C ∈ logicalXs R C := by simp [logicalXs]
    have m2 : logicalX2 R C ∈ logicalXs R C := by simp [logicalXs]
    have z1 : logicalZ1 R C ∈ logicalZs R C := by simp [logicalZs]
    have z2 : logicalZ2 R C ∈ logicalZs R C := by simp [logicalZs]
    rcases hi' with rfl | rfl <;> rcases hj' with rfl | rfl <;>
      simp only [logicalXs, logicalZs, List.getD_cons_zero, List.getD_cons_succ]
    · rw [flipXZ _ m1 _ z1, h11]; rfl
    · rw [flipXZ _ m2 _ z1, h21]; rfl
    · rw [flipXZ _ m1 _ z2, h12]; rfl
    · rw [flipXZ _ m2 _ z2, h22]; rfl
  · intro a ha b hb
    simp only [logicalXs, List.mem_cons, List.not_mem_nil, or_false] at ha hb
    rcases ha with rfl | rfl <;> rcases hb with rfl | rfl <;>
      simp only [logicalX1_eq, logicalX2_eq] <;> exact bsp_same R C hR0 hC0 _ (Or.inl rfl) _ _
  · intro a ha b hb
    simp only [logicalZs, List.mem_cons, List.not_mem_nil, or_false] at ha hb
    rcases ha with rfl | rfl <;> rcases hb with rfl | rfl <;>
      simp only [logicalZ1_eq, logicalZ2_eq] <;> exact bsp_same R C hR0 hC0 _ (Or.inr rfl) _ _

/-- the plaquette index list without the two reference plaquettes `(0,0)` (z-type) and `(1,0)` (x-type):
    a duplicate-free sub-list of `n − 2` in-lattice plaquettes -/
theorem reduced_indices_spec (R C : Int) (hS : Size R C) :
    (redIdx R C).Nodup ∧ (redIdx R C).Sublist (plaquetteIndices R C) ∧ (redIdx R C).length + 2 = n R C ∧
    (∀ p, p ∈ redIdx R C ↔ (p ≠ (1, 0) ∧ p ≠ (0, 0) ∧ inBounds R C p.1 p.2 = true)) := by
  obtain ⟨hR, hC, _, _⟩ := hS
  refine ⟨redIdx_nodup R C, redIdx_sublist R C, ?_, mem_redIdx R C⟩
  rw [redIdx_length R C hR hC]
  exact plaquetteIndices_length R C (by omega) (by omega)

/-- destabiliser witnesses: the model's `path` from plaquette `q` to the reference plaquette of its type
    (`destabOp`) anticommutes with the generator of a non-reference plaquette `p` iff `p = q` -/
theorem destabiliser_witness (R C : Int) (hS : Size R C) (p q : Int × Int)
    (hp : p ∈ redIdx R C) (hq : q ∈ redIdx R C) :
    bsp (stabOf R C p) (destabOp R C q) = decide (p = q) := by
  obtain ⟨hR, hC, hRe, hCe⟩ := hS
  have hp' := (mem_redIdx R C p).mp hp
  have hq' := (mem_redIdx R C q).mp hq
  exact bsp_stab_destab R C hR hC hRe hCe p q hp'.2.2 hq'.2.2 hp'.2.1 hp'.1

/-- `destabOp` is the model's own `path` to the reference plaquette, which never fails -/
theorem destabiliser_is_path (R C : Int) (q : Int × Int) :
    path R C (identity R C) q (refP q) = .ok (destabOp R C q) ∧
    refP q = (if isZPlaquette q.1 q.2 then (0, 0) else (1, 0)) := by
  refine ⟨?_, rfl⟩
  rw [destabOp_eq, path_eq R C q (refP q) (refP_type q)]

/-- the n − 2 generators of the non-reference plaquettes are linearly independent -/
theorem reduced_independent (R C : Int) (hS : Size R C) :
    Independent (2 * n R C) ((redIdx R C).map (stabOf R C)) :=
  independent_of_destab (2 * n R C) (redIdx R C) (stabOf R C) (destabOp R C)
    (redIdx_nodup R C) (fun p _ => stabOf_length R C p)
    (fun p hp q hq => destabiliser_witness R C hS p q hp hq)

/-- the two dropped generators are XOR-combinations of the others: every site lies in exactly two
    plaquettes of each type, so the generators of one type XOR to the identity -/
theorem dropped_generators_dependent (R C : Int) (hS : Size R C) :
    InSpan (2 * n R C) ((redIdx R C).map (stabOf R C)) (stabOf R C (0, 0)) ∧
    InSpan (2 * n R C) ((redIdx R C).map (stabOf R C)) (stabOf R C (1, 0)) := by
  obtain ⟨hR, hC, hRe, hCe⟩ := hS
  have hin : ∀ p ∈ redIdx R C, inBounds R C p.1 p.2 = true := fun p hp => ((mem_redIdx R C p).mp hp).2.2
  constructor
  · apply dep_span R C (by omega) (by omega) hRe hCe (redIdx R C) (redIdx_nodup R C) hin (0, 0) (inb_00 R C hR hC)
    intro p hp ht
    rw [mem_redIdx]
    constructor
    · intro h; exact h.2.1
    · intro h
      refine ⟨?_, h, hp⟩
      intro e
      rw [e] at ht
      exact absurd ht (by decide)
  · apply dep_span R C (by omega) (by omega) hRe hCe (redIdx R C) (redIdx_nodup R C) hin (1, 0) (inb_10 R C hR hC)
    intro p hp ht
    rw [mem_redIdx]
    constructor
    · intro h; exact h.1
    · intro h
      refine ⟨h, ?_, hp⟩
      intro e
      rw [e] at ht
      exact absurd ht (by decide)

/-- every row of the stabilizer matrix lies in the span of the n − 2 non-reference generators -/
theorem reduced_spans (R C : Int) (hS : Size R C) :
    ∀ s ∈ stabilizers R C, InSpan (2 * n R C) ((redIdx R C).map (stabOf R C)) s := by
  intro s hs
  rw [stabilizers_eq_map] at hs
  rcases List.mem_map.mp hs with ⟨p, hp, rfl⟩
  have hd := dropped_generators_dependent R C hS
  by_cases h0 : p = (0, 0)
  · rw [h0]; exact hd.1
  · by_cases h1 : p = (1, 0)
    · rw [h1]; exact hd.2
    · apply inSpan_mem
      · intro r hr
        rcases List.mem_map.mp hr with ⟨q, _, rfl⟩
        exact stabOf_length R C q
      · exact List.mem_map.mpr ⟨p, (mem_redIdx R C p).mpr ⟨h1, h0, (mem_plaquetteIndices R C p).mp hp⟩, rfl⟩

/-- **rank_eq**: the (n-row) stabilizer matrix has GF(2) rank n − k = n − 2 -/
theorem rank_eq (R C : Int) (hS : Size R C) :
    HasRank (2 * n R C) (stabilizers R C) (n R C - 2) := by
  have hc := (reduced_indices_spec R C hS).2.2.1
  refine ⟨(redIdx R C).map (stabOf R C), ?_, ?_, reduced_independent R C hS, reduced_spans R C hS⟩
  · rw [stabilizers_eq_map]
    exact (redIdx_sublist R C).map _
  · rw [List.length_map]; omega

/-- **rtoric_valid**: for all even R, C ≥ 2 the rotated toric code is a valid [[R·C, 2]] stabilizer code -/
theorem rtoric_valid (R C : Int) (hS : Size R C) :
    ValidCode (n R C) 2 (stabilizers R C) (logicalXs R C) (logicalZs R C) := by
  have hc := stabilizer_count R C hS
  have hl := stabilizers_commute_logicals R C hS
  have hp := logical_pairing R C hS
  have hr := (reduced_indices_spec R C hS).2.2.1
  refine valid_of_sub (n R C) 2 _ _ _ ((redIdx R C).map (stabOf R C)) hc.2.2.2.2.1 hc.2.2.2.2.2.1
    hc.2.2.2.2.2.2 (stabilizers_commute R C hS) hl.1 hl.2 hp.1 hp.2.2.1 hp.2.2.2 rfl rfl ?_ ?_
    (reduced_independent R C hS) (reduced_spans R C hS)
  · rw [stabilizers_eq_map]
    exact (redIdx_sublist R C).map _
  · rw [List.length_map]; exact hr

/-! non-vacuity: the hypotheses are satisfiable and the objects non-trivial on concrete sizes (kernel-evaluated) -/
example : Size 4 6 ∧ Size 2 2 ∧ Size 2 4 := by unfold Size; omega
example : ValidCode 24 2 (stabilizers 4 6) (logicalXs 4 6) (logicalZs 4 6) :=
  rtoric_valid 4 6 (by unfold Size; omega)
example : ValidCode 4 2 (stabilizers 2 2) (logicalXs 2 2) (logicalZs 2 2) :=
  rtoric_valid 2 2 (by unfold Size; omega)
example : (stabilizers 4 6).length = 24 ∧ n 4 6 = 24 ∧ (redIdx 4 6).length = 22 ∧ (stabilizers 2 2).length = 4 := by
  decide +kernel
example : PairingId ((redIdx 2 4).map (stabOf 2 4)) ((redIdx 2 4).map (destabOp 2 4)) 6 := by decide +kernel
example : PairingId (logicalXs 2 4) (logicalZs 2 4) 2 ∧ CommAll (stabilizers 2 4) (logicalXs 2 4 ++ logicalZs 2 4) ∧
    CommAll (stabilizers 4 2) (stabilizers 4 2) := by decide +kernel
example : ctor (.int 2) (.int 6) = .ok (2, 6) ∧ ctor (.bool true) (.int 6) = .error .value ∧
    ctor (.int 4) (.int 5) = .error .value ∧ ctor (.int 4) .str = .error .type := ⟨rfl, rfl, rfl, rfl⟩

end Qec.C07.RotatedToric
