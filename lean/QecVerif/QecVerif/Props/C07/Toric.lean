/-
  C07 (toric family) — `ToricCode(R, C)` is a valid [[2·R·C, 2]] stabilizer code for ALL R, C ≥ 2.
  Theorems about `Model/Lattice/Toric.lean`; "valid code" is `Qec.Symp.ValidCode` (Lemmas/Symplectic.lean):
  commutation, pairing, shapes, rank n−k, logical independence.
  The stabilizer matrix has n = 2RC rows (one per plaquette) but rank n − 2: the independent sub-list drops the
  reference plaquettes `(0,0,0)` and `(1,0,0)`; each dropped generator is the XOR of the kept generators of its
  lattice (every site lies in exactly two plaquettes of each type), and the kept generators are independent by
  destabiliser witnesses — the code's own `path` from a plaquette to the reference plaquette of its lattice
  (C15's endpoint lemma).  Helper lemmas: `Lemmas/Lattice/ToricCode.lean`, `Lemmas/Lattice/Toric.lean`.
-/
import QecVerif.Model.Lattice.Toric
import QecVerif.Lemmas.Symplectic
import QecVerif.Lemmas.Lattice.Toric
import QecVerif.Lemmas.Lattice.ToricCode
namespace Qec.C07.Toric
open Qec Qec.Toric Qec.Symp Qec.ToricCode

/-- number of physical qubits as a natural number -/
abbrev n (R C : Int) : Nat := (nQubits R C).toNat

/-- an in-lattice index (lattice, row, column) -/
def Real (R C : Int) (p : Idx) : Prop :=
  0 ≤ p.1 ∧ p.1 < 2 ∧ 0 ≤ p.2.1 ∧ p.2.1 < R ∧ 0 ≤ p.2.2 ∧ p.2.2 < C

/-- **flat_bijective**: `n_k_d` reports n = 2·R·C, k = 2; `flatten` maps every index triple into `[0, n)`,
    identifies exactly the triples that agree modulo the shape (2, R, C), is injective on the in-lattice triples
    and onto `[0, n)` -/
theorem flat_bijective (R C : Int) (hR : 2 ≤ R) (hC : 2 ≤ C) :
    (nkd R C).1 = 2 * R * C ∧ (nkd R C).2.1 = 2 ∧ n R C = 2 * (R.toNat * C.toNat) ∧
    (∀ i : Idx, 0 ≤ flatten R C i ∧ flatten R C i < nQubits R C) ∧
    (∀ s t : Idx, flatten R C s = flatten R C t ↔
      s.1 % 2 = t.1 % 2 ∧ s.2.1 % R = t.2.1 % R ∧ s.2.2 % C = t.2.2 % C) ∧
    (∀ s t : Idx, Real R C s → Real R C t → flatten R C s = flatten R C t → s = t) ∧
    (∀ i, 0 ≤ i → i < nQubits R C → ∃ s : Idx, Real R C s ∧ flatten R C s = i) := by
  have hR' : (0 : Int) < R := by omega
  have hC' : (0 : Int) < C := by omega
  refine ⟨rfl, rfl, nQubits_toNat R C (by omega) (by omega), flatten_bounds R C hR' hC', ?_, ?_,
    flatten_surj R C hR' hC'⟩
  · intro s t
    rw [flatten_inj R C hR' hC', norm_eq_iff]
  · intro s t hs ht h
    have := (flatten_inj R C hR' hC' s t).mp h
    rwa [norm_of_inLattice R C s hs, norm_of_inLattice R C t ht] at this

/-- the code's plaquette index list is exactly the in-lattice triples, each once, and row `i` of the stabilizer
    matrix is `plaquette` of the `i`-th index -/
theorem plaquette_indices_spec (R C : Int) :
    (indices R C).Nodup ∧ (∀ p, p ∈ indices R C ↔ Real R C p) ∧
    stabilizers R C = (indices R C).map fun p => plaquette R C (identity R C) p :=
  ⟨indices_nodup R C, mem_indices R C, rfl⟩

/-- **stabilizer_count**: the stabilizer matrix has n = (n − k) + 2 rows (one per plaquette; two of them are
    dependent, see `rank_eq`), there are k = 2 logical X and 2 logical Z operators, and every row has length 2n -/
theorem stabilizer_count (R C : Int) (hR : 2 ≤ R) (hC : 2 ≤ C) :
    (stabilizers R C).length = n R C ∧ (stabilizers R C).length = (n R C - 2) + 2 ∧
    AllLen (2 * n R C) (stabilizers R C) ∧
    (logicalXs R C).length = 2 ∧ (logicalZs R C).length = 2 ∧
    AllLen (2 * n R C) (logicalXs R C) ∧ AllLen (2 * n R C) (logicalZs R C) := by
  have hlen : (stabilizers R C).length = n R C := by
    rw [stabilizers_eq_map, List.length_map, length_indices]
    exact (nQubits_toNat R C (by omega) (by omega)).symm
  have hpos : 2 ≤ n R C := by
    have h1 : 2 ≤ R.toNat := by omega
    have h2 : 2 ≤ C.toNat := by omega
    have := Nat.mul_le_mul h1 h2
    have := nQubits_toNat R C (by omega) (by omega)
    unfold n; omega
  refine ⟨hlen, by omega, ?_, rfl, rfl, ?_, ?_⟩
  · intro s hs
    rw [stabilizers_eq_map] at hs
    rcases List.mem_map.mp hs with ⟨p, _, rfl⟩
    exact stab_length R C p
  · intro l hl
    simp only [logicalXs, List.mem_cons, List.not_mem_nil, or_false] at hl
    rcases hl with rfl | rfl <;> exact siteop_length R C _ _
  · intro l hl
    simp only [logicalZs, List.mem_cons, List.not_mem_nil, or_false] at hl
    rcases hl with rfl | rfl <;> exact siteop_length R C _ _

/-- **stabilizers_commute** -/
theorem stabilizers_commute (R C : Int) (hR : 2 ≤ R) (hC : 2 ≤ C) :
    CommAll (stabilizers R C) (stabilizers R C) := by
  intro s hs t ht
  rw [stabilizers_eq_map] at hs ht
  rcases List.mem_map.mp hs with ⟨p, hp, rfl⟩
  rcases List.mem_map.mp ht with ⟨q, hq, rfl⟩
  exact bsp_stab_stab R C (by omega) (by omega) p q ((mem_indices R C p).mp hp) ((mem_indices R C q).mp hq)

/-- **stabilizers_commute_logicals**: every generator commutes with both logical X and both logical Z operators -/
theorem stabilizers_commute_logicals (R C : Int) (hR : 2 ≤ R) (hC : 2 ≤ C) :
    CommAll (stabilizers R C) (logicalXs R C) ∧ CommAll (stabilizers R C) (logicalZs R C) := by
  have hR' : (0 : Int) < R := by omega
  have hC' : (0 : Int) < C := by omega
  constructor
  · intro s hs l hl
    rw [stabilizers_eq_map] at hs
    rcases List.mem_map.mp hs with ⟨p, hp, rfl⟩
    have ip := (mem_indices R C p).mp hp
    simp only [logicalXs, List.mem_cons, List.not_mem_nil, or_false] at hl
    rcases hl with rfl | rfl
    · exact (bsp_comm_len (nq R C) _ _ (stab_length R C p) (siteop_length R C _ _)).trans
        (bsp_logicalX1_stab R C hR' hC' p ip)
    · exact (bsp_comm_len (nq R C) _ _ (stab_length R C p) (siteop_length R C _ _)).trans
        (bsp_logicalX2_stab R C hR' hC' p ip)
  · intro s hs l hl
    rw [stabilizers_eq_map] at hs
    rcases List.mem_map.mp hs with ⟨p, hp, rfl⟩
    have ip := (mem_indices R C p).mp hp
    simp only [logicalZs, List.mem_cons, List.not_mem_nil, or_false] at hl
    rcases hl with rfl | rfl
    · exact (bsp_comm_len (nq R C) _ _ (stab_length R C p) (siteop_length R C _ _)).trans
        (bsp_logicalZ1_stab R C hR' hC' p ip)
    · exact (bsp_comm_len (nq R C) _ _ (stab_length R C p) (siteop_length R C _ _)).trans
        (bsp_logicalZ2_stab R C hR' hC' p ip)

/-- **logical_pairing**: X̄ᵢ anticommutes with Z̄ⱼ iff i = j (in either order); the logical X operators commute
    with each other, and so do the logical Z operators -/
theorem logical_pairing (R C : Int) (hR : 2 ≤ R) (hC : 2 ≤ C) :
    PairingId (logicalXs R C) (logicalZs R C) 2 ∧ PairingId (logicalZs R C) (logicalXs R C) 2 ∧
    CommAll (logicalXs R C) (logicalXs R C) ∧ CommAll (logicalZs R C) (logicalZs R C) := by
  have hR' : (0 : Int) < R := by omega
  have hC' : (0 : Int) < C := by omega
  have flip : ∀ a b : BVec, a.length = 2 * nq R C → b.length = 2 * nq R C → bsp a b = bsp b a :=
    fun a b ha hb => bsp_comm_len (nq R C) a b ha hb
  refine ⟨?_, ?_, ?_, ?_⟩
  · intro i hi j hj
    rcases (by omega : i = 0 ∨ i = 1) with rfl | rfl <;> rcases (by omega : j = 0 ∨ j = 1) with rfl | rfl
    · exact bsp_X1_Z1 R C hR' hC'
    · exact bsp_X1_Z2 R C hR' hC'
    · exact bsp_X2_Z1 R C hR' hC'
    · exact bsp_X2_Z2 R C hR' hC'
  · intro i hi j hj
    rcases (by omega : i = 0 ∨ i = 1) with rfl | rfl <;> rcases (by omega : j = 0 ∨ j = 1) with rfl | rfl
    · exact (flip _ _ (siteop_length R C _ _) (siteop_length R C _ _)).trans (bsp_X1_Z1 R C hR' hC')
    · exact (flip _ _ (siteop_length R C _ _) (siteop_length R C _ _)).trans (bsp_X2_Z1 R C hR' hC')
    · exact (flip _ _ (siteop_length R C _ _) (siteop_length R C _ _)).trans (bsp_X1_Z2 R C hR' hC')
    · exact (flip _ _ (siteop_length R C _ _) (siteop_length R C _ _)).trans (bsp_X2_Z2 R C hR' hC')
  · intro a ha b hb
    simp only [logicalXs, List.mem_cons, List.not_mem_nil, or_false] at ha hb
    rcases ha with rfl | rfl <;> rcases hb with rfl | rfl <;> exact bsp_sites_same R C hR' hC' P1.X rfl _ _
  · intro a ha b hb
    simp only [logicalZs, List.mem_cons, List.not_mem_nil, or_false] at ha hb
    rcases ha with rfl | rfl <;> rcases hb with rfl | rfl <;> exact bsp_sites_same R C hR' hC' P1.Z rfl _ _

/-- the destabiliser of plaquette `q` is the code's own `path` from `q` to the reference plaquette `(q.1, 0, 0)` -/
theorem destab_is_path (R C : Int) (q : Idx) :
    path R C (identity R C) q (q.1, 0, 0) = .ok (destab R C q) :=
  path_eq_ok R C _ q _ rfl

/-- **destabiliser_witness**: for plaquettes `p`, `q` other than the two reference plaquettes, the path from `q`
    to the reference plaquette of its lattice anticommutes with the generator of `p` iff `p = q` -/
theorem destabiliser_witness (R C : Int) (hR : 2 ≤ R) (hC : 2 ≤ C) (p q : Idx)
    (hp : p ∈ keptIdx R C) (hq : q ∈ keptIdx R C) :
    bsp (plaquette R C (identity R C) p) (destab R C q) = decide (p = q) :=
  bsp_stab_destab R C (by omega) (by omega) p q hp hq

/-- the kept plaquettes: all in-lattice plaquettes except `(0,0,0)` and `(1,0,0)`, each once; n − 2 of them -/
theorem kept_spec (R C : Int) (hR : 2 ≤ R) (hC : 2 ≤ C) :
    (keptIdx R C).Nodup ∧
    (∀ p, p ∈ keptIdx R C ↔ Real R C p ∧ p ≠ ((0, 0, 0) : Idx) ∧ p ≠ ((1, 0, 0) : Idx)) ∧
    (keptIdx R C).length + 2 = n R C ∧
    ((keptIdx R C).map fun p => plaquette R C (identity R C) p).Sublist (stabilizers R C) := by
  refine ⟨keptIdx_nodup R C, mem_keptIdx R C, ?_, ?_⟩
  · rw [keptIdx_length R C (by omega) (by omega), length_indices]
    exact (nQubits_toNat R C (by omega) (by omega)).symm
  · exact List.Sublist.map _ List.filter_sublist

/-- **stabilizers_independent**: the n − 2 generators of the kept plaquettes are linearly independent -/
theorem stabilizers_independent (R C : Int) (hR : 2 ≤ R) (hC : 2 ≤ C) :
    Independent (2 * n R C) ((keptIdx R C).map fun p => plaquette R C (identity R C) p) :=
  independent_of_destab (2 * n R C) (keptIdx R C) (stab R C) (destab R C) (keptIdx_nodup R C)
    (fun p _ => stab_length R C p) (fun p hp q hq => destabiliser_witness R C hR hC p q hp hq)

/-- **dropped_dependent**: every generator — in particular the two dropped ones, each the XOR of all kept
    generators of its lattice — lies in the span of the kept generators -/
theorem dropped_dependent (R C : Int) (hR : 2 ≤ R) (hC : 2 ≤ C) :
    ∀ s ∈ stabilizers R C, InSpan (2 * n R C) ((keptIdx R C).map fun p => plaquette R C (identity R C) p) s := by
  have hR' : (0 : Int) < R := by omega
  have hC' : (0 : Int) < C := by omega
  intro s hs
  rw [stabilizers_eq_map] at hs
  rcases List.mem_map.mp hs with ⟨p, hp, rfl⟩
  by_cases h0 : p = ((0, 0, 0) : Idx)
  · rw [h0]; exact stab_ref_inSpan R C hR' hC' 0 (Or.inl rfl)
  · by_cases h1 : p = ((1, 0, 0) : Idx)
    · rw [h1]; exact stab_ref_inSpan R C hR' hC' 1 (Or.inr rfl)
    · apply inSpan_mem (2 * n R C) _ (fun r hr => by
        rcases List.mem_map.mp hr with ⟨q, _, rfl⟩
        exact stab_length R C q)
      exact List.mem_map_of_mem ((mem_keptIdx R C p).mpr ⟨(mem_indices R C p).mp hp, h0, h1⟩)

/-- **rank_eq**: the stabilizer matrix (n rows) has GF(2) rank n − k = n − 2 -/
theorem rank_eq (R C : Int) (hR : 2 ≤ R) (hC : 2 ≤ C) :
    HasRank (2 * n R C) (stabilizers R C) (n R C - 2) := by
  have hk := kept_spec R C hR hC
  exact ⟨_, hk.2.2.2, by rw [List.length_map]; omega, stabilizers_independent R C hR hC,
    dropped_dependent R C hR hC⟩

/-- **toric_valid**: for all R, C ≥ 2 the toric code is a valid [[2RC, 2]] stabilizer code -/
theorem toric_valid (R C : Int) (hR : 2 ≤ R) (hC : 2 ≤ C) :
    ValidCode (n R C) 2 (stabilizers R C) (logicalXs R C) (logicalZs R C) := by
  have hc := stabilizer_count R C hR hC
  have hl := stabilizers_commute_logicals R C hR hC
  have hp := logical_pairing R C hR hC
  have hk := kept_spec R C hR hC
  exact valid_of_sub (n R C) 2 _ _ _ ((keptIdx R C).map fun p => plaquette R C (identity R C) p)
    hc.2.2.1 hc.2.2.2.2.2.1 hc.2.2.2.2.2.2 (stabilizers_commute R C hR hC) hl.1 hl.2 hp.1 hp.2.2.1 hp.2.2.2
    rfl rfl hk.2.2.2 (by rw [List.length_map]; exact hk.2.2.1) (stabilizers_independent R C hR hC)
    (dropped_dependent R C hR hC)

/-- **ctor_domain**: the constructor accepts exactly pairs of index-like values (int / numpy int / bool) that
    are both ≥ 2 and returns them; a non-index `rows`, or an acceptable `rows` with a non-index `columns`,
    raises TypeError; otherwise (an index below 2, which includes every bool) ValueError -/
theorem ctor_domain (rows cols : PyVal) :
    (∀ r c, ctor rows cols = .ok (r, c) ↔ rows.index? = some r ∧ cols.index? = some c ∧ 2 ≤ r ∧ 2 ≤ c) ∧
    (ctor rows cols = .error .type ↔
      rows.index? = none ∨ (∃ r, rows.index? = some r ∧ 2 ≤ r ∧ cols.index? = none)) ∧
    (ctor rows cols = .error .value ↔
      ∃ r, rows.index? = some r ∧ (r < 2 ∨ ∃ c, cols.index? = some c ∧ c < 2)) := by
  unfold ctor
  cases hr : rows.index? with
  | none => simp
  | some r =>
    by_cases h2 : r < 2
    · simp only [h2, if_true]
      refine ⟨?_, ?_, ?_⟩
      · intro r' c'; simp; omega
      · simp; omega
      · simp [h2]
    · simp only [h2, if_false]
      cases hc : cols.index? with
      | none => simp; omega
      | some c =>
        by_cases h3 : c < 2
        · simp only [h3, if_true]
          refine ⟨?_, ?_, ?_⟩
          · intro r' c'; simp; omega
          · simp
          · simp [h3]
        · simp only [h3, if_false]
          refine ⟨?_, ?_, ?_⟩
          · intro r' c'; simp; omega
          · simp
          · simp; omega

/-- bools are indices with value < 2, floats / str / None are not indices -/
theorem ctor_domain_kinds (v w : PyVal) (b : Bool) (num : Int) (den : Nat) :
    ctor (.bool b) w = .error .value ∧ ctor (.float num den) w = .error .type ∧ ctor .str w = .error .type ∧
    ctor .pynone w = .error .type ∧
    ctor (.int 2) (.bool b) = .error .value ∧ ctor (.int 2) (.float num den) = .error .type ∧
    ctor (.int 2) .str = .error .type ∧ ctor (.int 2) .pynone = .error .type ∧
    (v.index? = none → ctor v w = .error .type) := by
  refine ⟨?_, rfl, rfl, rfl, ?_, rfl, rfl, rfl, ?_⟩
  · cases b <;> rfl
  · cases b <;> rfl
  · intro h; simp [ctor, h]

/-- **site_plaquette_agree**: read-back through the index bijection.
    (1) an X- or Z-type (or Y-type) `site(op, *sites)` operator reads `op` exactly at the sites hit an odd number
        of times (modulo the shape) and the identity elsewhere;
    (2) the generator of plaquette `p` reads Z (primal) / X (dual) exactly on the four sites of `p` (modulo the
        shape) and the identity elsewhere — `plaquette` never fails;
    (3) `plaquette` depends on its index only modulo the shape. -/
theorem site_plaquette_agree (R C : Int) (hR : 2 ≤ R) (hC : 2 ≤ C) :
    (∀ (op : P1) (L : List Idx) (s : Idx), operator R C (sites R C op (identity R C) L) s =
        if ToricLemmas.xsum L (fun t => decide (norm R C t = norm R C s)) then op else P1.I) ∧
    (∀ p s : Idx, operator R C (plaquette R C (identity R C) p) s =
        if norm R C s ∈ (plaquetteSites R C p).map (norm R C) then plaquetteOp R C p else P1.I) ∧
    (∀ (v : BVec) (p : Idx), plaquette R C v (norm R C p) = plaquette R C v p) :=
  ⟨fun op L s => operator_sites R C (by omega) (by omega) op L s,
   fun p s => operator_plaquette R C hR hC p s,
   fun v p => plaquette_norm R C v p⟩

/-! non-vacuity: the hypotheses are satisfiable and the objects non-trivial on concrete sizes -/
example : ValidCode 24 2 (stabilizers 3 4) (logicalXs 3 4) (logicalZs 3 4) := toric_valid 3 4 (by decide) (by decide)
example : (stabilizers 2 2).length = 8 ∧ n 2 2 = 8 ∧ (keptIdx 2 2).length = 6 ∧ n 3 4 = 24 ∧
    (keptIdx 3 4).length = 22 := by decide +kernel
example : PairingId ((keptIdx 3 4).map fun p => plaquette 3 4 (identity 3 4) p) ((keptIdx 3 4).map (destab 3 4)) 22 := by
  decide +kernel
example : PairingId (logicalXs 2 5) (logicalZs 2 5) 2 ∧ CommAll (stabilizers 2 5) (logicalXs 2 5 ++ logicalZs 2 5) := by
  decide +kernel
example : ctor (.int 2) (.int 7) = .ok (2, 7) ∧ ctor (.bool true) (.int 7) = .error .value ∧
    ctor (.int 1) .str = .error .value ∧ ctor (.int 3) .str = .error .type := ⟨rfl, rfl, rfl, rfl⟩

end Qec.C07.Toric
