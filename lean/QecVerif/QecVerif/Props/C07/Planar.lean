/-
  C07 (planar family) — `PlanarCode(R, C)` is a valid [[R·C + (R−1)(C−1), 1]] stabilizer code for ALL R, C ≥ 2.
  Theorems about `Model/Lattice/Planar.lean`; "valid code" is `Qec.Symp.ValidCode` (Lemmas/Symplectic.lean):
  commutation, pairing, shapes, rank n−k (independence by destabiliser witnesses — the straight run of sites
  from a plaquette to the top (primal) / left (dual) boundary), logical independence.
-/
import QecVerif.Model.Lattice.Planar
import QecVerif.Lemmas.Symplectic
import QecVerif.Lemmas.Lattice.PlanarCode
namespace Qec.C07.Planar
open Qec Qec.Planar Qec.Symp Qec.PlanarCode

/-- number of physical qubits as a natural number -/
abbrev n (R C : Int) : Nat := (nQubits R C).toNat

/-- **flat_bijective**: `n_k_d` reports n = R·C + (R−1)(C−1), k = 1, and `flatten` is a bijection from the
    in-bounds site indices onto `[0, n)` -/
theorem flat_bijective (R C : Int) (hR : 2 ≤ R) (hC : 2 ≤ C) :
    (nkd R C).1 = R * C + (R - 1) * (C - 1) ∧ (nkd R C).2.1 = 1 ∧
    (∀ r c, inBounds R C r c = true → isSite r c = true →
      0 ≤ flatten R C r c ∧ flatten R C r c < nQubits R C) ∧
    (∀ r c r' c', inBounds R C r c = true → isSite r c = true → inBounds R C r' c' = true → isSite r' c' = true →
      flatten R C r c = flatten R C r' c' → r = r' ∧ c = c') ∧
    (∀ i, 0 ≤ i → i < nQubits R C →
      ∃ r c, inBounds R C r c = true ∧ isSite r c = true ∧ flatten R C r c = i) := by
  refine ⟨rfl, rfl, ?_, ?_, ?_⟩
  · intro r c hb hs
    exact flatten_lt R C r c hR hC ((siteIn_iff R C r c).mpr ⟨hb, hs⟩)
  · intro r c r' c' hb hs hb' hs' h
    exact flatten_inj R C r c r' c' ((siteIn_iff R C r c).mpr ⟨hb, hs⟩) ((siteIn_iff R C r' c').mpr ⟨hb', hs'⟩) h
  · intro i h0 h1
    rcases flatten_surj R C hR hC i h0 h1 with ⟨r, c, hs, hf⟩
    exact ⟨r, c, ((siteIn_iff R C r c).mp hs).1, ((siteIn_iff R C r c).mp hs).2, hf⟩

/-- the code's plaquette index list is exactly the in-lattice plaquettes, each once, and the stabilizer
    matrix has one row per entry -/
theorem plaquette_indices_spec (R C : Int) :
    (plaquetteIndices R C).Nodup ∧
    (∀ p, p ∈ plaquetteIndices R C ↔ (isPlaquette p.1 p.2 = true ∧ inBounds R C p.1 p.2 = true)) ∧
    stabilizers R C = (plaquetteIndices R C).map fun p =>
      sites R C (if isPrimal p.1 p.2 then P1.Z else P1.X) (identity R C) (plaquetteSites p.1 p.2) := by
  refine ⟨plaquetteIndices_nodup R C, ?_, rfl⟩
  intro p
  rw [mem_plaquetteIndices, isPlaquette_iff, inBounds_iff]
  unfold RealP; omega

/-- **stabilizer_count**: the stabilizer matrix has n − k = n − 1 rows, and every row (and each logical) has
    length 2n -/
theorem stabilizer_count (R C : Int) (hR : 2 ≤ R) (hC : 2 ≤ C) :
    (stabilizers R C).length + 1 = n R C ∧ AllLen (2 * n R C) (stabilizers R C) ∧
    (logicalX R C).length = 2 * n R C ∧ (logicalZ R C).length = 2 * n R C := by
  refine ⟨?_, ?_, ?_, ?_⟩
  · have h := plaquetteIndices_length R C hR hC
    have hp := nQubits_pos R C hR hC
    rw [stabilizers_eq_map, List.length_map]
    unfold n; omega
  · intro s hs
    rw [stabilizers_eq_map] at hs
    rcases List.mem_map.mp hs with ⟨p, _, rfl⟩
    exact stabOp_length R C p
  · rw [logicalX_eq]; exact siteop_length R C _ _
  · rw [logicalZ_eq]; exact siteop_length R C _ _

/-- **stabilizers_commute** -/
theorem stabilizers_commute (R C : Int) (hR : 2 ≤ R) (hC : 2 ≤ C) :
    CommAll (stabilizers R C) (stabilizers R C) := by
  intro s hs t ht
  rw [stabilizers_eq_map] at hs ht
  rcases List.mem_map.mp hs with ⟨p, hp, rfl⟩
  rcases List.mem_map.mp ht with ⟨q, hq, rfl⟩
  exact bsp_stab_stab R C hR hC p q ((mem_plaquetteIndices R C p).mp hp) ((mem_plaquetteIndices R C q).mp hq)

/-- **stabilizers_commute_logicals** -/
theorem stabilizers_commute_logicals (R C : Int) (hR : 2 ≤ R) (hC : 2 ≤ C) :
    CommAll (stabilizers R C) [logicalX R C] ∧ CommAll (stabilizers R C) [logicalZ R C] := by
  constructor
  · intro s hs l hl
    rw [stabilizers_eq_map] at hs
    rcases List.mem_map.mp hs with ⟨p, hp, rfl⟩
    rw [List.mem_singleton.mp hl]
    exact bsp_stab_logicalX R C hR hC p ((mem_plaquetteIndices R C p).mp hp)
  · intro s hs l hl
    rw [stabilizers_eq_map] at hs
    rcases List.mem_map.mp hs with ⟨p, hp, rfl⟩
    rw [List.mem_singleton.mp hl]
    exact bsp_stab_logicalZ R C hR hC p ((mem_plaquetteIndices R C p).mp hp)

/-- **logical_pairing**: X̄ anticommutes with Z̄ (in either order); each commutes with itself -/
theorem logical_pairing (R C : Int) (hR : 2 ≤ R) (hC : 2 ≤ C) :
    bsp (logicalX R C) (logicalZ R C) = true ∧ bsp (logicalZ R C) (logicalX R C) = true ∧
    bsp (logicalX R C) (logicalX R C) = false ∧ bsp (logicalZ R C) (logicalZ R C) = false := by
  refine ⟨bsp_logicalX_logicalZ R C hR hC, ?_, bsp_logicalX_logicalX R C hR hC, bsp_logicalZ_logicalZ R C hR hC⟩
  rw [logicalX_eq, logicalZ_eq, bsp_flip, ← logicalX_eq, ← logicalZ_eq]
  exact bsp_logicalX_logicalZ R C hR hC

/-- destabiliser witnesses: the operator on the straight run of sites from plaquette `q` to the top (primal) /
    left (dual) boundary anticommutes with the generator of `p` iff `p = q` -/
theorem destabiliser_witness (R C : Int) (hR : 2 ≤ R) (hC : 2 ≤ C) (p q : Int × Int)
    (hp : p ∈ plaquetteIndices R C) (hq : q ∈ plaquetteIndices R C) :
    bsp (stabOp R C p) (destabOp R C q) = decide (p = q) :=
  bsp_stab_destab R C hR hC p q ((mem_plaquetteIndices R C p).mp hp) ((mem_plaquetteIndices R C q).mp hq)

/-- the n − 1 generators are linearly independent -/
theorem stabilizers_independent (R C : Int) (hR : 2 ≤ R) (hC : 2 ≤ C) :
    Independent (2 * n R C) (stabilizers R C) := by
  rw [stabilizers_eq_map]
  exact independent_of_destab (2 * n R C) (plaquetteIndices R C) (stabOp R C) (destabOp R C)
    (plaquetteIndices_nodup R C) (fun p _ => stabOp_length R C p)
    (fun p hp q hq => destabiliser_witness R C hR hC p q hp hq)

/-- **rank_eq**: the stabilizer matrix has GF(2) rank n − k = n − 1 -/
theorem rank_eq (R C : Int) (hR : 2 ≤ R) (hC : 2 ≤ C) :
    HasRank (2 * n R C) (stabilizers R C) (n R C - 1) := by
  have hc := stabilizer_count R C hR hC
  exact ⟨stabilizers R C, List.Sublist.refl _, by omega, stabilizers_independent R C hR hC,
    fun s hs => inSpan_mem _ _ hc.2.1 s hs⟩

/-- **planar_valid**: for all R, C ≥ 2 the planar code is a valid [[n, 1]] stabilizer code -/
theorem planar_valid (R C : Int) (hR : 2 ≤ R) (hC : 2 ≤ C) :
    ValidCode (n R C) 1 (stabilizers R C) [logicalX R C] [logicalZ R C] := by
  have hc := stabilizer_count R C hR hC
  have hl := stabilizers_commute_logicals R C hR hC
  have hp := logical_pairing R C hR hC
  refine valid_of_sub (n R C) 1 _ _ _ (stabilizers R C) hc.2.1 ?_ ?_ (stabilizers_commute R C hR hC) hl.1 hl.2
    ?_ ?_ ?_ rfl rfl (List.Sublist.refl _) hc.1 (stabilizers_independent R C hR hC)
    (fun s hs => inSpan_mem _ _ hc.2.1 s hs)
  · intro l hl; rw [List.mem_singleton.mp hl]; exact hc.2.2.1
  · intro l hl; rw [List.mem_singleton.mp hl]; exact hc.2.2.2
  · intro i hi j hj
    have hi0 : i = 0 := by omega
    have hj0 : j = 0 := by omega
    subst hi0; subst hj0
    simpa using hp.1
  · intro a ha b hb
    rw [List.mem_singleton.mp ha, List.mem_singleton.mp hb]; exact hp.2.2.1
  · intro a ha b hb
    rw [List.mem_singleton.mp ha, List.mem_singleton.mp hb]; exact hp.2.2.2

/-- **ctor_domain**: the constructor accepts exactly pairs of index-like values (int / numpy int / bool) that
    are both ≥ 2 and returns them; a non-index `rows`, or an acceptable `rows` with a non-index `columns`,
    raises TypeError; otherwise (an index below 2, which includes every bool) ValueError -/
theorem ctor_domain (rows cols : PyVal) :
    (∀ r c, ctor rows cols = .ok (r, c) ↔ rows.index? = some r ∧ cols.index? = some c ∧ 2 ≤ r ∧ 2 ≤ c) ∧
    (ctor rows cols = .error .type ↔
      rows.index? = none ∨ (∃ r, rows.index? = some r ∧ 2 ≤ r ∧ cols.index? = none)) ∧
    (ctor rows cols = .error .value ↔
      ∃ r, rows.index? = some r ∧ (r < 2 ∨ ∃ c, cols.index? = some c ∧ c < 2)) := by
  unfold ctor
  cases hr : rows.index? with
  | none => simp
  | some r =>
    by_cases h2 : r < 2
    · simp only [h2, if_true]
      refine ⟨?_, ?_, ?_⟩
      · intro r' c'; simp; omega
      · simp; omega
      · simp [h2]
    · simp only [h2, if_false]
      cases hc : cols.index? with
      | none => simp; omega
      | some c =>
        by_cases h3 : c < 2
        · simp only [h3, if_true]
          refine ⟨?_, ?_, ?_⟩
          · intro r' c'; simp; omega
          · simp
          · simp [h3]
        · simp only [h3, if_false]
          refine ⟨?_, ?_, ?_⟩
          · intro r' c'; simp; omega
          · simp
          · simp; omega

/-- bools are indices with value < 2, floats / str / None are not indices -/
theorem ctor_domain_kinds (v w : PyVal) (b : Bool) (num : Int) (den : Nat) :
    ctor (.bool b) w = .error .value ∧ ctor (.float num den) w = .error .type ∧ ctor .str w = .error .type ∧
    ctor .pynone w = .error .type ∧
    ctor (.int 2) (.bool b) = .error .value ∧ ctor (.int 2) (.float num den) = .error .type ∧
    ctor (.int 2) .str = .error .type ∧ ctor (.int 2) .pynone = .error .type ∧
    (v.index? = none → ctor v w = .error .type) := by
  refine ⟨?_, rfl, rfl, rfl, ?_, rfl, rfl, rfl, ?_⟩
  · cases b <;> rfl
  · cases b <;> rfl
  · intro h; simp [ctor, h]

/-- **site_plaquette_agree**: read-back through the index bijection.
    (1) `site(op, rc)` on the identity puts exactly `op` at `rc` and nothing elsewhere, and is a no-op out of bounds;
    (2) `plaquette(p)` fails with IndexError off the plaquette sub-lattice and otherwise yields the operator
        that reads Z (primal) / X (dual) exactly on the in-bounds neighbours of `p`;
    (3) row `i` of the stabilizer matrix is `plaquette` of the `i`-th plaquette index. -/
theorem site_plaquette_agree (R C : Int) (hR : 2 ≤ R) (hC : 2 ≤ C) :
    (∀ (op : P1) (rc s : Int × Int), isSite rc.1 rc.2 = true → inBounds R C rc.1 rc.2 = true →
        isSite s.1 s.2 = true → inBounds R C s.1 s.2 = true →
        operatorAt R C (site R C op (identity R C) rc) s.1 s.2 = if rc = s then op else P1.I) ∧
    (∀ (op : P1) (v : BVec) (rc : Int × Int), inBounds R C rc.1 rc.2 = false → site R C op v rc = v) ∧
    (∀ (r c : Int) (v : BVec), isPlaquette r c = false → plaquette R C v r c = .error .index) ∧
    (∀ (r c : Int), isPlaquette r c = true →
        ∃ v, plaquette R C (identity R C) r c = .ok v ∧
          ∀ s : Int × Int, isSite s.1 s.2 = true → inBounds R C s.1 s.2 = true →
            operatorAt R C v s.1 s.2 =
              if (s.2 = c ∧ (s.1 = r - 1 ∨ s.1 = r + 1)) ∨ (s.1 = r ∧ (s.2 = c - 1 ∨ s.2 = c + 1))
              then (if isPrimal r c then P1.Z else P1.X) else P1.I) ∧
    (stabilizers R C = (plaquetteIndices R C).filterMap fun p =>
        match plaquette R C (identity R C) p.1 p.2 with | .ok v => some v | .error _ => none) := by
  refine ⟨?_, ?_, ?_, ?_, ?_⟩
  · intro op rc s h1 b1 h2 b2
    exact operatorAt_site R C hR hC op rc s ((isSite_iff _ _).mp h1) b1 ((isSite_iff _ _).mp h2) b2
  · intro op v rc hb
    simp [site, hb]
  · intro r c v h
    simp [plaquette, h]
  · intro r c h
    refine ⟨sites R C (opOf (isPrimal r c)) (identity R C) (plaquetteSites r c), by
      simp only [plaquette, h, Bool.not_true, Bool.false_eq_true, if_false]; rfl, ?_⟩
    intro s h2 b2
    have := operatorAt_siteop R C hR hC (isPrimal r c) (plaquetteSites r c)
      (allSites_plaq r c ((isPlaquette_iff r c).mp h)) s ((isSite_iff _ _).mp h2) b2
    rw [show s = (s.1, s.2) from rfl, occ_plaq] at this
    simp only [opOf] at this
    simp only [decide_eq_true_eq] at this
    exact this
  · rw [stabilizers_eq_map]
    have gen : ∀ l : List (Int × Int), (∀ p ∈ l, isPlaquette p.1 p.2 = true) →
        l.map (stabOp R C) = l.filterMap fun p =>
          match plaquette R C (identity R C) p.1 p.2 with | .ok v => some v | .error _ => none := by
      intro l
      induction l with
      | nil => intro _; rfl
      | cons p l ih =>
        intro hl
        have hp := hl p List.mem_cons_self
        have e : plaquette R C (identity R C) p.1 p.2 = .ok (stabOp R C p) := by
          simp only [plaquette, hp, Bool.not_true, Bool.false_eq_true, if_false]; rfl
        rw [List.map_cons, List.filterMap_cons, e, ih (fun q hq => hl q (List.mem_cons_of_mem _ hq))]
    apply gen
    intro p hp
    rw [isPlaquette_iff]
    exact ((mem_plaquetteIndices R C p).mp hp).2.2.2.2

/-- the model's own `path` from a plaquette to its `virtualPlaquette` (the MWPM decoders' boundary match) -/
def pathDestab (R C : Int) (p : Int × Int) : BVec :=
  match virtualPlaquette R C p.1 p.2 with
  | .ok q => (match path R C (identity R C) p q with | .ok v => v | .error _ => [])
  | .error _ => []

/-
  STATED, NOT PROVED: for all R, C ≥ 2 the model's `path` from a plaquette to its nearest virtual plaquette is
  also a destabiliser family:
    theorem path_destabiliser (R C : Int) (hR : 2 ≤ R) (hC : 2 ≤ C) :
      PairingId (stabilizers R C) ((plaquetteIndices R C).map (pathDestab R C)) (stabilizers R C).length
  It is an instance of C15's `path_syndrome` (not re-proved here; `rank_eq` above does not need it because it
  uses the straight runs `destabOp`).  Proved below by kernel evaluation for 2 ≤ R ≤ 4, 2 ≤ C ≤ 5 only.
-/
/-- bounded (2 ≤ R ≤ 4, 2 ≤ C ≤ 5) kernel evaluation of the statement above -/
theorem path_destabiliser_bounded :
    ∀ R ∈ [2, 3, 4], ∀ C ∈ [2, 3, 4, 5],
      PairingId (stabilizers R C) ((plaquetteIndices R C).map (pathDestab R C)) (stabilizers R C).length := by
  decide +kernel

/-! non-vacuity: the hypotheses are satisfiable and the objects non-trivial on concrete sizes -/
example : ValidCode 13 1 (stabilizers 3 3) [logicalX 3 3] [logicalZ 3 3] := planar_valid 3 3 (by decide) (by decide)
example : (stabilizers 2 2).length = 4 ∧ n 2 2 = 5 ∧ (stabilizers 3 4).length + 1 = n 3 4 ∧ n 3 4 = 18 := by
  decide +kernel
example : PairingId (stabilizers 3 4) ((plaquetteIndices 3 4).map (destabOp 3 4)) 17 := by decide +kernel
example : bsp (logicalX 2 5) (logicalZ 2 5) = true ∧ CommAll (stabilizers 2 5) [logicalX 2 5, logicalZ 2 5] := by
  decide +kernel
example : ctor (.int 2) (.int 7) = .ok (2, 7) ∧ ctor (.bool true) (.int 7) = .error .value ∧
    ctor (.int 1) .str = .error .value ∧ ctor (.int 3) .str = .error .type := by decide

end Qec.C07.Planar
