/-
  C07 (planar family) — the statement Props/C07/Planar.lean lists under `STATED, NOT PROVED` (there only
  `path_destabiliser_bounded`, by kernel evaluation for 2 ≤ R ≤ 4, 2 ≤ C ≤ 5):
  for ALL R, C ≥ 2 the model's own `path` from each plaquette to its nearest virtual plaquette (`pathDestab`, the MWPM
  decoders' boundary match) is a destabiliser family of the stabilizer generators.
  It is an instance of C15's planar `path_syndrome` + `virtualPlaquette_spec` (Props/C15/Planar.lean, imported — Props/C15
  does not import this file).
-/
import QecVerif.Props.C07.Planar
import QecVerif.Props.C15.Planar
namespace Qec.C07.PlanarPath
open Qec Qec.Planar Qec.Symp

/-- **path_destabiliser** (all sizes): the generator of plaquette `i` anticommutes with the boundary path of plaquette
    `j` iff `i = j` -/
theorem path_destabiliser (R C : Int) (hR : 2 ≤ R) (hC : 2 ≤ C) :
    PairingId (stabilizers R C) ((plaquetteIndices R C).map (Qec.C07.Planar.pathDestab R C))
      (stabilizers R C).length := by
  obtain ⟨hnd, hmem⟩ := Qec.C15.Planar.plaquetteIndices_spec R C hR hC
  have hlen : (stabilizers R C).length = (plaquetteIndices R C).length := by
    rw [Qec.C15.Planar.stabilizers_eq, List.length_map]
  intro i hi j hj
  have hi' : i < (plaquetteIndices R C).length := hlen ▸ hi
  have hj' : j < (plaquetteIndices R C).length := hlen ▸ hj
  have eA : (stabilizers R C).getD i [] = Qec.C15.Planar.stab R C ((plaquetteIndices R C)[i]) := by
    rw [Qec.C15.Planar.stabilizers_eq, List.getD_eq_getElem?_getD, List.getElem?_map, List.getElem?_eq_getElem hi']
    rfl
  have eB : ((plaquetteIndices R C).map (Qec.C07.Planar.pathDestab R C)).getD j []
      = Qec.C07.Planar.pathDestab R C ((plaquetteIndices R C)[j]) := by
    rw [List.getD_eq_getElem?_getD, List.getElem?_map, List.getElem?_eq_getElem hj']
    rfl
  rw [eA, eB]
  have hp : Qec.C15.Planar.Real R C ((plaquetteIndices R C)[i]) := (hmem _).1 (List.getElem_mem hi')
  have hq : Qec.C15.Planar.Real R C ((plaquetteIndices R C)[j]) := (hmem _).1 (List.getElem_mem hj')
  obtain ⟨v, hv, hvirt, htype, _, _⟩ := Qec.C15.Planar.virtualPlaquette_spec R C hR hC _ hq
  obtain ⟨w, hw, hbsp⟩ :=
    Qec.C15.Planar.path_syndrome R C hR hC _ v _ (Or.inl hq) (Or.inr hvirt) htype.symm hp
  have epd : Qec.C07.Planar.pathDestab R C ((plaquetteIndices R C)[j]) = w := by
    unfold Qec.C07.Planar.pathDestab
    rw [hv]
    simp only
    rw [hw]
  obtain ⟨t, ht, _, _⟩ := Qec.C15.Planar.translation_spec R C _ v hq.1 hvirt.1 htype.symm
  have hw' := path_eq_of_translation R C (identity R C) _ v t ht
  rw [hw] at hw'
  have hwlen : w.length = 2 * (nQubits R C).toNat := by
    rw [Except.ok.inj hw', sites_length, identity_length]
  have hslen : (Qec.C15.Planar.stab R C ((plaquetteIndices R C)[i])).length = 2 * (nQubits R C).toNat := by
    unfold Qec.C15.Planar.stab
    rw [sites_length, identity_length]
  have hne : (plaquetteIndices R C)[i] ≠ v := by
    intro h
    have hb := (inBounds_iff _ _ _ _).1 hp.2
    rw [h] at hb
    rcases hvirt.2 with ⟨_, h1, _⟩ | ⟨_, h1, _⟩ <;> omega
  rw [epd, bsp_comm _ _ (by rw [hslen, hwlen]) (by rw [hslen]; omega), hbsp]
  have e1 : decide ((plaquetteIndices R C)[i] = v) = false := decide_eq_false hne
  rw [e1, Bool.bne_false]
  exact decide_eq_decide.mpr (hnd.getElem_inj_iff)

/-! non-vacuity: on the 3 × 4 lattice (17 generators) the family is non-trivial; the statement there agrees with the
    kernel evaluation `Planar.path_destabiliser_bounded` -/
example : PairingId (stabilizers 3 4) ((plaquetteIndices 3 4).map (Qec.C07.Planar.pathDestab 3 4)) 17 :=
  path_destabiliser 3 4 (by decide) (by decide)
example : (plaquetteIndices 3 4).length = 17 ∧ (1, 2) ∈ plaquetteIndices 3 4 ∧
    bsfWt (Qec.C07.Planar.pathDestab 3 4 (1, 2)) = 1 := by
  decide +kernel

end Qec.C07.PlanarPath
