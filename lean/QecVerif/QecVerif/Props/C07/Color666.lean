/-
  C07 (colour 6.6.6 family) — `Color666Code(size)` is a valid [[(3·size² + 1)/4, 1]] stabilizer code for ALL odd
  size ≥ 3.  Theorems about `Model/Lattice/Color666.lean`; "valid code" is `Qec.Symp.ValidCode`
  (Lemmas/Symplectic.lean): commutation (any two plaquette supports share an even number of in-lattice sites,
  every support has even weight 4 or 6), pairing, shapes, rank n − k (the 2·#plaquettes = n − 1 generators are
  independent; destabiliser witnesses = the runs of the colour MPS decoder's `sample_recovery` from a plaquette
  to the boundary of its colour, `Model/Decoders.lean: colorRunSites`), logical independence.
-/
import QecVerif.Model.Lattice.Color666
import QecVerif.Model.Decoders
import QecVerif.Lemmas.Symplectic
import QecVerif.Lemmas.Lattice.Color666Code
namespace Qec.C07.Color666
open Qec Qec.Color666 Qec.Symp Qec.Color666Code

/-- number of physical qubits as a natural number -/
abbrev n (L : Int) : Nat := (nQubits L).toNat

/-- **n_formula**: for odd `L = 2m + 1 ≥ 3` the integer expression `(3L² + 1) / 4` of `n_k_d` is exact,
    `4 n = 3 L² + 1`, `n = 3m² + 3m + 1`, it is the row offset `((2r+1)² + 3) / 12` of the first row below the
    lattice, and it is the number of in-lattice site indices -/
theorem n_formula (L : Int) (hL : 3 ≤ L) (hodd : L % 2 = 1) :
    4 * nQubits L = 3 * L * L + 1 ∧
    nQubits L = 3 * (((L - 1) / 2) * ((L - 1) / 2)) + 3 * ((L - 1) / 2) + 1 ∧
    nQubits L = flatten (bound L + 1) 0 ∧
    (((allIdx L).filter fun rc => inBounds L rc.1 rc.2 && isSite rc.1 rc.2).length : Int) = nQubits L := by
  have h : Odd3 L := ⟨hL, hodd⟩
  refine ⟨nQubits_exact L h, (nQubits_eq L h).1, ?_, site_count L h⟩
  rw [(nQubits_eq L h).2, flatten_eq]
  have := bound_eq L h
  unfold colOff; omega

/-- **flat_bijective**: `n_k_d` reports n = (3L² + 1)/4, k = 1, d = L, and `flatten` is a bijection from the
    in-bounds site indices onto `[0, n)` -/
theorem flat_bijective (L : Int) (hL : 3 ≤ L) (hodd : L % 2 = 1) :
    (nkd L).1 = (3 * L * L + 1) / 4 ∧ (nkd L).2.1 = 1 ∧ (nkd L).2.2 = L ∧
    (∀ r c, inBounds L r c = true → isSite r c = true → 0 ≤ flatten r c ∧ flatten r c < nQubits L) ∧
    (∀ r c r' c', inBounds L r c = true → isSite r c = true → inBounds L r' c' = true → isSite r' c' = true →
      flatten r c = flatten r' c' → r = r' ∧ c = c') ∧
    (∀ i, 0 ≤ i → i < nQubits L → ∃ r c, inBounds L r c = true ∧ isSite r c = true ∧ flatten r c = i) := by
  have h : Odd3 L := ⟨hL, hodd⟩
  refine ⟨rfl, rfl, rfl, ?_, ?_, ?_⟩
  · intro r c hb hs
    exact flatten_lt L r c h ((siteIn_iff L r c).mpr ⟨hb, hs⟩)
  · intro r c r' c' hb hs hb' hs' he
    exact flatten_inj L r c r' c' ((siteIn_iff L r c).mpr ⟨hb, hs⟩) ((siteIn_iff L r' c').mpr ⟨hb', hs'⟩) he
  · intro i h0 h1
    rcases flatten_surj L h i h0 h1 with ⟨r, c, hs, hf⟩
    exact ⟨r, c, ((siteIn_iff L r c).mp hs).1, ((siteIn_iff L r c).mp hs).2, hf⟩

/-- **flat_color_float_safe**: the code evaluates the row offset as `((2r+1)² / 3 + 1) // 4` with a FLOAT true
    division.  With `x = (2r+1)²`: `x % 12` is 9 or 1.  If 9 then `3 ∣ x` and `4 ∣ x/3 + 1`, so both divisions are
    exact (every intermediate value is an integer, exactly representable while `x < 2⁵³`) and the result is the
    model's `(x + 3) / 12`.  If 1 then `x/3 = q + 1/3` with `q = (x − 1)/3` a multiple of 4, and ANY value `y` with
    `q ≤ y < q + 3` (in particular every rounding of `q + 1/3`: rounding is monotone and fixes the integers
    `q`, `q + 1`) has `⌊(y + 1) / 4⌋ = q / 4 = (x + 3) / 12`; `y = num / den` is an arbitrary rational. -/
theorem flat_color_float_safe (r : Int) :
    let x := (2 * r + 1) * (2 * r + 1)
    (x % 12 = 9 ∧ x % 3 = 0 ∧ (x / 3 + 1) % 4 = 0 ∧ (x / 3 + 1) / 4 = (x + 3) / 12) ∨
    (x % 12 = 1 ∧ ((x - 1) / 3) % 4 = 0 ∧ 3 * ((x - 1) / 3) + 1 = x ∧
      ∀ num den : Int, 0 < den → (x - 1) / 3 * den ≤ num → num < ((x - 1) / 3 + 3) * den →
        (num + den) / (4 * den) = (x + 3) / 12) :=
  float_safe r

/-- the code's plaquette index list is exactly the in-lattice plaquettes, each once, and the stabilizer
    matrix is the X-type rows of all plaquettes followed by the Z-type rows -/
theorem plaquette_indices_spec (L : Int) :
    (plaquetteIndices L).Nodup ∧
    (∀ p, p ∈ plaquetteIndices L ↔ (isPlaquette p.1 p.2 = true ∧ inBounds L p.1 p.2 = true)) ∧
    stabilizers L = (gens L).map (stabOp L) ∧ (gens L).Nodup ∧
    gens L = (plaquetteIndices L).map (fun p => (false, p)) ++ (plaquetteIndices L).map (fun p => (true, p)) := by
  refine ⟨plaquetteIndices_nodup L, ?_, stabilizers_eq_map L, gens_nodup L, rfl⟩
  intro p
  rw [mem_plaquetteIndices, isPlaquette_iff, inBounds_iff]
  unfold RealP; omega

/-- every plaquette support has 6 in-lattice sites in the bulk and 4 on a boundary (never fewer: the three
    corners of the triangle are sites) -/
theorem plaquette_weight (L : Int) (hL : 3 ≤ L) (hodd : L % 2 = 1) (p : Int × Int) (hp : p ∈ plaquetteIndices L) :
    List.countP (fun s => inBounds L s.1 s.2) (plaquetteSites p.1 p.2) =
      if p.2 = 0 ∨ p.2 = p.1 ∨ p.1 = bound L then 4 else 6 :=
  plaq_weight L ⟨hL, hodd⟩ p ((mem_plaquetteIndices L p).mp hp)

/-- **stabilizer_count**: the stabilizer matrix has n − k = n − 1 rows (two per plaquette), and every row (and
    each logical) has length 2n -/
theorem stabilizer_count (L : Int) (hL : 3 ≤ L) (hodd : L % 2 = 1) :
    (stabilizers L).length + 1 = n L ∧ (stabilizers L).length = 2 * (plaquetteIndices L).length ∧
    AllLen (2 * n L) (stabilizers L) ∧
    (logicalX L).length = 2 * n L ∧ (logicalZ L).length = 2 * n L := by
  have h : Odd3 L := ⟨hL, hodd⟩
  have hlen := plaquetteIndices_length L h
  have hs : (stabilizers L).length = 2 * (plaquetteIndices L).length := by
    rw [stabilizers_eq_map, List.length_map, gens_length]
  refine ⟨?_, hs, ?_, ?_, ?_⟩
  · rw [hs]; unfold n; omega
  · intro s hs
    rw [stabilizers_eq_map] at hs
    rcases List.mem_map.mp hs with ⟨x, _, rfl⟩
    exact stabOp_length L x
  · rw [logicalX_eq]; exact siteop_length L _ _
  · rw [logicalZ_eq]; exact siteop_length L _ _

/-- **stabilizers_commute** -/
theorem stabilizers_commute (L : Int) (hL : 3 ≤ L) (hodd : L % 2 = 1) :
    CommAll (stabilizers L) (stabilizers L) := by
  intro s hs t ht
  rw [stabilizers_eq_map] at hs ht
  rcases List.mem_map.mp hs with ⟨x, hx, rfl⟩
  rcases List.mem_map.mp ht with ⟨y, hy, rfl⟩
  exact bsp_stab_stab L ⟨hL, hodd⟩ x y ((mem_gens L x).mp hx) ((mem_gens L y).mp hy)

/-- **stabilizers_commute_logicals** -/
theorem stabilizers_commute_logicals (L : Int) (hL : 3 ≤ L) (hodd : L % 2 = 1) :
    CommAll (stabilizers L) [logicalX L] ∧ CommAll (stabilizers L) [logicalZ L] := by
  constructor
  · intro s hs l hl
    rw [stabilizers_eq_map] at hs
    rcases List.mem_map.mp hs with ⟨x, hx, rfl⟩
    rw [List.mem_singleton.mp hl, logicalX_eq]
    exact bsp_stab_logical L ⟨hL, hodd⟩ x ((mem_gens L x).mp hx) false
  · intro s hs l hl
    rw [stabilizers_eq_map] at hs
    rcases List.mem_map.mp hs with ⟨x, hx, rfl⟩
    rw [List.mem_singleton.mp hl, logicalZ_eq]
    exact bsp_stab_logical L ⟨hL, hodd⟩ x ((mem_gens L x).mp hx) true

/-- **logical_pairing**: X̄ anticommutes with Z̄ (in either order); each commutes with itself -/
theorem logical_pairing (L : Int) (hL : 3 ≤ L) (hodd : L % 2 = 1) :
    bsp (logicalX L) (logicalZ L) = true ∧ bsp (logicalZ L) (logicalX L) = true ∧
    bsp (logicalX L) (logicalX L) = false ∧ bsp (logicalZ L) (logicalZ L) = false := by
  have h : Odd3 L := ⟨hL, hodd⟩
  refine ⟨bsp_logicalX_logicalZ L h, ?_, ?_, ?_⟩
  · rw [logicalX_eq, logicalZ_eq, bsp_flip, ← logicalX_eq, ← logicalZ_eq]
    exact bsp_logicalX_logicalZ L h
  · rw [logicalX_eq]; exact bsp_logical_same L h false
  · rw [logicalZ_eq]; exact bsp_logical_same L h true

/-- destabiliser witnesses: the operator on the `sample_recovery` run of generator `y` (Z-type run for an X-type
    generator and vice versa) anticommutes with generator `x` iff `x = y` -/
theorem destabiliser_witness (L : Int) (hL : 3 ≤ L) (hodd : L % 2 = 1) (x y : Gen)
    (hx : x ∈ gens L) (hy : y ∈ gens L) :
    bsp (stabOp L x) (destabOp L y) = decide (x = y) :=
  bsp_stab_destab L ⟨hL, hodd⟩ x y ((mem_gens L x).mp hx) ((mem_gens L y).mp hy)

/-- the same in the shape `Lemmas/Decoders.lean: Color666L.Spec.run_syndrome` asks for (C02's colour MPS decoder):
    the syndrome of the run of generator `x` is the indicator of `x` -/
theorem run_syndrome (L : Int) (hL : 3 ≤ L) (hodd : L % 2 = 1) (x : Gen) (hx : x ∈ gens L) :
    synd (stabilizers L) (Dec.colorRunApply L (if x.1 then P1.X else P1.Z) (identity L) x.2) =
      (gens L).map fun q => decide (q = x) := by
  rw [← destabOp_eq_run, stabilizers_eq_map]
  unfold synd
  rw [List.map_map]
  apply List.map_congr_left
  intro q hq
  simp only [Function.comp_apply]
  rw [bsp_comm _ _ (by rw [destabOp_length, stabOp_length]) (by rw [destabOp_length]; omega)]
  exact destabiliser_witness L hL hodd q x hq hx

/-- the n − 1 generators are linearly independent -/
theorem stabilizers_independent (L : Int) (hL : 3 ≤ L) (hodd : L % 2 = 1) :
    Independent (2 * n L) (stabilizers L) := by
  rw [stabilizers_eq_map]
  exact independent_of_destab (2 * n L) (gens L) (stabOp L) (destabOp L)
    (gens_nodup L) (fun x _ => stabOp_length L x)
    (fun x hx y hy => destabiliser_witness L hL hodd x y hx hy)

/-- **rank_eq**: the stabilizer matrix has GF(2) rank n − k = n − 1 -/
theorem rank_eq (L : Int) (hL : 3 ≤ L) (hodd : L % 2 = 1) :
    HasRank (2 * n L) (stabilizers L) (n L - 1) := by
  have hc := stabilizer_count L hL hodd
  exact ⟨stabilizers L, List.Sublist.refl _, by omega, stabilizers_independent L hL hodd,
    fun s hs => inSpan_mem _ _ hc.2.2.1 s hs⟩

/-- **color666_valid**: for all odd L ≥ 3 the colour 6.6.6 code is a valid [[n, 1]] stabilizer code -/
theorem color666_valid (L : Int) (hL : 3 ≤ L) (hodd : L % 2 = 1) :
    ValidCode (n L) 1 (stabilizers L) [logicalX L] [logicalZ L] := by
  have hc := stabilizer_count L hL hodd
  have hl := stabilizers_commute_logicals L hL hodd
  have hp := logical_pairing L hL hodd
  refine valid_of_sub (n L) 1 _ _ _ (stabilizers L) hc.2.2.1 ?_ ?_ (stabilizers_commute L hL hodd) hl.1 hl.2
    ?_ ?_ ?_ rfl rfl (List.Sublist.refl _) hc.1 (stabilizers_independent L hL hodd)
    (fun s hs => inSpan_mem _ _ hc.2.2.1 s hs)
  · intro l hl; rw [List.mem_singleton.mp hl]; exact hc.2.2.2.1
  · intro l hl; rw [List.mem_singleton.mp hl]; exact hc.2.2.2.2
  · intro i hi j hj
    have hi0 : i = 0 := by omega
    have hj0 : j = 0 := by omega
    subst hi0; subst hj0
    simpa using hp.1
  · intro a ha b hb
    rw [List.mem_singleton.mp ha, List.mem_singleton.mp hb]; exact hp.2.2.1
  · intro a ha b hb
    rw [List.mem_singleton.mp ha, List.mem_singleton.mp hb]; exact hp.2.2.2

/-- **ctor_domain**: the constructor accepts exactly the index-like values (int / numpy int / bool) that are odd
    and ≥ 3 and returns them; a non-index value raises TypeError; an index below 3 (which includes every bool)
    or an even index raises ValueError -/
theorem ctor_domain (size : PyVal) :
    (∀ s, ctor size = .ok s ↔ size.index? = some s ∧ 3 ≤ s ∧ s % 2 = 1) ∧
    (ctor size = .error .type ↔ size.index? = none) ∧
    (ctor size = .error .value ↔ ∃ s, size.index? = some s ∧ (s < 3 ∨ s % 2 = 0)) := by
  unfold ctor
  cases hr : size.index? with
  | none => simp
  | some s =>
    by_cases h3 : s < 3
    · simp only [h3, if_true]
      refine ⟨?_, ?_, ?_⟩
      · intro s'; simp; omega
      · simp
      · simp [h3]
    · simp only [h3, if_false]
      by_cases h2 : s % 2 = 0
      · have : (s % 2 == 0) = true := by simp [h2]
        simp only [this, if_true]
        refine ⟨?_, ?_, ?_⟩
        · intro s'; simp; omega
        · simp
        · simp [h2]
      · have : (s % 2 == 0) = false := by simp [h2]
        simp only [this, Bool.false_eq_true, if_false]
        refine ⟨?_, ?_, ?_⟩
        · intro s'; simp; omega
        · simp
        · simp; omega

/-- bools are indices with value < 3, floats / str / None are not indices -/
theorem ctor_domain_kinds (v : PyVal) (b : Bool) (num : Int) (den : Nat) :
    ctor (.bool b) = .error .value ∧ ctor (.float num den) = .error .type ∧ ctor .str = .error .type ∧
    ctor .pynone = .error .type ∧ ctor (.int 4) = .error .value ∧ ctor (.int 1) = .error .value ∧
    ctor (.int 5) = .ok 5 ∧ (v.index? = none → ctor v = .error .type) := by
  refine ⟨?_, rfl, rfl, rfl, by decide, by decide, by decide, ?_⟩
  · cases b <;> decide
  · intro h; simp [ctor, h]

/-- **site_plaquette_agree**: read-back through the index bijection.
    (1) `site(op, rc)` on the identity puts exactly `op` at `rc` and nothing elsewhere, and is a no-op out of bounds;
    (2) `plaquette(op, p)` fails with IndexError off the plaquette sub-lattice and otherwise (op = X or Z) yields
        the operator that reads `op` exactly on the in-bounds neighbours of `p`;
    (3) the rows of the stabilizer matrix are `plaquette('X', p)` for the plaquette indices in order, followed by
        `plaquette('Z', p)`. -/
theorem site_plaquette_agree (L : Int) (hL : 3 ≤ L) (hodd : L % 2 = 1) :
    (∀ (op : P1) (rc s : Int × Int), isSite rc.1 rc.2 = true → inBounds L rc.1 rc.2 = true →
        isSite s.1 s.2 = true → inBounds L s.1 s.2 = true →
        operatorAt L (site L op (identity L) rc) s.1 s.2 = if rc = s then op else P1.I) ∧
    (∀ (op : P1) (v : BVec) (rc : Int × Int), inBounds L rc.1 rc.2 = false → site L op v rc = v) ∧
    (∀ (op : P1) (r c : Int) (v : BVec), isPlaquette r c = false → plaquette L op v r c = .error .index) ∧
    (∀ (z : Bool) (r c : Int), isPlaquette r c = true →
        ∃ v, plaquette L (opOf z) (identity L) r c = .ok v ∧
          ∀ s : Int × Int, isSite s.1 s.2 = true → inBounds L s.1 s.2 = true →
            operatorAt L v s.1 s.2 =
              if (s.1 = r - 1 ∧ (s.2 = c - 1 ∨ s.2 = c)) ∨ (s.1 = r ∧ (s.2 = c - 1 ∨ s.2 = c + 1)) ∨
                (s.1 = r + 1 ∧ (s.2 = c ∨ s.2 = c + 1))
              then opOf z else P1.I) ∧
    (stabilizers L = (gens L).filterMap fun x =>
        match plaquette L (opOf x.1) (identity L) x.2.1 x.2.2 with | .ok v => some v | .error _ => none) := by
  have h : Odd3 L := ⟨hL, hodd⟩
  refine ⟨?_, ?_, ?_, ?_, ?_⟩
  · intro op rc s h1 b1 h2 b2
    exact operatorAt_site L h op rc s ((isSite_iff _ _).mp h1) b1 ((isSite_iff _ _).mp h2) b2
  · intro op v rc hb
    simp [site, hb]
  · intro op r c v h
    simp [plaquette, h]
  · intro z r c hpl
    refine ⟨sites L (opOf z) (identity L) (plaquetteSites r c), by
      simp only [plaquette, hpl, Bool.not_true, Bool.false_eq_true, if_false], ?_⟩
    intro s h2 b2
    have := operatorAt_siteop L h z (plaquetteSites r c)
      (allSites_plaq r c ((isPlaquette_iff r c).mp hpl)) s ((isSite_iff _ _).mp h2) b2
    rw [show s = (s.1, s.2) from rfl, occ_plaq] at this
    simp only [decide_eq_true_eq] at this
    exact this
  · rw [stabilizers_eq_map]
    have gen : ∀ l : List Gen, (∀ x ∈ l, isPlaquette x.2.1 x.2.2 = true) →
        l.map (stabOp L) = l.filterMap fun x =>
          match plaquette L (opOf x.1) (identity L) x.2.1 x.2.2 with | .ok v => some v | .error _ => none := by
      intro l
      induction l with
      | nil => intro _; rfl
      | cons x l ih =>
        intro hl
        have hx := hl x List.mem_cons_self
        have e : plaquette L (opOf x.1) (identity L) x.2.1 x.2.2 = .ok (stabOp L x) := by
          simp only [plaquette, hx, Bool.not_true, Bool.false_eq_true, if_false]; rfl
        rw [List.map_cons, List.filterMap_cons, e, ih (fun q hq => hl q (List.mem_cons_of_mem _ hq))]
    apply gen
    intro x hx
    rw [isPlaquette_iff]
    exact ((mem_gens L x).mp hx).2.2.2

/-! non-vacuity and cross-checks by kernel evaluation on concrete sizes (the general theorems above do not
    depend on these) -/
example : ValidCode 7 1 (stabilizers 3) [logicalX 3] [logicalZ 3] := color666_valid 3 (by decide) (by decide)
example : ValidCode 37 1 (stabilizers 7) [logicalX 7] [logicalZ 7] := color666_valid 7 (by decide) (by decide)
example : (stabilizers 3).length = 6 ∧ n 3 = 7 ∧ (stabilizers 5).length + 1 = n 5 ∧ n 5 = 19 ∧ n 9 = 61 := by
  decide +kernel
example : PairingId (stabilizers 5) ((gens 5).map (destabOp 5)) 18 := by decide +kernel
example : bsp (logicalX 5) (logicalZ 5) = true ∧ CommAll (stabilizers 5) [logicalX 5, logicalZ 5] ∧
    CommAll (stabilizers 5) (stabilizers 5) := by
  decide +kernel
example : ctor (.int 3) = .ok 3 ∧ ctor (.bool true) = .error .value ∧ ctor (.int 6) = .error .value ∧
    ctor .str = .error .type := by decide

end Qec.C07.Color666
