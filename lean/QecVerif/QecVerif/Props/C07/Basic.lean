/-
  C07 (basic codes) — the five-qubit and Steane codes of `Model/Basic.lean` are valid [[5,1]] and [[7,1]]
  stabilizer codes in the sense of `Qec.Symp.ValidCode` (commutation, pairing, counts, rank n−k via
  explicit destabiliser witnesses, logical independence).  Every hypothesis of the constructor
  `valid_of_destab` is decidable and is evaluated by the kernel.
-/
import QecVerif.Model.Basic
import QecVerif.Lemmas.Symplectic
namespace Qec.C07.Basic
open Qec Qec.Symp Qec.Basic

/-- destabilisers of the five-qubit generators: `bsp S[i] D[j] = (i = j)` -/
def fiveQubitDestab : List BVec := ["IXIII", "IIIIZ", "IIZII", "XIIII"].map (toBsf ∘ ps)

/-- destabilisers of the Steane generators -/
def steaneDestab : List BVec :=
  ["IIIZIII", "IZIIIII", "ZIIIIII", "IIIXIII", "IXIIIII", "XIIIIII"].map (toBsf ∘ ps)

theorem five_qubit_destab : PairingId fiveQubit.stabilizers fiveQubitDestab 4 := by decide +kernel
theorem steane_destab : PairingId steane.stabilizers steaneDestab 6 := by decide +kernel

/-- n and k agree with the matrix shapes -/
theorem five_qubit_shapes :
    fiveQubit.n = 5 ∧ fiveQubit.k = 1 ∧ fiveQubit.stabilizers.length = fiveQubit.n - fiveQubit.k ∧
    fiveQubit.logicalXs.length = fiveQubit.k ∧ fiveQubit.logicalZs.length = fiveQubit.k ∧
    AllLen (2 * fiveQubit.n) (fiveQubit.stabilizers ++ fiveQubit.logicalXs ++ fiveQubit.logicalZs) := by
  decide +kernel

theorem steane_shapes :
    steane.n = 7 ∧ steane.k = 1 ∧ steane.stabilizers.length = steane.n - steane.k ∧
    steane.logicalXs.length = steane.k ∧ steane.logicalZs.length = steane.k ∧
    AllLen (2 * steane.n) (steane.stabilizers ++ steane.logicalXs ++ steane.logicalZs) := by
  decide +kernel

/-- **the five-qubit code is a valid [[5,1]] stabilizer code** -/
theorem five_qubit_valid :
    ValidCode fiveQubit.n fiveQubit.k fiveQubit.stabilizers fiveQubit.logicalXs fiveQubit.logicalZs :=
  valid_of_destab 5 1 _ _ _ fiveQubitDestab (by decide +kernel) (by decide +kernel) (by decide +kernel)
    (by decide +kernel) (by decide +kernel) (by decide +kernel) (by decide +kernel) (by decide +kernel)
    (by decide +kernel) (by decide +kernel) (by decide +kernel) (by decide +kernel) five_qubit_destab

/-- **the Steane code is a valid [[7,1]] stabilizer code** -/
theorem steane_valid :
    ValidCode steane.n steane.k steane.stabilizers steane.logicalXs steane.logicalZs :=
  valid_of_destab 7 1 _ _ _ steaneDestab (by decide +kernel) (by decide +kernel) (by decide +kernel)
    (by decide +kernel) (by decide +kernel) (by decide +kernel) (by decide +kernel) (by decide +kernel)
    (by decide +kernel) (by decide +kernel) (by decide +kernel) (by decide +kernel) steane_destab

/-- the `bsp`-based commutation used above agrees with the independent Pauli-string commutation table
    on the published operators (sanity link to `Model/Pauli.lean`'s ground truth) -/
theorem steane_commutation_table_agrees :
    let ops := ["IIIXXXX", "IXXIIXX", "XIXIXIX", "IIIZZZZ", "IZZIIZZ", "ZIZIZIZ", "XXXXXXX", "ZZZZZZZ"].map ps
    ∀ p ∈ ops, ∀ q ∈ ops, bsp (toBsf p) (toBsf q) = antiStr p q := by decide +kernel

theorem five_qubit_commutation_table_agrees :
    let ops := ["XZZXI", "IXZZX", "XIXZZ", "ZXIXZ", "XXXXX", "ZZZZZ"].map ps
    ∀ p ∈ ops, ∀ q ∈ ops, bsp (toBsf p) (toBsf q) = antiStr p q := by decide +kernel

end Qec.C07.Basic
