/-
  C07 (rotated planar family) — `RotatedPlanarCode(R, C)` is a valid [[R·C, 1]] stabilizer code for ALL R, C ≥ 3
  (odd and even, square or not).  Theorems about `Model/Lattice/RotatedPlanar.lean`; "valid code" is
  `Qec.Symp.ValidCode` (Lemmas/Symplectic.lean): commutation, pairing, shapes, rank n−k (independence by
  destabiliser witnesses — the straight run of sites from a Z-plaquette to the left boundary / from an X-plaquette
  to the bottom boundary, i.e. exactly the runs of the MPS decoders' `sample_recovery`), logical independence.
  The parity dependent `is_in_plaquette_bounds` is first brought into closed form (`plaquette_bounds_closed_form`):
  Z-plaquettes fill `[0, C−2] × [−1, R−1]`, X-plaquettes `[−1, C−1] × [0, R−2]`.
-/
import QecVerif.Model.Lattice.RotatedPlanar
import QecVerif.Lemmas.Symplectic
import QecVerif.Lemmas.Lattice.RotatedPlanarCode
namespace Qec.C07.RotatedPlanar
open Qec Qec.RotatedPlanar Qec.Symp Qec.RotatedPlanarCode

/-- number of physical qubits as a natural number -/
abbrev n (R C : Int) : Nat := (nQubits R C).toNat

/-- **flat_bijective**: `n_k_d` reports n = R·C, k = 1, and `flatten` is a bijection from the in-bounds site
    indices onto `[0, n)` -/
theorem flat_bijective (R C : Int) (_hR : 3 ≤ R) (hC : 3 ≤ C) :
    (nkd R C).1 = R * C ∧ (nkd R C).2.1 = 1 ∧
    (∀ x y, inSiteBounds R C x y = true → 0 ≤ flatten R C x y ∧ flatten R C x y < nQubits R C) ∧
    (∀ x y x' y', inSiteBounds R C x y = true → inSiteBounds R C x' y' = true →
      flatten R C x y = flatten R C x' y' → x = x' ∧ y = y') ∧
    (∀ i, 0 ≤ i → i < nQubits R C → ∃ x y, inSiteBounds R C x y = true ∧ flatten R C x y = i) := by
  refine ⟨rfl, rfl, ?_, ?_, ?_⟩
  · intro x y hb
    exact flatten_lt R C x y ((inSiteBounds_iff R C x y).mp hb)
  · intro x y x' y' hb hb' h
    exact flatten_inj R C x y x' y' ((inSiteBounds_iff R C x y).mp hb) ((inSiteBounds_iff R C x' y').mp hb') h
  · intro i h0 h1
    rcases flatten_surj R C hC i h0 h1 with ⟨x, y, hs, hf⟩
    exact ⟨x, y, (inSiteBounds_iff R C x y).mpr hs, hf⟩

/-- the code's parity dependent `is_in_plaquette_bounds` in closed form (for every R, C and every index):
    a Z-type index is in bounds iff it lies in `[0, C−2] × [−1, R−1]`, an X-type index iff it lies in
    `[−1, C−1] × [0, R−2]` -/
theorem plaquette_bounds_closed_form (R C x y : Int) :
    inPlaquetteBounds R C x y = true ↔
      ((x - y) % 2 = 0 ∧ 0 ≤ x ∧ x ≤ C - 2 ∧ -1 ≤ y ∧ y ≤ R - 1) ∨
      ((x - y) % 2 = 1 ∧ -1 ≤ x ∧ x ≤ C - 1 ∧ 0 ≤ y ∧ y ≤ R - 2) :=
  inPlaquetteBounds_iff R C x y

/-- the code's plaquette index list is exactly the in-bounds plaquettes, each once, and the stabilizer
    matrix has one row per entry: Z (Z-plaquette) / X (X-plaquette) on the four corner sites, of which the
    out-of-lattice ones are skipped (weight-2 boundary plaquettes) -/
theorem plaquette_indices_spec (R C : Int) :
    (plaquetteIndices R C).Nodup ∧
    (∀ p, p ∈ plaquetteIndices R C ↔ inPlaquetteBounds R C p.1 p.2 = true) ∧
    stabilizers R C = (plaquetteIndices R C).map fun p =>
      sites R C (if isZPlaquette p.1 p.2 then P1.Z else P1.X) (identity R C) (plaquetteSites p.1 p.2) := by
  refine ⟨plaquetteIndices_nodup R C, ?_, stabilizers_eq_map R C⟩
  intro p
  rw [mem_plaquetteIndices, inPlaquetteBounds_iff]

/-- **stabilizer_count**: the stabilizer matrix has n − k = n − 1 rows, and every row (and each logical) has
    length 2n -/
theorem stabilizer_count (R C : Int) (hR : 3 ≤ R) (hC : 3 ≤ C) :
    (stabilizers R C).length + 1 = n R C ∧ AllLen (2 * n R C) (stabilizers R C) ∧
    (logicalX R C).length = 2 * n R C ∧ (logicalZ R C).length = 2 * n R C := by
  refine ⟨?_, ?_, ?_, ?_⟩
  · have h := plaquetteIndices_length R C hR hC
    have hp := nQubits_pos R C hR hC
    rw [stabilizers_eq_map, List.length_map]
    unfold n; omega
  · intro s hs
    rw [stabilizers_eq_map] at hs
    rcases List.mem_map.mp hs with ⟨p, _, rfl⟩
    exact stabOp_length R C p
  · rw [logicalX_eq]; exact siteop_length R C _ _
  · rw [logicalZ_eq]; exact siteop_length R C _ _

/-- **stabilizers_commute** -/
theorem stabilizers_commute (R C : Int) (_hR : 3 ≤ R) (_hC : 3 ≤ C) :
    CommAll (stabilizers R C) (stabilizers R C) := by
  intro s hs t ht
  rw [stabilizers_eq_map] at hs ht
  rcases List.mem_map.mp hs with ⟨p, hp, rfl⟩
  rcases List.mem_map.mp ht with ⟨q, hq, rfl⟩
  exact bsp_stab_stab R C p q ((mem_plaquetteIndices R C p).mp hp) ((mem_plaquetteIndices R C q).mp hq)

/-- **stabilizers_commute_logicals** -/
theorem stabilizers_commute_logicals (R C : Int) (hR : 3 ≤ R) (hC : 3 ≤ C) :
    CommAll (stabilizers R C) [logicalX R C] ∧ CommAll (stabilizers R C) [logicalZ R C] := by
  constructor
  · intro s hs l hl
    rw [stabilizers_eq_map] at hs
    rcases List.mem_map.mp hs with ⟨p, hp, rfl⟩
    rw [List.mem_singleton.mp hl]
    exact bsp_stab_logicalX R C hR hC p ((mem_plaquetteIndices R C p).mp hp)
  · intro s hs l hl
    rw [stabilizers_eq_map] at hs
    rcases List.mem_map.mp hs with ⟨p, hp, rfl⟩
    rw [List.mem_singleton.mp hl]
    exact bsp_stab_logicalZ R C hR hC p ((mem_plaquetteIndices R C p).mp hp)

/-- **logical_pairing**: X̄ anticommutes with Z̄ (in either order); each commutes with itself -/
theorem logical_pairing (R C : Int) (hR : 3 ≤ R) (hC : 3 ≤ C) :
    bsp (logicalX R C) (logicalZ R C) = true ∧ bsp (logicalZ R C) (logicalX R C) = true ∧
    bsp (logicalX R C) (logicalX R C) = false ∧ bsp (logicalZ R C) (logicalZ R C) = false := by
  refine ⟨bsp_logicalX_logicalZ R C hR hC, ?_, bsp_logicalX_logicalX R C, bsp_logicalZ_logicalZ R C⟩
  rw [logicalX_eq, logicalZ_eq, bsp_flip, ← logicalX_eq, ← logicalZ_eq]
  exact bsp_logicalX_logicalZ R C hR hC

/-- destabiliser witnesses: the operator on the straight run of sites from plaquette `q` to the left
    (Z-plaquette: X on `(0..x, max(0,y))`) / bottom (X-plaquette: Z on `(max(0,x), 0..y)`) boundary anticommutes
    with the generator of `p` iff `p = q` -/
theorem destabiliser_witness (R C : Int) (hR : 3 ≤ R) (hC : 3 ≤ C) (p q : Int × Int)
    (hp : p ∈ plaquetteIndices R C) (hq : q ∈ plaquetteIndices R C) :
    bsp (stabOp R C p) (destabOp R C q) = decide (p = q) :=
  bsp_stab_destab R C hR hC p q ((mem_plaquetteIndices R C p).mp hp) ((mem_plaquetteIndices R C q).mp hq)

/-- the destabiliser runs are the runs of the decoder model's `sample_recovery` (`Model/Decoders.lean`), and each
    has the syndrome that is set exactly at its own plaquette (the run-to-boundary lemma C02 relies on) -/
theorem sample_run_destabiliser (R C : Int) (hR : 3 ≤ R) (hC : 3 ≤ C) (p : Int × Int)
    (hp : p ∈ plaquetteIndices R C) :
    Qec.Dec.rpRunApply R C (identity R C) p = destabOp R C p ∧
    synd (stabilizers R C) (Qec.Dec.rpRunApply R C (identity R C) p) =
      (plaquetteIndices R C).map fun q => decide (q = p) :=
  ⟨rpRunApply_eq_destabOp R C p, sample_run_syndrome R C hR hC p hp⟩

/-- the n − 1 generators are linearly independent -/
theorem stabilizers_independent (R C : Int) (hR : 3 ≤ R) (hC : 3 ≤ C) :
    Independent (2 * n R C) (stabilizers R C) := by
  rw [stabilizers_eq_map]
  exact independent_of_destab (2 * n R C) (plaquetteIndices R C) (stabOp R C) (destabOp R C)
    (plaquetteIndices_nodup R C) (fun p _ => stabOp_length R C p)
    (fun p hp q hq => destabiliser_witness R C hR hC p q hp hq)

/-- **rank_eq**: the stabilizer matrix has GF(2) rank n − k = n − 1 -/
theorem rank_eq (R C : Int) (hR : 3 ≤ R) (hC : 3 ≤ C) :
    HasRank (2 * n R C) (stabilizers R C) (n R C - 1) := by
  have hc := stabilizer_count R C hR hC
  exact ⟨stabilizers R C, List.Sublist.refl _, by omega, stabilizers_independent R C hR hC,
    fun s hs => inSpan_mem _ _ hc.2.1 s hs⟩

/-- **rotated_planar_valid**: for all R, C ≥ 3 the rotated planar code is a valid [[R·C, 1]] stabilizer code -/
theorem rotated_planar_valid (R C : Int) (hR : 3 ≤ R) (hC : 3 ≤ C) :
    ValidCode (n R C) 1 (stabilizers R C) [logicalX R C] [logicalZ R C] := by
  have hc := stabilizer_count R C hR hC
  have hl := stabilizers_commute_logicals R C hR hC
  have hp := logical_pairing R C hR hC
  refine valid_of_sub (n R C) 1 _ _ _ (stabilizers R C) hc.2.1 ?_ ?_ (stabilizers_commute R C hR hC) hl.1 hl.2
    ?_ ?_ ?_ rfl rfl (List.Sublist.refl _) hc.1 (stabilizers_independent R C hR hC)
    (fun s hs => inSpan_mem _ _ hc.2.1 s hs)
  · intro l hl; rw [List.mem_singleton.mp hl]; exact hc.2.2.1
  · intro l hl; rw [List.mem_singleton.mp hl]; exact hc.2.2.2
  · intro i hi j hj
    have hi0 : i = 0 := by omega
    have hj0 : j = 0 := by omega
    subst hi0; subst hj0
    simpa using hp.1
  · intro a ha b hb
    rw [List.mem_singleton.mp ha, List.mem_singleton.mp hb]; exact hp.2.2.1
  · intro a ha b hb
    rw [List.mem_singleton.mp ha, List.mem_singleton.mp hb]; exact hp.2.2.2

/-- **ctor_domain**: the constructor accepts exactly pairs of index-like values (int / numpy int / bool) that
    are both ≥ 3 and returns them; a non-index `rows`, or an acceptable `rows` with a non-index `columns`,
    raises TypeError; otherwise (an index below 3, which includes every bool) ValueError -/
theorem ctor_domain (rows cols : PyVal) :
    (∀ r c, ctor rows cols = .ok (r, c) ↔ rows.index? = some r ∧ cols.index? = some c ∧ 3 ≤ r ∧ 3 ≤ c) ∧
    (ctor rows cols = .error .type ↔
      rows.index? = none ∨ (∃ r, rows.index? = some r ∧ 3 ≤ r ∧ cols.index? = none)) ∧
    (ctor rows cols = .error .value ↔
      ∃ r, rows.index? = some r ∧ (r < 3 ∨ ∃ c, cols.index? = some c ∧ c < 3)) := by
  unfold ctor
  cases hr : rows.index? with
  | none => simp
  | some r =>
    by_cases h2 : r < 3
    · simp only [h2, if_true]
      refine ⟨?_, ?_, ?_⟩
      · intro r' c'; simp; omega
      · simp; omega
      · simp [h2]
    · simp only [h2, if_false]
      cases hc : cols.index? with
      | none => simp; omega
      | some c =>
        by_cases h3 : c < 3
        · simp only [h3, if_true]
          refine ⟨?_, ?_, ?_⟩
          · intro r' c'; simp; omega
          · simp
          · simp [h3]
        · simp only [h3, if_false]
          refine ⟨?_, ?_, ?_⟩
          · intro r' c'; simp; omega
          · simp
          · simp; omega

/-- bools are indices with value < 3, floats / str / None are not indices -/
theorem ctor_domain_kinds (v w : PyVal) (b : Bool) (num : Int) (den : Nat) :
    ctor (.bool b) w = .error .value ∧ ctor (.float num den) w = .error .type ∧ ctor .str w = .error .type ∧
    ctor .pynone w = .error .type ∧
    ctor (.int 3) (.bool b) = .error .value ∧ ctor (.int 3) (.float num den) = .error .type ∧
    ctor (.int 3) .str = .error .type ∧ ctor (.int 3) .pynone = .error .type ∧
    (v.index? = none → ctor v w = .error .type) := by
  refine ⟨?_, rfl, rfl, rfl, ?_, rfl, rfl, rfl, ?_⟩
  · cases b <;> rfl
  · cases b <;> rfl
  · intro h; simp [ctor, h]

/-- **site_plaquette_agree**: read-back through the index bijection (`operatorAt` = `'IXZY'[xs[f] + 2·zs[f]]` at
    the flat index `f`, the real `operator()`).
    (1) `site(op, xy)` on the identity puts exactly `op` at `xy` and nothing elsewhere, and is a no-op out of bounds;
    (2) `plaquette(p)` is a no-op (never an error) out of plaquette bounds and otherwise yields the operator that
        reads Z (Z-plaquette) / X (X-plaquette) exactly on the in-lattice corner sites of `p`;
    (3) row `i` of the stabilizer matrix is `plaquette` of the `i`-th plaquette index. -/
theorem site_plaquette_agree (R C : Int) :
    (∀ (op : P1) (xy s : Int × Int), inSiteBounds R C xy.1 xy.2 = true → inSiteBounds R C s.1 s.2 = true →
        operatorAt R C (site R C op (identity R C) xy) s.1 s.2 = if xy = s then op else P1.I) ∧
    (∀ (op : P1) (v : BVec) (xy : Int × Int), inSiteBounds R C xy.1 xy.2 = false → site R C op v xy = v) ∧
    (∀ (x y : Int) (v : BVec), inPlaquetteBounds R C x y = false → plaquette R C v x y = v) ∧
    (∀ (x y : Int), inPlaquetteBounds R C x y = true →
        ∀ s : Int × Int, inSiteBounds R C s.1 s.2 = true →
          operatorAt R C (plaquette R C (identity R C) x y) s.1 s.2 =
            if (s.1 = x ∨ s.1 = x + 1) ∧ (s.2 = y ∨ s.2 = y + 1)
            then (if isZPlaquette x y then P1.Z else P1.X) else P1.I) ∧
    (stabilizers R C = (plaquetteIndices R C).map fun p => plaquette R C (identity R C) p.1 p.2) := by
  refine ⟨?_, ?_, ?_, ?_, rfl⟩
  · intro op xy s b1 b2
    exact operatorAt_site R C op xy s b1 b2
  · intro op v xy hb
    simp [site, hb]
  · intro x y v h
    simp [plaquette, h]
  · intro x y h s b2
    have e : plaquette R C (identity R C) x y = stabOp R C (x, y) :=
      plaquette_eq_stabOp R C (x, y) ((inPlaquetteBounds_iff R C x y).mp h)
    rw [e]
    have := operatorAt_siteop R C (isZPlaquette x y) (plaquetteSites x y) s b2
    rw [show s = (s.1, s.2) from rfl, occ_plaq] at this
    simp only [opOf] at this
    simp only [decide_eq_true_eq] at this
    exact this

/-! non-vacuity: the hypotheses are satisfiable and the objects non-trivial on concrete sizes -/
example : ValidCode 9 1 (stabilizers 3 3) [logicalX 3 3] [logicalZ 3 3] :=
  rotated_planar_valid 3 3 (by decide) (by decide)
example : (stabilizers 3 3).length = 8 ∧ n 3 3 = 9 ∧ (stabilizers 4 5).length + 1 = n 4 5 ∧ n 4 5 = 20 ∧
    (stabilizers 5 4).length = 19 ∧ (stabilizers 4 4).length = 15 := by
  decide +kernel
example : PairingId (stabilizers 4 5) ((plaquetteIndices 4 5).map (destabOp 4 5)) 19 := by decide +kernel
example : PairingId (stabilizers 5 4) ((plaquetteIndices 5 4).map (destabOp 5 4)) 19 := by decide +kernel
example : bsp (logicalX 3 6) (logicalZ 3 6) = true ∧ CommAll (stabilizers 3 6) [logicalX 3 6, logicalZ 3 6] ∧
    CommAll (stabilizers 3 6) (stabilizers 3 6) := by
  decide +kernel
example : plaquetteIndices 3 3 = [(1, -1), (0, 0), (1, 1), (0, 2), (-1, 0), (1, 0), (0, 1), (2, 1)] := by
  decide +kernel
example : ctor (.int 3) (.int 7) = .ok (3, 7) ∧ ctor (.bool true) (.int 7) = .error .value ∧
    ctor (.int 2) .str = .error .value ∧ ctor (.int 3) .str = .error .type ∧
    ctor (.int 3) (.int 2) = .error .value := by decide

end Qec.C07.RotatedPlanar
