/-
  C03 — Fault-tolerant decoding returns to the code space under measurement noise.

  Theorems about `Model/Ftp.lean` (+ `Model/RunOnce.lean`, the model of `qecsim.app._run_once`):
  the run-level algebra (what the target syndrome is), the characterisation of the syndrome arrays the simulation can
  hand to a fault-tolerant decoder, the result-constructor logic of `RotatedToricSMWPMDecoder.decode_ftp`
  (`_tparity`, `_measurement_error_tparities`, the `itp` / `time_steps == 1` branch, `DecodeResult(success, recovery,
  custom_values)`), the composition `recovery = identity ⊕ symmetry stage ⊕ cluster stage` of both decoders, and the
  soundness of the monitor that the harness evaluates on every real decoder output.

  NOT MODELLED IN THIS FILE: the matching-graph construction, the minimum-weight perfect matching (`gt.mwpm`) and the
  clustering of matches inside the two SMWPM decoders.  Here the full property

    STATED, NOT PROVED (in this file):
      for every reachable `rows`, `ftpOk S rows (decode_ftp code T rows …).recovery = true`
      for `RotatedPlanarSMWPMDecoder` and `RotatedToricSMWPMDecoder`

  is reduced (`compose_toric_ok_iff`, `compose_planar_ok_iff`) to the statement that the cluster stage neutralises the
  residual cluster syndrome left by the symmetry stage.

  AUDIT (status of the item above): NOW PROVED, elsewhere.  The graph construction and the clustering are modelled in
  Model/Smwpm.lean (matchings as parameters; `gt.mwpm` itself stays outside, C13) and
  * Props/C03/Smwpm.lean `ftp_rotated_planar_returns_to_codespace`, `ftp_rotated_toric_returns_to_codespace`,
    `ideal_rotated_planar_returns_to_codespace`, `ideal_rotated_toric_returns_to_codespace` prove `ftpOk` (and
    "recovery ⊕ total error commutes with every stabilizer") for all sizes, all `T ≥ 1`, all step errors and flip
    patterns, for ANY perfect matchings of the modelled graphs (`matchingsOk`);
  * such matchings exist for every `Ftp.reachable` array, and every maximum-cardinality choice succeeds:
    Props/C02/SmwpmExists.lean `smwpm_planar_never_fails` (finite bias, `p ≠ 0`: every array),
    Props/C02/SmwpmExists2.lean `smwpm_toric_never_fails_finite_bias`, `smwpm_*_never_fails_infinite_bias` (Y-only
    support), `smwpm_*_never_fails_p_zero`, `smwpm_*_max_cardinality_*`; the toric `assert` never fires:
    Props/C02/SmwpmEven.lean `smwpm_toric_assert_never_fires_reachable`;
  * the second sentence of C03 (two time parities, all-zero unless a time-like failure is declared, never for one
    step) as a function of the matchings: Props/C03/TParity.lean.
  Genuinely open: only "`gt.mwpm` returns a maximum-cardinality matching" (C13's statement, a hypothesis there).
-/
import QecVerif.Model.Ftp
import QecVerif.Lemmas.Ftp
import QecVerif.Props.C01
namespace Qec.C03
open Qec Qec.Ftp

/-! ## the target: the syndrome of the total error is the XOR of all rows -/

/-- **C01's `syndrome_rows_xor`, in the form C03 uses**: for every `T`, all step errors and every flip pattern on
    the periodic time axis, (1) the XOR of the rows handed to the decoder is the syndrome of the total error, hence
    (2) the checkable monitor `synd S r = xorAll rows` says exactly that the recovery has the syndrome of the total
    error, which (3) is the same as `recovery ⊕ error` commuting with every stabilizer. -/
theorem target_is_rows_xor (n : Nat) (S es meas : List BVec) (r : BVec)
    (hT : 1 ≤ es.length) (hm : meas.length = es.length) (hml : ∀ m ∈ meas, m.length = S.length)
    (hS : ∀ s ∈ S, s.length = 2 * n) (hE : ∀ e ∈ es, e.length = 2 * n) (hr : r.length = 2 * n) :
    xorAll S.length (syndromeRows S es meas) = synd S (xorAll (2 * n) es) ∧
    (ftpOk S (syndromeRows S es meas) r = true ↔ synd S r = synd S (xorAll (2 * n) es)) ∧
    (ftpOk S (syndromeRows S es meas) r = true ↔ ∀ s ∈ S, bsp (xorV r (xorAll (2 * n) es)) s = false) := by
  have h1 := C01.syndrome_rows_xor n S es meas hT hm hml hS hE
  have he : (xorAll (2 * n) es).length = 2 * n := xorAll_length _ _ hE
  refine ⟨h1, ?_, ?_⟩
  · unfold ftpOk; rw [recoveryOk_iff, h1]
  · unfold ftpOk
    rw [recoveryOk_iff, h1, ← codespace_iff n S r _ hr he hS, isZero_synd_iff]

/-! ## which arrays can reach a decoder -/

/-- **`0 < q < 1`**: an array can be produced by the simulation (for some step errors in the support of the error
    model and some flips) iff it has `T` rows of the right length whose XOR is the syndrome of an error in the
    support.  The support is any set containing the identity and closed under XOR (all Paulis; Y-only; identity
    only for `p = 0`). -/
theorem reachable_iff_mid (n : Nat) (S : List BVec) (supp : BVec → Prop) (T : Nat) (rows : List BVec)
    (hT : 1 ≤ T) (hS : ∀ s ∈ S, s.length = 2 * n)
    (h0 : supp (zeros (2 * n))) (hx : ∀ a b, supp a → supp b → supp (xorV a b))
    (hl : ∀ e, supp e → e.length = 2 * n) :
    reachable n S supp .mid T rows ↔
      rows.length = T ∧ (∀ r ∈ rows, r.length = S.length) ∧
        ∃ e, supp e ∧ synd S e = xorAll S.length rows := by
  constructor
  · rintro ⟨es, script, hel, hsl, hes, hsc, rfl⟩
    have hsyn : (decoderInput n S es script (QClass.mid != QClass.zero)).syndrome = syndromeRows S es script := by
      simp [decoderInput, usedMeas]
    rw [hsyn]
    have hE : ∀ e ∈ es, e.length = 2 * n := fun e he => hl e (hes e he)
    refine ⟨by rw [syndromeRows_length, hel], ?_, xorAll (2 * n) es, supp_xorAll _ supp h0 hx es hes, ?_⟩
    · exact syndromeRows_mem_length S es script (by rw [hsl, hel]) hsc
    · exact (syndromeRows_xorAll n S es script (by rw [hsl, hel]) hsc hS hE).symm
  · rintro ⟨hrl, hrows, e, he, hsyn⟩
    have hel := hl e he
    refine ⟨witnessErrors n T e, witnessMeas S (witnessErrors n T e) rows, witnessErrors_length n T e hT, ?_, ?_, ?_, ?_⟩
    · rw [witnessMeas_length, witnessErrors_length n T e hT]
    · intro x hx'
      rcases witnessErrors_mem n T e x hx' with rfl | rfl
      · exact he
      · exact h0
    · exact witnessMeas_mem_length S _ rows (by rw [hrl, witnessErrors_length n T e hT]) hrows
    · have hsyn' : (decoderInput n S (witnessErrors n T e) (witnessMeas S (witnessErrors n T e) rows)
          (QClass.mid != QClass.zero)).syndrome =
          syndromeRows S (witnessErrors n T e) (witnessMeas S (witnessErrors n T e) rows) := by
        simp [decoderInput, usedMeas]
      rw [hsyn']
      symm
      apply witness_rows n S _ rows (by rw [hrl, witnessErrors_length n T e hT]) hrows hS
      · intro x hx'
        rcases witnessErrors_mem n T e x hx' with rfl | rfl
        · exact hel
        · exact zeros_length _
      · rw [witnessErrors_xorAll n T e hel, hsyn]

/-- **`q = 0`** (the rng is never asked, all flips are 0): reachable iff every row individually is the syndrome of
    an error in the support -/
theorem reachable_iff_zero (n : Nat) (S : List BVec) (supp : BVec → Prop) (T : Nat) (rows : List BVec) :
    reachable n S supp .zero T rows ↔ rows.length = T ∧ ∀ r ∈ rows, ∃ e, supp e ∧ synd S e = r := by
  rw [← reachable_const_iff S supp T (zeros S.length) (zeros_length _) rows]
  constructor
  · rintro ⟨es, script, hel, _, hes, _, h⟩
    refine ⟨es, hel, hes, ?_⟩
    rw [h]; simp [decoderInput, usedMeas]
  · rintro ⟨es, hel, hes, h⟩
    refine ⟨es, List.replicate T [], hel, by simp, hes, trivial, ?_⟩
    rw [h]; simp [decoderInput, usedMeas]

/-- **`q = 1`** (every flip is set): each flip still enters two rows (or one row twice), so the flips cancel row by
    row and the reachable arrays are those of `q = 0` -/
theorem reachable_iff_one (n : Nat) (S : List BVec) (supp : BVec → Prop) (T : Nat) (rows : List BVec) :
    reachable n S supp .one T rows ↔ rows.length = T ∧ ∀ r ∈ rows, ∃ e, supp e ∧ synd S e = r := by
  rw [← reachable_const_iff S supp T (ones S.length) (ones_length _) rows]
  constructor
  · rintro ⟨es, script, hel, hsl, hes, hsc, h⟩
    refine ⟨es, hel, hes, ?_⟩
    have : script = List.replicate es.length (ones S.length) := by
      rw [List.eq_replicate_iff]; exact ⟨by rw [hsl, hel], hsc⟩
    rw [h, this]; simp [decoderInput, usedMeas]
  · rintro ⟨es, hel, hes, h⟩
    refine ⟨es, List.replicate es.length (ones S.length), hel, by simp [hel], hes, ?_, ?_⟩
    · intro v hv; exact (List.mem_replicate.mp hv).2
    · rw [h]; simp [decoderInput, usedMeas]

/-- **the executable witness is correct**: whenever the XOR of the rows is the syndrome of `e`, running the model of
    `_run_once` on the step errors `witnessErrors` and the flips `witnessMeas` hands exactly `rows` to the decoder
    (this is what the harness replays through the real `run_once_ftp`) -/
theorem witness_correct (n : Nat) (S : List BVec) (T : Nat) (rows : List BVec) (e : BVec)
    (hT : 1 ≤ T) (hS : ∀ s ∈ S, s.length = 2 * n) (hrl : rows.length = T) (hrows : ∀ r ∈ rows, r.length = S.length)
    (he : e.length = 2 * n) (hsyn : synd S e = xorAll S.length rows) :
    (decoderInput n S (witnessErrors n T e) (witnessMeas S (witnessErrors n T e) rows) true).syndrome = rows := by
  have : (decoderInput n S (witnessErrors n T e) (witnessMeas S (witnessErrors n T e) rows) true).syndrome =
      syndromeRows S (witnessErrors n T e) (witnessMeas S (witnessErrors n T e) rows) := by
    simp [decoderInput, usedMeas]
  rw [this]
  apply witness_rows n S _ rows (by rw [hrl, witnessErrors_length n T e hT]) hrows hS
  · intro x hx'
    rcases witnessErrors_mem n T e x hx' with rfl | rfl
    · exact he
    · exact zeros_length _
  · rw [witnessErrors_xorAll n T e he, hsyn]

/-! ## the time-parity decision `_tparity` -/

/-- **`tparity_spec`**: for `T ≥ 1`, with `a`, `b` reduced modulo `T`, the result is 0 iff the path inside the bulk is
    not longer than the path across the `t = T−1 / t = 0` boundary, `|b − a| ≤ T − |b − a|`; otherwise 1.  A tie
    (`2·|b − a| = T`) resolves to 0, as the code does. -/
theorem tparity_spec (T a b : Int) (hT : 1 ≤ T) :
    tparity T a b = some (if iabs (b % T - a % T) ≤ T - iabs (b % T - a % T) then 0 else 1) ∧
    (tparity T a b = some 0 ↔ 2 * iabs (b % T - a % T) ≤ T) ∧
    (tparity T a b = some 1 ↔ T < 2 * iabs (b % T - a % T)) ∧
    (2 * iabs (b % T - a % T) = T → tparity T a b = some 0) := by
  have h := tparity_pos T a b (by omega)
  refine ⟨h, ?_, ?_, ?_⟩ <;> rw [h] <;> split <;> simp <;> omega

/-- the time axis is periodic and the parity does not depend on the direction -/
theorem tparity_periodic_symm (T a b k : Int) (hT : 1 ≤ T) :
    tparity T (a + k * T) b = tparity T a b ∧ tparity T a (b + k * T) = tparity T a b ∧
    tparity T a b = tparity T b a := by
  have hp : 0 < T := by omega
  refine ⟨?_, ?_, ?_⟩
  · rw [tparity_pos _ _ _ hp, tparity_pos _ _ _ hp, Int.add_mul_emod_self_right]
  · rw [tparity_pos _ _ _ hp, tparity_pos _ _ _ hp, Int.add_mul_emod_self_right]
  · rw [tparity_pos _ _ _ hp, tparity_pos _ _ _ hp, iabs_symm]

/-- with a single time step nothing can cross the time boundary; and `time_steps = 0` (never passed by the
    simulation) is the only way to make `_tparity` raise -/
theorem tparity_single_step (a b : Int) : tparity 1 a b = some 0 ∧ (∀ T, tparity T a b = none ↔ T = 0) := by
  constructor
  · rw [tparity_pos 1 a b (by omega)]; simp [Int.emod_one, iabs]
  · intro T
    unfold tparity
    by_cases h : T = 0
    · simp [h]
    · rw [if_neg h]; simp only [h, iff_false]; split <;> simp

/-! ## `_measurement_error_tparities` -/

/-- the two values are the parities of the number of flipped X-plaquette and Z-plaquette measurements (the code
    computes the second one as `(len(indices) − x_tparity) % 2`) -/
theorem measurement_tparities_spec (R C : Int) (m : BVec) :
    (measurementTparities R C m).1 =
      ((RotatedToric.syndromeToPlaquettes R C m).filter fun i => RotatedToric.isXPlaquette i.1 i.2).length % 2 ∧
    (measurementTparities R C m).2 =
      ((RotatedToric.syndromeToPlaquettes R C m).filter fun i => RotatedToric.isZPlaquette i.1 i.2).length % 2 ∧
    (measurementTparities R C m).1 ≤ 1 ∧ (measurementTparities R C m).2 ≤ 1 := by
  have hp := filter_partition (fun i : Int × Int => RotatedToric.isXPlaquette i.1 i.2)
    (RotatedToric.syndromeToPlaquettes R C m)
  beta_reduce at hp
  refine ⟨rfl, ?_, ?_, ?_⟩
  all_goals (simp only [measurementTparities, RotatedToric.isZPlaquette]; omega)

/-! ## the result constructor -/

/-- **`finalize_spec`**: whenever `decode_ftp` returns, the recovery is passed on unchanged, there are exactly two
    custom values, they are non-zero iff `success = False` (a declared time-like failure), `success` is never
    `True`, and for bit-valued stage parities the custom values are bits. -/
theorem finalize_spec (R C : Int) (itp : Bool) (T : Int) (rec : BVec) (rx rz : Nat) (sm : Option (List BVec))
    (res : Result) (h : finalize R C itp T rec rx rz sm = .ok res) :
    res.recovery = rec ∧ res.cv.length = 2 ∧ (res.cv ≠ [0, 0] ↔ res.success = some false) ∧
      (res.success = none ∨ res.success = some false) ∧
      (rx ≤ 1 → rz ≤ 1 → ∀ v ∈ res.cv, v ≤ 1) := by
  obtain ⟨h1, h2, h3, h4⟩ := finalize_shape R C itp T rec rx rz sm res h
  refine ⟨h1, h2, h3, h4, ?_⟩
  intro hrx hrz
  by_cases hs : itp = true ∨ T = 1
  · rw [finalize_skip R C itp T rec rx rz sm hs] at h
    injection h with h; subst h; simp
  · have hitp : itp = false := by cases itp <;> simp_all
    have hT : T ≠ 1 := fun h' => hs (Or.inr h')
    subst hitp
    match sm, h with
    | none, h => simp [finalize, hT] at h
    | some [], h => simp [finalize, hT] at h
    | some (m :: ms), h =>
      rw [finalize_tested R C T rec rx rz m ms hT] at h
      simp only [] at h
      have hb := measurement_tparities_spec R C ((m :: ms).getLast (by simp))
      split at h
      · injection h with h; subst h
        intro v hv
        simp only [List.mem_cons, List.not_mem_nil, or_false] at hv
        rcases hv with rfl | rfl
        · exact xor_le_one _ _ hrx hb.2.2.1
        · exact xor_le_one _ _ hrz hb.2.2.2
      · injection h with h; subst h; simp

/-- **single-step decoding never declares a time-like failure**, and neither does a decoder told to ignore the time
    parity: the result is `(success = None, custom_values = (0, 0))` whatever the stages and the measurement errors
    are (even if `step_measurement_errors` is missing) -/
theorem single_step_never_timelike (R C : Int) (itp : Bool) (T : Int) (rec : BVec) (rx rz : Nat)
    (sm : Option (List BVec)) (h : itp = true ∨ T = 1) :
    finalize R C itp T rec rx rz sm = .ok { success := none, recovery := rec, cv := [0, 0] } :=
  finalize_skip R C itp T rec rx rz sm h

/-- `decode_ftp` raises in its tail only when the time parity has to be tested and no `step_measurement_errors` were
    supplied; the simulation always supplies `T ≥ 1` of them -/
theorem finalize_raises_iff (R C : Int) (itp : Bool) (T : Int) (rec : BVec) (rx rz : Nat) (sm : Option (List BVec)) :
    finalize R C itp T rec rx rz sm = .error .noStepMeas ↔
      itp = false ∧ T ≠ 1 ∧ (sm = none ∨ sm = some []) := by
  by_cases hs : itp = true ∨ T = 1
  · rw [finalize_skip R C itp T rec rx rz sm hs]
    rcases hs with h | h <;> simp [h]
  · have hitp : itp = false := by cases itp <;> simp_all
    have hT : T ≠ 1 := fun h' => hs (Or.inr h')
    subst hitp
    match sm with
    | none => simp [finalize, hT]
    | some [] => simp [finalize, hT]
    | some (m :: ms) =>
      rw [finalize_tested R C T rec rx rz m ms hT]
      simp only []
      split <;> simp [hT]

/-! ## the two stages -/

/-- **rotated toric**: the returned recovery is `identity ⊕ symmetry stage ⊕ cluster stage`, and it has the target
    syndrome iff the cluster stage produces exactly the residual cluster syndrome
    `xorAll rows ⊕ synd S (symmetry stage)` that `decode_ftp` computes between the stages -/
theorem compose_toric_ok_iff (R C : Int) (itp : Bool) (T : Int) (sym clu : Stage) (sm : Option (List BVec))
    (S rows : List BVec) (res : Result)
    (h : composeToric R C itp T sym clu sm = .ok res)
    (hsym : sym.op.length = 2 * (RotatedToric.nQubits R C).toNat)
    (hclu : clu.op.length = 2 * (RotatedToric.nQubits R C).toNat)
    (hS : ∀ s ∈ S, s.length = 2 * (RotatedToric.nQubits R C).toNat) (hrl : ∀ r ∈ rows, r.length = S.length) :
    res.recovery = xorV (xorV (RotatedToric.identity R C) sym.op) clu.op ∧
    (ftpOk S rows res.recovery = true ↔ synd S clu.op = xorV (xorAll S.length rows) (synd S sym.op)) := by
  unfold composeToric at h
  have h1 := (finalize_spec R C itp T _ _ _ sm res h).1
  refine ⟨h1, ?_⟩
  rw [h1]
  exact compose_ok_iff _ S rows sym.op clu.op hsym hclu hS hrl

/-- **rotated planar**: same statement for the bare recovery `identity ⊕ _recovery ⊕ _cluster_recovery` -/
theorem compose_planar_ok_iff (n : Nat) (S rows : List BVec) (sym clu : BVec) (hsym : sym.length = 2 * n)
    (hclu : clu.length = 2 * n) (hS : ∀ s ∈ S, s.length = 2 * n) (hrl : ∀ r ∈ rows, r.length = S.length) :
    ftpOk S rows (composePlanar n sym clu) = true ↔ synd S clu = xorV (xorAll S.length rows) (synd S sym) :=
  compose_ok_iff n S rows sym clu hsym hclu hS hrl

/-- the custom values are bits: with the stage outputs computed from ANY clusters and cluster matches (the
    parameters that the unmodelled matching supplies) by `_recovery_tparities` / `_cluster_recovery_tparities`, every
    entry of `custom_values` is 0 or 1 -/
theorem time_parities_are_bits (R C T : Int) (itp : Bool) (clusters : List (List TIdx))
    (cmatches : List ((TIdx × TIdx) × (TIdx × TIdx))) (sm : Option (List BVec)) (sym clu : Stage) (res : Result)
    (hs : recoveryTparities R C T clusters = some sym) (hc : clusterRecoveryTparities R C T cmatches = some clu)
    (h : composeToric R C itp T sym clu sm = .ok res) : ∀ v ∈ res.cv, v ≤ 1 := by
  have h1 := recoveryTparities_bits R C T clusters sym hs
  have h2 := clusterRecoveryTparities_bits R C T cmatches clu hc
  unfold composeToric at h
  refine (finalize_spec R C itp T _ _ _ sm res h).2.2.2.2 ?_ ?_
  · rw [Nat.zero_xor]; exact xor_le_one _ _ h1.1 h2.1
  · rw [Nat.zero_xor]; exact xor_le_one _ _ h1.2 h2.2

/-! ## the monitor -/

/-- **`recoveryOk_sound`**: for a target `s` that is the syndrome of some error, `synd S r = s` holds iff `r ⊕ e`
    commutes with every stabilizer for EVERY error `e` with syndrome `s` — the check does not depend on which error
    actually happened -/
theorem recoveryOk_sound (n : Nat) (S : List BVec) (r s : BVec) (hr : r.length = 2 * n)
    (hS : ∀ x ∈ S, x.length = 2 * n) (hs : ∃ e0 : BVec, e0.length = 2 * n ∧ synd S e0 = s) :
    (recoveryOk S r s = true ↔ synd S r = s) ∧
    (synd S r = s ↔ ∀ e : BVec, e.length = 2 * n → synd S e = s → ∀ x ∈ S, bsp (xorV r e) x = false) := by
  refine ⟨recoveryOk_iff S r s, ?_⟩
  rw [← recoveryOk_iff, recoveryOk_sound' n S r s hr hS hs]
  simp only [isZero_synd_iff]

/-! ## non-vacuity -/

/-- a 2-stabilizer toy code, T = 3: rows with XOR `11 = synd [1,1,0,0]` are reachable, and the witness reproduces them -/
example : (decoderInput 2 [[true, false, false, true], [false, true, true, false]]
    (witnessErrors 2 3 [true, true, false, false])
    (witnessMeas [[true, false, false, true], [false, true, true, false]] (witnessErrors 2 3 [true, true, false, false])
      [[true, false], [false, false], [false, true]]) true).syndrome = [[true, false], [false, false], [false, true]] := by
  decide
example : tparity 5 0 4 = some 1 ∧ tparity 4 0 2 = some 0 ∧ tparity 6 (-1) 5 = some 0 := by decide
example : finalize 2 2 false 3 [true] 1 0 (some [[false, false, false, false]]) =
    .ok { success := some false, recovery := [true], cv := [1, 0] } := by decide
example : finalize 2 2 false 3 [true] 1 0 (some [[false, false, true, false]]) =
    .ok { success := none, recovery := [true], cv := [0, 0] } := by decide
example : recoveryTparities 2 2 3 [[(0, 0, 0), (2, 1, 0), (2, 1, 1), (0, 0, 1)]] =
    some { op := [false, false, false, true, false, false, true, false], x := 1, z := 1 } := by decide
example : ftpOk [[true, false, false, true], [false, true, true, false]] [[true, false], [false, false], [false, true]]
    [true, true, false, false] = true := by decide

end Qec.C03
