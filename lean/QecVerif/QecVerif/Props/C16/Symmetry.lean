/-
  C16 — symmetry facts behind the two overflow repairs of the error models.

  1. `BiasedYXErrorModel.probability_distribution` (bias h > 1e150) computes
       r_x = _rate_y(1/h, p),  r_y = _rate_x(1/h, p)
     instead of r_x = _rate_x(h, p), r_y = _rate_y(h, p).  Here: the two are the same numbers (X <-> Y symmetry of
     the model under h -> 1/h), over any linearly ordered field with the square root supplied (`YX.rateX`,
     `YX.rateY` of Lemmas/ErrorModels.lean, the closed forms the model `yxRateX`, `yxRateY` unfolds to), over ℝ with
     `Real.sqrt`, and for the code's cancellation-free forms `2p / ((1+p) + h(1-p) + root)`,
     `2hp / ((1-p) + h(1+p) + root)`.  Hence the distribution computed through the symmetric branch equals the one
     of the direct branch, whatever the threshold is.
  2. `CenterSliceErrorModel._normalize` divides by the largest component first when the plain 1-norm is not finite.
     Here: `normalize` is invariant under scaling by any c > 0, hence the two-step normalisation equals the plain one
     for every vector.

  Exact arithmetic only (ℚ / ℝ / ordered field); that the float evaluation of either branch stays within tolerance
  is explored by the harness (harness/qv/props/c16.py), not proved.
  (This file imports Props/C16.lean for `realRateX`, `realRateY`; the checker builds every Props/C16/*.lean module.)
-/
import QecVerif.Model.ErrorModels
import QecVerif.Lemmas.ErrorModels
import QecVerif.Props.C16
import Mathlib.Analysis.Real.Sqrt
import Mathlib.Tactic.NormNum
namespace Qec.C16.Symmetry
open Qec Qec.EM

/-! ### 1. biased Y-X: X <-> Y symmetry under bias -> 1/bias -/

section field
variable {K : Type*} [Field K] [LinearOrder K] [IsStrictOrderedRing K]

/-- if `s` is the non-negative root of the discriminant at bias `h`, then `s / h` is the one at bias `1/h` -/
theorem disc_inv {h p s : K} (hh : 0 < h) (hs0 : 0 ≤ s) (hs : s ^ 2 = YX.disc h p) :
    0 ≤ s / h ∧ (s / h) ^ 2 = YX.disc (1 / h) p := by
  have hne : h ≠ 0 := hh.ne'
  refine ⟨div_nonneg hs0 hh.le, ?_⟩
  rw [div_pow, hs]; unfold YX.disc
  field_simp
  ring

/-- X <-> Y symmetry of the closed forms (any ordered field, root supplied):
    `rateX h p s = rateY (1/h) p (s/h)` and `rateY h p s = rateX (1/h) p (s/h)` -/
theorem byx_rate_symmetry_field {h : K} (p s : K) (hh : 0 < h) :
    YX.rateX h p s = YX.rateY (1 / h) p (s / h) ∧ YX.rateY h p s = YX.rateX (1 / h) p (s / h) := by
  have hne : h ≠ 0 := hh.ne'
  unfold YX.rateX YX.rateY
  constructor
  · field_simp; ring
  · field_simp; ring

/-- the code's cancellation-free `_rate_x` with `r` for `_root(h, p)` -/
def cfRateX (h p r : K) : K := 2 * p / ((1 + p) + h * (1 - p) + r)
/-- the code's cancellation-free `_rate_y` with `r` for `_root(h, p)` -/
def cfRateY (h p r : K) : K := 2 * h * p / ((1 - p) + h * (1 + p) + r)

/-- the cancellation-free forms of the code are the documented closed forms -/
theorem cf_eq_closed {h p s : K} (hh : 0 < h) (hp0 : 0 ≤ p) (hp1 : p ≤ 1) (hs0 : 0 ≤ s)
    (hs : s ^ 2 = YX.disc h p) :
    cfRateX h p s = YX.rateX h p s ∧ cfRateY h p s = YX.rateY h p s := by
  have hne : h ≠ 0 := hh.ne'
  have h1p : 0 ≤ h * (1 - p) := mul_nonneg hh.le (by linarith)
  have hhp : 0 ≤ h * p := mul_nonneg hh.le hp0
  have ha : 0 < (1 + p) + h * (1 - p) + s := by linarith
  have hb : 0 < (1 - p) + h * (1 + p) + s := by nlinarith
  unfold YX.disc at hs
  unfold cfRateX cfRateY YX.rateX YX.rateY
  constructor
  · rw [div_eq_iff ha.ne']
    linear_combination (1 / 2 : K) * hs
  · rw [div_eq_iff hb.ne']
    field_simp
    linear_combination (1 : K) * hs

/-- X <-> Y symmetry of the code's cancellation-free forms (needs no hypothesis on `p`, `r`) -/
theorem cf_rate_symmetry {h : K} (p r : K) (hh : 0 < h) :
    cfRateX h p r = cfRateY (1 / h) p (r / h) ∧ cfRateY h p r = cfRateX (1 / h) p (r / h) := by
  have hne : h ≠ 0 := hh.ne'
  unfold cfRateX cfRateY
  constructor
  · rw [show (1 - p) + 1 / h * (1 + p) + r / h = ((1 + p) + h * (1 - p) + r) / h by field_simp; ring]
    rw [div_div_eq_mul_div]
    congr 1
    field_simp
  · rw [show (1 + p) + 1 / h * (1 - p) + r / h = ((1 - p) + h * (1 + p) + r) / h by field_simp; ring]
    rw [div_div_eq_mul_div]
    congr 1
    ring
end field

/-! #### over ℝ with `Real.sqrt` -/

/-- `realRateX`, `realRateY` of Props/C16.lean are the field closed forms at `s = Real.sqrt disc` -/
theorem realRate_eq (h p : ℝ) :
    realRateX h p = YX.rateX h p (Real.sqrt (YX.disc h p)) ∧
    realRateY h p = YX.rateY h p (Real.sqrt (YX.disc h p)) := ⟨rfl, rfl⟩

/-- `sqrt (disc (1/h) p) = sqrt (disc h p) / h` for h > 0 (no condition on p: both sides are 0 when disc < 0) -/
theorem sqrt_disc_inv {h : ℝ} (p : ℝ) (hh : 0 < h) :
    Real.sqrt (YX.disc (1 / h) p) = Real.sqrt (YX.disc h p) / h := by
  have hne : h ≠ 0 := hh.ne'
  have e : YX.disc (1 / h) p = YX.disc h p / h ^ 2 := by
    unfold YX.disc; field_simp; ring
  rw [e, Real.sqrt_div' _ (sq_nonneg h), Real.sqrt_sq hh.le]

/-- **X <-> Y symmetry of the biased-Y-X rates**: for every real bias h > 0 and every p (in particular 0 ≤ p ≤ 1),
    `_rate_x(h, p) = _rate_y(1/h, p)` and `_rate_y(h, p) = _rate_x(1/h, p)` -/
theorem byx_rate_symmetry {h : ℝ} (p : ℝ) (hh : 0 < h) :
    realRateX h p = realRateY (1 / h) p ∧ realRateY h p = realRateX (1 / h) p := by
  simp only [realRate_eq]
  rw [sqrt_disc_inv p hh]
  exact byx_rate_symmetry_field p _ hh

/-- the same derived from UNIQUENESS (p < 1): the swapped rates of bias 1/h give a non-negative solution of the
    documented equations for bias h, hence are the closed form for bias h -/
theorem byx_rate_symmetry_of_unique {h p : ℝ} (hh : 0 < h) (h0 : 0 ≤ p) (h1 : p < 1) :
    realRateY (1 / h) p = realRateX h p ∧ realRateX (1 / h) p = realRateY h p := by
  have hi : 0 < 1 / h := by positivity
  have hne : h ≠ 0 := hh.ne'
  have hd' : 0 ≤ YX.disc (1 / h) p := YX.disc_nonneg hi.le h0 h1.le
  have hs0' := Real.sqrt_nonneg (YX.disc (1 / h) p)
  have hs' := Real.sq_sqrt hd'
  have x0 := YX.rateX_nonneg hi h0 h1.le hs0' hs'
  have x1 := YX.rateX_le_one hi h0 h1.le hs0' hs'
  have y0 := YX.rateY_nonneg hi h0 h1.le hs0' hs'
  have y1 := YX.rateY_le_one hi h0 h1.le hs0' hs'
  have hsum := YX.rates_sum hi h0 h1.le hs0' hs'
  have hbias := YX.rates_bias hi h0 h1.le hs0' hs'
  set u := YX.rateX (1 / h) p (Real.sqrt (YX.disc (1 / h) p)) with hu
  set v := YX.rateY (1 / h) p (Real.sqrt (YX.disc (1 / h) p)) with hv
  -- candidate for bias h: p_x = v (1 - u), p_y = u (1 - v), p_z = u v
  have key := YX.unique (h := h) (p := p) (s := Real.sqrt (YX.disc h p))
    (px := v * (1 - u)) (py := u * (1 - v)) (pz := u * v) hh h0 h1 (Real.sqrt_nonneg _)
    (Real.sq_sqrt (YX.disc_nonneg hh.le h0 h1.le))
    (mul_nonneg y0 (by linarith)) (mul_nonneg x0 (by linarith)) (mul_nonneg x0 y0)
    (by linarith)
    (by
      have : h * (v * (1 - u)) = h * (1 / h * (u * (1 - v))) := by rw [hbias]
      rw [this]; field_simp)
    (by ring)
  obtain ⟨k1, k2⟩ := key
  simp only [realRate_eq]
  constructor
  · rw [← k1]; ring
  · rw [← k2]; ring

/-- the three error probabilities from the two rates (`p_x, p_y, p_z` of `probability_distribution`) -/
def probs {K : Type*} [Ring K] (rx ry : K) : K × K × K := (rx * (1 - ry), ry * (1 - rx), rx * ry)

/-- the repaired `probability_distribution` over ℝ: bias above the threshold ⇒ rates of the inverse bias, swapped -/
noncomputable def byxBranch (threshold h p : ℝ) : ℝ × ℝ × ℝ :=
  if h > threshold then probs (realRateY (1 / h) p) (realRateX (1 / h) p) else probs (realRateX h p) (realRateY h p)

/-- **the symmetric branch computes the distribution of the direct branch**, for every threshold, bias > 0, p -/
theorem byx_symmetric_branch_eq (threshold : ℝ) {h : ℝ} (p : ℝ) (hh : 0 < h) :
    byxBranch threshold h p = probs (realRateX h p) (realRateY h p) := by
  obtain ⟨e1, e2⟩ := byx_rate_symmetry p hh
  unfold byxBranch
  split
  · rw [← e1, ← e2]
  · rfl

/-- the same for the executable ℚ model (`yxRateX`, `yxRateY`, `ofRates`, root `s` of the discriminant supplied;
    `s / bias` is then the root at bias `1/bias` by `disc_inv`): the symmetric branch gives `biasedYXWith bias p s` -/
theorem byx_symmetric_branch_eq_model {bias : Rat} (p s : Rat) (hb : 0 < bias) :
    ofRates (yxRateY (1 / bias) p (s / bias)) (yxRateX (1 / bias) p (s / bias)) = biasedYXWith bias p s := by
  have hne : bias ≠ 0 := hb.ne'
  have hne' : (1 : Rat) / bias ≠ 0 := by positivity
  obtain ⟨e1, e2⟩ := byx_rate_symmetry_field (K := Rat) p s hb
  have ex : yxRateX bias p s = YX.rateX bias p s := by simp [yxRateX, YX.rateX, hne]
  have ey : yxRateY bias p s = YX.rateY bias p s := by simp [yxRateY, YX.rateY, hne]
  have ex' : yxRateX (1 / bias) p (s / bias) = YX.rateX (1 / bias) p (s / bias) := by
    simp only [yxRateX, YX.rateX, if_neg hne']
  have ey' : yxRateY (1 / bias) p (s / bias) = YX.rateY (1 / bias) p (s / bias) := by
    simp only [yxRateY, YX.rateY, if_neg hne']
  unfold biasedYXWith
  rw [ex, ey, ex', ey', ← e1, ← e2]

theorem sqrt_of_sq {x r : ℝ} (hr : 0 ≤ r) (h : x = r ^ 2) : Real.sqrt x = r := by
  rw [h, Real.sqrt_sq hr]

/-- non-vacuity (ℝ): bias 3, p = 5/8 — discriminants 81/16 and 9/16, roots 9/4 and (9/4)/3;
    `_rate_x(3, p) = 1/4 = _rate_y(1/3, p)`, `_rate_y(3, p) = 1/2 = _rate_x(1/3, p)`, and the branch above any
    threshold below 3 gives (p_x, p_y, p_z) = (1/8, 3/8, 1/8) -/
example : realRateX 3 (5 / 8) = 1 / 4 ∧ realRateY (1 / 3) (5 / 8) = 1 / 4 ∧ realRateY 3 (5 / 8) = 1 / 2 ∧
    realRateX (1 / 3) (5 / 8) = 1 / 2 ∧ byxBranch 2 3 (5 / 8) = (1 / 8, 3 / 8, 1 / 8) := by
  have d1 : Real.sqrt (YX.disc (3 : ℝ) (5 / 8)) = 9 / 4 :=
    sqrt_of_sq (by norm_num) (by unfold YX.disc; norm_num)
  have d2 : Real.sqrt (YX.disc (1 / 3 : ℝ) (5 / 8)) = 3 / 4 :=
    sqrt_of_sq (by norm_num) (by unfold YX.disc; norm_num)
  have e1 : realRateX 3 (5 / 8) = 1 / 4 := by rw [(realRate_eq _ _).1, d1]; unfold YX.rateX; norm_num
  have e2 : realRateY (1 / 3) (5 / 8) = 1 / 4 := by rw [(realRate_eq _ _).2, d2]; unfold YX.rateY; norm_num
  have e3 : realRateY 3 (5 / 8) = 1 / 2 := by rw [(realRate_eq _ _).2, d1]; unfold YX.rateY; norm_num
  have e4 : realRateX (1 / 3) (5 / 8) = 1 / 2 := by rw [(realRate_eq _ _).1, d2]; unfold YX.rateX; norm_num
  refine ⟨e1, e2, e3, e4, ?_⟩
  unfold byxBranch
  rw [if_pos (by norm_num), e2, e4]
  unfold probs; norm_num

/-- non-vacuity (ℚ model, exact roots): bias 3/2, p = 4/5 has discriminant (11/10)², bias 2/3 has (11/15)²;
    the symmetric branch (rates of bias 2/3, swapped) gives the distribution of the direct branch, and the model
    at bias 2/3 is the one at bias 3/2 with p_x, p_y exchanged -/
example : biasedYX? (3 / 2) (4 / 5) = some ⟨1 / 5, 1 / 5, 3 / 10, 3 / 10⟩ ∧
    ofRates (yxRateY (2 / 3) (4 / 5) (11 / 15)) (yxRateX (2 / 3) (4 / 5) (11 / 15)) = ⟨1 / 5, 1 / 5, 3 / 10, 3 / 10⟩ ∧
    biasedYX? (2 / 3) (4 / 5) = some ⟨1 / 5, 3 / 10, 1 / 5, 3 / 10⟩ := by
  decide +kernel

/-! ### 2. centre slice: `_normalize` is scale invariant -/

theorem rabs_mul_of_pos {c : Rat} (hc : 0 < c) (q : Rat) : rabs (c * q) = c * rabs q := by
  unfold rabs
  by_cases hq : q < 0
  · have : c * q < 0 := mul_neg_of_pos_of_neg hc hq
    rw [if_pos this, if_pos hq]; ring
  · have : ¬ c * q < 0 := not_lt.mpr (mul_nonneg hc.le (not_lt.mp hq))
    rw [if_neg this, if_neg hq]

theorem norm1_smul {c : Rat} (hc : 0 < c) (l : V3) : (V3.smul c l).norm1 = c * l.norm1 := by
  simp only [V3.norm1, V3.smul, rabs_mul_of_pos hc]; ring

/-- **scale invariance**: `normalize (c • lim) = normalize lim` for every c > 0 and every vector `lim`
    (also the zero vector and vectors with negative components) -/
theorem normalize_scale_invariant {c : Rat} (hc : 0 < c) (lim : V3) :
    normalize (V3.smul c lim) = normalize lim := by
  have hne : c ≠ 0 := hc.ne'
  unfold normalize
  rw [norm1_smul hc]
  simp only [V3.smul, mul_div_mul_left _ _ hne]

/-- `np.max(np.abs(r))` -/
def maxAbs (r : V3) : Rat := max (rabs r.x) (max (rabs r.y) (rabs r.z))

/-- `r / np.max(np.abs(r))` -/
def divByMax (r : V3) : V3 := ⟨r.x / maxAbs r, r.y / maxAbs r, r.z / maxAbs r⟩

/-- the repaired `_normalize`: when the plain norm overflowed (`overflow`, a fact about floats, here an arbitrary
    flag) the vector is divided by its largest component first -/
def normalizeRepaired (overflow : Bool) (r : V3) : V3 :=
  if overflow then normalize (divByMax r) else normalize r

theorem rabs_eq_zero {q : Rat} (h : rabs q = 0) : q = 0 := by
  unfold rabs at h; split at h <;> linarith

/-- dividing by the largest component first does not change the normalised limit — for EVERY vector -/
theorem normalize_divByMax (r : V3) : normalize (divByMax r) = normalize r := by
  have hm0 : 0 ≤ maxAbs r := le_trans (rabs_nonneg r.x) (le_max_left _ _)
  rcases hm0.lt_or_eq with hpos | hz
  · have e : divByMax r = V3.smul (1 / maxAbs r) r := by
      simp only [divByMax, V3.smul]; congr 1 <;> ring
    rw [e]; exact normalize_scale_invariant (by positivity) r
  · -- largest component 0: the vector is zero, both sides are the zero vector
    have hx : r.x = 0 := rabs_eq_zero (le_antisymm (by rw [hz]; exact le_max_left _ _) (rabs_nonneg _))
    have hy : r.y = 0 := rabs_eq_zero (le_antisymm
      (by rw [hz]; exact le_trans (le_max_left _ _) (le_max_right _ _)) (rabs_nonneg _))
    have hzz : r.z = 0 := rabs_eq_zero (le_antisymm
      (by rw [hz]; exact le_trans (le_max_right _ _) (le_max_right _ _)) (rabs_nonneg _))
    simp only [normalize, divByMax, hx, hy, hzz, zero_div]

/-- the repaired `_normalize` is the documented `_normalize`, whichever branch is taken -/
theorem normalizeRepaired_eq (overflow : Bool) (r : V3) : normalizeRepaired overflow r = normalize r := by
  unfold normalizeRepaired; split
  · exact normalize_divByMax r
  · rfl

/-- non-vacuity: (3, 0, 1) scaled by 10^30 / by its largest component normalises to (3/4, 0, 1/4) -/
example : normalize (V3.smul (10 ^ 30) ⟨3, 0, 1⟩) = ⟨3 / 4, 0, 1 / 4⟩ ∧ normalize ⟨3, 0, 1⟩ = ⟨3 / 4, 0, 1 / 4⟩ ∧
    divByMax ⟨3, 0, 1⟩ = ⟨1, 0, 1 / 3⟩ ∧ normalizeRepaired true ⟨3, 0, 1⟩ = ⟨3 / 4, 0, 1 / 4⟩ := by
  decide +kernel

end Qec.C16.Symmetry
