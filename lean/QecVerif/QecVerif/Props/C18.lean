/-
  C18 — The file error model replays the recorded errors faithfully.
  Theorems about `Model/FileEM.lean` (model of `FileErrorModel` and `_JSONLines`); `json.loads` is
  external (each non-comment line carries its token).
-/
import QecVerif.Model.FileEM
import QecVerif.Lemmas.FileEM
namespace Qec.C18
open Qec Qec.FileEM

/-- the tokens of the non-comment, non-blank lines, in file order -/
def significant (lines : List Line) : List Tok :=
  (lines.filter fun l => !isCommentOrBlank l.raw).map (·.tok)

/-- a sequence of `generate` calls with probability `p` and qubit counts `ns` -/
def gens (p : Rat) : Model → List Nat → List (Except Err BVec)
  | _, [] => []
  | m, n :: ns => (generate m n p).1 :: gens p (generate m n p).2 ns

/-- **well-formed file**: header objects with pairwise distinct keys (any grouping / order), holding a
    numeric `probability` and a `label`, whose remaining keys are valid fresh attribute names; then the
    recorded errors; comment and blank lines anywhere -/
structure WellFormed (lines : List Line) (hdr : List (List (String × HVal))) (body : List (List Nat × Nat))
    (p : Rat) (label : HVal) : Prop where
  sig : significant lines = hdr.map Tok.obj ++ body.map fun b => Tok.entry b.1 b.2
  keysNodup : (hdr.flatten.map (·.1)).Nodup
  hasP : ("probability", HVal.num p) ∈ hdr.flatten
  hasLabel : ("label", label) ∈ hdr.flatten
  extrasOk : ∀ kv ∈ hdr.flatten, kv.1 ≠ "probability" → kv.1 ≠ "label" → kv.1 ≠ "probability_distribution" →
    attrNameOk kv.1 = true ∧ kv.1 ∉ takenNames

/-- what the file dictates for the `i`-th generate call (after `start`) asking for `n` qubits -/
def expected (body : List (List Nat × Nat)) (start i n : Nat) : Except Err BVec :=
  match body[start + i]? with
  | some b => if (unpack b).length = 2 * n then .ok (unpack b) else .error .value
  | none => .error .eof

/-- **serves_in_order**: a well-formed file with at least one recorded error opens for every
    `start ≤ #errors`, exposes probability and label, and the i-th `generate` returns exactly the
    `(start+i)`-th recorded error (refusing a wrong qubit count, but still advancing), and signals
    end-of-file once the records are used up — never repeating or inventing errors. -/
theorem serves_in_order (lines : List Line) (hdr : List (List (String × HVal))) (body : List (List Nat × Nat))
    (p : Rat) (label : HVal) (hwf : WellFormed lines hdr body p label)
    (hb : 1 ≤ body.length) (start : Nat) (hs : start ≤ body.length) :
    ∃ m, openModel lines (some (start : Int)) = .ok m ∧ m.p = p ∧ m.label = label ∧
      ∀ ns : List Nat, gens p m ns = (List.range ns.length).map fun i => expected body start i (ns.getD i 0) := by
  obtain ⟨rd', h1, h2⟩ := (open_wf lines hdr body p label hwf.sig hwf.keysNodup hwf.hasP hwf.hasLabel
    hb start).1 hs
  have hchk : openModel.chk (extrasOf hdr.flatten) [] = true := by
    apply chk_true _ _ _ (nodup_extrasOf _ hwf.keysNodup)
    intro kv hkv
    obtain ⟨a, b, c, d⟩ := (mem_extrasOf _ _).mp hkv
    obtain ⟨e, f⟩ := hwf.extrasOk kv a b c d
    exact ⟨e, f, by simp⟩
  rw [if_pos hchk] at h2
  refine ⟨_, h2, rfl, rfl, ?_⟩
  have key : ∀ (ns : List Nat) (m : Model) (k : Nat), m.p = p →
      toks m.rd = (body.drop k).map (fun b => Tok.entry b.1 b.2) →
      gens p m ns = (List.range ns.length).map fun i => expected body k i (ns.getD i 0) := by
    intro ns
    induction ns with
    | nil => intros; rfl
    | cons n ns ih =>
      intro m k hmp hm
      obtain ⟨g1, g2, g3⟩ := generate_step m body k n hm
      rw [hmp] at g1 g2 g3
      simp only [gens, List.length_cons, List.range_succ_eq_map, List.map_cons, List.map_map]
      rw [ih _ (k + 1) g3 g2, g1]
      congr 1
      apply List.map_congr_left
      intro i _
      simp [expected, Nat.add_assoc, Nat.add_comm 1 i]
  exact fun ns => key ns _ start rfl h1

/-- header values are exposed: the distribution and every extra attribute -/
theorem header_exposed (lines : List Line) (hdr : List (List (String × HVal))) (body : List (List Nat × Nat))
    (p : Rat) (label : HVal) (hwf : WellFormed lines hdr body p label)
    (hb : 1 ≤ body.length) (start : Nat) (hs : start ≤ body.length) (m : Model)
    (hm : openModel lines (some (start : Int)) = .ok m) :
    (∀ d, ("probability_distribution", d) ∈ hdr.flatten → m.dist = some d) ∧
    ((∀ d, ("probability_distribution", d) ∉ hdr.flatten) → m.dist = none) ∧
    (∀ kv, kv ∈ m.extras ↔ (kv ∈ hdr.flatten ∧ kv.1 ≠ "probability" ∧ kv.1 ≠ "label" ∧
      kv.1 ≠ "probability_distribution")) := by
  obtain ⟨rd', _, h2⟩ := (open_wf lines hdr body p label hwf.sig hwf.keysNodup hwf.hasP hwf.hasLabel
    hb start).1 hs
  rw [h2] at hm
  split at hm
  · injection hm with hm
    subst hm
    exact ⟨fun d hd => distOf_some _ d hwf.keysNodup hd, fun hd => distOf_none _ hd,
      fun kv => mem_extrasOf _ kv⟩
  · cases hm

/-- a start beyond the recorded errors, or a file without any recorded error, is an end-of-file error
    at construction -/
theorem start_past_end (lines : List Line) (hdr : List (List (String × HVal))) (body : List (List Nat × Nat))
    (p : Rat) (label : HVal) (hwf : WellFormed lines hdr body p label) (start : Nat)
    (hs : body.length < start ∨ body.length = 0) :
    openModel lines (some (start : Int)) = .error .eof := by
  by_cases h0 : body.length = 0
  · have hb : body = [] := List.length_eq_zero_iff.mp h0
    subst hb
    exact open_nobody lines hdr (by simpa [significant, sigToks] using hwf.sig) hwf.keysNodup start
  · have hlt : body.length < start := by omega
    exact (open_wf lines hdr body p label hwf.sig hwf.keysNodup hwf.hasP hwf.hasLabel (by omega) start).2 hlt

/-- **refuses a wrong probability** without consuming anything -/
theorem refuses_wrong_probability (m : Model) (n : Nat) (p : Rat) (hp : p ≠ m.p) :
    generate m n p = (.error .value, m) := by
  simp [generate, hp]

/-- **refuses a wrong qubit count** -/
theorem refuses_wrong_length (m : Model) (n : Nat) (bytes : List Nat) (len : Nat) (rd' : Reader)
    (hpull : pull m.rd = (.ok (.entry bytes len), rd')) (hlen : (unpack (bytes, len)).length ≠ 2 * n) :
    (generate m n m.p).1 = .error .value := by
  simp [generate, hpull, hlen]

/-- **end of file is final**: once `generate` has signalled EOF it signals EOF for ever -/
theorem eof_is_final (m : Model) (n n' : Nat) (h : (generate m n m.p).1 = .error .eof) :
    (generate (generate m n m.p).2 n' m.p).1 = .error .eof := by
  have hst := pull_eof_state m.rd
  simp only [generate, ne_eq, not_true_eq_false, if_false] at h ⊢
  rcases hq : pull m.rd with ⟨r, rd'⟩
  rw [hq] at h hst
  cases r with
  | error e =>
    simp only at h hst
    injection h with h
    subst h
    rw [hst rfl]
    simp [pull, pull.go]
  | ok t =>
    cases t with
    | entry b l =>
      simp only at h
      split at h <;> cases h
    | obj kvs => cases h
    | bad => cases h
    | invalid => cases h

/-- **comments are irrelevant**: deleting comment / blank lines changes nothing observable -/
theorem comments_irrelevant (lines : List Line) (start : Option Int) :
    (openModel lines start).map (fun m => (m.p, m.label, m.dist, m.extras)) =
      (openModel (lines.filter fun l => !isCommentOrBlank l.raw) start).map
        (fun m => (m.p, m.label, m.dist, m.extras)) ∧
    ∀ m m', openModel lines start = .ok m →
      openModel (lines.filter fun l => !isCommentOrBlank l.raw) start = .ok m' →
      ∀ p ns, gens p m ns = gens p m' ns := by
  have hc := open_congr lines (lines.filter fun l => !isCommentOrBlank l.raw) start (sigToks_filter lines).symm
  refine ⟨ExRel_MEq_map _ _ hc, ?_⟩
  intro m m' h1 h2
  rw [h1, h2] at hc
  simp only [ExRel] at hc
  clear h1 h2
  intro p ns
  induction ns generalizing m m' with
  | nil => rfl
  | cons n ns ih =>
    obtain ⟨g1, g2⟩ := generate_congr m m' n p hc
    simp only [gens, g1]
    congr 1
    exact ih _ _ g2

/-- **malformed files are rejected** at construction: missing required key -/
theorem missing_required_key (lines : List Line) (hdr : List (List (String × HVal))) (rest : List Tok)
    (hsig : significant lines = hdr.map Tok.obj ++ rest) (hrest : ∀ t ∈ rest.head?, ∀ kvs, t ≠ Tok.obj kvs)
    (hne : rest ≠ [])
    (hk : (hdr.flatten.map (·.1)).Nodup)
    (hmiss : "probability" ∉ hdr.flatten.map (·.1) ∨
      ((∃ p, ("probability", HVal.num p) ∈ hdr.flatten) ∧ "label" ∉ hdr.flatten.map (·.1)))
    (start : Nat) : openModel lines (some (start : Int)) = .error .value := by
  obtain ⟨ls', _, h2⟩ := readHeader_nodup hdr (lines.length + 1) lines [] rest hsig hrest
    (by simpa using hk) (fuel_ok lines hdr rest hsig)
  have hneg : ¬ ((start : Int) < 0) := by omega
  rw [openModel_eq, if_neg hneg, h2]
  cases rest with
  | nil => exact absurd rfl hne
  | cons t ts =>
    simp only
    by_cases hi : t = .invalid
    · rw [if_pos hi]
    · rw [if_neg hi]
      exact finish_missing _ _ _ (by simpa using hk) (by simpa using hmiss)

/-- repeated header key (in two different header objects) -/
theorem repeated_key (lines : List Line) (hdr : List (List (String × HVal))) (rest : List Tok)
    (hsig : significant lines = hdr.map Tok.obj ++ rest)
    (hrep : ¬ (hdr.flatten.map (·.1)).Nodup) (hobj : ∀ o ∈ hdr, (o.map (·.1)).Nodup)
    (start : Option Int) (hst : ∃ s, start = some s ∧ 0 ≤ s) :
    openModel lines start = .error .value := by
  obtain ⟨s, rfl, hs⟩ := hst
  have hneg : ¬ (s < 0) := by omega
  rw [openModel_eq, if_neg hneg,
    readHeader_clash hdr (lines.length + 1) lines [] rest hsig (by simp) hobj (by simpa using hrep)
      (fuel_ok lines hdr rest hsig)]

/-- invalid or shadowing extra attribute name -/
theorem invalid_attribute (lines : List Line) (hdr : List (List (String × HVal))) (body : List (List Nat × Nat))
    (p : Rat) (label : HVal)
    (hsig : significant lines = hdr.map Tok.obj ++ body.map fun b => Tok.entry b.1 b.2)
    (hk : (hdr.flatten.map (·.1)).Nodup)
    (hp : ("probability", HVal.num p) ∈ hdr.flatten) (hl : ("label", label) ∈ hdr.flatten)
    (hb : 1 ≤ body.length) (start : Nat) (hs : start ≤ body.length)
    (hbad : ∃ kv ∈ hdr.flatten, kv.1 ≠ "probability" ∧ kv.1 ≠ "label" ∧ kv.1 ≠ "probability_distribution" ∧
      (attrNameOk kv.1 = false ∨ kv.1 ∈ takenNames)) :
    openModel lines (some (start : Int)) = .error .value := by
  obtain ⟨rd', _, h2⟩ := (open_wf lines hdr body p label hsig hk hp hl hb start).1 hs
  obtain ⟨kv, hkv, a, b, c, hbad'⟩ := hbad
  rw [h2, if_neg]
  rw [chk_false _ _ ⟨kv, (mem_extrasOf _ _).mpr ⟨hkv, a, b, c⟩, hbad'⟩]
  simp

/-- bad `start` argument -/
theorem bad_start (lines : List Line) :
    openModel lines none = .error .type ∧ ∀ s : Int, s < 0 → openModel lines (some s) = .error .value := by
  exact ⟨rfl, fun s hs => by simp [openModel, hs]⟩

/-- a header object after the body, a non-record JSON value, or invalid JSON is refused by the
    `generate` that reaches it (never returned as an error vector) -/
theorem bad_body_value_refused (m : Model) (n : Nat) (t : Tok) (rd' : Reader)
    (hpull : pull m.rd = (.ok t, rd')) (ht : ∀ b l, t ≠ .entry b l) :
    (generate m n m.p).1 = .error .rejected := by
  cases t with
  | entry b l => exact absurd rfl (ht b l)
  | obj kvs => simp [generate, hpull]
  | bad => simp [generate, hpull]
  | invalid => simp [generate, hpull]
theorem invalid_json_refused (m : Model) (n : Nat) (rd' : Reader)
    (hpull : pull m.rd = (.error .value, rd')) : (generate m n m.p).1 = .error .value := by
  simp [generate, hpull]

/-! the text of the file is cut into lines at `\n`, `\r\n` and a lone `\r` - and nowhere else -/
theorem splitLinesAux_plain (l cur : List Char) (h : ∀ c ∈ l, c ≠ '\n' ∧ c ≠ '\r') (rest : List Char) :
    splitLinesAux cur (l ++ '\n' :: rest) = (cur.reverse ++ l) :: splitLinesAux [] rest := by
  induction l generalizing cur with
  | nil => rw [List.nil_append, splitLinesAux.eq_def]; simp
  | cons c t ih =>
    have hc := h c (by simp)
    rw [List.cons_append, splitLinesAux.eq_def]
    simp only [beq_iff_eq, hc.1, hc.2, if_false]
    rw [ih (c :: cur) (fun d hd => h d (by simp [hd]))]
    simp

/-- **lines_end_only_at_newlines**: a stretch of text without `\n` and `\r` followed by `\n` is exactly one line,
    whatever else it contains (form feed, vertical tab, FS/GS/RS, NEL, U+2028, U+2029 are ordinary characters) -/
theorem lines_end_only_at_newlines (l rest : List Char) (h : ∀ c ∈ l, c ≠ '\n' ∧ c ≠ '\r') :
    splitLines (l ++ '\n' :: rest) = l :: splitLines rest := by
  simpa [splitLines] using splitLinesAux_plain l [] h rest

example : splitLines "// page 1\x0cpage 2\u2028x\x85y\n[\"00\", 2]\r\n\r//\x1c\rz".toList =
    ["// page 1\x0cpage 2\u2028x\x85y".toList, "[\"00\", 2]".toList, [], "//\x1c".toList, ['z']] := by decide +kernel
example : isCommentOrBlank "\x1c\u2028\x85 //\x0cx".toList = true ∧ isCommentOrBlank "\uFEFF// x".toList = false := by
  decide +kernel

/-! non-vacuity: header split over two objects, a comment, two records -/
def exLines : List Line :=
  [⟨"{\"label\": \"L\"}".toList, .obj [("label", .str "4c")]⟩,
   ⟨" // c".toList, .bad⟩,
   ⟨"{\"probability\": 0.5, \"bias\": 3}".toList, .obj [("probability", .num (1/2)), ("bias", .num 3)]⟩,
   ⟨"[\"a0\", 4]".toList, .entry [160] 4⟩, ⟨"".toList, .bad⟩, ⟨"[\"60\", 4]".toList, .entry [96] 4⟩]
example : WellFormed exLines [[("label", .str "4c")], [("probability", .num (1/2)), ("bias", .num 3)]]
    [([160], 4), ([96], 4)] (1/2) (.str "4c") := by
  constructor <;> decide +kernel
example : ((openModel exLines (some 1)).toOption.map fun m => (gens (1/2) m [2, 2]).map Except.toOption) =
    some [some [false, true, true, false], none] := by decide +kernel

end Qec.C18
