/-
  C13 — the pure part of the Blossom V path of `qecsim.graphtools` (`blossom5.weight_to_int_fn`, model
  `Model/Matching.lean: roundHalfAway / weightToIntKind / weightToInt`).

  The C library (Blossom V; in the harness a stand-in) receives INTEGER weights `r p`.  These theorems say what an
  optimum for the integer weights means for the ORIGINAL weights `w p` — they are the justification of the allowance
  used by harness/qv/c13_standin.py:
    * scaled rule (`r p = roundHalfAway (s * w p)`): a matching that is optimal for `r` exceeds any other matching of
      the same number k of pairs by at most k / s in the original weights (k = n/2 for perfect matchings);
    * identity rule (all weights integers below infty/10): `r p = w p`, optimal for `r` = optimal for `w`, exactly;
    * scaling is monotone, rounding is within 1/2, exact multiples keep the order of the totals, and the scaled
      integers stay within infty/10 + 1/2 (no C int overflow when infty is the library's value).
  The float products `weight * scaling` are inputs of the model (exact rationals supplied by the harness); the
  statements hold for ANY positive factor `s`, hence for the float factor actually used.
-/
import QecVerif.Model.Matching
import QecVerif.Lemmas.Blossom
namespace Qec.C13.Blossom
open Qec Qec.Matching Qec.Blossom

/-- **round_within_half**: `int(Decimal(x).to_integral_value(ROUND_HALF_UP))` is within 1/2 of x -/
theorem round_within_half (x : Rat) : |(roundHalfAway x : Rat) - x| ≤ 1 / 2 := by
  by_cases h : 0 ≤ x
  · rw [roundHalfAway_nonneg h]
    have h1 := Int.floor_le (x + 1 / 2)
    have h2 := Int.lt_floor_add_one (x + 1 / 2)
    rw [abs_le]; constructor <;> linarith
  · rw [roundHalfAway_neg h]
    have h1 := Int.floor_le (-x + 1 / 2)
    have h2 := Int.lt_floor_add_one (-x + 1 / 2)
    push_cast
    rw [abs_le]; constructor <;> linarith

/-- **round_mono**: rounding half away from zero is monotone -/
theorem round_mono {x y : Rat} (h : x ≤ y) : roundHalfAway x ≤ roundHalfAway y := by
  by_cases hx : 0 ≤ x
  · have hy : 0 ≤ y := le_trans hx h
    rw [roundHalfAway_nonneg hx, roundHalfAway_nonneg hy]
    exact Int.floor_mono (by linarith)
  · by_cases hy : 0 ≤ y
    · rw [roundHalfAway_neg hx, roundHalfAway_nonneg hy]
      have h1 : 0 ≤ ⌊-x + 1 / 2⌋ := Int.floor_nonneg.mpr (by have := not_le.mp hx; linarith)
      have h2 : 0 ≤ ⌊y + 1 / 2⌋ := Int.floor_nonneg.mpr (by linarith)
      omega
    · rw [roundHalfAway_neg hx, roundHalfAway_neg hy]
      have : ⌊-y + 1 / 2⌋ ≤ ⌊-x + 1 / 2⌋ := Int.floor_mono (by linarith)
      omega

/-- **scaling_mono**: the scaled integer weight is monotone in the weight (positive factor) -/
theorem scaling_mono {s : Rat} (hs : 0 ≤ s) {w₁ w₂ : Rat} (h : w₁ ≤ w₂) :
    roundHalfAway (w₁ * s) ≤ roundHalfAway (w₂ * s) :=
  round_mono (mul_le_mul_of_nonneg_right h hs)

/-- **round_exact**: a product that is already an integer is not changed by the rounding -/
theorem round_exact (z : Int) : roundHalfAway (z : Rat) = z := by
  by_cases h : 0 ≤ (z : Rat)
  · rw [roundHalfAway_nonneg h, Int.floor_eq_iff]; constructor <;> linarith
  · rw [roundHalfAway_neg h]
    have : ⌊-(z : Rat) + 1 / 2⌋ = -z := by
      rw [Int.floor_eq_iff]; constructor <;> push_cast <;> linarith
    omega

/-- **int_optimum_within_allowance** (general form): integer weights `r` within `e` of `s * w` on every pair, `s > 0`.
    If the list of pairs M has an integer total not above that of M' (M is what an exact solver on `r` returns, M' any
    competitor, e.g. a true optimum), then in the original weights M exceeds M' by at most e (|M| + |M'|) / s. -/
theorem int_optimum_within_allowance {α} (w : α → Rat) (r : α → Int) (s e : Rat) (hs : 0 < s)
    (hr : ∀ p, |(r p : Rat) - s * w p| ≤ e) (M M' : List α) (hopt : (M.map r).sum ≤ (M'.map r).sum) :
    (M.map w).sum - (M'.map w).sum ≤ e * (M.length + M'.length) / s := by
  have hM := abs_le.mp (sum_round_close w r s e hr M)
  have hM' := abs_le.mp (sum_round_close w r s e hr M')
  have hc : ((M.map fun p => (r p : Rat)).sum) ≤ (M'.map fun p => (r p : Rat)).sum := by
    rw [← cast_sum_map, ← cast_sum_map]; exact_mod_cast hopt
  rw [le_div_iff₀ hs]
  nlinarith [hM.1, hM.2, hM'.1, hM'.2]

/-- **scaled_optimum_within_allowance** (the model's scaled rule): when `weight_to_int_fn` returns the scaling
    function and `r p` is its value on the weight of pair p (float product `s * w p` exact or not: `prod p` is what the
    code rounded, assumed within `d` of `s * w p`), an optimum M for the integers exceeds any M' with the same number
    k of pairs by at most (1 + 2 d) k / s in the original weights.  For perfect matchings k = n / 2; with d = 0 this is
    the allowance (n / 2) / s of the harness. -/
theorem scaled_optimum_within_allowance (infty : Rat) (allInt : Bool) (ws : List Rat)
    (hk : weightToIntKind infty allInt ws = .scaled) (w prod : Edge → Rat) (r : Edge → Int) (s d : Rat) (hs : 0 < s)
    (hprod : ∀ p, |prod p - s * w p| ≤ d)
    (hr : ∀ p, weightToInt infty allInt ws (w p) (prod p) = some (r p))
    (M M' : List Edge) (k : Nat) (hM : M.length = k) (hM' : M'.length = k)
    (hopt : (M.map r).sum ≤ (M'.map r).sum) :
    (M.map w).sum - (M'.map w).sum ≤ (1 + 2 * d) * k / s := by
  have hr' : ∀ p, |(r p : Rat) - s * w p| ≤ 1 / 2 + d := by
    intro p
    have h := hr p
    unfold weightToInt at h
    rw [hk] at h
    have hrp : r p = roundHalfAway (prod p) := by simpa using h.symm
    have h1 := round_within_half (prod p)
    have h2 := hprod p
    rw [hrp]
    calc |(roundHalfAway (prod p) : Rat) - s * w p|
        = |((roundHalfAway (prod p) : Rat) - prod p) + (prod p - s * w p)| := by ring_nf
      _ ≤ |(roundHalfAway (prod p) : Rat) - prod p| + |prod p - s * w p| := abs_add_le _ _
      _ ≤ 1 / 2 + d := add_le_add h1 h2
  have h := int_optimum_within_allowance w r s (1 / 2 + d) hs hr' M M' hopt
  rw [hM, hM'] at h
  have : (1 / 2 + d) * ((k : Rat) + k) / s = (1 + 2 * d) * k / s := by ring
  rw [← this]; exact h

/-- **ident_optimum_exact** (the model's identity rule: all weights Python ints, max |w| < infty/10): the integers
    handed to the library ARE the weights, so an optimum for them is an optimum for the original weights, exactly. -/
theorem ident_optimum_exact (infty : Rat) (allInt : Bool) (ws : List Rat)
    (hk : weightToIntKind infty allInt ws = .ident) (w prod : Edge → Rat) (r : Edge → Int)
    (hr : ∀ p, weightToInt infty allInt ws (w p) (prod p) = some (r p))
    (M M' : List Edge) (hopt : (M.map r).sum ≤ (M'.map r).sum) :
    (∀ p, (r p : Rat) = w p) ∧ (M.map w).sum ≤ (M'.map w).sum := by
  have hr' : ∀ p, (r p : Rat) = w p := by
    intro p
    have h := hr p
    unfold weightToInt at h
    rw [hk] at h
    by_cases hd : (w p).den = 1
    · rw [if_pos hd] at h
      have : r p = (w p).num := by simpa using h.symm
      rw [this]; exact (Rat.den_eq_one_iff (w p)).mp hd
    · rw [if_neg hd] at h; cases h
  refine ⟨hr', ?_⟩
  have e : ∀ L : List Edge, (L.map w).sum = (L.map fun p => (r p : Rat)).sum := by
    intro L; congr 1; apply List.map_congr_left; intro p _; exact (hr' p).symm
  rw [e M, e M', ← cast_sum_map, ← cast_sum_map]; exact_mod_cast hopt

/-- **exact_multiples_keep_order**: when every scaled weight `s * w p` is an integer (nothing is lost by the rounding)
    the integer totals order two lists of pairs exactly as the original totals do. -/
theorem exact_multiples_keep_order (w : Edge → Rat) (s : Rat) (hs : 0 < s) (z : Edge → Int)
    (hz : ∀ p, s * w p = z p) (M M' : List Edge) :
    ((M.map fun p => roundHalfAway (s * w p)).sum ≤ (M'.map fun p => roundHalfAway (s * w p)).sum) ↔
      (M.map w).sum ≤ (M'.map w).sum := by
  have hr : ∀ p, |((roundHalfAway (s * w p) : Int) : Rat) - s * w p| ≤ 0 := by
    intro p; rw [hz p, round_exact]; simp
  have hM := abs_le.mp (sum_round_close w (fun p => roundHalfAway (s * w p)) s 0 hr M)
  have hM' := abs_le.mp (sum_round_close w (fun p => roundHalfAway (s * w p)) s 0 hr M')
  have c := cast_sum_map (fun p => roundHalfAway (s * w p)) M
  have c' := cast_sum_map (fun p => roundHalfAway (s * w p)) M'
  constructor
  · intro h
    have hc : (((M.map fun p => roundHalfAway (s * w p)).sum : Int) : Rat) ≤
        ((M'.map fun p => roundHalfAway (s * w p)).sum : Int) := by exact_mod_cast h
    rw [c, c'] at hc
    have : s * (M.map w).sum ≤ s * (M'.map w).sum := by nlinarith [hM.1, hM.2, hM'.1, hM'.2]
    exact le_of_mul_le_mul_left this hs
  · intro h
    have : s * (M.map w).sum ≤ s * (M'.map w).sum := mul_le_mul_of_nonneg_left h hs.le
    have hc : (((M.map fun p => roundHalfAway (s * w p)).sum : Int) : Rat) ≤
        ((M'.map fun p => roundHalfAway (s * w p)).sum : Int) := by
      rw [c, c']; nlinarith [hM.1, hM.2, hM'.1, hM'.2]
    exact_mod_cast hc

/-- **scaled_weight_bounded**: with the documented factor s = infty/10/max|w| every scaled integer is within
    infty/10 + 1/2 in absolute value — an order of magnitude below `infty()`, so it fits the C int the library uses. -/
theorem scaled_weight_bounded (infty mx x : Rat) (hi : 0 ≤ infty) (hmx : 0 < mx) (hx : |x| ≤ mx) :
    |(roundHalfAway (x * (infty / 10 / mx)) : Rat)| ≤ infty / 10 + 1 / 2 := by
  have hs : 0 ≤ infty / 10 / mx := by positivity
  have h1 : |x * (infty / 10 / mx)| ≤ infty / 10 := by
    rw [abs_mul, abs_of_nonneg hs]
    calc |x| * (infty / 10 / mx) ≤ mx * (infty / 10 / mx) := mul_le_mul_of_nonneg_right hx hs
      _ = infty / 10 := by field_simp
  have h2 := round_within_half (x * (infty / 10 / mx))
  calc |(roundHalfAway (x * (infty / 10 / mx)) : Rat)|
      = |((roundHalfAway (x * (infty / 10 / mx)) : Rat) - x * (infty / 10 / mx)) + x * (infty / 10 / mx)| := by ring_nf
    _ ≤ |(roundHalfAway (x * (infty / 10 / mx)) : Rat) - x * (infty / 10 / mx)| + |x * (infty / 10 / mx)| :=
        abs_add_le _ _
    _ ≤ 1 / 2 + infty / 10 := add_le_add h2 h1
    _ = infty / 10 + 1 / 2 := by ring

/-- the hypotheses are satisfiable on a concrete input: infty = 1000, weights 3/2, 400, 7 (not all ints): scaled rule,
    factor 1000/10/400 = 1/4, integers 0, 100, 2 -/
example : weightToIntKind 1000 false [3 / 2, 400, 7] = .scaled ∧
    weightToInt 1000 false [3 / 2, 400, 7] (3 / 2) (3 / 2 * (1 / 4)) = some 0 ∧
    weightToInt 1000 false [3 / 2, 400, 7] 400 (400 * (1 / 4)) = some 100 ∧
    weightToInt 1000 false [3 / 2, 400, 7] 7 (7 * (1 / 4)) = some 2 ∧
    weightToIntKind 1000 true [3, 40, 7] = .ident ∧ weightToInt 1000 true [3, 40, 7] 40 0 = some 40 := by decide +kernel

end Qec.C13.Blossom
