/-
  C20 — Validation decides the code conditions exactly for user-defined codes.
-/
import QecVerif.Model.Validate
import QecVerif.Lemmas.GF2
import QecVerif.Lemmas.Validate
namespace Qec.C20
open Qec

/-- every operator of A commutes with every operator of B -/
def CommAll (A B : List BVec) : Prop := ∀ a ∈ A, ∀ b ∈ B, bsp a b = false

/-- the canonical commutation of the stacked logicals `L = lx ++ lz` with `k = lx.length`:
    `L[i]` and `L[j]` anticommute exactly when `|i − j| = k` -/
def CanonicalStacked (lx lz : List BVec) : Prop :=
  ∀ (i j : Nat) (hi : i < (lx ++ lz).length) (hj : j < (lx ++ lz).length),
    bsp (lx ++ lz)[i] (lx ++ lz)[j] = decide (i = j + lx.length ∨ j = i + lx.length)

/-- the same condition in the property's words: `X̄ᵢ` and `Z̄ⱼ` anticommute iff `i = j` (in both
    orders), and all `X̄X̄` and `Z̄Z̄` pairs commute -/
def CanonicalPairs (lx lz : List BVec) : Prop :=
  ∀ (i j : Nat) (hi : i < lx.length) (hj : j < lz.length) (hi' : i < lz.length) (hj' : j < lx.length),
    bsp lx[i] lz[j] = decide (i = j) ∧ bsp lz[j] lx[i] = decide (i = j) ∧
    bsp lx[i] lx[j] = false ∧ bsp lz[i] lz[j] = false

/-- **validate passes iff the three code conditions hold** (any k ≥ 0 with as many X̄ as Z̄) -/
theorem validate_ok_iff (S lx lz : List BVec) (hk : lx.length = lz.length) :
    validate S lx lz = .ok () ↔ CommAll S S ∧ CommAll S (lx ++ lz) ∧ CanonicalStacked lx lz := by
  rw [validate_ok_iff_checks, allZeroMat_bspMat_iff, allZeroMat_bspMat_iff, bspMat_eq_twisted_iff lx lz hk]
  have : (lx ++ lz).length % 2 = 0 := by simp [hk]; omega
  simp only [this, true_and, CommAll, CanonicalStacked]

/-- the stacked form of the third condition is the canonical pairing of the property statement -/
theorem canonicalStacked_iff_pairs (lx lz : List BVec) (hk : lx.length = lz.length) :
    CanonicalStacked lx lz ↔ CanonicalPairs lx lz := by
  exact stacked_iff_pairs lx lz hk

/-- which error is raised: the first failing check, in the order stabilizers / stabilizers–logicals /
    logicals -/
theorem validate_err_stabilizers (S lx lz : List BVec) :
    validate S lx lz = .error .stabilizers ↔ ¬ CommAll S S := by
  rw [validate_stabilizers_iff_checks, ← Bool.not_eq_true, allZeroMat_bspMat_iff]; rfl
theorem validate_err_stabLogicals (S lx lz : List BVec) :
    validate S lx lz = .error .stabLogicals ↔ CommAll S S ∧ ¬ CommAll S (lx ++ lz) := by
  rw [validate_stabLogicals_iff_checks, ← Bool.not_eq_true, allZeroMat_bspMat_iff, allZeroMat_bspMat_iff]; rfl
theorem validate_err_logicals (S lx lz : List BVec) (hk : lx.length = lz.length) :
    validate S lx lz = .error .logicals ↔
      CommAll S S ∧ CommAll S (lx ++ lz) ∧ ¬ CanonicalStacked lx lz := by
  rw [validate_logicals_iff_checks, allZeroMat_bspMat_iff, allZeroMat_bspMat_iff, Ne,
    bspMat_eq_twisted_iff lx lz hk]
  have : (lx ++ lz).length % 2 = 0 := by simp [hk]; omega
  simp only [this, true_and, CommAll, CanonicalStacked]
/-- with matching numbers of logical X and Z the numpy split never fails -/
theorem validate_no_hsplit (S lx lz : List BVec) (hk : lx.length = lz.length) :
    validate S lx lz ≠ .error .hsplit := by
  intro h
  have := ((validate_hsplit_iff_checks S lx lz).mp h).2.2
  simp [hk] at this; omega

/-- the stacked logicals are the X operators followed by the Z operators, in order -/
theorem logicals_order (lx lz : List BVec) :
    stackLogicals lx lz = lx ++ lz ∧
    (∀ i (h : i < lx.length), (stackLogicals lx lz)[i]? = some lx[i]) ∧
    (∀ i (h : i < lz.length), (stackLogicals lx lz)[lx.length + i]? = some lz[i]) := by
  refine ⟨rfl, ?_, ?_⟩
  · intro i h; simp [stackLogicals, List.getElem?_append_left h]
  · intro i h; simp [stackLogicals, h]

/-- a decode result can be built iff it fixes success or supplies a recovery -/
theorem decodeResult_precondition (s r : Bool) : decodeResultOk s r = true ↔ (s = true ∨ r = true) := by
  simp [decodeResultOk]

/-! non-vacuity: the five-qubit code passes, a corrupted one fails with the right message -/
example : validate
    [toBsf [.X,.Z,.Z,.X,.I], toBsf [.I,.X,.Z,.Z,.X], toBsf [.X,.I,.X,.Z,.Z], toBsf [.Z,.X,.I,.X,.Z]]
    [toBsf [.X,.X,.X,.X,.X]] [toBsf [.Z,.Z,.Z,.Z,.Z]] = .ok () := by rfl
example : validate
    [toBsf [.X,.Z,.Z,.X,.I], toBsf [.I,.X,.Z,.Z,.X], toBsf [.X,.I,.X,.Z,.Z], toBsf [.Z,.X,.I,.X,.Z]]
    [toBsf [.X,.X,.X,.X,.X]] [toBsf [.Z,.Z,.Z,.Z,.I]] = .error .stabLogicals := by rfl
example : validate
    [toBsf [.Z,.Z,.I], toBsf [.I,.Z,.Z]] [toBsf [.X,.X,.X]] [toBsf [.I,.I,.I]] = .error .logicals := by rfl

end Qec.C20
