/-
  C14 — minimum-weight decoders correct every error within half the distance.

  Part 1 (this file): the naive decoder, generic in the code.
  Part 2 (Props/C14/Mwpm.lean): the MWPM decoders — split of the two plaquette types and the
  reduction of "corrects every error with |X|,|Z| ≤ t" to C13 / C15 / C08 facts.
  Part 3 (Props/C14/Chain.lean): the chain-to-matching (T-join) lemma — generic, with a boundary, for
  the torus and for the planar code — and `toric_mwpm_corrects`, `planar_mwpm_corrects` for all sizes
  without the `ChainBound` hypothesis; `…_all_sizes`: only C13's minimality left as a hypothesis.
  Part 4 (Props/C14/Bridge.lean): that hypothesis derived from the documented contract of
  `networkx.max_weight_matching` (`C13.NxContract`) alone: `planar_mwpm_corrects_networkx`,
  `toric_mwpm_corrects_networkx`; Props/C14/MatesOrder.lean: the order of the mates is immaterial.
  Props/C14/Instances.lean: the C07 / C08 hypotheses of parts 1 and 2 discharged for every family.

  AUDIT — genuinely open for C14 (none is a Lean statement with a missing proof):
  * `NxContract` for the REAL networkx routine (Edmonds' blossom algorithm, outside /repo): trusted, tested against the
    verified optimum on every run by the C13 harness;
  * the Blossom V backend of `gt.mwpm` (C library absent in this environment): bridged in Props/C14/Blossom.lean for all
    sizes with R + C < infty()/10; trusted there: the contract `Blossom5.ClibContract` of the REAL C routine (outside
    /repo; the harness runs the real wrapper against a stand-in library);
  * the naive decoder: the property's per-component hypothesis is FALSE for it (finding D5, below); the total-weight
    statement `naive_corrects_partial` is what is proved.

  Property theorems only; helper lemmas live in Lemmas/NaiveDecode.lean, Lemmas/MwpmSplit.lean.

  The property as stated ("every error whose X-component and Z-component EACH have weight ≤ t") is
  FALSE for the naive decoder (finding D5, `naive_mixed_support_counterexample`).  What is true and
  proved for it is the statement for errors of TOTAL weight ≤ t (`naive_corrects_partial`).

  FULL STATEMENT, FALSE for the naive decoder (kept for the record, not a theorem):
      ∀ S L n d e, (rows of S have length 2n) → DistHyp S L n d → e.length = 2n →
        bsfWt (xPart e) ≤ (d-1)/2 → bsfWt (zPart e) ≤ (d-1)/2 →
        ∃ r, naiveDecode S n n (synd S e) = some r ∧ corrected S L e r = true
-/
import QecVerif.Lemmas.NaiveDecode
import QecVerif.Model.Basic
import QecVerif.Props.C14.Mwpm
import QecVerif.Props.C14.Chain
namespace Qec.C14
open Qec Qec.NaiveDecode

/-- the model's lazy search is literally the code's loop
    `for error in pt.ibsf(n, 0, maxW): if array_equal(bsp(error, S.T), s): return error` -/
theorem naive_is_ibsf_search (S : List BVec) (n maxW : Nat) (s : BVec) :
    naiveDecode S n maxW s = (ibsf n 0 maxW).bind fun l => l.find? fun e => synd S e == s := by
  rw [naiveDecode_eq_ref]; unfold naiveDecodeRef; cases ibsf n 0 maxW <;> rfl

/-- **naive_min_weight**: whatever the naive decoder returns is an n-qubit Pauli with the given
    syndrome and of minimum weight among ALL n-qubit Paulis with that syndrome
    (any stabilizer matrix, any syndrome, any n) -/
theorem naive_min_weight (S : List BVec) (n : Nat) (s r : BVec)
    (h : naiveDecode S n n s = some r) :
    r.length = 2 * n ∧ synd S r = s ∧
      ∀ v : BVec, v.length = 2 * n → synd S v = s → bsfWt r ≤ bsfWt v := by
  obtain ⟨h1, h2, _, h4⟩ := (naiveDecode_spec S n n s (Nat.le_refl n)).1 r h
  exact ⟨h1, h2, fun v hv hs => h4 v hv hs (bsfWt_le v n hv)⟩

/-- the decoder returns `None` exactly when no n-qubit Pauli has the syndrome -/
theorem naive_none_iff (S : List BVec) (n : Nat) (s : BVec) :
    naiveDecode S n n s = none ↔ ∀ v : BVec, v.length = 2 * n → synd S v ≠ s := by
  rw [(naiveDecode_spec S n n s (Nat.le_refl n)).2]
  exact ⟨fun h v hv => h v hv (bsfWt_le v n hv), fun h v hv _ => h v hv⟩

/-- the same for a search truncated at weight `maxW ≤ n`: minimum weight among the Paulis of
    weight ≤ maxW, `None` iff none of those has the syndrome -/
theorem naive_min_weight_upto (S : List BVec) (n maxW : Nat) (s : BVec) (h : maxW ≤ n) :
    (∀ r, naiveDecode S n maxW s = some r →
        r.length = 2 * n ∧ synd S r = s ∧ bsfWt r ≤ maxW ∧
        ∀ v : BVec, v.length = 2 * n → synd S v = s → bsfWt v ≤ maxW → bsfWt r ≤ bsfWt v) ∧
    (naiveDecode S n maxW s = none ↔
        ∀ v : BVec, v.length = 2 * n → bsfWt v ≤ maxW → synd S v ≠ s) :=
  naiveDecode_spec S n maxW s h

/-- the `max_qubits` guard: `ValueError` iff max_qubits is truthy and n exceeds it; otherwise the
    search over all weights 0..n -/
theorem naive_guard (mq : Option Nat) (S : List BVec) (n : Nat) (s : BVec) :
    naiveDecoderDecode mq S n s =
      if (∃ m, mq = some m ∧ m ≠ 0 ∧ n > m) then .error .value else .ok (naiveDecode S n n s) := by
  cases mq with
  | none => simp [naiveDecoderDecode]
  | some m =>
    by_cases h : m ≠ 0 ∧ n > m
    · simp [naiveDecoderDecode, h]
    · simp only [naiveDecoderDecode, h, if_false]
      rw [if_neg]; rintro ⟨m', hm, h'⟩; cases hm; exact h h'

/-- **triangle inequality** for the Pauli weight: `wt (a ⊕ b) ≤ wt a + wt b` -/
theorem wt_xor_le (a b : BVec) (h : a.length = b.length) : bsfWt (xorV a b) ≤ bsfWt a + bsfWt b :=
  NaiveDecode.wt_xor_le a b h

/-- **naive_corrects_partial**: for ANY stabilizer matrix `S`, logical operators `L` and `d ≥ 1`
    such that every operator of weight `< d` commuting with `S` commutes with `L` (`DistHyp`, the
    lower-bound half of C08), the naive decoder corrects every error of TOTAL weight
    `≤ t = ⌊(d−1)/2⌋`: it returns some `r` with `wt r ≤ wt e` and `r ⊕ e` commutes with all
    stabilizers and all logicals.  (`wt (r ⊕ e) ≤ wt r + wt e ≤ 2t < d`.) -/
theorem naive_corrects_partial (S L : List BVec) (n d : Nat) (hS : ∀ row ∈ S, row.length = 2 * n)
    (hd : DistHyp S L n d) (hd1 : 1 ≤ d) (e : BVec) (he : e.length = 2 * n)
    (hw : bsfWt e ≤ (d - 1) / 2) :
    ∃ r, naiveDecode S n n (synd S e) = some r ∧ bsfWt r ≤ bsfWt e ∧ corrected S L e r = true := by
  cases hdec : naiveDecode S n n (synd S e) with
  | none =>
    exact absurd rfl ((naive_none_iff S n (synd S e)).mp hdec e he)
  | some r =>
    obtain ⟨hr, hs, hmin⟩ := naive_min_weight S n (synd S e) r hdec
    have hle := hmin e he rfl
    exact ⟨r, rfl, hle, corrected_of_small S L n d hS hd r e hr he hs (by omega)⟩

/-- with the default decoder object (`max_qubits = 10`) on a code of at most 10 qubits -/
theorem naive_default_corrects_partial (S L : List BVec) (n d : Nat) (hn : n ≤ 10)
    (hS : ∀ row ∈ S, row.length = 2 * n) (hd : DistHyp S L n d) (hd1 : 1 ≤ d) (e : BVec)
    (he : e.length = 2 * n) (hw : bsfWt e ≤ (d - 1) / 2) :
    ∃ r, naiveDecoderDecode naiveDefaultMaxQubits S n (synd S e) = .ok (some r) ∧
      corrected S L e r = true := by
  obtain ⟨r, h1, _, h3⟩ := naive_corrects_partial S L n d hS hd hd1 e he hw
  refine ⟨r, ?_, h3⟩
  rw [naive_guard, if_neg, h1]
  rintro ⟨m, hm, _, h'⟩
  simp only [naiveDefaultMaxQubits, Option.some.injEq] at hm
  omega

/-! ### the basic codes: the distance hypothesis by kernel evaluation -/

def fiveL : List BVec := Basic.fiveQubit.logicalXs ++ Basic.fiveQubit.logicalZs
def steaneL : List BVec := Basic.steane.logicalXs ++ Basic.steane.logicalZs

/-- five-qubit code: no operator of weight < 3 commutes with the stabilizers without commuting
    with the logicals (106 Paulis enumerated in the kernel) -/
theorem distHyp_fiveQubit : DistHyp Basic.fiveQubit.stabilizers fiveL 5 3 :=
  distCheck_sound _ _ _ _ (by decide +kernel)

/-- Steane code likewise (211 Paulis) -/
theorem distHyp_steane : DistHyp Basic.steane.stabilizers steaneL 7 3 :=
  distCheck_sound _ _ _ _ (by decide +kernel)

/-- the naive decoder corrects every single-qubit error (t = 1) on the five-qubit code … -/
theorem naive_corrects_fiveQubit (e : BVec) (he : e.length = 10) (hw : bsfWt e ≤ 1) :
    ∃ r, naiveDecoderDecode naiveDefaultMaxQubits Basic.fiveQubit.stabilizers 5
        (synd Basic.fiveQubit.stabilizers e) = .ok (some r) ∧
      corrected Basic.fiveQubit.stabilizers fiveL e r = true :=
  naive_default_corrects_partial _ fiveL 5 3 (by decide) (by decide +kernel) distHyp_fiveQubit
    (by decide) e he hw

/-- … and on the Steane code -/
theorem naive_corrects_steane (e : BVec) (he : e.length = 14) (hw : bsfWt e ≤ 1) :
    ∃ r, naiveDecoderDecode naiveDefaultMaxQubits Basic.steane.stabilizers 7
        (synd Basic.steane.stabilizers e) = .ok (some r) ∧
      corrected Basic.steane.stabilizers steaneL e r = true :=
  naive_default_corrects_partial _ steaneL 7 3 (by decide) (by decide +kernel) distHyp_steane
    (by decide) e he hw

/-- **naive_mixed_support_counterexample** (finding D5): on the five-qubit code (t = 1) the error
    `XZIII` has |X-support| = |Z-support| = 1 = t, the naive decoder answers `IIIIZ`, and
    `IIIIZ ⊕ XZIII` is not a stabilizer product — the property's per-component hypothesis does not
    suffice for the naive decoder. -/
theorem naive_mixed_support_counterexample :
    let S := Basic.fiveQubit.stabilizers
    let e := toBsf (Basic.ps "XZIII")
    bsfWt (xPart e) = 1 ∧ bsfWt (zPart e) = 1 ∧ (3 - 1) / 2 = 1 ∧
    naiveDecoderDecode naiveDefaultMaxQubits S 5 (synd S e) = .ok (some (toBsf (Basic.ps "IIIIZ"))) ∧
    corrected S fiveL e (toBsf (Basic.ps "IIIIZ")) = false := by
  decide +kernel

/-! ### non-vacuity -/
example : naiveDecode Basic.steane.stabilizers 7 7 (synd Basic.steane.stabilizers (toBsf (Basic.ps "IIYIIII")))
    = some (toBsf (Basic.ps "IIYIIII")) := by decide +kernel
example : ∃ e : BVec, e.length = 10 ∧ bsfWt e ≤ 1 ∧ e ≠ zeros 10 := ⟨toBsf (Basic.ps "IIYII"), by decide⟩
example : naiveDecode Basic.fiveQubit.stabilizers 5 5 [true, true, true, true, true] = none := by decide +kernel

end Qec.C14
