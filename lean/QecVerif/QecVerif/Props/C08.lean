/-
  C08 — the advertised distance d in `n_k_d` is the code's true minimum distance.

  Property theorems only; helper lemmas live in Lemmas/Distance.lean (spec, CSS split, searches) and
  Lemmas/DistanceWeights.lean (closed-form weights of the supplied logicals).

  What is proved for ALL sizes: the weights of every supplied logical (`logical_weights_*`: none is lighter
  than d), attainment of d by the lighter supplied logical (`distance_attained_*`, with C07's commutation /
  pairing facts as explicit hypotheses `h_comm…`, `h_pair…` — they belong to C07 and are discharged there),
  the CSS split, soundness and completeness of the executable searches that the harness runs on the REAL
  matrices, and soundness of the certificate against "not a product of stabilizers".
  What is proved by kernel evaluation only (named `…_bounded`): `IsDistance` for the small sizes listed.
  The basic codes: `distance_basic_five`, `distance_basic_steane` (exhaustive, kernel-evaluated; they ARE the
  full statement for these two fixed codes).

  The ALL-SIZES LOWER BOUND (disjoint translates) is proved for the planar, toric, rotated planar and rotated
  toric codes: `distance_lower_planar`, `distance_lower_toric`, `distance_lower_rotatedplanar`,
  `distance_lower_rotatedtoric` (every operator of length 2n that commutes with all stabilizer generators and
  anticommutes with a supplied logical has weight ≥ min R C; rectangles and the 2×N strips included), and with
  `distance_attained_*` (whose C07 hypotheses are discharged from Props/C07: `planar_valid`, `toric_valid`,
  `rotated_planar_valid`, `rtoric_valid`, `logical_pairing`) the four theorems `planar_isDistance`,
  `toric_isDistance`, `rotatedplanar_isDistance`, `rotatedtoric_isDistance : IsDistance … (min R C)` for ALL
  constructible sizes.
  Proof (Lemmas/DistanceLower*.lean): for an operator `e` in the normaliser, commutation with the generators of
  one strip between two neighbouring translates (columns / rows) of a logical operator makes the parity of the
  relevant bits of `e` equal on both translates — the generators telescope (`strip_parity`, planar / toric) or
  pair up the sites of both translates (`strip_pairs_pad`, `strip_pairs_periodic`, rotated codes) — so if `e`
  anticommutes with the logical it has a set bit on each of the C (resp. R) pairwise disjoint translates
  (`wt_ge_of_grid`, `wt_ge_of_disjoint`).

  The colour 6.6.6 code, ALL odd sizes ≥ 3 (Props/C08/Color666.lean): `distance_lower_color666` and
  `color666_isDistance : IsDistance … size`.  Disjoint translates cannot exist there (`n < L²`); the proof
  (Lemmas/DistanceLowerColor666.lean) writes the relevant half of a logical as the complement of a sum of
  plaquettes (normaliser completeness, C07) and shows by induction on the size — one strip of three rows at a
  time, a transfer-matrix inequality with an explicit potential — that every selection of plaquettes leaves at
  least `L` sites evenly covered (`color666_even_cover`).

  STATED, NOT PROVED: nothing.  `normaliser_complete` (F6(b)) — for `S` of rank `n − k` and `2k` logicals with the
    canonical commutation relations, `NormaliserComplete n S L` — is the hypothesis `hcomp` of
    `isDistanceSpan_of_isDistance` in this file; it is proved in Lemmas/NormaliserBridge.lean / Props/C07/Normaliser.lean
    and discharged for every family in Props/C08/Span.lean (`*_isDistanceSpan`).
-/
import QecVerif.Lemmas.Distance
import QecVerif.Lemmas.DistanceWeights
import QecVerif.Model.Basic
import QecVerif.Lemmas.DistanceLowerPlanar
import QecVerif.Lemmas.DistanceLowerToric
import QecVerif.Lemmas.DistanceLowerRotatedPlanar
import QecVerif.Lemmas.DistanceLowerRotatedToric
import QecVerif.Props.C07.Planar
import QecVerif.Props.C07.Toric
import QecVerif.Props.C07.RotatedPlanar
import QecVerif.Props.C07.RotatedToric
import QecVerif.Props.C08.Color666
namespace Qec.C08
open Qec Qec.Distance

/-! ### the CSS split and the verified searches (generic: any matrices) -/

/-- **CSS split**: for a code all of whose stabilizer generators and logicals are X-type or Z-type, the X-part
    or the Z-part of any non-trivial logical `e` is itself a non-trivial logical (commutes with all of `S`,
    anticommutes with some logical), is X-only resp. Z-only, and has weight ≤ `wt e`.  Hence the minimum weight
    over all Paulis is attained on an X-only or Z-only operator. -/
theorem css_split (n : Nat) (S L : List BVec) (e : BVec) (hS : isCSS n S = true) (hL : isCSS n L = true)
    (he : e.length = 2 * n) (h : IsLogical S L e) :
    (IsLogical S L (xPart n e) ∧ isXOnly (xPart n e) = true ∧ (xPart n e).length = 2 * n ∧ wt (xPart n e) ≤ wt e) ∨
    (IsLogical S L (zPart n e) ∧ isZOnly (zPart n e) = true ∧ (zPart n e).length = 2 * n ∧ wt (zPart n e) ≤ wt e) := by
  rcases css_split_lemma n S L e hS hL he h with ⟨h1, h2⟩ | ⟨h1, h2⟩
  · exact Or.inl ⟨h1, isXOnly_xPart n e he, xOp_length n _ (xHalf_len n e he), h2⟩
  · exact Or.inr ⟨h1, isZOnly_zPart n e he, zOp_length n _ (zHalf_len n e he), h2⟩

/-- **search soundness and completeness** (the executable CSS-split search, all sizes, any matrices with rows
    of length `2 n`): a returned operator is an X-only or Z-only non-trivial logical of weight `< d`; if the
    search returns `none`, no X-only or Z-only operator of weight `< d` is a non-trivial logical. -/
theorem search_sound (n : Nat) (S L : List BVec) (d : Nat)
    (hS : ∀ s ∈ S, s.length = 2 * n) (hL : ∀ l ∈ L, l.length = 2 * n) :
    (∀ e, lightLogical? n S L d = some e →
        e.length = 2 * n ∧ wt e < d ∧ IsLogical S L e ∧ (isXOnly e = true ∨ isZOnly e = true)) ∧
    (lightLogical? n S L d = none →
        ∀ e, e.length = 2 * n → (isXOnly e = true ∨ isZOnly e = true) → wt e < d → ¬ IsLogical S L e) :=
  ⟨fun e h => lightLogical_some n S L d e hS hL h, fun h e he ht hw => lightLogical_none n S L d hS hL h e he ht hw⟩

/-- with the CSS split: if the search finds nothing below `d`, NO operator at all (mixed X/Y/Z included) of
    weight `< d` is a non-trivial logical -/
theorem no_light_logical_of_search (n : Nat) (S L : List BVec) (d : Nat) (hS : isCSS n S = true)
    (hL : isCSS n L = true) (h : lightLogical? n S L d = none) :
    ∀ e, e.length = 2 * n → IsLogical S L e → d ≤ wt e :=
  no_light_logical_of_search_lemma n S L d hS hL h

/-- the all-Pauli search (used for the non-CSS five-qubit code): sound and complete without any hypothesis -/
theorem search_any_sound (n : Nat) (S L : List BVec) (d : Nat) :
    (∀ e, lightLogicalAny? n S L d = some e → e.length = 2 * n ∧ wt e < d ∧ IsLogical S L e) ∧
    (lightLogicalAny? n S L d = none → ∀ e, e.length = 2 * n → IsLogical S L e → d ≤ wt e) :=
  ⟨fun e h => lightLogicalAny_some n S L d e h, fun h e he hl => lightLogicalAny_none n S L d h e he hl⟩

/-- the verified least-weight computations decide the distance -/
theorem distUpTo_isDistance (n : Nat) (S L : List BVec) (m d : Nat) (hS : isCSS n S = true)
    (hL : isCSS n L = true) (h : distUpTo n S L m = some d) : IsDistance n S L d :=
  distUpTo_isDistance_lemma n S L m d hS hL h

theorem distUpToAny_isDistance (n : Nat) (S L : List BVec) (m d : Nat) (h : distUpToAny n S L m = some d) :
    IsDistance n S L d :=
  distUpToAny_isDistance_lemma n S L m d h

/-- the certificate is sound: `isLogicalCert S L e` is exactly "non-trivial logical" of the spec -/
theorem cert_sound (S L : List BVec) (e : BVec) : isLogicalCert S L e = true ↔ IsLogical S L e :=
  isLogicalCert_iff S L e

/-- …and against the property's own wording: an operator that anticommutes with ANY element `l` of the
    normaliser of `S` (in particular with a supplied logical of a valid code, or with a row of the
    stabilizer-derived basis the harness adds) is not a product of stabilizers -/
theorem cert_not_in_span (n : Nat) (S : List BVec) (e l : BVec) (hS : ∀ s ∈ S, s.length = 2 * n)
    (hl : l.length = 2 * n) (hcl : commAll S l = true) (h : bsp e l = true) : ¬ InSpan n S e :=
  cert_not_in_span_lemma n S e l hS hl hcl h

/-- `IsDistance` (stated with logicals) gives the distance in the property's own words ("commutes with all
    stabilizers yet is not a product of stabilizers"), given that the logicals lie in the normaliser and
    normaliser completeness (hypothesis `hcomp`, F6(b), from C07's rank and pairing facts) -/
theorem isDistanceSpan_of_isDistance (n : Nat) (S L : List BVec) (d : Nat)
    (hS : ∀ s ∈ S, s.length = 2 * n) (hL : ∀ l ∈ L, l.length = 2 * n) (hLn : inNormaliser S L = true)
    (hcomp : NormaliserComplete n S L) (h : IsDistance n S L d) : IsDistanceSpan n S d := by
  obtain ⟨⟨e, he, hw, hc, l, hl, ha⟩, hlow⟩ := h
  have hnorm : ∀ l ∈ L, commAll S l = true := by simpa [inNormaliser] using hLn
  refine ⟨⟨e, he, hw, hc, cert_not_in_span_lemma n S e l hS (hL l hl) (hnorm l hl) ha⟩, ?_⟩
  intro e he hc hns
  apply hlow e he
  refine ⟨hc, ?_⟩
  by_contra hno
  apply hns
  apply hcomp e he hc
  intro l hl
  cases hb : bsp e l
  · rfl
  · exact absurd ⟨l, hl, hb⟩ hno

/-! ### closed-form weights of the supplied logicals, all sizes: none is lighter than d -/

open Qec.Distance.Weights

/-- planar: `wt X̄ = R`, `wt Z̄ = C`, `d = min R C` -/
theorem logical_weights_planar (R C : Int) (hR : 2 ≤ R) (hC : 2 ≤ C) :
    (wt (Planar.logicalX R C) : Int) = R ∧ (wt (Planar.logicalZ R C) : Int) = C ∧
    (Planar.nkd R C).2.2 = min R C ∧
    (Planar.nkd R C).2.2 ≤ wt (Planar.logicalX R C) ∧ (Planar.nkd R C).2.2 ≤ wt (Planar.logicalZ R C) := by
  have e1 : ((bsfWt (Planar.logicalX R C) : Nat) : Int) = R := by rw [planar_logicalX_wt R C hR hC]; omega
  have e2 : ((bsfWt (Planar.logicalZ R C) : Nat) : Int) = C := by rw [planar_logicalZ_wt R C hR hC]; omega
  refine ⟨e1, e2, rfl, ?_, ?_⟩ <;> simp only [Planar.nkd, wt] <;> omega

/-- rotated planar: `wt X̄ = C`, `wt Z̄ = R`, `d = min R C` -/
theorem logical_weights_rotatedplanar (R C : Int) (hR : 3 ≤ R) (hC : 3 ≤ C) :
    (wt (RotatedPlanar.logicalX R C) : Int) = C ∧ (wt (RotatedPlanar.logicalZ R C) : Int) = R ∧
    (RotatedPlanar.nkd R C).2.2 = min R C ∧
    (RotatedPlanar.nkd R C).2.2 ≤ wt (RotatedPlanar.logicalX R C) ∧
    (RotatedPlanar.nkd R C).2.2 ≤ wt (RotatedPlanar.logicalZ R C) := by
  have e1 : ((bsfWt (RotatedPlanar.logicalX R C) : Nat) : Int) = C := by
    rw [rotatedplanar_logicalX_wt R C hR hC]; omega
  have e2 : ((bsfWt (RotatedPlanar.logicalZ R C) : Nat) : Int) = R := by
    rw [rotatedplanar_logicalZ_wt R C hR hC]; omega
  refine ⟨e1, e2, rfl, ?_, ?_⟩ <;> simp only [RotatedPlanar.nkd, wt] <;> omega

/-- toric: `wt X̄₁ = wt Z̄₂ = R`, `wt X̄₂ = wt Z̄₁ = C`, `d = min R C` -/
theorem logical_weights_toric (R C : Int) (hR : 2 ≤ R) (hC : 2 ≤ C) :
    (wt (Toric.logicalX1 R C) : Int) = R ∧ (wt (Toric.logicalX2 R C) : Int) = C ∧
    (wt (Toric.logicalZ1 R C) : Int) = C ∧ (wt (Toric.logicalZ2 R C) : Int) = R ∧
    (Toric.nkd R C).2.2 = min R C ∧
    ∀ l ∈ Toric.logicalXs R C ++ Toric.logicalZs R C, (Toric.nkd R C).2.2 ≤ wt l := by
  have e1 : ((bsfWt (Toric.logicalX1 R C) : Nat) : Int) = R := by rw [toric_logicalX1_wt R C hR hC]; omega
  have e2 : ((bsfWt (Toric.logicalX2 R C) : Nat) : Int) = C := by rw [toric_logicalX2_wt R C hR hC]; omega
  have e3 : ((bsfWt (Toric.logicalZ1 R C) : Nat) : Int) = C := by rw [toric_logicalZ1_wt R C hR hC]; omega
  have e4 : ((bsfWt (Toric.logicalZ2 R C) : Nat) : Int) = R := by rw [toric_logicalZ2_wt R C hR hC]; omega
  refine ⟨e1, e2, e3, e4, rfl, ?_⟩
  intro l hl
  simp only [Toric.logicalXs, Toric.logicalZs, List.cons_append, List.nil_append, List.mem_cons, List.not_mem_nil,
    or_false] at hl
  rcases hl with rfl | rfl | rfl | rfl <;> simp only [Toric.nkd, wt] <;> omega

/-- rotated toric: `wt X̄₁ = wt Z̄₂ = R`, `wt X̄₂ = wt Z̄₁ = C`, `d = min R C` -/
theorem logical_weights_rotatedtoric (R C : Int) (hR : 2 ≤ R) (hC : 2 ≤ C) :
    (wt (RotatedToric.logicalX1 R C) : Int) = R ∧ (wt (RotatedToric.logicalX2 R C) : Int) = C ∧
    (wt (RotatedToric.logicalZ1 R C) : Int) = C ∧ (wt (RotatedToric.logicalZ2 R C) : Int) = R ∧
    (RotatedToric.nkd R C).2.2 = min R C ∧
    ∀ l ∈ RotatedToric.logicalXs R C ++ RotatedToric.logicalZs R C, (RotatedToric.nkd R C).2.2 ≤ wt l := by
  have e1 : ((bsfWt (RotatedToric.logicalX1 R C) : Nat) : Int) = R := by rw [rotatedtoric_logicalX1_wt R C hR hC]; omega
  have e2 : ((bsfWt (RotatedToric.logicalX2 R C) : Nat) : Int) = C := by rw [rotatedtoric_logicalX2_wt R C hR hC]; omega
  have e3 : ((bsfWt (RotatedToric.logicalZ1 R C) : Nat) : Int) = C := by rw [rotatedtoric_logicalZ1_wt R C hR hC]; omega
  have e4 : ((bsfWt (RotatedToric.logicalZ2 R C) : Nat) : Int) = R := by rw [rotatedtoric_logicalZ2_wt R C hR hC]; omega
  refine ⟨e1, e2, e3, e4, rfl, ?_⟩
  intro l hl
  simp only [RotatedToric.logicalXs, RotatedToric.logicalZs, List.cons_append, List.nil_append, List.mem_cons, List.not_mem_nil,
    or_false] at hl
  rcases hl with rfl | rfl | rfl | rfl <;> simp only [RotatedToric.nkd, wt] <;> omega

/-- colour 6.6.6: `wt X̄ = wt Z̄ = size = d` -/
theorem logical_weights_color666 (L : Int) (hL : 3 ≤ L) (hodd : L % 2 = 1) :
    (wt (Color666.logicalX L) : Int) = L ∧ (wt (Color666.logicalZ L) : Int) = L ∧ (Color666.nkd L).2.2 = L := by
  have e1 : ((bsfWt (Color666.logicalX L) : Nat) : Int) = L := by rw [color666_logicalX_wt L hL hodd]; omega
  have e2 : ((bsfWt (Color666.logicalZ L) : Nat) : Int) = L := by rw [color666_logicalZ_wt L hL hodd]; omega
  exact ⟨e1, e2, rfl⟩

/-! ### d is attained by the lighter supplied logical, all sizes
    (C07's facts — the logical commutes with every stabilizer, and anticommutes with its partner — are the
    hypotheses `h_comm…`, `h_pair…`; everything about weights and lengths is proved here) -/

theorem distance_attained_planar (R C : Int) (hR : 2 ≤ R) (hC : 2 ≤ C)
    (h_commX : commAll (Planar.stabilizers R C) (Planar.logicalX R C) = true)
    (h_commZ : commAll (Planar.stabilizers R C) (Planar.logicalZ R C) = true)
    (h_pair : bsp (Planar.logicalX R C) (Planar.logicalZ R C) = true) :
    ∃ e, e.length = 2 * (Planar.nQubits R C).toNat ∧ (wt e : Int) = (Planar.nkd R C).2.2 ∧
      IsLogical (Planar.stabilizers R C) [Planar.logicalX R C, Planar.logicalZ R C] e := by
  obtain ⟨w1, w2, hd, _, _⟩ := logical_weights_planar R C hR hC
  have l1 := planar_logicalX_len R C hR hC
  have l2 := planar_logicalZ_len R C hR hC
  by_cases h : R ≤ C
  · exact ⟨_, l1, by rw [w1, hd]; omega, h_commX, _, by simp, h_pair⟩
  · refine ⟨_, l2, by rw [w2, hd]; omega, h_commZ, Planar.logicalX R C, by simp, ?_⟩
    rw [C09.bsp_symm _ _ (by rw [l1, l2]) (by rw [l2]; omega)]; exact h_pair

theorem distance_attained_rotatedplanar (R C : Int) (hR : 3 ≤ R) (hC : 3 ≤ C)
    (h_commX : commAll (RotatedPlanar.stabilizers R C) (RotatedPlanar.logicalX R C) = true)
    (h_commZ : commAll (RotatedPlanar.stabilizers R C) (RotatedPlanar.logicalZ R C) = true)
    (h_pair : bsp (RotatedPlanar.logicalX R C) (RotatedPlanar.logicalZ R C) = true) :
    ∃ e, e.length = 2 * (RotatedPlanar.nQubits R C).toNat ∧ (wt e : Int) = (RotatedPlanar.nkd R C).2.2 ∧
      IsLogical (RotatedPlanar.stabilizers R C) [RotatedPlanar.logicalX R C, RotatedPlanar.logicalZ R C] e := by
  obtain ⟨w1, w2, hd, _, _⟩ := logical_weights_rotatedplanar R C hR hC
  have l1 := rotatedplanar_logicalX_len R C hR hC
  have l2 := rotatedplanar_logicalZ_len R C hR hC
  by_cases h : C ≤ R
  · exact ⟨_, l1, by rw [w1, hd]; omega, h_commX, _, by simp, h_pair⟩
  · refine ⟨_, l2, by rw [w2, hd]; omega, h_commZ, RotatedPlanar.logicalX R C, by simp, ?_⟩
    rw [C09.bsp_symm _ _ (by rw [l1, l2]) (by rw [l2]; omega)]; exact h_pair

theorem distance_attained_toric (R C : Int) (hR : 2 ≤ R) (hC : 2 ≤ C)
    (h_commX1 : commAll (Toric.stabilizers R C) (Toric.logicalX1 R C) = true)
    (h_commX2 : commAll (Toric.stabilizers R C) (Toric.logicalX2 R C) = true)
    (h_pair1 : bsp (Toric.logicalX1 R C) (Toric.logicalZ1 R C) = true)
    (h_pair2 : bsp (Toric.logicalX2 R C) (Toric.logicalZ2 R C) = true) :
    ∃ e, e.length = 2 * (Toric.nQubits R C).toNat ∧ (wt e : Int) = (Toric.nkd R C).2.2 ∧
      IsLogical (Toric.stabilizers R C) (Toric.logicalXs R C ++ Toric.logicalZs R C) e := by
  obtain ⟨w1, w2, _, _, hd, _⟩ := logical_weights_toric R C hR hC
  by_cases h : R ≤ C
  · exact ⟨_, toric_logicalX1_len R C hR hC, by rw [w1, hd]; omega, h_commX1, Toric.logicalZ1 R C,
      by simp [Toric.logicalXs, Toric.logicalZs], h_pair1⟩
  · exact ⟨_, toric_logicalX2_len R C hR hC, by rw [w2, hd]; omega, h_commX2, Toric.logicalZ2 R C,
      by simp [Toric.logicalXs, Toric.logicalZs], h_pair2⟩

theorem distance_attained_rotatedtoric (R C : Int) (hR : 2 ≤ R) (hC : 2 ≤ C)
    (h_commX1 : commAll (RotatedToric.stabilizers R C) (RotatedToric.logicalX1 R C) = true)
    (h_commX2 : commAll (RotatedToric.stabilizers R C) (RotatedToric.logicalX2 R C) = true)
    (h_pair1 : bsp (RotatedToric.logicalX1 R C) (RotatedToric.logicalZ1 R C) = true)
    (h_pair2 : bsp (RotatedToric.logicalX2 R C) (RotatedToric.logicalZ2 R C) = true) :
    ∃ e, e.length = 2 * (RotatedToric.nQubits R C).toNat ∧ (wt e : Int) = (RotatedToric.nkd R C).2.2 ∧
      IsLogical (RotatedToric.stabilizers R C) (RotatedToric.logicalXs R C ++ RotatedToric.logicalZs R C) e := by
  obtain ⟨w1, w2, _, _, hd, _⟩ := logical_weights_rotatedtoric R C hR hC
  by_cases h : R ≤ C
  · exact ⟨_, rotatedtoric_logicalX1_len R C hR hC, by rw [w1, hd]; omega, h_commX1, RotatedToric.logicalZ1 R C,
      by simp [RotatedToric.logicalXs, RotatedToric.logicalZs], h_pair1⟩
  · exact ⟨_, rotatedtoric_logicalX2_len R C hR hC, by rw [w2, hd]; omega, h_commX2, RotatedToric.logicalZ2 R C,
      by simp [RotatedToric.logicalXs, RotatedToric.logicalZs], h_pair2⟩

theorem distance_attained_color666 (L : Int) (hL : 3 ≤ L) (hodd : L % 2 = 1)
    (h_commX : commAll (Color666.stabilizers L) (Color666.logicalX L) = true)
    (h_pair : bsp (Color666.logicalX L) (Color666.logicalZ L) = true) :
    ∃ e, e.length = 2 * (Color666.nQubits L).toNat ∧ (wt e : Int) = (Color666.nkd L).2.2 ∧
      IsLogical (Color666.stabilizers L) [Color666.logicalX L, Color666.logicalZ L] e := by
  obtain ⟨w1, _, hd⟩ := logical_weights_color666 L hL hodd
  exact ⟨_, color666_logicalX_len L hL hodd, by rw [w1, hd], h_commX, Color666.logicalZ L, by simp, h_pair⟩

/-! ### the all-sizes lower bound (disjoint translates) and the distance of the planar and toric codes -/

/-- **planar, all R, C ≥ 2**: every operator that commutes with all stabilizer generators and anticommutes with
    a supplied logical has weight at least `min R C` (rectangles included) -/
theorem distance_lower_planar (R C : Int) (hR : 2 ≤ R) (hC : 2 ≤ C) (e : BVec)
    (he : e.length = 2 * (Planar.nQubits R C).toNat)
    (h : IsLogical (Planar.stabilizers R C) [Planar.logicalX R C, Planar.logicalZ R C] e) :
    min R C ≤ (wt e : Int) :=
  DistLower.Planar.lower R C hR hC e he h

/-- **toric, all R, C ≥ 2**: the same for the toric code (k = 2, all four supplied logicals) -/
theorem distance_lower_toric (R C : Int) (hR : 2 ≤ R) (hC : 2 ≤ C) (e : BVec)
    (he : e.length = 2 * (Toric.nQubits R C).toNat)
    (h : IsLogical (Toric.stabilizers R C) (Toric.logicalXs R C ++ Toric.logicalZs R C) e) :
    min R C ≤ (wt e : Int) :=
  DistLower.Toric.lower R C hR hC e he h

/-- **the advertised distance of the planar code is its true minimum distance, for every size** (no hypotheses
    left: C07's commutation and pairing facts are taken from Props/C07/Planar.lean) -/
theorem planar_isDistance (R C : Int) (hR : 2 ≤ R) (hC : 2 ≤ C) :
    IsDistance (Planar.nQubits R C).toNat (Planar.stabilizers R C) [Planar.logicalX R C, Planar.logicalZ R C]
      (Planar.nkd R C).2.2.toNat ∧ (Planar.nkd R C).2.2 = min R C := by
  have v := C07.Planar.planar_valid R C hR hC
  have hcX := DistLower.commAll_of_rows _ _ _ v.len_S (planar_logicalX_len R C hR hC)
    (fun s hs => v.stab_comm_Lx s hs _ (List.mem_singleton.mpr rfl))
  have hcZ := DistLower.commAll_of_rows _ _ _ v.len_S (planar_logicalZ_len R C hR hC)
    (fun s hs => v.stab_comm_Lz s hs _ (List.mem_singleton.mpr rfl))
  obtain ⟨e, he, hw, hlog⟩ := distance_attained_planar R C hR hC hcX hcZ (C07.Planar.logical_pairing R C hR hC).1
  refine ⟨⟨⟨e, he, by omega, hlog⟩, fun e' he' hl' => ?_⟩, rfl⟩
  have := distance_lower_planar R C hR hC e' he' hl'
  simp only [Planar.nkd]
  omega

/-- **the advertised distance of the toric code is its true minimum distance, for every size** -/
theorem toric_isDistance (R C : Int) (hR : 2 ≤ R) (hC : 2 ≤ C) :
    IsDistance (Toric.nQubits R C).toNat (Toric.stabilizers R C) (Toric.logicalXs R C ++ Toric.logicalZs R C)
      (Toric.nkd R C).2.2.toNat ∧ (Toric.nkd R C).2.2 = min R C := by
  have v := C07.Toric.toric_valid R C hR hC
  have hp := (C07.Toric.logical_pairing R C hR hC).1
  have hc1 := DistLower.commAll_of_rows _ _ _ v.len_S (toric_logicalX1_len R C hR hC)
    (fun s hs => v.stab_comm_Lx s hs _ (by simp [Toric.logicalXs]))
  have hc2 := DistLower.commAll_of_rows _ _ _ v.len_S (toric_logicalX2_len R C hR hC)
    (fun s hs => v.stab_comm_Lx s hs _ (by simp [Toric.logicalXs]))
  obtain ⟨e, he, hw, hlog⟩ := distance_attained_toric R C hR hC hc1 hc2
    (by simpa [Toric.logicalXs, Toric.logicalZs] using hp 0 (by omega) 0 (by omega))
    (by simpa [Toric.logicalXs, Toric.logicalZs] using hp 1 (by omega) 1 (by omega))
  refine ⟨⟨⟨e, he, by omega, hlog⟩, fun e' he' hl' => ?_⟩, rfl⟩
  have := distance_lower_toric R C hR hC e' he' hl'
  simp only [Toric.nkd]
  omega

/-- **rotated planar, all R, C ≥ 3**: weight at least `min R C` -/
theorem distance_lower_rotatedplanar (R C : Int) (hR : 3 ≤ R) (hC : 3 ≤ C) (e : BVec)
    (he : e.length = 2 * (RotatedPlanar.nQubits R C).toNat)
    (h : IsLogical (RotatedPlanar.stabilizers R C) [RotatedPlanar.logicalX R C, RotatedPlanar.logicalZ R C] e) :
    min R C ≤ (wt e : Int) :=
  DistLower.RotatedPlanar.lower R C hR hC e he h

/-- **rotated toric, all even R, C ≥ 2** (the constructible sizes, the 2×N strips included): weight at least
    `min R C` -/
theorem distance_lower_rotatedtoric (R C : Int) (hR : 2 ≤ R) (hC : 2 ≤ C) (hRe : R % 2 = 0) (hCe : C % 2 = 0)
    (e : BVec) (he : e.length = 2 * (RotatedToric.nQubits R C).toNat)
    (h : IsLogical (RotatedToric.stabilizers R C) (RotatedToric.logicalXs R C ++ RotatedToric.logicalZs R C) e) :
    min R C ≤ (wt e : Int) :=
  DistLower.RotatedToric.lower R C hR hC hRe hCe e he h

/-- **the advertised distance of the rotated planar code is its true minimum distance, for every size** -/
theorem rotatedplanar_isDistance (R C : Int) (hR : 3 ≤ R) (hC : 3 ≤ C) :
    IsDistance (RotatedPlanar.nQubits R C).toNat (RotatedPlanar.stabilizers R C)
      [RotatedPlanar.logicalX R C, RotatedPlanar.logicalZ R C] (RotatedPlanar.nkd R C).2.2.toNat ∧
    (RotatedPlanar.nkd R C).2.2 = min R C := by
  have v := C07.RotatedPlanar.rotated_planar_valid R C hR hC
  have hcX := DistLower.commAll_of_rows _ _ _ v.len_S (rotatedplanar_logicalX_len R C hR hC)
    (fun s hs => v.stab_comm_Lx s hs _ (List.mem_singleton.mpr rfl))
  have hcZ := DistLower.commAll_of_rows _ _ _ v.len_S (rotatedplanar_logicalZ_len R C hR hC)
    (fun s hs => v.stab_comm_Lz s hs _ (List.mem_singleton.mpr rfl))
  obtain ⟨e, he, hw, hlog⟩ := distance_attained_rotatedplanar R C hR hC hcX hcZ
    (C07.RotatedPlanar.logical_pairing R C hR hC).1
  refine ⟨⟨⟨e, he, by omega, hlog⟩, fun e' he' hl' => ?_⟩, rfl⟩
  have := distance_lower_rotatedplanar R C hR hC e' he' hl'
  simp only [RotatedPlanar.nkd]
  omega

/-- **the advertised distance of the rotated toric code is its true minimum distance, for every (even) size** -/
theorem rotatedtoric_isDistance (R C : Int) (hR : 2 ≤ R) (hC : 2 ≤ C) (hRe : R % 2 = 0) (hCe : C % 2 = 0) :
    IsDistance (RotatedToric.nQubits R C).toNat (RotatedToric.stabilizers R C)
      (RotatedToric.logicalXs R C ++ RotatedToric.logicalZs R C) (RotatedToric.nkd R C).2.2.toNat ∧
    (RotatedToric.nkd R C).2.2 = min R C := by
  have hS : RotatedToricCode.Size R C := ⟨hR, hC, hRe, hCe⟩
  have v := C07.RotatedToric.rtoric_valid R C hS
  have hp := (C07.RotatedToric.logical_pairing R C hS).1
  have hc1 := DistLower.commAll_of_rows _ _ _ v.len_S (rotatedtoric_logicalX1_len R C hR hC)
    (fun s hs => v.stab_comm_Lx s hs _ (by simp [RotatedToric.logicalXs]))
  have hc2 := DistLower.commAll_of_rows _ _ _ v.len_S (rotatedtoric_logicalX2_len R C hR hC)
    (fun s hs => v.stab_comm_Lx s hs _ (by simp [RotatedToric.logicalXs]))
  obtain ⟨e, he, hw, hlog⟩ := distance_attained_rotatedtoric R C hR hC hc1 hc2
    (by simpa [RotatedToric.logicalXs, RotatedToric.logicalZs] using hp 0 (by omega) 0 (by omega))
    (by simpa [RotatedToric.logicalXs, RotatedToric.logicalZs] using hp 1 (by omega) 1 (by omega))
  refine ⟨⟨⟨e, he, by omega, hlog⟩, fun e' he' hl' => ?_⟩, rfl⟩
  have := distance_lower_rotatedtoric R C hR hC hRe hCe e' he' hl'
  simp only [RotatedToric.nkd]
  omega

/-! ### the basic codes: exhaustive, kernel-evaluated (the full statement for these fixed codes) -/

/-- five-qubit code: distance 3 — every one of the Paulis of weight < 3 is checked, and a weight-3 non-trivial
    logical exists (the supplied `XXXXX`, `ZZZZZ` have weight 5: d is NOT attained by the supplied logicals) -/
theorem distance_basic_five :
    Basic.fiveQubit.d = some 3 ∧
    IsDistance 5 Basic.fiveQubit.stabilizers (Basic.fiveQubit.logicalXs ++ Basic.fiveQubit.logicalZs) 3 :=
  ⟨rfl, distUpToAny_isDistance_lemma 5 _ _ 3 3 (by decide +kernel)⟩

/-- Steane code: distance 3 (CSS split + exhaustive search) -/
theorem distance_basic_steane :
    Basic.steane.d = some 3 ∧
    IsDistance 7 Basic.steane.stabilizers (Basic.steane.logicalXs ++ Basic.steane.logicalZs) 3 :=
  ⟨rfl, distUpTo_isDistance_lemma 7 _ _ 3 3 (by decide +kernel) (by decide +kernel) (by decide +kernel)⟩

/-! ### small lattice sizes by kernel evaluation of the verified search (BOUNDED results) -/

theorem distance_planar_small_bounded : ∀ rc ∈ [((2 : Int), (2 : Int)), (2, 3), (3, 2), (3, 3)],
    IsDistance (Planar.nQubits rc.1 rc.2).toNat (Planar.stabilizers rc.1 rc.2)
      [Planar.logicalX rc.1 rc.2, Planar.logicalZ rc.1 rc.2] (Planar.nkd rc.1 rc.2).2.2.toNat := by
  intro rc h; apply checkDist_sound; revert rc h; decide +kernel

theorem distance_toric_small_bounded : ∀ rc ∈ [((2 : Int), (2 : Int)), (2, 3), (3, 2), (3, 3)],
    IsDistance (Toric.nQubits rc.1 rc.2).toNat (Toric.stabilizers rc.1 rc.2)
      (Toric.logicalXs rc.1 rc.2 ++ Toric.logicalZs rc.1 rc.2) (Toric.nkd rc.1 rc.2).2.2.toNat := by
  intro rc h; apply checkDist_sound; revert rc h; decide +kernel

theorem distance_rotatedplanar_small_bounded : ∀ rc ∈ [((3 : Int), (3 : Int)), (3, 4), (4, 3)],
    IsDistance (RotatedPlanar.nQubits rc.1 rc.2).toNat (RotatedPlanar.stabilizers rc.1 rc.2)
      [RotatedPlanar.logicalX rc.1 rc.2, RotatedPlanar.logicalZ rc.1 rc.2]
      (RotatedPlanar.nkd rc.1 rc.2).2.2.toNat := by
  intro rc h; apply checkDist_sound; revert rc h; decide +kernel

theorem distance_rotatedtoric_small_bounded : ∀ rc ∈ [((2 : Int), (2 : Int)), (2, 4), (4, 2), (4, 4)],
    IsDistance (RotatedToric.nQubits rc.1 rc.2).toNat (RotatedToric.stabilizers rc.1 rc.2)
      (RotatedToric.logicalXs rc.1 rc.2 ++ RotatedToric.logicalZs rc.1 rc.2)
      (RotatedToric.nkd rc.1 rc.2).2.2.toNat := by
  intro rc h; apply checkDist_sound; revert rc h; decide +kernel

theorem distance_color666_small_bounded :
    IsDistance (Color666.nQubits 3).toNat (Color666.stabilizers 3) [Color666.logicalX 3, Color666.logicalZ 3]
      (Color666.nkd 3).2.2.toNat := by
  apply checkDist_sound; decide +kernel

/-! ### non-vacuity: the hypotheses of the all-sizes theorems hold on concrete non-trivial inputs -/

example : commAll (Planar.stabilizers 3 5) (Planar.logicalX 3 5) = true ∧
    commAll (Planar.stabilizers 3 5) (Planar.logicalZ 3 5) = true ∧
    bsp (Planar.logicalX 3 5) (Planar.logicalZ 3 5) = true := by decide +kernel
example : commAll (Toric.stabilizers 3 4) (Toric.logicalX1 3 4) = true ∧
    bsp (Toric.logicalX2 3 4) (Toric.logicalZ2 3 4) = true := by decide +kernel
example : commAll (Color666.stabilizers 5) (Color666.logicalX 5) = true ∧
    bsp (Color666.logicalX 5) (Color666.logicalZ 5) = true := by decide +kernel
example : isCSS 20 (RotatedPlanar.stabilizers 4 5) = true ∧
    isCSS 20 [RotatedPlanar.logicalX 4 5, RotatedPlanar.logicalZ 4 5] = true ∧
    lightLogical? 20 (RotatedPlanar.stabilizers 4 5) [RotatedPlanar.logicalX 4 5, RotatedPlanar.logicalZ 4 5] 3 = none := by
  decide +kernel
-- the search does find a logical when asked beyond the distance (Steane: weight 3 < 4)
example : (lightLogical? 7 Basic.steane.stabilizers (Basic.steane.logicalXs ++ Basic.steane.logicalZs) 4).isSome
    = true := by decide +kernel
example : inNormaliser Basic.fiveQubit.stabilizers (Basic.fiveQubit.logicalXs ++ Basic.fiveQubit.logicalZs) = true := by
  decide +kernel

-- the lower-bound theorems are not vacuous: a non-trivial logical of the 3×5 planar code (its logical X)
example : IsLogical (Planar.stabilizers 3 5) [Planar.logicalX 3 5, Planar.logicalZ 3 5] (Planar.logicalX 3 5) :=
  (isLogicalCert_iff _ _ _).mp (by decide +kernel)
example : IsLogical (Toric.stabilizers 2 3) (Toric.logicalXs 2 3 ++ Toric.logicalZs 2 3) (Toric.logicalZ2 2 3) :=
  (isLogicalCert_iff _ _ _).mp (by decide +kernel)

example : IsLogical (RotatedPlanar.stabilizers 3 4) [RotatedPlanar.logicalX 3 4, RotatedPlanar.logicalZ 3 4]
    (RotatedPlanar.logicalZ 3 4) := (isLogicalCert_iff _ _ _).mp (by decide +kernel)
example : IsLogical (RotatedToric.stabilizers 2 4) (RotatedToric.logicalXs 2 4 ++ RotatedToric.logicalZs 2 4)
    (RotatedToric.logicalX1 2 4) := (isLogicalCert_iff _ _ _).mp (by decide +kernel)

end Qec.C08
