/-
  C06 — Seeded runs are reproducible; decoding is pure and history-independent.

  Part (i): theorems about `Model/SeededRun.lean` (`qecsim.app._run` with the generator made an
  explicit stream position; `gen`, `flip`, `decode` and the stream are universally quantified).
  Part (ii): theorems about `Model/Memo.lean` (`functools.lru_cache`): caching is unobservable
  exactly when the key determines what the function reads and cached values are not mutated.

  What is NOT a theorem here (explored by the history differential of harness/qv/props/c06.py):
  that the ≈90 real `lru_cache` sites of qecsim are keyed on everything their bodies read, that
  no caller mutates a cached array, and that nothing depends on PYTHONHASHSEED.
-/
import QecVerif.Model.SeededRun
import QecVerif.Model.Memo
import QecVerif.Lemmas.SeededRun
import QecVerif.Lemmas.Memo
namespace Qec.C06
open Qec Qec.Seeded

variable {U : Type}

private theorem run_ok {P : Params U} {σ : Nat → U} {mr mf : Option Nat} {fuel : Nat} {a : Aggregate}
    {F : Final} (h : Seeded.run P σ mr mf fuel = .ok (a, F)) :
    runLoopSeeded P σ mr mf fuel = .ok F ∧ a = aggregate P.n P.T F.state := by
  unfold Seeded.run at h
  cases hl : runLoopSeeded P σ mr mf fuel with
  | error e => rw [hl] at h; cases h
  | ok F' =>
    rw [hl] at h
    simp only [Except.map, Except.ok.injEq, Prod.mk.injEq] at h
    obtain ⟨h1, h2⟩ := h
    subst h2
    exact ⟨rfl, h1.symm⟩

private theorem run_nRun {P : Params U} {σ : Nat → U} {mr mf : Option Nat} {fuel : Nat} {a : Aggregate}
    {F : Final} (h : Seeded.run P σ mr mf fuel = .ok (a, F)) : a.nRun = F.state.nRun := by
  rw [(run_ok h).2]; rfl

private theorem run_inv {P : Params U} {σ : Nat → U} {mr mf : Option Nat} {fuel : Nat} {a : Aggregate}
    {F : Final} (h : Seeded.run P σ mr mf fuel = .ok (a, F)) :
    F.pos = a.nRun * P.dpr ∧ F.records = (List.range a.nRun).map (runAt P σ) := by
  obtain ⟨hinv, _, _⟩ := loop_inv P σ _ mf fuel _ _ _ _ (run_ok h).1 (LInv_init P σ)
  rw [run_nRun h]
  exact ⟨hinv.pos_eq, hinv.acc_eq⟩

/-- **stream position**: a run that performed `n_run` runs has consumed exactly
    `n_run · T · (n + [q truthy]·m)` uniforms — `n` per `generate`, `m` per measurement `choice`,
    nothing else — and produced one record per run. -/
theorem stream_position (P : Params U) (σ : Nat → U) (mr mf : Option Nat) (fuel : Nat) (a : Aggregate)
    (F : Final) (h : Seeded.run P σ mr mf fuel = .ok (a, F)) :
    F.pos = a.nRun * (P.T * (P.n + if P.qTruthy then P.S.length else 0)) ∧
    F.records.length = a.nRun := by
  obtain ⟨h1, h2⟩ := run_inv h
  refine ⟨h1, ?_⟩
  rw [h2]; simp

/-- **which uniforms make which error**: run `k` (0-based) starts at position `k·T·dps`; its step
    error at time `t` is `gen` of the `n` uniforms from `(k·T + t)·dps`, its measurement error
    `flip` of the next `m` (zeros, and no draw, when `q` is falsy).  The records of a returned
    run are exactly these, in order. -/
theorem draws_layout (P : Params U) (σ : Nat → U) (k : Nat) :
    (runAt P σ k).stepErrors =
      (List.range P.T).map (fun t => P.gen (window σ ((k * P.T + t) * P.dps) P.n)) ∧
    (runAt P σ k).stepMeas =
      (List.range P.T).map (fun t =>
        if P.qTruthy then P.flip (window σ ((k * P.T + t) * P.dps + P.n) P.m) else zeros P.m) := by
  have key : ∀ t, k * P.dpr + t * P.dps = (k * P.T + t) * P.dps := by
    intro t; rw [Params.dpr, Nat.add_mul, Nat.mul_assoc]
  unfold runAt
  rw [runOnce_stepErrors, runOnce_stepMeas]
  constructor
  · apply List.map_congr_left; intro t _; rw [key]
  · apply List.map_congr_left; intro t _; rw [key]

/-- the records of a returned run are `runAt 0, …, runAt (n_run − 1)` -/
theorem records_closed_form (P : Params U) (σ : Nat → U) (mr mf : Option Nat) (fuel : Nat) (a : Aggregate)
    (F : Final) (h : Seeded.run P σ mr mf fuel = .ok (a, F)) :
    F.records = (List.range a.nRun).map (runAt P σ) := (run_inv h).2

/-- **determinism**: the returned aggregate and trace are a function of the arguments and of the
    first `n_run·T·(n+[q]m)` stream elements only: any other stream that agrees there gives the
    same result.  (Wall time is not part of the aggregate by construction.) -/
theorem run_deterministic (P : Params U) (σ σ' : Nat → U) (mr mf : Option Nat) (fuel : Nat) (a : Aggregate)
    (F : Final) (h : Seeded.run P σ mr mf fuel = .ok (a, F))
    (hσ : ∀ i, i < a.nRun * (P.T * (P.n + if P.qTruthy then P.S.length else 0)) → σ i = σ' i) :
    Seeded.run P σ' mr mf fuel = .ok (a, F) := by
  obtain ⟨hl, ha⟩ := run_ok h
  have hpos := (run_inv h).1
  have hl' : runLoopSeeded P σ' mr mf fuel = .ok F :=
    loop_congr P _ mf fuel _ _ _ _ hl (LInv_init P σ) fun i _ hi => hσ i (by rw [hpos] at hi; exact hi)
  unfold Seeded.run
  rw [hl', ha]
  rfl

/-- the fuel bound is not observable: two fuels that both suffice give the same result -/
theorem run_fuel_irrelevant (P : Params U) (σ : Nat → U) (mr mf : Option Nat) (fuel fuel' : Nat)
    (r r' : Aggregate × Final) (h : Seeded.run P σ mr mf fuel = .ok r) (h' : Seeded.run P σ mr mf fuel' = .ok r') :
    r = r' := by
  obtain ⟨a, F⟩ := r
  obtain ⟨a', F'⟩ := r'
  obtain ⟨hl, ha⟩ := run_ok h
  obtain ⟨hl', ha'⟩ := run_ok h'
  have : F = F' := by
    rcases Nat.le_total fuel fuel' with hle | hle
    · obtain ⟨k, rfl⟩ := Nat.exists_eq_add_of_le hle
      have := loop_fuel_mono P σ _ mf fuel _ _ _ _ hl k
      unfold runLoopSeeded at hl'
      rw [this] at hl'
      exact Except.ok.inj hl'
    · obtain ⟨k, rfl⟩ := Nat.exists_eq_add_of_le hle
      have := loop_fuel_mono P σ _ mf fuel' _ _ _ _ hl' k
      unfold runLoopSeeded at hl
      rw [this] at hl
      exact (Except.ok.inj hl).symm
  subst this
  rw [ha, ha']

/-- **the seeded run refines C04's scripted run**: its aggregate is C04's `run` applied to the
    outcomes of the runs it performed (so every C04 theorem — exact stopping index, counts and
    sums are folds, pvariance — holds of the seeded run), and every performed run has an outcome. -/
theorem run_refines_scripted (P : Params U) (σ : Nat → U) (mr mf : Option Nat) (fuel : Nat) (a : Aggregate)
    (F : Final) (h : Seeded.run P σ mr mf fuel = .ok (a, F)) :
    Qec.run P.n P.T mr mf (okOuts F.records) = .ok a ∧ (okOuts F.records).length = a.nRun := by
  obtain ⟨hl, ha⟩ := run_ok h
  obtain ⟨rest, h1, h2, h3⟩ := loop_refines P σ _ mf fuel _ _ _ _ hl
  simp only [List.nil_append] at h1
  subst h1
  refine ⟨?_, ?_⟩
  · unfold Qec.run runLoop
    rw [h2, ha]
    rfl
  · rw [h3, (stream_position P σ mr mf fuel a F h).2]

private theorem isPrefix_flatMap {α β : Type} (f : α → List β) {l1 l2 : List α} (h : l1 <+: l2) :
    l1.flatMap f <+: l2.flatMap f := by
  obtain ⟨t, rfl⟩ := h
  rw [List.flatMap_append]
  exact List.prefix_append _ _

/-- **a longer run extends a shorter one**: two runs of the same configuration on the same stream
    with different stopping limits (and fuels): if the first stops after `N` runs and the second
    after `N' ≥ N`, the records of the first — generated step errors, measurement errors, decoder
    inputs, outcomes — are the first `N` records of the second; in particular the generated errors
    and the per-run outcomes are prefixes.  The limits never influence the stream. -/
theorem run_prefix (P : Params U) (σ : Nat → U) (mr mf mr' mf' : Option Nat) (fuel fuel' : Nat)
    (a a' : Aggregate) (F F' : Final)
    (h : Seeded.run P σ mr mf fuel = .ok (a, F)) (h' : Seeded.run P σ mr' mf' fuel' = .ok (a', F'))
    (hN : a.nRun ≤ a'.nRun) :
    F.records = F'.records.take a.nRun ∧
    F.records.flatMap (·.stepErrors) <+: F'.records.flatMap (·.stepErrors) ∧
    F.records.flatMap (·.stepMeas) <+: F'.records.flatMap (·.stepMeas) ∧
    okOuts F.records <+: okOuts F'.records := by
  have h1 := (run_inv h).2
  have h2 := (run_inv h').2
  have hrec : F.records = F'.records.take a.nRun := by
    rw [h1, h2, ← List.map_take, List.take_range, Nat.min_eq_left hN]
  have hpre : F.records <+: F'.records := by rw [hrec]; exact List.take_prefix _ _
  exact ⟨hrec, isPrefix_flatMap _ hpre, isPrefix_flatMap _ hpre, hpre.filterMap _⟩

/-! ### memoisation -/
section memo
open Qec.Memo
variable {Arg Key Val : Type} [DecidableEq Key]

/-- **memoisation is transparent**: if the key determines everything `f` reads (`KeySufficient`)
    and the table holds only correct entries (`Inv`; e.g. it is empty), then after ANY history of
    calls — with any capacity, so with LRU eviction and re-computation too — every answer equals
    `f` on its argument, and the table is still correct. -/
theorem memo_transparent (key : Arg → Key) (f : Arg → Val) (cap : Option Nat) (t : State Key Val)
    (hs : KeySufficient key f) (hinv : Memo.Inv key f t) (h : List Arg) :
    answers key f cap t h = h.map f ∧ Memo.Inv key f (runHistory key f cap t h).2 :=
  runHistory_spec cap hs h t hinv

/-- consequence: the answer to a call does not depend on what was called before it -/
theorem memo_history_independent (key : Arg → Key) (f : Arg → Val) (cap cap' : Option Nat)
    (hs : KeySufficient key f) (h1 h2 : List Arg) (a : Arg) :
    (answers key f cap [] (h1 ++ [a])).getLast? = some (f a) ∧
    (answers key f cap' [] (h2 ++ [a])).getLast? = some (f a) := by
  constructor
  · rw [(memo_transparent key f cap [] hs (Memo.Inv.nil key f) _).1]; simp
  · rw [(memo_transparent key f cap' [] hs (Memo.Inv.nil key f) _).1]; simp

/-- a bounded cache never holds more than `maxsize` entries -/
theorem memo_capacity (key : Arg → Key) (f : Arg → Val) (c : Nat) (t : State Key Val) (ht : t.length ≤ c)
    (h : List Arg) : (runHistory key f (some c) t h).2.length ≤ c :=
  runHistory_length key f c h t ht

/-- **key sufficiency is needed** (what the history differential looks for): a table keyed on the
    first component of a function that reads both components answers the same call `(1,1)`
    differently depending on the history. -/
theorem memo_key_sufficiency_needed :
    answers (Key := Nat) Prod.fst (fun a : Nat × Nat => 10 * a.1 + a.2) none [] [(1, 0), (1, 1)] = [10, 10] ∧
    answers (Key := Nat) Prod.fst (fun a : Nat × Nat => 10 * a.1 + a.2) none [] [(1, 1)] = [11] ∧
    ¬ KeySufficient (Key := Nat) Prod.fst (fun a : Nat × Nat => 10 * a.1 + a.2) := by
  refine ⟨by decide, by decide, ?_⟩
  intro h
  have := h (1, 0) (1, 1) rfl
  simp at this

/-- **no mutation is needed**: with a perfectly good key, a caller that updates the returned value
    in place (a cached numpy array XOR-ed by a decoder) changes what the next identical call gets. -/
theorem memo_mutation_breaks :
    (runOps (Key := Nat) id (fun a : Nat => 10 * a) none []
      [.call 1, .mutate 1 (fun v => v + 1), .call 1]).1 = [10, 11] := by
  decide

end memo

/-! ### non-vacuity: a concrete configuration -/

/-- 2 qubits, stabilizer ZZ, logicals XX / ZI, T = 2 with measurement noise; a uniform is a number
    whose parity is the flip and whose half selects the Pauli; the decoder always answers `XI`. -/
private def exP : Params Nat :=
  { n := 2, T := 2, qTruthy := true
    S := [[false, false, true, true]], L := [[true, true, false, false], [false, false, true, false]]
    gen := fun w => (w.map fun u => u / 2 % 2 == 1) ++ (w.map fun u => u / 4 % 2 == 1)
    flip := fun w => w.map fun u => u % 2 == 1
    decode := fun _ => .bare [true, false, false, false] }

private def exσ : Nat → Nat := fun i => (7 * i + 3) % 8

example : (match runLoopSeeded exP exσ (some 3) (some 2) 10 with
    | .ok F => F.state.nRun == 3 && F.state.nFail == 2 && F.state.nSuccess == 1 && F.pos == 18
        && F.records.length == 3
    | .error _ => false) = true := by decide

example : (match runLoopSeeded exP exσ (some 3) (some 2) 10, runLoopSeeded exP exσ (some 2) none 7 with
    | .ok F', .ok F => (F'.records.map (·.stepErrors)).take 2 == F.records.map (·.stepErrors)
        && F'.state.nRun == 3 && F'.pos == 18 && F.state.nRun == 2 && F.pos == 12
    | _, _ => false) = true := by decide

example : Memo.KeySufficient (Key := Nat × Nat) id (fun a : Nat × Nat => 10 * a.1 + a.2) := by
  intro a b h; simp at h; rw [h]

end Qec.C06
