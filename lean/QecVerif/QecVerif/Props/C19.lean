/-
  C19 — The CLI computes what the API computes and never drops results.

  Theorems about `Model/Cli.lean`, the model of the DECISION LOGIC of `src/qecsim/cli.py`:
  the `name(args)` scanner, the literal-only argument rule, the click validators, the order
  "all parameters accepted, then one API call per probability, then the output protocol", and the
  output protocol itself.

  What these theorems are NOT: click's option parser, Python's `float` / `int` / `ast.literal_eval` /
  `re`, the operating system and the file system are outside the model (they enter as tokens computed
  by the harness with the very same stdlib functions); and "the JSON printed by the CLI equals the API
  result" is a code-vs-code differential run by the harness (`coverage.explored`), not a theorem —
  here it appears only as `delegation_spec`: the model CLI hands the API exactly the arguments it was
  given, once per probability, and outputs the list of results.
-/
import QecVerif.Model.Cli
import QecVerif.Lemmas.Cli
namespace Qec.C19
open Qec Qec.Cli

/-! ### 1. the spec-string scanner -/

/-- the regex of `_ConstructorParamType.convert`, declaratively: `s` is `name` alone, or
    `name ( ws args [,] ws )` where `args` holds no newline (`.` does not match '\n') -/
inductive RegexMatch : List Char → List Char → Option (List Char) → Prop
  | bare (n : List Char) : n ≠ [] → (∀ c ∈ n, isNameChar c = true) → RegexMatch n n none
  | call (n w1 a cm w2 : List Char) : n ≠ [] → (∀ c ∈ n, isNameChar c = true) →
      (∀ c ∈ w1, isSpace c = true) → (∀ c ∈ w2, isSpace c = true) → (cm = [] ∨ cm = [',']) → '\n' ∉ a →
      RegexMatch (n ++ '(' :: (w1 ++ a ++ cm ++ w2 ++ [')'])) n (some a)

/-- **splitSpec_bare**: a bare name made of word characters and dots is returned as is, without arguments. -/
theorem splitSpec_bare (n : List Char) (hn : n ≠ []) (hall : ∀ c ∈ n, isNameChar c = true) :
    splitSpec n = some (n, none) := by
  unfold splitSpec
  simp only [takeWhile_all n hall, dropWhile_all n hall]
  cases n with
  | nil => exact absurd rfl hn
  | cons a t => simp

/-- **splitSpec_spec**: for every name matching the identifier pattern `[\w.]+` and every argument text `a` that
    contains no newline and neither starts nor ends with whitespace, the scanner applied to
    `name(<ws> a [,] <ws>)` returns exactly `(name, a)` — leading / trailing whitespace and ONE trailing comma are
    skipped, nothing else (`a` itself may hold commas, parentheses, quotes, anything). Without the separate comma
    `a` must not itself end with a comma (that comma would be the one skipped). -/
theorem splitSpec_spec (n w1 a w2 : List Char) (comma : Bool)
    (hn : n ≠ []) (hall : ∀ c ∈ n, isNameChar c = true)
    (hw1 : ∀ c ∈ w1, isSpace c = true) (hw2 : ∀ c ∈ w2, isSpace c = true)
    (hnl : '\n' ∉ a)
    (hhead : ∀ x, a.head? = some x → isSpace x = false)
    (hlast : ∀ x, a.getLast? = some x → isSpace x = false ∧ (comma = false → x ≠ ',')) :
    splitSpec (n ++ '(' :: (w1 ++ a ++ (if comma then [','] else []) ++ w2 ++ [')'])) = some (n, some a) := by
  rw [splitSpec_call_eq n _ hn hall]
  have hs : stripArgs (w1 ++ a ++ (if comma then [','] else []) ++ w2) = a := by
    rw [stripArgs_ws_right _ w2 hw2, List.append_assoc, stripArgs_ws_left w1 _ hw1]
    exact stripArgs_core a comma hhead hlast
  rw [hs]
  simp [hnl]

/-- **splitSpec_sound**: whatever the scanner returns is a genuine decomposition of the input according to the
    regex — the name is a non-empty run of `[\w.]`, the argument text sits between the parentheses surrounded only
    by whitespace and at most one trailing comma, and holds no newline. -/
theorem splitSpec_sound (s n : List Char) (args : Option (List Char)) (h : splitSpec s = some (n, args)) :
    RegexMatch s n args := by
  unfold splitSpec at h
  have hname : ∀ c ∈ s.takeWhile isNameChar, isNameChar c = true := fun c hc => mem_takeWhile_sat _ c hc
  have hs : s = s.takeWhile isNameChar ++ s.dropWhile isNameChar := List.takeWhile_append_dropWhile.symm
  generalize s.takeWhile isNameChar = nm at h hname hs
  generalize s.dropWhile isNameChar = dr at h hs
  cases nm with
  | nil => simp at h
  | cons c0 ct =>
    have hne : c0 :: ct ≠ [] := by simp
    simp only [List.isEmpty_cons, Bool.false_eq_true, if_false] at h
    split at h
    · -- bare name
      cases h
      simp only [List.append_nil] at hs
      subst hs
      exact RegexMatch.bare _ hne hname
    · rename_i r
      split at h
      · rename_i bodyRev hr
        split at h
        · cases h
        · rename_i hc
          cases h
          obtain ⟨w1, w2, cm, hb, hw1, hw2, hcm⟩ := stripArgs_decomp bodyRev.reverse
          have hr' : r = bodyRev.reverse ++ [')'] := by
            have := congrArg List.reverse hr
            simpa using this
          have hnl : '\n' ∉ stripArgs bodyRev.reverse := by
            simpa using hc
          have key := RegexMatch.call _ w1 _ cm w2 hne hname hw1 hw2 hcm hnl
          rw [← hb, ← hr'] at key
          rw [hs]
          exact key
      · cases h
    · cases h

/-- **splitSpec_none_iff**: a string is rejected by the scanner ("format as name(<args>)") exactly when the regex
    has no match at all — empty name part, a character other than `(` after the name, no closing parenthesis at the
    very end, or a newline between the first and last non-blank character of the argument text. -/
theorem splitSpec_none_iff (s : List Char) : splitSpec s = none ↔ ¬ ∃ n args, RegexMatch s n args := by
  constructor
  · rintro h ⟨n, args, hm⟩
    cases hm with
    | bare _ hn hall => rw [splitSpec_bare s hn hall] at h; cases h
    | call n w1 a cm w2 hn hall hw1 hw2 hcm hnl =>
      rw [splitSpec_call_eq n _ hn hall] at h
      have hsub : stripArgs (w1 ++ a ++ cm ++ w2) = stripArgs (a ++ cm) := by
        rw [stripArgs_ws_right _ w2 hw2, List.append_assoc, stripArgs_ws_left w1 _ hw1]
      have : (stripArgs (w1 ++ a ++ cm ++ w2)).contains '\n' = false := by
        rw [hsub]
        have : '\n' ∉ stripArgs (a ++ cm) := by
          intro hin
          have := mem_stripArgs _ _ hin
          rcases List.mem_append.mp this with h1 | h1
          · exact hnl h1
          · rcases hcm with rfl | rfl <;> simp at h1
        simpa using this
      rw [this] at h
      simp at h
  · intro h
    cases hs : splitSpec s with
    | none => rfl
    | some p => exact absurd ⟨p.1, p.2, splitSpec_sound s p.1 p.2 hs⟩ h

/-! ### 2. literal-only arguments -/

/-- **convert_nonliteral**: when the argument text is not a plain literal (`ast.literal_eval` raises: not a literal,
    or a syntax error) the callback fails with a usage error and the registered constructor is never invoked —
    for every registry, spec string and constructor behaviour; and `literal_eval` is the only evaluation. -/
theorem convert_nonliteral (reg : List (List Char)) (text : List Char) (a : ArgTok) (c : CtorTok)
    (ha : a = .notLiteral ∨ a = .syntaxErr) (hev : (convert reg text a c).evalCalled = true) :
    (convert reg text a c).err = some .parseArgs ∧ (convert reg text a c).ctorCalled = false := by
  cases hsplit : splitSpec text with
  | none => simp [convert, hsplit] at hev
  | some p =>
    obtain ⟨name, args⟩ := p
    by_cases hr : name ∈ reg
    · match args with
      | none => cases c <;> simp [convert, hsplit, hr, ctorStep] at hev
      | some [] => cases c <;> simp [convert, hsplit, hr, ctorStep] at hev
      | some (x :: xs) => rcases ha with rfl | rfl <;> simp [convert, hsplit, hr]
    · simp [convert, hsplit, hr] at hev

/-- whenever the argument text is non-empty the literal evaluator IS consulted (so the rule above applies) -/
theorem convert_evalCalled (reg : List (List Char)) (text name : List Char) (x : Char) (xs : List Char)
    (a : ArgTok) (c : CtorTok) (hsplit : splitSpec text = some (name, some (x :: xs)))
    (hreg : reg.contains name = true) : (convert reg text a c).evalCalled = true := by
  have hr : name ∈ reg := by simpa using hreg
  cases a <;> cases c <;> simp [convert, hsplit, hr, ctorStep]

/-- the constructor is invoked only for a registered name, and after `literal_eval` only with a star-unpackable
    literal -/
theorem convert_ctorCalled (reg : List (List Char)) (text : List Char) (a : ArgTok) (c : CtorTok)
    (h : (convert reg text a c).ctorCalled = true) :
    ∃ name args, splitSpec text = some (name, args) ∧ reg.contains name = true ∧
      ((convert reg text a c).evalCalled = true → a = .tuple ∨ a = .iter) := by
  cases hsplit : splitSpec text with
  | none => simp [convert, hsplit] at h
  | some p =>
    obtain ⟨name, args⟩ := p
    refine ⟨name, args, rfl, ?_⟩
    by_cases hr : name ∈ reg
    · refine ⟨by simpa using hr, ?_⟩
      match args with
      | none => cases c <;> simp [convert, hsplit, hr, ctorStep]
      | some [] => cases c <;> simp [convert, hsplit, hr, ctorStep]
      | some (x :: xs) => cases a <;> cases c <;> simp [convert, hsplit, hr, ctorStep] at h ⊢
    · simp [convert, hsplit, hr] at h

/-- **nonliteral_rejected** (command level): if the spec of parameter `r` (code, error model or decoder) carries a
    non-empty argument text that is not a plain literal, then — whatever the other parameters, their order, the
    output target and the file system — the command ends in a usage error (exit status 2), the constructor of `r`
    is never invoked, and nothing is simulated. -/
theorem nonliteral_rejected {ρ} (sim : SimCall → ρ) (i : CmdIn) (order : List Role) (fs : Fs) (ser : Bool)
    (r : Role) (s : SpecIn) (name : List Char) (x : Char) (xs : List Char)
    (hr : r ∈ order) (hspec : specOf i r = some s)
    (hsplit : splitSpec s.text = some (name, some (x :: xs))) (hreg : s.reg.contains name = true)
    (ha : s.arg = .notLiteral ∨ s.arg = .syntaxErr) :
    (cmd sim i order fs ser).exit = 2 ∧ (cmd sim i order fs ser).calls = [] ∧
      Ev.ctor r ∉ (cmd sim i order fs ser).events := by
  have hev := convert_evalCalled s.reg s.text name x xs s.arg s.ctor hsplit hreg
  obtain ⟨herr, hct⟩ := convert_nonliteral s.reg s.text s.arg s.ctor ha hev
  have hbad : roleOk i r = false := by
    cases r <;> simp [specOf] at hspec <;> subst hspec <;> simp [roleOk, convOf, herr]
  have hproc : (process i order).1 = false := by
    cases h : (process i order).1 with
    | false => rfl
    | true => exact absurd ((process_ok_iff i order).mp h r hr) (by simp [hbad])
  have hcmd : cmd sim i order fs ser = .usage (process i order).2 := cmd_of_bad sim i order fs ser hproc
  rw [hcmd]
  refine ⟨rfl, rfl, ?_⟩
  intro hin
  obtain ⟨r', _, he⟩ := process_events_mem i order _ hin
  obtain ⟨rfl, s', hs', hc⟩ := roleEvents_ctor i r r' he
  rw [hspec] at hs'; cases hs'
  simp [convOf, hct] at hc

/-! ### 3. validators, and rejection before any simulation -/

/-- the documented value of an integer option: absent, or the integer typed -/
def intOpt : Option IntTok → Option Int
  | some (.val n) => some n
  | _ => none

/-- the documented value of a probability option -/
def ratOpt : Option FloatTok → Option Rat
  | some (.fin q) => some q
  | _ => none

/-- **validators_spec**: (1) a probability is accepted iff it is a finite number in [0, 1] (nan, ±inf and
    non-numbers are refused); (2) an integer parameter with lower bound m is accepted iff it is an integer ≥ m;
    (3) the ERROR_PROBABILITY list is accepted iff it is non-empty and every entry is; (4) the command exits with
    the usage status 2 iff some processed parameter is refused, and (5) then NO simulation call was made. -/
theorem validators_spec {ρ} (sim : SimCall → ρ) (i : CmdIn) (order : List Role) (fs : Fs) (ser : Bool) :
    (∀ t q, probOk t = some q ↔ t = .fin q ∧ 0 ≤ q ∧ q ≤ 1) ∧
    (∀ m t n, intMinOk m t = some n ↔ t = .val n ∧ m ≤ n) ∧
    (roleOk i .probs = true ↔ i.probs ≠ [] ∧ ∀ t ∈ i.probs, ∃ q, t = .fin q ∧ 0 ≤ q ∧ q ≤ 1) ∧
    ((cmd sim i order fs ser).exit = 2 ↔ ∃ r ∈ order, roleOk i r = false) ∧
    ((cmd sim i order fs ser).exit = 2 → (cmd sim i order fs ser).calls = []) := by
  refine ⟨probOk_iff, intMinOk_iff, ?_, ?_, ?_⟩
  · simp only [roleOk, Bool.and_eq_true, Bool.not_eq_true', List.all_eq_true]
    constructor
    · rintro ⟨h1, h2⟩
      refine ⟨by intro h; rw [h] at h1; simp at h1, fun t ht => ?_⟩
      have := h2 t ht
      cases hq : probOk t with
      | none => rw [hq] at this; simp at this
      | some q => exact ⟨q, (probOk_iff t q).mp hq⟩
    · rintro ⟨h1, h2⟩
      refine ⟨by cases hp : i.probs with
        | nil => exact absurd hp h1
        | cons a t => rfl, fun t ht => ?_⟩
      obtain ⟨q, hq⟩ := h2 t ht
      rw [(probOk_iff t q).mpr hq]; rfl
  · cases hp : (process i order).1 with
    | true =>
      rw [cmd_of_ok sim i order fs ser hp]
      have hall := (process_ok_iff i order).mp hp
      constructor
      · intro h
        exact absurd h (writeData_exit_ne_two _ _ _ _)
      · rintro ⟨r, hr, hbad⟩
        rw [hall r hr] at hbad; cases hbad
    | false =>
      rw [cmd_of_bad sim i order fs ser hp]
      refine ⟨fun _ => ?_, fun _ => rfl⟩
      apply Classical.byContradiction
      intro hex
      have : ∀ r ∈ order, roleOk i r = true := by
        intro r hr
        cases h : roleOk i r with
        | true => rfl
        | false => exact absurd ⟨r, hr, h⟩ hex
      rw [(process_ok_iff i order).mpr this] at hp; cases hp
  · cases hp : (process i order).1 with
    | true =>
      rw [cmd_of_ok sim i order fs ser hp]
      intro h
      exact absurd h (writeData_exit_ne_two _ _ _ _)
    | false =>
      rw [cmd_of_bad sim i order fs ser hp]
      intro _; rfl

/-! ### 4. delegation: the CLI computes what the API computes -/

/-- **delegation_spec**: when every parameter is accepted (`order` covering the probabilities and the options), the
    command makes exactly one API call per probability, in the order given, each with exactly the options typed on
    the command line (max-runs, max-failures, seed; for run-ftp also TIME_STEPS and the measurement error
    probability; for run none of the latter), and hands the list of the API results to the output protocol. -/
theorem delegation_spec {ρ} (sim : SimCall → ρ) (i : CmdIn) (order : List Role) (fs : Fs) (ser : Bool)
    (hok : (process i order).1 = true)
    (hcover : ∀ r : Role, r ∈ order) :
    ∃ ev calls, cmd sim i order fs ser = .ran ev calls (writeData i.target fs ser (calls.map sim)) ∧
      calls.map (fun c => FloatTok.fin c.p) = i.probs ∧
      ∀ c ∈ calls, c.maxRuns = intOpt i.maxRuns ∧ c.maxFailures = intOpt i.maxFailures ∧ c.seed = intOpt i.seed ∧
        c.timeSteps = (if i.ftp then intOpt i.timeSteps else none) ∧
        c.measProb = (if i.ftp then ratOpt i.measProb else none) := by
  have hall := (process_ok_iff i order).mp hok
  refine ⟨(process i order).2, simCalls i, cmd_of_ok sim i order fs ser hok, ?_, ?_⟩
  · -- every probability token is `.fin q`, so the calls list them in order
    have hp := hall .probs (hcover _)
    simp only [roleOk, Bool.and_eq_true, List.all_eq_true] at hp
    have hfin : ∀ t ∈ i.probs, ∃ q, probOk t = some q ∧ t = .fin q := by
      intro t ht
      have := hp.2 t ht
      cases hq : probOk t with
      | none => rw [hq] at this; simp at this
      | some q => exact ⟨q, rfl, ((probOk_iff t q).mp hq).1⟩
    unfold simCalls
    generalize i.probs = l at hfin
    induction l with
    | nil => rfl
    | cons t ts ih =>
      obtain ⟨q, hq, rfl⟩ := hfin t (by simp)
      have := ih (fun t ht => hfin t (by simp [ht]))
      simp only [List.filterMap_cons, hq, Option.map_some, List.map_cons]
      rw [this]
  · intro c hc
    unfold simCalls at hc
    obtain ⟨t, _, ht⟩ := List.mem_filterMap.mp hc
    cases hq : probOk t with
    | none => rw [hq] at ht; simp at ht
    | some q =>
      rw [hq] at ht
      simp only [Option.map_some, Option.some.injEq] at ht
      subst ht
      -- the integer / probability options: accepted means absent or a value in range
      have hint : ∀ (m : Int) (o : Option IntTok), (optOk (intMinOk m) o).isSome = true →
          optVal (intMinOk m) o = intOpt o := by
        intro m o h
        cases o with
        | none => rfl
        | some t =>
          cases t with
          | bad => simp [optOk, intMinOk] at h
          | val n =>
            by_cases hmn : m ≤ n
            · simp [optVal, intMinOk, hmn, intOpt]
            · simp [optOk, intMinOk, hmn] at h
      have hr := hall .maxRuns (hcover _)
      have hf := hall .maxFailures (hcover _)
      have hs := hall .seed (hcover _)
      simp only [roleOk] at hr hf hs
      refine ⟨hint 1 _ hr, hint 1 _ hf, hint 0 _ hs, ?_, ?_⟩
      · cases hftp : i.ftp with
        | false => simp
        | true =>
          have hts := hall .timeSteps (hcover _)
          simp only [roleOk, hftp, if_true] at hts
          simp only [if_true]
          cases hto : i.timeSteps with
          | none => rw [hto] at hts; simp at hts
          | some t =>
            rw [hto] at hts
            cases t with
            | bad => simp [intMinOk] at hts
            | val n =>
              by_cases hmn : (1 : Int) ≤ n
              · simp [optVal, intMinOk, hmn, intOpt]
              · simp [intMinOk, hmn] at hts
      · cases hftp : i.ftp with
        | false => simp
        | true =>
          have hm := hall .measProb (hcover _)
          simp only [roleOk, hftp, if_true] at hm
          simp only [if_true]
          cases hmo : i.measProb with
          | none => rfl
          | some t =>
            rw [hmo] at hm
            cases hq' : probOk t with
            | none => simp [optOk, hq'] at hm
            | some q' =>
              have := ((probOk_iff t q').mp hq').1
              subst this
              simp [optVal, hq', ratOpt]

/-! ### 5. the output protocol: results are never dropped -/

/-- where the payload ends up -/
def inStdout {α} (w : WriteOut α) (p : α) : Prop := w.stdout = some p
def inFile {α} (w : WriteOut α) (p : α) : Prop := w.file = .created p
def inLog {α} (w : WriteOut α) (p : α) : Prop := w.logged = some p

/-- **write_protocol**: for a serialisable payload
    * target stdout ⇒ payload on stdout, no file effect, exit 0;
    * target path, creatable ⇒ the new file holds exactly the payload, nothing on stdout, exit 0;
    * target path that exists or cannot be created ⇒ NO file effect (the existing file is untouched), the payload is
      on the error log, exit status ≠ 0, no traceback;
    in every case the payload is in EXACTLY ONE of stdout / file / log — it is never lost and never duplicated —
    and the exit status is 0 iff it went where it was asked to go. -/
theorem write_protocol {α} (t : Target) (fs : Fs) (p : α) :
    (t = .stdout → writeData t fs true p = ⟨some p, .untouched, none, 0, false⟩) ∧
    (t = .path → fs = .creatable → writeData t fs true p = ⟨none, .created p, none, 0, false⟩) ∧
    (t = .path → fs ≠ .creatable → writeData t fs true p = ⟨none, .untouched, some p, 1, false⟩) ∧
    ((inStdout (writeData t fs true p) p ∧ ¬ inFile (writeData t fs true p) p ∧ ¬ inLog (writeData t fs true p) p) ∨
     (¬ inStdout (writeData t fs true p) p ∧ inFile (writeData t fs true p) p ∧ ¬ inLog (writeData t fs true p) p) ∨
     (¬ inStdout (writeData t fs true p) p ∧ ¬ inFile (writeData t fs true p) p ∧ inLog (writeData t fs true p) p)) ∧
    ((writeData t fs true p).exit = 0 ↔ ¬ inLog (writeData t fs true p) p) ∧
    (writeData t fs true p).traceback = false := by
  cases t <;> cases fs <;> simp [writeData, inStdout, inFile, inLog]

/-- **write_existing_untouched**: whatever the payload and whether or not it can be serialised, a target that
    exists (or cannot be created) suffers no file effect, and nothing is ever written to stdout in file mode. -/
theorem write_existing_untouched {α} (fs : Fs) (ser : Bool) (p : α) (h : fs ≠ .creatable) :
    (writeData .path fs ser p).file = .untouched ∧ (writeData .path fs ser p).stdout = none ∧
    (writeData .path fs ser p).exit ≠ 0 := by
  cases fs <;> cases ser <;> simp [writeData] at h ⊢

/-- **write_unserialisable_loses** (what the code does, stated so that the gap is visible): if `json.dumps` refuses
    the aggregate the payload reaches neither stdout nor a file nor the log, and the command ends in a traceback —
    which is why the harness checks on every run that every aggregate IS serialisable. -/
theorem write_unserialisable_loses {α} (t : Target) (fs : Fs) (p : α) :
    ¬ inStdout (writeData t fs false p) p ∧ ¬ inFile (writeData t fs false p) p ∧
    ¬ inLog (writeData t fs false p) p ∧ (writeData t fs false p).traceback = true ∧
    (writeData t fs false p).exit ≠ 0 := by
  cases t <;> cases fs <;> simp [writeData, inStdout, inFile, inLog]

/-- **results_never_dropped** (command level): once a simulation has been run — i.e. the command was not a usage
    error — its serialisable results are in exactly one of stdout / the new output file / the error log, for every
    output target and file-system situation; and an existing or uncreatable output path is left untouched. -/
theorem results_never_dropped {ρ} (sim : SimCall → ρ) (i : CmdIn) (order : List Role) (fs : Fs)
    (hok : (process i order).1 = true) :
    ∃ ev w, cmd sim i order fs true = .ran ev (simCalls i) w ∧
      ((inStdout w ((simCalls i).map sim) ∧ ¬ inFile w ((simCalls i).map sim) ∧ ¬ inLog w ((simCalls i).map sim)) ∨
       (¬ inStdout w ((simCalls i).map sim) ∧ inFile w ((simCalls i).map sim) ∧ ¬ inLog w ((simCalls i).map sim)) ∨
       (¬ inStdout w ((simCalls i).map sim) ∧ ¬ inFile w ((simCalls i).map sim) ∧ inLog w ((simCalls i).map sim))) ∧
      (i.target = .path → fs ≠ .creatable → w.file = .untouched ∧ inLog w ((simCalls i).map sim) ∧ w.exit ≠ 0) := by
  refine ⟨(process i order).2, writeData i.target fs true ((simCalls i).map sim), cmd_of_ok sim i order fs true hok, ?_, ?_⟩
  · exact (write_protocol i.target fs _).2.2.2.1
  · intro ht hfs
    rw [ht]
    cases fs <;> simp [writeData, inLog] at hfs ⊢

/-- **merge_protocol**: `merge` writes — through the same output protocol — exactly when at least one input file is
    given and all of them exist as files and parse; a missing file or a directory is a usage error, an unparsable
    file an error exit, and in both cases nothing is written anywhere. -/
theorem merge_protocol {α} (files : List FileTok) (t : Target) (fs : Fs) (ser : Bool) (m : α) :
    ((files ≠ [] ∧ ∀ f ∈ files, f = .ok) → mergeCmd files t fs ser m = .ran (writeData t fs ser m)) ∧
    ((files = [] ∨ ∃ f ∈ files, f = .missing ∨ f = .isDir) → mergeCmd files t fs ser m = .usage) ∧
    ((∀ w, mergeCmd files t fs ser m ≠ .ran w) ↔ (files = [] ∨ ∃ f ∈ files, f ≠ .ok)) := by
  refine ⟨?_, ?_, ?_⟩
  · rintro ⟨hne, hall⟩
    unfold mergeCmd
    have h1 : files.isEmpty = false := by cases files with
      | nil => exact absurd rfl hne
      | cons a t => rfl
    have h2 : files.any (fun f => f == .missing || f == .isDir) = false := by
      rw [List.any_eq_false]; intro f hf; rw [hall f hf]; decide
    have h3 : files.any (· == .badJson) = false := by
      rw [List.any_eq_false]; intro f hf; rw [hall f hf]; decide
    simp [h1, h2, h3]
  · intro h
    unfold mergeCmd
    rcases h with rfl | ⟨f, hf, hbad⟩
    · simp
    · have : files.any (fun f => f == .missing || f == .isDir) = true := by
        rw [List.any_eq_true]; exact ⟨f, hf, by rcases hbad with rfl | rfl <;> decide⟩
      simp [this]
  · unfold mergeCmd
    constructor
    · intro h
      by_cases he : files = []
      · exact Or.inl he
      · right
        by_cases hall : ∀ f ∈ files, f = .ok
        · exfalso
          have h1 : files.isEmpty = false := by cases files with
            | nil => exact absurd rfl he
            | cons a t => rfl
          have h2 : files.any (fun f => f == .missing || f == .isDir) = false := by
            rw [List.any_eq_false]; intro f hf; rw [hall f hf]; decide
          have h3 : files.any (· == .badJson) = false := by
            rw [List.any_eq_false]; intro f hf; rw [hall f hf]; decide
          simp [h1, h2, h3] at h
        · have : ∃ f ∈ files, f ≠ .ok := by
            apply Classical.byContradiction
            intro hn
            apply hall
            intro f hf
            apply Classical.byContradiction
            intro hne
            exact hn ⟨f, hf, hne⟩
          exact this
    · rintro (rfl | ⟨f, hf, hne⟩) w
      · simp
      · by_cases h2 : files.any (fun f => f == .missing || f == .isDir) = true
        · simp [h2]
        · have h2' : files.any (fun f => f == .missing || f == .isDir) = false := by simpa using h2
          have hf2 := (List.any_eq_false.mp h2') f hf
          have : files.any (· == .badJson) = true := by
            rw [List.any_eq_true]
            refine ⟨f, hf, ?_⟩
            cases f <;> simp at hne hf2 ⊢
          by_cases he : files.isEmpty = true
          · simp [he]
          · simp [he, h2', this]

/-! ### non-vacuity: the hypotheses are satisfiable on concrete, non-trivial inputs -/

/-- `toric( 3,3 , )` : name `toric`, captured text `3,3 ` (the blank before the trailing comma stays) -/
example : splitSpec "toric( 3,3 , )".toList = some ("toric".toList, some "3,3 ".toList) := by decide
example : splitSpec "generic.center_slice((0.2,0.8,0),0.5)".toList =
    some ("generic.center_slice".toList, some "(0.2,0.8,0),0.5".toList) := by decide
example : splitSpec "planar.mps(None, 'c)' ,)".toList = some ("planar.mps".toList, some "None, 'c)' ".toList) := by
  decide
example : splitSpec "toric (3,3)".toList = none := by decide
example : splitSpec "toric(3,\n3)".toList = none := by decide
example : splitSpec "toric(3,3".toList = none := by decide
example : splitSpec "five_qubit".toList = some ("five_qubit".toList, none) := by decide

/-- a three-parameter run line with a non-literal code argument, an existing output file: usage error, no call -/
def exBad : CmdIn :=
  { ftp := false
    code := ⟨["planar".toList], "planar(__import__('os').system('x'))".toList, .notLiteral, .ok⟩
    em := ⟨["generic.depolarizing".toList], "generic.depolarizing".toList, .tuple, .ok⟩
    dec := ⟨["planar.mwpm".toList], "planar.mwpm()".toList, .tuple, .ok⟩
    timeSteps := none, probs := [.fin (1/10), .fin (1/5)], maxFailures := none, maxRuns := some (.val 5),
    seed := some (.val 13), measProb := none, target := .path }

def exOrder : List Role :=
  [.maxRuns, .seed, .output, .code, .timeSteps, .errorModel, .decoder, .probs, .maxFailures, .measProb]

example : (cmd (fun c => c) exBad exOrder .exists true).exit = 2 ∧
    (cmd (fun c => c) exBad exOrder .exists true).events = [.eval .code] := by decide

/-- the same line with a literal argument: three constructors, two calls with the options given, results on the log
    because the output file exists -/
def exGood : CmdIn := { exBad with code := ⟨["planar".toList], "planar(3, 3)".toList, .tuple, .ok⟩ }

example : (process exGood exOrder).1 = true := by decide +kernel
example : ∀ r : Role, r ∈ exOrder := by intro r; cases r <;> decide
example : (cmd (fun c => c) exGood exOrder .exists true).events =
    [.eval .code, .ctor .code, .ctor .errorModel, .ctor .decoder] := by decide +kernel
example : ((cmd (fun c => c) exGood exOrder .exists true).calls.map (·.seed)) = [some 13, some 13] := by decide +kernel
example : (cmd (fun c => c) exGood exOrder .exists true).exit = 1 := by decide +kernel
example : (cmd (fun c => c) exGood exOrder .creatable true).exit = 0 := by decide +kernel
example : mergeCmd [.ok, .ok] .path .exists true () = .ran ⟨none, .untouched, some (), 1, false⟩ := by decide +kernel

end Qec.C19
