/-
  C17 — generated qubit and measurement errors follow their stated distributions.

  Theorems about `Model/Stream.lean` (the model of `SimpleErrorModel.generate`,
  `paulitools.pauli_to_bsf` and the random part of `app._run_once`, with numpy's generator seen
  as a stream of uniforms in [0,1) consumed left to right by inverse-CDF sampling).
  They hold for every number of qubits `n`, every distribution given by non-negative rationals
  that sum to 1, every stream with values in [0,1), every position in the stream, every number
  of steps and runs.

  What is NOT a theorem here (see harness/qv/props/c17.py): that PCG64 doubles are uniform and
  independent, and that numpy's `Generator.choice` is the inverse-CDF map of `rng.random`
  (stated assumptions; the second is re-checked on every run).  Under "uniforms are i.i.d.
  uniform on [0,1)", `generate_pointwise` + `pauliOf_interval` + `interval_length` say exactly
  that the qubits are independent draws from `dist` (qubit i is a function of its own uniform,
  and the preimage of each Pauli is an interval of length `dist P`).
-/
import QecVerif.Model.Stream
import QecVerif.Lemmas.Stream
import Mathlib.Tactic.NormNum

namespace Qec.C17
open Qec Qec.Stream

/-- a single-qubit distribution in the code's order (I, X, Y, Z): four non-negative rationals
    that sum to 1 -/
structure IsDist (dist : List Rat) : Prop where
  len : dist.length = 4
  nonneg : ∀ x ∈ dist, 0 ≤ x
  sum_one : dist.sum = 1

/-- every value of the stream lies in [0,1) (numpy's `rng.random` contract) -/
def Unit01 (s : UStream) : Prop := ∀ i, 0 ≤ s i ∧ s i < 1

/-- lower end `c_{k-1}` of the interval of the k-th letter -/
def lo (dist : List Rat) (k : Nat) : Rat := (dist.take k).sum
/-- upper end `c_k` of the interval of the k-th letter -/
def hi (dist : List Rat) (k : Nat) : Rat := (dist.take (k + 1)).sum

/-! ### shape and per-qubit structure -/

/-- the generated error is a vector of 2n bits -/
theorem generate_length (n : Nat) (cdf : List Rat) (s : UStream) (pos : Nat) :
    (generate n cdf s pos).length = 2 * n := by
  rw [generate, toBsf_length, generatePauli_length]

/-- qubit `i` (X bit at position i, Z bit at position n+i) is the Pauli selected by the i-th
    consumed uniform alone -/
theorem generate_pointwise (n : Nat) (cdf : List Rat) (s : UStream) (pos i : Nat) (h : i < n) :
    (generate n cdf s pos)[i]? = some (pauliOf cdf (s (pos + i))).xBit ∧
    (generate n cdf s pos)[n + i]? = some (pauliOf cdf (s (pos + i))).zBit := by
  have hl := generatePauli_length n cdf s pos
  have hi' : i < (generatePauli n cdf s pos).length := by rw [hl]; exact h
  constructor
  · rw [generate, toBsf_getElem?_x _ _ hi', generatePauli_getElem? n cdf s pos i h]; rfl
  · have := toBsf_getElem?_z (generatePauli n cdf s pos) i hi'
    rw [hl] at this
    rw [generate, this, generatePauli_getElem? n cdf s pos i h]; rfl

/-- structural independence: two streams (at any two positions) that agree on the i-th consumed
    uniform give the same qubit i, whatever the other uniforms are -/
theorem generate_qubit_depends_on_own_uniform (n : Nat) (cdf : List Rat) (s s' : UStream) (pos pos' i : Nat)
    (h : i < n) (hu : s (pos + i) = s' (pos' + i)) :
    (generate n cdf s pos)[i]? = (generate n cdf s' pos')[i]? ∧
    (generate n cdf s pos)[n + i]? = (generate n cdf s' pos')[n + i]? := by
  have a := generate_pointwise n cdf s pos i h
  have b := generate_pointwise n cdf s' pos' i h
  rw [a.1, a.2, b.1, b.2, hu]; exact ⟨rfl, rfl⟩

/-- the same stream (the same generator state) reproduces the same error; only the `n` consumed
    uniforms matter -/
theorem same_stream_same_error (n : Nat) (cdf : List Rat) (s s' : UStream) (pos pos' : Nat)
    (h : ∀ i, i < n → s (pos + i) = s' (pos' + i)) :
    generate n cdf s pos = generate n cdf s' pos' := by
  rw [generate, generate, generatePauli, generatePauli, draws_congr s s' pos pos' n h]

/-- `pauli_to_bsf` column placement: X sets bit i, Z sets bit n+i, Y both, I none -/
theorem string_to_bsf_columns (p : PStr) (i : Nat) (P : P1) (h : p[i]? = some P) :
    (toBsf p).length = 2 * p.length ∧
    (toBsf p)[i]? = some (P == P1.X || P == P1.Y) ∧
    (toBsf p)[p.length + i]? = some (P == P1.Z || P == P1.Y) := by
  have hi' : i < p.length := by
    rcases Nat.lt_or_ge i p.length with h' | h'
    · exact h'
    · rw [List.getElem?_eq_none h'] at h; cases h
  refine ⟨toBsf_length p, ?_, ?_⟩
  · rw [toBsf_getElem?_x p i hi', h]; cases P <;> rfl
  · rw [toBsf_getElem?_z p i hi', h]; cases P <;> rfl

/-! ### the inverse-CDF map -/

/-- `choiceIdx` is numpy's `searchsorted(cdf, u, side='right')` = `#{j | cdf j ≤ u}` on every
    non-decreasing cdf (in particular on the floating-point cdf numpy computes) -/
theorem choiceIdx_is_searchsorted_right (cdf : List Rat) (hs : cdf.Pairwise (· ≤ ·)) (u : Rat) :
    choiceIdx cdf u = cdf.countP (· ≤ u) :=
  choiceIdx_eq_countP cdf hs u

/-- the interval of letter k has length exactly `dist k` -/
theorem interval_length (dist : List Rat) (k : Nat) (h : k < dist.length) :
    hi dist k - lo dist k = dist.getD k 0 := by
  unfold hi lo
  rw [sum_take_succ' dist k h]; linarith

/-- index form, any alphabet size: for non-negative weights that sum to 1 and `0 ≤ u`, the
    selected index is `k` iff `u ∈ [c_{k-1}, c_k)` -/
theorem choiceIdx_interval (dist : List Rat) (hnn : ∀ x ∈ dist, 0 ≤ x) (hs : dist.sum = 1)
    (u : Rat) (hu : 0 ≤ u) (k : Nat) :
    choiceIdx (cdfOf dist) u = k ↔
      k ≤ dist.length ∧ lo dist k ≤ u ∧ (k < dist.length → u < hi dist k) := by
  rw [cdfOf_eq_cumsum hs, cumsum, choiceIdx_cumsumFrom_eq_iff dist hnn 0 u hu k]
  unfold lo hi
  simp only [zero_add]

/-- the same when the weights sum to any `S > 0` (numpy normalises by the last cumulative sum):
    the interval is `[c_{k-1}/S, c_k/S)`, of length `dist k / S` -/
theorem choiceIdx_interval_scaled (dist : List Rat) (hnn : ∀ x ∈ dist, 0 ≤ x) (hS : 0 < dist.sum)
    (u : Rat) (hu : 0 ≤ u) (k : Nat) :
    choiceIdx (cdfOf dist) u = k ↔
      k ≤ dist.length ∧ lo dist k / dist.sum ≤ u ∧ (k < dist.length → u < hi dist k / dist.sum) := by
  cases dist with
  | nil => simp at hS
  | cons p ps =>
      have hlast : (cumsum (p :: ps)).getLastD 1 = (p :: ps).sum := by
        rw [cumsum, cumsumFrom_getLastD]; simp
      rw [cdfOf]
      simp only [hlast]
      rw [choiceIdx_map_div _ _ _ hS, cumsum,
        choiceIdx_cumsumFrom_eq_iff (p :: ps) hnn 0 (u * (p :: ps).sum) (mul_nonneg hu (le_of_lt hS)) k]
      unfold lo hi
      simp only [zero_add]
      rw [div_le_iff₀ hS]
      constructor
      · rintro ⟨h1, h2, h3⟩; exact ⟨h1, h2, fun hk => (lt_div_iff₀ hS).mpr (h3 hk)⟩
      · rintro ⟨h1, h2, h3⟩; exact ⟨h1, h2, fun hk => (lt_div_iff₀ hS).mp (h3 hk)⟩

/-- no IndexError: a uniform below 1 always selects a letter of the alphabet -/
theorem choiceIdx_lt_length (dist : List Rat) (hnn : ∀ x ∈ dist, 0 ≤ x) (hs : dist.sum = 1)
    (u : Rat) (hu : 0 ≤ u) (hu1 : u < 1) : choiceIdx (cdfOf dist) u < dist.length := by
  have hle := ((choiceIdx_interval dist hnn hs u hu _).mp rfl).1
  rcases Nat.lt_or_ge (choiceIdx (cdfOf dist) u) dist.length with h | h
  · exact h
  · have heq : choiceIdx (cdfOf dist) u = dist.length := Nat.le_antisymm hle h
    have := ((choiceIdx_interval dist hnn hs u hu dist.length).mp heq).2.1
    unfold lo at this
    rw [take_length_sum, hs] at this
    linarith

/-- **the preimage of each Pauli is the half-open interval `[c_{P-1}, c_P)`** (whose length is
    `dist P` by `interval_length`) -/
theorem pauliOf_interval (dist : List Rat) (hd : IsDist dist) (u : Rat) (hu : 0 ≤ u) (hu1 : u < 1) (P : P1) :
    pauliOf (cdfOf dist) u = P ↔ lo dist (letterIdx P) ≤ u ∧ u < hi dist (letterIdx P) := by
  have hlt := choiceIdx_lt_length dist hd.nonneg hd.sum_one u hu hu1
  rw [hd.len] at hlt
  rw [pauliOf, pauliOfIdx_eq_iff _ hlt, choiceIdx_interval dist hd.nonneg hd.sum_one u hu]
  have hP : letterIdx P < dist.length := by rw [hd.len]; exact letterIdx_lt P
  constructor
  · rintro ⟨_, h2, h3⟩; exact ⟨h2, h3 hP⟩
  · rintro ⟨h2, h3⟩; exact ⟨Nat.le_of_lt hP, h2, fun _ => h3⟩

/-- the four intervals written out for a distribution `(pI, pX, pY, pZ)` -/
theorem pauliOf_interval_explicit (pI pX pY pZ : Rat) (hd : IsDist [pI, pX, pY, pZ]) (u : Rat)
    (hu : 0 ≤ u) (hu1 : u < 1) :
    (pauliOf (cdfOf [pI, pX, pY, pZ]) u = P1.I ↔ u < pI) ∧
    (pauliOf (cdfOf [pI, pX, pY, pZ]) u = P1.X ↔ pI ≤ u ∧ u < pI + pX) ∧
    (pauliOf (cdfOf [pI, pX, pY, pZ]) u = P1.Y ↔ pI + pX ≤ u ∧ u < pI + pX + pY) ∧
    (pauliOf (cdfOf [pI, pX, pY, pZ]) u = P1.Z ↔ pI + pX + pY ≤ u) := by
  have hs : pI + (pX + (pY + pZ)) = 1 := by simpa using hd.sum_one
  refine ⟨?_, ?_, ?_, ?_⟩
  · rw [pauliOf_interval _ hd u hu hu1]; simp [lo, hi, letterIdx, hu]
  · rw [pauliOf_interval _ hd u hu hu1]; simp [lo, hi, letterIdx]
  · rw [pauliOf_interval _ hd u hu hu1]; simp [lo, hi, letterIdx, add_assoc]
  · rw [pauliOf_interval _ hd u hu hu1]; simp [lo, hi, letterIdx, add_assoc]
    intro _; linarith

/-- the same for ANY non-decreasing thresholds — in particular the floating-point cdf numpy
    computes, which is what the real code compares against -/
theorem pauliOf_thresholds (c0 c1 c2 c3 u : Rat) (h01 : c0 ≤ c1) (h12 : c1 ≤ c2) (_h23 : c2 ≤ c3) (hu : u < c3) :
    (pauliOf [c0, c1, c2, c3] u = P1.I ↔ u < c0) ∧
    (pauliOf [c0, c1, c2, c3] u = P1.X ↔ c0 ≤ u ∧ u < c1) ∧
    (pauliOf [c0, c1, c2, c3] u = P1.Y ↔ c1 ≤ u ∧ u < c2) ∧
    (pauliOf [c0, c1, c2, c3] u = P1.Z ↔ c2 ≤ u) := by
  simp only [pauliOf, choiceIdx]
  by_cases a0 : u < c0
  · have a1 : u < c1 := by linarith
    have a2 : u < c2 := by linarith
    simp only [if_pos a0]
    refine ⟨by simp [pauliOfIdx, letters, a0], by simp [pauliOfIdx, letters]; intro; linarith,
      by simp [pauliOfIdx, letters]; intro; linarith, by simp [pauliOfIdx, letters]; linarith⟩
  · simp only [if_neg a0]
    have b0 : c0 ≤ u := not_lt.mp a0
    by_cases a1 : u < c1
    · have a2 : u < c2 := by linarith
      simp only [if_pos a1]
      refine ⟨by simp [pauliOfIdx, letters, a0], by simp [pauliOfIdx, letters, b0, a1],
        by simp [pauliOfIdx, letters]; intro; linarith, by simp [pauliOfIdx, letters]; linarith⟩
    · simp only [if_neg a1]
      have b1 : c1 ≤ u := not_lt.mp a1
      by_cases a2 : u < c2
      · simp only [if_pos a2]
        refine ⟨by simp [pauliOfIdx, letters, a0], by simp [pauliOfIdx, letters]; intro; linarith,
          by simp [pauliOfIdx, letters, b1, a2], by simp [pauliOfIdx, letters]; linarith⟩
      · simp only [if_neg a2, if_pos hu]
        have b2 : c2 ≤ u := not_lt.mp a2
        refine ⟨by simp [pauliOfIdx, letters, a0], by simp [pauliOfIdx, letters]; intro; linarith,
          by simp [pauliOfIdx, letters]; intro; linarith, by simp [pauliOfIdx, letters, b2]⟩

/-- a Pauli of probability 0 is never selected -/
theorem zero_prob_impossible (dist : List Rat) (hd : IsDist dist) (u : Rat) (hu : 0 ≤ u) (hu1 : u < 1) (P : P1)
    (hz : dist.getD (letterIdx P) 0 = 0) : pauliOf (cdfOf dist) u ≠ P := by
  intro h
  have := (pauliOf_interval dist hd u hu hu1 P).mp h
  have hl := interval_length dist (letterIdx P) (by rw [hd.len]; exact letterIdx_lt P)
  rw [hz] at hl
  linarith

/-- … hence it never appears in a generated error, on any stream with values in [0,1) -/
theorem zero_prob_never_generated (n : Nat) (dist : List Rat) (hd : IsDist dist) (s : UStream) (hs : Unit01 s)
    (pos : Nat) (P : P1) (hz : dist.getD (letterIdx P) 0 = 0) :
    P ∉ generatePauli n (cdfOf dist) s pos := by
  intro hmem
  simp only [generatePauli, draws, List.mem_map, List.mem_range] at hmem
  obtain ⟨u, ⟨i, _, rfl⟩, hP⟩ := hmem
  exact zero_prob_impossible dist hd _ (hs _).1 (hs _).2 P hz hP

/-! ### measurement flips -/

/-- q = 0: the `if q:` branch is not taken — never a flip, and no uniform is consumed -/
theorem measFlips_spec_zero (m : Nat) (cdfM : List Rat) (s : UStream) (pos : Nat) :
    measFlips m 0 cdfM s pos = (zeros m, pos) := by
  simp [measFlips]

/-- one flip against any two thresholds `c0 ≤ c1` with `u < c1` (e.g. numpy's float cdf of
    `(1 - q, q)`): the bit is flipped iff `c0 ≤ u` -/
theorem flipOf_thresholds (c0 c1 u : Rat) (hu : u < c1) : flipOf [c0, c1] u = decide (c0 ≤ u) := by
  simp only [flipOf, choiceIdx]
  by_cases a0 : u < c0
  · simp [if_pos a0, bitOfIdx, not_le.mpr a0]
  · simp [if_neg a0, if_pos hu, bitOfIdx, not_lt.mp a0]

/-- 0 < q ≤ 1: `m` uniforms are consumed, and syndrome bit i is flipped iff its own uniform is
    `≥ 1 − q` (an interval of length q) -/
theorem measFlips_spec (m : Nat) (q : Rat) (hq0 : q ≠ 0) (s : UStream) (hs : Unit01 s) (pos i : Nat) (hi : i < m) :
    (measFlipsQ m q s pos).2 = pos + m ∧
    (measFlipsQ m q s pos).1.length = m ∧
    (measFlipsQ m q s pos).1[i]? = some (decide (1 - q ≤ s (pos + i))) := by
  have hsum : (measDist q).sum = 1 := by simp [measDist]
  have hcdf : cdfOf (measDist q) = [1 - q, 1] := by
    rw [cdfOf_eq_cumsum hsum]; simp [cumsum, cumsumFrom, measDist]
  simp only [measFlipsQ, measFlips, if_neg hq0, hcdf]
  refine ⟨trivial, by simp [draws_length], ?_⟩
  rw [List.getElem?_map, draws_getElem? s pos m i hi]
  simp only [Option.map_some]
  rw [flipOf_thresholds _ _ _ (hs _).2]

/-- q = 1: every syndrome bit is flipped -/
theorem measFlips_spec_one (m : Nat) (s : UStream) (hs : Unit01 s) (pos : Nat) :
    measFlipsQ m 1 s pos = (List.replicate m true, pos + m) := by
  have hcdf : cdfOf (measDist 1) = [0, 1] := by
    rw [cdfOf_eq_cumsum (by simp [measDist])]; simp [cumsum, cumsumFrom, measDist]
  simp only [measFlipsQ, measFlips, hcdf]
  rw [if_neg (by norm_num)]
  refine Prod.ext ?_ rfl
  simp only
  apply List.ext_getElem?
  intro i
  by_cases hi : i < m
  · rw [List.getElem?_map, draws_getElem? s pos m i hi]
    simp only [Option.map_some]
    rw [flipOf_thresholds _ _ _ (hs _).2]
    simp [hi, (hs (pos + i)).1]
  · have h1 : ((draws s pos m).map (flipOf [0, 1])).length ≤ i := by simp [draws_length]; omega
    have h2 : (List.replicate m true).length ≤ i := by simp; omega
    rw [List.getElem?_eq_none h1, List.getElem?_eq_none h2]

/-- the default of `run_once_ftp` / `run_ftp`: `None` means `p` for T > 1 and 0 for T = 1 -/
theorem default_meas_probability (T : Nat) (p q : Rat) :
    resolveQ none 1 p = 0 ∧ (T ≠ 1 → resolveQ none T p = p) ∧ resolveQ (some q) T p = q := by
  refine ⟨by simp [resolveQ], fun h => by simp [resolveQ, h], rfl⟩

/-! ### order of stream consumption -/

/-- a whole run is predicted from one stream: step `t` of a `T`-step run that starts at position
    `pos` draws its error from positions `pos + t·L … +n` and then its flips from the following
    `m` positions (none when q = 0), where `L = n + (0 if q = 0 else m)`; the run ends at
    `pos + T·L` -/
theorem run_stream_order (n m : Nat) (cdfE : List Rat) (q : Rat) (cdfM : List Rat) (s : UStream) (T pos : Nat) :
    runSteps n m cdfE q cdfM s T pos =
      ((List.range T).map fun t =>
          (generate n cdfE s (pos + t * stepLen n m q),
           (measFlips m q cdfM s (pos + t * stepLen n m q + n)).1),
       pos + T * stepLen n m q) :=
  runSteps_spec n m cdfE q cdfM s T pos

/-- consecutive runs of `_run` continue in the same stream: run `r` starts at `pos + r·T·L` -/
theorem runs_stream_order (n m : Nat) (cdfE : List Rat) (q : Rat) (cdfM : List Rat) (s : UStream) (T R pos : Nat) :
    runMany n m cdfE q cdfM s T R pos =
      ((List.range R).map fun r => (runSteps n m cdfE q cdfM s T (pos + r * (T * stepLen n m q))).1,
       pos + R * (T * stepLen n m q)) :=
  runMany_spec n m cdfE q cdfM s T R pos

/-! ### non-vacuity: the hypotheses hold on concrete, non-trivial inputs -/

/-- a biased distribution with a zero entry -/
example : IsDist [7/10, 1/5, 0, 1/10] := ⟨rfl, by simp; norm_num, by norm_num⟩

/-- a stream in [0,1) -/
example : Unit01 (fun i => 1 / ((i : Rat) + 2)) := by
  intro i
  have h : (0 : Rat) < (i : Rat) + 2 := by positivity
  refine ⟨by positivity, ?_⟩
  rw [div_lt_one h]; linarith [show (0 : Rat) ≤ (i : Rat) from by positivity]

/-- three qubits from the stream 1/20, 3/4, 19/20 under (7/10, 1/5, 0, 1/10): I, X, Z -/
example :
    generateD 3 [7/10, 1/5, 0, 1/10] (fun i => [1/20, 3/4, 19/20].getD i 0) 0
      = [false, true, false, false, false, true] := by decide +kernel

/-- two steps of a 2-qubit, 1-stabiliser run with q = 3/10 from one stream of six uniforms -/
example :
    runSteps 2 1 (cdfOf [7/10, 1/5, 0, 1/10]) (3/10) (cdfOf (measDist (3/10)))
        (fun i => [1/20, 3/4, 4/5, 19/20, 1/2, 1/10].getD i 0) 2 0
      = ([([false, true, false, false], [true]), ([false, false, true, false], [false])], 6) := by
  decide +kernel

end Qec.C17
