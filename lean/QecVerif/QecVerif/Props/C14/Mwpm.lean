/-
  C14, part 2 — the MWPM decoders (planar, toric).

  What is proved here, for ALL lattice sizes and ANY matching (the matching library is a parameter):
  * `mwpm_split_planar`, `mwpm_split_toric`: the recovery `applyMates (primal mates ++ dual mates)` has
    the X half of the primal-only recovery and the Z half of the dual-only recovery; hence
    (`…_syndrome`) the X-part of the decoder's answer depends only on the primal (Z-type) syndrome
    bits and the Z-part only on the dual (X-type) bits — for these decoders the property's
    per-component hypothesis is the right one.
  * `mwpm_corrects_of_chain_bound_partial`: the reduction of the property to facts owned by other
    properties, each an explicit hypothesis:
      - `hs`      recovery reproduces the syndrome                          (C02)
      - `hcss`    generators are X-type or Z-type                           (C07, lattice codes)
      - `hd`      operators lighter than d commuting with S commute with L  (C08)
      - `ChainBound` per component: recovery component = XOR of the matching's path operators,
                  path weight ≤ pair distance (C15), chosen matching minimal (C13), and the
                  error chain induces a perfect matching of total distance ≤ its weight
                  (`chain_induces_matching`: PROVED for the torus and the planar code in
                  Props/C14/Chain.lean, where `toric_mwpm_corrects` / `planar_mwpm_corrects`
                  derive `ChainBound`).
  Index facts of C07 (`PlanarFlattenBound`, `ToricFlattenBound`: qubit numbers are < n) are
  hypotheses of the split theorems.
-/
import QecVerif.Lemmas.MwpmSplit
import QecVerif.Lemmas.MwpmReduce
namespace Qec.C14
open Qec Qec.NaiveDecode Qec.MwpmSplit Qec.MwpmReduce

/-! ### the split -/

/-- **mwpm_split (planar)**: `pm` = mates of the primal graph, `dm` = mates of the dual graph (any
    lists of pairs whose first member is of that type — whatever the matching library returns).
    The decoder applies all of them to one Pauli; the result's X half is that of the primal paths
    alone and its Z half that of the dual paths alone. -/
theorem mwpm_split_planar (R C : Int) (hf : PlanarFlattenBound R C)
    (pm dm : List ((Int × Int) × (Int × Int)))
    (hp : ∀ ab ∈ pm, Planar.isPrimal ab.1.1 ab.1.2 = true)
    (hdm : ∀ ab ∈ dm, Planar.isPrimal ab.1.1 ab.1.2 = false)
    (v : BVec) (h : Planar.applyMates R C (pm ++ dm) = .ok v) :
    ∃ vp vd, Planar.applyMates R C pm = .ok vp ∧ Planar.applyMates R C dm = .ok vd ∧
      xHalf v = xHalf vp ∧ zHalf v = zHalf vd ∧
      zHalf vp = zHalf (Planar.identity R C) ∧ xHalf vd = xHalf (Planar.identity R C) := by
  unfold Planar.applyMates at h ⊢
  rw [List.foldlM_append] at h
  exact split_of_steps (Planar.nQubits R C).toNat _ _
    (StepX.foldlM _ _ pm (fun ab hab => (planar_path_step R C hf ab).1 (hp ab hab)))
    (StepZ.foldlM _ _ dm (fun ab hab => (planar_path_step R C hf ab).2 (hdm ab hab)))
    (Planar.identity R C) v (by simp [Planar.identity, zeros]) h

/-- **mwpm_split (toric)** -/
theorem mwpm_split_toric (R C : Int) (hf : ToricFlattenBound R C)
    (pm dm : List (Toric.Idx × Toric.Idx))
    (hp : ∀ ab ∈ pm, (Toric.norm R C ab.1).1 = Toric.primalIndex)
    (hdm : ∀ ab ∈ dm, (Toric.norm R C ab.1).1 ≠ Toric.primalIndex)
    (v : BVec) (h : Toric.applyMates R C (pm ++ dm) = .ok v) :
    ∃ vp vd, Toric.applyMates R C pm = .ok vp ∧ Toric.applyMates R C dm = .ok vd ∧
      xHalf v = xHalf vp ∧ zHalf v = zHalf vd ∧
      zHalf vp = zHalf (Toric.identity R C) ∧ xHalf vd = xHalf (Toric.identity R C) := by
  unfold Toric.applyMates at h ⊢
  rw [List.foldlM_append] at h
  exact split_of_steps (Toric.nQubits R C).toNat _ _
    (StepX.foldlM _ _ pm (fun ab hab => (toric_path_step R C hf ab).1 (hp ab hab)))
    (StepZ.foldlM _ _ dm (fun ab hab => (toric_path_step R C hf ab).2 (hdm ab hab)))
    (Toric.identity R C) v (by simp [Toric.identity, zeros]) h

/-- `PlanarMWPMDecoder.decode` with the matching as a parameter: `mtP` / `mtD` map the defect list of
    one plaquette type (from which the decoder builds that type's graph, virtual nodes included) to
    the mates returned for that graph -/
def planarDecodeWith (R C : Int) (mtP mtD : List (Int × Int) → List ((Int × Int) × (Int × Int)))
    (s : BVec) : Except IdxErr BVec :=
  let idx := Planar.syndromeToPlaquettes R C s
  Planar.applyMates R C (mtP (idx.filter fun i => Planar.isPrimal i.1 i.2) ++
    mtD (idx.filter fun i => Planar.isDual i.1 i.2))

/-- the X-part of the planar MWPM recovery depends only on the primal (Z-type) syndrome bits, the
    Z-part only on the dual (X-type) ones -/
theorem mwpm_split_planar_syndrome (R C : Int) (hf : PlanarFlattenBound R C)
    (mtP mtD : List (Int × Int) → List ((Int × Int) × (Int × Int)))
    (hP : ∀ l, ∀ ab ∈ mtP l, Planar.isPrimal ab.1.1 ab.1.2 = true)
    (hD : ∀ l, ∀ ab ∈ mtD l, Planar.isPrimal ab.1.1 ab.1.2 = false)
    (s s' v v' : BVec) (h : planarDecodeWith R C mtP mtD s = .ok v)
    (h' : planarDecodeWith R C mtP mtD s' = .ok v') :
    (((Planar.syndromeToPlaquettes R C s).filter fun i => Planar.isPrimal i.1 i.2) =
      ((Planar.syndromeToPlaquettes R C s').filter fun i => Planar.isPrimal i.1 i.2) →
        xHalf v = xHalf v') ∧
    (((Planar.syndromeToPlaquettes R C s).filter fun i => Planar.isDual i.1 i.2) =
      ((Planar.syndromeToPlaquettes R C s').filter fun i => Planar.isDual i.1 i.2) →
        zHalf v = zHalf v') := by
  unfold planarDecodeWith at h h'
  obtain ⟨vp, vd, e1, e2, x1, z1, _, _⟩ := mwpm_split_planar R C hf _ _ (hP _) (hD _) v h
  obtain ⟨vp', vd', e1', e2', x1', z1', _, _⟩ := mwpm_split_planar R C hf _ _ (hP _) (hD _) v' h'
  constructor
  · intro heq
    rw [heq] at e1
    rw [x1, x1']
    have : Except.ok (ε := IdxErr) vp = .ok vp' := by rw [← e1, ← e1']
    injection this with this; rw [this]
  · intro heq
    rw [heq] at e2
    rw [z1, z1']
    have : Except.ok (ε := IdxErr) vd = .ok vd' := by rw [← e2, ← e2']
    injection this with this; rw [this]

/-! ### the reduction -/

/-- a component of the recovery that is an XOR of paths whose total distance is bounded through a
    minimal matching by the weight of the error component is no heavier than that component -/
theorem mwpm_component_weight_le (n : Nat) (rc ec : BVec) (h : ChainBound n rc ec) :
    bsfWt rc ≤ bsfWt ec := chainBound_le n rc ec h

/-- **mwpm_corrects_of_chain_bound_partial**: for a CSS code with the distance property, a recovery
    that reproduces the syndrome and whose X- and Z-components satisfy `ChainBound` against the
    error's components corrects every error whose X-component and Z-component EACH have weight
    `≤ t = ⌊(d−1)/2⌋` (the property's own hypothesis). -/
theorem mwpm_corrects_of_chain_bound_partial (S L : List BVec) (n d : Nat)
    (hS : ∀ row ∈ S, row.length = 2 * n) (hL : ∀ row ∈ L, row.length = 2 * n)
    (hcss : IsCSS S) (hd : DistHyp S L n d) (hd1 : 1 ≤ d)
    (e r : BVec) (he : e.length = 2 * n) (hr : r.length = 2 * n)
    (hs : synd S r = synd S e)
    (heX : bsfWt (xPart e) ≤ (d - 1) / 2) (heZ : bsfWt (zPart e) ≤ (d - 1) / 2)
    (hX : ChainBound n (xPart r) (xPart e)) (hZ : ChainBound n (zPart r) (zPart e)) :
    corrected S L e r = true := by
  have wX := chainBound_le n _ _ hX
  have wZ := chainBound_le n _ _ hZ
  exact corrected_of_components S L n d hS hL hcss hd r e hr he hs (by omega) (by omega)

/-
PROVED in Props/C14/Chain.lean (formerly stated only): the T-join lemma `chain_induces_matching_generic`
and its boundary form `chain_induces_matching_boundary_generic`, `chain_induces_matching_toric`,
`chain_induces_matching_planar` (nearest-virtual-plaquette graph with the extra node),
`toric_mwpm_corrects`, `planar_mwpm_corrects`, `planar_decode_corrects` (every external fact a named
hypothesis; `ChainBound` derived, not assumed) and `toric_mwpm_corrects_all_sizes`,
`planar_mwpm_corrects_all_sizes`, in which the C07 / C08 / C15 hypotheses are discharged from the
proved theorems of those properties (d = min R C for every R, C ≥ 2) — all for ANY minimum-weight
perfect matchings.

NOW PROVED ELSEWHERE (kept here as a pointer): the bridge from C13 to the `MinWeightPM` /
`MinWeightPMPlanar` hypothesis of the `…_all_sizes` theorems is `Props/C14/Bridge.lean`
(`bridge_planar`, `bridge_toric`, `planar_mwpm_corrects_networkx`, `toric_mwpm_corrects_networkx`):
under `NxContract oracle` ALONE every error with |X|,|Z| ≤ t is corrected, for all sizes, and the
contract is satisfiable (`exact_matcher_meets_contract`).

STATED, NOT PROVED: that the real networkx routine meets `NxContract` (external code; tested against
the verified optimum on every run by the C13 harness); the Blossom V backend (absent in this sandbox).
-/

/-! ### non-vacuity -/

/-- a 3×3 planar lattice satisfies the flatten bound -/
example : PlanarFlattenBound 3 3 := by
  intro r c hb hs
  simp [Planar.inBounds, Planar.maxRow, Planar.maxCol] at hb
  simp only [Planar.isSite, Planar.isPlaquette, Bool.not_eq_true', beq_eq_false_iff_ne, ne_eq] at hs
  obtain ⟨⟨⟨h0, h1⟩, h2⟩, h3⟩ := hb
  have h1' := of_decide_eq_true h1
  have h3' := of_decide_eq_true h3
  have hr : r = 0 ∨ r = 1 ∨ r = 2 ∨ r = 3 ∨ r = 4 := by omega
  rcases hr with rfl | rfl | rfl | rfl | rfl <;>
    simp only [Planar.flatten, Planar.nQubits] <;> omega

/-- primal mates then dual mates on the 3×3 planar code: both halves are non-trivial and split -/
example :
    (Planar.applyMates 3 3 ([((1, 0), (1, 2))] ++ [((0, 1), (2, 1))])).toOption.map
        (fun v => (xHalf v, zHalf v)) =
      ((Planar.applyMates 3 3 [((1, 0), (1, 2))]).toOption.bind fun vp =>
        (Planar.applyMates 3 3 [((0, 1), (2, 1))]).toOption.map fun vd => (xHalf vp, zHalf vd)) ∧
    (Planar.applyMates 3 3 [((1, 0), (1, 2))]).toOption.map bsfWt = some 1 := by
  decide +kernel

/-- `ChainBound` is satisfiable with a non-trivial path list -/
example : ChainBound 2 [true, true, false, false] [true, true, false, false] :=
  ⟨[[true, false, false, false], [false, true, false, false]], [1, 1], 2, by decide, by decide,
    by repeat constructor, by decide, by decide⟩

end Qec.C14
