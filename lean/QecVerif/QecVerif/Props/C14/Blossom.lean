/-
  C14, part 5 — the Blossom V backend: when the C library `libpypm.so` loads, `gt.mwpm` dispatches to
  `gt.mwpm_blossom5` instead of `gt.mwpm_networkx`.  This file is the analogue of Props/C14/Bridge.lean for that path:
  the planar and toric MWPM decoders correct every error within half the distance, for all sizes, with the documented
  contract of the C routine (`Blossom5.ClibContract`) as the sole trusted hypothesis, under the explicit size bound
  `R + C < infty()/10`.

  MODEL (Model/Blossom5.lean, line by line after src/qecsim/graphtools/__init__.py and blossom5.py):
    `mwpmBlossom5`  `gt.mwpm_blossom5`: empty-graph shortcut, `weight_to_int_fn(list(graph.values()))` applied to every
                    weight (`Matching.weightToInt`, already modelled for C13), then `blossom5.mwpm(edges)`;
    `mwpmObjs`      `blossom5.mwpm`: `nodes = list(set(...))` (hash order = the parameter `order`), `node_to_id`,
                    `edge_ids`, `mwpm_ids`, mates mapped back through `nodes[...]` into a set;
    `mwpmIds`       `blossom5.mwpm_ids`: `sorted(set(ids))`, the `assert` on contiguous ids, the C call on the
                    three parallel arrays, `{tuple(sorted((a, b))) for a, b in enumerate(mates_array)}`.
  EXTERNAL (the record `Backend`): the C routine `clib`, `infty()`, the hash order `order`, the float products `prod`
  (scaled rule only — never reached by the decoders).  `all(isinstance(wt, int) ...)` is `true` for the decoders: their
  weights are `abs(int) + abs(int)` and the literal `0`.

  PROVED here, for all sizes R, C ≥ 2 with `R + C < infty/10`, every hash order and every `clib` meeting the contract:
    * `weight_to_int_identity_planar / _toric`: `weight_to_int_fn` is the identity on every weight of the decoder's graph
      (all are integers ≤ R + C);
    * `bridge_planar_blossom`, `bridge_toric_blossom`: `mwpm_blossom5` raises nothing (no assert, no conversion
      failure) and its answer decodes to a minimum-weight perfect matching of the modelled graph;
    * `planar_mwpm_corrects_blossom`, `toric_mwpm_corrects_blossom`: every error with |X-support|, |Z-support| ≤
      ⌊(min R C − 1)/2⌋ is corrected;
    * `planar_mwpm_corrects_gt_mwpm`, `toric_mwpm_corrects_gt_mwpm`: the same for the dispatching `gt.mwpm`, whichever
      backend is available, each under its own contract;
    * `clib_contract_satisfiable`, `…_corrects_exact_clib`: an exhaustive matcher meets `ClibContract`, so none of the
      above is vacuous.
  TRUSTED: `ClibContract` for the real Blossom V library (not part of /repo, not installed here; the harness exercises
  the real wrapper against a stand-in library, harness/qv/c13_standin.py).
-/
import QecVerif.Props.C14.Bridge
import QecVerif.Lemmas.BlossomBridge
import QecVerif.Lemmas.BlossomExact
namespace Qec.C14.Blossom
open Qec Qec.Dec Qec.Matching Qec.TJoin Qec.MwpmBridge Qec.NaiveDecode Qec.ChainToric Qec.C14.Bridge
open Qec.Blossom5 Qec.BlossomBridge Qec.BlossomExact

/-! ### the external parts, and the decoders on the Blossom V path -/

/-- everything external on the Blossom V path -/
structure Backend where
  /-- the C routine `lib.mwpm` of `libpypm.so` -/
  clib : Clib
  /-- `blossom5.infty()` -/
  infty : Rat
  /-- exact value of the float product `weight * scaling` (scaled rule of `weight_to_int_fn` only) -/
  prod : Rat → Rat
  /-- hash order of `list(set(node for ... ))` in `blossom5.mwpm`, as a function of the graph -/
  order : Graph → List Node

/-- `order` lists the node set of every graph, each node once — all that is known about a Python set's order -/
def HashOrder (order : Graph → List Node) : Prop := ∀ g, (order g).Perm (nodesOf g)

/-- `gt.mwpm_blossom5(graph)`; `none` = an exception -/
def blossomRaw (B : Backend) (g : Graph) : Option (List Edge) :=
  Blossom5.mwpmBlossom5 B.infty true B.prod (B.order g) B.clib g

/-- the mates `PlanarMWPMDecoder.decode` gets for the graph of the defects `ds` of one type (node numbers mapped back
    to plaquette indices) -/
def planarMatesBlossom (B : Backend) (R C : Int) (t : Bool) (ds : List Idx2) : List (Idx2 × Idx2) :=
  decPairs (decF (planarWeightedEdges R C t ds)) ((blossomRaw B (build (planarGraphOps R C t ds))).getD [])

def toricMatesBlossom (B : Backend) (R C : Int) (ds : List Toric.Idx) : List (Toric.Idx × Toric.Idx) :=
  decPairs (decF (toricWeightedEdges R C ds)) ((blossomRaw B (build (toricGraphOps R C ds))).getD [])

/-- `PlanarMWPMDecoder.decode` with `gt.mwpm = mwpm_blossom5` -/
def planarDecodeBlossom (B : Backend) (R C : Int) (s : BVec) : Except IdxErr BVec :=
  planarDecodeWith R C (planarMatesBlossom B R C true) (planarMatesBlossom B R C false) s

/-- `ToricMWPMDecoder.decode` with `gt.mwpm = mwpm_blossom5` -/
def toricDecodeBlossom (B : Backend) (R C : Int) (s : BVec) : Except IdxErr BVec :=
  toricMwpmRecovery R C (toricMatesBlossom B R C (toricDefects R C s 0)) (toricMatesBlossom B R C (toricDefects R C s 1))

/-! ### `weight_to_int_fn` is the identity on the decoders' distances -/

/-- **weight_to_int_identity_planar**: for real defects `ds` of one type and `R + C < infty/10`, the function
    `weight_to_int_fn(list(graph.values()))` maps every weight stored in the decoder's graph to itself (the identity
    rule, or the zero rule when all weights are 0) -/
theorem weight_to_int_identity_planar (infty : Rat) (prod : Rat → Rat) (R C : Int)
    (hinf : ((R + C : Int) : Rat) < infty / 10) (t : Bool) (ds : List Idx2)
    (hds : ∀ a ∈ ds, PlanarL.Real R C a ∧ Planar.isPrimal a.1 a.2 = t) :
    ∀ e ∈ build (planarGraphOps R C t ds), ∃ z : Int,
      weightToInt infty true ((build (planarGraphOps R C t ds)).map (·.2)) e.2 (prod e.2) = some z ∧ (z : Rat) = e.2 :=
  exact_of_bound infty prod (bound_of_le R C infty hinf (planar_weight_le R C t ds hds))

/-- the same for the toric graph of one lattice (any defect list) -/
theorem weight_to_int_identity_toric (infty : Rat) (prod : Rat → Rat) (R C : Int) (hR : 0 < R) (hC : 0 < C)
    (hinf : ((R + C : Int) : Rat) < infty / 10) (ds : List Toric.Idx) :
    ∀ e ∈ build (toricGraphOps R C ds), ∃ z : Int,
      weightToInt infty true ((build (toricGraphOps R C ds)).map (·.2)) e.2 (prod e.2) = some z ∧ (z : Rat) = e.2 :=
  exact_of_bound infty prod (bound_of_le R C infty hinf (toric_weight_le R C hR hC ds))

/-! ### the bridge -/

/-- **bridge (planar, Blossom V), arbitrary defect list**: for real defects `ds` of type `t` whose modelled graph has
    a perfect matching, `mwpm_blossom5` raises nothing and its decoded answer is a minimum-weight perfect matching of
    the modelled graph — if the C routine meets its contract, whatever the hash order -/
theorem bridge_planar_blossom_graph (B : Backend) (hc : ClibContract B.clib) (ho : HashOrder B.order)
    (R C : Int) (hR : 2 ≤ R) (hC : 2 ≤ C) (hinf : ((R + C : Int) : Rat) < B.infty / 10) (t : Bool) (ds : List Idx2)
    (hds : ∀ a ∈ ds, PlanarL.Real R C a ∧ Planar.isPrimal a.1 a.2 = t)
    (hex : ∃ m', isPerfectMatchingOfGraph (planarNodes R C t ds) (planarEdges R C t ds) m' = true) :
    (∃ M, blossomRaw B (build (planarGraphOps R C t ds)) = some M) ∧
    MinWeightPMPlanar R C t ds (planarMatesBlossom B R C t ds) := by
  have G := graphEnc_planar R C (planar_path_facts R C hR hC).1 t ds hds
  obtain ⟨M, h1, h2⟩ := bridge_generic_blossom B.clib hc B.infty B.prod (B.order (build (planarGraphOps R C t ds))) G
    (ho _) (bound_of_le R C B.infty hinf (planar_weight_le R C t ds hds)) (by rw [edgesOf_planar]; exact hex)
  have h1' : blossomRaw B (build (planarGraphOps R C t ds)) = some M := h1
  refine ⟨⟨M, h1'⟩, ?_⟩
  unfold planarMatesBlossom
  rw [h1']
  rw [edgesOf_planar] at h2
  exact h2

/-- **bridge_planar_blossom**: for EVERY syndrome `s` and either plaquette type, the matching the planar MWPM decoder
    obtains from `mwpm_blossom5` for the defects of `s` satisfies `MinWeightPMPlanar`, and no exception is raised on
    the way — under the contract of the C routine only (and the size bound) -/
theorem bridge_planar_blossom (B : Backend) (hc : ClibContract B.clib) (ho : HashOrder B.order)
    (R C : Int) (hR : 2 ≤ R) (hC : 2 ≤ C) (hinf : ((R + C : Int) : Rat) < B.infty / 10) (s : BVec) (t : Bool) :
    (∃ M, blossomRaw B (build (planarGraphOps R C t (planarDefects R C s t))) = some M) ∧
    MinWeightPMPlanar R C t (planarDefects R C s t) (planarMatesBlossom B R C t (planarDefects R C s t)) :=
  have H := (planar_path_facts R C hR hC).1
  bridge_planar_blossom_graph B hc ho R C hR hC hinf t _ (fun a ha => PlanarL.defects_real R C H s t a ha)
    (PlanarL.graph_has_pm R C H s t)

/-- **bridge (toric, Blossom V), arbitrary defect list** -/
theorem bridge_toric_blossom_graph (B : Backend) (hc : ClibContract B.clib) (ho : HashOrder B.order)
    (R C : Int) (hR : 0 < R) (hC : 0 < C) (hinf : ((R + C : Int) : Rat) < B.infty / 10) (ds : List Toric.Idx)
    (hex : ∃ m', isPerfectMatchingOfGraph (toricNodes ds) (toricEdges ds) m' = true) :
    (∃ M, blossomRaw B (build (toricGraphOps R C ds)) = some M) ∧
    MinWeightPM R C ds (toricMatesBlossom B R C ds) := by
  have G := graphEnc_toric R C hR hC ds
  obtain ⟨M, h1, h2⟩ := bridge_generic_blossom B.clib hc B.infty B.prod (B.order (build (toricGraphOps R C ds))) G
    (ho _) (bound_of_le R C B.infty hinf (toric_weight_le R C hR hC ds)) (by rw [edgesOf_toric]; exact hex)
  have h1' : blossomRaw B (build (toricGraphOps R C ds)) = some M := h1
  refine ⟨⟨M, h1'⟩, ?_⟩
  unfold toricMatesBlossom
  rw [h1']
  rw [edgesOf_toric] at h2
  exact h2

/-- **bridge_toric_blossom**: for every syndrome with an even number of defects on lattice `l` (every syndrome of an
    error has) -/
theorem bridge_toric_blossom (B : Backend) (hc : ClibContract B.clib) (ho : HashOrder B.order)
    (R C : Int) (hR : 2 ≤ R) (hC : 2 ≤ C) (hinf : ((R + C : Int) : Rat) < B.infty / 10) (s : BVec) (l : Int)
    (hev : (toricDefects R C s l).length % 2 = 0) :
    (∃ M, blossomRaw B (build (toricGraphOps R C (toricDefects R C s l))) = some M) ∧
    MinWeightPM R C (toricDefects R C s l) (toricMatesBlossom B R C (toricDefects R C s l)) :=
  bridge_toric_blossom_graph B hc ho R C (by omega) (by omega) hinf _
    (ToricL.graph_has_pm R C (toric_path_facts R C hR hC).1 s l hev)

/-! ### C14's MWPM clause on the Blossom V path -/

/-- **planar_mwpm_corrects_blossom**: for ALL sizes R, C ≥ 2 with `R + C < infty()/10` and `t = ⌊(min R C − 1)/2⌋`, if
    the Blossom V routine meets its contract (`ClibContract` — the only trusted hypothesis; `HashOrder` is all a Python
    set guarantees), every error whose X-component and Z-component EACH have weight ≤ t is corrected by the modelled
    planar MWPM decoder that obtains its matchings from `mwpm_blossom5` -/
theorem planar_mwpm_corrects_blossom (B : Backend) (hc : ClibContract B.clib) (ho : HashOrder B.order)
    (R C : Int) (hR : 2 ≤ R) (hC : 2 ≤ C) (hinf : ((R + C : Int) : Rat) < B.infty / 10)
    (e : BVec) (he : e.length = 2 * (Planar.nQubits R C).toNat)
    (heX : bsfWt (xPart e) ≤ ((min R C).toNat - 1) / 2) (heZ : bsfWt (zPart e) ≤ ((min R C).toNat - 1) / 2) :
    ∃ r, planarDecodeBlossom B R C (synd (Planar.stabilizers R C) e) = .ok r ∧
      synd (Planar.stabilizers R C) r = synd (Planar.stabilizers R C) e ∧
      corrected (Planar.stabilizers R C) [Planar.logicalX R C, Planar.logicalZ R C] e r = true := by
  obtain ⟨r, h1, h2, h3⟩ := planar_mwpm_corrects_all_sizes R C hR hC e he heX heZ _ _
    (bridge_planar_blossom B hc ho R C hR hC hinf (synd (Planar.stabilizers R C) e) true).2
    (bridge_planar_blossom B hc ho R C hR hC hinf (synd (Planar.stabilizers R C) e) false).2
  refine ⟨r, ?_, h2, h3⟩
  have e1 : ((Planar.syndromeToPlaquettes R C (synd (Planar.stabilizers R C) e)).filter
      fun i => Planar.isPrimal i.1 i.2) = planarDefects R C (synd (Planar.stabilizers R C) e) true := by
    unfold planarDefects
    apply List.filter_congr
    intro x _; simp
  have e2 : ((Planar.syndromeToPlaquettes R C (synd (Planar.stabilizers R C) e)).filter
      fun i => Planar.isDual i.1 i.2) = planarDefects R C (synd (Planar.stabilizers R C) e) false := by
    unfold planarDefects
    apply List.filter_congr
    intro x _; simp [Planar.isDual]
  unfold planarDecodeBlossom planarDecodeWith
  simp only
  rw [e1, e2]
  exact h1

/-- **toric_mwpm_corrects_blossom**: the same for the toric code, all sizes R, C ≥ 2 with `R + C < infty()/10` -/
theorem toric_mwpm_corrects_blossom (B : Backend) (hc : ClibContract B.clib) (ho : HashOrder B.order)
    (R C : Int) (hR : 2 ≤ R) (hC : 2 ≤ C) (hinf : ((R + C : Int) : Rat) < B.infty / 10)
    (e : BVec) (he : e.length = 2 * (Toric.nQubits R C).toNat)
    (heX : bsfWt (xPart e) ≤ ((min R C).toNat - 1) / 2) (heZ : bsfWt (zPart e) ≤ ((min R C).toNat - 1) / 2) :
    ∃ r, toricDecodeBlossom B R C (synd (Toric.stabilizers R C) e) = .ok r ∧
      synd (Toric.stabilizers R C) r = synd (Toric.stabilizers R C) e ∧
      corrected (Toric.stabilizers R C) (Toric.logicalXs R C ++ Toric.logicalZs R C) e r = true := by
  have H := (toric_path_facts R C hR hC).1
  obtain ⟨_, _, _, hev0⟩ := chain_induces_matching_toric R C hR hC H 0 (.inl rfl) e he
  obtain ⟨_, _, _, hev1⟩ := chain_induces_matching_toric R C hR hC H 1 (.inr rfl) e he
  exact toric_mwpm_corrects_all_sizes R C hR hC e he heX heZ _ _
    (bridge_toric_blossom B hc ho R C hR hC hinf _ 0 hev0).2 (bridge_toric_blossom B hc ho R C hR hC hinf _ 1 hev1).2

/-! ### the dispatching `gt.mwpm` -/

/-- `gt.mwpm(graph)` for the planar decoder: Blossom V when `blossom5.available()`, else networkx -/
def planarMatesGt (available : Bool) (B : Backend) (oracle : Graph → Bool → List Edge) (R C : Int) (t : Bool)
    (ds : List Idx2) : List (Idx2 × Idx2) :=
  decPairs (decF (planarWeightedEdges R C t ds))
    (Matching.mwpm available (fun g => (blossomRaw B g).getD []) (mwpmNetworkx oracle) (build (planarGraphOps R C t ds)))

def toricMatesGt (available : Bool) (B : Backend) (oracle : Graph → Bool → List Edge) (R C : Int)
    (ds : List Toric.Idx) : List (Toric.Idx × Toric.Idx) :=
  decPairs (decF (toricWeightedEdges R C ds))
    (Matching.mwpm available (fun g => (blossomRaw B g).getD []) (mwpmNetworkx oracle) (build (toricGraphOps R C ds)))

/-- **planar_mwpm_corrects_gt_mwpm**: whichever backend `gt.mwpm` dispatches to — Blossom V when the library loads
    (then under `ClibContract` and the size bound), networkx otherwise (then under `NxContract`) — the planar MWPM
    decoder corrects every error within half the distance, for all sizes -/
theorem planar_mwpm_corrects_gt_mwpm (available : Bool) (B : Backend) (oracle : Graph → Bool → List Edge)
    (R C : Int) (hR : 2 ≤ R) (hC : 2 ≤ C)
    (hb : available = true → ClibContract B.clib ∧ HashOrder B.order ∧ ((R + C : Int) : Rat) < B.infty / 10)
    (hn : available = false → C13.NxContract oracle)
    (e : BVec) (he : e.length = 2 * (Planar.nQubits R C).toNat)
    (heX : bsfWt (xPart e) ≤ ((min R C).toNat - 1) / 2) (heZ : bsfWt (zPart e) ≤ ((min R C).toNat - 1) / 2) :
    ∃ r, planarDecodeWith R C (planarMatesGt available B oracle R C true) (planarMatesGt available B oracle R C false)
        (synd (Planar.stabilizers R C) e) = .ok r ∧
      synd (Planar.stabilizers R C) r = synd (Planar.stabilizers R C) e ∧
      corrected (Planar.stabilizers R C) [Planar.logicalX R C, Planar.logicalZ R C] e r = true := by
  cases available with
  | true =>
    obtain ⟨h1, h2, h3⟩ := hb rfl
    exact planar_mwpm_corrects_blossom B h1 h2 R C hR hC h3 e he heX heZ
  | false => exact planar_mwpm_corrects_networkx oracle (hn rfl) R C hR hC e he heX heZ

/-- **toric_mwpm_corrects_gt_mwpm**: the same for the toric decoder -/
theorem toric_mwpm_corrects_gt_mwpm (available : Bool) (B : Backend) (oracle : Graph → Bool → List Edge)
    (R C : Int) (hR : 2 ≤ R) (hC : 2 ≤ C)
    (hb : available = true → ClibContract B.clib ∧ HashOrder B.order ∧ ((R + C : Int) : Rat) < B.infty / 10)
    (hn : available = false → C13.NxContract oracle)
    (e : BVec) (he : e.length = 2 * (Toric.nQubits R C).toNat)
    (heX : bsfWt (xPart e) ≤ ((min R C).toNat - 1) / 2) (heZ : bsfWt (zPart e) ≤ ((min R C).toNat - 1) / 2) :
    ∃ r, toricMwpmRecovery R C
        (toricMatesGt available B oracle R C (toricDefects R C (synd (Toric.stabilizers R C) e) 0))
        (toricMatesGt available B oracle R C (toricDefects R C (synd (Toric.stabilizers R C) e) 1)) = .ok r ∧
      synd (Toric.stabilizers R C) r = synd (Toric.stabilizers R C) e ∧
      corrected (Toric.stabilizers R C) (Toric.logicalXs R C ++ Toric.logicalZs R C) e r = true := by
  cases available with
  | true =>
    obtain ⟨h1, h2, h3⟩ := hb rfl
    exact toric_mwpm_corrects_blossom B h1 h2 R C hR hC h3 e he heX heZ
  | false => exact toric_mwpm_corrects_networkx oracle (hn rfl) R C hR hC e he heX heZ

/-! ### the contract is satisfiable: an exact matcher as the C routine -/

/-- **the Blossom V contract is satisfiable**: the exhaustive matcher `bruteClib` (the verified exhaustive search on
    the graph of the edge arrays, written into a mates array) meets `ClibContract` on every input -/
theorem clib_contract_satisfiable : ClibContract bruteClib := bruteClib_contract

/-- a concrete backend: the exact matcher as the C routine, `infty() = 2^30 = 1073741824`, nodes listed in the order of
    `nodesOf` (one admissible hash order) -/
def exactBackend : Backend := { clib := bruteClib, infty := 1073741824, prod := fun w => w, order := nodesOf }

theorem exactBackend_hashOrder : HashOrder exactBackend.order := fun _ => List.Perm.refl _

/-- hence, with NO hypothesis but the size bound: the modelled planar MWPM decoder on the Blossom V path with an exact
    matcher corrects every error with |X-support|, |Z-support| ≤ t, for all sizes with R + C < 2^30 / 10 -/
theorem planar_mwpm_corrects_exact_clib (R C : Int) (hR : 2 ≤ R) (hC : 2 ≤ C)
    (hinf : ((R + C : Int) : Rat) < 1073741824 / 10)
    (e : BVec) (he : e.length = 2 * (Planar.nQubits R C).toNat)
    (heX : bsfWt (xPart e) ≤ ((min R C).toNat - 1) / 2) (heZ : bsfWt (zPart e) ≤ ((min R C).toNat - 1) / 2) :
    ∃ r, planarDecodeBlossom exactBackend R C (synd (Planar.stabilizers R C) e) = .ok r ∧
      synd (Planar.stabilizers R C) r = synd (Planar.stabilizers R C) e ∧
      corrected (Planar.stabilizers R C) [Planar.logicalX R C, Planar.logicalZ R C] e r = true :=
  planar_mwpm_corrects_blossom exactBackend bruteClib_contract exactBackend_hashOrder R C hR hC hinf e he heX heZ

/-- … and the toric one -/
theorem toric_mwpm_corrects_exact_clib (R C : Int) (hR : 2 ≤ R) (hC : 2 ≤ C)
    (hinf : ((R + C : Int) : Rat) < 1073741824 / 10)
    (e : BVec) (he : e.length = 2 * (Toric.nQubits R C).toNat)
    (heX : bsfWt (xPart e) ≤ ((min R C).toNat - 1) / 2) (heZ : bsfWt (zPart e) ≤ ((min R C).toNat - 1) / 2) :
    ∃ r, toricDecodeBlossom exactBackend R C (synd (Toric.stabilizers R C) e) = .ok r ∧
      synd (Toric.stabilizers R C) r = synd (Toric.stabilizers R C) e ∧
      corrected (Toric.stabilizers R C) (Toric.logicalXs R C ++ Toric.logicalZs R C) e r = true :=
  toric_mwpm_corrects_blossom exactBackend bruteClib_contract exactBackend_hashOrder R C hR hC hinf e he heX heZ

/-
STATED, NOT PROVED (outside /repo):

  * `ClibContract lib.mwpm` for the REAL Blossom V routine (Kolmogorov's C++ code behind `libpypm.so`; its licence
    forbids redistribution, it is not installed here).  The harness runs the real Python wrapper against a stand-in
    library (harness/qv/c13_standin.py) and checks perfectness and total weight against the verified optimum.
  * that `ctypes` passes the three Python lists to the C function as the arrays the model calls `es` and reads the
    `c_int` mates back unchanged (int ↔ c_int is exact for |x| < 2^31; the weights are < infty/10 and the ids < n).
-/

/-! ### tests on tiny instances, with the exact matcher as the C routine and `infty() = 2^30 = 1073741824` -/

/-- the size bound holds for 3×3 and 5×5 with `infty() = 2^30 = 1073741824` -/
example : (((3 : Int) + 3 : Int) : Rat) < exactBackend.infty / 10 ∧ (((5 : Int) + 5 : Int) : Rat) < exactBackend.infty / 10 := by
  decide +kernel

/-- X(2,2) on the 3×3 planar code: two primal defects (1,2), (3,2) -/
private def p33 : BVec := Planar.site 3 3 P1.X (Planar.identity 3 3) (2, 2)

/-- the graph in program order (node numbers 0 = (1,2), 1 = (-1,2), 2 = (3,2), 3 = (5,2)); identity rule; the listing
    `nodes` of `exactBackend` and the edge arrays handed to the C routine (ids = positions in the listing, weights
    unchanged); the mates array; the set of sorted id pairs; the set of node pairs; the decoded mates — (1,2)–(3,2)
    and the two virtual plaquettes, total weight 1; the decoder corrects the error -/
example :
    planarDefects 3 3 (synd (Planar.stabilizers 3 3) p33) true = [(1, 2), (3, 2)] ∧
    build (planarGraphOps 3 3 true [(1, 2), (3, 2)]) = [((0, 1), 1), ((2, 3), 1), ((0, 2), 1), ((1, 3), 0)] ∧
    weightToIntKind exactBackend.infty true ((build (planarGraphOps 3 3 true [(1, 2), (3, 2)])).map (·.2)) = .ident ∧
    exactBackend.order (build (planarGraphOps 3 3 true [(1, 2), (3, 2)])) = [0, 2, 1, 3] ∧
    idEdges [0, 2, 1, 3] (fun w => w.num) (build (planarGraphOps 3 3 true [(1, 2), (3, 2)])) =
      [(0, 2, 1), (1, 3, 1), (0, 1, 1), (2, 3, 0)] ∧
    (List.range 4).map (mateOf bruteClib 4 [(0, 2, 1), (1, 3, 1), (0, 1, 1), (2, 3, 0)]) = [1, 0, 3, 2] ∧
    mwpmIds bruteClib [(0, 2, 1), (1, 3, 1), (0, 1, 1), (2, 3, 0)] = some [(0, 1), (2, 3)] ∧
    blossomRaw exactBackend (build (planarGraphOps 3 3 true [(1, 2), (3, 2)])) = some [(0, 2), (1, 3)] ∧
    planarMatesBlossom exactBackend 3 3 true [(1, 2), (3, 2)] = [((1, 2), (3, 2)), ((-1, 2), (5, 2))] ∧
    (planarDecodeBlossom exactBackend 3 3 (synd (Planar.stabilizers 3 3) p33)).toOption.map
      (corrected (Planar.stabilizers 3 3) [Planar.logicalX 3 3, Planar.logicalZ 3 3] p33) = some true := by
  decide +kernel

/-- another hash order (the listing reversed): other ids, other orientation and order of the returned pairs, the same
    matching, the error corrected -/
example : HashOrder (fun g => (nodesOf g).reverse) ∧
    blossomRaw { exactBackend with order := fun g => (nodesOf g).reverse }
      (build (planarGraphOps 3 3 true [(1, 2), (3, 2)])) = some [(3, 1), (2, 0)] ∧
    planarMatesBlossom { exactBackend with order := fun g => (nodesOf g).reverse } 3 3 true [(1, 2), (3, 2)] =
      [((5, 2), (-1, 2)), ((3, 2), (1, 2))] ∧
    (planarDecodeBlossom { exactBackend with order := fun g => (nodesOf g).reverse } 3 3
        (synd (Planar.stabilizers 3 3) p33)).toOption.map
      (corrected (Planar.stabilizers 3 3) [Planar.logicalX 3 3, Planar.logicalZ 3 3] p33) = some true :=
  ⟨fun g => List.reverse_perm _, by decide +kernel⟩

/-- the `assert` of `mwpm_ids` does fire on non-contiguous ids (never produced by `blossom5.mwpm`) -/
example : mwpmIds bruteClib [(0, 3, 1), (1, 3, 1)] = none := by decide +kernel

/-- X(2,2) Y(2,4) Z(5,3) on the 5×5 planar code: |X| = |Z| = 2 = t; mates of the primal graph, error corrected -/
private def p55 : BVec :=
  Planar.site 5 5 P1.Z (Planar.site 5 5 P1.Y (Planar.site 5 5 P1.X (Planar.identity 5 5) (2, 2)) (2, 4)) (5, 3)

example : bsfWt (xPart p55) = 2 ∧ bsfWt (zPart p55) = 2 ∧
    blossomRaw exactBackend (build (planarGraphOps 5 5 true
      (planarDefects 5 5 (synd (Planar.stabilizers 5 5) p55) true))) = some [(0, 4), (2, 5), (1, 3)] ∧
    planarMatesBlossom exactBackend 5 5 true (planarDefects 5 5 (synd (Planar.stabilizers 5 5) p55) true) =
      [((1, 2), (3, 2)), ((1, 4), (3, 4)), ((-1, 2), (-1, 4))] ∧
    (planarDecodeBlossom exactBackend 5 5 (synd (Planar.stabilizers 5 5) p55)).toOption.map
      (corrected (Planar.stabilizers 5 5) [Planar.logicalX 5 5, Planar.logicalZ 5 5] p55) = some true := by
  decide +kernel

/-- X(0,0,0) Z(1,1,1) Y(0,2,3) on the 5×5 torus: |X| = |Z| = 2 = t; mates of both lattices, error corrected -/
private def e55 : BVec :=
  Toric.site 5 5 P1.Y (Toric.site 5 5 P1.Z (Toric.site 5 5 P1.X (Toric.identity 5 5) (0, 0, 0)) (1, 1, 1)) (0, 2, 3)

example : bsfWt (xPart e55) = 2 ∧ bsfWt (zPart e55) = 2 ∧
    blossomRaw exactBackend (build (toricGraphOps 5 5 (toricDefects 5 5 (synd (Toric.stabilizers 5 5) e55) 0))) =
      some [(1, 2), (0, 3)] ∧
    toricMatesBlossom exactBackend 5 5 (toricDefects 5 5 (synd (Toric.stabilizers 5 5) e55) 0) =
      [((0, 1, 3), (0, 2, 3)), ((0, 0, 0), (0, 4, 0))] ∧
    toricMatesBlossom exactBackend 5 5 (toricDefects 5 5 (synd (Toric.stabilizers 5 5) e55) 1) =
      [((1, 0, 1), (1, 1, 1)), ((1, 1, 3), (1, 1, 4))] ∧
    (toricDecodeBlossom exactBackend 5 5 (synd (Toric.stabilizers 5 5) e55)).toOption.map
      (corrected (Toric.stabilizers 5 5) (Toric.logicalXs 5 5 ++ Toric.logicalZs 5 5) e55) = some true := by
  decide +kernel

/-- no defects: the graph is empty and `mwpm_blossom5` returns the empty set without calling the library -/
example : blossomRaw exactBackend (build (planarGraphOps 3 3 true [])) = some [] ∧
    (planarDecodeBlossom exactBackend 3 3 (synd (Planar.stabilizers 3 3) (Planar.identity 3 3))).toOption =
      some (Planar.identity 3 3) := by
  decide +kernel

/-- the dispatch: `available = true` is the Blossom V path, `false` the networkx path (both with exact matchers here) -/
example : planarMatesGt true exactBackend bruteNx 3 3 true [(1, 2), (3, 2)] = [((1, 2), (3, 2)), ((-1, 2), (5, 2))] ∧
    planarMatesGt false exactBackend bruteNx 3 3 true [(1, 2), (3, 2)] = [((3, 2), (1, 2)), ((5, 2), (-1, 2))] := by
  decide +kernel

end Qec.C14.Blossom
