/-
  C14, instances — the cross-property hypotheses of Props/C14.lean and Props/C14/Mwpm.lean DISCHARGED for the
  lattice families, for ALL sizes:

  * `PlanarFlattenBound R C` (R, C ≥ 2) and `ToricFlattenBound R C` (R, C ≥ 2) from C07's `flat_bijective`
    (Props/C07/Planar.lean, Props/C07/Toric.lean), hence `mwpm_split_planar'`, `mwpm_split_toric'`,
    `mwpm_split_planar_syndrome'`: the split of the MWPM recovery into a primal/X and a dual/Z half with no
    hypothesis other than the size constraint of the constructor;
  * `DistHyp S L n (min R C)` for the planar, toric, rotated planar and rotated toric codes, and `DistHyp S L n L`
    for the colour 6.6.6 code, from C08's `planar_isDistance`, `toric_isDistance`, `rotatedplanar_isDistance`,
    `rotatedtoric_isDistance`, `color666_isDistance`
    (`distHyp_of_isDistance` is the generic bridge: the lower-bound half of `IsDistance` IS `DistHyp`);
  * hence `naive_corrects_*`: on every code of these five families that passes the decoder's `max_qubits` guard
    (`max_qubits` falsy, or n ≤ max_qubits; default 10: planar 2×2, 2×3, 3×2, rotated planar 3×3, toric 2×2,
    rotated toric 2×2, 2×4, 4×2, colour 3) the naive decoder returns a recovery and corrects every error of TOTAL weight
    ≤ ⌊(d − 1)/2⌋.  (For exactly these sizes t = ⌊(d−1)/2⌋ ∈ {0, 1}; the theorems are nevertheless stated
    and proved for every size and every `max_qubits`, since `max_qubits` is a constructor argument.)
  (`naive_corrects_of_isDistance` = `naive_corrects_partial` + `naive_guard` of Props/C14.lean with `DistHyp`
  discharged.)
  The MWPM correction theorems with their C07 / C08 / C15 hypotheses discharged are in Props/C14/Chain.lean
  (`toric_mwpm_corrects_all_sizes`, `planar_mwpm_corrects_all_sizes`; only C13's minimality remains there).
-/
import QecVerif.Props.C14
import QecVerif.Props.C08
import QecVerif.Props.C07.Planar
import QecVerif.Props.C07.Toric
namespace Qec.C14.Instances
open Qec Qec.C14 Qec.NaiveDecode Qec.MwpmSplit Qec.MwpmReduce

/-! ### the flatten bounds (C07) and the unconditional split -/

/-- planar, all R, C ≥ 2: in-bounds sites are numbered below n -/
theorem planar_flattenBound (R C : Int) (hR : 2 ≤ R) (hC : 2 ≤ C) : PlanarFlattenBound R C := by
  intro r c hb hs
  have := (C07.Planar.flat_bijective R C hR hC).2.2.1 r c hb hs
  omega

/-- toric, all R, C ≥ 2: every index is numbered below n -/
theorem toric_flattenBound (R C : Int) (hR : 2 ≤ R) (hC : 2 ≤ C) : ToricFlattenBound R C := by
  intro i
  have := (C07.Toric.flat_bijective R C hR hC).2.2.2.1 i
  omega

/-- **mwpm_split (planar), no hypothesis left** -/
theorem mwpm_split_planar' (R C : Int) (hR : 2 ≤ R) (hC : 2 ≤ C)
    (pm dm : List ((Int × Int) × (Int × Int)))
    (hp : ∀ ab ∈ pm, Planar.isPrimal ab.1.1 ab.1.2 = true)
    (hdm : ∀ ab ∈ dm, Planar.isPrimal ab.1.1 ab.1.2 = false)
    (v : BVec) (h : Planar.applyMates R C (pm ++ dm) = .ok v) :
    ∃ vp vd, Planar.applyMates R C pm = .ok vp ∧ Planar.applyMates R C dm = .ok vd ∧
      xHalf v = xHalf vp ∧ zHalf v = zHalf vd ∧
      zHalf vp = zHalf (Planar.identity R C) ∧ xHalf vd = xHalf (Planar.identity R C) :=
  mwpm_split_planar R C (planar_flattenBound R C hR hC) pm dm hp hdm v h

/-- **mwpm_split (toric), no hypothesis left** -/
theorem mwpm_split_toric' (R C : Int) (hR : 2 ≤ R) (hC : 2 ≤ C)
    (pm dm : List (Toric.Idx × Toric.Idx))
    (hp : ∀ ab ∈ pm, (Toric.norm R C ab.1).1 = Toric.primalIndex)
    (hdm : ∀ ab ∈ dm, (Toric.norm R C ab.1).1 ≠ Toric.primalIndex)
    (v : BVec) (h : Toric.applyMates R C (pm ++ dm) = .ok v) :
    ∃ vp vd, Toric.applyMates R C pm = .ok vp ∧ Toric.applyMates R C dm = .ok vd ∧
      xHalf v = xHalf vp ∧ zHalf v = zHalf vd ∧
      zHalf vp = zHalf (Toric.identity R C) ∧ xHalf vd = xHalf (Toric.identity R C) :=
  mwpm_split_toric R C (toric_flattenBound R C hR hC) pm dm hp hdm v h

/-- the X-part of the planar MWPM recovery depends only on the primal syndrome bits, the Z-part only on the dual
    ones — no hypothesis left -/
theorem mwpm_split_planar_syndrome' (R C : Int) (hR : 2 ≤ R) (hC : 2 ≤ C)
    (mtP mtD : List (Int × Int) → List ((Int × Int) × (Int × Int)))
    (hP : ∀ l, ∀ ab ∈ mtP l, Planar.isPrimal ab.1.1 ab.1.2 = true)
    (hD : ∀ l, ∀ ab ∈ mtD l, Planar.isPrimal ab.1.1 ab.1.2 = false)
    (s s' v v' : BVec) (h : planarDecodeWith R C mtP mtD s = .ok v)
    (h' : planarDecodeWith R C mtP mtD s' = .ok v') :
    (((Planar.syndromeToPlaquettes R C s).filter fun i => Planar.isPrimal i.1 i.2) =
      ((Planar.syndromeToPlaquettes R C s').filter fun i => Planar.isPrimal i.1 i.2) →
        xHalf v = xHalf v') ∧
    (((Planar.syndromeToPlaquettes R C s).filter fun i => Planar.isDual i.1 i.2) =
      ((Planar.syndromeToPlaquettes R C s').filter fun i => Planar.isDual i.1 i.2) →
        zHalf v = zHalf v') :=
  mwpm_split_planar_syndrome R C (planar_flattenBound R C hR hC) mtP mtD hP hD s s' v v' h h'

/-! ### the distance hypothesis (C08) -/

/-- the lower-bound half of C08's `IsDistance` is C14's `DistHyp` -/
theorem distHyp_of_isDistance (n : Nat) (S L : List BVec) (d : Nat) (h : Distance.IsDistance n S L d) :
    DistHyp S L n d := by
  intro v hv hs hw
  by_contra hno
  have hex : ∃ l ∈ L, bsp v l = true := by
    simpa [isZero, synd] using hno
  have hc : Distance.commAll S v = true := by
    simpa [isZero, synd, Distance.commAll] using hs
  have := h.2 v hv ⟨hc, hex⟩
  simp only [Distance.wt] at this
  omega

theorem planar_distHyp (R C : Int) (hR : 2 ≤ R) (hC : 2 ≤ C) :
    DistHyp (Planar.stabilizers R C) [Planar.logicalX R C, Planar.logicalZ R C] (Planar.nQubits R C).toNat
      (min R C).toNat :=
  distHyp_of_isDistance _ _ _ _ (C08.planar_isDistance R C hR hC).1

theorem toric_distHyp (R C : Int) (hR : 2 ≤ R) (hC : 2 ≤ C) :
    DistHyp (Toric.stabilizers R C) (Toric.logicalXs R C ++ Toric.logicalZs R C) (Toric.nQubits R C).toNat
      (min R C).toNat :=
  distHyp_of_isDistance _ _ _ _ (C08.toric_isDistance R C hR hC).1

theorem rotatedplanar_distHyp (R C : Int) (hR : 3 ≤ R) (hC : 3 ≤ C) :
    DistHyp (RotatedPlanar.stabilizers R C) [RotatedPlanar.logicalX R C, RotatedPlanar.logicalZ R C]
      (RotatedPlanar.nQubits R C).toNat (min R C).toNat :=
  distHyp_of_isDistance _ _ _ _ (C08.rotatedplanar_isDistance R C hR hC).1

theorem rotatedtoric_distHyp (R C : Int) (hR : 2 ≤ R) (hC : 2 ≤ C) (hRe : R % 2 = 0) (hCe : C % 2 = 0) :
    DistHyp (RotatedToric.stabilizers R C) (RotatedToric.logicalXs R C ++ RotatedToric.logicalZs R C)
      (RotatedToric.nQubits R C).toNat (min R C).toNat :=
  distHyp_of_isDistance _ _ _ _ (C08.rotatedtoric_isDistance R C hR hC hRe hCe).1

theorem color666_distHyp (L : Int) (hL : 3 ≤ L) (hodd : L % 2 = 1) :
    DistHyp (Color666.stabilizers L) [Color666.logicalX L, Color666.logicalZ L] (Color666.nQubits L).toNat
      L.toNat :=
  distHyp_of_isDistance _ _ _ _ (C08.color666_isDistance L hL hodd).1

/-! ### the naive decoder on the lattice codes -/

/-- generic: for a code with C08's `IsDistance … d` (d ≥ 1) whose size passes the `max_qubits` guard, the naive
    decoder object returns a recovery for the syndrome of every error `e` of total weight ≤ ⌊(d−1)/2⌋, no
    heavier than `e`, and `r ⊕ e` commutes with all stabilizers and all logicals -/
theorem naive_corrects_of_isDistance (S L : List BVec) (n d : Nat) (hS : ∀ row ∈ S, row.length = 2 * n)
    (hdist : Distance.IsDistance n S L d) (hd1 : 1 ≤ d)
    (mq : Option Nat) (hmq : ∀ m, mq = some m → m = 0 ∨ n ≤ m)
    (e : BVec) (he : e.length = 2 * n) (hw : bsfWt e ≤ (d - 1) / 2) :
    ∃ r, naiveDecoderDecode mq S n (synd S e) = .ok (some r) ∧ bsfWt r ≤ bsfWt e ∧
      corrected S L e r = true := by
  obtain ⟨r, h1, h2, h3⟩ :=
    naive_corrects_partial S L n d hS (distHyp_of_isDistance n S L d hdist) hd1 e he hw
  refine ⟨r, ?_, h2, h3⟩
  rw [naive_guard, if_neg, h1]
  rintro ⟨m, hm, hm0, hgt⟩
  have := hmq m hm
  omega

theorem naive_corrects_planar (R C : Int) (hR : 2 ≤ R) (hC : 2 ≤ C) (mq : Option Nat)
    (hmq : ∀ m, mq = some m → m = 0 ∨ (Planar.nQubits R C).toNat ≤ m)
    (e : BVec) (he : e.length = 2 * (Planar.nQubits R C).toNat) (hw : bsfWt e ≤ ((min R C).toNat - 1) / 2) :
    ∃ r, naiveDecoderDecode mq (Planar.stabilizers R C) (Planar.nQubits R C).toNat
        (synd (Planar.stabilizers R C) e) = .ok (some r) ∧ bsfWt r ≤ bsfWt e ∧
      corrected (Planar.stabilizers R C) [Planar.logicalX R C, Planar.logicalZ R C] e r = true :=
  naive_corrects_of_isDistance _ _ _ _ (C07.Planar.planar_valid R C hR hC).len_S
    (C08.planar_isDistance R C hR hC).1 (by show 1 ≤ (min R C).toNat; omega) mq hmq e he hw

theorem naive_corrects_toric (R C : Int) (hR : 2 ≤ R) (hC : 2 ≤ C) (mq : Option Nat)
    (hmq : ∀ m, mq = some m → m = 0 ∨ (Toric.nQubits R C).toNat ≤ m)
    (e : BVec) (he : e.length = 2 * (Toric.nQubits R C).toNat) (hw : bsfWt e ≤ ((min R C).toNat - 1) / 2) :
    ∃ r, naiveDecoderDecode mq (Toric.stabilizers R C) (Toric.nQubits R C).toNat
        (synd (Toric.stabilizers R C) e) = .ok (some r) ∧ bsfWt r ≤ bsfWt e ∧
      corrected (Toric.stabilizers R C) (Toric.logicalXs R C ++ Toric.logicalZs R C) e r = true :=
  naive_corrects_of_isDistance _ _ _ _ (C07.Toric.toric_valid R C hR hC).len_S
    (C08.toric_isDistance R C hR hC).1 (by show 1 ≤ (min R C).toNat; omega) mq hmq e he hw

theorem naive_corrects_rotatedplanar (R C : Int) (hR : 3 ≤ R) (hC : 3 ≤ C) (mq : Option Nat)
    (hmq : ∀ m, mq = some m → m = 0 ∨ (RotatedPlanar.nQubits R C).toNat ≤ m)
    (e : BVec) (he : e.length = 2 * (RotatedPlanar.nQubits R C).toNat)
    (hw : bsfWt e ≤ ((min R C).toNat - 1) / 2) :
    ∃ r, naiveDecoderDecode mq (RotatedPlanar.stabilizers R C) (RotatedPlanar.nQubits R C).toNat
        (synd (RotatedPlanar.stabilizers R C) e) = .ok (some r) ∧ bsfWt r ≤ bsfWt e ∧
      corrected (RotatedPlanar.stabilizers R C) [RotatedPlanar.logicalX R C, RotatedPlanar.logicalZ R C] e r
        = true :=
  naive_corrects_of_isDistance _ _ _ _ (C07.RotatedPlanar.rotated_planar_valid R C hR hC).len_S
    (C08.rotatedplanar_isDistance R C hR hC).1 (by show 1 ≤ (min R C).toNat; omega) mq hmq e he hw

theorem naive_corrects_rotatedtoric (R C : Int) (hR : 2 ≤ R) (hC : 2 ≤ C) (hRe : R % 2 = 0) (hCe : C % 2 = 0)
    (mq : Option Nat) (hmq : ∀ m, mq = some m → m = 0 ∨ (RotatedToric.nQubits R C).toNat ≤ m)
    (e : BVec) (he : e.length = 2 * (RotatedToric.nQubits R C).toNat)
    (hw : bsfWt e ≤ ((min R C).toNat - 1) / 2) :
    ∃ r, naiveDecoderDecode mq (RotatedToric.stabilizers R C) (RotatedToric.nQubits R C).toNat
        (synd (RotatedToric.stabilizers R C) e) = .ok (some r) ∧ bsfWt r ≤ bsfWt e ∧
      corrected (RotatedToric.stabilizers R C) (RotatedToric.logicalXs R C ++ RotatedToric.logicalZs R C) e r
        = true :=
  naive_corrects_of_isDistance _ _ _ _ (C07.RotatedToric.rtoric_valid R C ⟨hR, hC, hRe, hCe⟩).len_S
    (C08.rotatedtoric_isDistance R C hR hC hRe hCe).1 (by show 1 ≤ (min R C).toNat; omega) mq hmq e he hw

theorem naive_corrects_color666 (L : Int) (hL : 3 ≤ L) (hodd : L % 2 = 1) (mq : Option Nat)
    (hmq : ∀ m, mq = some m → m = 0 ∨ (Color666.nQubits L).toNat ≤ m)
    (e : BVec) (he : e.length = 2 * (Color666.nQubits L).toNat) (hw : bsfWt e ≤ (L.toNat - 1) / 2) :
    ∃ r, naiveDecoderDecode mq (Color666.stabilizers L) (Color666.nQubits L).toNat
        (synd (Color666.stabilizers L) e) = .ok (some r) ∧ bsfWt r ≤ bsfWt e ∧
      corrected (Color666.stabilizers L) [Color666.logicalX L, Color666.logicalZ L] e r = true :=
  naive_corrects_of_isDistance _ _ _ _ (C07.Color666.color666_valid L hL hodd).len_S
    (C08.color666_isDistance L hL hodd).1 (by show 1 ≤ L.toNat; omega) mq hmq e he hw

/-! ### non-vacuity -/

/-- the default decoder object (`max_qubits = 10`) accepts the rotated planar 3×3 code (9 qubits, t = 1), and a
    weight-1 error exists; the 3×3 planar code (13 qubits) is refused by the default guard but accepted with
    `max_qubits = None` -/
example : (∀ m, naiveDefaultMaxQubits = some m → m = 0 ∨ (RotatedPlanar.nQubits 3 3).toNat ≤ m) ∧
    ((min (3 : Int) 3).toNat - 1) / 2 = 1 ∧
    (∃ e : BVec, e.length = 2 * (RotatedPlanar.nQubits 3 3).toNat ∧ bsfWt e = 1) ∧
    (∀ m, (none : Option Nat) = some m → m = 0 ∨ (Planar.nQubits 3 3).toNat ≤ m) := by
  refine ⟨?_, by decide, ⟨true :: List.replicate 17 false, by decide, by decide⟩, ?_⟩
  · intro m hm; simp only [naiveDefaultMaxQubits, Option.some.injEq] at hm; subst hm; right; decide
  · intro m hm; cases hm

example : PlanarFlattenBound 7 4 ∧ ToricFlattenBound 5 9 :=
  ⟨planar_flattenBound 7 4 (by decide) (by decide), toric_flattenBound 5 9 (by decide) (by decide)⟩

end Qec.C14.Instances
